import NeumannModel.Paths.AlgoSpec
/-
  C18 — the graph-theory half of the correctness proof of Kruskal's algorithm (minimum spanning forest).

  Part 1: `Joined F` is an equivalence relation, monotone in `F`; adding one edge merges two classes.
  Part 2: `classes ns F`, the number of classes of `Joined F` among the nodes `ns`; adding an edge
          between two unjoined nodes removes exactly one class; an edge-by-edge acyclic list of `k`
          edges over `n` nodes has `n - k` classes.
  Part 3: `SeqAcyclic` and the textbook `IsForest` coincide (for duplicate-free lists over known nodes).
  Part 4: the abstract Kruskal loop `greedy` (the union-find replaced by the relation `Joined acc`):
          the result is a spanning forest of minimum total weight among all acyclic spanning
          competitors, and its ascending weight list does not depend on the scan order of equal weights.
-/
namespace Neumann.Paths

set_option linter.unusedVariables false
set_option linter.unusedSimpArgs false

/-! ## Part 1 — the relation `Joined` -/

theorem Joined.trans {F : List Edge} {u v w : Nat} (h1 : Joined F u v) (h2 : Joined F v w) :
    Joined F u w := by
  induction h1 with
  | refl _ => exact h2
  | step e he hl _ ih => exact Joined.step e he hl (ih h2)

/-- one edge of `F` joins its two ends -/
theorem Joined.single {F : List Edge} (e : Edge) (he : e ∈ F) : Joined F e.src e.dst :=
  Joined.step e he (Or.inl ⟨rfl, rfl⟩) (Joined.refl _)

theorem Joined.single' {F : List Edge} (e : Edge) (he : e ∈ F) : Joined F e.dst e.src :=
  Joined.step e he (Or.inr ⟨rfl, rfl⟩) (Joined.refl _)

theorem Joined.symm {F : List Edge} {u v : Nat} (h : Joined F u v) : Joined F v u := by
  induction h with
  | refl _ => exact Joined.refl _
  | step e he hl _ ih => exact ih.trans (Joined.step e he hl.symm (Joined.refl _))

theorem Joined.of_rel {F F' : List Edge} {u v : Nat} (h : ∀ e, e ∈ F → Joined F' e.src e.dst)
    (hj : Joined F u v) : Joined F' u v := by
  induction hj with
  | refl _ => exact Joined.refl _
  | step e he hl _ ih =>
    rcases hl with ⟨a, b⟩ | ⟨a, b⟩
    · subst a; subst b; exact (h e he).trans ih
    · subst a; subst b; exact (h e he).symm.trans ih

theorem Joined.mono {F F' : List Edge} {u v : Nat} (h : ∀ e, e ∈ F → e ∈ F') (hj : Joined F u v) :
    Joined F' u v :=
  Joined.of_rel (fun e he => Joined.single e (h e he)) hj

/-- lists with the same members join the same pairs -/
theorem Joined.congr_mem {F F' : List Edge} (h : ∀ e, e ∈ F ↔ e ∈ F') (u v : Nat) :
    Joined F u v ↔ Joined F' u v :=
  ⟨Joined.mono (fun e he => (h e).1 he), Joined.mono (fun e he => (h e).2 he)⟩

theorem joined_cons_iff {e : Edge} {F : List Edge} {u v : Nat} :
    Joined (e :: F) u v ↔
      (Joined F u v ∨ (Joined F u e.src ∧ Joined F e.dst v) ∨ (Joined F u e.dst ∧ Joined F e.src v)) := by
  constructor
  · intro h
    induction h with
    | refl _ => exact Or.inl (Joined.refl _)
    | step e' he' hl _ ih =>
      rcases List.mem_cons.1 he' with rfl | hmem
      · -- the new edge itself
        rcases hl with ⟨a, b⟩ | ⟨a, b⟩
        · subst a; subst b
          rcases ih with h1 | ⟨h1, h2⟩ | ⟨h1, h2⟩
          · exact Or.inr (Or.inl ⟨Joined.refl _, h1⟩)
          · exact Or.inr (Or.inl ⟨Joined.refl _, h2⟩)
          · exact Or.inl h2
        · subst a; subst b
          rcases ih with h1 | ⟨h1, h2⟩ | ⟨h1, h2⟩
          · exact Or.inr (Or.inr ⟨Joined.refl _, h1⟩)
          · exact Or.inl h2
          · exact Or.inr (Or.inr ⟨Joined.refl _, h2⟩)
      · -- an old edge: prepend it to the first leg
        have hs : ∀ {x}, Joined F _ x → Joined F _ x := fun {x} hx => Joined.step e' hmem hl hx
        rcases ih with h1 | ⟨h1, h2⟩ | ⟨h1, h2⟩
        · exact Or.inl (hs h1)
        · exact Or.inr (Or.inl ⟨hs h1, h2⟩)
        · exact Or.inr (Or.inr ⟨hs h1, h2⟩)
  · have hm : ∀ {x y}, Joined F x y → Joined (e :: F) x y :=
      fun {x y} h => Joined.mono (fun _ h' => List.mem_cons_of_mem _ h') h
    rintro (h | ⟨h1, h2⟩ | ⟨h1, h2⟩)
    · exact hm h
    · exact (hm h1).trans ((Joined.single e List.mem_cons_self).trans (hm h2))
    · exact (hm h1).trans ((Joined.single' e List.mem_cons_self).trans (hm h2))

theorem joined_cons_of_joined {e : Edge} {F : List Edge} (h : Joined F e.src e.dst) {u v : Nat} :
    Joined (e :: F) u v ↔ Joined F u v := by
  rw [joined_cons_iff]
  constructor
  · rintro (h0 | ⟨h1, h2⟩ | ⟨h1, h2⟩)
    · exact h0
    · exact h1.trans (h.trans h2)
    · exact h1.trans (h.symm.trans h2)
  · exact Or.inl

/-! ## Part 2 — counting classes

`cnt R l` counts the members of `l` that are not `R`-related to any LATER member of `l` (for an
equivalence relation: one representative per class).  The count is invariant under permutations of
`l` (`cnt_perm`), so counting the first representatives instead gives the same number. -/

open Classical in
/-- indicator of a proposition -/
noncomputable def ind (p : Prop) : Nat := if p then 1 else 0

theorem ind_pos {p : Prop} (h : p) : ind p = 1 := by simp only [ind, if_pos h]
theorem ind_neg {p : Prop} (h : ¬ p) : ind p = 0 := by simp only [ind, if_neg h]
theorem ind_true : ind True = 1 := ind_pos trivial
theorem ind_false : ind False = 0 := ind_neg id
theorem ind_congr {p q : Prop} (h : p ↔ q) : ind p = ind q := by rw [propext h]
theorem ind_le_one (p : Prop) : ind p ≤ 1 := by
  by_cases h : p
  · rw [ind_pos h]; exact Nat.le_refl _
  · rw [ind_neg h]; exact Nat.zero_le _

noncomputable def cnt (R : Nat → Nat → Prop) : List Nat → Nat
  | [] => 0
  | x :: xs => ind (¬ ∃ y, y ∈ xs ∧ R x y) + cnt R xs

theorem cnt_nil (R : Nat → Nat → Prop) : cnt R [] = 0 := rfl

theorem cnt_cons_pos {R : Nat → Nat → Prop} {x : Nat} {xs : List Nat} (h : ∃ y, y ∈ xs ∧ R x y) :
    cnt R (x :: xs) = cnt R xs := by
  simp only [cnt, ind_neg (not_not_intro h), Nat.zero_add]

theorem cnt_cons_neg {R : Nat → Nat → Prop} {x : Nat} {xs : List Nat} (h : ¬ ∃ y, y ∈ xs ∧ R x y) :
    cnt R (x :: xs) = cnt R xs + 1 := by
  simp only [cnt, ind_pos h]; omega

theorem cnt_le_cons (R : Nat → Nat → Prop) (x : Nat) (xs : List Nat) : cnt R xs ≤ cnt R (x :: xs) := by
  by_cases h : ∃ y, y ∈ xs ∧ R x y
  · rw [cnt_cons_pos h]; exact Nat.le_refl _
  · rw [cnt_cons_neg h]; omega

theorem cnt_anti {R R' : Nat → Nat → Prop} (h : ∀ a b, R a b → R' a b) (l : List Nat) :
    cnt R' l ≤ cnt R l := by
  induction l with
  | nil => exact Nat.le_refl _
  | cons x xs ih =>
    by_cases h1 : ∃ y, y ∈ xs ∧ R x y
    · have h2 : ∃ y, y ∈ xs ∧ R' x y := by
        obtain ⟨y, hy, hr⟩ := h1; exact ⟨y, hy, h _ _ hr⟩
      rw [cnt_cons_pos h1, cnt_cons_pos h2]; exact ih
    · rw [cnt_cons_neg h1]
      by_cases h2 : ∃ y, y ∈ xs ∧ R' x y
      · rw [cnt_cons_pos h2]; omega
      · rw [cnt_cons_neg h2]; omega

theorem cnt_congr {R R' : Nat → Nat → Prop} (h : ∀ a b, R a b ↔ R' a b) (l : List Nat) :
    cnt R' l = cnt R l :=
  Nat.le_antisymm (cnt_anti (fun a b => (h a b).1) l) (cnt_anti (fun a b => (h a b).2) l)

theorem cnt_eq_length {R : Nat → Nat → Prop} (h : ∀ a b, R a b ↔ a = b) {l : List Nat} (hnd : l.Nodup) :
    cnt R l = l.length := by
  induction l with
  | nil => rfl
  | cons x xs ih =>
    have hx : x ∉ xs := (List.nodup_cons.1 hnd).1
    have h1 : ¬ ∃ y, y ∈ xs ∧ R x y := by
      rintro ⟨y, hy, hr⟩
      have := (h x y).1 hr
      subst this; exact hx hy
    rw [cnt_cons_neg h1, ih (List.nodup_cons.1 hnd).2, List.length_cons]

theorem exists_mem_cons_iff_or {p : Nat → Prop} {x : Nat} {xs : List Nat} :
    (∃ y, y ∈ x :: xs ∧ p y) ↔ (p x ∨ ∃ y, y ∈ xs ∧ p y) := by
  constructor
  · rintro ⟨y, hy, hr⟩
    rcases List.mem_cons.1 hy with rfl | hy
    · exact Or.inl hr
    · exact Or.inr ⟨y, hy, hr⟩
  · rintro (hr | ⟨y, hy, hr⟩)
    · exact ⟨x, List.mem_cons_self, hr⟩
    · exact ⟨y, List.mem_cons_of_mem _ hy, hr⟩

/-- merging the class of `s` with the class of `d` (`¬ R s d`) removes exactly one representative —
    provided both classes have a member in the list. -/
theorem cnt_merge {R R' : Nat → Nat → Prop} {s d : Nat}
    (hsymm : ∀ a b, R a b → R b a) (htrans : ∀ a b c, R a b → R b c → R a c)
    (hR' : ∀ a b, R' a b ↔ (R a b ∨ (R a s ∧ R d b) ∨ (R a d ∧ R s b)))
    (hsd : ¬ R s d) (l : List Nat) :
    cnt R' l + ind ((∃ y, y ∈ l ∧ R y s) ∧ (∃ y, y ∈ l ∧ R y d)) = cnt R l := by
  induction l with
  | nil =>
    have : ¬ ((∃ y, y ∈ ([] : List Nat) ∧ R y s) ∧ (∃ y, y ∈ ([] : List Nat) ∧ R y d)) := by
      rintro ⟨⟨y, hy, _⟩, _⟩; exact absurd hy List.not_mem_nil
    rw [ind_neg this]; rfl
  | cons x xs ih =>
    by_cases hxs : R x s
    · have hxd : ¬ R x d := fun h => hsd (htrans _ _ _ (hsymm _ _ hxs) h)
      have hP : (∃ y, y ∈ xs ∧ R x y) ↔ (∃ y, y ∈ xs ∧ R y s) := by
        constructor
        · rintro ⟨y, hy, hr⟩; exact ⟨y, hy, htrans _ _ _ (hsymm _ _ hr) hxs⟩
        · rintro ⟨y, hy, hr⟩; exact ⟨y, hy, htrans _ _ _ hxs (hsymm _ _ hr)⟩
      have hP' : (∃ y, y ∈ xs ∧ R' x y) ↔ ((∃ y, y ∈ xs ∧ R y s) ∨ (∃ y, y ∈ xs ∧ R y d)) := by
        constructor
        · rintro ⟨y, hy, hr⟩
          rcases (hR' _ _).1 hr with h | ⟨_, h⟩ | ⟨h, _⟩
          · exact Or.inl ⟨y, hy, htrans _ _ _ (hsymm _ _ h) hxs⟩
          · exact Or.inr ⟨y, hy, hsymm _ _ h⟩
          · exact absurd h hxd
        · rintro (⟨y, hy, hr⟩ | ⟨y, hy, hr⟩)
          · exact ⟨y, hy, (hR' _ _).2 (Or.inl (htrans _ _ _ hxs (hsymm _ _ hr)))⟩
          · exact ⟨y, hy, (hR' _ _).2 (Or.inr (Or.inl ⟨hxs, hsymm _ _ hr⟩))⟩
      by_cases hA : ∃ y, y ∈ xs ∧ R y s <;> by_cases hB : ∃ y, y ∈ xs ∧ R y d
      all_goals
        simp only [cnt, exists_mem_cons_iff_or, hP, hP', hxs, hxd, hA, hB, true_and, and_true, false_and, and_false,
          true_or, or_true, false_or, or_false, or_self, and_self, not_true_eq_false, not_false_eq_true, ind_true, ind_false] at ih ⊢
        omega
    · by_cases hxd : R x d
      · have hP : (∃ y, y ∈ xs ∧ R x y) ↔ (∃ y, y ∈ xs ∧ R y d) := by
          constructor
          · rintro ⟨y, hy, hr⟩; exact ⟨y, hy, htrans _ _ _ (hsymm _ _ hr) hxd⟩
          · rintro ⟨y, hy, hr⟩; exact ⟨y, hy, htrans _ _ _ hxd (hsymm _ _ hr)⟩
        have hP' : (∃ y, y ∈ xs ∧ R' x y) ↔ ((∃ y, y ∈ xs ∧ R y s) ∨ (∃ y, y ∈ xs ∧ R y d)) := by
          constructor
          · rintro ⟨y, hy, hr⟩
            rcases (hR' _ _).1 hr with h | ⟨h, _⟩ | ⟨_, h⟩
            · exact Or.inr ⟨y, hy, htrans _ _ _ (hsymm _ _ h) hxd⟩
            · exact absurd h hxs
            · exact Or.inl ⟨y, hy, hsymm _ _ h⟩
          · rintro (⟨y, hy, hr⟩ | ⟨y, hy, hr⟩)
            · exact ⟨y, hy, (hR' _ _).2 (Or.inr (Or.inr ⟨hxd, hsymm _ _ hr⟩))⟩
            · exact ⟨y, hy, (hR' _ _).2 (Or.inl (htrans _ _ _ hxd (hsymm _ _ hr)))⟩
        by_cases hA : ∃ y, y ∈ xs ∧ R y s <;> by_cases hB : ∃ y, y ∈ xs ∧ R y d
        all_goals
          simp only [cnt, exists_mem_cons_iff_or, hP, hP', hxs, hxd, hA, hB, true_and, and_true, false_and, and_false,
            true_or, or_true, false_or, or_false, or_self, and_self, not_true_eq_false, not_false_eq_true, ind_true, ind_false] at ih ⊢
          omega
      · have hP' : (∃ y, y ∈ xs ∧ R' x y) ↔ (∃ y, y ∈ xs ∧ R x y) := by
          constructor
          · rintro ⟨y, hy, hr⟩
            rcases (hR' _ _).1 hr with h | ⟨h, _⟩ | ⟨h, _⟩
            · exact ⟨y, hy, h⟩
            · exact absurd h hxs
            · exact absurd h hxd
          · rintro ⟨y, hy, hr⟩; exact ⟨y, hy, (hR' _ _).2 (Or.inl hr)⟩
        by_cases hP : ∃ y, y ∈ xs ∧ R x y
        all_goals
          simp only [cnt, exists_mem_cons_iff_or, hP, hP', hxs, hxd, true_and, and_true, false_and, and_false,
            true_or, or_true, false_or, or_false, or_self, and_self, not_true_eq_false, not_false_eq_true, ind_true, ind_false] at ih ⊢
          omega

/-- the count does not depend on the order of the list -/
theorem cnt_perm {R : Nat → Nat → Prop}
    (hsymm : ∀ a b, R a b → R b a) (htrans : ∀ a b c, R a b → R b c → R a c)
    {l l' : List Nat} (hp : l.Perm l') : cnt R l = cnt R l' := by
  induction hp with
  | nil => rfl
  | cons x hp ih =>
    rename_i l₁ l₂
    have hP : (∃ y, y ∈ l₁ ∧ R x y) ↔ (∃ y, y ∈ l₂ ∧ R x y) :=
      ⟨fun ⟨y, hy, hr⟩ => ⟨y, hp.mem_iff.1 hy, hr⟩, fun ⟨y, hy, hr⟩ => ⟨y, hp.mem_iff.2 hy, hr⟩⟩
    simp only [cnt, hP, ih]
  | swap x y l =>
    by_cases hxy : R x y
    · have hyx : R y x := hsymm _ _ hxy
      have h1 : ∃ z, z ∈ x :: l ∧ R y z := ⟨x, List.mem_cons_self, hyx⟩
      have h2 : ∃ z, z ∈ y :: l ∧ R x z := ⟨y, List.mem_cons_self, hxy⟩
      have h3 : (∃ z, z ∈ l ∧ R x z) ↔ (∃ z, z ∈ l ∧ R y z) :=
        ⟨fun ⟨z, hz, hr⟩ => ⟨z, hz, htrans _ _ _ hyx hr⟩, fun ⟨z, hz, hr⟩ => ⟨z, hz, htrans _ _ _ hxy hr⟩⟩
      rw [cnt_cons_pos h1, cnt_cons_pos h2]
      simp only [cnt, h3]
    · have hyx : ¬ R y x := fun h => hxy (hsymm _ _ h)
      simp only [cnt, exists_mem_cons_iff_or, hxy, hyx, false_or]
      omega
  | trans _ _ ih1 ih2 => exact ih1.trans ih2

theorem cnt_pos (R : Nat → Nat → Prop) {l : List Nat} (h : l ≠ []) : 1 ≤ cnt R l := by
  induction l with
  | nil => exact absurd rfl h
  | cons x xs ih =>
    by_cases hxs : xs = []
    · subst hxs
      have : ¬ ∃ y, y ∈ ([] : List Nat) ∧ R x y := by
        rintro ⟨y, hy, _⟩; exact absurd hy List.not_mem_nil
      rw [cnt_cons_neg this]; omega
    · exact Nat.le_trans (ih hxs) (cnt_le_cons R x xs)

theorem cnt_one {R : Nat → Nat → Prop} (hrefl : ∀ a, R a a)
    (hsymm : ∀ a b, R a b → R b a) (htrans : ∀ a b c, R a b → R b c → R a c)
    (l : List Nat) (h1 : cnt R l ≤ 1) (u v : Nat) (hu : u ∈ l) (hv : v ∈ l) : R u v := by
  induction l generalizing u v with
  | nil => exact absurd hu List.not_mem_nil
  | cons x xs ih =>
    by_cases hxs : xs = []
    · subst hxs
      rw [List.mem_singleton] at hu hv
      subst hu; subst hv; exact hrefl _
    · have hpos := cnt_pos R hxs
      by_cases hP : ∃ y, y ∈ xs ∧ R x y
      · rw [cnt_cons_pos hP] at h1
        obtain ⟨y, hy, hxy⟩ := hP
        have key : ∀ z, z ∈ x :: xs → R z y := by
          intro z hz
          rcases List.mem_cons.1 hz with rfl | hz
          · exact hxy
          · exact ih h1 z y hz hy
        exact htrans _ _ _ (key u hu) (hsymm _ _ (key v hv))
      · rw [cnt_cons_neg hP] at h1; omega

theorem cnt_map_rep {R : Nat → Nat → Prop} (rep : Nat → Nat) (h : ∀ a b, rep a = rep b ↔ R a b)
    (l : List Nat) : cnt (fun a b => a = b) (l.map rep) = cnt R l := by
  induction l with
  | nil => rfl
  | cons x xs ih =>
    have hP : (∃ y, y ∈ xs.map rep ∧ rep x = y) ↔ (∃ y, y ∈ xs ∧ R x y) := by
      constructor
      · rintro ⟨y, hy, hr⟩
        obtain ⟨z, hz, rfl⟩ := List.mem_map.1 hy
        exact ⟨z, hz, (h _ _).1 hr⟩
      · rintro ⟨y, hy, hr⟩
        exact ⟨rep y, List.mem_map.2 ⟨y, hy, rfl⟩, (h _ _).2 hr⟩
    simp only [List.map_cons, cnt, hP, ih]

theorem cnt_eq_filter_ne (x : Nat) (xs : List Nat) :
    cnt (fun a b => a = b) xs =
      cnt (fun a b => a = b) (xs.filter (fun b => !b == x)) + ind (x ∈ xs) := by
  induction xs with
  | nil => simp [cnt, ind_false]
  | cons y ys ih =>
    by_cases hyx : y = x
    · subst hyx
      have hf : (y :: ys).filter (fun b => !b == y) = ys.filter (fun b => !b == y) := by
        simp [List.filter_cons]
      have hP : (∃ z, z ∈ ys ∧ y = z) ↔ y ∈ ys :=
        ⟨fun ⟨z, hz, e⟩ => e ▸ hz, fun h => ⟨y, h, rfl⟩⟩
      rw [hf]
      by_cases hm : y ∈ ys
      · simp only [cnt, hP, hm, List.mem_cons_self, not_true_eq_false, not_false_eq_true, ind_true, ind_false] at ih ⊢
        omega
      · simp only [cnt, hP, hm, List.mem_cons_self, not_true_eq_false, not_false_eq_true, ind_true, ind_false] at ih ⊢
        omega
    · have hf : (y :: ys).filter (fun b => !b == x) = y :: ys.filter (fun b => !b == x) := by
        simp [List.filter_cons, hyx]
      have hP : (∃ z, z ∈ ys.filter (fun b => !b == x) ∧ y = z) ↔ (∃ z, z ∈ ys ∧ y = z) := by
        constructor
        · rintro ⟨z, hz, e⟩; exact ⟨z, (List.mem_filter.1 hz).1, e⟩
        · rintro ⟨z, hz, e⟩
          subst e
          exact ⟨y, List.mem_filter.2 ⟨hz, by simp [hyx]⟩, rfl⟩
      have hm : (x ∈ y :: ys) ↔ x ∈ ys := by
        rw [List.mem_cons]
        exact ⟨fun h => h.elim (fun e => absurd e.symm hyx) id, Or.inr⟩
      rw [hf]
      simp only [cnt, hP, hm]
      omega

theorem eraseDups_length_eq_cnt (l : List Nat) : l.eraseDups.length = cnt (fun a b => a = b) l := by
  generalize hn : l.length = n
  induction n using Nat.strongRecOn generalizing l with
  | _ n ih =>
    cases l with
    | nil => simp [cnt]
    | cons x xs =>
      rw [List.eraseDups_cons, List.length_cons]
      have hlen : (xs.filter (fun b => !b == x)).length < n := by
        have := List.length_filter_le (fun b => !b == x) xs
        rw [List.length_cons] at hn; omega
      rw [ih _ hlen _ rfl]
      have h := cnt_eq_filter_ne x xs
      have hP : (∃ y, y ∈ xs ∧ x = y) ↔ x ∈ xs :=
        ⟨fun ⟨z, hz, e⟩ => e ▸ hz, fun h => ⟨x, h, rfl⟩⟩
      by_cases hm : x ∈ xs
      · simp only [cnt, hP, hm, not_true_eq_false, not_false_eq_true, ind_true, ind_false] at h ⊢; omega
      · simp only [cnt, hP, hm, not_true_eq_false, not_false_eq_true, ind_true, ind_false] at h ⊢; omega

/-- the number of nodes of `ns` that are not `Joined F` to any earlier node of `ns` -/
noncomputable def classes (ns : List Nat) (F : List Edge) : Nat := cnt (Joined F) ns.reverse

theorem joined_symm' (F : List Edge) : ∀ a b, Joined F a b → Joined F b a := fun _ _ h => h.symm
theorem joined_trans' (F : List Edge) : ∀ a b c, Joined F a b → Joined F b c → Joined F a c :=
  fun _ _ _ h1 h2 => h1.trans h2

/-- counting last representatives instead of first ones gives the same number -/
theorem classes_eq_cnt (ns : List Nat) (F : List Edge) : classes ns F = cnt (Joined F) ns :=
  cnt_perm (joined_symm' F) (joined_trans' F) (List.reverse_perm ns)

theorem joined_nil_iff {u v : Nat} : Joined [] u v ↔ u = v := by
  constructor
  · intro h
    cases h with
    | refl _ => rfl
    | step e he _ _ => exact absurd he List.not_mem_nil
  · rintro rfl; exact Joined.refl _

theorem classes_nil {ns : List Nat} (hnd : ns.Nodup) : classes ns [] = ns.length := by
  rw [classes_eq_cnt]
  exact cnt_eq_length (fun _ _ => joined_nil_iff) hnd

theorem classes_anti {ns : List Nat} {F F' : List Edge} (h : ∀ u v, Joined F u v → Joined F' u v) :
    classes ns F' ≤ classes ns F :=
  cnt_anti h _

theorem classes_congr {ns : List Nat} {F F' : List Edge} (h : ∀ u v, Joined F u v ↔ Joined F' u v) :
    classes ns F' = classes ns F :=
  cnt_congr h _

theorem classes_cons_old {ns : List Nat} {e : Edge} {F : List Edge} (h : Joined F e.src e.dst) :
    classes ns (e :: F) = classes ns F :=
  classes_congr (fun _ _ => (joined_cons_of_joined h).symm)

theorem classes_cons_new {ns : List Nat} {e : Edge} {F : List Edge} (hnd : ns.Nodup)
    (hs : e.src ∈ ns) (hd : e.dst ∈ ns) (h : ¬ Joined F e.src e.dst) :
    classes ns (e :: F) + 1 = classes ns F := by
  rw [classes_eq_cnt, classes_eq_cnt]
  have hm := cnt_merge (R := Joined F) (R' := Joined (e :: F)) (s := e.src) (d := e.dst)
    (joined_symm' F) (joined_trans' F) (fun _ _ => joined_cons_iff) h ns
  have hc : (∃ y, y ∈ ns ∧ Joined F y e.src) ∧ (∃ y, y ∈ ns ∧ Joined F y e.dst) :=
    ⟨⟨_, hs, Joined.refl _⟩, ⟨_, hd, Joined.refl _⟩⟩
  rw [ind_pos hc] at hm
  exact hm

theorem seqAcyclic_classes {ns : List Nat} {F : List Edge} (hnd : ns.Nodup)
    (hin : ∀ e, e ∈ F → e.src ∈ ns ∧ e.dst ∈ ns) (hac : SeqAcyclic F) :
    classes ns F + F.length = ns.length := by
  induction F with
  | nil => rw [classes_nil hnd]; rfl
  | cons e F ih =>
    have h1 := classes_cons_new hnd (hin e List.mem_cons_self).1 (hin e List.mem_cons_self).2 hac.1
    have h2 := ih (fun e' he' => hin e' (List.mem_cons_of_mem _ he')) hac.2
    rw [List.length_cons]; omega

theorem classes_eq_reps {ns : List Nat} {F : List Edge} (rep : Nat → Nat)
    (h : ∀ a b, rep a = rep b ↔ Joined F a b) : ((ns.map rep).eraseDups).length = classes ns F := by
  rw [classes_eq_cnt, eraseDups_length_eq_cnt, cnt_map_rep rep h]

theorem classes_one_joined {ns : List Nat} {F : List Edge} (hnd : ns.Nodup) (h1 : classes ns F ≤ 1)
    {u v : Nat} (hu : u ∈ ns) (hv : v ∈ ns) : Joined F u v := by
  rw [classes_eq_cnt] at h1
  exact cnt_one Joined.refl (joined_symm' F) (joined_trans' F) ns h1 u v hu hv

/-! ## Part 3 — forests -/

theorem seqAcyclic_cons {e : Edge} {F : List Edge} :
    SeqAcyclic (e :: F) ↔ (¬ Joined F e.src e.dst ∧ SeqAcyclic F) := Iff.rfl

theorem seqAcyclic_filter {F : List Edge} (p : Edge → Bool) (h : SeqAcyclic F) :
    SeqAcyclic (F.filter p) := by
  induction F with
  | nil => exact h
  | cons e F ih =>
    have h' := seqAcyclic_cons.1 h
    rw [List.filter_cons]
    split
    · exact seqAcyclic_cons.2
        ⟨fun hj => h'.1 (Joined.mono (fun x hx => (List.mem_filter.1 hx).1) hj), ih h'.2⟩
    · exact ih h'.2

theorem isForest_seqAcyclic {F : List Edge} (h : IsForest F) : SeqAcyclic F := by
  induction F with
  | nil => trivial
  | cons e F ih =>
    obtain ⟨hnd, hb⟩ := h
    have hnd' := List.nodup_cons.1 hnd
    refine seqAcyclic_cons.2 ⟨?_, ih ⟨hnd'.2, ?_⟩⟩
    · have := hb e List.mem_cons_self
      rwa [List.erase_cons_head] at this
    · intro e' he' hj
      have hne : ¬ (e == e') = true := by
        intro heq
        have : e = e' := eq_of_beq heq
        exact hnd'.1 (this ▸ he')
      apply hb e' (List.mem_cons_of_mem _ he')
      rw [List.erase_cons_tail hne]
      exact Joined.mono (fun x hx => List.mem_cons_of_mem _ hx) hj

theorem seqAcyclic_isForest {ns : List Nat} {F : List Edge} (hnd : ns.Nodup)
    (hin : ∀ e, e ∈ F → e.src ∈ ns ∧ e.dst ∈ ns) (hF : F.Nodup) (hac : SeqAcyclic F) : IsForest F := by
  refine ⟨hF, fun e he hj => ?_⟩
  have herase : F.erase e = F.filter (fun x => x != e) := hF.erase_eq_filter e
  have hac' : SeqAcyclic (F.erase e) := by rw [herase]; exact seqAcyclic_filter _ hac
  have hin' : ∀ x, x ∈ F.erase e → x.src ∈ ns ∧ x.dst ∈ ns :=
    fun x hx => hin x (List.mem_of_mem_erase hx)
  have h1 := seqAcyclic_classes hnd hin hac
  have h2 := seqAcyclic_classes hnd hin' hac'
  have hlen : (F.erase e).length = F.length - 1 := List.length_erase_of_mem he
  have hpos : 0 < F.length := List.length_pos_of_mem he
  have hc : classes ns (F.erase e) = classes ns F := by
    apply classes_congr
    intro u v
    constructor
    · apply Joined.of_rel
      intro x hx
      by_cases hxe : x = e
      · rw [hxe]; exact hj
      · exact Joined.single x ((List.mem_erase_of_ne hxe).2 hx)
    · exact Joined.mono (fun x hx => List.mem_of_mem_erase hx)
  omega

theorem foldl_add_int (l : List Int) (a : Int) :
    l.foldl (· + ·) a = a + l.foldl (· + ·) 0 := by
  induction l generalizing a with
  | nil => simp
  | cons x xs ih =>
    rw [List.foldl_cons, List.foldl_cons, ih (a + x), ih (0 + x)]; omega

theorem sumW_nil : sumW [] = 0 := rfl

theorem sumW_cons (e : Edge) (es : List Edge) : sumW (e :: es) = e.w + sumW es := by
  unfold sumW
  rw [List.map_cons, List.foldl_cons, foldl_add_int]; omega

theorem sumW_perm {es es' : List Edge} (h : es.Perm es') : sumW es = sumW es' := by
  induction h with
  | nil => rfl
  | cons x _ ih => rw [sumW_cons, sumW_cons, ih]
  | swap x y l => rw [sumW_cons, sumW_cons, sumW_cons, sumW_cons]; omega
  | trans _ _ ih1 ih2 => exact ih1.trans ih2

theorem sumW_eq_sum (es : List Edge) : sumW es = (es.map Edge.w).sum := by
  induction es with
  | nil => rfl
  | cons e es ih => rw [sumW_cons, List.map_cons, List.sum_cons, ih]

/-! ## Part 4 — abstract Kruskal -/

open Classical in
/-- the Kruskal loop with the union-find replaced by the relation it represents: scan the edges,
    keep an edge iff its ends are not yet joined by the kept ones (`acc`, newest first) -/
noncomputable def greedy : List Edge → List Edge → List Edge
  | [], acc => acc
  | e :: es, acc => if Joined acc e.src e.dst then greedy es acc else greedy es (e :: acc)

/-- ascending by weight -/
def SortedW (es : List Edge) : Prop := es.Pairwise (fun a b => a.w ≤ b.w)

theorem greedy_nil (acc : List Edge) : greedy [] acc = acc := by simp only [greedy]

theorem greedy_cons_pos {e : Edge} {es acc : List Edge} (h : Joined acc e.src e.dst) :
    greedy (e :: es) acc = greedy es acc := by
  simp only [greedy, if_pos h]

theorem greedy_cons_neg {e : Edge} {es acc : List Edge} (h : ¬ Joined acc e.src e.dst) :
    greedy (e :: es) acc = greedy es (e :: acc) := by
  simp only [greedy, if_neg h]

/-! ### the sort -/

theorem insertW_perm (e : Edge) (l : List Edge) : (insertW e l).Perm (e :: l) := by
  induction l with
  | nil => exact List.Perm.refl _
  | cons x xs ih =>
    simp only [insertW]
    split
    · exact List.Perm.refl _
    · exact (List.Perm.cons x ih).trans (List.Perm.swap e x xs)

theorem sortByW_cons (e : Edge) (es : List Edge) : sortByW (e :: es) = insertW e (sortByW es) := rfl

theorem sortByW_perm (es : List Edge) : (sortByW es).Perm es := by
  induction es with
  | nil => exact List.Perm.refl _
  | cons e es ih =>
    rw [sortByW_cons]
    exact (insertW_perm e _).trans (List.Perm.cons e ih)

theorem insertW_sorted (e : Edge) {l : List Edge} (h : SortedW l) : SortedW (insertW e l) := by
  unfold SortedW at *
  induction l with
  | nil => exact List.pairwise_singleton _ _
  | cons x xs ih =>
    have hx := List.pairwise_cons.1 h
    simp only [insertW]
    split
    · rename_i hle
      refine List.pairwise_cons.2 ⟨?_, h⟩
      intro y hy
      rcases List.mem_cons.1 hy with hyx | hy
      · rw [hyx]; exact hle
      · exact Int.le_trans hle (hx.1 y hy)
    · rename_i hnle
      refine List.pairwise_cons.2 ⟨?_, ih hx.2⟩
      intro y hy
      rcases List.mem_cons.1 ((insertW_perm e xs).mem_iff.1 hy) with hye | hy
      · rw [hye]; omega
      · exact hx.1 y hy

theorem sortByW_sorted (es : List Edge) : SortedW (sortByW es) := by
  induction es with
  | nil => exact List.Pairwise.nil
  | cons e es ih => rw [sortByW_cons]; exact insertW_sorted e ih

/-! ### structure of the result -/

theorem greedy_seqAcyclic_acc (es acc : List Edge) (h : SeqAcyclic acc) : SeqAcyclic (greedy es acc) := by
  induction es generalizing acc with
  | nil => rw [greedy_nil]; exact h
  | cons e es ih =>
    by_cases hj : Joined acc e.src e.dst
    · rw [greedy_cons_pos hj]; exact ih acc h
    · rw [greedy_cons_neg hj]; exact ih (e :: acc) (seqAcyclic_cons.2 ⟨hj, h⟩)

theorem greedy_seqAcyclic (es : List Edge) : SeqAcyclic (greedy es []) :=
  greedy_seqAcyclic_acc es [] trivial

theorem greedy_sublist_acc (es acc : List Edge) : (greedy es acc).Sublist (es.reverse ++ acc) := by
  induction es generalizing acc with
  | nil => rw [greedy_nil]; exact List.Sublist.refl _
  | cons e es ih =>
    have heq : (e :: es).reverse ++ acc = es.reverse ++ (e :: acc) := by
      rw [List.reverse_cons, List.append_assoc, List.singleton_append]
    rw [heq]
    by_cases hj : Joined acc e.src e.dst
    · rw [greedy_cons_pos hj]
      exact (ih acc).trans ((List.sublist_cons_self e acc).append_left _)
    · rw [greedy_cons_neg hj]; exact ih (e :: acc)

theorem greedy_sublist (es : List Edge) : (greedy es []).Sublist es.reverse := by
  have := greedy_sublist_acc es []
  rwa [List.append_nil] at this

theorem greedy_mem_acc {es acc : List Edge} {x : Edge} (h : x ∈ greedy es acc) : x ∈ es ∨ x ∈ acc := by
  rcases List.mem_append.1 ((greedy_sublist_acc es acc).subset h) with h | h
  · exact Or.inl (List.mem_reverse.1 h)
  · exact Or.inr h

theorem greedy_mem {es : List Edge} {x : Edge} (h : x ∈ greedy es []) : x ∈ es := by
  rcases greedy_mem_acc h with h | h
  · exact h
  · exact absurd h List.not_mem_nil

theorem greedy_nodup {es : List Edge} (h : es.Nodup) : (greedy es []).Nodup :=
  (greedy_sublist es).nodup ((List.reverse_perm es).nodup_iff.2 h)

/-- the accumulator is never shrunk -/
theorem greedy_acc_subset (es acc : List Edge) (a : Edge) (ha : a ∈ acc) : a ∈ greedy es acc := by
  induction es generalizing acc with
  | nil => rw [greedy_nil]; exact ha
  | cons e es ih =>
    by_cases hj : Joined acc e.src e.dst
    · rw [greedy_cons_pos hj]; exact ih acc ha
    · rw [greedy_cons_neg hj]; exact ih (e :: acc) (List.mem_cons_of_mem _ ha)

theorem greedy_joined_acc (es acc : List Edge) (u v : Nat) :
    Joined (greedy es acc) u v ↔ Joined (es ++ acc) u v := by
  induction es generalizing acc with
  | nil => rw [greedy_nil, List.nil_append]
  | cons e es ih =>
    by_cases hj : Joined acc e.src e.dst
    · rw [greedy_cons_pos hj, ih acc, List.cons_append]
      exact (joined_cons_of_joined (Joined.mono (fun x hx => List.mem_append_right _ hx) hj)).symm
    · rw [greedy_cons_neg hj, ih (e :: acc)]
      apply Joined.congr_mem
      intro x
      simp only [List.mem_append, List.mem_cons]
      constructor
      · rintro (h | h | h)
        · exact Or.inl (Or.inr h)
        · exact Or.inl (Or.inl h)
        · exact Or.inr h
      · rintro ((h | h) | h)
        · exact Or.inr (Or.inl h)
        · exact Or.inl h
        · exact Or.inr (Or.inr h)

theorem greedy_joined (es : List Edge) (u v : Nat) : Joined (greedy es []) u v ↔ Joined es u v := by
  rw [greedy_joined_acc, List.append_nil]

theorem greedy_weights_sorted_acc {es acc : List Edge} (hs : SortedW es) (ha : SortedW acc.reverse)
    (hacc : ∀ a, a ∈ acc → ∀ e, e ∈ es → a.w ≤ e.w) : SortedW (greedy es acc).reverse := by
  induction es generalizing acc with
  | nil => rw [greedy_nil]; exact ha
  | cons e es ih =>
    have hs' := List.pairwise_cons.1 hs
    by_cases hj : Joined acc e.src e.dst
    · rw [greedy_cons_pos hj]
      exact ih hs'.2 ha (fun a h x hx => hacc a h x (List.mem_cons_of_mem _ hx))
    · rw [greedy_cons_neg hj]
      refine ih hs'.2 ?_ ?_
      · unfold SortedW at *
        rw [List.reverse_cons, List.pairwise_append]
        refine ⟨ha, List.pairwise_singleton _ _, ?_⟩
        intro a h b hb
        rw [List.mem_singleton.1 hb]
        exact hacc a (List.mem_reverse.1 h) e List.mem_cons_self
      · intro a h x hx
        rcases List.mem_cons.1 h with hae | h
        · rw [hae]; exact hs'.1 x hx
        · exact hacc a h x (List.mem_cons_of_mem _ hx)

theorem greedy_weights_sorted {es : List Edge} (hs : SortedW es) : SortedW (greedy es []).reverse :=
  greedy_weights_sorted_acc hs List.Pairwise.nil (fun a h => absurd h List.not_mem_nil)

theorem greedy_isForest {ns : List Nat} {es : List Edge} (hnd : ns.Nodup)
    (hin : ∀ e, e ∈ es → e.src ∈ ns ∧ e.dst ∈ ns) (hes : es.Nodup) : IsForest (greedy es []) :=
  seqAcyclic_isForest hnd (fun e he => hin e (greedy_mem he)) (greedy_nodup hes) (greedy_seqAcyclic es)

/-! ### minimality: counting below every weight threshold -/

/-- `weight ≤ w` -/
def leW (w : Int) : Edge → Bool := fun e => decide (e.w ≤ w)

theorem mem_filter_leW {w : Int} {l : List Edge} {x : Edge} : x ∈ l.filter (leW w) ↔ (x ∈ l ∧ x.w ≤ w) := by
  rw [List.mem_filter]; unfold leW; rw [decide_eq_true_iff]

/-- every scanned edge has its ends joined by accepted edges that are not heavier -/
theorem greedy_covers_acc (es acc : List Edge) (hs : SortedW es)
    (hacc : ∀ a, a ∈ acc → ∀ e, e ∈ es → a.w ≤ e.w) (f : Edge) (hf : f ∈ es) :
    Joined ((greedy es acc).filter (leW f.w)) f.src f.dst := by
  induction es generalizing acc with
  | nil => exact absurd hf List.not_mem_nil
  | cons e es ih =>
    have hs' := List.pairwise_cons.1 hs
    by_cases hj : Joined acc e.src e.dst
    · rw [greedy_cons_pos hj]
      rcases List.mem_cons.1 hf with hfe | hf
      · rw [hfe]
        refine Joined.mono (fun a ha => ?_) hj
        exact mem_filter_leW.2 ⟨greedy_acc_subset es acc a ha, hacc a ha e List.mem_cons_self⟩
      · exact ih acc hs'.2 (fun a h x hx => hacc a h x (List.mem_cons_of_mem _ hx)) hf
    · rw [greedy_cons_neg hj]
      rcases List.mem_cons.1 hf with hfe | hf
      · rw [hfe]
        exact Joined.single e
          (mem_filter_leW.2 ⟨greedy_acc_subset es (e :: acc) e List.mem_cons_self, Int.le_refl _⟩)
      · refine ih (e :: acc) hs'.2 ?_ hf
        intro a h x hx
        rcases List.mem_cons.1 h with hae | h
        · rw [hae]; exact hs'.1 x hx
        · exact hacc a h x (List.mem_cons_of_mem _ hx)

theorem greedy_covers {es : List Edge} (hs : SortedW es) {f : Edge} (hf : f ∈ es) {w : Int} (hw : f.w ≤ w) :
    Joined ((greedy es []).filter (leW w)) f.src f.dst := by
  refine Joined.mono (fun x hx => ?_)
    (greedy_covers_acc es [] hs (fun a h => absurd h List.not_mem_nil) f hf)
  have := mem_filter_leW.1 hx
  exact mem_filter_leW.2 ⟨this.1, Int.le_trans this.2 hw⟩

/-- below every threshold the greedy result has at least as many edges as any acyclic sub-list of `es` -/
theorem greedy_count_le {ns : List Nat} {es F : List Edge} (hnd : ns.Nodup)
    (hin : ∀ e, e ∈ es → e.src ∈ ns ∧ e.dst ∈ ns) (hs : SortedW es) (hF : ∀ e, e ∈ F → e ∈ es)
    (hac : SeqAcyclic F) (w : Int) :
    (F.filter (leW w)).length ≤ ((greedy es []).filter (leW w)).length := by
  have hK := seqAcyclic_classes (F := (greedy es []).filter (leW w)) hnd
    (fun e he => hin e (greedy_mem (mem_filter_leW.1 he).1)) (seqAcyclic_filter _ (greedy_seqAcyclic es))
  have hFw := seqAcyclic_classes (F := F.filter (leW w)) hnd
    (fun e he => hin e (hF e (mem_filter_leW.1 he).1)) (seqAcyclic_filter _ hac)
  have hle : classes ns ((greedy es []).filter (leW w)) ≤ classes ns (F.filter (leW w)) := by
    apply classes_anti
    intro u v
    apply Joined.of_rel
    intro f hf
    have := mem_filter_leW.1 hf
    exact greedy_covers hs (hF f this.1) this.2
  omega

/-- two acyclic lists over `ns` that join the same pairs have the same number of edges -/
theorem seqAcyclic_length_eq {ns : List Nat} {F G : List Edge} (hnd : ns.Nodup)
    (hinF : ∀ e, e ∈ F → e.src ∈ ns ∧ e.dst ∈ ns) (hinG : ∀ e, e ∈ G → e.src ∈ ns ∧ e.dst ∈ ns)
    (hF : SeqAcyclic F) (hG : SeqAcyclic G) (hj : ∀ u v, Joined F u v ↔ Joined G u v) :
    F.length = G.length := by
  have h1 := seqAcyclic_classes hnd hinF hF
  have h2 := seqAcyclic_classes hnd hinG hG
  have h3 : classes ns G = classes ns F := classes_congr hj
  omega

/-! ### majorisation on integer lists -/

/-- how many members are `≤ w` -/
def cle (w : Int) (l : List Int) : Nat := (l.filter (fun x => decide (x ≤ w))).length

theorem cle_nil (w : Int) : cle w [] = 0 := rfl

theorem cle_cons (w x : Int) (l : List Int) : cle w (x :: l) = (if x ≤ w then 1 else 0) + cle w l := by
  unfold cle
  by_cases h : x ≤ w
  · rw [List.filter_cons, if_pos (decide_eq_true h), List.length_cons, if_pos h]; omega
  · rw [List.filter_cons, if_neg (by rw [decide_eq_true_iff]; exact h), if_neg h]; omega

theorem cle_perm {l l' : List Int} (w : Int) (h : l.Perm l') : cle w l = cle w l' :=
  (h.filter _).length_eq

theorem cle_le_length (w : Int) (l : List Int) : cle w l ≤ l.length := List.length_filter_le _ _

theorem cle_eq_length_iff (w : Int) (l : List Int) : cle w l = l.length ↔ ∀ x, x ∈ l → x ≤ w := by
  induction l with
  | nil => exact ⟨fun _ x hx => absurd hx List.not_mem_nil, fun _ => rfl⟩
  | cons y ys ih =>
    rw [cle_cons, List.length_cons]
    have hle := cle_le_length w ys
    constructor
    · intro h x hx
      by_cases hy : y ≤ w
      · rw [if_pos hy] at h
        rcases List.mem_cons.1 hx with hxy | hx
        · rw [hxy]; exact hy
        · exact ih.1 (by omega) x hx
      · rw [if_neg hy] at h; omega
    · intro h
      rw [if_pos (h y List.mem_cons_self), ih.2 (fun x hx => h x (List.mem_cons_of_mem _ hx))]; omega

theorem cle_pos {w : Int} {l : List Int} (h : 0 < cle w l) : ∃ x, x ∈ l ∧ x ≤ w := by
  induction l with
  | nil => rw [cle_nil] at h; omega
  | cons y ys ih =>
    rw [cle_cons] at h
    by_cases hy : y ≤ w
    · exact ⟨y, List.mem_cons_self, hy⟩
    · rw [if_neg hy] at h
      obtain ⟨x, hx, hxw⟩ := ih (by omega)
      exact ⟨x, List.mem_cons_of_mem _ hx, hxw⟩

theorem cle_map (w : Int) (F : List Edge) : cle w (F.map Edge.w) = (F.filter (leW w)).length := by
  induction F with
  | nil => rfl
  | cons e F ih =>
    rw [List.map_cons, cle_cons, ih, List.filter_cons]
    by_cases h : e.w ≤ w
    · have : leW w e = true := by unfold leW; exact decide_eq_true h
      rw [if_pos h, if_pos this, List.length_cons]; omega
    · have : ¬ leW w e = true := by unfold leW; rw [decide_eq_true_iff]; exact h
      rw [if_neg h, if_neg this]; omega

theorem int_exists_max (l : List Int) (h : l ≠ []) : ∃ b, b ∈ l ∧ ∀ x, x ∈ l → x ≤ b := by
  induction l with
  | nil => exact absurd rfl h
  | cons y ys ih =>
    by_cases hys : ys = []
    · subst hys
      exact ⟨y, List.mem_cons_self, fun x hx => by rw [List.mem_singleton.1 hx]; exact Int.le_refl _⟩
    · obtain ⟨b, hb, hmax⟩ := ih hys
      by_cases hyb : y ≤ b
      · refine ⟨b, List.mem_cons_of_mem _ hb, fun x hx => ?_⟩
        rcases List.mem_cons.1 hx with hxy | hx
        · rw [hxy]; exact hyb
        · exact hmax x hx
      · refine ⟨y, List.mem_cons_self, fun x hx => ?_⟩
        rcases List.mem_cons.1 hx with hxy | hx
        · rw [hxy]; exact Int.le_refl _
        · have := hmax x hx; omega

theorem int_sum_perm {l l' : List Int} (h : l.Perm l') : l.sum = l'.sum := by
  induction h with
  | nil => rfl
  | cons x _ ih => rw [List.sum_cons, List.sum_cons, ih]
  | swap x y l => rw [List.sum_cons, List.sum_cons, List.sum_cons, List.sum_cons]; omega
  | trans _ _ ih1 ih2 => exact ih1.trans ih2

/-- if below every threshold `A` has at least as many members as `B` (and both have the same length)
    then `A` sums to at most what `B` sums to -/
theorem majorise (n : Nat) : ∀ (A B : List Int), A.length = n → B.length = n →
    (∀ w, cle w B ≤ cle w A) → A.sum ≤ B.sum := by
  induction n with
  | zero =>
    intro A B hA hB _
    rw [List.length_eq_zero_iff.1 hA, List.length_eq_zero_iff.1 hB]
    exact Int.le_refl _
  | succ n ih =>
    intro A B hA hB hc
    have hAne : A ≠ [] := by intro h; rw [h] at hA; simp at hA
    have hBne : B ≠ [] := by intro h; rw [h] at hB; simp at hB
    obtain ⟨a, ha, hamax⟩ := int_exists_max A hAne
    obtain ⟨b, hb, hbmax⟩ := int_exists_max B hBne
    have hpA := List.perm_cons_erase ha
    have hpB := List.perm_cons_erase hb
    have hlA : (A.erase a).length = n := by rw [List.length_erase_of_mem ha]; omega
    have hlB : (B.erase b).length = n := by rw [List.length_erase_of_mem hb]; omega
    -- everything in `A` is below the maximum of `B`
    have hallA : ∀ x, x ∈ A → x ≤ b := by
      apply (cle_eq_length_iff b A).1
      have h1 := (cle_eq_length_iff b B).2 hbmax
      have h2 := hc b
      have h3 := cle_le_length b A
      omega
    have hsA : A.sum = a + (A.erase a).sum := by rw [int_sum_perm hpA, List.sum_cons]
    have hsB : B.sum = b + (B.erase b).sum := by rw [int_sum_perm hpB, List.sum_cons]
    have hrec : (A.erase a).sum ≤ (B.erase b).sum := by
      apply ih _ _ hlA hlB
      intro w
      have hcA : cle w A = (if a ≤ w then 1 else 0) + cle w (A.erase a) := by
        rw [cle_perm w hpA, cle_cons]
      have hcB : cle w B = (if b ≤ w then 1 else 0) + cle w (B.erase b) := by
        rw [cle_perm w hpB, cle_cons]
      have hleB := cle_le_length w (B.erase b)
      by_cases hbw : b ≤ w
      · have : cle w (A.erase a) = (A.erase a).length := by
          apply (cle_eq_length_iff w _).2
          intro x hx
          exact Int.le_trans (hallA x (List.mem_of_mem_erase hx)) hbw
        omega
      · rw [if_neg hbw] at hcB
        have h2 := hc w
        by_cases haw : a ≤ w
        · have : cle w (A.erase a) = (A.erase a).length := by
            apply (cle_eq_length_iff w _).2
            intro x hx
            exact Int.le_trans (hamax x (List.mem_of_mem_erase hx)) haw
          omega
        · rw [if_neg haw] at hcA; omega
    have hab := hallA a ha
    omega

/-- ascending lists with the same count below every threshold are equal -/
theorem sorted_eq_of_cle : ∀ (A B : List Int), A.Pairwise (· ≤ ·) → B.Pairwise (· ≤ ·) →
    (∀ w, cle w A = cle w B) → A = B := by
  intro A
  induction A with
  | nil =>
    intro B _ _ hc
    cases B with
    | nil => rfl
    | cons b B' =>
      have := hc b
      rw [cle_nil, cle_cons, if_pos (Int.le_refl _)] at this; omega
  | cons a A' ih =>
    intro B hA hB hc
    cases B with
    | nil =>
      have := hc a
      rw [cle_nil, cle_cons, if_pos (Int.le_refl _)] at this; omega
    | cons b B' =>
      have hA' := List.pairwise_cons.1 hA
      have hB' := List.pairwise_cons.1 hB
      have hba : b ≤ a := by
        have h1 := hc a
        rw [cle_cons a a, if_pos (Int.le_refl _)] at h1
        obtain ⟨x, hx, hxa⟩ := cle_pos (w := a) (l := b :: B') (by omega)
        rcases List.mem_cons.1 hx with hxb | hx
        · rw [← hxb]; exact hxa
        · exact Int.le_trans (hB'.1 x hx) hxa
      have hab : a ≤ b := by
        have h1 := hc b
        rw [cle_cons b b, if_pos (Int.le_refl _)] at h1
        obtain ⟨x, hx, hxb⟩ := cle_pos (w := b) (l := a :: A') (by omega)
        rcases List.mem_cons.1 hx with hxa | hx
        · rw [← hxa]; exact hxb
        · exact Int.le_trans (hA'.1 x hx) hxb
      have heq : a = b := by omega
      subst heq
      have : A' = B' := by
        apply ih B' hA'.2 hB'.2
        intro w
        have := hc w
        rw [cle_cons, cle_cons] at this; omega
      rw [this]

/-! ### the two optimality theorems -/

theorem greedy_minimal {ns : List Nat} {es F : List Edge} (hnd : ns.Nodup)
    (hin : ∀ e, e ∈ es → e.src ∈ ns ∧ e.dst ∈ ns) (hs : SortedW es) (hF : ∀ e, e ∈ F → e ∈ es)
    (hj : ∀ u v, Joined F u v ↔ Joined es u v) (hac : SeqAcyclic F) :
    sumW (greedy es []) ≤ sumW F := by
  have hlen : (greedy es []).length = F.length :=
    seqAcyclic_length_eq hnd (fun e he => hin e (greedy_mem he)) (fun e he => hin e (hF e he))
      (greedy_seqAcyclic es) hac (fun u v => (greedy_joined es u v).trans (hj u v).symm)
  rw [sumW_eq_sum, sumW_eq_sum]
  apply majorise F.length
  · rw [List.length_map, hlen]
  · rw [List.length_map]
  · intro w
    rw [cle_map, cle_map]
    exact greedy_count_le hnd hin hs hF hac w

theorem greedy_weights_unique {ns : List Nat} {es es' : List Edge} (hnd : ns.Nodup)
    (hin : ∀ e, e ∈ es → e.src ∈ ns ∧ e.dst ∈ ns) (hp : es.Perm es') (hs : SortedW es)
    (hs' : SortedW es') :
    (greedy es []).reverse.map Edge.w = (greedy es' []).reverse.map Edge.w := by
  have hin' : ∀ e, e ∈ es' → e.src ∈ ns ∧ e.dst ∈ ns := fun e he => hin e (hp.mem_iff.2 he)
  apply sorted_eq_of_cle
  · exact List.pairwise_map.2 (greedy_weights_sorted hs)
  · exact List.pairwise_map.2 (greedy_weights_sorted hs')
  · intro w
    rw [cle_perm w ((List.reverse_perm _).map Edge.w), cle_perm w ((List.reverse_perm _).map Edge.w),
      cle_map, cle_map]
    apply Nat.le_antisymm
    · exact greedy_count_le hnd hin' hs' (fun e he => hp.mem_iff.1 (greedy_mem he))
        (greedy_seqAcyclic es) w
    · exact greedy_count_le hnd hin hs (fun e he => hp.mem_iff.2 (greedy_mem he))
        (greedy_seqAcyclic es') w

end Neumann.Paths
