import NeumannModel.Paths.AlgoSpec
/-
  C18 — `kcore_decomposition`: the peeling loop of `AlgoModel.lean` (`kLoop`, lazy min-heap) answers the
  textbook core number of every node.

  Part 1: `nbrSet … .both` is the simple undirected neighbourhood (`mem_nbrSet_both`, `nbrSet_nodup`).
  Part 2: the loop over an abstract symmetric, irreflexive, duplicate-free adjacency `adj` on a
          duplicate-free node list (`KInv`, preserved by every iteration; fuel adequacy by a potential).
  Part 3: `kcore_keys`, `kcore_exact`, closed examples.
-/
namespace Neumann.Paths

/-! ### Part 1: the neighbour set -/

theorem kc_eraseDups_nodup_aux : ∀ (n : Nat) (l : List Nat), l.length ≤ n → l.eraseDups.Nodup := by
  intro n
  induction n with
  | zero =>
    intro l hl
    have : l = [] := List.length_eq_zero_iff.1 (by omega)
    subst this; simp
  | succ k ih =>
    intro l hl
    cases l with
    | nil => simp
    | cons a as =>
      rw [List.eraseDups_cons, List.nodup_cons]
      have h1 : (as.filter (fun b => !b == a)).length ≤ as.length := List.length_filter_le _ _
      refine ⟨?_, ih _ (by simp only [List.length_cons] at hl; omega)⟩
      rw [List.mem_eraseDups, List.mem_filter]
      simp

theorem kc_eraseDups_nodup (l : List Nat) : l.eraseDups.Nodup := kc_eraseDups_nodup_aux _ l (Nat.le_refl _)

theorem kc_nodup_filter {α : Type} (p : α → Bool) {l : List α} (h : l.Nodup) : (l.filter p).Nodup :=
  List.Nodup.sublist List.filter_sublist h

theorem nbrSet_nodup (g : Graph) (etype : Option Nat) (dir : Dir) (u : Nat) :
    (nbrSet g etype dir u).Nodup := by
  unfold nbrSet
  exact kc_nodup_filter _ (kc_eraseDups_nodup _)

theorem kc_hasNode_iff (g : Graph) (n : Nat) : g.hasNode n = true ↔ n ∈ g.nodes.map (·.id) := by
  unfold Graph.hasNode
  simp only [List.any_eq_true, beq_iff_eq, List.mem_map]

theorem kc_mem_neighborsRawT_both (g : Graph) (etype : Option Nat) (u v : Nat) :
    v ∈ neighborsRawT g etype .both u ↔ (v ≠ u ∧ linked g etype u v) := by
  unfold neighborsRawT linked
  simp only [Dir.hasOut, Dir.hasIn, if_true, List.mem_append, List.mem_filterMap, outEdges, inEdges,
    List.mem_filter, inOut, inIn]
  constructor
  · rintro (⟨e, ⟨he, -⟩, hv⟩ | ⟨e, ⟨he, -⟩, hv⟩)
    · split at hv
      · simp at hv
      · rename_i ht
        replace ht : typeOk etype e = true := by simpa using ht
        split at hv
        · rename_i h1
          simp only [Bool.and_eq_true, beq_iff_eq, bne_iff_ne, ne_eq] at h1
          simp only [Option.some.injEq] at hv
          subst hv
          exact ⟨h1.2, e, he, ht, .inl ⟨h1.1, rfl⟩⟩
        · split at hv
          · rename_i h1
            simp only [Bool.and_eq_true, beq_iff_eq, bne_iff_ne, ne_eq] at h1
            simp only [Option.some.injEq] at hv
            subst hv
            exact ⟨h1.2, e, he, ht, .inr ⟨rfl, h1.1⟩⟩
          · simp at hv
    · split at hv
      · simp at hv
      · rename_i ht
        replace ht : typeOk etype e = true := by simpa using ht
        split at hv
        · rename_i h1
          simp only [Bool.and_eq_true, beq_iff_eq, bne_iff_ne, ne_eq] at h1
          simp only [Option.some.injEq] at hv
          subst hv
          exact ⟨h1.2, e, he, ht, .inr ⟨rfl, h1.1⟩⟩
        · split at hv
          · rename_i h1
            simp only [Bool.and_eq_true, beq_iff_eq, bne_iff_ne, ne_eq] at h1
            simp only [Option.some.injEq] at hv
            subst hv
            exact ⟨h1.2, e, he, ht, .inl ⟨h1.1, rfl⟩⟩
          · simp at hv
  · rintro ⟨hne, e, he, ht, (⟨h1, h2⟩ | ⟨h1, h2⟩)⟩
    · left
      subst h1; subst h2
      refine ⟨e, ⟨he, by simp⟩, ?_⟩
      simp [ht, hne]
    · right
      subst h1; subst h2
      refine ⟨e, ⟨he, by simp⟩, ?_⟩
      simp [ht, hne]

theorem mem_nbrSet_both (g : Graph) (etype : Option Nat) (u v : Nat) :
    v ∈ nbrSet g etype .both u ↔ (v ≠ u ∧ g.hasNode v = true ∧ linked g etype u v) := by
  unfold nbrSet
  rw [List.mem_filter, List.mem_eraseDups, kc_mem_neighborsRawT_both]
  constructor
  · rintro ⟨⟨h1, h2⟩, h3⟩
    exact ⟨h1, h3, h2⟩
  · rintro ⟨h1, h3, h2⟩
    exact ⟨⟨h1, h2⟩, h3⟩

theorem kc_linked_symm {g : Graph} {etype : Option Nat} {u v : Nat} (h : linked g etype u v) :
    linked g etype v u := by
  rcases h with ⟨e, he, ht, h⟩
  exact ⟨e, he, ht, h.symm⟩

/-- adjacency is symmetric on existing nodes -/
theorem mem_nbrSet_both_symm (g : Graph) (etype : Option Nat) (u v : Nat)
    (hu : g.hasNode u = true) (hv : g.hasNode v = true) :
    v ∈ nbrSet g etype .both u ↔ u ∈ nbrSet g etype .both v := by
  rw [mem_nbrSet_both, mem_nbrSet_both]
  constructor
  · rintro ⟨h1, -, h3⟩
    exact ⟨fun h => h1 h.symm, hu, kc_linked_symm h3⟩
  · rintro ⟨h1, -, h3⟩
    exact ⟨fun h => h1 h.symm, hv, kc_linked_symm h3⟩

theorem mem_nbrSet_both_iff_adjacentT (g : Graph) (etype : Option Nat) (u v : Nat)
    (hu : g.hasNode u = true) :
    v ∈ nbrSet g etype .both u ↔ adjacentT g etype u v := by
  rw [mem_nbrSet_both]
  unfold adjacentT
  constructor
  · rintro ⟨h1, h2, h3⟩
    exact ⟨fun h => h1 h.symm, hu, h2, h3⟩
  · rintro ⟨h1, -, h2, h3⟩
    exact ⟨fun h => h1 h.symm, h2, h3⟩

/-! ### Part 2: the peeling loop over an abstract adjacency -/

theorem kc_nmGet_cons (k v : Nat) (m : NatMap) (u : Nat) :
    nmGet ((k, v) :: m) u = if k = u then some v else nmGet m u := by
  unfold nmGet
  by_cases h : k = u
  · simp [h]
  · simp [h]

theorem kc_nmGet_map (f : Nat → Nat) (nodes : List Nat) (u : Nat) (hu : u ∈ nodes) :
    nmGet (nodes.map (fun n => (n, f n))) u = some (f u) := by
  induction nodes with
  | nil => simp at hu
  | cons a as ih =>
    rw [List.map_cons, kc_nmGet_cons]
    by_cases h : a = u
    · simp [h]
    · rw [if_neg h]
      rcases List.mem_cons.1 hu with h1 | h1
      · exact absurd h1.symm h
      · exact ih h1

/-! #### the heap -/

theorem kc_bestPair_mem (b : Nat × Nat) (l : List (Nat × Nat)) : bestPair b l ∈ b :: l := by
  induction l generalizing b with
  | nil => simp [bestPair]
  | cons x xs ih =>
    rw [bestPair]
    split
    · have := ih x
      exact List.mem_cons_of_mem _ this
    · have := ih b
      rcases List.mem_cons.1 this with h | h
      · rw [h]; exact List.mem_cons_self
      · exact List.mem_cons_of_mem _ (List.mem_cons_of_mem _ h)

theorem kc_bestPair_le (b : Nat × Nat) (l : List (Nat × Nat)) :
    ∀ y, y ∈ b :: l → (bestPair b l).1 ≤ y.1 := by
  induction l generalizing b with
  | nil => intro y hy; simp at hy; subst hy; simp [bestPair]
  | cons x xs ih =>
    intro y hy
    rw [bestPair]
    split
    · rename_i hb
      simp only [pairBefore, Bool.or_eq_true, decide_eq_true_eq, Bool.and_eq_true, beq_iff_eq] at hb
      have hx := ih x x List.mem_cons_self
      rcases List.mem_cons.1 hy with h | h
      · subst h; omega
      · exact ih x y h
    · rename_i hb
      simp only [pairBefore, Bool.or_eq_true, decide_eq_true_eq, Bool.and_eq_true, beq_iff_eq] at hb
      have hbb := ih b b List.mem_cons_self
      rcases List.mem_cons.1 hy with h | h
      · subst h; exact hbb
      · rcases List.mem_cons.1 h with h | h
        · subst h; omega
        · exact ih b y (List.mem_cons_of_mem _ h)

theorem kc_popMinPair_none {h : List (Nat × Nat)} (hp : popMinPair h = none) : h = [] := by
  cases h with
  | nil => rfl
  | cons x xs => simp [popMinPair] at hp

theorem kc_popMinPair_some {h h' : List (Nat × Nat)} {b : Nat × Nat} (hp : popMinPair h = some (b, h')) :
    b ∈ h ∧ h' = h.erase b ∧ ∀ y, y ∈ h → b.1 ≤ y.1 := by
  cases h with
  | nil => simp [popMinPair] at hp
  | cons x xs =>
    simp only [popMinPair, Option.some.injEq, Prod.mk.injEq] at hp
    rcases hp with ⟨h1, h2⟩
    subst h1
    exact ⟨kc_bestPair_mem x xs, h2.symm, kc_bestPair_le x xs⟩

/-! #### the neighbour loop `kDec` -/

theorem kDec_get (P : List Nat) (l : List Nat) (d : NatMap) (h : List (Nat × Nat)) (hl : l.Nodup) (u : Nat) :
    nmGet (kDec P l d h).1 u = if u ∈ l ∧ u ∉ P then (nmGet d u).map (· - 1) else nmGet d u := by
  induction l generalizing d h with
  | nil => simp [kDec]
  | cons nb rest ih =>
    rw [List.nodup_cons] at hl
    rw [kDec]
    split
    · rename_i hc
      simp only [List.contains_eq_mem, decide_eq_true_eq] at hc
      rw [ih _ _ hl.2]
      by_cases hu : u = nb
      · subst hu
        simp [hc, hl.1]
      · simp [hu]
    · rename_i hc
      simp only [List.contains_eq_mem, decide_eq_true_eq] at hc
      split
      · rename_i hnone
        rw [ih _ _ hl.2]
        by_cases hu : u = nb
        · subst hu
          simp [hl.1, hnone]
        · simp [hu]
      · rename_i dg hsome
        split
        · rw [ih _ _ hl.2, kc_nmGet_cons]
          by_cases hu : u = nb
          · subst hu
            simp [hl.1, hsome, hc]
          · have hu' : ¬ nb = u := fun e => hu e.symm
            simp [hu, hu']
        · rename_i hz
          have hz' : dg = 0 := by omega
          subst hz'
          rw [ih _ _ hl.2]
          by_cases hu : u = nb
          · subst hu
            simp [hl.1, hsome]
          · simp [hu]

theorem kDec_heap_mem (P : List Nat) (l : List Nat) (d : NatMap) (h : List (Nat × Nat)) (hl : l.Nodup)
    (p : Nat × Nat) :
    p ∈ (kDec P l d h).2 ↔
      p ∈ h ∨ (p.2 ∈ l ∧ p.2 ∉ P ∧ ∃ dg, nmGet d p.2 = some dg ∧ 0 < dg ∧ p.1 = dg - 1) := by
  induction l generalizing d h with
  | nil => simp [kDec]
  | cons nb rest ih =>
    rw [List.nodup_cons] at hl
    rw [kDec]
    split
    · rename_i hc
      simp only [List.contains_eq_mem, decide_eq_true_eq] at hc
      rw [ih _ _ hl.2]
      constructor
      · rintro (h1 | ⟨h1, h2, h3⟩)
        · exact .inl h1
        · exact .inr ⟨List.mem_cons_of_mem _ h1, h2, h3⟩
      · rintro (h1 | ⟨h1, h2, h3⟩)
        · exact .inl h1
        · rcases List.mem_cons.1 h1 with h1 | h1
          · rw [h1] at h2; exact absurd hc h2
          · exact .inr ⟨h1, h2, h3⟩
    · rename_i hc
      simp only [List.contains_eq_mem, decide_eq_true_eq] at hc
      split
      · rename_i hnone
        rw [ih _ _ hl.2]
        constructor
        · rintro (h1 | ⟨h1, h2, h3⟩)
          · exact .inl h1
          · exact .inr ⟨List.mem_cons_of_mem _ h1, h2, h3⟩
        · rintro (h1 | ⟨h1, h2, dg, h3, h4⟩)
          · exact .inl h1
          · rcases List.mem_cons.1 h1 with h1 | h1
            · rw [h1, hnone] at h3; simp at h3
            · exact .inr ⟨h1, h2, dg, h3, h4⟩
      · rename_i dg hsome
        split
        · rename_i hpos
          rw [ih _ _ hl.2]
          constructor
          · rintro (h1 | ⟨h1, h2, dg', h3, h4⟩)
            · rcases List.mem_cons.1 h1 with h1 | h1
              · subst h1
                exact .inr ⟨List.mem_cons_self, hc, dg, hsome, hpos, rfl⟩
              · exact .inl h1
            · have hne : ¬ nb = p.2 := fun e => hl.1 (e ▸ h1)
              rw [kc_nmGet_cons, if_neg hne] at h3
              exact .inr ⟨List.mem_cons_of_mem _ h1, h2, dg', h3, h4⟩
          · rintro (h1 | ⟨h1, h2, dg', h3, h4, h5⟩)
            · exact .inl (List.mem_cons_of_mem _ h1)
            · rcases List.mem_cons.1 h1 with h1 | h1
              · left
                rw [h1, hsome] at h3
                simp only [Option.some.injEq] at h3
                subst h3
                have : p = (dg - 1, nb) := by
                  rcases p with ⟨p1, p2⟩
                  simp only at h1 h5
                  rw [h1, h5]
                rw [this]
                exact List.mem_cons_self
              · have hne : ¬ nb = p.2 := fun e => hl.1 (e ▸ h1)
                refine .inr ⟨h1, h2, dg', ?_, h4, h5⟩
                rw [kc_nmGet_cons, if_neg hne]
                exact h3
        · rename_i hz
          rw [ih _ _ hl.2]
          constructor
          · rintro (h1 | ⟨h1, h2, h3⟩)
            · exact .inl h1
            · exact .inr ⟨List.mem_cons_of_mem _ h1, h2, h3⟩
          · rintro (h1 | ⟨h1, h2, dg', h3, h4, h5⟩)
            · exact .inl h1
            · rcases List.mem_cons.1 h1 with h1 | h1
              · rw [h1, hsome] at h3
                simp only [Option.some.injEq] at h3
                omega
              · exact .inr ⟨h1, h2, dg', h3, h4, h5⟩

/-! #### potential: heap length plus the sum of all stored degrees -/

def kcDegSum (nodes : List Nat) (d : NatMap) : Nat := (nodes.map (fun u => (nmGet d u).getD 0)).sum

theorem kcDegSum_dec_notin (nodes : List Nat) (d : NatMap) (nb v : Nat) (hnb : nb ∉ nodes) :
    kcDegSum nodes ((nb, v) :: d) = kcDegSum nodes d := by
  unfold kcDegSum
  congr 1
  apply List.map_congr_left
  intro u hu
  have : ¬ nb = u := fun e => hnb (e ▸ hu)
  rw [kc_nmGet_cons, if_neg this]

theorem kcDegSum_dec (nodes : List Nat) (hn : nodes.Nodup) (d : NatMap) (nb dg : Nat)
    (h : nmGet d nb = some dg) (hpos : 0 < dg) (hnb : nb ∈ nodes) :
    kcDegSum nodes ((nb, dg - 1) :: d) + 1 = kcDegSum nodes d := by
  induction nodes with
  | nil => simp at hnb
  | cons a as ih =>
    rw [List.nodup_cons] at hn
    have e1 : ∀ m, kcDegSum (a :: as) m = (nmGet m a).getD 0 + kcDegSum as m := by
      intro m; simp [kcDegSum]
    rw [e1, e1]
    by_cases ha : a = nb
    · subst ha
      rw [kcDegSum_dec_notin _ _ _ _ hn.1, kc_nmGet_cons, if_pos rfl, h]
      simp only [Option.getD_some]
      omega
    · have ha' : ¬ nb = a := fun e => ha e.symm
      rw [kc_nmGet_cons, if_neg ha']
      rcases List.mem_cons.1 hnb with h1 | h1
      · exact absurd h1.symm ha
      · have := ih hn.2 h1
        omega

theorem kDec_potential (nodes : List Nat) (hn : nodes.Nodup) (P : List Nat) (l : List Nat) (d : NatMap)
    (h : List (Nat × Nat)) (hl : ∀ v, v ∈ l → v ∈ nodes) :
    (kDec P l d h).2.length + kcDegSum nodes (kDec P l d h).1 = h.length + kcDegSum nodes d := by
  induction l generalizing d h with
  | nil => simp [kDec]
  | cons nb rest ih =>
    have hrest : ∀ v, v ∈ rest → v ∈ nodes := fun v hv => hl v (List.mem_cons_of_mem _ hv)
    rw [kDec]
    split
    · exact ih _ _ hrest
    · split
      · exact ih _ _ hrest
      · rename_i dg hsome
        split
        · rename_i hpos
          rw [ih _ _ hrest]
          have := kcDegSum_dec nodes hn d nb dg hsome hpos (hl nb List.mem_cons_self)
          simp only [List.length_cons]
          omega
        · exact ih _ _ hrest

theorem kLoop_heap_nil (adj : Nat → List Nat) (nodes : List Nat) (hn : nodes.Nodup)
    (hc : ∀ u v, v ∈ adj u → v ∈ nodes) :
    ∀ (fuel : Nat) (st : KSt), st.heap.length + kcDegSum nodes st.degrees ≤ fuel →
      (kLoop adj fuel st).heap = [] := by
  intro fuel
  induction fuel with
  | zero =>
    intro st hf
    rw [kLoop]
    exact List.length_eq_zero_iff.1 (by omega)
  | succ k ih =>
    intro st hf
    rw [kLoop]
    split
    · rename_i hp
      exact kc_popMinPair_none hp
    · rename_i d0 x heap' hp
      rcases kc_popMinPair_some hp with ⟨hb, he, -⟩
      have hlen : heap'.length + 1 = st.heap.length := by
        rw [he, List.length_erase_of_mem hb]
        have := List.length_pos_of_mem hb
        omega
      split
      · apply ih
        simp only
        omega
      · apply ih
        simp only
        have := kDec_potential nodes hn (x :: st.processed) (adj x) st.degrees heap' (hc x)
        omega

/-! #### the invariant -/

/-- number of neighbours of `u` not yet processed -/
def kcRem (adj : Nat → List Nat) (P : List Nat) (u : Nat) : Nat :=
  ((adj u).filter (fun v => decide (v ∉ P))).length

theorem kc_filter_notin_cons_length (l P : List Nat) (x : Nat) (hl : l.Nodup) :
    (l.filter (fun v => decide (v ∉ x :: P))).length + (if x ∈ l ∧ x ∉ P then 1 else 0)
      = (l.filter (fun v => decide (v ∉ P))).length := by
  induction l with
  | nil => simp
  | cons a as ih =>
    rw [List.nodup_cons] at hl
    have ih' := ih hl.2
    by_cases hax : a = x
    · subst hax
      have hna : ¬ (a ∈ as ∧ a ∉ P) := fun h => hl.1 h.1
      rw [if_neg hna] at ih'
      by_cases hp : a ∈ P
      · simp only [List.filter_cons, List.mem_cons, true_or, not_true_eq_false, decide_false,
          Bool.false_eq_true, if_false, hp, and_false] at ih' ⊢
        omega
      · simp only [List.filter_cons, List.mem_cons, true_or, not_true_eq_false, decide_false,
          Bool.false_eq_true, if_false, hp, not_false_eq_true, and_self, if_true, decide_true,
          List.length_cons] at ih' ⊢
        omega
    · have hxa : ¬ x = a := fun e => hax e.symm
      have e1 : (x ∈ a :: as ∧ x ∉ P) ↔ (x ∈ as ∧ x ∉ P) := by
        simp only [List.mem_cons, hxa, false_or]
      simp only [e1]
      by_cases hp : a ∈ P
      · simp only [List.filter_cons, List.mem_cons, hax, hp, or_true, not_true_eq_false, decide_false,
          Bool.false_eq_true, if_false] at ih' ⊢
        omega
      · simp only [List.filter_cons, List.mem_cons, hax, hp, or_self, not_false_eq_true, decide_true,
          if_true, List.length_cons] at ih' ⊢
        omega

theorem kc_nodup_subset_length_le (ns : List Nat) : ∀ (l : List Nat), ns.Nodup → (∀ v, v ∈ ns → v ∈ l) →
    ns.length ≤ l.length := by
  induction ns with
  | nil => intro l _ _; simp
  | cons a as ih =>
    intro l hnd hsub
    rw [List.nodup_cons] at hnd
    have ha : a ∈ l := hsub a List.mem_cons_self
    have h1 := ih (l.erase a) hnd.2 (fun v hv => by
      have hva : v ≠ a := fun e => hnd.1 (e ▸ hv)
      exact (List.mem_erase_of_ne hva).2 (hsub v (List.mem_cons_of_mem _ hv)))
    rw [List.length_erase_of_mem ha] at h1
    have h2 := List.length_pos_of_mem ha
    simp only [List.length_cons]
    omega

structure KAdjOk (adj : Nat → List Nat) (nodes : List Nat) : Prop where
  nodup : nodes.Nodup
  adjNodup : ∀ u, (adj u).Nodup
  closed : ∀ u v, v ∈ adj u → v ∈ nodes
  symm : ∀ u v, u ∈ nodes → v ∈ nodes → v ∈ adj u → u ∈ adj v
  irrefl : ∀ u, u ∉ adj u

/-- `IsKCoreSetT` over the abstract adjacency -/
def IsKC (adj : Nat → List Nat) (nodes : List Nat) (k : Nat) (s : List Nat) : Prop :=
  ∀ u, u ∈ s → u ∈ nodes ∧
    ∃ ns : List Nat, ns.Nodup ∧ k ≤ ns.length ∧ ∀ v, v ∈ ns → v ∈ s ∧ v ∈ adj u

theorem IsKC_mono {adj : Nat → List Nat} {nodes : List Nat} {k k' : Nat} {s : List Nat}
    (h : IsKC adj nodes k s) (hk : k' ≤ k) : IsKC adj nodes k' s := by
  intro u hu
  rcases h u hu with ⟨h1, ns, h2, h3, h4⟩
  exact ⟨h1, ns, h2, Nat.le_trans hk h3, h4⟩

structure KInv (adj : Nat → List Nat) (nodes : List Nat) (st : KSt) : Prop where
  procNodes : ∀ x, x ∈ st.processed → x ∈ nodes
  procNodup : st.processed.Nodup
  coreKeys : st.core.map (·.1) = st.processed
  deg : ∀ u, u ∈ nodes → u ∉ st.processed → nmGet st.degrees u = some (kcRem adj st.processed u)
  heapHas : ∀ u, u ∈ nodes → u ∉ st.processed → (kcRem adj st.processed u, u) ∈ st.heap
  heapOk : ∀ d u, (d, u) ∈ st.heap → u ∈ nodes ∧ (u ∉ st.processed → kcRem adj st.processed u ≤ d)
  low : ∃ W, (∀ u, u ∈ nodes → u ∉ st.processed → u ∈ W) ∧ IsKC adj nodes st.cur W
  coreLow : ∀ x c, (x, c) ∈ st.core → ∃ W, x ∈ W ∧ IsKC adj nodes c W
  up : ∀ k s, IsKC adj nodes k s → (∃ x, x ∈ s ∧ x ∈ st.processed) → k ≤ st.cur
  coreUp : ∀ x c, (x, c) ∈ st.core → ∀ k s, x ∈ s → IsKC adj nodes k s → k ≤ c

theorem KInv_skip {adj : Nat → List Nat} {nodes : List Nat} {st : KSt} (inv : KInv adj nodes st)
    {d0 x : Nat} {heap' : List (Nat × Nat)} (hpop : popMinPair st.heap = some ((d0, x), heap'))
    (hx : x ∈ st.processed) : KInv adj nodes { st with heap := heap' } := by
  rcases kc_popMinPair_some hpop with ⟨-, he, -⟩
  subst he
  refine { inv with heapHas := ?_, heapOk := ?_ }
  · intro u hu hup
    have hne : (kcRem adj st.processed u, u) ≠ (d0, x) := by
      intro e
      simp only [Prod.mk.injEq] at e
      exact hup (e.2 ▸ hx)
    exact (List.mem_erase_of_ne hne).2 (inv.heapHas u hu hup)
  · intro d u hdu
    exact inv.heapOk d u (List.mem_of_mem_erase hdu)

theorem kcRem_cons {adj : Nat → List Nat} {nodes : List Nat} (ok : KAdjOk adj nodes) (P : List Nat)
    (x u : Nat) (hx : x ∉ P) :
    kcRem adj (x :: P) u + (if x ∈ adj u then 1 else 0) = kcRem adj P u := by
  unfold kcRem
  have := kc_filter_notin_cons_length (adj u) P x (ok.adjNodup u)
  have e1 : (x ∈ adj u ∧ x ∉ P) ↔ x ∈ adj u := ⟨fun h => h.1, fun h => ⟨h, hx⟩⟩
  simp only [e1] at this
  exact this

theorem KInv_process {adj : Nat → List Nat} {nodes : List Nat} (ok : KAdjOk adj nodes) {st : KSt}
    (inv : KInv adj nodes st)
    {d0 x : Nat} {heap' : List (Nat × Nat)} (hpop : popMinPair st.heap = some ((d0, x), heap'))
    (hx : x ∉ st.processed) :
    KInv adj nodes
      { degrees := (kDec (x :: st.processed) (adj x) st.degrees heap').1,
        heap := (kDec (x :: st.processed) (adj x) st.degrees heap').2,
        processed := x :: st.processed,
        core := (x, max st.cur ((nmGet st.degrees x).getD 0)) :: st.core,
        cur := max st.cur ((nmGet st.degrees x).getD 0) } := by
  rcases kc_popMinPair_some hpop with ⟨hb, he, hmin⟩
  have hxn : x ∈ nodes := (inv.heapOk d0 x hb).1
  have hrd : kcRem adj st.processed x ≤ d0 := (inv.heapOk d0 x hb).2 hx
  have hact : (nmGet st.degrees x).getD 0 = kcRem adj st.processed x := by
    rw [inv.deg x hxn hx]; rfl
  rw [hact]
  -- the popped node has the fewest remaining neighbours
  have hleast : ∀ u, u ∈ nodes → u ∉ st.processed → kcRem adj st.processed x ≤ kcRem adj st.processed u := by
    intro u hu hup
    have := hmin _ (inv.heapHas u hu hup)
    simp only at this
    omega
  -- remaining counts after `x` is processed
  have hrem : ∀ u, u ∈ nodes → u ∉ x :: st.processed →
      (u ∈ adj x → kcRem adj (x :: st.processed) u + 1 = kcRem adj st.processed u) ∧
      (u ∉ adj x → kcRem adj (x :: st.processed) u = kcRem adj st.processed u) := by
    intro u hu hup
    have h1 := kcRem_cons ok st.processed x u hx
    constructor
    · intro hux
      have : x ∈ adj u := ok.symm x u hxn hu hux
      rw [if_pos this] at h1
      exact h1
    · intro hux
      have : x ∉ adj u := fun h => hux (ok.symm u x hu hxn h)
      rw [if_neg this] at h1
      exact h1
  have hremle : ∀ u, kcRem adj (x :: st.processed) u ≤ kcRem adj st.processed u := by
    intro u
    have h1 := kcRem_cons ok st.processed x u hx
    omega
  -- lower bound witness for the new core value
  have hA : ∃ W, x ∈ W ∧ (∀ u, u ∈ nodes → u ∉ st.processed → u ∈ W) ∧
      IsKC adj nodes (max st.cur (kcRem adj st.processed x)) W := by
    by_cases hc : kcRem adj st.processed x ≤ st.cur
    · rcases inv.low with ⟨W, hW1, hW2⟩
      have : max st.cur (kcRem adj st.processed x) = st.cur := by omega
      rw [this]
      exact ⟨W, hW1 x hxn hx, hW1, hW2⟩
    · have : max st.cur (kcRem adj st.processed x) = kcRem adj st.processed x := by omega
      rw [this]
      refine ⟨nodes.filter (fun v => decide (v ∉ st.processed)), ?_, ?_, ?_⟩
      · simp [hxn, hx]
      · intro u hu hup
        simp [hu, hup]
      · intro u hu
        simp only [List.mem_filter, decide_eq_true_eq] at hu
        refine ⟨hu.1, (adj u).filter (fun v => decide (v ∉ st.processed)),
          kc_nodup_filter _ (ok.adjNodup u), hleast u hu.1 hu.2, ?_⟩
        intro v hv
        simp only [List.mem_filter, decide_eq_true_eq] at hv
        refine ⟨?_, hv.1⟩
        simp only [List.mem_filter, decide_eq_true_eq]
        exact ⟨ok.closed u v hv.1, hv.2⟩
  -- upper bound for every candidate set through `x`
  have hB : ∀ k s, IsKC adj nodes k s → x ∈ s → k ≤ max st.cur (kcRem adj st.processed x) := by
    intro k s hs hxs
    by_cases hex : ∃ y, y ∈ s ∧ y ∈ st.processed
    · have := inv.up k s hs hex
      omega
    · rcases hs x hxs with ⟨-, ns, hnd, hk, hns⟩
      have hle : ns.length ≤ kcRem adj st.processed x := by
        unfold kcRem
        apply kc_nodup_subset_length_le ns _ hnd
        intro v hv
        simp only [List.mem_filter, decide_eq_true_eq]
        exact ⟨(hns v hv).2, fun hvp => hex ⟨v, (hns v hv).1, hvp⟩⟩
      omega
  constructor
  · -- procNodes
    intro y hy
    rcases List.mem_cons.1 hy with h | h
    · rw [h]; exact hxn
    · exact inv.procNodes y h
  · exact List.nodup_cons.2 ⟨hx, inv.procNodup⟩
  · simp only [List.map_cons, inv.coreKeys]
  · -- deg
    intro u hu hup
    simp only
    rw [kDec_get _ _ _ _ (ok.adjNodup x)]
    have hup' : u ∉ st.processed := fun h => hup (List.mem_cons_of_mem _ h)
    rw [inv.deg u hu hup']
    by_cases hux : u ∈ adj x
    · rw [if_pos ⟨hux, hup⟩]
      have := (hrem u hu hup).1 hux
      simp only [Option.map_some, Option.some.injEq]
      omega
    · rw [if_neg (fun h => hux h.1)]
      rw [(hrem u hu hup).2 hux]
  · -- heapHas
    intro u hu hup
    simp only
    have hup' : u ∉ st.processed := fun h => hup (List.mem_cons_of_mem _ h)
    rw [kDec_heap_mem _ _ _ _ (ok.adjNodup x)]
    by_cases hux : u ∈ adj x
    · right
      have := (hrem u hu hup).1 hux
      exact ⟨hux, hup, kcRem adj st.processed u, inv.deg u hu hup', by omega, by simp only; omega⟩
    · left
      rw [(hrem u hu hup).2 hux, he]
      have hne : (kcRem adj st.processed u, u) ≠ (d0, x) := by
        intro e
        simp only [Prod.mk.injEq] at e
        exact hup (e.2 ▸ List.mem_cons_self)
      exact (List.mem_erase_of_ne hne).2 (inv.heapHas u hu hup')
  · -- heapOk
    intro d u hdu
    simp only at hdu
    rw [kDec_heap_mem _ _ _ _ (ok.adjNodup x)] at hdu
    rcases hdu with h | ⟨h1, h2, dg, h3, h4, h5⟩
    · rw [he] at h
      have := inv.heapOk d u (List.mem_of_mem_erase h)
      refine ⟨this.1, fun hup => ?_⟩
      have hup' : u ∉ st.processed := fun h => hup (List.mem_cons_of_mem _ h)
      exact Nat.le_trans (hremle u) (this.2 hup')
    · simp only at h1 h2 h3 h5
      have hu : u ∈ nodes := ok.closed x u h1
      refine ⟨hu, fun hup => ?_⟩
      have hup' : u ∉ st.processed := fun h => hup (List.mem_cons_of_mem _ h)
      rw [inv.deg u hu hup'] at h3
      simp only [Option.some.injEq] at h3
      have := (hrem u hu hup).1 h1
      simp only
      omega
  · -- low
    rcases hA with ⟨W, -, hW1, hW2⟩
    exact ⟨W, fun u hu hup => hW1 u hu (fun h => hup (List.mem_cons_of_mem _ h)), hW2⟩
  · -- coreLow
    intro y c hyc
    rcases List.mem_cons.1 hyc with h | h
    · simp only [Prod.mk.injEq] at h
      rcases hA with ⟨W, hW0, -, hW2⟩
      rw [h.1, h.2]
      exact ⟨W, hW0, hW2⟩
    · exact inv.coreLow y c h
  · -- up
    intro k s hs hex
    simp only
    rcases hex with ⟨y, hys, hyp⟩
    rcases List.mem_cons.1 hyp with h | h
    · exact hB k s hs (h ▸ hys)
    · have := inv.up k s hs ⟨y, hys, h⟩
      omega
  · -- coreUp
    intro y c hyc k s hys hs
    rcases List.mem_cons.1 hyc with h | h
    · simp only [Prod.mk.injEq] at h
      rw [h.2]
      exact hB k s hs (h.1 ▸ hys)
    · exact inv.coreUp y c h k s hys hs

theorem kLoop_inv {adj : Nat → List Nat} {nodes : List Nat} (ok : KAdjOk adj nodes) :
    ∀ (fuel : Nat) (st : KSt), KInv adj nodes st → KInv adj nodes (kLoop adj fuel st) := by
  intro fuel
  induction fuel with
  | zero => intro st inv; rw [kLoop]; exact inv
  | succ k ih =>
    intro st inv
    rw [kLoop]
    split
    · exact inv
    · rename_i d0 x heap' hp
      split
      · rename_i hc
        simp only [List.contains_eq_mem, decide_eq_true_eq] at hc
        exact ih _ (KInv_skip inv hp hc)
      · rename_i hc
        simp only [List.contains_eq_mem, decide_eq_true_eq] at hc
        exact ih _ (KInv_process ok inv hp hc)

/-- with enough fuel the loop ends with every node processed -/
theorem kLoop_final {adj : Nat → List Nat} {nodes : List Nat} (ok : KAdjOk adj nodes) (fuel : Nat) (st : KSt)
    (inv : KInv adj nodes st) (hf : st.heap.length + kcDegSum nodes st.degrees ≤ fuel) :
    KInv adj nodes (kLoop adj fuel st) ∧ ∀ u, u ∈ nodes → u ∈ (kLoop adj fuel st).processed := by
  have h1 := kLoop_inv ok fuel st inv
  have h2 := kLoop_heap_nil adj nodes ok.nodup ok.closed fuel st hf
  refine ⟨h1, fun u hu => ?_⟩
  apply Classical.byContradiction
  intro hup
  have := h1.heapHas u hu hup
  rw [h2] at this
  simp at this

/-! #### the initial state -/

/-- the state `kcore` starts the loop in -/
def kInit (adj : Nat → List Nat) (nodes : List Nat) : KSt :=
  { degrees := nodes.map (fun n => (n, (adj n).length)),
    heap := (nodes.map (fun n => (n, (adj n).length))).map (fun p => (p.2, p.1)),
    processed := [], core := [], cur := 0 }

theorem kcRem_nil (adj : Nat → List Nat) (u : Nat) : kcRem adj [] u = (adj u).length := by
  unfold kcRem
  congr 1
  apply List.filter_eq_self.2
  intro v _
  simp

theorem kInit_inv {adj : Nat → List Nat} {nodes : List Nat} : KInv adj nodes (kInit adj nodes) := by
  constructor
  · intro x hx; simp [kInit] at hx
  · simp [kInit]
  · simp [kInit]
  · intro u hu _
    simp only [kInit]
    rw [kcRem_nil, kc_nmGet_map (fun n => (adj n).length) nodes u hu]
  · intro u hu _
    simp only [kInit]
    rw [kcRem_nil, List.map_map, List.mem_map]
    exact ⟨u, hu, rfl⟩
  · intro d u hdu
    simp only [kInit, List.map_map, List.mem_map, Function.comp, Prod.mk.injEq] at hdu
    rcases hdu with ⟨n, hn, h1, h2⟩
    subst h2
    refine ⟨hn, fun _ => ?_⟩
    show kcRem adj [] n ≤ d
    rw [kcRem_nil]
    omega
  · refine ⟨nodes, fun u hu _ => hu, ?_⟩
    intro u hu
    exact ⟨hu, [], List.nodup_nil, Nat.zero_le _, fun v hv => by simp at hv⟩
  · intro x c h; simp [kInit] at h
  · intro k s _ h
    rcases h with ⟨x, -, hx⟩
    simp [kInit] at hx
  · intro x c h; simp [kInit] at h

theorem kInit_fuel (adj : Nat → List Nat) (nodes : List Nat) :
    (kInit adj nodes).heap.length + kcDegSum nodes (kInit adj nodes).degrees
      ≤ (nodes.map (fun n => (n, (adj n).length))).length
        + ((nodes.map (fun n => (n, (adj n).length))).map (·.2)).sum + 2 := by
  have e1 : kcDegSum nodes (kInit adj nodes).degrees
      = ((nodes.map (fun n => (n, (adj n).length))).map (·.2)).sum := by
    unfold kcDegSum
    simp only [kInit, List.map_map]
    congr 1
    apply List.map_congr_left
    intro u hu
    rw [kc_nmGet_map (fun n => (adj n).length) nodes u hu]
    rfl
  rw [e1]
  simp only [kInit, List.length_map]
  omega

/-! ### Part 3: `kcore` -/

theorem kcore_eq (g : Graph) (etype : Option Nat) :
    kcore g etype =
      (kLoop (fun n => nbrSet g etype .both n)
        (((g.nodes.map (·.id)).map (fun n => (n, (nbrSet g etype .both n).length))).length
          + (((g.nodes.map (·.id)).map (fun n => (n, (nbrSet g etype .both n).length))).map (·.2)).sum + 2)
        (kInit (fun n => nbrSet g etype .both n) (g.nodes.map (·.id)))).core := rfl

theorem kAdjOk_nbrSet (g : Graph) (etype : Option Nat) (hn : NodesUnique g) :
    KAdjOk (fun n => nbrSet g etype .both n) (g.nodes.map (·.id)) where
  nodup := hn
  adjNodup := fun u => nbrSet_nodup g etype .both u
  closed := by
    intro u v hv
    exact (kc_hasNode_iff g v).1 ((mem_nbrSet_both g etype u v).1 hv).2.1
  symm := by
    intro u v hu hv h
    exact (mem_nbrSet_both_symm g etype u v ((kc_hasNode_iff g u).2 hu) ((kc_hasNode_iff g v).2 hv)).1 h
  irrefl := by
    intro u h
    exact ((mem_nbrSet_both g etype u u).1 h).1 rfl

theorem isKC_iff (g : Graph) (etype : Option Nat) (k : Nat) (s : List Nat) :
    IsKC (fun n => nbrSet g etype .both n) (g.nodes.map (·.id)) k s ↔ IsKCoreSetT g etype k s := by
  unfold IsKC IsKCoreSetT
  constructor
  · intro h u hu
    rcases h u hu with ⟨h1, ns, h2, h3, h4⟩
    have hu' := (kc_hasNode_iff g u).2 h1
    refine ⟨hu', ns, h2, h3, fun v hv => ⟨(h4 v hv).1, ?_⟩⟩
    exact (mem_nbrSet_both_iff_adjacentT g etype u v hu').1 (h4 v hv).2
  · intro h u hu
    rcases h u hu with ⟨h1, ns, h2, h3, h4⟩
    refine ⟨(kc_hasNode_iff g u).1 h1, ns, h2, h3, fun v hv => ⟨(h4 v hv).1, ?_⟩⟩
    exact (mem_nbrSet_both_iff_adjacentT g etype u v h1).2 (h4 v hv).2

/-- the final state of the loop `kcore` runs: invariant holds and every node is processed -/
theorem kcore_final (g : Graph) (etype : Option Nat) (hn : NodesUnique g) :
    ∃ fin : KSt, kcore g etype = fin.core ∧
      KInv (fun n => nbrSet g etype .both n) (g.nodes.map (·.id)) fin ∧
      ∀ u, u ∈ g.nodes.map (·.id) → u ∈ fin.processed := by
  have ok := kAdjOk_nbrSet g etype hn
  have h := kLoop_final ok _ _ kInit_inv
    (kInit_fuel (fun n => nbrSet g etype .both n) (g.nodes.map (·.id)))
  exact ⟨_, kcore_eq g etype, h.1, h.2⟩

/-- every node receives exactly one core number (this includes the adequacy of the loop's fuel) -/
theorem kcore_keys (g : Graph) (etype : Option Nat) (hn : NodesUnique g) :
    ((kcore g etype).map (·.1)).Perm (g.nodes.map (·.id)) := by
  rcases kcore_final g etype hn with ⟨fin, he, inv, hall⟩
  rw [he, inv.coreKeys]
  rw [List.perm_ext_iff_of_nodup inv.procNodup hn]
  intro a
  exact ⟨inv.procNodes a, hall a⟩

/-- the number answered is the textbook core number: `u` lies in a node set of minimum inner degree `c`,
    and in no node set of larger minimum inner degree -/
theorem kcore_exact (g : Graph) (etype : Option Nat) (hn : NodesUnique g) (u c : Nat)
    (h : (u, c) ∈ kcore g etype) :
    (∃ s, u ∈ s ∧ IsKCoreSetT g etype c s) ∧ ∀ k s, u ∈ s → IsKCoreSetT g etype k s → k ≤ c := by
  rcases kcore_final g etype hn with ⟨fin, he, inv, -⟩
  rw [he] at h
  constructor
  · rcases inv.coreLow u c h with ⟨W, h1, h2⟩
    exact ⟨W, h1, (isKC_iff g etype c W).1 h2⟩
  · intro k s hus hs
    exact inv.coreUp u c h k s hus ((isKC_iff g etype k s).2 hs)

/-- the core number of a node is unique -/
theorem kcore_functional (g : Graph) (etype : Option Nat) (hn : NodesUnique g) (u c c' : Nat)
    (h : (u, c) ∈ kcore g etype) (h' : (u, c') ∈ kcore g etype) : c = c' := by
  rcases (kcore_exact g etype hn u c h) with ⟨⟨s, hs1, hs2⟩, hup⟩
  rcases (kcore_exact g etype hn u c' h') with ⟨⟨s', hs1', hs2'⟩, hup'⟩
  have := hup c' s' hs1' hs2'
  have := hup' c s hs1 hs2
  omega

/-! ### closed examples -/

/-- undirected triangle 1-2-3, pendant node 4 attached to 1, isolated node 5 -/
def kcoreExG : Graph :=
  { nodes := [⟨1, none⟩, ⟨2, none⟩, ⟨3, none⟩, ⟨4, none⟩, ⟨5, none⟩],
    edges := [⟨1, 1, 2, false, 0, none, none⟩, ⟨2, 2, 3, false, 0, none, none⟩,
              ⟨3, 3, 1, false, 0, none, none⟩, ⟨4, 4, 1, false, 0, none, none⟩] }

example : nmGet (kcore kcoreExG none) 1 = some 2 := by decide
example : nmGet (kcore kcoreExG none) 2 = some 2 := by decide
example : nmGet (kcore kcoreExG none) 3 = some 2 := by decide
example : nmGet (kcore kcoreExG none) 4 = some 1 := by decide
example : nmGet (kcore kcoreExG none) 5 = some 0 := by decide
example : ((kcore kcoreExG none).map (·.1)).Perm [1, 2, 3, 4, 5] := by decide

/-- typed variant: the edge 3-1 has type 7 (directed, which the degree ignores), the rest type 0 -/
def kcoreExT : Graph :=
  { nodes := [⟨1, none⟩, ⟨2, none⟩, ⟨3, none⟩, ⟨4, none⟩, ⟨5, none⟩],
    edges := [⟨1, 1, 2, false, 0, none, none⟩, ⟨2, 2, 3, true, 0, none, none⟩,
              ⟨3, 3, 1, true, 7, none, none⟩, ⟨4, 4, 1, false, 0, none, none⟩] }

-- all types: still the triangle (direction is ignored)
example : [1, 2, 3, 4, 5].map (nmGet (kcore kcoreExT none)) = [some 2, some 2, some 2, some 1, some 0] := by
  decide
-- type 0 only: the path 4-1-2-3, every core number 1, node 5 isolated
example : [1, 2, 3, 4, 5].map (nmGet (kcore kcoreExT (some 0))) = [some 1, some 1, some 1, some 1, some 0] := by
  decide
-- type 7 only: the single edge 3-1
example : [1, 2, 3, 4, 5].map (nmGet (kcore kcoreExT (some 7))) = [some 1, some 0, some 1, some 0, some 0] := by
  decide

end Neumann.Paths
