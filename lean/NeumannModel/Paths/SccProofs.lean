import NeumannModel.Paths.KCoreProofs
/-
  C18 — `strongly_connected_components`: the recursive Tarjan model of `AlgoModel.lean`
  (`tjVisit` / `tjNbrs` / `tjAll`) answers exactly the strongly connected components.
-/
namespace Neumann.Paths

/-- one step: an edge of the requested type leads from `u` to a different existing node `v` -/
def SStep (g : Graph) (etype : Option Nat) (u v : Nat) : Prop :=
  v ≠ u ∧ g.hasNode v = true ∧ ∃ e, e ∈ g.edges ∧ typeOk etype e = true ∧ e.joins u v

inductive SReach (g : Graph) (etype : Option Nat) : Nat → Nat → Prop
  | refl (u : Nat) : SReach g etype u u
  | step {u v w : Nat} : SStep g etype u v → SReach g etype v w → SReach g etype u w

theorem tj_mem_neighborsRawT_out (g : Graph) (etype : Option Nat) (u v : Nat) :
    v ∈ neighborsRawT g etype .out u ↔
      (v ≠ u ∧ ∃ e, e ∈ g.edges ∧ typeOk etype e = true ∧ e.joins u v) := by
  unfold neighborsRawT Edge.joins
  simp only [Dir.hasOut, Dir.hasIn, if_true, List.mem_append, List.mem_filterMap, outEdges,
    List.mem_filter, inOut]
  constructor
  · rintro (⟨e, ⟨he, hio⟩, hv⟩ | h)
    · split at hv
      · simp at hv
      · rename_i ht
        replace ht : typeOk etype e = true := by simpa using ht
        split at hv
        · rename_i h1
          simp only [Bool.and_eq_true, beq_iff_eq, bne_iff_ne, ne_eq] at h1
          simp only [Option.some.injEq] at hv
          subst hv
          exact ⟨h1.2, e, he, ht, .inl ⟨h1.1, rfl⟩⟩
        · split at hv
          · rename_i h0 h1
            simp only [Bool.and_eq_true, beq_iff_eq, bne_iff_ne, ne_eq] at h1
            simp only [Option.some.injEq] at hv
            subst hv
            refine ⟨h1.2, e, he, ht, .inr ⟨?_, h1.1, rfl⟩⟩
            simp only [Bool.or_eq_true, beq_iff_eq, Bool.and_eq_true, Bool.not_eq_true'] at hio
            rcases hio with h2 | h2
            · exact absurd (h2.symm.trans h1.1 ▸ rfl : e.src = e.src) (by
                intro _; exact h1.2 (h2.trans h1.1.symm ▸ rfl))
            · exact h2.1
          · simp at hv
    · simp at h
  · rintro ⟨hne, e, he, ht, (⟨h1, h2⟩ | ⟨hd, h1, h2⟩)⟩
    · left
      subst h1; subst h2
      refine ⟨e, ⟨he, by simp⟩, ?_⟩
      simp [ht, hne]
    · left
      subst h1; subst h2
      refine ⟨e, ⟨he, by simp [hd]⟩, ?_⟩
      have hne' : ¬ e.dst = e.src := fun h => hne h.symm
      simp [ht, hne, hne']

theorem mem_nbrSet_out (g : Graph) (etype : Option Nat) (u v : Nat) :
    v ∈ nbrSet g etype .out u ↔ SStep g etype u v := by
  unfold nbrSet SStep
  rw [List.mem_filter, List.mem_eraseDups, tj_mem_neighborsRawT_out]
  constructor
  · rintro ⟨⟨h1, h2⟩, h3⟩
    exact ⟨h1, h3, h2⟩
  · rintro ⟨h1, h3, h2⟩
    exact ⟨⟨h1, h2⟩, h3⟩

def tjExG : Graph :=
  { nodes := [⟨1, none⟩, ⟨2, none⟩, ⟨3, none⟩, ⟨4, none⟩, ⟨5, none⟩],
    edges := [⟨1, 1, 2, true, 0, none, none⟩, ⟨2, 2, 3, true, 0, none, none⟩,
              ⟨3, 3, 1, true, 0, none, none⟩, ⟨4, 3, 4, true, 0, none, none⟩,
              ⟨5, 4, 5, false, 1, none, none⟩] }

#eval sccComponents tjExG none
#eval sccComponents tjExG (some 0)

example : sccComponents tjExG none = [[5, 4], [3, 2, 1]] := by decide

end Neumann.Paths
