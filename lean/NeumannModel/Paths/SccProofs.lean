import NeumannModel.Paths.KCoreProofs
/-
  C18 — `strongly_connected_components`: the recursive Tarjan model of `AlgoModel.lean`
  (`tjVisit` / `tjNbrs` / `tjAll`) answers exactly the strongly connected components.

  Part 1: `nbrSet … .out` is the one-step relation `SStep` (`mem_nbrSet_out`).
  Part 2: the fuel-bounded mutual recursion equals two structurally recursive functions over an
          abstract successor function (`tjVisitF`, `tjNbrsF`, `sccComponents_eq_F`).
  Part 3: the invariant `TjInv` (stack strictly decreasing in index and reaching upward, visited =
          stack ∪ components without repetition, components closed under successors, strongly connected
          and maximal), the loop state `TjLoop` (everything above `v` on the stack reaches `v`, every
          edge out of a finished stack entry above `v` ends at an indexed node whose index is at least
          `low[v]` when it lies below `v`, `low[v]` is the index of a stack entry reachable from `v`),
          the mutual post-conditions `tjNbrsF_spec` / `tjVisitF_spec` by induction on the fuel
          (adequate as soon as it exceeds the number of nodes without an index).
  Part 4: `scc_partition`, `scc_members_mutually_reachable`, `scc_closed`, `scc_exact`, closed examples.
-/
namespace Neumann.Paths

/-- one step: an edge of the requested type leads from `u` to a different existing node `v` -/
def SStep (g : Graph) (etype : Option Nat) (u v : Nat) : Prop :=
  v ≠ u ∧ g.hasNode v = true ∧ ∃ e, e ∈ g.edges ∧ typeOk etype e = true ∧ e.joins u v

inductive SReach (g : Graph) (etype : Option Nat) : Nat → Nat → Prop
  | refl (u : Nat) : SReach g etype u u
  | step {u v w : Nat} : SStep g etype u v → SReach g etype v w → SReach g etype u w

theorem tj_mem_neighborsRawT_out (g : Graph) (etype : Option Nat) (u v : Nat) :
    v ∈ neighborsRawT g etype .out u ↔
      (v ≠ u ∧ ∃ e, e ∈ g.edges ∧ typeOk etype e = true ∧ e.joins u v) := by
  unfold neighborsRawT Edge.joins
  simp only [Dir.hasOut, Dir.hasIn, if_true, List.mem_append, List.mem_filterMap, outEdges,
    List.mem_filter, inOut]
  constructor
  · rintro (⟨e, ⟨he, hio⟩, hv⟩ | h)
    · split at hv
      · simp at hv
      · rename_i ht
        replace ht : typeOk etype e = true := by simpa using ht
        split at hv
        · rename_i h1
          simp only [Bool.and_eq_true, beq_iff_eq, bne_iff_ne, ne_eq] at h1
          simp only [Option.some.injEq] at hv
          subst hv
          exact ⟨h1.2, e, he, ht, .inl ⟨h1.1, rfl⟩⟩
        · split at hv
          · rename_i h0 h1
            simp only [Bool.and_eq_true, beq_iff_eq, bne_iff_ne, ne_eq] at h1
            simp only [Option.some.injEq] at hv
            subst hv
            refine ⟨h1.2, e, he, ht, .inr ⟨?_, h1.1, rfl⟩⟩
            simp only [Bool.or_eq_true, beq_iff_eq, Bool.and_eq_true, Bool.not_eq_true'] at hio
            rcases hio with h2 | h2
            · exact absurd h2 h1.2
            · exact h2.1
          · simp at hv
    · simp at h
  · rintro ⟨hne, e, he, ht, (⟨h1, h2⟩ | ⟨hd, h1, h2⟩)⟩
    · left
      subst h1; subst h2
      refine ⟨e, ⟨he, by simp⟩, ?_⟩
      simp [ht, hne]
    · left
      subst h1; subst h2
      refine ⟨e, ⟨he, by simp [hd]⟩, ?_⟩
      simp [ht, hne]

theorem mem_nbrSet_out (g : Graph) (etype : Option Nat) (u v : Nat) :
    v ∈ nbrSet g etype .out u ↔ SStep g etype u v := by
  unfold nbrSet SStep
  rw [List.mem_filter, List.mem_eraseDups, tj_mem_neighborsRawT_out]
  constructor
  · rintro ⟨⟨h1, h2⟩, h3⟩
    exact ⟨h1, h3, h2⟩
  · rintro ⟨h1, h3, h2⟩
    exact ⟨⟨h1, h2⟩, h3⟩

/-! ### the algorithm as two structurally recursive functions over an abstract successor function -/

/-- the successor loop over an abstract `visit` -/
def tjNbrsF (visit : Nat → TjSt → TjSt) (v : Nat) : List Nat → TjSt → TjSt
  | [], st => st
  | w :: ws, st =>
    match nmGet st.indices w with
    | none =>
      let st' := visit w st
      let lowV := (nmGet st'.low v).getD 0
      let lowW := (nmGet st'.low w).getD 0
      tjNbrsF visit v ws { st' with low := (v, min lowV lowW) :: st'.low }
    | some idxW =>
      if st.stack.contains w then
        let lowV := (nmGet st.low v).getD 0
        tjNbrsF visit v ws { st with low := (v, min lowV idxW) :: st.low }
      else tjNbrsF visit v ws st

def tjVisitF (succ : Nat → List Nat) : Nat → Nat → TjSt → TjSt
  | 0, _, st => st
  | fuel + 1, v, st =>
    let st1 : TjSt := { st with indices := (v, st.index) :: st.indices, low := (v, st.index) :: st.low,
                                index := st.index + 1, stack := v :: st.stack }
    let st2 := tjNbrsF (tjVisitF succ fuel) v (succ v) st1
    if nmGet st2.low v == nmGet st2.indices v then
      let r := tjPop v st2.stack []
      { st2 with stack := r.2, comps := r.1 :: st2.comps }
    else st2

def tjAllF (visit : Nat → TjSt → TjSt) : List Nat → TjSt → TjSt
  | [], st => st
  | n :: ns, st =>
    match nmGet st.indices n with
    | none => tjAllF visit ns (visit n st)
    | some _ => tjAllF visit ns st

theorem tjNbrs_eq_F (g : Graph) (etype : Option Nat) (fuel : Nat) (visit : Nat → TjSt → TjSt)
    (hv : ∀ w st, tjVisit g etype fuel w st = visit w st) (v : Nat) :
    ∀ ws st, tjNbrs g etype fuel v ws st = tjNbrsF visit v ws st := by
  intro ws
  induction ws with
  | nil => intro st; rw [tjNbrs, tjNbrsF]
  | cons w ws ih =>
    intro st
    rw [tjNbrs, tjNbrsF]
    cases h : nmGet st.indices w with
    | none => simp only [hv, ih]
    | some k => simp only [ih]

theorem tjVisit_eq_F (g : Graph) (etype : Option Nat) :
    ∀ fuel v st, tjVisit g etype fuel v st = tjVisitF (nbrSet g etype .out) fuel v st := by
  intro fuel
  induction fuel with
  | zero => intro v st; rw [tjVisit, tjVisitF]
  | succ fuel ih =>
    intro v st
    rw [tjVisit, tjVisitF]
    simp only [tjNbrs_eq_F g etype fuel _ ih]

theorem tjAll_eq_F (g : Graph) (etype : Option Nat) (fuel : Nat) :
    ∀ ns st, tjAll g etype fuel ns st = tjAllF (tjVisitF (nbrSet g etype .out) fuel) ns st := by
  intro ns
  induction ns with
  | nil => intro st; rfl
  | cons n ns ih =>
    intro st
    rw [tjAll, tjAllF]
    cases h : nmGet st.indices n with
    | none => simp only [ih, tjVisit_eq_F]
    | some k => simp only [ih]

theorem sccComponents_eq_F (g : Graph) (etype : Option Nat) :
    sccComponents g etype =
      (tjAllF (tjVisitF (nbrSet g etype .out) (g.nodes.length + 1)) (g.nodes.map (·.id))
        { index := 0, indices := [], low := [], stack := [], comps := [] }).comps.reverse := by
  unfold sccComponents
  rw [tjAll_eq_F]

/-! ### abstract reachability, numbering, fuel measure -/

inductive TjReach (succ : Nat → List Nat) : Nat → Nat → Prop
  | refl (u : Nat) : TjReach succ u u
  | step {u v w : Nat} : v ∈ succ u → TjReach succ v w → TjReach succ u w

theorem TjReach.trans {succ : Nat → List Nat} {a b c : Nat} (h1 : TjReach succ a b)
    (h2 : TjReach succ b c) : TjReach succ a c := by
  induction h1 with
  | refl => exact h2
  | step h _ ih => exact .step h (ih h2)

theorem TjReach.one {succ : Nat → List Nat} {a b : Nat} (h : b ∈ succ a) : TjReach succ a b :=
  .step h (.refl _)

theorem tj_closed_reach {succ : Nat → List Nat} {S : Nat → Prop}
    (hS : ∀ x, S x → ∀ w, w ∈ succ x → S w) {a b : Nat} (h : TjReach succ a b) (ha : S a) : S b := by
  induction h with
  | refl => exact ha
  | step h _ ih => exact ih (hS _ ha _ h)

def tjNum (m : NatMap) (x : Nat) : Nat := (nmGet m x).getD 0

def TjExt (m m' : NatMap) : Prop := ∀ x k, nmGet m x = some k → nmGet m' x = some k

theorem TjExt.refl (m : NatMap) : TjExt m m := fun _ _ h => h

theorem TjExt.trans {a b c : NatMap} (h1 : TjExt a b) (h2 : TjExt b c) : TjExt a c :=
  fun x k h => h2 x k (h1 x k h)

theorem TjExt.vis {m m' : NatMap} (h : TjExt m m') {x : Nat} (hx : nmGet m x ≠ none) :
    nmGet m' x ≠ none := by
  cases hk : nmGet m x with
  | none => exact absurd hk hx
  | some k => rw [h x k hk]; simp

theorem TjExt.num {m m' : NatMap} (h : TjExt m m') {x : Nat} (hx : nmGet m x ≠ none) :
    tjNum m' x = tjNum m x := by
  cases hk : nmGet m x with
  | none => exact absurd hk hx
  | some k => unfold tjNum; rw [h x k hk, hk]

theorem tjNum_of_some {m : NatMap} {x k : Nat} (h : nmGet m x = some k) : tjNum m x = k := by
  unfold tjNum; rw [h]; rfl

/-- number of nodes without an index -/
def tjUnv (nodes : List Nat) (m : NatMap) : Nat := (nodes.filter (fun n => (nmGet m n).isNone)).length

theorem tjUnv_mono (nodes : List Nat) {m m' : NatMap} (h : ∀ x, nmGet m x ≠ none → nmGet m' x ≠ none) :
    tjUnv nodes m' ≤ tjUnv nodes m := by
  unfold tjUnv
  induction nodes with
  | nil => simp
  | cons a as ih =>
    simp only [List.filter_cons]
    by_cases h1 : nmGet m a = none
    · by_cases h2 : nmGet m' a = none
      · simp only [h1, h2, Option.isNone_none, if_true, List.length_cons]; omega
      · have : (nmGet m' a).isNone = false := by
          cases hk : nmGet m' a with
          | none => exact absurd hk h2
          | some k => rfl
        simp only [h1, this, Option.isNone_none, if_true, List.length_cons]
        simp only [Bool.false_eq_true, if_false]; omega
    · have h2 := h a h1
      have e1 : (nmGet m a).isNone = false := by
        cases hk : nmGet m a with
        | none => exact absurd hk h1
        | some k => rfl
      have e2 : (nmGet m' a).isNone = false := by
        cases hk : nmGet m' a with
        | none => exact absurd hk h2
        | some k => rfl
      simp only [e1, e2, Bool.false_eq_true, if_false]; exact ih

theorem tjUnv_lt (nodes : List Nat) {m m' : NatMap} (h : ∀ x, nmGet m x ≠ none → nmGet m' x ≠ none)
    {v : Nat} (hv : v ∈ nodes) (h1 : nmGet m v = none) (h2 : nmGet m' v ≠ none) :
    tjUnv nodes m' < tjUnv nodes m := by
  induction nodes with
  | nil => simp at hv
  | cons a as ih =>
    have hm := tjUnv_mono as h
    unfold tjUnv at hm ih ⊢
    simp only [List.filter_cons]
    by_cases hav : a = v
    · subst hav
      have e2 : (nmGet m' a).isNone = false := by
        cases hk : nmGet m' a with
        | none => exact absurd hk h2
        | some k => rfl
      simp only [h1, e2, Option.isNone_none, if_true, List.length_cons, Bool.false_eq_true, if_false]
      omega
    · have hv' : v ∈ as := by
        rcases List.mem_cons.1 hv with h3 | h3
        · exact absurd h3.symm hav
        · exact h3
      have := ih hv'
      by_cases h3 : nmGet m a = none
      · by_cases h4 : nmGet m' a = none
        · simp only [h3, h4, Option.isNone_none, if_true, List.length_cons]; omega
        · have e2 : (nmGet m' a).isNone = false := by
            cases hk : nmGet m' a with
            | none => exact absurd hk h4
            | some k => rfl
          simp only [h3, e2, Option.isNone_none, if_true, List.length_cons, Bool.false_eq_true, if_false]
          omega
      · have h4 := h a h3
        have e1 : (nmGet m a).isNone = false := by
          cases hk : nmGet m a with
          | none => exact absurd hk h3
          | some k => rfl
        have e2 : (nmGet m' a).isNone = false := by
          cases hk : nmGet m' a with
          | none => exact absurd hk h4
          | some k => rfl
        simp only [e1, e2, Bool.false_eq_true, if_false]; exact this

theorem tjUnv_le_length (nodes : List Nat) (m : NatMap) : tjUnv nodes m ≤ nodes.length := by
  unfold tjUnv; exact List.length_filter_le _ _

theorem tjPop_append (v : Nat) : ∀ (s2 rest comp : List Nat), v ∉ s2 →
    tjPop v (s2 ++ v :: rest) comp = (comp.reverse ++ s2 ++ [v], rest) := by
  intro s2
  induction s2 with
  | nil =>
    intro rest comp _
    simp only [List.nil_append, tjPop, beq_self_eq_true, if_true, List.reverse_cons, List.append_nil]
  | cons a s2 ih =>
    intro rest comp hv
    have hav : ¬ a = v := fun h => hv (by simp [h])
    have hv' : v ∉ s2 := fun h => hv (by simp [h])
    simp only [List.cons_append, tjPop, beq_iff_eq, hav, if_false]
    rw [ih rest (a :: comp) hv']
    simp only [List.reverse_cons, List.append_assoc, List.cons_append, List.nil_append]

/-! ### the invariant -/

/-- relation between a stack entry `y` and an entry `x` below it -/
def TjRel (succ : Nat → List Nat) (m : NatMap) (y x : Nat) : Prop :=
  tjNum m x < tjNum m y ∧ TjReach succ x y

structure TjInv (succ : Nat → List Nat) (nodes : List Nat) (st : TjSt) : Prop where
  stk : st.stack.Pairwise (TjRel succ st.indices)
  vis : ∀ x, nmGet st.indices x ≠ none ↔ (x ∈ st.stack ∨ x ∈ st.comps.flatten)
  nd : (st.stack ++ st.comps.flatten).Nodup
  lt : ∀ x k, nmGet st.indices x = some k → k < st.index
  node : ∀ x, nmGet st.indices x ≠ none → x ∈ nodes
  closed : ∀ x, x ∈ st.comps.flatten → ∀ w, w ∈ succ x → w ∈ st.comps.flatten
  conn : ∀ c, c ∈ st.comps → ∀ x, x ∈ c → ∀ y, y ∈ c → TjReach succ x y
  maxl : ∀ c, c ∈ st.comps → ∀ x, x ∈ c → ∀ y, TjReach succ x y → TjReach succ y x → y ∈ c

theorem TjInv.set_low {succ : Nat → List Nat} {nodes : List Nat} {st : TjSt}
    (h : TjInv succ nodes st) (m : NatMap) : TjInv succ nodes { st with low := m } :=
  ⟨h.stk, h.vis, h.nd, h.lt, h.node, h.closed, h.conn, h.maxl⟩

theorem TjInv.stack_vis {succ : Nat → List Nat} {nodes : List Nat} {st : TjSt}
    (h : TjInv succ nodes st) {x : Nat} (hx : x ∈ st.stack) : nmGet st.indices x ≠ none :=
  (h.vis x).2 (.inl hx)

theorem TjInv.num_lt {succ : Nat → List Nat} {nodes : List Nat} {st : TjSt}
    (h : TjInv succ nodes st) {x : Nat} (hx : nmGet st.indices x ≠ none) : tjNum st.indices x < st.index := by
  cases hk : nmGet st.indices x with
  | none => exact absurd hk hx
  | some k => rw [tjNum_of_some hk]; exact h.lt x k hk

theorem tj_pairwise_congr {succ : Nat → List Nat} {m m' : NatMap} :
    ∀ (l : List Nat), (∀ x, x ∈ l → tjNum m' x = tjNum m x) →
      l.Pairwise (TjRel succ m) → l.Pairwise (TjRel succ m') := by
  intro l
  induction l with
  | nil => intro _ _; exact List.Pairwise.nil
  | cons a l ih =>
    intro h hp
    rw [List.pairwise_cons] at hp ⊢
    refine ⟨fun x hx => ?_, ih (fun x hx => h x (List.mem_cons_of_mem _ hx)) hp.2⟩
    have := hp.1 x hx
    unfold TjRel at this ⊢
    rw [h x (List.mem_cons_of_mem _ hx), h a List.mem_cons_self]
    exact this

/-- facts about a stack of the shape `s2 ++ v :: s0` -/
theorem TjInv.split {succ : Nat → List Nat} {nodes : List Nat} {st : TjSt}
    (h : TjInv succ nodes st) {s2 s0 : List Nat} {v : Nat} (hs : st.stack = s2 ++ v :: s0) :
    (∀ x, x ∈ s2 → tjNum st.indices v < tjNum st.indices x) ∧
    (∀ x, x ∈ s0 → tjNum st.indices x < tjNum st.indices v ∧ TjReach succ x v) ∧
    (∀ x, x ∈ s2 → TjReach succ v x) := by
  have hp := h.stk
  rw [hs, List.pairwise_append, List.pairwise_cons] at hp
  refine ⟨fun x hx => (hp.2.2 x hx v List.mem_cons_self).1, fun x hx => hp.2.1.1 x hx,
    fun x hx => (hp.2.2 x hx v List.mem_cons_self).2⟩

/-! ### the successor loop -/

/-- state of the loop of `v`: the stack is `s2 ++ v :: s0`, `l` is `low[v]` -/
structure TjLoop (succ : Nat → List Nat) (v : Nat) (s0 : List Nat) (st : TjSt) (s2 : List Nat) (l : Nat) :
    Prop where
  stack : st.stack = s2 ++ v :: s0
  low : nmGet st.low v = some l
  le : l ≤ tjNum st.indices v
  wit : ∃ z, z ∈ v :: s0 ∧ tjNum st.indices z = l ∧ TjReach succ v z
  up : ∀ x, x ∈ s2 → TjReach succ x v
  edges : ∀ x, x ∈ s2 → ∀ w, w ∈ succ x →
    nmGet st.indices w ≠ none ∧ (w ∈ s0 → l ≤ tjNum st.indices w)

theorem TjLoop.step {succ : Nat → List Nat} {v : Nat} {s0 : List Nat} {st st' : TjSt} {s2 : List Nat} {l : Nat}
    (hl : TjLoop succ v s0 st s2 l) (hvs : ∀ x, x ∈ st.stack → nmGet st.indices x ≠ none)
    (hext : TjExt st.indices st'.indices)
    (t : List Nat) (hstack : st'.stack = t ++ st.stack) (k : Nat)
    (hk : k < l → ∃ z, z ∈ v :: s0 ∧ tjNum st'.indices z = k ∧ TjReach succ v z)
    (hup : ∀ x, x ∈ t → TjReach succ x v)
    (hedges : ∀ x, x ∈ t → ∀ y, y ∈ succ x →
      nmGet st'.indices y ≠ none ∧ (y ∈ s0 → k ≤ tjNum st'.indices y)) :
    TjLoop succ v s0 { st' with low := (v, min l k) :: st'.low } (t ++ s2) (min l k) := by
  have hv0 : ∀ x, x ∈ v :: s0 → nmGet st.indices x ≠ none := fun x hx =>
    hvs x (by rw [hl.stack]; exact List.mem_append_right _ hx)
  refine ⟨?_, ?_, ?_, ?_, ?_, ?_⟩
  · show st'.stack = _
    rw [hstack, hl.stack, List.append_assoc]
  · show nmGet ((v, min l k) :: st'.low) v = _
    rw [kc_nmGet_cons, if_pos rfl]
  · show min l k ≤ tjNum st'.indices v
    rw [hext.num (hv0 v List.mem_cons_self)]
    have := hl.le
    omega
  · show ∃ z, z ∈ v :: s0 ∧ tjNum st'.indices z = min l k ∧ TjReach succ v z
    by_cases hkl : k < l
    · rcases hk hkl with ⟨z, hz, hn, hr⟩
      exact ⟨z, hz, by rw [hn]; omega, hr⟩
    · rcases hl.wit with ⟨z, hz, hn, hr⟩
      exact ⟨z, hz, by rw [hext.num (hv0 z hz), hn]; omega, hr⟩
  · intro x hx
    rcases List.mem_append.1 hx with h | h
    · exact hup x h
    · exact hl.up x h
  · intro x hx w hw
    show nmGet st'.indices w ≠ none ∧ (w ∈ s0 → min l k ≤ tjNum st'.indices w)
    rcases List.mem_append.1 hx with h | h
    · have := hedges x h w hw
      exact ⟨this.1, fun h0 => by have := this.2 h0; omega⟩
    · have := hl.edges x h w hw
      refine ⟨hext.vis this.1, fun h0 => ?_⟩
      rw [hext.num this.1]
      have := this.2 h0
      omega

structure TjVisitPost (succ : Nat → List Nat) (nodes : List Nat) (w : Nat) (st st' : TjSt) : Prop where
  inv : TjInv succ nodes st'
  ext : TjExt st.indices st'.indices
  lowf : ∀ x, nmGet st.indices x ≠ none → nmGet st'.low x = nmGet st.low x
  idx : nmGet st'.indices w = some st.index
  out : (st'.stack = st.stack ∧ nmGet st'.low w = some st.index) ∨
        (∃ s2 l, st'.stack = s2 ++ w :: st.stack ∧ nmGet st'.low w = some l ∧ l < st.index ∧
           (∃ z, z ∈ st.stack ∧ tjNum st'.indices z = l ∧ TjReach succ w z) ∧
           (∀ x, x ∈ s2 → TjReach succ x w) ∧
           (∀ x, x ∈ s2 ++ [w] → ∀ y, y ∈ succ x →
              nmGet st'.indices y ≠ none ∧ (y ∈ st.stack → l ≤ tjNum st'.indices y)))

def TjVisitSpec (succ : Nat → List Nat) (nodes : List Nat) (fuel : Nat) (visit : Nat → TjSt → TjSt) : Prop :=
  ∀ w st, TjInv succ nodes st → nmGet st.indices w = none → w ∈ nodes →
    (∀ x, x ∈ st.stack → TjReach succ x w) → tjUnv nodes st.indices < fuel →
    TjVisitPost succ nodes w st (visit w st)

structure TjLoopPost (succ : Nat → List Nat) (nodes : List Nat) (v : Nat) (s0 ws : List Nat)
    (st st' : TjSt) (l : Nat) : Prop where
  inv : TjInv succ nodes st'
  loop : ∃ s2' l', TjLoop succ v s0 st' s2' l' ∧ l' ≤ l ∧
    (∀ w, w ∈ ws → nmGet st'.indices w ≠ none ∧ (w ∈ s0 → l' ≤ tjNum st'.indices w))
  ext : TjExt st.indices st'.indices
  lowf : ∀ x, nmGet st.indices x ≠ none → x ≠ v → nmGet st'.low x = nmGet st.low x

theorem TjLoopPost.cons {succ : Nat → List Nat} {nodes : List Nat} {v : Nat} {s0 ws : List Nat}
    {st stb st' : TjSt} {l lb w : Nat}
    (hle : lb ≤ l) (hext : TjExt st.indices stb.indices)
    (hlowf : ∀ x, nmGet st.indices x ≠ none → x ≠ v → nmGet stb.low x = nmGet st.low x)
    (hw : nmGet stb.indices w ≠ none ∧ (w ∈ s0 → lb ≤ tjNum stb.indices w))
    (hp : TjLoopPost succ nodes v s0 ws stb st' lb) :
    TjLoopPost succ nodes v s0 (w :: ws) st st' l := by
  rcases hp.loop with ⟨s2', l', hl', hle', hws⟩
  refine ⟨hp.inv, ⟨s2', l', hl', by omega, ?_⟩, hext.trans hp.ext, ?_⟩
  · intro x hx
    rcases List.mem_cons.1 hx with h | h
    · subst h
      refine ⟨hp.ext.vis hw.1, fun h0 => ?_⟩
      rw [hp.ext.num hw.1]
      have := hw.2 h0
      omega
    · exact hws x h
  · intro x hx hxv
    rw [hp.lowf x (hext.vis hx) hxv, hlowf x hx hxv]

theorem tjNbrsF_spec {succ : Nat → List Nat} {nodes : List Nat} {fuel : Nat} {visit : Nat → TjSt → TjSt}
    (hsucc : ∀ u w, w ∈ succ u → w ∈ nodes) (hvisit : TjVisitSpec succ nodes fuel visit)
    (v : Nat) (s0 : List Nat) :
    ∀ (ws : List Nat) (st : TjSt) (s2 : List Nat) (l : Nat), (∀ w, w ∈ ws → w ∈ succ v) →
      TjInv succ nodes st → TjLoop succ v s0 st s2 l → tjUnv nodes st.indices < fuel →
      TjLoopPost succ nodes v s0 ws st (tjNbrsF visit v ws st) l := by
  intro ws
  induction ws with
  | nil =>
    intro st s2 l _ hinv hl _
    rw [tjNbrsF]
    exact ⟨hinv, ⟨s2, l, hl, Nat.le_refl _, fun w hw => by simp at hw⟩, TjExt.refl _, fun _ _ _ => rfl⟩
  | cons w ws ih =>
    intro st s2 l hws hinv hl hfuel
    have hwv : w ∈ succ v := hws w List.mem_cons_self
    have hws' : ∀ x, x ∈ ws → x ∈ succ v := fun x hx => hws x (List.mem_cons_of_mem _ hx)
    have hsp := hinv.split hl.stack
    have hvs : ∀ x, x ∈ st.stack → nmGet st.indices x ≠ none := fun x hx => hinv.stack_vis hx
    have hvvis : nmGet st.indices v ≠ none := hvs v (by rw [hl.stack]; simp)
    rw [tjNbrsF]
    cases hw : nmGet st.indices w with
    | none =>
      simp only []
      -- the recursive call
      have hpre : ∀ x, x ∈ st.stack → TjReach succ x w := by
        intro x hx
        rw [hl.stack] at hx
        rcases List.mem_append.1 hx with h | h
        · exact (hl.up x h).trans (.one hwv)
        · rcases List.mem_cons.1 h with h | h
          · subst h; exact .one hwv
          · exact (hsp.2.1 x h).2.trans (.one hwv)
      have hp := hvisit w st hinv hw (hsucc v w hwv) hpre hfuel
      generalize visit w st = sta at hp ⊢
      have hlowv : nmGet sta.low v = some l := by rw [hp.lowf v hvvis, hl.low]
      have hwnum : tjNum sta.indices w = st.index := tjNum_of_some hp.idx
      have hwvis : nmGet sta.indices w ≠ none := by rw [hp.idx]; simp
      have hws0 : w ∉ s0 := fun h => by
        have := hvs w (by rw [hl.stack]; simp [h])
        exact this hw
      have hfuel' : tjUnv nodes sta.indices < fuel :=
        Nat.lt_of_le_of_lt (tjUnv_mono nodes (fun x hx => hp.ext.vis hx)) hfuel
      have hlv : l < st.index := Nat.lt_of_le_of_lt hl.le (hinv.num_lt hvvis)
      rw [hlowv]
      rcases hp.out with ⟨hstk, hloww⟩ | ⟨sw, lw, hstk, hloww, hlwlt, ⟨z, hz, hzn, hzr⟩, hupw, hedw⟩
      · -- `w` was a root
        rw [hloww]
        simp only [Option.getD_some]
        have hl' := hl.step hvs hp.ext [] (by rw [hstk]; rfl) st.index
          (fun h => by omega) (fun x hx => by simp at hx) (fun x hx => by simp at hx)
        have hinv' := hp.inv.set_low ((v, min l st.index) :: sta.low)
        refine TjLoopPost.cons (stb := { sta with low := (v, min l st.index) :: sta.low })
          (Nat.min_le_left _ _) hp.ext ?_ ?_ (ih _ _ _ hws' hinv' hl' hfuel')
        · intro x hx hxv
          show nmGet ((v, min l st.index) :: sta.low) x = _
          rw [kc_nmGet_cons, if_neg (fun h => hxv h.symm)]
          exact hp.lowf x hx
        · exact ⟨hwvis, fun h => absurd h hws0⟩
      · -- `w` stays on the stack
        rw [hloww]
        simp only [Option.getD_some]
        have hznum : tjNum sta.indices z = tjNum st.indices z := hp.ext.num (hvs z hz)
        have hwreachv : TjReach succ w v := by
          rw [hl.stack] at hz
          rcases List.mem_append.1 hz with h | h
          · exact hzr.trans (hl.up z h)
          · rcases List.mem_cons.1 h with h | h
            · subst h; exact hzr
            · exact hzr.trans (hsp.2.1 z h).2
        have hl' := hl.step hvs hp.ext (sw ++ [w]) (by rw [hstk]; simp) lw
          (fun h => by
            refine ⟨z, ?_, hzn, (TjReach.one hwv).trans hzr⟩
            rw [hl.stack] at hz
            rcases List.mem_append.1 hz with h1 | h1
            · have := hsp.1 z h1
              have := hl.le
              omega
            · exact h1)
          (fun x hx => by
            rcases List.mem_append.1 hx with h | h
            · exact (hupw x h).trans hwreachv
            · simp only [List.mem_singleton] at h
              subst h; exact hwreachv)
          (fun x hx y hy => by
            have := hedw x hx y hy
            exact ⟨this.1, fun h0 => this.2 (by rw [hl.stack]; simp [h0])⟩)
        have hinv' := hp.inv.set_low ((v, min l lw) :: sta.low)
        refine TjLoopPost.cons (stb := { sta with low := (v, min l lw) :: sta.low })
          (Nat.min_le_left _ _) hp.ext ?_ ?_ (ih _ _ _ hws' hinv' hl' hfuel')
        · intro x hx hxv
          show nmGet ((v, min l lw) :: sta.low) x = _
          rw [kc_nmGet_cons, if_neg (fun h => hxv h.symm)]
          exact hp.lowf x hx
        · exact ⟨hwvis, fun h => absurd h hws0⟩
    | some idxW =>
      simp only []
      have hwvis : nmGet st.indices w ≠ none := by rw [hw]; simp
      have hwnum : tjNum st.indices w = idxW := tjNum_of_some hw
      by_cases hon : st.stack.contains w = true
      · rw [if_pos hon, hl.low]
        simp only [Option.getD_some]
        have hmem : w ∈ st.stack := by simpa using hon
        have hl' := hl.step (st' := st) hvs (TjExt.refl _) [] rfl idxW
          (fun h => by
            refine ⟨w, ?_, hwnum, .one hwv⟩
            rw [hl.stack] at hmem
            rcases List.mem_append.1 hmem with h1 | h1
            · have := hsp.1 w h1
              have := hl.le
              omega
            · exact h1)
          (fun x hx => by simp at hx) (fun x hx => by simp at hx)
        have hinv' := hinv.set_low ((v, min l idxW) :: st.low)
        refine TjLoopPost.cons (stb := { st with low := (v, min l idxW) :: st.low })
          (Nat.min_le_left _ _) (TjExt.refl _) ?_ ?_ (ih _ _ _ hws' hinv' hl' hfuel)
        · intro x hx hxv
          show nmGet ((v, min l idxW) :: st.low) x = _
          rw [kc_nmGet_cons, if_neg (fun h => hxv h.symm)]
        · refine ⟨hwvis, fun _ => ?_⟩
          show min l idxW ≤ tjNum st.indices w
          rw [hwnum]; exact Nat.min_le_right _ _
      · rw [if_neg hon]
        have hmem : w ∉ st.stack := by simpa using hon
        refine TjLoopPost.cons (Nat.le_refl _) (TjExt.refl _) (fun _ _ _ => rfl) ?_ (ih _ _ _ hws' hinv hl hfuel)
        exact ⟨hwvis, fun h => absurd (by rw [hl.stack]; simp [h]) hmem⟩

/-! ### `strongconnect` -/

def tjPush (v : Nat) (st : TjSt) : TjSt :=
  { st with indices := (v, st.index) :: st.indices, low := (v, st.index) :: st.low,
            index := st.index + 1, stack := v :: st.stack }

def tjFinish (v : Nat) (st2 : TjSt) : TjSt :=
  if nmGet st2.low v == nmGet st2.indices v then
    let r := tjPop v st2.stack []
    { st2 with stack := r.2, comps := r.1 :: st2.comps }
  else st2

theorem tjVisitF_succ (succ : Nat → List Nat) (fuel v : Nat) (st : TjSt) :
    tjVisitF succ (fuel + 1) v st =
      tjFinish v (tjNbrsF (tjVisitF succ fuel) v (succ v) (tjPush v st)) := rfl

theorem tjPush_ext {v : Nat} {st : TjSt} (hv : nmGet st.indices v = none) :
    TjExt st.indices (tjPush v st).indices := by
  intro x k hx
  show nmGet ((v, st.index) :: st.indices) x = some k
  rw [kc_nmGet_cons]
  by_cases h : v = x
  · subst h; rw [hv] at hx; exact absurd hx (by simp)
  · rw [if_neg h]; exact hx

theorem TjInv.push {succ : Nat → List Nat} {nodes : List Nat} {st : TjSt} {v : Nat}
    (h : TjInv succ nodes st) (hv : nmGet st.indices v = none) (hn : v ∈ nodes)
    (hr : ∀ x, x ∈ st.stack → TjReach succ x v) : TjInv succ nodes (tjPush v st) := by
  have hext := tjPush_ext (st := st) hv
  have hvnum : tjNum (tjPush v st).indices v = st.index := by
    apply tjNum_of_some
    show nmGet ((v, st.index) :: st.indices) v = _
    rw [kc_nmGet_cons, if_pos rfl]
  have hget : ∀ x, nmGet (tjPush v st).indices x = if v = x then some st.index else nmGet st.indices x :=
    fun x => kc_nmGet_cons _ _ _ _
  refine ⟨?_, ?_, ?_, ?_, ?_, h.closed, h.conn, h.maxl⟩
  · show (v :: st.stack).Pairwise _
    rw [List.pairwise_cons]
    refine ⟨fun x hx => ⟨?_, hr x hx⟩, ?_⟩
    · rw [hvnum, hext.num (h.stack_vis hx)]
      exact h.num_lt (h.stack_vis hx)
    · exact tj_pairwise_congr _ (fun x hx => hext.num (h.stack_vis hx)) h.stk
  · intro x
    rw [hget]
    show _ ↔ (x ∈ v :: st.stack ∨ x ∈ st.comps.flatten)
    by_cases hvx : v = x
    · subst hvx; simp
    · rw [if_neg hvx, h.vis x, List.mem_cons]
      constructor
      · rintro (h1 | h1)
        · exact .inl (.inr h1)
        · exact .inr h1
      · rintro ((h1 | h1) | h1)
        · exact absurd h1.symm hvx
        · exact .inl h1
        · exact .inr h1
  · show ((v :: st.stack) ++ st.comps.flatten).Nodup
    rw [List.cons_append, List.nodup_cons]
    refine ⟨fun hm => ?_, h.nd⟩
    have := (h.vis v).2 (List.mem_append.1 hm)
    exact this hv
  · intro x k hx
    rw [hget] at hx
    show k < st.index + 1
    by_cases hvx : v = x
    · rw [if_pos hvx] at hx
      simp only [Option.some.injEq] at hx
      omega
    · rw [if_neg hvx] at hx
      have := h.lt x k hx
      omega
  · intro x hx
    rw [hget] at hx
    by_cases hvx : v = x
    · subst hvx; exact hn
    · rw [if_neg hvx] at hx
      exact h.node x hx

theorem tj_perm_pop (s2 S C : List Nat) (v : Nat) :
    ((s2 ++ v :: S) ++ C).Perm (S ++ ((s2 ++ [v]) ++ C)) := by
  refine List.perm_iff_count.2 (fun a => ?_)
  simp only [List.count_append, List.count_cons, List.count_nil]
  omega

theorem tjVisitF_spec {succ : Nat → List Nat} {nodes : List Nat}
    (hsucc : ∀ u w, w ∈ succ u → w ∈ nodes) :
    ∀ fuel, TjVisitSpec succ nodes fuel (tjVisitF succ fuel) := by
  intro fuel
  induction fuel with
  | zero => intro w st _ _ _ _ hf; exact absurd hf (Nat.not_lt_zero _)
  | succ fuel ih =>
    intro v st hinv hv hn hr hf
    rw [tjVisitF_succ]
    have hext01 := tjPush_ext (st := st) hv
    have hinv1 := hinv.push hv hn hr
    have hidx1 : nmGet (tjPush v st).indices v = some st.index := by
      show nmGet ((v, st.index) :: st.indices) v = _
      rw [kc_nmGet_cons, if_pos rfl]
    have hloop1 : TjLoop succ v st.stack (tjPush v st) [] st.index := by
      refine ⟨rfl, ?_, ?_, ⟨v, List.mem_cons_self, tjNum_of_some hidx1, .refl _⟩,
        fun x hx => by simp at hx, fun x hx => by simp at hx⟩
      · show nmGet ((v, st.index) :: st.low) v = _
        rw [kc_nmGet_cons, if_pos rfl]
      · rw [tjNum_of_some hidx1]; exact Nat.le_refl _
    have hf1 : tjUnv nodes (tjPush v st).indices < fuel := by
      have := tjUnv_lt nodes (fun x hx => hext01.vis hx) hn hv (by rw [hidx1]; simp)
      omega
    have hpost := tjNbrsF_spec hsucc ih v st.stack (succ v) (tjPush v st) [] st.index
      (fun w hw => hw) hinv1 hloop1 hf1
    generalize tjNbrsF (tjVisitF succ fuel) v (succ v) (tjPush v st) = st2 at hpost ⊢
    rcases hpost.loop with ⟨s2, l, hloop, hle, hws⟩
    have hinv2 := hpost.inv
    have hext : TjExt st.indices st2.indices := hext01.trans hpost.ext
    have hidx2 : nmGet st2.indices v = some st.index := hpost.ext v _ hidx1
    have hvnum : tjNum st2.indices v = st.index := tjNum_of_some hidx2
    have hsp := hinv2.split hloop.stack
    have hlowf : ∀ x, nmGet st.indices x ≠ none → nmGet st2.low x = nmGet st.low x := by
      intro x hx
      have hxv : x ≠ v := fun h => by subst h; exact hx hv
      rw [hpost.lowf x (hext01.vis hx) hxv]
      show nmGet ((v, st.index) :: st.low) x = _
      rw [kc_nmGet_cons, if_neg (fun h => hxv h.symm)]
    have hfacts : ∀ x, x ∈ s2 ++ [v] → ∀ y, y ∈ succ x →
        nmGet st2.indices y ≠ none ∧ (y ∈ st.stack → l ≤ tjNum st2.indices y) := by
      intro x hx y hy
      rcases List.mem_append.1 hx with h | h
      · exact hloop.edges x h y hy
      · simp only [List.mem_singleton] at h
        subst h
        exact hws y hy
    unfold tjFinish
    rw [hloop.low, hidx2]
    by_cases hroot : l = st.index
    · -- `v` is a root: pop its component
      subst hroot
      have hnd2 := hinv2.nd
      rw [hloop.stack] at hnd2
      have hvs2 : v ∉ s2 := by
        intro hm
        have := hsp.1 v hm
        omega
      simp only [beq_self_eq_true, if_true]
      rw [hloop.stack, tjPop_append v s2 st.stack [] hvs2]
      simp only [List.reverse_nil, List.nil_append]
      have hperm := tj_perm_pop s2 st.stack st2.comps.flatten v
      have hnd3 : (st.stack ++ ((s2 ++ [v]) ++ st2.comps.flatten)).Nodup := hperm.nodup_iff.1 hnd2
      have hstackc : ∀ x, x ∈ s2 ++ [v] → x ∉ st2.comps.flatten := by
        intro x hx hc
        have h1 := (List.nodup_append.1 hnd3).2.1
        exact (List.nodup_append.1 h1).2.2 x hx x hc rfl
      have hclosed : ∀ x, x ∈ (s2 ++ [v]) ++ st2.comps.flatten → ∀ w, w ∈ succ x →
          w ∈ (s2 ++ [v]) ++ st2.comps.flatten := by
        intro x hx w hw
        rcases List.mem_append.1 hx with h | h
        · have hf := hfacts x h w hw
          rcases (hinv2.vis w).1 hf.1 with h1 | h1
          · rw [hloop.stack] at h1
            rcases List.mem_append.1 h1 with h2 | h2
            · exact List.mem_append_left _ (List.mem_append_left _ h2)
            · rcases List.mem_cons.1 h2 with h3 | h3
              · exact List.mem_append_left _ (by simp [h3])
              · have := hf.2 h3
                have := (hsp.2.1 w h3).1
                omega
          · exact List.mem_append_right _ h1
        · exact List.mem_append_right _ (hinv2.closed x h w hw)
      have hinv3 : TjInv succ nodes { st2 with stack := st.stack, comps := (s2 ++ [v]) :: st2.comps } := by
        refine ⟨?_, ?_, ?_, hinv2.lt, hinv2.node, ?_, ?_, ?_⟩
        · show st.stack.Pairwise _
          have := hinv2.stk
          rw [hloop.stack, List.pairwise_append, List.pairwise_cons] at this
          exact this.2.1.2
        · intro x
          show _ ↔ (x ∈ st.stack ∨ x ∈ ((s2 ++ [v]) :: st2.comps).flatten)
          rw [List.flatten_cons, ← List.mem_append, ← hperm.mem_iff, hinv2.vis x, hloop.stack]
          simp only [List.mem_append]
        · show (st.stack ++ ((s2 ++ [v]) :: st2.comps).flatten).Nodup
          rw [List.flatten_cons]
          exact hnd3
        · show ∀ x, x ∈ ((s2 ++ [v]) :: st2.comps).flatten → ∀ w, w ∈ succ x →
            w ∈ ((s2 ++ [v]) :: st2.comps).flatten
          rw [List.flatten_cons]
          exact hclosed
        · intro c hc x hx y hy
          rcases List.mem_cons.1 hc with h | h
          · subst h
            have h1 : TjReach succ x v := by
              rcases List.mem_append.1 hx with h2 | h2
              · exact hloop.up x h2
              · simp only [List.mem_singleton] at h2
                subst h2; exact .refl _
            have h2 : TjReach succ v y := by
              rcases List.mem_append.1 hy with h2 | h2
              · exact hsp.2.2 y h2
              · simp only [List.mem_singleton] at h2
                subst h2; exact .refl _
            exact h1.trans h2
          · exact hinv2.conn c h x hx y hy
        · intro c hc x hx y hxy hyx
          rcases List.mem_cons.1 hc with h | h
          · subst h
            have hy := tj_closed_reach (S := fun z => z ∈ (s2 ++ [v]) ++ st2.comps.flatten) hclosed hxy
              (List.mem_append_left _ hx)
            rcases List.mem_append.1 hy with h1 | h1
            · exact h1
            · have := tj_closed_reach (S := fun z => z ∈ st2.comps.flatten) hinv2.closed hyx h1
              exact absurd this (hstackc x hx)
          · exact hinv2.maxl c h x hx y hxy hyx
      exact ⟨hinv3, hext, hlowf, hidx2, .inl ⟨rfl, hloop.low⟩⟩
    · -- `v` stays on the stack
      have hne : ¬ ((some l == some st.index) = true) := by
        simp only [beq_iff_eq, Option.some.injEq]; exact hroot
      rw [if_neg hne]
      have hlt : l < st.index := by
        have := hloop.le
        omega
      refine ⟨hinv2, hext, hlowf, hidx2, .inr ⟨s2, l, hloop.stack, hloop.low, hlt, ?_, hloop.up, hfacts⟩⟩
      rcases hloop.wit with ⟨z, hz, hzn, hzr⟩
      rcases List.mem_cons.1 hz with h | h
      · subst h; omega
      · exact ⟨z, h, hzn, hzr⟩

/-! ### the outer loop and the result -/

theorem tjAllF_spec {succ : Nat → List Nat} {nodes : List Nat} {fuel : Nat} {visit : Nat → TjSt → TjSt}
    (hvisit : TjVisitSpec succ nodes fuel visit) :
    ∀ (ns : List Nat) (st : TjSt), (∀ n, n ∈ ns → n ∈ nodes) → TjInv succ nodes st → st.stack = [] →
      tjUnv nodes st.indices < fuel →
      TjInv succ nodes (tjAllF visit ns st) ∧ (tjAllF visit ns st).stack = [] ∧
        TjExt st.indices (tjAllF visit ns st).indices ∧
        ∀ n, n ∈ ns → nmGet (tjAllF visit ns st).indices n ≠ none := by
  intro ns
  induction ns with
  | nil =>
    intro st _ hinv hs _
    rw [tjAllF]
    exact ⟨hinv, hs, TjExt.refl _, fun n hn => by simp at hn⟩
  | cons a ns ih =>
    intro st hns hinv hs hf
    have hns' : ∀ n, n ∈ ns → n ∈ nodes := fun n hn => hns n (List.mem_cons_of_mem _ hn)
    rw [tjAllF]
    cases ha : nmGet st.indices a with
    | none =>
      simp only []
      have hp := hvisit a st hinv ha (hns a List.mem_cons_self) (fun x hx => by rw [hs] at hx; simp at hx) hf
      generalize visit a st = sta at hp ⊢
      have hsa : sta.stack = [] := by
        rcases hp.out with ⟨h, _⟩ | ⟨s2, l, _, _, _, ⟨z, hz, _⟩, _⟩
        · rw [h, hs]
        · rw [hs] at hz; simp at hz
      have hfa : tjUnv nodes sta.indices < fuel :=
        Nat.lt_of_le_of_lt (tjUnv_mono nodes (fun x hx => hp.ext.vis hx)) hf
      have hr := ih sta hns' hp.inv hsa hfa
      refine ⟨hr.1, hr.2.1, hp.ext.trans hr.2.2.1, fun n hn => ?_⟩
      rcases List.mem_cons.1 hn with h | h
      · subst h
        exact hr.2.2.1.vis (by rw [hp.idx]; simp)
      · exact hr.2.2.2 n h
    | some k =>
      simp only []
      have hr := ih st hns' hinv hs hf
      refine ⟨hr.1, hr.2.1, hr.2.2.1, fun n hn => ?_⟩
      rcases List.mem_cons.1 hn with h | h
      · subst h
        exact hr.2.2.1.vis (by rw [ha]; simp)
      · exact hr.2.2.2 n h

def tjInit : TjSt := { index := 0, indices := [], low := [], stack := [], comps := [] }

theorem tjInit_inv (succ : Nat → List Nat) (nodes : List Nat) : TjInv succ nodes tjInit := by
  refine ⟨List.Pairwise.nil, fun x => ?_, List.nodup_nil, fun x k h => ?_, fun x h => ?_,
    fun x h => ?_, fun c h => ?_, fun c h => ?_⟩
  · show nmGet [] x ≠ none ↔ (x ∈ ([] : List Nat) ∨ x ∈ ([] : List (List Nat)).flatten)
    simp [nmGet]
  · exact absurd h (by simp [tjInit, nmGet])
  · exact absurd rfl h
  · exact absurd h (by simp [tjInit])
  · exact absurd h (by simp [tjInit])
  · exact absurd h (by simp [tjInit])

theorem tj_flatten_reverse_perm (l : List (List Nat)) : l.reverse.flatten.Perm l.flatten := by
  induction l with
  | nil => exact List.Perm.refl _
  | cons a l ih =>
    rw [List.reverse_cons, List.flatten_append, List.flatten_cons, List.flatten_cons, List.flatten_nil,
      List.append_nil]
    exact (List.perm_append_comm).trans (List.Perm.append_left a ih)

/-- the final state of the run on a graph -/
def tjFinal (g : Graph) (etype : Option Nat) : TjSt :=
  tjAllF (tjVisitF (nbrSet g etype .out) (g.nodes.length + 1)) (g.nodes.map (·.id)) tjInit

theorem sccComponents_eq_final (g : Graph) (etype : Option Nat) :
    sccComponents g etype = (tjFinal g etype).comps.reverse := sccComponents_eq_F g etype

theorem tj_succ_nodes (g : Graph) (etype : Option Nat) :
    ∀ u w, w ∈ nbrSet g etype .out u → w ∈ g.nodes.map (·.id) := by
  intro u w hw
  exact (kc_hasNode_iff g w).1 ((mem_nbrSet_out g etype u w).1 hw).2.1

theorem tjFinal_spec (g : Graph) (etype : Option Nat) :
    TjInv (nbrSet g etype .out) (g.nodes.map (·.id)) (tjFinal g etype) ∧ (tjFinal g etype).stack = [] ∧
      ∀ n, n ∈ g.nodes.map (·.id) → nmGet (tjFinal g etype).indices n ≠ none := by
  have h := tjAllF_spec (tjVisitF_spec (tj_succ_nodes g etype) (g.nodes.length + 1))
    (g.nodes.map (·.id)) tjInit (fun n hn => hn) (tjInit_inv _ _) rfl
    (by
      have := tjUnv_le_length (g.nodes.map (·.id)) tjInit.indices
      rw [List.length_map] at this
      omega)
  exact ⟨h.1, h.2.1, h.2.2.2⟩

theorem tj_sreach_iff (g : Graph) (etype : Option Nat) (u v : Nat) :
    SReach g etype u v ↔ TjReach (nbrSet g etype .out) u v := by
  constructor
  · intro h
    induction h with
    | refl => exact .refl _
    | step h _ ih => exact .step ((mem_nbrSet_out g etype _ _).2 h) ih
  · intro h
    induction h with
    | refl => exact .refl _
    | step h _ ih => exact .step ((mem_nbrSet_out g etype _ _).1 h) ih

/-- every node lies in exactly one component, exactly once (includes fuel adequacy) -/
theorem scc_partition (g : Graph) (etype : Option Nat) (hn : NodesUnique g) :
    (sccComponents g etype).flatten.Perm (g.nodes.map (·.id)) := by
  rw [sccComponents_eq_final]
  refine (tj_flatten_reverse_perm _).trans ?_
  rcases tjFinal_spec g etype with ⟨hinv, hs, hall⟩
  have hnd := hinv.nd
  rw [hs, List.nil_append] at hnd
  refine (List.perm_ext_iff_of_nodup hnd hn).2 (fun a => ?_)
  constructor
  · intro ha
    exact hinv.node a ((hinv.vis a).2 (.inr ha))
  · intro ha
    rcases (hinv.vis a).1 (hall a ha) with h | h
    · rw [hs] at h; simp at h
    · exact h

theorem scc_members_mutually_reachable (g : Graph) (etype : Option Nat) (c : List Nat)
    (hc : c ∈ sccComponents g etype) (u : Nat) (hu : u ∈ c) (v : Nat) (hv : v ∈ c) :
    SReach g etype u v ∧ SReach g etype v u := by
  rw [sccComponents_eq_final, List.mem_reverse] at hc
  have hinv := (tjFinal_spec g etype).1
  exact ⟨(tj_sreach_iff g etype u v).2 (hinv.conn c hc u hu v hv),
    (tj_sreach_iff g etype v u).2 (hinv.conn c hc v hv u hu)⟩

theorem scc_closed (g : Graph) (etype : Option Nat) (c : List Nat)
    (hc : c ∈ sccComponents g etype) (u : Nat) (hu : u ∈ c) (v : Nat)
    (huv : SReach g etype u v) (hvu : SReach g etype v u) : v ∈ c := by
  rw [sccComponents_eq_final, List.mem_reverse] at hc
  have hinv := (tjFinal_spec g etype).1
  exact hinv.maxl c hc u hu v ((tj_sreach_iff g etype u v).1 huv) ((tj_sreach_iff g etype v u).1 hvu)

theorem scc_member_is_node (g : Graph) (etype : Option Nat) (c : List Nat)
    (hc : c ∈ sccComponents g etype) (u : Nat) (hu : u ∈ c) : g.hasNode u = true := by
  rw [sccComponents_eq_final, List.mem_reverse] at hc
  have hinv := (tjFinal_spec g etype).1
  rw [kc_hasNode_iff]
  exact hinv.node u ((hinv.vis u).2 (.inr (List.mem_flatten.2 ⟨c, hc, hu⟩)))

/-- the members of a component are exactly the nodes mutually reachable with any of its members -/
theorem scc_exact (g : Graph) (etype : Option Nat) (hn : NodesUnique g) (c : List Nat)
    (hc : c ∈ sccComponents g etype) (u : Nat) (hu : u ∈ c) (v : Nat) :
    v ∈ c ↔ (g.hasNode v = true ∧ SReach g etype u v ∧ SReach g etype v u) := by
  have _ := hn
  constructor
  · intro hv
    exact ⟨scc_member_is_node g etype c hc v hv, scc_members_mutually_reachable g etype c hc u hu v hv⟩
  · rintro ⟨_, h1, h2⟩
    exact scc_closed g etype c hc u hu v h1 h2

/-- no node id occurs twice in the result (no hypothesis on the node list needed) -/
theorem scc_component_nodup (g : Graph) (etype : Option Nat) :
    (sccComponents g etype).flatten.Nodup := by
  rw [sccComponents_eq_final]
  rcases tjFinal_spec g etype with ⟨hinv, hs, _⟩
  have hnd := hinv.nd
  rw [hs, List.nil_append] at hnd
  exact (tj_flatten_reverse_perm _).nodup_iff.2 hnd

/-! ### closed examples -/

/-- directed 3-cycle 1→2→3→1 (type 0), a tail 3→4 (type 0) and an undirected edge 4—5 (type 1) -/
def tjExG : Graph :=
  { nodes := [⟨1, none⟩, ⟨2, none⟩, ⟨3, none⟩, ⟨4, none⟩, ⟨5, none⟩],
    edges := [⟨1, 1, 2, true, 0, none, none⟩, ⟨2, 2, 3, true, 0, none, none⟩,
              ⟨3, 3, 1, true, 0, none, none⟩, ⟨4, 3, 4, true, 0, none, none⟩,
              ⟨5, 4, 5, false, 1, none, none⟩] }

/-- does the result contain a component with exactly these members -/
def tjHasComp (r : List (List Nat)) (c : List Nat) : Bool :=
  r.any (fun d => d.length == c.length && c.all (fun x => d.contains x))

example : sccComponents tjExG none = [[5, 4], [3, 2, 1]] := by rw [sccComponents_eq_F]; decide

example : tjHasComp (sccComponents tjExG none) [1, 2, 3] = true ∧
    tjHasComp (sccComponents tjExG none) [4, 5] = true ∧ (sccComponents tjExG none).length = 2 := by
  rw [sccComponents_eq_F]; decide

/-- only edges of type 0: the undirected edge 4—5 does not count, 4 and 5 are singletons -/
example : sccComponents tjExG (some 0) = [[4], [3, 2, 1], [5]] := by rw [sccComponents_eq_F]; decide

example : tjHasComp (sccComponents tjExG (some 0)) [1, 2, 3] = true ∧
    tjHasComp (sccComponents tjExG (some 0)) [4] = true ∧
    tjHasComp (sccComponents tjExG (some 0)) [5] = true ∧ (sccComponents tjExG (some 0)).length = 3 := by
  rw [sccComponents_eq_F]; decide

/-- only edges of type 1: the cycle is gone, 4—5 remains -/
example : tjHasComp (sccComponents tjExG (some 1)) [4, 5] = true ∧
    (sccComponents tjExG (some 1)).length = 4 := by
  rw [sccComponents_eq_F]; decide

end Neumann.Paths
