import NeumannModel.Paths.Spec
/-
  C18 — `traverse` (BFS with explicit depths) against the declarative walks of `Spec.lean`.

  Fully proved here, for every graph / start / direction / depth bound / edge type / filter:
    * `mem_nbrIds_iff`     — the neighbour list is exactly the `TStep` relation
    * `traverse_none_iff`  — `none` exactly when the start node does not exist
    * `traverse_exact`     — the result is exactly the nodes that exist, pass the node filter (or are
                             the start) and are reachable by a qualifying walk of at most `maxDepth` hops
    * `traverse_nodup`     — no node is returned twice

  Proof: an invariant `TravInv` of `travLoop` with a ghost list `P` of already dequeued (node, depth)
  pairs; queue depths are minimal walk lengths, sorted and within one level; processed nodes of depth
  `< maxDepth` are closed under `TStep` inside `visited`.  The fuel `bfsFuel g` is adequate because
  every visited node other than the start is an endpoint of an edge and `visited` is duplicate-free.
-/
namespace Neumann.Paths

/-! ### neighbours -/

theorem mem_nbrIdsRaw_iff (g : Graph) (etype : Option Nat) (dir : Dir) (flt : Flt) (u v : Nat) :
    v ∈ nbrIdsRaw g etype dir flt u ↔
      ∃ e, e ∈ g.edges ∧ typeOk etype e = true ∧ flt.edgeOk e = true ∧
        ((dir.hasOut = true ∧ e.joins u v) ∨ (dir.hasIn = true ∧ e.joins v u)) := by
  unfold nbrIdsRaw
  rw [List.mem_append]
  constructor
  · rintro (h | h)
    · split at h
      · rename_i hd
        rw [List.mem_flatMap] at h
        obtain ⟨e, he, hv⟩ := h
        simp only [outEdges, List.mem_filter] at he
        refine ⟨e, he.1, ?_⟩
        split at hv
        · rename_i hc
          simp only [Bool.and_eq_true] at hc
          refine ⟨hc.1, hc.2, Or.inl ⟨hd, ?_⟩⟩
          simp only [List.mem_append] at hv
          unfold Edge.joins
          rcases hv with hv | hv
          · split at hv
            · rename_i h1
              simp only [List.mem_singleton] at hv
              simp only [beq_iff_eq] at h1
              exact Or.inl ⟨h1, hv.symm⟩
            · simp at hv
          · split at hv
            · rename_i h1
              simp only [List.mem_singleton] at hv
              simp only [Bool.and_eq_true, Bool.not_eq_true', beq_iff_eq] at h1
              exact Or.inr ⟨h1.1, h1.2, hv.symm⟩
            · simp at hv
        · simp at hv
      · simp at h
    · split at h
      · rename_i hd
        rw [List.mem_flatMap] at h
        obtain ⟨e, he, hv⟩ := h
        simp only [inEdges, List.mem_filter] at he
        refine ⟨e, he.1, ?_⟩
        split at hv
        · rename_i hc
          simp only [Bool.and_eq_true] at hc
          refine ⟨hc.1, hc.2, Or.inr ⟨hd, ?_⟩⟩
          simp only [List.mem_append] at hv
          unfold Edge.joins
          rcases hv with hv | hv
          · split at hv
            · rename_i h1
              simp only [List.mem_singleton] at hv
              simp only [beq_iff_eq] at h1
              exact Or.inl ⟨hv.symm, h1⟩
            · simp at hv
          · split at hv
            · rename_i h1
              simp only [List.mem_singleton] at hv
              simp only [Bool.and_eq_true, Bool.not_eq_true', beq_iff_eq] at h1
              exact Or.inr ⟨h1.1, hv.symm, h1.2⟩
            · simp at hv
        · simp at hv
      · simp at h
  · rintro ⟨e, he, ht, hf, h⟩
    rcases h with ⟨hd, hj⟩ | ⟨hd, hj⟩
    · left
      rw [if_pos hd, List.mem_flatMap]
      refine ⟨e, ?_, ?_⟩
      · simp only [outEdges, List.mem_filter, inOut]
        refine ⟨he, ?_⟩
        rcases hj with ⟨h1, _⟩ | ⟨h1, h2, _⟩
        · simp [h1]
        · simp [h1, h2]
      · rw [if_pos (by simp [ht, hf])]
        rcases hj with ⟨h1, h2⟩ | ⟨h1, h2, h3⟩
        · simp [h1, h2]
        · simp [h1, h2, h3]
    · right
      rw [if_pos hd, List.mem_flatMap]
      refine ⟨e, ?_, ?_⟩
      · simp only [inEdges, List.mem_filter, inIn]
        refine ⟨he, ?_⟩
        rcases hj with ⟨_, h1⟩ | ⟨h1, _, h2⟩
        · simp [h1]
        · simp [h1, h2]
      · rw [if_pos (by simp [ht, hf])]
        rcases hj with ⟨h1, h2⟩ | ⟨h1, h2, h3⟩
        · simp [h1, h2]
        · simp [h1, h2, h3]

theorem mem_nbrIds_iff (g : Graph) (etype : Option Nat) (dir : Dir) (flt : Flt) (u v : Nat) :
    v ∈ nbrIds g etype dir flt u ↔ TStep g etype dir flt u v := by
  unfold nbrIds TStep
  rw [List.mem_eraseDups, List.mem_filter, mem_nbrIdsRaw_iff]
  simp only [bne_iff_ne, ne_eq]
  exact And.comm

theorem traverse_none_iff (g : Graph) (s : Nat) (dir : Dir) (md : Nat) (etype : Option Nat) (flt : Flt) :
    traverse g s dir md etype flt = none ↔ g.hasNode s = false := by
  unfold traverse
  cases h : g.hasNode s <;> simp

/-! ### walks -/

theorem twalk_zero {g : Graph} {etype : Option Nat} {dir : Dir} {flt : Flt} {u v : Nat}
    (h : TWalk g etype dir flt u v 0) : v = u := by
  cases h; rfl

theorem twalk_snoc {g : Graph} {etype : Option Nat} {dir : Dir} {flt : Flt} {u v w n : Nat}
    (h : TWalk g etype dir flt u v n) (hs : TStep g etype dir flt v w) :
    TWalk g etype dir flt u w (n + 1) := by
  induction h with
  | nil u => exact TWalk.cons hs (TWalk.nil _)
  | cons hs' _ ih => exact TWalk.cons hs' (ih hs)

theorem twalk_unsnoc {g : Graph} {etype : Option Nat} {dir : Dir} {flt : Flt} :
    ∀ (n u w : Nat), TWalk g etype dir flt u w (n + 1) →
      ∃ v, TWalk g etype dir flt u v n ∧ TStep g etype dir flt v w := by
  intro n
  induction n with
  | zero =>
    intro u w h
    cases h with
    | cons hs hw =>
      have := twalk_zero hw
      subst this
      exact ⟨u, TWalk.nil _, hs⟩
  | succ k ih =>
    intro u w h
    cases h with
    | cons hs hw =>
      obtain ⟨v, hv, hvw⟩ := ih _ _ hw
      exact ⟨v, TWalk.cons hs hv, hvw⟩

/-- the travEndpoints of all edges, with multiplicity -/
def travEndpoints (g : Graph) : List Nat := g.edges.flatMap (fun e => [e.src, e.dst])

theorem length_travEndpoints (g : Graph) : (travEndpoints g).length = 2 * g.edges.length := by
  unfold travEndpoints
  induction g.edges with
  | nil => rfl
  | cons e es ih => simp only [List.flatMap_cons, List.length_append, List.length_cons, List.length_nil, ih]; omega

theorem tstep_endpoint {g : Graph} {etype : Option Nat} {dir : Dir} {flt : Flt} {u v : Nat}
    (h : TStep g etype dir flt u v) : v ∈ travEndpoints g := by
  obtain ⟨_, e, he, _, _, hj⟩ := h
  unfold travEndpoints
  rw [List.mem_flatMap]
  refine ⟨e, he, ?_⟩
  simp only [List.mem_cons, List.not_mem_nil, or_false]
  unfold Edge.joins at hj
  rcases hj with ⟨_, ⟨_, h⟩ | ⟨_, _, h⟩⟩ | ⟨_, ⟨h, _⟩ | ⟨_, h, _⟩⟩
  · exact Or.inr h.symm
  · exact Or.inl h.symm
  · exact Or.inl h.symm
  · exact Or.inr h.symm

theorem twalk_endpoint {g : Graph} {etype : Option Nat} {dir : Dir} {flt : Flt} {u w n : Nat}
    (h : TWalk g etype dir flt u w n) : w = u ∨ w ∈ travEndpoints g := by
  induction h with
  | nil u => exact Or.inl rfl
  | cons hs _ ih =>
    rcases ih with ih | ih
    · subst ih; exact Or.inr (tstep_endpoint hs)
    · exact Or.inr ih

/-- a duplicate-free list all of whose members except `s` are edge travEndpoints is short -/
theorem length_le_of_travEndpoints (g : Graph) (s : Nat) (l : List Nat) (hn : l.Nodup)
    (h : ∀ x, x ∈ l → x = s ∨ x ∈ travEndpoints g) : l.length ≤ 2 * g.edges.length + 1 := by
  have h1 : (l.erase s).length ≤ (travEndpoints g).length := by
    apply List.Nodup.length_le_of_subset (hn.sublist List.erase_sublist)
    intro x hx
    rw [List.Nodup.mem_erase_iff hn] at hx
    rcases h x hx.2 with h | h
    · exact absurd h hx.1
    · exact h
  rw [length_travEndpoints] at h1
  have h2 : l.length ≤ (l.erase s).length + 1 := by
    rw [List.length_erase]; split <;> omega
  omega

/-! ### `travPush` -/

theorem travPush_spec (d : Nat) : ∀ (nbs : List Nat) (q : List (Nat × Nat)) (vis : List Nat),
    ∃ new : List Nat,
      travPush d nbs q vis = (q ++ new.map (fun x => (x, d)), new.reverse ++ vis) ∧
      new.Nodup ∧ ∀ x, x ∈ new ↔ x ∈ nbs ∧ x ∉ vis := by
  intro nbs
  induction nbs with
  | nil => intro q vis; exact ⟨[], by simp [travPush]⟩
  | cons nb rest ih =>
    intro q vis
    rw [travPush]
    by_cases hc : vis.contains nb = true
    · rw [if_pos hc]
      obtain ⟨new, h1, h2, h3⟩ := ih q vis
      refine ⟨new, h1, h2, ?_⟩
      intro x
      rw [h3, List.mem_cons]
      have : nb ∈ vis := by simpa using hc
      constructor
      · rintro ⟨a, b⟩; exact ⟨Or.inr a, b⟩
      · rintro ⟨a | a, b⟩
        · subst a; exact absurd this b
        · exact ⟨a, b⟩
    · rw [if_neg hc]
      have hnb : nb ∉ vis := by simpa using hc
      obtain ⟨new, h1, h2, h3⟩ := ih (q ++ [(nb, d)]) (nb :: vis)
      refine ⟨nb :: new, ?_, ?_, ?_⟩
      · rw [h1]; simp
      · rw [List.nodup_cons]
        refine ⟨?_, h2⟩
        intro hmem
        exact ((h3 nb).1 hmem).2 (List.mem_cons_self)
      · intro x
        rw [List.mem_cons, h3, List.mem_cons, List.mem_cons]
        constructor
        · rintro (a | ⟨a, b⟩)
          · subst a; exact ⟨Or.inl rfl, hnb⟩
          · exact ⟨Or.inr a, fun h => b (Or.inr h)⟩
        · rintro ⟨a | a, b⟩
          · exact Or.inl a
          · by_cases hx : x = nb
            · exact Or.inl hx
            · right; refine ⟨a, ?_⟩
              rintro (h | h)
              · exact hx h
              · exact b h

/-! ### the loop invariant -/

/-- `d` is the length of a shortest qualifying walk from `s` to `v` -/
def TravMinDepth (g : Graph) (etype : Option Nat) (dir : Dir) (flt : Flt) (s v d : Nat) : Prop :=
  TWalk g etype dir flt s v d ∧ ∀ n, TWalk g etype dir flt s v n → d ≤ n

/-- the inclusion test of `travLoop` -/
def travIncl (g : Graph) (flt : Flt) (s v : Nat) : Bool := g.hasNode v && (v == s || flt.nodeOk v)

/-- invariant of `travLoop`; `P` = ghost list of the dequeued (node, depth) pairs, newest first -/
structure TravInv (g : Graph) (etype : Option Nat) (dir : Dir) (flt : Flt) (s md : Nat)
    (q : List (Nat × Nat)) (vis res : List Nat) (P : List (Nat × Nat)) : Prop where
  depth : ∀ p, p ∈ q ∨ p ∈ P → TravMinDepth g etype dir flt s p.1 p.2 ∧ p.2 ≤ md
  sorted : q.Pairwise (fun a b => a.2 ≤ b.2 ∧ b.2 ≤ a.2 + 1)
  vis_iff : ∀ x, x ∈ vis ↔ (x ∈ q.map Prod.fst ∨ x ∈ P.map Prod.fst)
  vis_nodup : vis.Nodup
  vis_len : vis.length = q.length + P.length
  q_nodup : (q.map Prod.fst).Nodup
  p_nodup : (P.map Prod.fst).Nodup
  qp_disj : ∀ x, x ∈ q.map Prod.fst → x ∉ P.map Prod.fst
  closed : ∀ p, p ∈ P → p.2 < md → ∀ w, TStep g etype dir flt p.1 w → w ∈ vis
  res_eq : res = (P.map Prod.fst).filter (travIncl g flt s)
  start : s ∈ vis

section loop
variable {g : Graph} {etype : Option Nat} {dir : Dir} {flt : Flt} {s md : Nat}

theorem travInv_init : TravInv g etype dir flt s md [(s, 0)] [s] [] [] where
  depth := by
    intro p hp
    simp only [List.mem_singleton, List.not_mem_nil, or_false] at hp
    subst hp
    exact ⟨⟨TWalk.nil _, fun n _ => Nat.zero_le n⟩, Nat.zero_le _⟩
  sorted := by simp
  vis_iff := by simp
  vis_nodup := by simp
  vis_len := by simp
  q_nodup := by simp
  p_nodup := by simp
  qp_disj := by simp
  closed := by simp
  res_eq := by simp
  start := by simp

/-- every node outside `visited` is farther than the head of the queue -/
theorem trav_frontier {u d : Nat} {rest : List (Nat × Nat)} {vis res : List Nat} {P : List (Nat × Nat)}
    (hinv : TravInv g etype dir flt s md ((u, d) :: rest) vis res P) :
    ∀ n x, TWalk g etype dir flt s x n → x ∉ vis → d + 1 ≤ n := by
  intro n
  induction n with
  | zero =>
    intro x hw hx
    have := twalk_zero hw
    subst this
    exact absurd hinv.start hx
  | succ m ih =>
    intro x hw hx
    obtain ⟨y, hy, hyx⟩ := twalk_unsnoc m s x hw
    by_cases hyv : y ∈ vis
    · have hd : d ≤ md := (hinv.depth (u, d) (Or.inl List.mem_cons_self)).2
      rcases (hinv.vis_iff y).1 hyv with hq | hp
      · rw [List.mem_map] at hq
        obtain ⟨p, hp, hpy⟩ := hq
        have hmin := (hinv.depth p (Or.inl hp)).1.2 m (hpy ▸ hy)
        rw [List.mem_cons] at hp
        rcases hp with hp | hp
        · subst hp; exact Nat.succ_le_succ hmin
        · have := (List.rel_of_pairwise_cons hinv.sorted hp).1
          simp only at this
          omega
      · rw [List.mem_map] at hp
        obtain ⟨p, hp, hpy⟩ := hp
        have hmin := (hinv.depth p (Or.inr hp)).1.2 m (hpy ▸ hy)
        by_cases hlt : p.2 < md
        · exact absurd (hinv.closed p hp hlt x (hpy ▸ hyx)) hx
        · omega
    · have := ih y hy hyv
      omega

/-- dequeue a node at the depth bound: it is not expanded -/
theorem travInv_step_stop {u d : Nat} {rest : List (Nat × Nat)} {vis res : List Nat} {P : List (Nat × Nat)}
    (hinv : TravInv g etype dir flt s md ((u, d) :: rest) vis res P) (hd : md ≤ d) :
    TravInv g etype dir flt s md rest vis (if travIncl g flt s u then u :: res else res) ((u, d) :: P) where
  depth := by
    intro p hp
    apply hinv.depth
    rcases hp with hp | hp
    · exact Or.inl (List.mem_cons_of_mem _ hp)
    · rw [List.mem_cons] at hp
      rcases hp with hp | hp
      · exact Or.inl (hp ▸ List.mem_cons_self)
      · exact Or.inr hp
  sorted := (List.pairwise_cons.1 hinv.sorted).2
  vis_iff := by
    intro x
    rw [hinv.vis_iff x]
    simp only [List.map_cons, List.mem_cons]
    constructor
    · rintro ((h | h) | h)
      · exact Or.inr (Or.inl h)
      · exact Or.inl h
      · exact Or.inr (Or.inr h)
    · rintro (h | h | h)
      · exact Or.inl (Or.inr h)
      · exact Or.inl (Or.inl h)
      · exact Or.inr h
  vis_nodup := hinv.vis_nodup
  vis_len := by
    rw [hinv.vis_len]; simp only [List.length_cons]; omega
  q_nodup := by
    have := hinv.q_nodup
    simp only [List.map_cons, List.nodup_cons] at this
    exact this.2
  p_nodup := by
    have h1 := hinv.q_nodup
    simp only [List.map_cons, List.nodup_cons] at h1
    simp only [List.map_cons, List.nodup_cons]
    exact ⟨hinv.qp_disj u (by simp), hinv.p_nodup⟩
  qp_disj := by
    intro x hx
    have h1 := hinv.q_nodup
    simp only [List.map_cons, List.nodup_cons] at h1
    simp only [List.map_cons, List.mem_cons, not_or]
    refine ⟨?_, hinv.qp_disj x (by simp only [List.map_cons, List.mem_cons]; exact Or.inr hx)⟩
    intro hxu
    subst hxu
    exact h1.1 hx
  closed := by
    intro p hp hlt w hw
    rw [List.mem_cons] at hp
    rcases hp with hp | hp
    · subst hp; simp only at hlt; omega
    · exact hinv.closed p hp hlt w hw
  res_eq := by
    rw [List.map_cons, List.filter_cons, hinv.res_eq]
  start := hinv.start

/-- dequeue a node below the depth bound: its unvisited neighbours are enqueued one level deeper -/
theorem travInv_step_expand {u d : Nat} {rest : List (Nat × Nat)} {vis res : List Nat} {P : List (Nat × Nat)}
    (hinv : TravInv g etype dir flt s md ((u, d) :: rest) vis res P) (hd : d < md)
    (new : List Nat) (hnd : new.Nodup)
    (hnew : ∀ x, x ∈ new ↔ x ∈ nbrIds g etype dir flt u ∧ x ∉ vis) :
    TravInv g etype dir flt s md (rest ++ new.map (fun x => (x, d + 1))) (new.reverse ++ vis)
      (if travIncl g flt s u then u :: res else res) ((u, d) :: P) where
  depth := by
    intro p hp
    rcases hp with hp | hp
    · rw [List.mem_append] at hp
      rcases hp with hp | hp
      · exact hinv.depth p (Or.inl (List.mem_cons_of_mem _ hp))
      · rw [List.mem_map] at hp
        obtain ⟨w, hw, rfl⟩ := hp
        have hw' := (hnew w).1 hw
        have hstep := (mem_nbrIds_iff g etype dir flt u w).1 hw'.1
        have hu := (hinv.depth (u, d) (Or.inl List.mem_cons_self)).1
        refine ⟨⟨twalk_snoc hu.1 hstep, ?_⟩, hd⟩
        intro n hn
        exact trav_frontier hinv n w hn hw'.2
    · rw [List.mem_cons] at hp
      rcases hp with hp | hp
      · exact hinv.depth p (Or.inl (hp ▸ List.mem_cons_self))
      · exact hinv.depth p (Or.inr hp)
  sorted := by
    have hs := List.pairwise_cons.1 hinv.sorted
    rw [List.pairwise_append]
    refine ⟨hs.2, ?_, ?_⟩
    · rw [List.pairwise_map]
      exact List.Pairwise.imp (R := fun _ _ => True) (fun _ => ⟨Nat.le_refl _, Nat.le_succ _⟩)
        (List.pairwise_of_forall (fun _ _ => trivial))
    · intro a ha b hb
      rw [List.mem_map] at hb
      obtain ⟨w, _, rfl⟩ := hb
      have := hs.1 a ha
      simp only at this ⊢
      omega
  vis_iff := by
    intro x
    simp only [List.mem_append, List.mem_reverse, hinv.vis_iff x, List.map_append, List.map_map,
      List.map_cons, List.mem_cons]
    have : List.map (Prod.fst ∘ fun x => (x, d + 1)) new = new := by
      simp [Function.comp_def]
    rw [this]
    constructor
    · rintro (h | (h | h) | h)
      · exact Or.inl (Or.inr h)
      · exact Or.inr (Or.inl h)
      · exact Or.inl (Or.inl h)
      · exact Or.inr (Or.inr h)
    · rintro ((h | h) | h | h)
      · exact Or.inr (Or.inl (Or.inr h))
      · exact Or.inl h
      · exact Or.inr (Or.inl (Or.inl h))
      · exact Or.inr (Or.inr h)
  vis_nodup := by
    rw [List.nodup_append]
    refine ⟨(List.reverse_perm new).nodup_iff.2 hnd, hinv.vis_nodup, ?_⟩
    intro a ha b hb hab
    subst hab
    exact ((hnew a).1 (List.mem_reverse.1 ha)).2 hb
  vis_len := by
    simp only [List.length_append, List.length_reverse, List.length_map, List.length_cons, hinv.vis_len]
    omega
  q_nodup := by
    have h1 := hinv.q_nodup
    simp only [List.map_cons, List.nodup_cons] at h1
    have : List.map (Prod.fst ∘ fun x => (x, d + 1)) new = new := by
      simp [Function.comp_def]
    rw [List.map_append, List.map_map, this, List.nodup_append]
    refine ⟨h1.2, hnd, ?_⟩
    intro a ha b hb hab
    subst hab
    apply ((hnew a).1 hb).2
    rw [hinv.vis_iff]
    exact Or.inl (by simp only [List.map_cons, List.mem_cons]; exact Or.inr ha)
  p_nodup := by
    simp only [List.map_cons, List.nodup_cons]
    exact ⟨hinv.qp_disj u (by simp), hinv.p_nodup⟩
  qp_disj := by
    intro x hx
    have h1 := hinv.q_nodup
    simp only [List.map_cons, List.nodup_cons] at h1
    have : List.map (Prod.fst ∘ fun x => (x, d + 1)) new = new := by
      simp [Function.comp_def]
    rw [List.map_append, List.map_map, this, List.mem_append] at hx
    simp only [List.map_cons, List.mem_cons, not_or]
    rcases hx with hx | hx
    · refine ⟨?_, hinv.qp_disj x (by simp only [List.map_cons, List.mem_cons]; exact Or.inr hx)⟩
      intro hxu
      subst hxu
      exact h1.1 hx
    · have hnv := ((hnew x).1 hx).2
      rw [hinv.vis_iff] at hnv
      simp only [List.map_cons, List.mem_cons, not_or] at hnv
      exact ⟨hnv.1.1, hnv.2⟩
  closed := by
    intro p hp hlt w hw
    rw [List.mem_append, List.mem_reverse]
    rw [List.mem_cons] at hp
    rcases hp with hp | hp
    · subst hp
      by_cases hwv : w ∈ vis
      · exact Or.inr hwv
      · exact Or.inl ((hnew w).2 ⟨(mem_nbrIds_iff g etype dir flt u w).2 hw, hwv⟩)
    · exact Or.inr (hinv.closed p hp hlt w hw)
  res_eq := by
    rw [List.map_cons, List.filter_cons, hinv.res_eq]
  start := List.mem_append_right _ hinv.start

theorem travInv_vis_le {q : List (Nat × Nat)} {vis res : List Nat} {P : List (Nat × Nat)}
    (hinv : TravInv g etype dir flt s md q vis res P) : vis.length ≤ 2 * g.edges.length + 1 := by
  apply length_le_of_travEndpoints g s vis hinv.vis_nodup
  intro x hx
  have : ∃ p, (p ∈ q ∨ p ∈ P) ∧ p.1 = x := by
    rcases (hinv.vis_iff x).1 hx with h | h
    · rw [List.mem_map] at h
      obtain ⟨p, hp, hpx⟩ := h
      exact ⟨p, Or.inl hp, hpx⟩
    · rw [List.mem_map] at h
      obtain ⟨p, hp, hpx⟩ := h
      exact ⟨p, Or.inr hp, hpx⟩
  obtain ⟨p, hp, rfl⟩ := this
  exact twalk_endpoint (hinv.depth p hp).1.1

/-- with enough fuel the loop ends in a state with an empty queue that satisfies the invariant -/
theorem travLoop_spec : ∀ (fuel : Nat) (q : List (Nat × Nat)) (vis res : List Nat) (P : List (Nat × Nat)),
    TravInv g etype dir flt s md q vis res P → 2 * g.edges.length + 2 ≤ fuel + P.length →
    ∃ vis' res' P', TravInv g etype dir flt s md [] vis' res' P' ∧
      travLoop g etype dir flt s md fuel { queue := q, visited := vis, result := res } = res'.reverse := by
  intro fuel
  induction fuel with
  | zero =>
    intro q vis res P hinv hf
    have h1 := travInv_vis_le hinv
    have h2 := hinv.vis_len
    omega
  | succ fuel ih =>
    intro q vis res P hinv hf
    cases q with
    | nil => exact ⟨vis, res, P, hinv, by simp only [travLoop]⟩
    | cons hd rest =>
      obtain ⟨u, d⟩ := hd
      by_cases hd : md ≤ d
      · obtain ⟨vis', res', P', h1, h2⟩ := ih _ _ _ _ (travInv_step_stop hinv hd)
          (by simp only [List.length_cons]; omega)
        refine ⟨vis', res', P', h1, ?_⟩
        rw [← h2]
        simp only [travLoop, travIncl, ge_iff_le, hd, if_true]
        rfl
      · have hd' : d < md := Nat.lt_of_not_le hd
        obtain ⟨new, hp, hnd, hnew⟩ := travPush_spec (d + 1) (nbrIds g etype dir flt u) rest vis
        obtain ⟨vis', res', P', h1, h2⟩ := ih _ _ _ _ (travInv_step_expand hinv hd' new hnd hnew)
          (by simp only [List.length_cons]; omega)
        refine ⟨vis', res', P', h1, ?_⟩
        rw [← h2]
        simp only [travLoop, travIncl, ge_iff_le, hd, if_false, hp]
        rfl

end loop

/-! ### the theorems -/

/-- what `traverse` returns: a duplicate-free list of processed nodes closed under the invariant -/
theorem traverse_inv (g : Graph) (s : Nat) (dir : Dir) (md : Nat) (etype : Option Nat) (flt : Flt) (r : List Nat)
    (h : traverse g s dir md etype flt = some r) :
    ∃ vis res P, TravInv g etype dir flt s md [] vis res P ∧ r = res.reverse := by
  unfold traverse at h
  split at h
  · exact absurd h (by simp)
  · obtain ⟨vis, res, P, h1, h2⟩ := travLoop_spec (g := g) (etype := etype) (dir := dir) (flt := flt)
      (s := s) (md := md) (bfsFuel g) _ _ _ [] travInv_init (by simp [bfsFuel])
    refine ⟨vis, res, P, h1, ?_⟩
    rw [← h2]
    exact (Option.some.inj h).symm

/-- at the end `visited` is exactly the set of nodes within `md` hops -/
theorem travInv_final_vis {g : Graph} {etype : Option Nat} {dir : Dir} {flt : Flt} {s md : Nat}
    {vis res : List Nat} {P : List (Nat × Nat)} (hinv : TravInv g etype dir flt s md [] vis res P) (v : Nat) :
    v ∈ vis ↔ ∃ n, n ≤ md ∧ TWalk g etype dir flt s v n := by
  constructor
  · intro hv
    rcases (hinv.vis_iff v).1 hv with h | h
    · simp at h
    · rw [List.mem_map] at h
      obtain ⟨p, hp, rfl⟩ := h
      have := hinv.depth p (Or.inr hp)
      exact ⟨p.2, this.2, this.1.1⟩
  · rintro ⟨n, hn, hw⟩
    induction n generalizing v with
    | zero =>
      have := twalk_zero hw
      subst this
      exact hinv.start
    | succ m ih =>
      obtain ⟨y, hy, hyv⟩ := twalk_unsnoc m s v hw
      have hyvis := ih y (by omega) hy
      rcases (hinv.vis_iff y).1 hyvis with h | h
      · simp at h
      · rw [List.mem_map] at h
        obtain ⟨p, hp, rfl⟩ := h
        have hmin := (hinv.depth p (Or.inr hp)).1.2 m hy
        exact hinv.closed p hp (by omega) v hyv

theorem traverse_exact (g : Graph) (s : Nat) (dir : Dir) (md : Nat) (etype : Option Nat) (flt : Flt) (r : List Nat)
    (h : traverse g s dir md etype flt = some r) :
    ∀ v, v ∈ r ↔ (g.hasNode v = true ∧ (v = s ∨ flt.nodeOk v = true) ∧ ∃ n, n ≤ md ∧ TWalk g etype dir flt s v n) := by
  obtain ⟨vis, res, P, hinv, rfl⟩ := traverse_inv g s dir md etype flt r h
  intro v
  rw [List.mem_reverse, hinv.res_eq, List.mem_filter, ← travInv_final_vis hinv v, hinv.vis_iff v]
  simp only [List.map_nil, List.not_mem_nil, false_or, travIncl, Bool.and_eq_true, Bool.or_eq_true, beq_iff_eq]
  constructor
  · rintro ⟨a, b, c⟩; exact ⟨b, c, a⟩
  · rintro ⟨b, c, a⟩; exact ⟨a, b, c⟩

theorem traverse_nodup (g : Graph) (s : Nat) (dir : Dir) (md : Nat) (etype : Option Nat) (flt : Flt) (r : List Nat)
    (h : traverse g s dir md etype flt = some r) : r.Nodup := by
  obtain ⟨vis, res, P, hinv, rfl⟩ := traverse_inv g s dir md etype flt r h
  rw [(List.reverse_perm res).nodup_iff, hinv.res_eq]
  exact hinv.p_nodup.sublist List.filter_sublist

/-! ### non-vacuity: a concrete graph on which `traverse` answers `some _` and cuts at the depth bound -/

/-- 1 → 2 → 3 → 4 (directed), 1 — 5 (undirected), node 6 isolated -/
def travExGraph : Graph :=
  { nodes := [⟨1, none⟩, ⟨2, none⟩, ⟨3, none⟩, ⟨4, none⟩, ⟨5, none⟩, ⟨6, none⟩]
    edges := [⟨10, 1, 2, true, 0, none, none⟩, ⟨11, 2, 3, true, 0, none, none⟩,
              ⟨12, 3, 4, true, 0, none, none⟩, ⟨13, 5, 1, false, 0, none, none⟩] }

example : traverse travExGraph 1 .out 2 none Flt.all = some [1, 2, 5, 3] := by decide
example : traverse travExGraph 3 .inc 5 none Flt.all = some [3, 2, 1, 5] := by decide
example : traverse travExGraph 7 .both 5 none Flt.all = none := by decide
example : 2 ∈ nbrIds travExGraph none .out Flt.all 1 := by decide

end Neumann.Paths
