import NeumannModel.Paths.Spec
/-
  C18 — `find_variable_paths`: the model (`varNbrs`, `varDfs`, `findVariablePaths`) returns exactly the
  paths described by `VarPathOk`, for every graph / config / filter / endpoints.
  Proofs by structural induction on the remaining depth; nothing is enumerated.
-/
namespace Neumann.Paths

/-! ### `ChainOk` equations -/

theorem chainOk_single (g : Graph) (step : Nat → Nat → Edge → Prop) (u : Nat) :
    ChainOk g step [u] [] ↔ True := by
  unfold ChainOk; exact Iff.rfl

theorem chainOk_cons (g : Graph) (step : Nat → Nat → Edge → Prop) (u v : Nat) (ns : List Nat)
    (eid : Nat) (es : List Nat) :
    ChainOk g step (u :: v :: ns) (eid :: es)
      ↔ (∃ e, e ∈ g.edges ∧ e.id = eid ∧ step u v e) ∧ ChainOk g step (v :: ns) es := by
  rw [ChainOk]

theorem chainOk_nil_edges (g : Graph) (step : Nat → Nat → Edge → Prop) (u : Nat) (ns : List Nat) :
    ChainOk g step (u :: ns) [] ↔ ns = [] := by
  cases ns with
  | nil => simp [chainOk_single]
  | cons v ns => unfold ChainOk; simp

theorem chainOk_single_cons (g : Graph) (step : Nat → Nat → Edge → Prop) (u : Nat) (eid : Nat)
    (es : List Nat) : ChainOk g step [u] (eid :: es) ↔ False := by
  unfold ChainOk; simp

/-! ### neighbours -/

theorem joins_inOut {e : Edge} {u v : Nat} (h : e.joins u v) : inOut e u = true := by
  unfold Edge.joins at h; unfold inOut
  rcases h with ⟨h1, _⟩ | ⟨h1, h2, _⟩ <;> simp [*]

theorem joins_inIn {e : Edge} {u v : Nat} (h : e.joins v u) : inIn e u = true := by
  unfold Edge.joins at h; unfold inIn
  rcases h with ⟨_, h1⟩ | ⟨h1, _, h2⟩ <;> simp [*]

/-- for an undirected edge, `joins` is symmetric -/
theorem joins_symm_of_undirected {e : Edge} (hd : e.directed = false) (u v : Nat) :
    e.joins v u ↔ e.joins u v := by
  unfold Edge.joins; simp only [hd, true_and]
  constructor <;> (rintro (⟨a, b⟩ | ⟨a, b⟩) <;> simp [*])

/-- what the closure of the out-part of `varNbrs` yields -/
theorem outFn_iff (etypes : Option (List Nat)) (flt : Flt) (u v eid : Nat) (e : Edge) :
    (if !typesOk etypes e then none
      else if !flt.edgeOk e then none
      else if e.src == u then some (e.dst, e.id)
      else if !e.directed && e.dst == u then some (e.src, e.id)
      else none) = some (v, eid)
      ↔ typesOk etypes e = true ∧ flt.edgeOk e = true ∧ e.id = eid ∧ e.joins u v := by
  unfold Edge.joins
  cases typesOk etypes e <;> cases flt.edgeOk e <;> simp
  by_cases h1 : e.src = u
  · simp [h1]; grind
  · simp [h1]; grind

/-- what the closure of the in-part of `varNbrs` yields -/
theorem inFn_iff (etypes : Option (List Nat)) (dir : Dir) (flt : Flt) (u v eid : Nat) (e : Edge) :
    (if !typesOk etypes e then none
      else if !flt.edgeOk e then none
      else
        let nb := if e.dst == u then some e.src else if !e.directed && e.src == u then some e.dst else none
        match nb with
        | none => none
        | some x => if dir == .both && !e.directed then none else some (x, e.id)) = some (v, eid)
      ↔ typesOk etypes e = true ∧ flt.edgeOk e = true ∧ e.id = eid ∧ e.joins v u ∧
          ¬ (dir = .both ∧ e.directed = false) := by
  unfold Edge.joins
  cases typesOk etypes e <;> cases flt.edgeOk e <;> simp
  by_cases h1 : e.dst = u
  · by_cases h2 : dir = .both <;> cases hd : e.directed <;> simp [h1, h2] <;> grind
  · by_cases h2 : dir = .both <;> cases hd : e.directed <;> simp [h1, h2] <;> grind

theorem mem_varNbrs_iff (g : Graph) (cfg : VarCfg) (flt : Flt) (tgt u v eid : Nat) :
    ((v, eid) ∈ varNbrs g cfg.etypes cfg.dir flt u ∧ (v = tgt ∨ flt.nodeOk v = true))
      ↔ ∃ e, e ∈ g.edges ∧ e.id = eid ∧ VStep g cfg flt tgt u v e := by
  unfold varNbrs VStep
  rw [List.mem_append]
  constructor
  · rintro ⟨hm | hm, hv⟩
    · split at hm
      · rename_i ho
        rw [List.mem_filterMap] at hm
        obtain ⟨e, he, hf⟩ := hm
        rw [outFn_iff] at hf
        obtain ⟨h1, h2, h3, h4⟩ := hf
        simp only [outEdges, List.mem_filter] at he
        exact ⟨e, he.1, h3, he.1, h1, h2, Or.inl ⟨ho, h4⟩, hv⟩
      · simp at hm
    · split at hm
      · rename_i hi
        rw [List.mem_filterMap] at hm
        obtain ⟨e, he, hf⟩ := hm
        obtain ⟨h1, h2, h3, h4, _⟩ := (inFn_iff cfg.etypes cfg.dir flt u v eid e).mp hf
        simp only [inEdges, List.mem_filter] at he
        exact ⟨e, he.1, h3, he.1, h1, h2, Or.inr ⟨hi, h4⟩, hv⟩
      · simp at hm
  · rintro ⟨e, he, hid, _, h1, h2, hj, hv⟩
    refine ⟨?_, hv⟩
    -- the out-part produces the pair whenever `joins u v` and the out direction is on
    have outCase : cfg.dir.hasOut = true → e.joins u v →
        (v, eid) ∈ (if cfg.dir.hasOut = true then
          (outEdges g u).filterMap (fun e =>
            if !typesOk cfg.etypes e then none
            else if !flt.edgeOk e then none
            else if e.src == u then some (e.dst, e.id)
            else if !e.directed && e.dst == u then some (e.src, e.id)
            else none) else []) := by
      intro ho hj
      rw [if_pos ho, List.mem_filterMap]
      refine ⟨e, ?_, ?_⟩
      · simp only [outEdges, List.mem_filter]; exact ⟨he, joins_inOut hj⟩
      · rw [outFn_iff]; exact ⟨h1, h2, hid, hj⟩
    rcases hj with ⟨ho, hj⟩ | ⟨hi, hj⟩
    · exact Or.inl (outCase ho hj)
    · by_cases hskip : cfg.dir = .both ∧ e.directed = false
      · left
        apply outCase
        · rw [hskip.1]; rfl
        · exact (joins_symm_of_undirected hskip.2 u v).mp hj
      · right
        rw [if_pos hi, List.mem_filterMap]
        refine ⟨e, ?_, ?_⟩
        · simp only [inEdges, List.mem_filter]; exact ⟨he, joins_inIn hj⟩
        · exact (inFn_iff cfg.etypes cfg.dir flt u v eid e).mpr ⟨h1, h2, hid, hj, hskip⟩

/-! ### the depth-first enumeration -/

/-- `varDfs … rem cur pn pe vis` returns exactly the paths that extend the (reversed) prefix `pn`/`pe`
    by a chain of `rem` qualifying hops from `cur` to `t`; when cycles are not allowed the new nodes are
    pairwise distinct and avoid `vis`. -/
theorem mem_varDfs_iff (g : Graph) (cfg : VarCfg) (flt : Flt) (t : Nat) (rem cur : Nat)
    (pn pe vis : List Nat) (p : Path) :
    p ∈ varDfs g cfg flt t rem cur pn pe vis ↔
      ∃ ns es, p.nodes = pn.reverse ++ ns ∧ p.edges = pe.reverse ++ es ∧ es.length = rem ∧
        ChainOk g (VStep g cfg flt t) (cur :: ns) es ∧ (cur :: ns).getLast? = some t ∧
        (cfg.allowCycles = false → ns.Nodup ∧ ∀ x, x ∈ ns → x ∉ vis) := by
  induction rem generalizing cur pn pe vis with
  | zero =>
    rw [varDfs]
    constructor
    · intro h
      split at h
      · rename_i hc
        have hc' : cur = t := by simpa using hc
        rw [List.mem_singleton] at h
        subst h
        exact ⟨[], [], by simp, by simp, rfl, (chainOk_single _ _ _).mpr trivial, by simp [hc'], by simp⟩
      · simp at h
    · rintro ⟨ns, es, hn, he, hl, hch, hlast, _⟩
      have hes : es = [] := List.eq_nil_of_length_eq_zero hl
      subst hes
      have hns : ns = [] := (chainOk_nil_edges _ _ _ _).mp hch
      subst hns
      have hc : cur = t := by simpa using hlast
      have hp : p = { nodes := pn.reverse, edges := pe.reverse } := by
        cases p; simp at hn he; simp [hn, he]
      simp [hc, hp]
  | succ rem ih =>
    rw [varDfs, List.mem_flatMap]
    constructor
    · rintro ⟨⟨nb, eid⟩, hmem, hp⟩
      dsimp only at hp
      split at hp
      · simp at hp
      · rename_i hvis
        split at hp
        · simp at hp
        · rename_i hnode
          have hnode' : nb = t ∨ flt.nodeOk nb = true := by
            cases hk : flt.nodeOk nb
            · left; simpa [hk] using hnode
            · right; rfl
          obtain ⟨ns', es', hn, he, hl, hch, hlast, hnd⟩ := (ih _ _ _ _).mp hp
          refine ⟨nb :: ns', eid :: es', ?_, ?_, ?_, ?_, ?_, ?_⟩
          · rw [hn]; simp
          · rw [he]; simp
          · simp [hl]
          · exact (chainOk_cons _ _ _ _ _ _ _).mpr
              ⟨(mem_varNbrs_iff g cfg flt t cur nb eid).mp ⟨hmem, hnode'⟩, hch⟩
          · rw [List.getLast?_cons_cons]; exact hlast
          · intro hac
            have hnv : nb ∉ vis := by simpa [hac] using hvis
            obtain ⟨hnd1, hnd2⟩ := hnd hac
            simp only [hac, Bool.false_eq_true, if_false] at hnd2
            refine ⟨List.nodup_cons.mpr ⟨fun hin => ?_, hnd1⟩, ?_⟩
            · exact hnd2 nb hin (List.mem_cons_self)
            · intro x hx
              rcases List.mem_cons.mp hx with rfl | hx
              · exact hnv
              · exact fun hxv => hnd2 x hx (List.mem_cons_of_mem _ hxv)
    · rintro ⟨ns, es, hn, he, hl, hch, hlast, hnd⟩
      cases es with
      | nil => simp at hl
      | cons eid es' =>
        cases ns with
        | nil => exact absurd hch (by rw [chainOk_single_cons]; exact id)
        | cons nb ns' =>
          obtain ⟨hstep, hch'⟩ := (chainOk_cons _ _ _ _ _ _ _).mp hch
          obtain ⟨hmem, hnode'⟩ := (mem_varNbrs_iff g cfg flt t cur nb eid).mpr hstep
          refine ⟨(nb, eid), hmem, ?_⟩
          dsimp only
          have hvis : ¬ ((!cfg.allowCycles && vis.contains nb) = true) := by
            cases hac : cfg.allowCycles
            · have := (hnd hac).2 nb (List.mem_cons_self)
              simpa using this
            · simp
          have hnode : ¬ ((nb != t && !flt.nodeOk nb) = true) := by
            rcases hnode' with h | h <;> simp [h]
          rw [if_neg hvis, if_neg hnode]
          apply (ih _ _ _ _).mpr
          refine ⟨ns', es', ?_, ?_, ?_, hch', ?_, ?_⟩
          · rw [hn]; simp
          · rw [he]; simp
          · simpa using hl
          · rw [List.getLast?_cons_cons] at hlast; exact hlast
          · intro hac
            obtain ⟨hnd1, hnd2⟩ := hnd hac
            simp only [hac, Bool.false_eq_true, if_false]
            obtain ⟨hnotin, hnd1'⟩ := List.nodup_cons.mp hnd1
            refine ⟨hnd1', ?_⟩
            intro x hx hxv
            rcases List.mem_cons.mp hxv with rfl | hxv
            · exact hnotin hx
            · exact hnd2 x (List.mem_cons_of_mem _ hx) hxv

/-! ### the whole query -/

/-- `VarPathOk` split by hop count: the zero-hop path, or a result of the DFS at some admissible depth -/
theorem varPathOk_iff (g : Graph) (cfg : VarCfg) (flt : Flt) (s t : Nat) (p : Path) :
    VarPathOk g cfg flt s t p ↔
      (s = t ∧ cfg.minHops = 0 ∧ p = { nodes := [s], edges := [] }) ∨
      (∃ d, max cfg.minHops 1 ≤ d ∧ d ≤ cfg.maxHops ∧
        p ∈ varDfs g cfg flt t d s [s] [] (if cfg.allowCycles then [] else [s])) := by
  constructor
  · rintro ⟨hh, hl, hch, hmin, hmax, hnd⟩
    obtain ⟨nodes, edges⟩ := p
    dsimp only at hh hl hch hmin hmax hnd
    cases nodes with
    | nil => simp at hh
    | cons s' ns =>
      have hs : s' = s := by simpa using hh
      subst hs
      cases edges with
      | nil =>
        left
        have hns : ns = [] := (chainOk_nil_edges _ _ _ _).mp hch
        subst hns
        have hst : s' = t := by simpa using hl
        refine ⟨hst, ?_, rfl⟩
        simpa using hmin
      | cons eid es =>
        right
        refine ⟨(eid :: es).length, ?_, hmax, ?_⟩
        · simp only [List.length_cons] at hmin ⊢; omega
        · apply (mem_varDfs_iff _ _ _ _ _ _ _ _ _ _).mpr
          refine ⟨ns, eid :: es, by simp, by simp, rfl, hch, hl, ?_⟩
          intro hac
          obtain ⟨hnotin, hnd'⟩ := List.nodup_cons.mp (hnd hac)
          refine ⟨hnd', ?_⟩
          intro x hx hxv
          simp only [hac, Bool.false_eq_true, if_false, List.mem_singleton] at hxv
          subst hxv
          exact hnotin hx
  · rintro (⟨hst, hmin, hp⟩ | ⟨d, hlo, hhi, hmem⟩)
    · subst hp; subst hst
      refine ⟨rfl, rfl, (chainOk_single _ _ _).mpr trivial, ?_, ?_, ?_⟩
      · simp [hmin]
      · simp
      · intro _; simp
    · obtain ⟨ns, es, hn, he, hl, hch, hlast, hnd⟩ := (mem_varDfs_iff _ _ _ _ _ _ _ _ _ _).mp hmem
      have hn' : p.nodes = s :: ns := by simpa using hn
      have he' : p.edges = es := by simpa using he
      refine ⟨?_, ?_, ?_, ?_, ?_, ?_⟩
      · rw [hn']; rfl
      · rw [hn']; exact hlast
      · rw [hn', he']; exact hch
      · rw [he', hl]; omega
      · rw [he', hl]; exact hhi
      · intro hac
        obtain ⟨hnd1, hnd2⟩ := hnd hac
        simp only [hac, Bool.false_eq_true, if_false, List.mem_singleton] at hnd2
        rw [hn']
        exact List.nodup_cons.mpr ⟨fun hin => hnd2 s hin rfl, hnd1⟩

theorem varpaths_exact (g : Graph) (cfg : VarCfg) (flt : Flt) (s t : Nat) (ps : List Path)
    (h : findVariablePaths g cfg flt s t = .ok ps) :
    ∀ p, p ∈ ps ↔ VarPathOk g cfg flt s t p := by
  intro p
  rw [varPathOk_iff]
  unfold findVariablePaths at h
  split at h
  · cases h
  · split at h
    · cases h
    · dsimp only at h
      split at h
      · rename_i hz
        simp only [Bool.and_eq_true, beq_iff_eq] at hz
        obtain ⟨⟨hst, hmin⟩, hmax⟩ := hz
        injection h with h
        subst h
        simp only [hst, hmin, beq_self_eq_true, Bool.and_self, if_true, List.mem_singleton]
        constructor
        · intro hp; exact Or.inl ⟨trivial, trivial, hp⟩
        · rintro (⟨_, _, hp⟩ | ⟨d, hlo, hhi, _⟩)
          · exact hp
          · omega
      · injection h with h
        subst h
        rw [List.mem_append, List.mem_flatMap]
        constructor
        · rintro (hz | ⟨d, hd, hp⟩)
          · left
            split at hz
            · rename_i hc
              simp only [Bool.and_eq_true, beq_iff_eq] at hc
              exact ⟨hc.1, hc.2, List.mem_singleton.mp hz⟩
            · simp at hz
          · right
            simp only [List.mem_filter, List.mem_range, decide_eq_true_eq] at hd
            exact ⟨d, hd.2, by omega, hp⟩
        · rintro (⟨hst, hmin, hp⟩ | ⟨d, hlo, hhi, hp⟩)
          · left
            simp [hst, hmin, hp]
          · right
            refine ⟨d, ?_, hp⟩
            simp only [List.mem_filter, List.mem_range, decide_eq_true_eq]
            exact ⟨by omega, hlo⟩

theorem varpaths_error_iff (g : Graph) (cfg : VarCfg) (flt : Flt) (s t : Nat) :
    (∃ e, findVariablePaths g cfg flt s t = .error e) ↔ (g.hasNode s = false ∨ g.hasNode t = false) := by
  unfold findVariablePaths
  cases hs : g.hasNode s
  · simp
  · cases ht : g.hasNode t
    · simp
    · simp only [Bool.not_true, Bool.false_eq_true, if_false]
      constructor
      · rintro ⟨e, he⟩
        split at he <;> cases he
      · rintro (h | h) <;> cases h

/-! ### non-vacuity -/

/-- nodes 1,2,3; directed edges 10: 1→2, 11: 2→3, 12: 1→3 -/
def exGraph : Graph :=
  { nodes := [⟨1, none⟩, ⟨2, none⟩, ⟨3, none⟩]
    edges := [⟨10, 1, 2, true, 0, none, none⟩, ⟨11, 2, 3, true, 0, none, none⟩,
              ⟨12, 1, 3, true, 0, none, none⟩] }

/-- the hypothesis of `varpaths_exact` is satisfiable with a non-trivial answer: two matches 1 ⇝ 3 -/
example :
    (findVariablePaths exGraph ⟨1, 2, .out, none, false⟩ Flt.all 1 3).toOption
      = some [⟨[1, 3], [12]⟩, ⟨[1, 2, 3], [10, 11]⟩] := by decide

/-- undirected triangle (ids 20, 21, 22), `Both`, cycles allowed, 0..=3 hops from 1 back to 1:
    the zero-hop path plus the two orientations of the triangle (each undirected edge offered once) -/
def exTri : Graph :=
  { nodes := [⟨1, none⟩, ⟨2, none⟩, ⟨3, none⟩]
    edges := [⟨20, 1, 2, false, 0, none, none⟩, ⟨21, 2, 3, false, 0, none, none⟩,
              ⟨22, 3, 1, false, 0, none, none⟩] }

example :
    (findVariablePaths exTri ⟨0, 3, .both, none, true⟩ Flt.all 1 1).toOption
      = some [⟨[1], []⟩, ⟨[1, 2, 1], [20, 20]⟩, ⟨[1, 3, 1], [22, 22]⟩,
             ⟨[1, 2, 3, 1], [20, 21, 22]⟩, ⟨[1, 3, 2, 1], [22, 21, 20]⟩] := by decide

/-- `varpaths_exact` used forwards: a listed result is a genuine match … -/
example : VarPathOk exGraph ⟨1, 2, .out, none, false⟩ Flt.all 1 3 ⟨[1, 2, 3], [10, 11]⟩ :=
  (varpaths_exact exGraph ⟨1, 2, .out, none, false⟩ Flt.all 1 3 _ rfl _).mp (by decide)

/-- … and backwards: a non-listed candidate (edge 11 does not leave node 1) is not a match -/
example : ¬ VarPathOk exGraph ⟨1, 2, .out, none, false⟩ Flt.all 1 3 ⟨[1, 3], [11]⟩ :=
  fun h => absurd ((varpaths_exact exGraph ⟨1, 2, .out, none, false⟩ Flt.all 1 3 _ rfl _).mpr h) (by decide)

/-- the error side: an endpoint that does not exist -/
example : findVariablePaths exGraph ⟨1, 2, .out, none, false⟩ Flt.all 1 7 = .error (.nodeNotFound 7) :=
  rfl

end Neumann.Paths

