import NeumannModel.Paths.SccProofs
/-
  C18 — `articulation_points` / `bridges`: the low-link DFS model of `AlgoModel.lean`
  (`bcVisit` / `bcNbrs` / `bcAll`) answers exactly the cut vertices and the bridge pairs of the simple
  undirected view.

  Part 1: abstract notions (parent forests `BcAnc`, walks `BcWalk`, the two tests `BcApCond` / `BcBrCond`
          read off the final maps, `BcForest` = what the finished search knows: a spanning forest, no
          cross adjacencies, local low-link facts).
  Part 2: the fuel-bounded mutual recursion equals structurally recursive functions over an abstract
          adjacency (`bcVisitF`, `bcNbrsF`, `bcAllF`, `bcFinal_eq_F`).
  Part 3: the invariant `BcInv` relative to the ghost path of active nodes (finished = discovered and not
          on the path): discovery numbers injective and below the clock, parent entries are adjacencies
          from smaller to larger numbers, every adjacency of a finished node joins an ancestor and a
          descendant, `low` of a finished node is a lower bound of the numbers of its non-parent
          neighbours and of the `low` of its children and is attained, the two answer lists contain
          exactly what the tests say about finished children, bridges without repetition.  Loop state
          `BcLoop`, mutual post-conditions `bcNbrsF_spec` / `bcVisitF_spec` by induction on the fuel
          (adequate as soon as it exceeds the number of undiscovered nodes), `bcFinalF_spec`,
          `bcInv_forest`.
  Part 4: graph theory over `BcForest`: the tests are exact (`bcA_ap_iff`, `bcB_br_iff`).
  Part 5: `bicon_fuel_adequate`, `ap_exact` (`ap_sound`, `ap_complete`), `bridges_exact`
          (`bridges_sound`, `bridges_complete`), `bridges_nodup`, closed examples.
-/
namespace Neumann.Paths

/-! ### abstract notions: parent forests, walks, the two flag conditions -/

/-- `BcAnc par a c`: `a` is an ancestor of `c` (or `c` itself) in the forest of the parent function -/
inductive BcAnc (par : Nat → Option Nat) : Nat → Nat → Prop
  | refl (a : Nat) : BcAnc par a a
  | step {a p c : Nat} : BcAnc par a p → par c = some p → BcAnc par a c

/-- reflexive-transitive closure of a step relation -/
inductive BcWalk (R : Nat → Nat → Prop) : Nat → Nat → Prop
  | refl (a : Nat) : BcWalk R a a
  | step {a b c : Nat} : R a b → BcWalk R b c → BcWalk R a c

/-- plain adjacency step -/
def BcRadj (adj : Nat → List Nat) (u v : Nat) : Prop := v ∈ adj u
/-- adjacency step that does not touch `x` -/
def BcRav (adj : Nat → List Nat) (x : Nat) (u v : Nat) : Prop := v ∈ adj u ∧ u ≠ x ∧ v ≠ x
/-- adjacency step other than the direct one between `a` and `b` -/
def BcRwo (adj : Nat → List Nat) (a b : Nat) (u v : Nat) : Prop :=
  v ∈ adj u ∧ ¬ ((u = a ∧ v = b) ∨ (u = b ∧ v = a))

def BcArt (adj : Nat → List Nat) (x : Nat) : Prop :=
  ∃ a b, a ≠ x ∧ b ≠ x ∧ BcWalk (BcRadj adj) x a ∧ BcWalk (BcRadj adj) x b ∧ ¬ BcWalk (BcRav adj x) a b

def BcBridge (adj : Nat → List Nat) (a b : Nat) : Prop :=
  b ∈ adj a ∧ ¬ BcWalk (BcRwo adj a b) a b

/-- the test of the engine for `x`, read off the final maps; `blk` = finished nodes -/
def BcApCond (par : Nat → Option Nat) (D L : Nat → Nat) (blk : Nat → Prop) (x : Nat) : Prop :=
  (par x = none ∧ ∃ c1 c2, c1 ≠ c2 ∧ blk c1 ∧ blk c2 ∧ par c1 = some x ∧ par c2 = some x) ∨
  (∃ p c, par x = some p ∧ blk c ∧ par c = some x ∧ D x ≤ L c)

def BcBrCond (par : Nat → Option Nat) (D L : Nat → Nat) (blk : Nat → Prop) (e : Nat × Nat) : Prop :=
  ∃ u v, blk v ∧ par v = some u ∧ D u < L v ∧ e = (min u v, max u v)

/-- what the finished search knows: a spanning forest without cross adjacencies and local low-link facts -/
structure BcForest (adj : Nat → List Nat) (nodes : List Nat) (par : Nat → Option Nat) (D L : Nat → Nat) :
    Prop where
  sym : ∀ u v, u ∈ nodes → v ∈ adj u → u ∈ adj v
  irr : ∀ u v, v ∈ adj u → v ≠ u
  adjn : ∀ u v, v ∈ adj u → v ∈ nodes
  inj : ∀ x y, x ∈ nodes → y ∈ nodes → D x = D y → x = y
  bnd : ∃ T, ∀ x, x ∈ nodes → D x < T
  tree : ∀ c p, par c = some p → c ∈ nodes ∧ p ∈ nodes ∧ c ∈ adj p ∧ D p < D c
  cmp : ∀ y w, y ∈ nodes → w ∈ adj y → BcAnc par y w ∨ BcAnc par w y
  lowa : ∀ y w, y ∈ nodes → w ∈ adj y → par y ≠ some w → L y ≤ D w
  lowc : ∀ c y, par c = some y → L y ≤ L c
  loww : ∀ y, y ∈ nodes → L y = D y ∨ (∃ w, w ∈ adj y ∧ par y ≠ some w ∧ L y = D w) ∨
    (∃ c, par c = some y ∧ L y = L c)


/-! ### the algorithm as structurally recursive functions over an abstract adjacency -/

/-- `parent[v] = u` -/
def bcSetPar (u v : Nat) (st : BcSt) : BcSt := { st with parent := (v, u) :: st.parent }

/-- the caller's part before the recursive call: nothing for a root -/
def bcSetParO (po : Option Nat) (v : Nat) (st : BcSt) : BcSt :=
  match po with
  | none => st
  | some u => bcSetPar u v st

/-- entry of `dfs(u)` -/
def bcPush (u : Nat) (st : BcSt) : BcSt :=
  { st with disc := (u, st.time) :: st.disc, low := (u, st.time) :: st.low, time := st.time + 1 }

/-- what `dfs(u)` does after the recursive call for its child `v` returned -/
def bcRetire (u v ch : Nat) (st' : BcSt) : BcSt :=
  let lowV := tjNum st'.low v
  let lowU := tjNum st'.low u
  let discU := tjNum st'.disc u
  let ap : Bool := if (nmGet st'.parent u).isNone then decide (ch + 1 > 1) else decide (lowV ≥ discU)
  { st' with low := (u, min lowU lowV) :: st'.low,
             aps := if ap then u :: st'.aps else st'.aps,
             bridges := if lowV > discU then (min u v, max u v) :: st'.bridges else st'.bridges }

/-- an already discovered neighbour that is not the parent -/
def bcBack (u discV : Nat) (st : BcSt) : BcSt :=
  if discV < tjNum st.low u then { st with low := (u, discV) :: st.low } else st

def bcNbrsF (visit : Nat → BcSt → BcSt) (u : Nat) : List Nat → Nat → BcSt → BcSt
  | [], _, st => st
  | v :: vs, ch, st =>
    match nmGet st.disc v with
    | none => bcNbrsF visit u vs (ch + 1) (bcRetire u v ch (visit v (bcSetPar u v st)))
    | some discV =>
      if nmGet st.parent u != some v then bcNbrsF visit u vs ch (bcBack u discV st)
      else bcNbrsF visit u vs ch st

def bcVisitF (adj : Nat → List Nat) : Nat → Nat → BcSt → BcSt
  | 0, _, st => st
  | fuel + 1, u, st => bcNbrsF (bcVisitF adj fuel) u (adj u) 0 (bcPush u st)

def bcAllF (visit : Nat → BcSt → BcSt) : List Nat → BcSt → BcSt
  | [], st => st
  | n :: ns, st =>
    match nmGet st.disc n with
    | none => bcAllF visit ns (visit n st)
    | some _ => bcAllF visit ns st

theorem bcNbrs_eq_F (g : Graph) (etype : Option Nat) (fuel : Nat) (visit : Nat → BcSt → BcSt)
    (hv : ∀ w st, bcVisit g etype fuel w st = visit w st) (u : Nat) :
    ∀ vs ch st, bcNbrs g etype fuel u vs ch st = bcNbrsF visit u vs ch st := by
  intro vs
  induction vs with
  | nil => intro ch st; rw [bcNbrs, bcNbrsF]
  | cons v vs ih =>
    intro ch st
    rw [bcNbrs, bcNbrsF]
    cases h : nmGet st.disc v with
    | none =>
      simp only [hv, ih]
      rfl
    | some k =>
      simp only [ih, bcBack]
      by_cases h1 : (nmGet st.parent u != some v) = true
      · rw [if_pos h1, if_pos h1]
        by_cases h2 : k < tjNum st.low u
        · have h2' : k < (nmGet st.low u).getD 0 := h2
          rw [if_pos h2, if_pos h2']
        · have h2' : ¬ k < (nmGet st.low u).getD 0 := h2
          rw [if_neg h2, if_neg h2']
      · rw [if_neg h1, if_neg h1]

theorem bcVisit_eq_F (g : Graph) (etype : Option Nat) :
    ∀ fuel v st, bcVisit g etype fuel v st = bcVisitF (nbrSet g etype .both) fuel v st := by
  intro fuel
  induction fuel with
  | zero => intro v st; rw [bcVisit, bcVisitF]
  | succ fuel ih =>
    intro v st
    rw [bcVisit, bcVisitF]
    simp only [bcNbrs_eq_F g etype fuel _ ih]
    rfl

theorem bcAll_eq_F (g : Graph) (etype : Option Nat) (fuel : Nat) :
    ∀ ns st, bcAll g etype fuel ns st = bcAllF (bcVisitF (nbrSet g etype .both) fuel) ns st := by
  intro ns
  induction ns with
  | nil => intro st; rfl
  | cons n ns ih =>
    intro st
    rw [bcAll, bcAllF]
    cases h : nmGet st.disc n with
    | none => simp only [ih, bcVisit_eq_F]
    | some k => simp only [ih]

def bcInit : BcSt := { time := 0, disc := [], low := [], parent := [], aps := [], bridges := [] }

/-- the final state of the run on a graph -/
def bcFinalF (g : Graph) (etype : Option Nat) : BcSt :=
  bcAllF (bcVisitF (nbrSet g etype .both) (g.nodes.length + 1)) (g.nodes.map (·.id)) bcInit

theorem bcFinal_eq_F (g : Graph) (etype : Option Nat) : bcFinal g etype = bcFinalF g etype := by
  unfold bcFinal bcFinalF
  rw [bcAll_eq_F]
  rfl

/-! ### the invariant -/

structure BcAdjOk (adj : Nat → List Nat) (nodes : List Nat) : Prop where
  sym : ∀ u v, u ∈ nodes → v ∈ adj u → u ∈ adj v
  irr : ∀ u v, v ∈ adj u → v ≠ u
  adjn : ∀ u v, v ∈ adj u → v ∈ nodes

/-- finished: discovered and not on the ghost path of active nodes -/
def bcBlk (path : List Nat) (st : BcSt) (x : Nat) : Prop := nmGet st.disc x ≠ none ∧ x ∉ path

/-- the path of active nodes, newest first: every entry's parent is the next entry, the last one is a root -/
def BcChain (par : Nat → Option Nat) : List Nat → Prop
  | [] => True
  | z :: r => par z = r.head? ∧ BcChain par r

/-- what is known about a neighbour `w` of `y` once the loop of `y` has handled it (`l` = `low[y]`) -/
def BcWOk (st : BcSt) (y l w : Nat) : Prop :=
  nmGet st.disc w ≠ none ∧
  (BcAnc (nmGet st.parent) y w ∨ BcAnc (nmGet st.parent) w y) ∧
  (nmGet st.parent y ≠ some w → l ≤ tjNum st.disc w)

/-- `l` = `low[y]` is below the low values of the finished children and is attained -/
structure BcLowCW (adj : Nat → List Nat) (path : List Nat) (st : BcSt) (y l : Nat) : Prop where
  le : l ≤ tjNum st.disc y
  lowc : ∀ c, bcBlk path st c → nmGet st.parent c = some y → l ≤ tjNum st.low c
  loww : l = tjNum st.disc y ∨
    (∃ w, w ∈ adj y ∧ nmGet st.disc w ≠ none ∧ nmGet st.parent y ≠ some w ∧ l = tjNum st.disc w) ∨
    (∃ c, bcBlk path st c ∧ nmGet st.parent c = some y ∧ l = tjNum st.low c)

structure BcInvD (adj : Nat → List Nat) (nodes : List Nat) (path : List Nat) (st : BcSt) : Prop where
  node : ∀ x, nmGet st.disc x ≠ none → x ∈ nodes
  lt : ∀ x k, nmGet st.disc x = some k → k < st.time
  inj : ∀ x y k, nmGet st.disc x = some k → nmGet st.disc y = some k → x = y
  tree : ∀ c p, nmGet st.parent c = some p →
    nmGet st.disc c ≠ none ∧ nmGet st.disc p ≠ none ∧ c ∈ adj p ∧ tjNum st.disc p < tjNum st.disc c
  chain : BcChain (nmGet st.parent) path
  pathd : ∀ z, z ∈ path → nmGet st.disc z ≠ none

structure BcInvB (adj : Nat → List Nat) (path : List Nat) (st : BcSt) : Prop where
  badj : ∀ y, bcBlk path st y → ∀ w, w ∈ adj y → BcWOk st y (tjNum st.low y) w
  blow : ∀ y, bcBlk path st y → BcLowCW adj path st y (tjNum st.low y)
  aps : ∀ x, x ∈ st.aps ↔
    BcApCond (nmGet st.parent) (tjNum st.disc) (tjNum st.low) (bcBlk path st) x
  brs : ∀ e, e ∈ st.bridges ↔
    BcBrCond (nmGet st.parent) (tjNum st.disc) (tjNum st.low) (bcBlk path st) e
  brnd : st.bridges.Nodup

structure BcInv (adj : Nat → List Nat) (nodes : List Nat) (path : List Nat) (st : BcSt) : Prop where
  d : BcInvD adj nodes path st
  b : BcInvB adj path st

theorem bcNum_congr {m m' : NatMap} {x : Nat} (h : nmGet m' x = nmGet m x) : tjNum m' x = tjNum m x := by
  unfold tjNum; rw [h]

theorem bcAnc_mono {par par' : Nat → Option Nat} (h : ∀ c p, par c = some p → par' c = some p) {a b : Nat}
    (hab : BcAnc par a b) : BcAnc par' a b := by
  induction hab with
  | refl => exact .refl _
  | step _ hp ih => exact .step ih (h _ _ hp)

theorem bcAnc_trans {par : Nat → Option Nat} {a b c : Nat} (h1 : BcAnc par a b) (h2 : BcAnc par b c) :
    BcAnc par a c := by
  induction h2 with
  | refl => exact h1
  | step _ hp ih => exact .step ih hp

theorem bcChain_congr {par par' : Nat → Option Nat} : ∀ (path : List Nat),
    (∀ z, z ∈ path → par' z = par z) → BcChain par path → BcChain par' path := by
  intro path
  induction path with
  | nil => intro _ _; exact True.intro
  | cons z r ih =>
    intro h hc
    exact ⟨by rw [h z List.mem_cons_self]; exact hc.1, ih (fun y hy => h y (List.mem_cons_of_mem _ hy)) hc.2⟩

/-- every active node is an ancestor of the newest one -/
theorem bcChain_anc {par : Nat → Option Nat} : ∀ (path : List Nat) (u : Nat) (rest : List Nat),
    path = u :: rest → BcChain par path → ∀ w, w ∈ path → BcAnc par w u := by
  intro path
  induction path with
  | nil => intro u rest h; exact absurd h (by simp)
  | cons z r ih =>
    intro u rest h hc w hw
    simp only [List.cons.injEq] at h
    rcases h with ⟨rfl, rfl⟩
    rcases List.mem_cons.1 hw with h1 | h1
    · subst h1; exact .refl _
    · cases r with
      | nil => simp at h1
      | cons z' r' =>
        have := ih z' r' rfl hc.2 w h1
        exact .step this hc.1

theorem BcApCond.congr {par par' : Nat → Option Nat} {D D' L L' : Nat → Nat} {blk blk' : Nat → Prop}
    (h1 : ∀ c, blk c → blk' c ∧ par' c = par c ∧ L' c = L c)
    (h2 : ∀ c x, blk c → par c = some x → par' x = par x ∧ D' x = D x) {x : Nat}
    (h : BcApCond par D L blk x) : BcApCond par' D' L' blk' x := by
  rcases h with ⟨hr, c1, c2, hne, b1, b2, p1, p2⟩ | ⟨p, c, hp, bc, pc, hle⟩
  · left
    have e1 := h1 c1 b1
    have e2 := h1 c2 b2
    exact ⟨by rw [(h2 c1 x b1 p1).1]; exact hr, c1, c2, hne, e1.1, e2.1, by rw [e1.2.1]; exact p1,
      by rw [e2.2.1]; exact p2⟩
  · right
    have e := h1 c bc
    have e' := h2 c x bc pc
    exact ⟨p, c, by rw [e'.1]; exact hp, e.1, by rw [e.2.1]; exact pc, by rw [e'.2, e.2.2]; exact hle⟩

theorem BcBrCond.congr {par par' : Nat → Option Nat} {D D' L L' : Nat → Nat} {blk blk' : Nat → Prop}
    (h1 : ∀ c, blk c → blk' c ∧ par' c = par c ∧ L' c = L c)
    (h2 : ∀ c x, blk c → par c = some x → par' x = par x ∧ D' x = D x) {e : Nat × Nat}
    (h : BcBrCond par D L blk e) : BcBrCond par' D' L' blk' e := by
  rcases h with ⟨u, v, bv, pv, hlt, he⟩
  have e1 := h1 v bv
  have e2 := h2 v u bv pv
  exact ⟨u, v, e1.1, by rw [e1.2.1]; exact pv, by rw [e2.2, e1.2.2]; exact hlt, he⟩

/-- a step that keeps the set of finished nodes and everything the invariant reads about them -/
structure BcFrame (path : List Nat) (st : BcSt) (path' : List Nat) (st' : BcSt) : Prop where
  disc : ∀ x, nmGet st.disc x ≠ none → nmGet st'.disc x = nmGet st.disc x
  par : ∀ x, nmGet st.disc x ≠ none → nmGet st'.parent x = nmGet st.parent x
  low : ∀ x, bcBlk path st x → nmGet st'.low x = nmGet st.low x
  blk : ∀ x, bcBlk path' st' x ↔ bcBlk path st x
  aps : st'.aps = st.aps
  brs : st'.bridges = st.bridges

theorem BcInvD.par_mono {adj : Nat → List Nat} {nodes path : List Nat} {st st' : BcSt}
    (hd : BcInvD adj nodes path st)
    (hpar : ∀ x, nmGet st.disc x ≠ none → nmGet st'.parent x = nmGet st.parent x) :
    ∀ c p, nmGet st.parent c = some p → nmGet st'.parent c = some p := by
  intro c p h
  rw [hpar c (hd.tree c p h).1]; exact h

theorem BcWOk.mono {adj : Nat → List Nat} {nodes path : List Nat} {st st' : BcSt} {y l l' w : Nat}
    (hd : BcInvD adj nodes path st)
    (hdisc : ∀ x, nmGet st.disc x ≠ none → nmGet st'.disc x = nmGet st.disc x)
    (hpar : ∀ x, nmGet st.disc x ≠ none → nmGet st'.parent x = nmGet st.parent x)
    (hy : nmGet st.disc y ≠ none) (hl : l' ≤ l) (h : BcWOk st y l w) : BcWOk st' y l' w := by
  rcases h with ⟨h1, h2, h3⟩
  have hm := hd.par_mono hpar
  refine ⟨by rw [hdisc w h1]; exact h1, ?_, ?_⟩
  · rcases h2 with h2 | h2
    · exact .inl (bcAnc_mono hm h2)
    · exact .inr (bcAnc_mono hm h2)
  · intro hne
    rw [hpar y hy] at hne
    rw [bcNum_congr (hdisc w h1)]
    have := h3 hne
    omega

theorem BcLowCW.frame {adj : Nat → List Nat} {path path' : List Nat} {st st' : BcSt} {y l : Nat}
    (F : BcFrame path st path' st') (hy : nmGet st.disc y ≠ none) (h : BcLowCW adj path st y l) :
    BcLowCW adj path' st' y l := by
  refine ⟨by rw [bcNum_congr (F.disc y hy)]; exact h.le, ?_, ?_⟩
  · intro c hc hp
    have hc' := (F.blk c).1 hc
    rw [F.par c hc'.1] at hp
    rw [bcNum_congr (F.low c hc')]
    exact h.lowc c hc' hp
  · rcases h.loww with h1 | ⟨w, hw, hwd, hne, hl⟩ | ⟨c, hc, hp, hl⟩
    · left; rw [bcNum_congr (F.disc y hy)]; exact h1
    · right; left
      exact ⟨w, hw, by rw [F.disc w hwd]; exact hwd, by rw [F.par y hy]; exact hne,
        by rw [bcNum_congr (F.disc w hwd)]; exact hl⟩
    · right; right
      exact ⟨c, (F.blk c).2 hc, by rw [F.par c hc.1]; exact hp, by rw [bcNum_congr (F.low c hc)]; exact hl⟩

theorem BcInvB.frame {adj : Nat → List Nat} {nodes path path' : List Nat} {st st' : BcSt}
    (hd : BcInvD adj nodes path st) (hb : BcInvB adj path st) (F : BcFrame path st path' st') :
    BcInvB adj path' st' := by
  have h1 : ∀ c, bcBlk path st c → bcBlk path' st' c ∧ nmGet st'.parent c = nmGet st.parent c ∧
      tjNum st'.low c = tjNum st.low c :=
    fun c hc => ⟨(F.blk c).2 hc, F.par c hc.1, bcNum_congr (F.low c hc)⟩
  have h2 : ∀ c x, bcBlk path st c → nmGet st.parent c = some x →
      nmGet st'.parent x = nmGet st.parent x ∧ tjNum st'.disc x = tjNum st.disc x :=
    fun c x _ hp => ⟨F.par x (hd.tree c x hp).2.1, bcNum_congr (F.disc x (hd.tree c x hp).2.1)⟩
  have h1' : ∀ c, bcBlk path' st' c → bcBlk path st c ∧ nmGet st.parent c = nmGet st'.parent c ∧
      tjNum st.low c = tjNum st'.low c :=
    fun c hc => ⟨(F.blk c).1 hc, (F.par c ((F.blk c).1 hc).1).symm, (bcNum_congr (F.low c ((F.blk c).1 hc))).symm⟩
  have h2' : ∀ c x, bcBlk path' st' c → nmGet st'.parent c = some x →
      nmGet st.parent x = nmGet st'.parent x ∧ tjNum st.disc x = tjNum st'.disc x := by
    intro c x hc hp
    have hc' := (F.blk c).1 hc
    rw [F.par c hc'.1] at hp
    have hx := (hd.tree c x hp).2.1
    exact ⟨(F.par x hx).symm, (bcNum_congr (F.disc x hx)).symm⟩
  refine ⟨?_, ?_, ?_, ?_, ?_⟩
  · intro y hy w hw
    have hy' := (F.blk y).1 hy
    rw [bcNum_congr (F.low y hy')]
    exact (hb.badj y hy' w hw).mono hd F.disc F.par hy'.1 (Nat.le_refl _)
  · intro y hy
    have hy' := (F.blk y).1 hy
    rw [bcNum_congr (F.low y hy')]
    exact (hb.blow y hy').frame F hy'.1
  · intro x
    rw [F.aps, hb.aps x]
    exact ⟨BcApCond.congr h1 h2, BcApCond.congr h1' h2'⟩
  · intro e
    rw [F.brs, hb.brs e]
    exact ⟨BcBrCond.congr h1 h2, BcBrCond.congr h1' h2'⟩
  · rw [F.brs]; exact hb.brnd

/-! ### entering `dfs(v)` -/

theorem bcPushO_disc (po : Option Nat) (v : Nat) (st : BcSt) :
    (bcPush v (bcSetParO po v st)).disc = (v, st.time) :: st.disc := by cases po <;> rfl

theorem bcPushO_low (po : Option Nat) (v : Nat) (st : BcSt) :
    (bcPush v (bcSetParO po v st)).low = (v, st.time) :: st.low := by cases po <;> rfl

theorem bcPushO_time (po : Option Nat) (v : Nat) (st : BcSt) :
    (bcPush v (bcSetParO po v st)).time = st.time + 1 := by cases po <;> rfl

theorem bcPushO_aps (po : Option Nat) (v : Nat) (st : BcSt) :
    (bcPush v (bcSetParO po v st)).aps = st.aps := by cases po <;> rfl

theorem bcPushO_brs (po : Option Nat) (v : Nat) (st : BcSt) :
    (bcPush v (bcSetParO po v st)).bridges = st.bridges := by cases po <;> rfl

theorem bcPushO_par (po : Option Nat) (v : Nat) (st : BcSt) (hv : nmGet st.parent v = none) (x : Nat) :
    nmGet (bcPush v (bcSetParO po v st)).parent x = if v = x then po else nmGet st.parent x := by
  cases po with
  | none =>
    show nmGet st.parent x = _
    by_cases h : v = x
    · subst h; rw [if_pos rfl, hv]
    · rw [if_neg h]
  | some u =>
    show nmGet ((v, u) :: st.parent) x = _
    rw [kc_nmGet_cons]

theorem BcInvD.par_none {adj : Nat → List Nat} {nodes path : List Nat} {st : BcSt}
    (hd : BcInvD adj nodes path st) {v : Nat} (hv : nmGet st.disc v = none) : nmGet st.parent v = none := by
  cases h : nmGet st.parent v with
  | none => rfl
  | some p => exact absurd hv (hd.tree v p h).1

theorem bcPushO_frame {adj : Nat → List Nat} {nodes path : List Nat} {st : BcSt}
    (hd : BcInvD adj nodes path st) {v : Nat} (hv : nmGet st.disc v = none) (po : Option Nat) :
    BcFrame path st (v :: path) (bcPush v (bcSetParO po v st)) := by
  have hne : ∀ x, nmGet st.disc x ≠ none → ¬ v = x := fun x hx h => by subst h; exact hx hv
  refine ⟨?_, ?_, ?_, ?_, bcPushO_aps po v st, bcPushO_brs po v st⟩
  · intro x hx
    rw [bcPushO_disc, kc_nmGet_cons, if_neg (hne x hx)]
  · intro x hx
    rw [bcPushO_par po v st (hd.par_none hv), if_neg (hne x hx)]
  · intro x hx
    rw [bcPushO_low, kc_nmGet_cons, if_neg (hne x hx.1)]
  · intro x
    unfold bcBlk
    rw [bcPushO_disc, kc_nmGet_cons]
    constructor
    · rintro ⟨h1, h2⟩
      have hvx : ¬ v = x := fun h => h2 (by simp [h])
      rw [if_neg hvx] at h1
      exact ⟨h1, fun h => h2 (List.mem_cons_of_mem _ h)⟩
    · rintro ⟨h1, h2⟩
      rw [if_neg (hne x h1)]
      refine ⟨h1, fun h => ?_⟩
      rcases List.mem_cons.1 h with h | h
      · exact hne x h1 h.symm
      · exact h2 h

theorem BcInvD.push {adj : Nat → List Nat} {nodes path : List Nat} {st : BcSt}
    (hd : BcInvD adj nodes path st) {v : Nat} (hv : nmGet st.disc v = none) (hn : v ∈ nodes)
    {po : Option Nat} (hpo : po = path.head?) (hadj : ∀ u, po = some u → v ∈ adj u) :
    BcInvD adj nodes (v :: path) (bcPush v (bcSetParO po v st)) := by
  have hne : ∀ x, nmGet st.disc x ≠ none → ¬ v = x := fun x hx h => by subst h; exact hx hv
  have hdisc : ∀ x, nmGet (bcPush v (bcSetParO po v st)).disc x =
      if v = x then some st.time else nmGet st.disc x := fun x => by rw [bcPushO_disc, kc_nmGet_cons]
  have hpar := bcPushO_par po v st (hd.par_none hv)
  have hnumv : tjNum (bcPush v (bcSetParO po v st)).disc v = st.time := by
    apply tjNum_of_some; rw [hdisc, if_pos rfl]
  have hnum : ∀ x, nmGet st.disc x ≠ none → tjNum (bcPush v (bcSetParO po v st)).disc x = tjNum st.disc x :=
    fun x hx => bcNum_congr (by rw [hdisc, if_neg (hne x hx)])
  have hnumlt : ∀ x, nmGet st.disc x ≠ none → tjNum st.disc x < st.time := by
    intro x hx
    cases hk : nmGet st.disc x with
    | none => exact absurd hk hx
    | some k => rw [tjNum_of_some hk]; exact hd.lt x k hk
  refine ⟨?_, ?_, ?_, ?_, ?_, ?_⟩
  · intro x hx
    rw [hdisc] at hx
    by_cases h : v = x
    · subst h; exact hn
    · rw [if_neg h] at hx; exact hd.node x hx
  · intro x k hx
    rw [hdisc] at hx
    rw [bcPushO_time]
    by_cases h : v = x
    · rw [if_pos h] at hx
      simp only [Option.some.injEq] at hx
      omega
    · rw [if_neg h] at hx
      have := hd.lt x k hx
      omega
  · intro x y k hx hy
    rw [hdisc] at hx hy
    by_cases h1 : v = x
    · by_cases h2 : v = y
      · rw [← h1, ← h2]
      · rw [if_pos h1] at hx
        rw [if_neg h2] at hy
        simp only [Option.some.injEq] at hx
        have := hd.lt y k hy
        omega
    · by_cases h2 : v = y
      · rw [if_neg h1] at hx
        rw [if_pos h2] at hy
        simp only [Option.some.injEq] at hy
        have := hd.lt x k hx
        omega
      · rw [if_neg h1] at hx
        rw [if_neg h2] at hy
        exact hd.inj x y k hx hy
  · intro c p hcp
    rw [hpar] at hcp
    by_cases h : v = c
    · subst h
      rw [if_pos rfl] at hcp
      have hp : p ∈ path := by
        rw [hpo] at hcp
        cases path with
        | nil => simp at hcp
        | cons a r =>
          simp only [List.head?_cons, Option.some.injEq] at hcp
          subst hcp; exact List.mem_cons_self
      have hpd := hd.pathd p hp
      refine ⟨by rw [hdisc, if_pos rfl]; simp, by rw [hdisc, if_neg (hne p hpd)]; exact hpd,
        hadj p hcp, ?_⟩
      rw [hnumv, hnum p hpd]
      exact hnumlt p hpd
    · rw [if_neg h] at hcp
      have := hd.tree c p hcp
      refine ⟨by rw [hdisc, if_neg h]; exact this.1, by rw [hdisc, if_neg (hne p this.2.1)]; exact this.2.1,
        this.2.2.1, ?_⟩
      rw [hnum c this.1, hnum p this.2.1]
      exact this.2.2.2
  · refine ⟨by rw [hpar, if_pos rfl]; exact hpo, ?_⟩
    refine bcChain_congr path (fun z hz => ?_) hd.chain
    rw [hpar, if_neg (hne z (hd.pathd z hz))]
  · intro z hz
    rw [hdisc]
    rcases List.mem_cons.1 hz with h | h
    · rw [if_pos h.symm]; simp
    · rw [if_neg (hne z (hd.pathd z h))]; exact hd.pathd z h

theorem BcInv.push {adj : Nat → List Nat} {nodes path : List Nat} {st : BcSt}
    (h : BcInv adj nodes path st) {v : Nat} (hv : nmGet st.disc v = none) (hn : v ∈ nodes)
    {po : Option Nat} (hpo : po = path.head?) (hadj : ∀ u, po = some u → v ∈ adj u) :
    BcInv adj nodes (v :: path) (bcPush v (bcSetParO po v st)) :=
  ⟨h.d.push hv hn hpo hadj, h.b.frame h.d (bcPushO_frame h.d hv po)⟩

/-! ### the neighbour loop -/

/-- state of the loop of `u` (`path` is the ghost path, `u` its head): `l` = `low[u]`, `ch` = `children` -/
structure BcLoop (adj : Nat → List Nat) (path : List Nat) (u : Nat) (st : BcSt) (ch l : Nat) : Prop where
  low : nmGet st.low u = some l
  cw : BcLowCW adj path st u l
  cnt : 0 < ch ↔ ∃ c, bcBlk path st c ∧ nmGet st.parent c = some u

theorem bcPushO_loop {adj : Nat → List Nat} {nodes path : List Nat} {st : BcSt}
    (hd : BcInvD adj nodes path st) {v : Nat} (hv : nmGet st.disc v = none) (po : Option Nat) :
    BcLoop adj (v :: path) v (bcPush v (bcSetParO po v st)) 0 st.time := by
  have hpar := bcPushO_par po v st (hd.par_none hv)
  have hno : ∀ c, bcBlk (v :: path) (bcPush v (bcSetParO po v st)) c →
      nmGet (bcPush v (bcSetParO po v st)).parent c = some v → False := by
    intro c hc hp
    have hcv : ¬ v = c := fun h => hc.2 (by simp [h])
    rw [hpar, if_neg hcv] at hp
    exact (hd.tree c v hp).2.1 hv
  have hnumv : tjNum (bcPush v (bcSetParO po v st)).disc v = st.time := by
    apply tjNum_of_some
    rw [bcPushO_disc, kc_nmGet_cons, if_pos rfl]
  refine ⟨by rw [bcPushO_low, kc_nmGet_cons, if_pos rfl],
    ⟨by rw [hnumv]; exact Nat.le_refl _, fun c hc hp => (hno c hc hp).elim, .inl hnumv.symm⟩, ?_⟩
  · constructor
    · intro h; omega
    · rintro ⟨c, hc, hp⟩; exact (hno c hc hp).elim

theorem bcExt_get {m m' : NatMap} (h : TjExt m m') {x : Nat} (hx : nmGet m x ≠ none) :
    nmGet m' x = nmGet m x := by
  cases hk : nmGet m x with
  | none => exact absurd hk hx
  | some k => exact h x k hk

structure BcVisitPost (adj : Nat → List Nat) (nodes path : List Nat) (v : Nat) (po : Option Nat)
    (st st' : BcSt) : Prop where
  inv : BcInv adj nodes (v :: path) st'
  ext : TjExt st.disc st'.disc
  dv : nmGet st'.disc v ≠ none
  pv : nmGet st'.parent v = po
  parf : ∀ x, nmGet st.disc x ≠ none → nmGet st'.parent x = nmGet st.parent x
  lowf : ∀ x, nmGet st.disc x ≠ none → nmGet st'.low x = nmGet st.low x
  newpar : ∀ c, nmGet st.disc c = none → c ≠ v → ∀ p, nmGet st'.parent c = some p → nmGet st.disc p = none
  wok : ∀ w, w ∈ adj v → BcWOk st' v (tjNum st'.low v) w
  cw : BcLowCW adj (v :: path) st' v (tjNum st'.low v)

def BcVisitSpec (adj : Nat → List Nat) (nodes : List Nat) (fuel : Nat) (visit : Nat → BcSt → BcSt) : Prop :=
  ∀ path v st po, BcInv adj nodes path st → nmGet st.disc v = none → v ∈ nodes → po = path.head? →
    (∀ u, po = some u → v ∈ adj u) → tjUnv nodes st.disc < fuel →
    BcVisitPost adj nodes path v po st (visit v (bcSetParO po v st))

structure BcLoopPost (adj : Nat → List Nat) (nodes path : List Nat) (u : Nat) (ws : List Nat)
    (st st' : BcSt) (l : Nat) : Prop where
  inv : BcInv adj nodes path st'
  loop : ∃ ch' l', BcLoop adj path u st' ch' l' ∧ l' ≤ l ∧ ∀ w, w ∈ ws → BcWOk st' u l' w
  ext : TjExt st.disc st'.disc
  parf : ∀ x, nmGet st.disc x ≠ none → nmGet st'.parent x = nmGet st.parent x
  lowf : ∀ x, nmGet st.disc x ≠ none → x ≠ u → nmGet st'.low x = nmGet st.low x
  newpar : ∀ c, nmGet st.disc c = none → ∀ p, nmGet st'.parent c = some p → p = u ∨ nmGet st.disc p = none

/-- the caller's loop state survives the recursive call -/
theorem BcLoop.visit {adj : Nat → List Nat} {nodes rest : List Nat} {u v : Nat} {st sta : BcSt} {ch l : Nat}
    (hd : BcInvD adj nodes (u :: rest) st) (hloop : BcLoop adj (u :: rest) u st ch l)
    (hv : nmGet st.disc v = none) (hp : BcVisitPost adj nodes (u :: rest) v (some u) st sta) :
    BcLoop adj (v :: u :: rest) u sta ch l := by
  have hud : nmGet st.disc u ≠ none := hd.pathd u List.mem_cons_self
  have hold : ∀ c, bcBlk (v :: u :: rest) sta c → nmGet sta.parent c = some u →
      bcBlk (u :: rest) st c ∧ nmGet st.parent c = some u ∧ nmGet sta.low c = nmGet st.low c := by
    intro c hc hpc
    have hcv : c ≠ v := fun h => hc.2 (by simp [h])
    have hcp : c ∉ u :: rest := fun h => hc.2 (List.mem_cons_of_mem _ h)
    by_cases hcd : nmGet st.disc c = none
    · exact absurd (hp.newpar c hcd hcv u hpc) hud
    · exact ⟨⟨hcd, hcp⟩, by rw [← hp.parf c hcd]; exact hpc, hp.lowf c hcd⟩
  have hnew : ∀ c, bcBlk (u :: rest) st c →
      bcBlk (v :: u :: rest) sta c ∧ nmGet sta.parent c = nmGet st.parent c ∧
        nmGet sta.low c = nmGet st.low c := by
    intro c hc
    have hcv : c ≠ v := fun h => by subst h; exact hc.1 hv
    refine ⟨⟨hp.ext.vis hc.1, fun h => ?_⟩, hp.parf c hc.1, hp.lowf c hc.1⟩
    rcases List.mem_cons.1 h with h | h
    · exact hcv h
    · exact hc.2 h
  refine ⟨by rw [hp.lowf u hud]; exact hloop.low,
    ⟨by rw [bcNum_congr (bcExt_get hp.ext hud)]; exact hloop.cw.le, ?_, ?_⟩, ?_⟩
  · intro c hc hpc
    have := hold c hc hpc
    rw [bcNum_congr this.2.2]
    exact hloop.cw.lowc c this.1 this.2.1
  · rcases hloop.cw.loww with h1 | ⟨w, hw, hwd, hne, hl⟩ | ⟨c, hc, hpc, hl⟩
    · left; rw [bcNum_congr (bcExt_get hp.ext hud)]; exact h1
    · right; left
      exact ⟨w, hw, hp.ext.vis hwd, by rw [hp.parf u hud]; exact hne,
        by rw [bcNum_congr (bcExt_get hp.ext hwd)]; exact hl⟩
    · right; right
      have := hnew c hc
      exact ⟨c, this.1, by rw [this.2.1]; exact hpc, by rw [bcNum_congr this.2.2]; exact hl⟩
  · rw [hloop.cnt]
    constructor
    · rintro ⟨c, hc, hpc⟩
      have := hnew c hc
      exact ⟨c, this.1, by rw [this.2.1]; exact hpc⟩
    · rintro ⟨c, hc, hpc⟩
      have := hold c hc hpc
      exact ⟨c, this.1, this.2.1⟩

/-! ### leaving `dfs(v)`: `v` becomes a finished node -/

theorem bcBlk_retire {path : List Nat} {v : Nat} {sta stb : BcSt} (hdisc : stb.disc = sta.disc)
    (hvd : nmGet sta.disc v ≠ none) (hvp : v ∉ path) (x : Nat) :
    bcBlk path stb x ↔ (bcBlk (v :: path) sta x ∨ x = v) := by
  unfold bcBlk
  rw [hdisc]
  constructor
  · rintro ⟨h1, h2⟩
    by_cases h : x = v
    · exact .inr h
    · refine .inl ⟨h1, fun hm => ?_⟩
      rcases List.mem_cons.1 hm with h3 | h3
      · exact h h3
      · exact h2 h3
  · rintro (⟨h1, h2⟩ | h)
    · exact ⟨h1, fun hm => h2 (List.mem_cons_of_mem _ hm)⟩
    · subst h; exact ⟨hvd, hvp⟩

theorem BcLowCW.retire {adj : Nat → List Nat} {path : List Nat} {v y l : Nat} {sta stb : BcSt}
    (hdisc : stb.disc = sta.disc) (hpar : stb.parent = sta.parent)
    (hlow : ∀ x, x ∉ path → nmGet stb.low x = nmGet sta.low x)
    (hvd : nmGet sta.disc v ≠ none) (hvp : v ∉ path)
    (hpv : ∀ p, nmGet sta.parent v = some p → p ∈ path) (hy : y ∉ path)
    (h : BcLowCW adj (v :: path) sta y l) : BcLowCW adj path stb y l := by
  refine ⟨by rw [hdisc]; exact h.le, ?_, ?_⟩
  · intro c hc hpc
    rw [hpar] at hpc
    rw [bcNum_congr (hlow c hc.2)]
    rcases (bcBlk_retire hdisc hvd hvp c).1 hc with h1 | h1
    · exact h.lowc c h1 hpc
    · subst h1
      exact absurd (hpv y hpc) hy
  · rw [hdisc, hpar]
    rcases h.loww with h1 | h1 | ⟨c, hc, hpc, hl⟩
    · exact .inl h1
    · exact .inr (.inl h1)
    · right; right
      have hc' := (bcBlk_retire hdisc hvd hvp c).2 (.inl hc)
      exact ⟨c, hc', hpc, by rw [bcNum_congr (hlow c hc'.2)]; exact hl⟩

/-- the part of the invariant that does not mention the two answer lists -/
theorem BcInv.retireS {adj : Nat → List Nat} {nodes path : List Nat} {v : Nat} {sta stb : BcSt}
    (h : BcInv adj nodes (v :: path) sta)
    (hdisc : stb.disc = sta.disc) (hpar : stb.parent = sta.parent) (htime : stb.time = sta.time)
    (hlow : ∀ x, x ∉ path → nmGet stb.low x = nmGet sta.low x)
    (hvd : nmGet sta.disc v ≠ none) (hvp : v ∉ path)
    (hpv : ∀ p, nmGet sta.parent v = some p → p ∈ path)
    (wok : ∀ w, w ∈ adj v → BcWOk sta v (tjNum sta.low v) w)
    (cw : BcLowCW adj (v :: path) sta v (tjNum sta.low v)) :
    BcInvD adj nodes path stb ∧
      (∀ y, bcBlk path stb y → ∀ w, w ∈ adj y → BcWOk stb y (tjNum stb.low y) w) ∧
      (∀ y, bcBlk path stb y → BcLowCW adj path stb y (tjNum stb.low y)) := by
  refine ⟨?_, ?_, ?_⟩
  · refine ⟨?_, ?_, ?_, ?_, ?_, ?_⟩
    · rw [hdisc]; exact h.d.node
    · rw [hdisc, htime]; exact h.d.lt
    · rw [hdisc]; exact h.d.inj
    · rw [hdisc, hpar]; exact h.d.tree
    · rw [hpar]; exact h.d.chain.2
    · rw [hdisc]; exact fun z hz => h.d.pathd z (List.mem_cons_of_mem _ hz)
  · intro y hy w hw
    rw [bcNum_congr (hlow y hy.2)]
    unfold BcWOk
    rw [hdisc, hpar]
    rcases (bcBlk_retire hdisc hvd hvp y).1 hy with h1 | h1
    · exact h.b.badj y h1 w hw
    · subst h1; exact wok w hw
  · intro y hy
    rw [bcNum_congr (hlow y hy.2)]
    rcases (bcBlk_retire hdisc hvd hvp y).1 hy with h1 | h1
    · exact (h.b.blow y h1).retire hdisc hpar hlow hvd hvp hpv hy.2
    · subst h1; exact cw.retire hdisc hpar hlow hvd hvp hpv hy.2

/-- a root is finished: nothing is pushed -/
theorem BcInv.retireRoot {adj : Nat → List Nat} {nodes : List Nat} {v : Nat} {sta : BcSt}
    (h : BcInv adj nodes [v] sta) (hpv : nmGet sta.parent v = none) (hvd : nmGet sta.disc v ≠ none)
    (wok : ∀ w, w ∈ adj v → BcWOk sta v (tjNum sta.low v) w)
    (cw : BcLowCW adj [v] sta v (tjNum sta.low v)) : BcInv adj nodes [] sta := by
  have hS := h.retireS (stb := sta) rfl rfl rfl (fun _ _ => rfl) hvd (by simp)
    (fun p hp => by rw [hpv] at hp; exact absurd hp (by simp)) wok cw
  have hblk := bcBlk_retire (path := []) (v := v) (sta := sta) (stb := sta) rfl hvd (by simp)
  have hold : ∀ c x, bcBlk [] sta c → nmGet sta.parent c = some x → bcBlk [v] sta c := by
    intro c x hc hp
    rcases (hblk c).1 hc with h1 | h1
    · exact h1
    · subst h1; rw [hpv] at hp; exact absurd hp (by simp)
  have h1 : ∀ c, bcBlk [v] sta c → bcBlk [] sta c ∧ nmGet sta.parent c = nmGet sta.parent c ∧
      tjNum sta.low c = tjNum sta.low c := fun c hc => ⟨(hblk c).2 (.inl hc), rfl, rfl⟩
  have h2 : ∀ c x, bcBlk [v] sta c → nmGet sta.parent c = some x →
      nmGet sta.parent x = nmGet sta.parent x ∧ tjNum sta.disc x = tjNum sta.disc x :=
    fun _ _ _ _ => ⟨rfl, rfl⟩
  refine ⟨hS.1, hS.2.1, hS.2.2, ?_, ?_, h.b.brnd⟩
  · intro x
    rw [h.b.aps x]
    refine ⟨BcApCond.congr h1 h2, ?_⟩
    rintro (⟨hr, c1, c2, hne, b1, b2, p1, p2⟩ | ⟨p, c, hp, bc, pc, hle⟩)
    · exact .inl ⟨hr, c1, c2, hne, hold c1 x b1 p1, hold c2 x b2 p2, p1, p2⟩
    · exact .inr ⟨p, c, hp, hold c x bc pc, pc, hle⟩
  · intro e
    rw [h.b.brs e]
    refine ⟨BcBrCond.congr h1 h2, ?_⟩
    rintro ⟨u', v', bv, pv, hlt, he⟩
    exact ⟨u', v', hold v' u' bv pv, pv, hlt, he⟩

theorem bcRetire_aps_mem (u v ch : Nat) (sta : BcSt) (x : Nat) :
    x ∈ (bcRetire u v ch sta).aps ↔ (x ∈ sta.aps ∨ (x = u ∧
      ((nmGet sta.parent u = none ∧ 0 < ch) ∨
       (nmGet sta.parent u ≠ none ∧ tjNum sta.disc u ≤ tjNum sta.low v)))) := by
  show x ∈ (if (if (nmGet sta.parent u).isNone then decide (ch + 1 > 1)
      else decide (tjNum sta.low v ≥ tjNum sta.disc u)) = true then u :: sta.aps else sta.aps) ↔ _
  cases hp : nmGet sta.parent u with
  | none =>
    simp only [Option.isNone_none, if_true, decide_eq_true_eq]
    by_cases hc : 0 < ch
    · rw [if_pos (by omega)]
      simp only [List.mem_cons, hc, and_true, ne_eq, not_true_eq_false, false_and, or_false]
      exact Or.comm
    · rw [if_neg (by omega)]
      simp only [hc, and_false, ne_eq, not_true_eq_false, false_and, or_false]
  | some p =>
    simp only [Option.isNone_some, Bool.false_eq_true, if_false, decide_eq_true_eq, ge_iff_le]
    by_cases hc : tjNum sta.disc u ≤ tjNum sta.low v
    · rw [if_pos hc]
      simp only [List.mem_cons, hc, and_true, ne_eq, reduceCtorEq, not_false_eq_true, false_and, false_or]
      exact Or.comm
    · rw [if_neg hc]
      simp only [hc, and_false, reduceCtorEq, false_and, or_false]

theorem bcRetire_brs (u v ch : Nat) (sta : BcSt) :
    (bcRetire u v ch sta).bridges =
      if tjNum sta.disc u < tjNum sta.low v then (min u v, max u v) :: sta.bridges else sta.bridges := rfl

theorem bcRetire_low (u v ch : Nat) (sta : BcSt) :
    (bcRetire u v ch sta).low = (u, min (tjNum sta.low u) (tjNum sta.low v)) :: sta.low := rfl

/-- the child `v` of `u` is finished: `low[u]`, the articulation test and the bridge test -/
theorem BcInv.retireChild {adj : Nat → List Nat} {nodes rest : List Nat} {u v ch l : Nat} {sta : BcSt}
    (h : BcInv adj nodes (v :: u :: rest) sta) (hloop : BcLoop adj (v :: u :: rest) u sta ch l)
    (hpv : nmGet sta.parent v = some u) (hvd : nmGet sta.disc v ≠ none) (hvp : v ∉ u :: rest)
    (wok : ∀ w, w ∈ adj v → BcWOk sta v (tjNum sta.low v) w)
    (cw : BcLowCW adj (v :: u :: rest) sta v (tjNum sta.low v)) :
    BcInv adj nodes (u :: rest) (bcRetire u v ch sta) ∧
      BcLoop adj (u :: rest) u (bcRetire u v ch sta) (ch + 1) (min l (tjNum sta.low v)) := by
  have hvu : v ≠ u := fun he => hvp (by simp [he])
  have hlu : tjNum sta.low u = l := tjNum_of_some hloop.low
  have hlowb : ∀ x, x ≠ u → nmGet (bcRetire u v ch sta).low x = nmGet sta.low x := by
    intro x hx
    rw [bcRetire_low, kc_nmGet_cons, if_neg (fun he => hx he.symm)]
  have hlowp : ∀ x, x ∉ u :: rest → nmGet (bcRetire u v ch sta).low x = nmGet sta.low x :=
    fun x hx => hlowb x (fun he => hx (by simp [he]))
  have hS := h.retireS (stb := bcRetire u v ch sta) rfl rfl rfl hlowp hvd hvp
    (fun p hp => by rw [hpv] at hp; simp only [Option.some.injEq] at hp; subst hp; exact List.mem_cons_self)
    wok cw
  have hblk := bcBlk_retire (path := u :: rest) (v := v) (sta := sta) (stb := bcRetire u v ch sta) rfl hvd hvp
  have hLb : ∀ c, bcBlk (u :: rest) (bcRetire u v ch sta) c →
      tjNum (bcRetire u v ch sta).low c = tjNum sta.low c := fun c hc => bcNum_congr (hlowp c hc.2)
  have hvnew : bcBlk (u :: rest) (bcRetire u v ch sta) v := (hblk v).2 (.inr rfl)
  have hLu : tjNum (bcRetire u v ch sta).low u = min l (tjNum sta.low v) := by
    apply tjNum_of_some
    rw [bcRetire_low, kc_nmGet_cons, if_pos rfl, hlu]
  -- old finished nodes stay finished
  have h1 : ∀ c, bcBlk (v :: u :: rest) sta c → bcBlk (u :: rest) (bcRetire u v ch sta) c ∧
      nmGet sta.parent c = nmGet sta.parent c ∧ tjNum (bcRetire u v ch sta).low c = tjNum sta.low c :=
    fun c hc => ⟨(hblk c).2 (.inl hc), rfl, hLb c ((hblk c).2 (.inl hc))⟩
  have h2 : ∀ c x, bcBlk (v :: u :: rest) sta c → nmGet sta.parent c = some x →
      nmGet sta.parent x = nmGet sta.parent x ∧ tjNum sta.disc x = tjNum sta.disc x :=
    fun _ _ _ _ => ⟨rfl, rfl⟩
  have hsplit : ∀ c x, bcBlk (u :: rest) (bcRetire u v ch sta) c → nmGet sta.parent c = some x →
      bcBlk (v :: u :: rest) sta c ∨ (c = v ∧ x = u) := by
    intro c x hc hp
    rcases (hblk c).1 hc with h3 | h3
    · exact .inl h3
    · subst h3
      rw [hpv] at hp
      simp only [Option.some.injEq] at hp
      exact .inr ⟨rfl, hp.symm⟩
  refine ⟨⟨hS.1, hS.2.1, hS.2.2, ?_, ?_, ?_⟩, ?_⟩
  · -- articulation points
    intro x
    rw [bcRetire_aps_mem, h.b.aps x]
    show _ ↔ BcApCond (nmGet sta.parent) (tjNum sta.disc) (tjNum (bcRetire u v ch sta).low)
      (bcBlk (u :: rest) (bcRetire u v ch sta)) x
    constructor
    · rintro (hx | ⟨rfl, (⟨hr, hc⟩ | ⟨hr, hle⟩)⟩)
      · exact BcApCond.congr h1 h2 hx
      · rcases hloop.cnt.1 hc with ⟨c, hcb, hcp⟩
        have hcv : c ≠ v := fun he => hcb.2 (by simp [he])
        exact .inl ⟨hr, c, v, hcv, (hblk c).2 (.inl hcb), hvnew, hcp, hpv⟩
      · cases hpx : nmGet sta.parent x with
        | none => exact absurd hpx hr
        | some p => exact .inr ⟨p, v, hpx, hvnew, hpv, by rw [hLb v hvnew]; exact hle⟩
    · rintro (⟨hr, c1, c2, hne, b1, b2, p1, p2⟩ | ⟨p, c, hp, bc, pc, hle⟩)
      · rcases hsplit c1 x b1 p1 with o1 | ⟨e1, ex⟩
        · rcases hsplit c2 x b2 p2 with o2 | ⟨e2, ex⟩
          · exact .inl (.inl ⟨hr, c1, c2, hne, o1, o2, p1, p2⟩)
          · subst ex
            exact .inr ⟨rfl, .inl ⟨hr, hloop.cnt.2 ⟨c1, o1, p1⟩⟩⟩
        · subst ex
          rcases hsplit c2 x b2 p2 with o2 | ⟨e2, _⟩
          · exact .inr ⟨rfl, .inl ⟨hr, hloop.cnt.2 ⟨c2, o2, p2⟩⟩⟩
          · exact absurd (e1.trans e2.symm) hne
      · rcases hsplit c x bc pc with o | ⟨e, ex⟩
        · rw [hLb c bc] at hle
          exact .inl (.inr ⟨p, c, hp, o, pc, hle⟩)
        · subst ex; subst e
          rw [hLb c bc] at hle
          exact .inr ⟨rfl, .inr ⟨by rw [hp]; simp, hle⟩⟩
  · -- bridges
    intro e
    rw [bcRetire_brs]
    show _ ↔ BcBrCond (nmGet sta.parent) (tjNum sta.disc) (tjNum (bcRetire u v ch sta).low)
      (bcBlk (u :: rest) (bcRetire u v ch sta)) e
    constructor
    · intro he
      by_cases hlt : tjNum sta.disc u < tjNum sta.low v
      · rw [if_pos hlt] at he
        rcases List.mem_cons.1 he with h3 | h3
        · exact ⟨u, v, hvnew, hpv, by rw [hLb v hvnew]; exact hlt, h3⟩
        · exact BcBrCond.congr h1 h2 ((h.b.brs e).1 h3)
      · rw [if_neg hlt] at he
        exact BcBrCond.congr h1 h2 ((h.b.brs e).1 he)
    · rintro ⟨u', v', bv, pv, hlt, he⟩
      rw [hLb v' bv] at hlt
      rcases hsplit v' u' bv pv with o | ⟨e1, e2⟩
      · have hm : e ∈ sta.bridges := (h.b.brs e).2 ⟨u', v', o, pv, hlt, he⟩
        by_cases hc : tjNum sta.disc u < tjNum sta.low v
        · rw [if_pos hc]; exact List.mem_cons_of_mem _ hm
        · rw [if_neg hc]; exact hm
      · subst e1; subst e2
        rw [if_pos hlt, he]
        exact List.mem_cons_self
  · -- no repetition
    rw [bcRetire_brs]
    by_cases hc : tjNum sta.disc u < tjNum sta.low v
    · rw [if_pos hc, List.nodup_cons]
      refine ⟨fun hm => ?_, h.b.brnd⟩
      rcases (h.b.brs _).1 hm with ⟨u', v', bv, pv, _, he⟩
      simp only [Prod.mk.injEq] at he
      have : v' = v ∨ v' = u := by omega
      rcases this with h3 | h3
      · exact bv.2 (by simp [h3])
      · exact bv.2 (by simp [h3])
    · rw [if_neg hc]; exact h.b.brnd
  · -- the loop state of `u`
    refine ⟨?_, ⟨?_, ?_, ?_⟩, ?_⟩
    · rw [bcRetire_low, kc_nmGet_cons, if_pos rfl, hlu]
    · show min l (tjNum sta.low v) ≤ tjNum sta.disc u
      have := hloop.cw.le
      omega
    · intro c hc hp
      rw [hLb c hc]
      rcases hsplit c u hc hp with o | ⟨e, _⟩
      · have := hloop.cw.lowc c o hp
        omega
      · subst e; omega
    · show _ ∨ (∃ w, w ∈ adj u ∧ nmGet sta.disc w ≠ none ∧ nmGet sta.parent u ≠ some w ∧
          min l (tjNum sta.low v) = tjNum sta.disc w) ∨
        (∃ c, bcBlk (u :: rest) (bcRetire u v ch sta) c ∧ nmGet sta.parent c = some u ∧
          min l (tjNum sta.low v) = tjNum (bcRetire u v ch sta).low c)
      by_cases hm : l ≤ tjNum sta.low v
      · rw [Nat.min_eq_left hm]
        rcases hloop.cw.loww with h3 | h3 | ⟨c, hc, hp, hl⟩
        · exact .inl h3
        · exact .inr (.inl h3)
        · have hc' := (hblk c).2 (.inl hc)
          exact .inr (.inr ⟨c, hc', hp, by rw [hLb c hc']; exact hl⟩)
      · rw [Nat.min_eq_right (by omega)]
        exact .inr (.inr ⟨v, hvnew, hpv, (hLb v hvnew).symm⟩)
    · constructor
      · intro _; exact ⟨v, hvnew, hpv⟩
      · intro _; omega

/-! ### the loop specification -/

/-- an already discovered neighbour `w` that is not the parent of `u` -/
theorem BcLoop.back {adj : Nat → List Nat} {nodes path : List Nat} {u w k ch l : Nat} {st : BcSt}
    (h : BcInv adj nodes path st) (hup : u ∈ path) (hloop : BcLoop adj path u st ch l)
    (hwa : w ∈ adj u) (hw : nmGet st.disc w = some k) (hne : nmGet st.parent u ≠ some w) :
    BcInv adj nodes path (bcBack u k st) ∧ BcLoop adj path u (bcBack u k st) ch (min l k) ∧
      (bcBack u k st).disc = st.disc ∧ (bcBack u k st).parent = st.parent ∧
      (∀ x, x ≠ u → nmGet (bcBack u k st).low x = nmGet st.low x) := by
  have hlu : tjNum st.low u = l := tjNum_of_some hloop.low
  have hud := h.d.pathd u hup
  unfold bcBack
  rw [hlu]
  by_cases hk : k < l
  · rw [if_pos hk, Nat.min_eq_right (by omega)]
    have hlow : ∀ x, x ≠ u → nmGet ((u, k) :: st.low) x = nmGet st.low x := fun x hx => by
      rw [kc_nmGet_cons, if_neg (fun he => hx he.symm)]
    have F : BcFrame path st path { st with low := (u, k) :: st.low } :=
      ⟨fun _ _ => rfl, fun _ _ => rfl, fun x hx => hlow x (fun he => hx.2 (by rw [he]; exact hup)),
        fun _ => Iff.rfl, rfl, rfl⟩
    have hcw := hloop.cw.frame F hud
    refine ⟨⟨⟨h.d.node, h.d.lt, h.d.inj, h.d.tree, h.d.chain, h.d.pathd⟩, h.b.frame h.d F⟩, ?_, rfl, rfl, hlow⟩
    refine ⟨?_, ⟨?_, ?_, ?_⟩, hloop.cnt⟩
    · show nmGet ((u, k) :: st.low) u = some k
      rw [kc_nmGet_cons, if_pos rfl]
    · have := hcw.le; omega
    · intro c hc hp
      have := hcw.lowc c hc hp
      omega
    · exact .inr (.inl ⟨w, hwa, by rw [hw]; simp, hne, (tjNum_of_some hw).symm⟩)
  · rw [if_neg hk, Nat.min_eq_left (by omega)]
    exact ⟨h, hloop, rfl, rfl, fun _ _ => rfl⟩

theorem BcLoopPost.cons {adj : Nat → List Nat} {nodes path : List Nat} {u : Nat} {ws : List Nat}
    {st stb st' : BcSt} {l lb w : Nat}
    (hle : lb ≤ l) (hext : TjExt st.disc stb.disc)
    (hparf : ∀ x, nmGet st.disc x ≠ none → nmGet stb.parent x = nmGet st.parent x)
    (hlowf : ∀ x, nmGet st.disc x ≠ none → x ≠ u → nmGet stb.low x = nmGet st.low x)
    (hnew : ∀ c, nmGet st.disc c = none → ∀ p, nmGet stb.parent c = some p → p = u ∨ nmGet st.disc p = none)
    (hdb : BcInvD adj nodes path stb) (hud : nmGet stb.disc u ≠ none)
    (hw : BcWOk stb u lb w) (hp : BcLoopPost adj nodes path u ws stb st' lb) :
    BcLoopPost adj nodes path u (w :: ws) st st' l := by
  rcases hp.loop with ⟨ch', l', hl', hle', hws⟩
  refine ⟨hp.inv, ⟨ch', l', hl', by omega, ?_⟩, hext.trans hp.ext, ?_, ?_, ?_⟩
  · intro x hx
    rcases List.mem_cons.1 hx with h | h
    · subst h
      exact hw.mono hdb (fun x hx => bcExt_get hp.ext hx) hp.parf hud hle'
    · exact hws x h
  · intro x hx
    rw [hp.parf x (hext.vis hx), hparf x hx]
  · intro x hx hxu
    rw [hp.lowf x (hext.vis hx) hxu, hlowf x hx hxu]
  · intro c hc p hcp
    by_cases hcb : nmGet stb.disc c = none
    · rcases hp.newpar c hcb p hcp with h | h
      · exact .inl h
      · right
        cases hk : nmGet st.disc p with
        | none => rfl
        | some k => rw [hext p k hk] at h; exact absurd h (by simp)
    · rw [hp.parf c hcb] at hcp
      exact hnew c hc p hcp

theorem bcNbrsF_spec {adj : Nat → List Nat} {nodes : List Nat} {fuel : Nat} {visit : Nat → BcSt → BcSt}
    (ok : BcAdjOk adj nodes) (hvisit : BcVisitSpec adj nodes fuel visit) (u : Nat) (rest : List Nat) :
    ∀ (ws : List Nat) (st : BcSt) (ch l : Nat), (∀ w, w ∈ ws → w ∈ adj u) →
      BcInv adj nodes (u :: rest) st → BcLoop adj (u :: rest) u st ch l → tjUnv nodes st.disc < fuel →
      BcLoopPost adj nodes (u :: rest) u ws st (bcNbrsF visit u ws ch st) l := by
  intro ws
  induction ws with
  | nil =>
    intro st ch l _ hinv hl _
    rw [bcNbrsF]
    exact ⟨hinv, ⟨ch, l, hl, Nat.le_refl _, fun w hw => by simp at hw⟩, TjExt.refl _, fun _ _ => rfl,
      fun _ _ _ => rfl, fun c hc p hp => absurd hc (hinv.d.tree c p hp).1⟩
  | cons w ws ih =>
    intro st ch l hws hinv hl hfuel
    have hwa : w ∈ adj u := hws w List.mem_cons_self
    have hws' : ∀ x, x ∈ ws → x ∈ adj u := fun x hx => hws x (List.mem_cons_of_mem _ hx)
    have hup : u ∈ u :: rest := List.mem_cons_self
    have hud : nmGet st.disc u ≠ none := hinv.d.pathd u hup
    have hun : u ∈ nodes := hinv.d.node u hud
    have hwn : w ∈ nodes := ok.adjn u w hwa
    rw [bcNbrsF]
    cases hw : nmGet st.disc w with
    | none =>
      simp only []
      have hp : BcVisitPost adj nodes (u :: rest) w (some u) st (visit w (bcSetPar u w st)) :=
        hvisit (u :: rest) w st (some u) hinv hw hwn rfl
          (fun u' h => by simp only [Option.some.injEq] at h; subst h; exact hwa) hfuel
      generalize visit w (bcSetPar u w st) = sta at hp ⊢
      have hwp : w ∉ u :: rest := fun hm => hinv.d.pathd w hm hw
      have hloopa := hl.visit hinv.d hw hp
      have hr := hp.inv.retireChild hloopa hp.pv hp.dv hwp hp.wok hp.cw
      have hfuel' : tjUnv nodes (bcRetire u w ch sta).disc < fuel :=
        Nat.lt_of_le_of_lt (tjUnv_mono nodes (fun x hx => hp.ext.vis hx)) hfuel
      have hlw : tjNum sta.low w ≤ tjNum sta.disc w := hp.cw.le
      refine BcLoopPost.cons (stb := bcRetire u w ch sta) (lb := min l (tjNum sta.low w))
        (Nat.min_le_left _ _) hp.ext hp.parf ?_ ?_ hr.1.d (hp.ext.vis hud) ?_
        (ih _ _ _ hws' hr.1 hr.2 hfuel')
      · intro x hx hxu
        rw [bcRetire_low, kc_nmGet_cons, if_neg (fun he => hxu he.symm)]
        exact hp.lowf x hx
      · intro c hc p hcp
        by_cases hcw : c = w
        · subst hcw
          have : nmGet sta.parent c = some p := hcp
          rw [hp.pv] at this
          simp only [Option.some.injEq] at this
          exact .inl this.symm
        · exact .inr (hp.newpar c hc hcw p hcp)
      · refine ⟨hp.dv, .inl (.step (.refl u) hp.pv), fun _ => ?_⟩
        show min l (tjNum sta.low w) ≤ tjNum sta.disc w
        omega
    | some k =>
      simp only []
      have hwd : nmGet st.disc w ≠ none := by rw [hw]; simp
      have hcmp : BcAnc (nmGet st.parent) u w ∨ BcAnc (nmGet st.parent) w u := by
        by_cases hm : w ∈ u :: rest
        · exact .inr (bcChain_anc (u :: rest) u rest rfl hinv.d.chain w hm)
        · have := (hinv.b.badj w ⟨hwd, hm⟩ u (ok.sym u w hun hwa)).2.1
          exact this.symm
      by_cases hpar : (nmGet st.parent u != some w) = true
      · rw [if_pos hpar]
        have hne : nmGet st.parent u ≠ some w := by simpa using hpar
        have hb := hl.back hinv hup hwa hw hne
        have hfuel' : tjUnv nodes (bcBack u k st).disc < fuel := by rw [hb.2.2.1]; exact hfuel
        refine BcLoopPost.cons (stb := bcBack u k st) (lb := min l k) (Nat.min_le_left _ _)
          (by rw [hb.2.2.1]; exact TjExt.refl _) (fun x _ => by rw [hb.2.2.2.1])
          (fun x _ hxu => hb.2.2.2.2 x hxu) ?_ hb.1.d (by rw [hb.2.2.1]; exact hud) ?_
          (ih _ _ _ hws' hb.1 hb.2.1 hfuel')
        · intro c hc p hcp
          rw [hb.2.2.2.1] at hcp
          exact absurd hc (hinv.d.tree c p hcp).1
        · unfold BcWOk
          rw [hb.2.2.1, hb.2.2.2.1]
          refine ⟨hwd, hcmp, fun _ => ?_⟩
          rw [tjNum_of_some hw]
          exact Nat.min_le_right _ _
      · rw [if_neg hpar]
        have hpe : nmGet st.parent u = some w := by simpa using hpar
        refine BcLoopPost.cons (stb := st) (lb := l) (Nat.le_refl _) (TjExt.refl _) (fun _ _ => rfl)
          (fun _ _ _ => rfl) (fun c hc p hcp => absurd hc (hinv.d.tree c p hcp).1) hinv.d hud ?_
          (ih _ _ _ hws' hinv hl hfuel)
        exact ⟨hwd, hcmp, fun hne => absurd hpe hne⟩

/-! ### `dfs(v)`, the outer loop, the final state -/

theorem bcVisitF_spec {adj : Nat → List Nat} {nodes : List Nat} (ok : BcAdjOk adj nodes) :
    ∀ fuel, BcVisitSpec adj nodes fuel (bcVisitF adj fuel) := by
  intro fuel
  induction fuel with
  | zero => intro _ _ _ _ _ _ _ _ _ hf; exact absurd hf (Nat.not_lt_zero _)
  | succ fuel ih =>
    intro path v st po hinv hv hn hpo hadj hf
    rw [bcVisitF]
    have hne : ∀ x, nmGet st.disc x ≠ none → ¬ v = x := fun x hx h => by subst h; exact hx hv
    have hinv1 := hinv.push hv hn hpo hadj
    have hloop1 := bcPushO_loop hinv.d hv po
    have F := bcPushO_frame hinv.d hv po
    have hdv1 : nmGet (bcPush v (bcSetParO po v st)).disc v = some st.time := by
      rw [bcPushO_disc, kc_nmGet_cons, if_pos rfl]
    have hext1 : TjExt st.disc (bcPush v (bcSetParO po v st)).disc := by
      intro x k hx
      rw [F.disc x (by rw [hx]; simp)]; exact hx
    have hf1 : tjUnv nodes (bcPush v (bcSetParO po v st)).disc < fuel := by
      have := tjUnv_lt nodes (fun x hx => hext1.vis hx) hn hv (by rw [hdv1]; simp)
      omega
    have hpost := bcNbrsF_spec ok ih v path (adj v) (bcPush v (bcSetParO po v st)) 0 st.time
      (fun w hw => hw) hinv1 hloop1 hf1
    generalize bcNbrsF (bcVisitF adj fuel) v (adj v) 0 (bcPush v (bcSetParO po v st)) = st2 at hpost ⊢
    rcases hpost.loop with ⟨ch', l', hl', _, hws⟩
    have hlv : tjNum st2.low v = l' := tjNum_of_some hl'.low
    have hvd1 : nmGet (bcPush v (bcSetParO po v st)).disc v ≠ none := by rw [hdv1]; simp
    refine ⟨hpost.inv, hext1.trans hpost.ext, hpost.ext.vis hvd1, ?_, ?_, ?_, ?_, ?_, ?_⟩
    · rw [hpost.parf v hvd1, bcPushO_par po v st (hinv.d.par_none hv), if_pos rfl]
    · intro x hx
      rw [hpost.parf x (hext1.vis hx), F.par x hx]
    · intro x hx
      rw [hpost.lowf x (hext1.vis hx) (fun he => hne x hx he.symm), bcPushO_low, kc_nmGet_cons,
        if_neg (hne x hx)]
    · intro c hc hcv p hcp
      have hc1 : nmGet (bcPush v (bcSetParO po v st)).disc c = none := by
        rw [bcPushO_disc, kc_nmGet_cons, if_neg (fun he => hcv he.symm)]; exact hc
      rcases hpost.newpar c hc1 p hcp with h | h
      · subst h; exact hv
      · cases hk : nmGet st.disc p with
        | none => rfl
        | some k => rw [hext1 p k hk] at h; exact absurd h (by simp)
    · rw [hlv]; exact hws
    · rw [hlv]; exact hl'.cw

theorem bcAllF_spec {adj : Nat → List Nat} {nodes : List Nat} {fuel : Nat} {visit : Nat → BcSt → BcSt}
    (hvisit : BcVisitSpec adj nodes fuel visit) :
    ∀ (ns : List Nat) (st : BcSt), (∀ n, n ∈ ns → n ∈ nodes) → BcInv adj nodes [] st →
      tjUnv nodes st.disc < fuel →
      BcInv adj nodes [] (bcAllF visit ns st) ∧ TjExt st.disc (bcAllF visit ns st).disc ∧
        ∀ n, n ∈ ns → nmGet (bcAllF visit ns st).disc n ≠ none := by
  intro ns
  induction ns with
  | nil =>
    intro st _ hinv _
    rw [bcAllF]
    exact ⟨hinv, TjExt.refl _, fun n hn => by simp at hn⟩
  | cons a ns ih =>
    intro st hns hinv hf
    have hns' : ∀ n, n ∈ ns → n ∈ nodes := fun n hn => hns n (List.mem_cons_of_mem _ hn)
    rw [bcAllF]
    cases ha : nmGet st.disc a with
    | none =>
      simp only []
      have hp : BcVisitPost adj nodes [] a none st (visit a st) :=
        hvisit [] a st none hinv ha (hns a List.mem_cons_self) rfl (fun u h => by simp at h) hf
      generalize visit a st = sta at hp ⊢
      have hinva := hp.inv.retireRoot hp.pv hp.dv hp.wok hp.cw
      have hfa : tjUnv nodes sta.disc < fuel :=
        Nat.lt_of_le_of_lt (tjUnv_mono nodes (fun x hx => hp.ext.vis hx)) hf
      have hr := ih sta hns' hinva hfa
      refine ⟨hr.1, hp.ext.trans hr.2.1, fun n hn => ?_⟩
      rcases List.mem_cons.1 hn with h | h
      · subst h; exact hr.2.1.vis hp.dv
      · exact hr.2.2 n h
    | some k =>
      simp only []
      have hr := ih st hns' hinv hf
      refine ⟨hr.1, hr.2.1, fun n hn => ?_⟩
      rcases List.mem_cons.1 hn with h | h
      · subst h; exact hr.2.1.vis (by rw [ha]; simp)
      · exact hr.2.2 n h

theorem bcInit_inv (adj : Nat → List Nat) (nodes : List Nat) : BcInv adj nodes [] bcInit := by
  have hd : ∀ x, nmGet bcInit.disc x = none := fun _ => rfl
  have hp : ∀ x, nmGet bcInit.parent x = none := fun _ => rfl
  have hb : ∀ x, ¬ bcBlk [] bcInit x := fun x h => h.1 (hd x)
  refine ⟨⟨fun x h => absurd (hd x) h, fun x k h => ?_, fun x y k h => ?_, fun c p h => ?_, True.intro,
    fun z hz => by simp at hz⟩, ⟨fun y hy => absurd hy (hb y), fun y hy => absurd hy (hb y), fun x => ?_,
    fun e => ?_, List.nodup_nil⟩⟩
  · rw [hd] at h; exact absurd h (by simp)
  · rw [hd] at h; exact absurd h (by simp)
  · rw [hp] at h; exact absurd h (by simp)
  · constructor
    · intro h; exact absurd h (by simp [bcInit])
    · rintro (⟨_, c1, _, _, b1, _⟩ | ⟨_, c, _, bc, _⟩)
      · exact absurd b1 (hb c1)
      · exact absurd bc (hb c)
  · constructor
    · intro h; exact absurd h (by simp [bcInit])
    · rintro ⟨_, v, bv, _⟩
      exact absurd bv (hb v)

theorem bcAdjOk_nbrSet (g : Graph) (etype : Option Nat) :
    BcAdjOk (nbrSet g etype .both) (g.nodes.map (·.id)) := by
  refine ⟨fun u v hu hv => ?_, fun u v hv => ?_, fun u v hv => ?_⟩
  · have hun := (kc_hasNode_iff g u).2 hu
    have hvn := ((mem_nbrSet_both g etype u v).1 hv).2.1
    exact (mem_nbrSet_both_symm g etype u v hun hvn).1 hv
  · exact ((mem_nbrSet_both g etype u v).1 hv).1
  · exact (kc_hasNode_iff g v).1 ((mem_nbrSet_both g etype u v).1 hv).2.1

/-- fuel adequacy: the run ends with the invariant, an empty path and every node discovered -/
theorem bcFinalF_spec (g : Graph) (etype : Option Nat) :
    BcInv (nbrSet g etype .both) (g.nodes.map (·.id)) [] (bcFinalF g etype) ∧
      ∀ n, n ∈ g.nodes.map (·.id) → nmGet (bcFinalF g etype).disc n ≠ none := by
  have h := bcAllF_spec (bcVisitF_spec (bcAdjOk_nbrSet g etype) (g.nodes.length + 1))
    (g.nodes.map (·.id)) bcInit (fun n hn => hn) (bcInit_inv _ _)
    (by
      have := tjUnv_le_length (g.nodes.map (·.id)) bcInit.disc
      rw [List.length_map] at this
      omega)
  exact ⟨h.1, h.2.2⟩

/-- the finished search is a `BcForest` -/
theorem bcInv_forest {adj : Nat → List Nat} {nodes : List Nat} {st : BcSt} (ok : BcAdjOk adj nodes)
    (h : BcInv adj nodes [] st) (hall : ∀ n, n ∈ nodes → nmGet st.disc n ≠ none) :
    BcForest adj nodes (nmGet st.parent) (tjNum st.disc) (tjNum st.low) := by
  have hb : ∀ x, nmGet st.disc x ≠ none → bcBlk [] st x := fun x hx => ⟨hx, by simp⟩
  refine ⟨ok.sym, ok.irr, ok.adjn, ?_, ⟨st.time, ?_⟩, ?_, ?_, ?_, ?_, ?_⟩
  · intro x y hx hy he
    cases hkx : nmGet st.disc x with
    | none => exact absurd hkx (hall x hx)
    | some kx =>
      cases hky : nmGet st.disc y with
      | none => exact absurd hky (hall y hy)
      | some ky =>
        rw [tjNum_of_some hkx, tjNum_of_some hky] at he
        subst he
        exact h.d.inj x y kx hkx hky
  · intro x hx
    cases hkx : nmGet st.disc x with
    | none => exact absurd hkx (hall x hx)
    | some kx => rw [tjNum_of_some hkx]; exact h.d.lt x kx hkx
  · intro c p hcp
    have := h.d.tree c p hcp
    exact ⟨h.d.node c this.1, h.d.node p this.2.1, this.2.2.1, this.2.2.2⟩
  · intro y w hy hw
    exact (h.b.badj y (hb y (hall y hy)) w hw).2.1
  · intro y w hy hw hne
    exact (h.b.badj y (hb y (hall y hy)) w hw).2.2 hne
  · intro c y hcy
    have := h.d.tree c y hcy
    exact (h.b.blow y (hb y this.2.1)).lowc c (hb c this.1) hcy
  · intro y hy
    rcases (h.b.blow y (hb y (hall y hy))).loww with h1 | ⟨w, hw, _, hne, hl⟩ | ⟨c, _, hp, hl⟩
    · exact .inl h1
    · exact .inr (.inl ⟨w, hw, hne, hl⟩)
    · exact .inr (.inr ⟨c, hp, hl⟩)

/-! ## graph theory over `BcForest` (articulation points) -/
/-! ### articulation points: the flag condition is exact -/

theorem bcA_walk_trans {R : Nat → Nat → Prop} {a b c : Nat}
    (h1 : BcWalk R a b) (h2 : BcWalk R b c) : BcWalk R a c := by
  induction h1 with
  | refl => exact h2
  | step h _ ih => exact BcWalk.step h (ih h2)

theorem bcA_walk_one {R : Nat → Nat → Prop} {a b : Nat} (h : R a b) : BcWalk R a b :=
  BcWalk.step h (BcWalk.refl b)

theorem bcA_walk_symm {R : Nat → Nat → Prop} (hs : ∀ u v, R u v → R v u) {a b : Nat}
    (h : BcWalk R a b) : BcWalk R b a := by
  induction h with
  | refl => exact BcWalk.refl _
  | step h _ ih => exact bcA_walk_trans ih (bcA_walk_one (hs _ _ h))

theorem bcA_walk_closed {R : Nat → Nat → Prop} {S : Nat → Prop}
    (hc : ∀ y w, S y → R y w → S w) {a b : Nat} (h : BcWalk R a b) (ha : S a) : S b := by
  induction h with
  | refl => exact ha
  | step h _ ih => exact ih (hc _ _ ha h)

theorem bcA_walk_mono {R R' : Nat → Nat → Prop} (hm : ∀ u v, R u v → R' u v) {a b : Nat}
    (h : BcWalk R a b) : BcWalk R' a b := by
  induction h with
  | refl => exact BcWalk.refl _
  | step h _ ih => exact BcWalk.step (hm _ _ h) ih

theorem bcA_anc_trans {par : Nat → Option Nat} {a b c : Nat}
    (h1 : BcAnc par a b) (h2 : BcAnc par b c) : BcAnc par a c := by
  induction h2 with
  | refl => exact h1
  | step _ hp ih => exact BcAnc.step ih hp

theorem bcA_anc_child {par : Nat → Option Nat} {p c : Nat} (h : par c = some p) : BcAnc par p c :=
  BcAnc.step (BcAnc.refl p) h

theorem bcA_anc_D {adj : Nat → List Nat} {nodes : List Nat} {par : Nat → Option Nat} {D L : Nat → Nat}
    (F : BcForest adj nodes par D L) {a c : Nat} (h : BcAnc par a c) : a = c ∨ D a < D c := by
  induction h with
  | refl => exact Or.inl rfl
  | step _ hp ih =>
    have := (F.tree _ _ hp).2.2.2
    rcases ih with ih | ih
    · subst ih; exact Or.inr this
    · exact Or.inr (by omega)

theorem bcA_anc_Dle {adj : Nat → List Nat} {nodes : List Nat} {par : Nat → Option Nat} {D L : Nat → Nat}
    (F : BcForest adj nodes par D L) {a c : Nat} (h : BcAnc par a c) : D a ≤ D c := by
  rcases bcA_anc_D F h with h | h
  · subst h; exact Nat.le_refl _
  · omega

theorem bcA_anc_nodes_up {adj : Nat → List Nat} {nodes : List Nat} {par : Nat → Option Nat}
    {D L : Nat → Nat} (F : BcForest adj nodes par D L) {a c : Nat} (h : BcAnc par a c)
    (hc : c ∈ nodes) : a ∈ nodes := by
  induction h with
  | refl => exact hc
  | step _ hp ih => exact ih (F.tree _ _ hp).2.1

theorem bcA_anc_nodes_down {adj : Nat → List Nat} {nodes : List Nat} {par : Nat → Option Nat}
    {D L : Nat → Nat} (F : BcForest adj nodes par D L) {a c : Nat} (h : BcAnc par a c)
    (ha : a ∈ nodes) : c ∈ nodes := by
  cases h with
  | refl => exact ha
  | step _ hp => exact (F.tree _ _ hp).1

theorem bcA_anc_parent {par : Nat → Option Nat} {a c : Nat} (h : BcAnc par a c) (hne : a ≠ c) :
    ∃ p, par c = some p ∧ BcAnc par a p := by
  cases h with
  | refl => exact absurd rfl hne
  | step h hp => exact ⟨_, hp, h⟩

theorem bcA_anc_childOf {par : Nat → Option Nat} {a c : Nat} (h : BcAnc par a c) (hne : a ≠ c) :
    ∃ k, par k = some a ∧ BcAnc par k c := by
  induction h with
  | refl => exact absurd rfl hne
  | @step p c h hp ih =>
    by_cases hap : a = p
    · subst hap; exact ⟨c, hp, BcAnc.refl c⟩
    · rcases ih hap with ⟨k, hk, hkp⟩
      exact ⟨k, hk, BcAnc.step hkp hp⟩

theorem bcA_anc_chain {par : Nat → Option Nat} {a b y : Nat} (h1 : BcAnc par a y)
    (h2 : BcAnc par b y) : BcAnc par a b ∨ BcAnc par b a := by
  induction h1 with
  | refl => exact Or.inr h2
  | @step p c h hp ih =>
    by_cases hbc : b = c
    · subst hbc; exact Or.inl (BcAnc.step h hp)
    · rcases bcA_anc_parent h2 hbc with ⟨q, hq, hbq⟩
      have : q = p := by rw [hp] at hq; exact (Option.some.inj hq).symm
      subst this
      exact ih hbq

theorem bcA_root_top {par : Nat → Option Nat} {r w : Nat} (hr : par r = none)
    (h : BcAnc par w r) : w = r := by
  by_cases hw : w = r
  · exact hw
  · rcases bcA_anc_parent h hw with ⟨q, hq, _⟩
    rw [hr] at hq; cases hq

theorem bcA_root_exists {adj : Nat → List Nat} {nodes : List Nat} {par : Nat → Option Nat}
    {D L : Nat → Nat} (F : BcForest adj nodes par D L) :
    ∀ n y, y ∈ nodes → D y < n → ∃ r, BcAnc par r y ∧ par r = none := by
  intro n
  induction n with
  | zero => intro y _ h; omega
  | succ n ih =>
    intro y hy hD
    cases hp : par y with
    | none => exact ⟨y, BcAnc.refl y, hp⟩
    | some p =>
      have ht := F.tree _ _ hp
      rcases ih p ht.2.1 (by omega) with ⟨r, hr, hr0⟩
      exact ⟨r, BcAnc.step hr hp, hr0⟩

theorem bcA_tree_walk {par : Nat → Option Nat} {R : Nat → Nat → Prop} {t a : Nat}
    (h : BcAnc par t a)
    (hR : ∀ z p, par z = some p → BcAnc par t p → BcAnc par z a → R z p) : BcWalk R a t := by
  induction h with
  | refl => exact BcWalk.refl _
  | @step p c h hp ih =>
    refine BcWalk.step (hR c p hp h (BcAnc.refl c)) (ih ?_)
    intro z q hzq htq hzp
    exact hR z q hzq htq (BcAnc.step hzp hp)

theorem bcA_low_anc {adj : Nat → List Nat} {nodes : List Nat} {par : Nat → Option Nat}
    {D L : Nat → Nat} (F : BcForest adj nodes par D L) {v y : Nat} (h : BcAnc par v y) :
    L v ≤ L y := by
  induction h with
  | refl => exact Nat.le_refl _
  | step _ hp ih => exact Nat.le_trans ih (F.lowc _ _ hp)

theorem bcA_low_char {adj : Nat → List Nat} {nodes : List Nat} {par : Nat → Option Nat}
    {D L : Nat → Nat} (F : BcForest adj nodes par D L) (T : Nat) (hT : ∀ x, x ∈ nodes → D x < T) :
    ∀ n v, v ∈ nodes → T - D v < n →
      L v = D v ∨ ∃ y w, BcAnc par v y ∧ w ∈ adj y ∧ par y ≠ some w ∧ L v = D w := by
  intro n
  induction n with
  | zero => intro v _ h; omega
  | succ n ih =>
    intro v hv hn
    rcases F.loww v hv with h | ⟨w, hw, hpw, hL⟩ | ⟨c, hc, hL⟩
    · exact Or.inl h
    · exact Or.inr ⟨v, w, BcAnc.refl v, hw, hpw, hL⟩
    · have ht := F.tree _ _ hc
      have hcT := hT c ht.1
      have hvT := hT v hv
      rcases ih c ht.1 (by omega) with h | ⟨y, w, hy, hw, hpw, hLc⟩
      · refine Or.inr ⟨v, c, BcAnc.refl v, ht.2.2.1, ?_, by omega⟩
        intro hvc
        have := (F.tree _ _ hvc).2.2.2
        omega
      · exact Or.inr ⟨y, w, bcA_anc_trans (bcA_anc_child hc) hy, hw, hpw, by omega⟩

theorem bcA_low_char' {adj : Nat → List Nat} {nodes : List Nat} {par : Nat → Option Nat}
    {D L : Nat → Nat} (F : BcForest adj nodes par D L) (v : Nat) (hv : v ∈ nodes) :
    L v = D v ∨ ∃ y w, BcAnc par v y ∧ w ∈ adj y ∧ par y ≠ some w ∧ L v = D w := by
  rcases F.bnd with ⟨T, hT⟩
  exact bcA_low_char F T hT (T - D v + 1) v hv (by omega)

theorem bcA_root_closed {adj : Nat → List Nat} {nodes : List Nat} {par : Nat → Option Nat}
    {D L : Nat → Nat} (F : BcForest adj nodes par D L) {r y w : Nat} (hr : par r = none)
    (hy : BcAnc par r y) (hyn : y ∈ nodes) (hw : w ∈ adj y) : BcAnc par r w := by
  rcases F.cmp y w hyn hw with h | h
  · exact bcA_anc_trans hy h
  · rcases bcA_anc_chain hy h with h' | h'
    · exact h'
    · have := bcA_root_top hr h'
      subst this; exact BcAnc.refl _

/-! soundness -/

theorem bcA_sound_nonroot {adj : Nat → List Nat} {nodes : List Nat} {par : Nat → Option Nat}
    {D L : Nat → Nat} (F : BcForest adj nodes par D L) {x p c : Nat}
    (hxp : par x = some p) (hcx : par c = some x) (hL : D x ≤ L c) : BcArt adj x := by
  have htx := F.tree _ _ hxp
  have htc := F.tree _ _ hcx
  have hclosed : ∀ y w, BcAnc par c y → BcRav adj x y w → BcAnc par c w := by
    intro y w hy ⟨hw, hyx, hwx⟩
    have hyn : y ∈ nodes := bcA_anc_nodes_down F hy htc.1
    rcases F.cmp y w hyn hw with h | h
    · exact bcA_anc_trans hy h
    · rcases bcA_anc_chain hy h with h' | h'
      · exact h'
      · by_cases hwc : w = c
        · subst hwc; exact BcAnc.refl _
        · rcases bcA_anc_parent h' hwc with ⟨q, hq, hwq⟩
          have hqx : q = x := by rw [hcx] at hq; exact (Option.some.inj hq).symm
          subst hqx
          rcases bcA_anc_parent hwq hwx with ⟨q', hq', hwq'⟩
          have hqp : q' = p := by rw [hxp] at hq'; exact (Option.some.inj hq').symm
          subst hqp
          have hDw := bcA_anc_Dle F hwq'
          by_cases hpy : par y = some w
          · by_cases hyc : c = y
            · subst hyc
              rw [hcx] at hpy
              exact absurd (Option.some.inj hpy).symm hwx
            · rcases bcA_anc_parent hy hyc with ⟨q2, hq2, hcq2⟩
              have : q2 = w := by rw [hpy] at hq2; exact (Option.some.inj hq2).symm
              subst this
              exact hcq2
          · have h1 := F.lowa y w hyn hw hpy
            have h2 := bcA_low_anc F hy
            have h3 := htx.2.2.2
            omega
  refine ⟨c, p, ?_, ?_, ?_, ?_, ?_⟩
  · intro h; subst h; have := htc.2.2.2; omega
  · intro h; subst h; have := htx.2.2.2; omega
  · exact bcA_walk_one htc.2.2.1
  · exact bcA_walk_one (F.sym p x htx.2.1 htx.2.2.1)
  · intro hw
    have := bcA_walk_closed (S := fun y => BcAnc par c y) hclosed hw (BcAnc.refl c)
    have h1 := bcA_anc_Dle F this
    have h2 := htx.2.2.2
    have h3 := htc.2.2.2
    omega

theorem bcA_sound_root {adj : Nat → List Nat} {nodes : List Nat} {par : Nat → Option Nat}
    {D L : Nat → Nat} (F : BcForest adj nodes par D L) {x c1 c2 : Nat}
    (hx : par x = none) (hne : c1 ≠ c2) (h1 : par c1 = some x) (h2 : par c2 = some x) :
    BcArt adj x := by
  have ht1 := F.tree _ _ h1
  have ht2 := F.tree _ _ h2
  have hclosed : ∀ y w, BcAnc par c1 y → BcRav adj x y w → BcAnc par c1 w := by
    intro y w hy ⟨hw, hyx, hwx⟩
    have hyn : y ∈ nodes := bcA_anc_nodes_down F hy ht1.1
    rcases F.cmp y w hyn hw with h | h
    · exact bcA_anc_trans hy h
    · rcases bcA_anc_chain hy h with h' | h'
      · exact h'
      · by_cases hwc : w = c1
        · subst hwc; exact BcAnc.refl _
        · rcases bcA_anc_parent h' hwc with ⟨q, hq, hwq⟩
          have hqx : q = x := by rw [h1] at hq; exact (Option.some.inj hq).symm
          subst hqx
          exact absurd (bcA_root_top hx hwq) hwx
  refine ⟨c1, c2, ?_, ?_, ?_, ?_, ?_⟩
  · intro h; subst h; have := ht1.2.2.2; omega
  · intro h; subst h; have := ht2.2.2.2; omega
  · exact bcA_walk_one ht1.2.2.1
  · exact bcA_walk_one ht2.2.2.1
  · intro hw
    have := bcA_walk_closed (S := fun y => BcAnc par c1 y) hclosed hw (BcAnc.refl c1)
    rcases bcA_anc_parent this hne with ⟨q, hq, hcq⟩
    have hqx : q = x := by rw [h2] at hq; exact (Option.some.inj hq).symm
    subst hqx
    have h3 := bcA_anc_Dle F hcq
    have h4 := ht1.2.2.2
    omega

/-! completeness -/

/-- avoiding step between nodes (symmetric) -/
def bcA_Rn (adj : Nat → List Nat) (nodes : List Nat) (x : Nat) (u v : Nat) : Prop :=
  v ∈ adj u ∧ u ≠ x ∧ v ≠ x ∧ u ∈ nodes

theorem bcA_Rn_symm {adj : Nat → List Nat} {nodes : List Nat} {par : Nat → Option Nat}
    {D L : Nat → Nat} (F : BcForest adj nodes par D L) (x : Nat) :
    ∀ u v, bcA_Rn adj nodes x u v → bcA_Rn adj nodes x v u := by
  intro u v ⟨h1, h2, h3, h4⟩
  exact ⟨F.sym u v h4 h1, h3, h2, F.adjn u v h1⟩

theorem bcA_Rn_rav {adj : Nat → List Nat} {nodes : List Nat} {x : Nat} :
    ∀ u v, bcA_Rn adj nodes x u v → BcRav adj x u v := by
  intro u v ⟨h1, h2, h3, _⟩
  exact ⟨h1, h2, h3⟩

theorem bcA_up_walk {adj : Nat → List Nat} {nodes : List Nat} {par : Nat → Option Nat}
    {D L : Nat → Nat} (F : BcForest adj nodes par D L) {x t a : Nat} (h : BcAnc par t a)
    (hav : ∀ z, BcAnc par t z → BcAnc par z a → z ≠ x) : BcWalk (bcA_Rn adj nodes x) a t := by
  refine bcA_tree_walk h ?_
  intro z q hzq htq hza
  have ht := F.tree _ _ hzq
  exact ⟨F.sym q z ht.2.1 ht.2.2.1, hav z (BcAnc.step htq hzq) hza,
    hav q htq (bcA_anc_trans (bcA_anc_child hzq) hza), ht.1⟩

theorem bcA_up_walk_sub {adj : Nat → List Nat} {nodes : List Nat} {par : Nat → Option Nat}
    {D L : Nat → Nat} (F : BcForest adj nodes par D L) {x k a : Nat} (hk : par k = some x)
    (h : BcAnc par k a) : BcWalk (bcA_Rn adj nodes x) a k := by
  refine bcA_up_walk F h ?_
  intro z hkz _ hzx
  subst hzx
  have h1 := bcA_anc_Dle F hkz
  have h2 := (F.tree _ _ hk).2.2.2
  omega

theorem bcA_up_walk_out {adj : Nat → List Nat} {nodes : List Nat} {par : Nat → Option Nat}
    {D L : Nat → Nat} (F : BcForest adj nodes par D L) {x r a : Nat} (h : BcAnc par r a)
    (hxa : ¬ BcAnc par x a) : BcWalk (bcA_Rn adj nodes x) a r := by
  refine bcA_up_walk F h ?_
  intro z _ hza hzx
  subst hzx
  exact hxa hza

theorem bcA_to_root {adj : Nat → List Nat} {nodes : List Nat} {par : Nat → Option Nat}
    {D L : Nat → Nat} (F : BcForest adj nodes par D L) {x r : Nat}
    (hr : par r = none) (hrx : BcAnc par r x) (hxn : x ∈ nodes)
    (hno : ∀ c, par c = some x → L c < D x)
    {a : Nat} (hax : a ≠ x) (hra : BcAnc par r a) : BcWalk (bcA_Rn adj nodes x) a r := by
  by_cases hxa : BcAnc par x a
  · rcases bcA_anc_childOf hxa (Ne.symm hax) with ⟨k, hk, hka⟩
    have htk := F.tree _ _ hk
    have hLk := hno k hk
    rcases bcA_low_char' F k htk.1 with h | ⟨y, w, hky, hw, hpw, hLw⟩
    · have := htk.2.2.2; omega
    · have hyn : y ∈ nodes := bcA_anc_nodes_down F hky htk.1
      have hDy := bcA_anc_Dle F hky
      have hDk := htk.2.2.2
      have hry : BcAnc par r y := bcA_anc_trans hrx (bcA_anc_trans (bcA_anc_child hk) hky)
      have hrw : BcAnc par r w := bcA_root_closed F hr hry hyn hw
      have hxw : ¬ BcAnc par x w := by
        intro h
        have := bcA_anc_Dle F h
        omega
      have w1 := bcA_up_walk_sub F hk hka
      have w2 := bcA_walk_symm (bcA_Rn_symm F x) (bcA_up_walk_sub F hk hky)
      have w3 : BcWalk (bcA_Rn adj nodes x) y w := by
        refine bcA_walk_one ⟨hw, ?_, ?_, hyn⟩
        · intro h; subst h; omega
        · intro h; subst h; omega
      have w4 := bcA_up_walk_out F hrw hxw
      exact bcA_walk_trans w1 (bcA_walk_trans w2 (bcA_walk_trans w3 w4))
  · exact bcA_up_walk_out F hra hxa

theorem bcA_complete {adj : Nat → List Nat} {nodes : List Nat} {par : Nat → Option Nat}
    {D L : Nat → Nat} (F : BcForest adj nodes par D L) (x : Nat) (hx : x ∈ nodes)
    (hart : BcArt adj x) : BcApCond par D L (fun c => c ∈ nodes) x := by
  apply Classical.byContradiction
  intro hn
  rcases hart with ⟨a, b, hax, hbx, hwa, hwb, hnw⟩
  rcases F.bnd with ⟨T, hT⟩
  rcases bcA_root_exists F T x hx (hT x hx) with ⟨r, hrx, hr⟩
  have hcl : ∀ y w, (BcAnc par r y ∧ y ∈ nodes) → BcRadj adj y w → (BcAnc par r w ∧ w ∈ nodes) := by
    intro y w ⟨h1, h2⟩ hw
    exact ⟨bcA_root_closed F hr h1 h2 hw, F.adjn y w hw⟩
  have hra := (bcA_walk_closed (S := fun y => BcAnc par r y ∧ y ∈ nodes) hcl hwa ⟨hrx, hx⟩).1
  have hrb := (bcA_walk_closed (S := fun y => BcAnc par r y ∧ y ∈ nodes) hcl hwb ⟨hrx, hx⟩).1
  apply hnw
  refine bcA_walk_mono (bcA_Rn_rav (nodes := nodes)) ?_
  cases hpx : par x with
  | some p =>
    have hno : ∀ c, par c = some x → L c < D x := by
      intro c hc
      apply Nat.lt_of_not_le
      intro hle
      exact hn (Or.inr ⟨p, c, hpx, (F.tree _ _ hc).1, hc, hle⟩)
    have wa := bcA_to_root F hr hrx hx hno hax hra
    have wb := bcA_to_root F hr hrx hx hno hbx hrb
    exact bcA_walk_trans wa (bcA_walk_symm (bcA_Rn_symm F x) wb)
  | none =>
    have hrx' : r = x := bcA_root_top hpx hrx
    subst hrx'
    rcases bcA_anc_childOf hra (Ne.symm hax) with ⟨ka, hka, hkaa⟩
    rcases bcA_anc_childOf hrb (Ne.symm hbx) with ⟨kb, hkb, hkbb⟩
    have hk : ka = kb := by
      apply Classical.byContradiction
      intro hne
      exact hn (Or.inl ⟨hpx, ka, kb, hne, (F.tree _ _ hka).1, (F.tree _ _ hkb).1, hka, hkb⟩)
    subst hk
    exact bcA_walk_trans (bcA_up_walk_sub F hka hkaa)
      (bcA_walk_symm (bcA_Rn_symm F _) (bcA_up_walk_sub F hka hkbb))

theorem bcA_ap_iff {adj : Nat → List Nat} {nodes : List Nat} {par : Nat → Option Nat} {D L : Nat → Nat}
    (F : BcForest adj nodes par D L) (x : Nat) (hx : x ∈ nodes) :
    BcApCond par D L (fun c => c ∈ nodes) x ↔ BcArt adj x := by
  constructor
  · intro h
    rcases h with ⟨hx0, c1, c2, hne, _, _, h1, h2⟩ | ⟨p, c, hxp, _, hcx, hL⟩
    · exact bcA_sound_root F hx0 hne h1 h2
    · exact bcA_sound_nonroot F hxp hcx hL
  · exact bcA_complete F x hx

/-! ## graph theory over `BcForest` (bridges) -/
/-! ### bridges: generic lemmas -/

theorem bcB_walk_trans {R : Nat → Nat → Prop} {a b c : Nat}
    (h1 : BcWalk R a b) (h2 : BcWalk R b c) : BcWalk R a c := by
  induction h1 with
  | refl _ => exact h2
  | step h _ ih => exact BcWalk.step h (ih h2)

theorem bcB_walk_one {R : Nat → Nat → Prop} {a b : Nat} (h : R a b) : BcWalk R a b :=
  BcWalk.step h (BcWalk.refl _)

theorem bcB_walk_mono {R R' : Nat → Nat → Prop} (hm : ∀ u v, R u v → R' u v) {a b : Nat}
    (h : BcWalk R a b) : BcWalk R' a b := by
  induction h with
  | refl _ => exact BcWalk.refl _
  | step h _ ih => exact BcWalk.step (hm _ _ h) ih

theorem bcB_walk_closed {R : Nat → Nat → Prop} (S : Nat → Prop)
    (hc : ∀ y w, S y → R y w → S w) {a b : Nat} (h : BcWalk R a b) (ha : S a) : S b := by
  induction h with
  | refl _ => exact ha
  | step h _ ih => exact ih (hc _ _ ha h)

theorem bcB_walk_rev {R R' : Nat → Nat → Prop} (S : Nat → Prop)
    (hc : ∀ u v, S u → R u v → S v ∧ R' v u) {a b : Nat} (h : BcWalk R a b) (ha : S a) :
    BcWalk R' b a := by
  induction h with
  | refl _ => exact BcWalk.refl _
  | step h _ ih => exact bcB_walk_trans (ih (hc _ _ ha h).1) (bcB_walk_one (hc _ _ ha h).2)

theorem bcB_anc_trans {par : Nat → Option Nat} {a b c : Nat}
    (h1 : BcAnc par a b) (h2 : BcAnc par b c) : BcAnc par a c := by
  induction h2 with
  | refl => exact h1
  | step _ hp ih => exact BcAnc.step ih hp

theorem bcB_anc_D {adj : Nat → List Nat} {nodes : List Nat} {par : Nat → Option Nat} {D L : Nat → Nat}
    (F : BcForest adj nodes par D L) {a c : Nat} (h : BcAnc par a c) : a = c ∨ D a < D c := by
  induction h with
  | refl => exact Or.inl rfl
  | step _ hp ih =>
    have h4 := (F.tree _ _ hp).2.2.2
    rcases ih with h | h
    · subst h; exact Or.inr h4
    · exact Or.inr (by omega)

theorem bcB_anc_le {adj : Nat → List Nat} {nodes : List Nat} {par : Nat → Option Nat} {D L : Nat → Nat}
    (F : BcForest adj nodes par D L) {a c : Nat} (h : BcAnc par a c) : D a ≤ D c := by
  rcases bcB_anc_D F h with h | h
  · subst h; exact Nat.le_refl _
  · omega

theorem bcB_anc_nodes_down {adj : Nat → List Nat} {nodes : List Nat} {par : Nat → Option Nat}
    {D L : Nat → Nat} (F : BcForest adj nodes par D L) {a c : Nat} (h : BcAnc par a c)
    (ha : a ∈ nodes) : c ∈ nodes := by
  induction h with
  | refl => exact ha
  | step _ hp _ => exact (F.tree _ _ hp).1

theorem bcB_anc_par {par : Nat → Option Nat} {a c : Nat} (h : BcAnc par a c) (hne : a ≠ c) :
    ∃ p, par c = some p ∧ BcAnc par a p := by
  cases h with
  | refl => exact absurd rfl hne
  | step h1 hp => exact ⟨_, hp, h1⟩

theorem bcB_anc_chain {par : Nat → Option Nat} {a y : Nat} (h : BcAnc par a y) :
    ∀ b, BcAnc par b y → BcAnc par a b ∨ BcAnc par b a := by
  induction h with
  | refl => intro b hb; exact Or.inr hb
  | step h1 hp ih =>
    intro b hb
    cases hb with
    | refl => exact Or.inl (BcAnc.step h1 hp)
    | step hb1 hp' =>
      rw [hp] at hp'
      cases hp'
      exact ih _ hb1

/-- walking up along parents -/
theorem bcB_walk_up {par : Nat → Option Nat} {R : Nat → Nat → Prop} {t a : Nat} (h : BcAnc par t a) :
    (∀ z p, par z = some p → BcAnc par t p → BcAnc par z a → R z p) → BcWalk R a t := by
  induction h with
  | refl => intro _; exact BcWalk.refl _
  | step h1 hp ih =>
    intro hr
    refine BcWalk.step (hr _ _ hp h1 (BcAnc.refl _)) (ih ?_)
    intro z p' hz hp' hza
    exact hr z p' hz hp' (BcAnc.step hza hp)

/-- walking down along parents -/
theorem bcB_walk_down {par : Nat → Option Nat} {R : Nat → Nat → Prop} {t a : Nat} (h : BcAnc par t a) :
    (∀ z p, par z = some p → BcAnc par t p → BcAnc par z a → R p z) → BcWalk R t a := by
  induction h with
  | refl => intro _; exact BcWalk.refl _
  | step h1 hp ih =>
    intro hr
    refine bcB_walk_trans (ih ?_) (bcB_walk_one (hr _ _ hp h1 (BcAnc.refl _)))
    intro z p' hz hp' hza
    exact hr z p' hz hp' (BcAnc.step hza hp)

theorem bcB_low_anc {adj : Nat → List Nat} {nodes : List Nat} {par : Nat → Option Nat} {D L : Nat → Nat}
    (F : BcForest adj nodes par D L) {v y : Nat} (h : BcAnc par v y) : L v ≤ L y := by
  induction h with
  | refl => exact Nat.le_refl _
  | step _ hp ih => exact Nat.le_trans ih (F.lowc _ _ hp)

theorem bcB_low_wit_aux {adj : Nat → List Nat} {nodes : List Nat} {par : Nat → Option Nat}
    {D L : Nat → Nat} (F : BcForest adj nodes par D L) (T : Nat) (hT : ∀ x, x ∈ nodes → D x < T) :
    ∀ n v, v ∈ nodes → T - D v ≤ n →
      L v = D v ∨ ∃ y w, BcAnc par v y ∧ w ∈ adj y ∧ par y ≠ some w ∧ L v = D w := by
  intro n
  induction n with
  | zero => intro v hv hn; have := hT v hv; omega
  | succ n ih =>
    intro v hv hn
    rcases F.loww v hv with h | ⟨w, hw, hpw, hl⟩ | ⟨c, hc, hl⟩
    · exact Or.inl h
    · exact Or.inr ⟨v, w, BcAnc.refl _, hw, hpw, hl⟩
    · obtain ⟨hcn, _, hca, hd⟩ := F.tree _ _ hc
      have hTc := hT c hcn
      rcases ih c hcn (by omega) with h | ⟨y, w, hy, hw, hpw, hlw⟩
      · refine Or.inr ⟨v, c, BcAnc.refl _, hca, ?_, by omega⟩
        intro hvc
        have := (F.tree _ _ hvc).2.2.2
        omega
      · exact Or.inr ⟨y, w, bcB_anc_trans (BcAnc.step (BcAnc.refl _) hc) hy, hw, hpw, by omega⟩

theorem bcB_low_wit {adj : Nat → List Nat} {nodes : List Nat} {par : Nat → Option Nat}
    {D L : Nat → Nat} (F : BcForest adj nodes par D L) {v : Nat} (hv : v ∈ nodes) :
    L v = D v ∨ ∃ y w, BcAnc par v y ∧ w ∈ adj y ∧ par y ≠ some w ∧ L v = D w := by
  obtain ⟨T, hT⟩ := F.bnd
  exact bcB_low_wit_aux F T hT (T - D v) v hv (Nat.le_refl _)

theorem bcB_rwo_swap {adj : Nat → List Nat} {a b u v : Nat} (h : BcRwo adj a b u v) :
    BcRwo adj b a u v := by
  refine ⟨h.1, ?_⟩
  intro hh
  exact h.2 (hh.symm)

theorem bcB_rwo_sym {adj : Nat → List Nat} {nodes : List Nat} {par : Nat → Option Nat}
    {D L : Nat → Nat} (F : BcForest adj nodes par D L) {a b u v : Nat} (hu : u ∈ nodes)
    (h : BcRwo adj a b u v) : v ∈ nodes ∧ BcRwo adj a b v u := by
  refine ⟨F.adjn _ _ h.1, F.sym _ _ hu h.1, ?_⟩
  intro hh
  apply h.2
  rcases hh with ⟨h1, h2⟩ | ⟨h1, h2⟩
  · exact Or.inr ⟨h2, h1⟩
  · exact Or.inl ⟨h2, h1⟩

theorem bcB_walk_sym {adj : Nat → List Nat} {nodes : List Nat} {par : Nat → Option Nat}
    {D L : Nat → Nat} (F : BcForest adj nodes par D L) {a b x y : Nat} (hx : x ∈ nodes)
    (h : BcWalk (BcRwo adj a b) x y) : BcWalk (BcRwo adj a b) y x :=
  bcB_walk_rev (fun z => z ∈ nodes) (fun _ _ hu hr => bcB_rwo_sym F hu hr) h hx

/-! ### soundness -/

theorem bcB_sub_closed {adj : Nat → List Nat} {nodes : List Nat} {par : Nat → Option Nat}
    {D L : Nat → Nat} (F : BcForest adj nodes par D L) {u v : Nat} (hp : par v = some u)
    (hl : D u < L v) {y w : Nat} (hy : BcAnc par v y) (hr : BcRwo adj u v y w) : BcAnc par v w := by
  obtain ⟨hvn, hun, hva, hd⟩ := F.tree _ _ hp
  have hyn : y ∈ nodes := bcB_anc_nodes_down F hy hvn
  rcases F.cmp y w hyn hr.1 with h | h
  · exact bcB_anc_trans hy h
  · rcases bcB_anc_chain h v hy with h2 | h2
    · by_cases hwv : w = v
      · subst hwv; exact BcAnc.refl _
      · obtain ⟨p, hp', hwp⟩ := bcB_anc_par h2 hwv
        rw [hp] at hp'
        cases hp'
        have hwu := bcB_anc_le F hwp
        by_cases hpy : par y = some w
        · by_cases hyv : y = v
          · subst hyv
            rw [hp] at hpy
            cases hpy
            exact absurd (Or.inr ⟨rfl, rfl⟩) hr.2
          · obtain ⟨p', hp'', hvp⟩ := bcB_anc_par hy (fun e => hyv e.symm)
            rw [hpy] at hp''
            cases hp''
            exact hvp
        · have h1 := F.lowa y w hyn hr.1 hpy
          have h2 := bcB_low_anc F hy
          omega
    · exact h2

theorem bcB_sound {adj : Nat → List Nat} {nodes : List Nat} {par : Nat → Option Nat}
    {D L : Nat → Nat} (F : BcForest adj nodes par D L) {u v : Nat} (hp : par v = some u)
    (hl : D u < L v) :
    ¬ BcWalk (BcRwo adj u v) v u ∧ ¬ BcWalk (BcRwo adj u v) u v := by
  obtain ⟨hvn, hun, hva, hd⟩ := F.tree _ _ hp
  have hnu : ¬ BcAnc par v u := by
    intro h
    have := bcB_anc_le F h
    omega
  constructor
  · intro hw
    exact hnu (bcB_walk_closed (fun y => BcAnc par v y)
      (fun y w hy hr => bcB_sub_closed F hp hl hy hr) hw (BcAnc.refl _))
  · intro hw
    have := bcB_walk_closed (fun y => y ∈ nodes ∧ ¬ BcAnc par v y)
      (fun y w hy hr => by
        obtain ⟨hwn, hr'⟩ := bcB_rwo_sym F hy.1 hr
        exact ⟨hwn, fun hvw => hy.2 (bcB_sub_closed F hp hl hvw hr')⟩) hw ⟨hun, hnu⟩
    exact this.2 (BcAnc.refl _)

/-! ### completeness -/

theorem bcB_complete_key {adj : Nat → List Nat} {nodes : List Nat} {par : Nat → Option Nat}
    {D L : Nat → Nat} (F : BcForest adj nodes par D L) {u v : Nat} (hun : u ∈ nodes)
    (huv : BcAnc par u v) (hne : u ≠ v) (hn : ¬ (par v = some u ∧ D u < L v)) :
    BcWalk (BcRwo adj u v) v u := by
  have hvn : v ∈ nodes := bcB_anc_nodes_down F huv hun
  have hD : D u < D v := by
    rcases bcB_anc_D F huv with h | h
    · exact absurd h hne
    · exact h
  by_cases hp : par v = some u
  · have hl : L v ≤ D u := by
      by_cases h : D u < L v
      · exact absurd ⟨hp, h⟩ hn
      · omega
    rcases bcB_low_wit F hvn with h | ⟨y, w, hy, hw, hpw, hlw⟩
    · omega
    · have hyn : y ∈ nodes := bcB_anc_nodes_down F hy hvn
      have hvy := bcB_anc_le F hy
      have hwu : BcAnc par w u := by
        rcases F.cmp y w hyn hw with h | h
        · have := bcB_anc_le F (bcB_anc_trans hy h)
          omega
        · rcases bcB_anc_chain h u (bcB_anc_trans huv hy) with h2 | h2
          · exact h2
          · rcases bcB_anc_D F h2 with h3 | h3
            · subst h3; exact BcAnc.refl _
            · omega
      have w1 : BcWalk (BcRwo adj u v) v y := by
        refine bcB_walk_down hy ?_
        intro z p hz hvp hzy
        obtain ⟨_, _, hza, hdz⟩ := F.tree _ _ hz
        have := bcB_anc_le F hvp
        refine ⟨hza, ?_⟩
        intro hh
        rcases hh with ⟨h1, h2⟩ | ⟨h1, h2⟩
        · subst h1; omega
        · subst h1; subst h2; omega
      have w2 : BcRwo adj u v y w := by
        refine ⟨hw, ?_⟩
        intro hh
        rcases hh with ⟨h1, h2⟩ | ⟨h1, h2⟩
        · subst h1; omega
        · subst h1; subst h2; exact hpw hp
      have w3 : BcWalk (BcRwo adj u v) w u := by
        refine bcB_walk_down hwu ?_
        intro z p hz hwp hzu
        obtain ⟨_, _, hza, hdz⟩ := F.tree _ _ hz
        have := bcB_anc_le F hzu
        refine ⟨hza, ?_⟩
        intro hh
        rcases hh with ⟨h1, h2⟩ | ⟨h1, h2⟩
        · subst h2; omega
        · subst h1; subst h2; omega
      exact bcB_walk_trans w1 (BcWalk.step w2 w3)
  · refine bcB_walk_up huv ?_
    intro z p hz hup hzv
    obtain ⟨_, hpn, hza, hdz⟩ := F.tree _ _ hz
    refine ⟨F.sym _ _ hpn hza, ?_⟩
    intro hh
    rcases hh with ⟨h1, h2⟩ | ⟨h1, h2⟩
    · subst h1; subst h2; omega
    · subst h1; subst h2; exact hp hz

theorem bcB_br_iff {adj : Nat → List Nat} {nodes : List Nat} {par : Nat → Option Nat} {D L : Nat → Nat}
    (F : BcForest adj nodes par D L) (a b : Nat) :
    BcBrCond par D L (fun c => c ∈ nodes) (a, b) ↔ (a < b ∧ a ∈ nodes ∧ BcBridge adj a b) := by
  constructor
  · rintro ⟨u, v, hvn, hp, hl, he⟩
    obtain ⟨_, hun, hva, hd⟩ := F.tree _ _ hp
    have huv : u ≠ v := by intro h; subst h; omega
    obtain ⟨s1, s2⟩ := bcB_sound F hp hl
    simp only [Prod.mk.injEq] at he
    by_cases hlt : u < v
    · have ha : a = u := by omega
      have hb : b = v := by omega
      subst ha; subst hb
      exact ⟨hlt, hun, hva, s2⟩
    · have ha : a = v := by omega
      have hb : b = u := by omega
      subst ha; subst hb
      refine ⟨by omega, hvn, F.sym _ _ hun hva, ?_⟩
      intro hw
      exact s1 (bcB_walk_mono (fun _ _ h => bcB_rwo_swap h) hw)
  · rintro ⟨hlt, han, hba, hnw⟩
    have hbn : b ∈ nodes := F.adjn _ _ hba
    rcases F.cmp a b han hba with h | h
    · have hc : par b = some a ∧ D a < L b := by
        apply Classical.byContradiction
        intro hn
        have hw := bcB_complete_key F han h (by omega) hn
        exact hnw (bcB_walk_sym F hbn hw)
      exact ⟨a, b, hbn, hc.1, hc.2, by simp only [Prod.mk.injEq]; omega⟩
    · have hc : par a = some b ∧ D b < L a := by
        apply Classical.byContradiction
        intro hn
        have hw := bcB_complete_key F hbn h (by omega) hn
        exact hnw (bcB_walk_mono (fun _ _ h => bcB_rwo_swap h) hw)
      exact ⟨b, a, han, hc.1, hc.2, by simp only [Prod.mk.injEq]; omega⟩

/-! ## the theorems -/

theorem bc_adjT_mem {g : Graph} {etype : Option Nat} {u v : Nat} (h : adjacentT g etype u v) :
    v ∈ nbrSet g etype .both u :=
  (mem_nbrSet_both_iff_adjacentT g etype u v h.2.1).2 h

theorem bc_connT_walk {g : Graph} {etype : Option Nat} {u w : Nat} (h : ConnT g etype u w) :
    BcWalk (BcRadj (nbrSet g etype .both)) u w := by
  induction h with
  | refl u => exact .refl u
  | step ha _ ih => exact .step (bc_adjT_mem ha) ih

theorem bc_connT_end {g : Graph} {etype : Option Nat} {u w : Nat} (h : ConnT g etype u w) :
    u = w ∨ g.hasNode w = true := by
  induction h with
  | refl u => exact .inl rfl
  | step ha _ ih =>
    rcases ih with ih | ih
    · subst ih; exact .inr ha.2.2.1
    · exact .inr ih

theorem bc_walk_connT {g : Graph} {etype : Option Nat} {u w : Nat}
    (h : BcWalk (BcRadj (nbrSet g etype .both)) u w) : g.hasNode u = true → ConnT g etype u w := by
  induction h with
  | refl a => intro _; exact .refl a
  | step hr _ ih =>
    intro hu
    have ha := (mem_nbrSet_both_iff_adjacentT g etype _ _ hu).1 hr
    exact .step ha (ih ha.2.2.1)

theorem bc_avoid_walk {g : Graph} {etype : Option Nat} {x a b : Nat} (h : ConnAvoid g etype x a b) :
    a ≠ x ∧ BcWalk (BcRav (nbrSet g etype .both) x) a b := by
  induction h with
  | refl u hu => exact ⟨hu, .refl u⟩
  | step hu ha _ ih => exact ⟨hu, .step ⟨bc_adjT_mem ha, hu, ih.1⟩ ih.2⟩

theorem bc_walk_avoid {g : Graph} {etype : Option Nat} {x a b : Nat}
    (h : BcWalk (BcRav (nbrSet g etype .both) x) a b) :
    a ≠ x → g.hasNode a = true → ConnAvoid g etype x a b := by
  induction h with
  | refl a => intro hax _; exact .refl a hax
  | step hr _ ih =>
    intro hax hu
    have ha := (mem_nbrSet_both_iff_adjacentT g etype _ _ hu).1 hr.1
    exact .step hax ha (ih hr.2.2 ha.2.2.1)

theorem bc_without_walk {g : Graph} {etype : Option Nat} {a b u w : Nat}
    (h : ConnWithout g etype a b u w) : BcWalk (BcRwo (nbrSet g etype .both) a b) u w := by
  induction h with
  | refl u => exact .refl u
  | step ha hn _ ih => exact .step ⟨bc_adjT_mem ha, hn⟩ ih

theorem bc_walk_without {g : Graph} {etype : Option Nat} {a b u w : Nat}
    (h : BcWalk (BcRwo (nbrSet g etype .both) a b) u w) :
    g.hasNode u = true → ConnWithout g etype a b u w := by
  induction h with
  | refl a => intro _; exact .refl a
  | step hr _ ih =>
    intro hu
    have ha := (mem_nbrSet_both_iff_adjacentT g etype _ _ hu).1 hr.1
    exact .step ha hr.2 (ih ha.2.2.1)

/-- the finished search of the model, as a `BcForest`, with the two answer lists characterised -/
theorem bcFinal_forest (g : Graph) (etype : Option Nat) :
    BcForest (nbrSet g etype .both) (g.nodes.map (·.id)) (nmGet (bcFinal g etype).parent)
        (tjNum (bcFinal g etype).disc) (tjNum (bcFinal g etype).low) ∧
      (∀ x, x ∈ (bcFinal g etype).aps ↔
        BcApCond (nmGet (bcFinal g etype).parent) (tjNum (bcFinal g etype).disc)
          (tjNum (bcFinal g etype).low) (fun c => c ∈ g.nodes.map (·.id)) x) ∧
      (∀ e, e ∈ (bcFinal g etype).bridges ↔
        BcBrCond (nmGet (bcFinal g etype).parent) (tjNum (bcFinal g etype).disc)
          (tjNum (bcFinal g etype).low) (fun c => c ∈ g.nodes.map (·.id)) e) ∧
      (bcFinal g etype).bridges.Nodup := by
  rw [bcFinal_eq_F]
  rcases bcFinalF_spec g etype with ⟨hinv, hall⟩
  have h1 : ∀ c, bcBlk [] (bcFinalF g etype) c → c ∈ g.nodes.map (·.id) ∧
      nmGet (bcFinalF g etype).parent c = nmGet (bcFinalF g etype).parent c ∧
      tjNum (bcFinalF g etype).low c = tjNum (bcFinalF g etype).low c :=
    fun c hc => ⟨hinv.d.node c hc.1, rfl, rfl⟩
  have h1' : ∀ c, c ∈ g.nodes.map (·.id) → bcBlk [] (bcFinalF g etype) c ∧
      nmGet (bcFinalF g etype).parent c = nmGet (bcFinalF g etype).parent c ∧
      tjNum (bcFinalF g etype).low c = tjNum (bcFinalF g etype).low c :=
    fun c hc => ⟨⟨hall c hc, by simp⟩, rfl, rfl⟩
  refine ⟨bcInv_forest (bcAdjOk_nbrSet g etype) hinv hall, fun x => ?_, fun e => ?_, hinv.b.brnd⟩
  · rw [hinv.b.aps x]
    exact ⟨BcApCond.congr h1 (fun _ _ _ _ => ⟨rfl, rfl⟩), BcApCond.congr h1' (fun _ _ _ _ => ⟨rfl, rfl⟩)⟩
  · rw [hinv.b.brs e]
    exact ⟨BcBrCond.congr h1 (fun _ _ _ _ => ⟨rfl, rfl⟩), BcBrCond.congr h1' (fun _ _ _ _ => ⟨rfl, rfl⟩)⟩

/-- fuel adequacy, stated on the model: every node is discovered, discovery numbers are injective and
    below the final clock, every parent entry is an adjacency from a smaller to a larger number -/
theorem bicon_fuel_adequate (g : Graph) (etype : Option Nat) :
    (∀ n, n ∈ g.nodes.map (·.id) → nmGet (bcFinal g etype).disc n ≠ none) ∧
    (∀ x y k, nmGet (bcFinal g etype).disc x = some k → nmGet (bcFinal g etype).disc y = some k → x = y) ∧
    (∀ x k, nmGet (bcFinal g etype).disc x = some k → k < (bcFinal g etype).time) ∧
    (∀ c p, nmGet (bcFinal g etype).parent c = some p →
      c ∈ nbrSet g etype .both p ∧ tjNum (bcFinal g etype).disc p < tjNum (bcFinal g etype).disc c) := by
  rw [bcFinal_eq_F]
  rcases bcFinalF_spec g etype with ⟨hinv, hall⟩
  exact ⟨hall, hinv.d.inj, hinv.d.lt, fun c p h => ⟨(hinv.d.tree c p h).2.2.1, (hinv.d.tree c p h).2.2.2⟩⟩

theorem ap_exact (g : Graph) (etype : Option Nat) (hn : NodesUnique g) (x : Nat) :
    x ∈ articulationPoints g etype ↔ IsArticulation g etype x := by
  have _ := hn
  rcases bcFinal_forest g etype with ⟨F, haps, _, _⟩
  unfold articulationPoints
  rw [List.mem_eraseDups, haps x]
  constructor
  · intro hc
    have hx : x ∈ g.nodes.map (·.id) := by
      rcases hc with ⟨_, c1, _, _, _, _, p1, _⟩ | ⟨_, c, _, _, pc, _⟩
      · exact (F.tree c1 x p1).2.1
      · exact (F.tree c x pc).2.1
    have hxn := (kc_hasNode_iff g x).2 hx
    rcases (bcA_ap_iff F x hx).1 hc with ⟨a, b, hax, hbx, hwa, hwb, hno⟩
    exact ⟨a, b, hax, hbx, bc_walk_connT hwa hxn, bc_walk_connT hwb hxn, fun h => hno (bc_avoid_walk h).2⟩
  · rintro ⟨a, b, hax, hbx, hca, hcb, hno⟩
    have hxn : g.hasNode x = true := by
      cases hca with
      | refl => exact absurd rfl hax
      | step ha _ => exact ha.2.1
    have han : g.hasNode a = true := by
      rcases bc_connT_end hca with h | h
      · exact absurd h.symm hax
      · exact h
    have hx := (kc_hasNode_iff g x).1 hxn
    exact (bcA_ap_iff F x hx).2 ⟨a, b, hax, hbx, bc_connT_walk hca, bc_connT_walk hcb,
      fun h => hno (bc_walk_avoid h hax han)⟩

theorem ap_sound (g : Graph) (etype : Option Nat) (hn : NodesUnique g) (x : Nat)
    (h : x ∈ articulationPoints g etype) : IsArticulation g etype x := (ap_exact g etype hn x).1 h

theorem ap_complete (g : Graph) (etype : Option Nat) (hn : NodesUnique g) (x : Nat)
    (h : IsArticulation g etype x) : x ∈ articulationPoints g etype := (ap_exact g etype hn x).2 h

theorem bridges_exact (g : Graph) (etype : Option Nat) (hn : NodesUnique g) (a b : Nat) :
    (a, b) ∈ bridgePairs g etype ↔ (a < b ∧ IsBridgePair g etype a b) := by
  have _ := hn
  rcases bcFinal_forest g etype with ⟨F, _, hbrs, _⟩
  unfold bridgePairs
  rw [List.mem_reverse, hbrs (a, b), bcB_br_iff F a b]
  constructor
  · rintro ⟨hlt, ha, hadj, hno⟩
    have han := (kc_hasNode_iff g a).2 ha
    exact ⟨hlt, (mem_nbrSet_both_iff_adjacentT g etype a b han).1 hadj, fun h => hno (bc_without_walk h)⟩
  · rintro ⟨hlt, hadj, hno⟩
    exact ⟨hlt, (kc_hasNode_iff g a).1 hadj.2.1, bc_adjT_mem hadj, fun h => hno (bc_walk_without h hadj.2.1)⟩

theorem bridges_sound (g : Graph) (etype : Option Nat) (hn : NodesUnique g) (a b : Nat)
    (h : (a, b) ∈ bridgePairs g etype) : a < b ∧ IsBridgePair g etype a b := (bridges_exact g etype hn a b).1 h

theorem bridges_complete (g : Graph) (etype : Option Nat) (hn : NodesUnique g) (a b : Nat)
    (hlt : a < b) (h : IsBridgePair g etype a b) : (a, b) ∈ bridgePairs g etype :=
  (bridges_exact g etype hn a b).2 ⟨hlt, h⟩

theorem bridges_nodup (g : Graph) (etype : Option Nat) (hn : NodesUnique g) : (bridgePairs g etype).Nodup := by
  have _ := hn
  unfold bridgePairs
  exact (List.reverse_perm _).nodup_iff.2 (bcFinal_forest g etype).2.2.2

/-! ### closed examples -/

/-- the path 1—2—3 and the triangle 3—4—5—3 -/
def bcExG : Graph :=
  { nodes := [⟨1, none⟩, ⟨2, none⟩, ⟨3, none⟩, ⟨4, none⟩, ⟨5, none⟩],
    edges := [⟨1, 1, 2, false, 0, none, none⟩, ⟨2, 2, 3, false, 0, none, none⟩,
              ⟨3, 3, 4, false, 0, none, none⟩, ⟨4, 4, 5, false, 0, none, none⟩,
              ⟨5, 5, 3, false, 0, none, none⟩] }

/-- two nodes joined by two parallel edges (one of them directed) -/
def bcExP : Graph :=
  { nodes := [⟨1, none⟩, ⟨2, none⟩],
    edges := [⟨1, 1, 2, false, 0, none, none⟩, ⟨2, 2, 1, true, 0, none, none⟩] }

theorem bc_articulationPoints_eq_F (g : Graph) (etype : Option Nat) :
    articulationPoints g etype = (bcFinalF g etype).aps.eraseDups := by
  unfold articulationPoints; rw [bcFinal_eq_F]

theorem bc_bridgePairs_eq_F (g : Graph) (etype : Option Nat) :
    bridgePairs g etype = (bcFinalF g etype).bridges.reverse := by
  unfold bridgePairs; rw [bcFinal_eq_F]

example : articulationPoints bcExG none = [2, 3] := by rw [bc_articulationPoints_eq_F]; decide

example : bridgePairs bcExG none = [(2, 3), (1, 2)] := by rw [bc_bridgePairs_eq_F]; decide

/-- as sets: articulation points {2, 3}, bridges {(1,2), (2,3)} -/
example : (∀ x, x ∈ articulationPoints bcExG none ↔ (x = 2 ∨ x = 3)) ∧
    (∀ e, e ∈ bridgePairs bcExG none ↔ (e = (1, 2) ∨ e = (2, 3))) := by
  have h1 : articulationPoints bcExG none = [2, 3] := by rw [bc_articulationPoints_eq_F]; decide
  have h2 : bridgePairs bcExG none = [(2, 3), (1, 2)] := by rw [bc_bridgePairs_eq_F]; decide
  rw [h1, h2]
  constructor
  · intro x; simp only [List.mem_cons, List.not_mem_nil, or_false]
  · intro e; simp only [List.mem_cons, List.not_mem_nil, or_false]; exact Or.comm

/-- simple view: a pair joined only by two parallel edges IS a bridge pair; no articulation point -/
example : bridgePairs bcExP none = [(1, 2)] ∧ articulationPoints bcExP none = [] := by
  rw [bc_bridgePairs_eq_F, bc_articulationPoints_eq_F]; decide

/-- only edges of type 1: nothing is adjacent, nothing is reported -/
example : bridgePairs bcExG (some 1) = [] ∧ articulationPoints bcExG (some 1) = [] := by
  rw [bc_bridgePairs_eq_F, bc_articulationPoints_eq_F]; decide

end Neumann.Paths
