import NeumannModel.Paths.AlgoSpec
/-
  C18 — `count_triangles` (forward algorithm): every triangle of the simple undirected view of the
  graph is found exactly once, and the per-node counters count the triangles through the node.
-/
namespace Neumann.Paths

/-! ### adjacency facts for `Direction::Both` -/

theorem tri_linked_symm {g : Graph} {etype : Option Nat} {u v : Nat} (h : linked g etype u v) :
    linked g etype v u := by
  rcases h with ⟨e, he, ht, h⟩
  exact ⟨e, he, ht, h.symm⟩

theorem tri_mem_rawT_both (g : Graph) (etype : Option Nat) (n v : Nat) :
    v ∈ neighborsRawT g etype .both n ↔ v ≠ n ∧ linked g etype n v := by
  unfold neighborsRawT linked
  simp only [Dir.hasOut, Dir.hasIn, if_true, List.mem_append, List.mem_filterMap, outEdges, inEdges,
    List.mem_filter, inOut, inIn]
  constructor
  · rintro (⟨e, ⟨he, _⟩, hv⟩ | ⟨e, ⟨he, _⟩, hv⟩)
    · split at hv
      · simp at hv
      · rename_i ht
        simp only [Bool.not_eq_true', Bool.not_eq_false] at ht
        split at hv
        · rename_i h1
          simp only [Bool.and_eq_true, beq_iff_eq, bne_iff_ne, ne_eq] at h1
          simp only [Option.some.injEq] at hv
          subst hv
          exact ⟨h1.2, e, he, ht, .inl ⟨h1.1, rfl⟩⟩
        · split at hv
          · rename_i h1
            simp only [Bool.and_eq_true, beq_iff_eq, bne_iff_ne, ne_eq] at h1
            simp only [Option.some.injEq] at hv
            subst hv
            exact ⟨h1.2, e, he, ht, .inr ⟨rfl, h1.1⟩⟩
          · simp at hv
    · split at hv
      · simp at hv
      · rename_i ht
        simp only [Bool.not_eq_true', Bool.not_eq_false] at ht
        split at hv
        · rename_i h1
          simp only [Bool.and_eq_true, beq_iff_eq, bne_iff_ne, ne_eq] at h1
          simp only [Option.some.injEq] at hv
          subst hv
          exact ⟨h1.2, e, he, ht, .inr ⟨rfl, h1.1⟩⟩
        · split at hv
          · rename_i h1
            simp only [Bool.and_eq_true, beq_iff_eq, bne_iff_ne, ne_eq] at h1
            simp only [Option.some.injEq] at hv
            subst hv
            exact ⟨h1.2, e, he, ht, .inl ⟨h1.1, rfl⟩⟩
          · simp at hv
  · rintro ⟨hne, e, he, ht, h⟩
    rcases h with ⟨h1, h2⟩ | ⟨h1, h2⟩
    · left
      subst h1; subst h2
      refine ⟨e, ⟨he, by simp⟩, ?_⟩
      have : ¬ e.dst = e.src := hne
      simp [ht, this]
    · right
      subst h1; subst h2
      refine ⟨e, ⟨he, by simp⟩, ?_⟩
      have : ¬ e.src = e.dst := hne
      simp [ht, this]

theorem tri_mem_nbrSet_both (g : Graph) (etype : Option Nat) (u v : Nat) :
    v ∈ nbrSet g etype .both u ↔ v ≠ u ∧ g.hasNode v = true ∧ linked g etype u v := by
  unfold nbrSet
  rw [List.mem_filter, List.mem_eraseDups, tri_mem_rawT_both]
  constructor
  · rintro ⟨⟨h1, h2⟩, h3⟩
    exact ⟨h1, h3, h2⟩
  · rintro ⟨h1, h3, h2⟩
    exact ⟨⟨h1, h2⟩, h3⟩

theorem tri_nodup_eraseDups_aux : ∀ (n : Nat) (l : List Nat), l.length ≤ n → l.eraseDups.Nodup := by
  intro n
  induction n with
  | zero =>
    intro l hl
    have : l = [] := List.length_eq_zero_iff.1 (by omega)
    subst this
    simp
  | succ k ih =>
    intro l hl
    cases l with
    | nil => simp
    | cons a as =>
      rw [List.eraseDups_cons, List.nodup_cons]
      have h1 : (as.filter (fun b => !b == a)).length ≤ as.length := List.length_filter_le _ _
      refine ⟨?_, ih _ (by simp only [List.length_cons] at hl; omega)⟩
      intro hm
      rw [List.mem_eraseDups, List.mem_filter] at hm
      simp at hm

theorem tri_nodup_eraseDups (l : List Nat) : l.eraseDups.Nodup :=
  tri_nodup_eraseDups_aux l.length l (Nat.le_refl _)

theorem tri_nodup_nbrSet (g : Graph) (etype : Option Nat) (dir : Dir) (u : Nat) :
    (nbrSet g etype dir u).Nodup := by
  unfold nbrSet
  exact List.Pairwise.filter _ (tri_nodup_eraseDups _)

theorem tri_hasNode_iff (g : Graph) (u : Nat) : g.hasNode u = true ↔ u ∈ g.nodes.map (·.id) := by
  unfold Graph.hasNode
  simp only [List.any_eq_true, beq_iff_eq, List.mem_map]

/-! ### the (degree, id) order -/

theorem tri_rankLt_iff (deg : Nat → Nat) (a b : Nat) :
    rankLt deg a b = true ↔ (deg a < deg b ∨ (deg a = deg b ∧ a < b)) := by
  simp only [rankLt, Bool.or_eq_true, Bool.and_eq_true, decide_eq_true_eq, beq_iff_eq]

theorem tri_skip_iff (deg : Nat → Nat) (u v : Nat) (hne : v ≠ u) :
    (decide (deg u > deg v) || (deg u == deg v && decide (u > v))) = !rankLt deg u v := by
  rw [Bool.eq_iff_iff]
  simp only [Bool.not_eq_true', ← Bool.not_eq_true, tri_rankLt_iff, Bool.or_eq_true, Bool.and_eq_true,
    decide_eq_true_eq, beq_iff_eq]
  omega

/-! ### the double loop as a comprehension -/

/-- key of the unordered pair in `counted_edges` -/
def triKey (u v : Nat) : Nat × Nat := if u < v then (u, v) else (v, u)

theorem triKey_eq {u v u' v' : Nat} (h : triKey u v = triKey u' v') :
    (u = u' ∧ v = v') ∨ (u = v' ∧ v = u') := by
  unfold triKey at h
  split at h <;> split at h <;> simp only [Prod.mk.injEq] at h <;> omega

/-- what one visit of the ordered pair `(u, v)` contributes when the `counted` test does not fire -/
def triOut (adj : Nat → List Nat) (deg : Nat → Nat) (p : Nat × Nat) : List (Nat × Nat × Nat) :=
  if rankLt deg p.1 p.2 then
    ((adj p.1).filter (fun w => rankLt deg p.2 w && (adj p.2).contains w)).map (fun w => (p.1, p.2, w))
  else []

/-- invariant on `counted`: every key belongs to an ordered pair that passed the rank test and does
    not come again -/
def TriInv (deg : Nat → Nat) (counted : List (Nat × Nat)) (ps : List (Nat × Nat)) : Prop :=
  ∀ k, k ∈ counted → ∃ u' v', k = triKey u' v' ∧ rankLt deg u' v' = true ∧ (u', v') ∉ ps

theorem triEdge_step (adj : Nat → List Nat) (deg : Nat → Nat) (u v : Nat) (st : TriSt)
    (ps : List (Nat × Nat)) (hne : v ≠ u) (hnot : (u, v) ∉ ps)
    (hinv : TriInv deg st.counted ((u, v) :: ps)) :
    (triEdge adj deg u v st).found = (triOut adj deg (u, v)).reverse ++ st.found ∧
      TriInv deg (triEdge adj deg u v st).counted ps := by
  have hk : (if u < v then (u, v) else (v, u)) = triKey u v := rfl
  have hinv' : TriInv deg st.counted ps := by
    intro k hkm
    rcases hinv k hkm with ⟨u', v', h1, h2, h3⟩
    exact ⟨u', v', h1, h2, fun h => h3 (List.mem_cons_of_mem _ h)⟩
  simp only [triEdge, hk, tri_skip_iff deg u v hne]
  by_cases hc : st.counted.contains (triKey u v) = true
  · rw [if_pos hc]
    refine ⟨?_, hinv'⟩
    rw [List.contains_iff_mem] at hc
    rcases hinv _ hc with ⟨u', v', h1, h2, h3⟩
    have hr : rankLt deg u v = false := by
      rcases triKey_eq h1 with ⟨ha, hb⟩ | ⟨ha, hb⟩
      · subst ha; subst hb
        exact absurd (List.mem_cons_self) h3
      · subst ha; subst hb
        rw [tri_rankLt_iff] at h2
        rw [← Bool.not_eq_true, tri_rankLt_iff]
        omega
    simp only [triOut, hr, Bool.false_eq_true, if_false, List.reverse_nil, List.nil_append]
  · rw [if_neg hc]
    by_cases hr : rankLt deg u v = true
    · simp only [hr, Bool.not_true, Bool.false_eq_true, if_false, triOut, if_true]
      refine ⟨trivial, ?_⟩
      intro k hkm
      rcases List.mem_cons.1 hkm with h | h
      · exact ⟨u, v, h, hr, hnot⟩
      · exact hinv' k h
    · simp only [Bool.not_eq_true] at hr
      simp only [hr, Bool.not_false, if_true, triOut, Bool.false_eq_true, if_false, List.reverse_nil,
        List.nil_append]
      exact ⟨trivial, hinv'⟩

theorem triFold_found (adj : Nat → List Nat) (deg : Nat → Nat) :
    ∀ (ps : List (Nat × Nat)) (st : TriSt), ps.Nodup → (∀ p, p ∈ ps → p.2 ≠ p.1) →
      TriInv deg st.counted ps →
      (ps.foldl (fun st p => triEdge adj deg p.1 p.2 st) st).found =
        (ps.flatMap (triOut adj deg)).reverse ++ st.found := by
  intro ps
  induction ps with
  | nil => intro st _ _ _; simp
  | cons p ps ih =>
    intro st hnd hne hinv
    rw [List.nodup_cons] at hnd
    obtain ⟨u, v⟩ := p
    have hs := triEdge_step adj deg u v st ps (hne (u, v) List.mem_cons_self) hnd.1 hinv
    rw [List.foldl_cons, ih _ hnd.2 (fun p hp => hne p (List.mem_cons_of_mem _ hp)) hs.2, hs.1,
      List.flatMap_cons, List.reverse_append, List.append_assoc]

/-- the ordered pairs the double loop visits, in order -/
def triPairs (adj : Nat → List Nat) (nodes : List Nat) : List (Nat × Nat) :=
  nodes.flatMap (fun u => (adj u).map (fun v => (u, v)))

theorem triPairs_fold (adj : Nat → List Nat) (deg : Nat → Nat) (nodes : List Nat) (st : TriSt) :
    nodes.foldl (fun st u => triNode adj deg u st) st =
      (triPairs adj nodes).foldl (fun st p => triEdge adj deg p.1 p.2 st) st := by
  unfold triPairs
  rw [List.foldl_flatMap]
  simp only [triNode, List.foldl_map]

theorem mem_triPairs (adj : Nat → List Nat) (nodes : List Nat) (u v : Nat) :
    (u, v) ∈ triPairs adj nodes ↔ u ∈ nodes ∧ v ∈ adj u := by
  unfold triPairs
  simp only [List.mem_flatMap, List.mem_map, Prod.mk.injEq]
  constructor
  · rintro ⟨a, ha, b, hb, h1, h2⟩
    subst h1; subst h2
    exact ⟨ha, hb⟩
  · rintro ⟨h1, h2⟩
    exact ⟨u, h1, v, h2, rfl, rfl⟩

theorem nodup_triPairs (adj : Nat → List Nat) (nodes : List Nat) (hn : nodes.Nodup)
    (ha : ∀ u, (adj u).Nodup) : (triPairs adj nodes).Nodup := by
  unfold triPairs List.Nodup
  rw [List.pairwise_flatMap]
  constructor
  · intro u _
    rw [List.pairwise_map]
    exact (ha u).imp (fun h h' => h (by simp only [Prod.mk.injEq, true_and] at h'; exact h'))
  · refine hn.imp ?_
    intro a b hab x hx y hy hxy
    simp only [List.mem_map] at hx hy
    rcases hx with ⟨_, _, h1⟩
    rcases hy with ⟨_, _, h2⟩
    rw [← h1, ← h2] at hxy
    simp only [Prod.mk.injEq] at hxy
    exact hab hxy.1

/-- the comprehension `triFound` computes when node ids are unique -/
def triComp (adj : Nat → List Nat) (deg : Nat → Nat) (nodes : List Nat) : List (Nat × Nat × Nat) :=
  (triPairs adj nodes).flatMap (triOut adj deg)

theorem triFound_eq_comp (g : Graph) (etype : Option Nat) (hn : NodesUnique g) :
    triFound g etype true =
      triComp (fun n => nbrSet g etype .both n) (fun n => (nbrSet g etype .both n).length)
        (g.nodes.map (·.id)) := by
  unfold triFound triComp
  simp only [if_true]
  rw [triPairs_fold, triFold_found]
  · simp
  · exact nodup_triPairs _ _ hn (fun u => tri_nodup_nbrSet g etype .both u)
  · rintro ⟨u, v⟩ hp
    rw [mem_triPairs] at hp
    exact ((tri_mem_nbrSet_both g etype u v).1 hp.2).1
  · intro k hk
    simp at hk

theorem mem_triOut (adj : Nat → List Nat) (deg : Nat → Nat) (p : Nat × Nat) (t : Nat × Nat × Nat) :
    t ∈ triOut adj deg p ↔
      t.1 = p.1 ∧ t.2.1 = p.2 ∧ rankLt deg p.1 p.2 = true ∧ t.2.2 ∈ adj p.1 ∧
        rankLt deg p.2 t.2.2 = true ∧ t.2.2 ∈ adj p.2 := by
  unfold triOut
  obtain ⟨a, b, c⟩ := t
  split
  · rename_i hr
    simp only [List.mem_map, List.mem_filter, Bool.and_eq_true, List.contains_iff_mem, Prod.mk.injEq]
    constructor
    · rintro ⟨w, ⟨h1, h2, h3⟩, h4, h5, h6⟩
      subst h6
      exact ⟨h4.symm, h5.symm, hr, h1, h2, h3⟩
    · rintro ⟨h1, h2, _, h4, h5, h6⟩
      exact ⟨c, ⟨h4, h5, h6⟩, h1.symm, h2.symm, rfl⟩
  · rename_i hr
    simp only [List.not_mem_nil, false_iff]
    rintro ⟨_, _, h, _⟩
    exact hr h

theorem mem_triComp (adj : Nat → List Nat) (deg : Nat → Nat) (nodes : List Nat) (u v w : Nat) :
    (u, v, w) ∈ triComp adj deg nodes ↔
      u ∈ nodes ∧ v ∈ adj u ∧ w ∈ adj u ∧ w ∈ adj v ∧ rankLt deg u v = true ∧ rankLt deg v w = true := by
  unfold triComp
  simp only [List.mem_flatMap, mem_triOut]
  constructor
  · rintro ⟨⟨a, b⟩, hp, h1, h2, h3, h4, h5, h6⟩
    simp only at h1 h2 h3 h4 h5 h6
    subst h1; subst h2
    rw [mem_triPairs] at hp
    exact ⟨hp.1, hp.2, h4, h6, h3, h5⟩
  · rintro ⟨h1, h2, h3, h4, h5, h6⟩
    exact ⟨(u, v), (mem_triPairs adj nodes u v).2 ⟨h1, h2⟩, rfl, rfl, h5, h3, h6, h4⟩

theorem nodup_triOut (adj : Nat → List Nat) (deg : Nat → Nat) (ha : ∀ u, (adj u).Nodup) (p : Nat × Nat) :
    (triOut adj deg p).Nodup := by
  unfold triOut
  split
  · unfold List.Nodup
    rw [List.pairwise_map]
    refine (List.Pairwise.filter _ (ha p.1)).imp ?_
    intro a b hab h
    simp only [Prod.mk.injEq, true_and] at h
    exact hab h
  · exact List.nodup_nil

theorem nodup_triComp (adj : Nat → List Nat) (deg : Nat → Nat) (nodes : List Nat) (hn : nodes.Nodup)
    (ha : ∀ u, (adj u).Nodup) : (triComp adj deg nodes).Nodup := by
  unfold triComp List.Nodup
  rw [List.pairwise_flatMap]
  refine ⟨fun p _ => nodup_triOut adj deg ha p, ?_⟩
  refine (nodup_triPairs adj nodes hn ha).imp ?_
  intro p q hpq x hx y hy hxy
  rw [mem_triOut] at hx hy
  subst hxy
  apply hpq
  rw [Prod.ext_iff]
  exact ⟨hx.1.symm.trans hy.1, hx.2.1.symm.trans hy.2.1⟩

/-! ### sorting a triple by id -/

/-- the triple with its components in ascending order -/
def sort3 (t : Nat × Nat × Nat) : Nat × Nat × Nat :=
  if t.1 ≤ t.2.1 then
    if t.2.1 ≤ t.2.2 then (t.1, t.2.1, t.2.2)
    else if t.1 ≤ t.2.2 then (t.1, t.2.2, t.2.1) else (t.2.2, t.1, t.2.1)
  else
    if t.1 ≤ t.2.2 then (t.2.1, t.1, t.2.2)
    else if t.2.1 ≤ t.2.2 then (t.2.1, t.2.2, t.1) else (t.2.2, t.2.1, t.1)

theorem sort3_spec {u v w a b c : Nat} (h : sort3 (u, v, w) = (a, b, c)) :
    a ≤ b ∧ b ≤ c ∧
      ((a = u ∧ b = v ∧ c = w) ∨ (a = u ∧ b = w ∧ c = v) ∨ (a = v ∧ b = u ∧ c = w) ∨
       (a = v ∧ b = w ∧ c = u) ∨ (a = w ∧ b = u ∧ c = v) ∨ (a = w ∧ b = v ∧ c = u)) := by
  unfold sort3 at h
  simp only at h
  repeat' split at h
  all_goals (simp only [Prod.mk.injEq] at h; omega)

theorem sort3_eq_of {u v w a b c : Nat} (hab : a < b) (hbc : b < c)
    (hp : (a = u ∧ b = v ∧ c = w) ∨ (a = u ∧ b = w ∧ c = v) ∨ (a = v ∧ b = u ∧ c = w) ∨
       (a = v ∧ b = w ∧ c = u) ∨ (a = w ∧ b = u ∧ c = v) ∨ (a = w ∧ b = v ∧ c = u)) :
    sort3 (u, v, w) = (a, b, c) := by
  unfold sort3
  simp only
  repeat' split
  all_goals (simp only [Prod.mk.injEq]; omega)

theorem sort3_corner (t : Nat × Nat × Nat) (x : Nat) :
    (x = (sort3 t).1 ∨ x = (sort3 t).2.1 ∨ x = (sort3 t).2.2) ↔ (x = t.1 ∨ x = t.2.1 ∨ x = t.2.2) := by
  unfold sort3
  repeat' split
  all_goals (simp only <;> omega)

/-! ### the triangles found are exactly the triangles of the simple undirected view -/

theorem tri_adjacentT_symm {g : Graph} {etype : Option Nat} {u v : Nat} (h : adjacentT g etype u v) :
    adjacentT g etype v u :=
  ⟨fun e => h.1 e.symm, h.2.2.1, h.2.1, tri_linked_symm h.2.2.2⟩

theorem tri_mem_nbrSet_of_adjacentT {g : Graph} {etype : Option Nat} {u v : Nat}
    (h : adjacentT g etype u v) : v ∈ nbrSet g etype .both u :=
  (tri_mem_nbrSet_both g etype u v).2 ⟨fun e => h.1 e.symm, h.2.2.1, h.2.2.2⟩

theorem mem_triFound_iff (g : Graph) (etype : Option Nat) (hn : NodesUnique g) (u v w : Nat) :
    (u, v, w) ∈ triFound g etype true ↔
      g.hasNode u = true ∧ v ∈ nbrSet g etype .both u ∧ w ∈ nbrSet g etype .both u ∧
        w ∈ nbrSet g etype .both v ∧
        rankLt (fun n => (nbrSet g etype .both n).length) u v = true ∧
        rankLt (fun n => (nbrSet g etype .both n).length) v w = true := by
  rw [triFound_eq_comp g etype hn, mem_triComp, tri_hasNode_iff]

theorem nodup_triFound (g : Graph) (etype : Option Nat) (hn : NodesUnique g) :
    (triFound g etype true).Nodup := by
  rw [triFound_eq_comp g etype hn]
  exact nodup_triComp _ _ _ hn (fun u => tri_nodup_nbrSet g etype .both u)

theorem triFound_sound (g : Graph) (etype : Option Nat) (hn : NodesUnique g) {u v w a b c : Nat}
    (hm : (u, v, w) ∈ triFound g etype true) (hs : sort3 (u, v, w) = (a, b, c)) :
    IsTriangleT g etype a b c := by
  rw [mem_triFound_iff g etype hn] at hm
  obtain ⟨hu, hv, hw, hvw, _, _⟩ := hm
  rw [tri_mem_nbrSet_both] at hv hw hvw
  have huv : adjacentT g etype u v := ⟨fun e => hv.1 e.symm, hu, hv.2.1, hv.2.2⟩
  have huw : adjacentT g etype u w := ⟨fun e => hw.1 e.symm, hu, hw.2.1, hw.2.2⟩
  have hvw' : adjacentT g etype v w := ⟨fun e => hvw.1 e.symm, hv.2.1, hvw.2.1, hvw.2.2⟩
  have key : ∀ x y z, adjacentT g etype x y → adjacentT g etype x z → adjacentT g etype y z →
      x ≤ y → y ≤ z → IsTriangleT g etype x y z := by
    intro x y z h1 h2 h3 h4 h5
    have := h1.1
    have := h3.1
    exact ⟨by omega, by omega, h1, h3, h2⟩
  obtain ⟨h1, h2, hp⟩ := sort3_spec hs
  rcases hp with ⟨ha, hb, hc⟩ | ⟨ha, hb, hc⟩ | ⟨ha, hb, hc⟩ | ⟨ha, hb, hc⟩ | ⟨ha, hb, hc⟩ | ⟨ha, hb, hc⟩
  all_goals subst ha; subst hb; subst hc
  · exact key _ _ _ huv huw hvw' h1 h2
  · exact key _ _ _ huw huv (tri_adjacentT_symm hvw') h1 h2
  · exact key _ _ _ (tri_adjacentT_symm huv) hvw' huw h1 h2
  · exact key _ _ _ hvw' (tri_adjacentT_symm huv) (tri_adjacentT_symm huw) h1 h2
  · exact key _ _ _ (tri_adjacentT_symm huw) (tri_adjacentT_symm hvw') huv h1 h2
  · exact key _ _ _ (tri_adjacentT_symm hvw') (tri_adjacentT_symm huw) (tri_adjacentT_symm huv) h1 h2

theorem tri_rank_total (deg : Nat → Nat) {x y : Nat} (h : x ≠ y) :
    rankLt deg x y = true ∨ rankLt deg y x = true := by
  simp only [tri_rankLt_iff]
  omega

theorem triFound_complete (g : Graph) (etype : Option Nat) (hn : NodesUnique g) {a b c : Nat}
    (ht : IsTriangleT g etype a b c) :
    ∃ t, t ∈ triFound g etype true ∧ sort3 t = (a, b, c) := by
  obtain ⟨hab, hbc, h1, h2, h3⟩ := ht
  have m_ab := tri_mem_nbrSet_of_adjacentT h1
  have m_ba := tri_mem_nbrSet_of_adjacentT (tri_adjacentT_symm h1)
  have m_bc := tri_mem_nbrSet_of_adjacentT h2
  have m_cb := tri_mem_nbrSet_of_adjacentT (tri_adjacentT_symm h2)
  have m_ac := tri_mem_nbrSet_of_adjacentT h3
  have m_ca := tri_mem_nbrSet_of_adjacentT (tri_adjacentT_symm h3)
  have na := h1.2.1
  have nb := h1.2.2.1
  have nc := h2.2.2.1
  rcases tri_rank_total (fun n => (nbrSet g etype .both n).length) h1.1 with r1 | r1 <;>
  rcases tri_rank_total (fun n => (nbrSet g etype .both n).length) h2.1 with r2 | r2 <;>
  rcases tri_rank_total (fun n => (nbrSet g etype .both n).length) h3.1 with r3 | r3
  · exact ⟨(a, b, c), (mem_triFound_iff g etype hn _ _ _).2 ⟨na, m_ab, m_ac, m_bc, r1, r2⟩,
      sort3_eq_of hab hbc (by omega)⟩
  · exfalso
    simp only [tri_rankLt_iff] at r1 r2 r3
    omega
  · exact ⟨(a, c, b), (mem_triFound_iff g etype hn _ _ _).2 ⟨na, m_ac, m_ab, m_cb, r3, r2⟩,
      sort3_eq_of hab hbc (by omega)⟩
  · exact ⟨(c, a, b), (mem_triFound_iff g etype hn _ _ _).2 ⟨nc, m_ca, m_cb, m_ab, r3, r1⟩,
      sort3_eq_of hab hbc (by omega)⟩
  · exact ⟨(b, a, c), (mem_triFound_iff g etype hn _ _ _).2 ⟨nb, m_ba, m_bc, m_ac, r1, r3⟩,
      sort3_eq_of hab hbc (by omega)⟩
  · exact ⟨(b, c, a), (mem_triFound_iff g etype hn _ _ _).2 ⟨nb, m_bc, m_ba, m_ca, r2, r3⟩,
      sort3_eq_of hab hbc (by omega)⟩
  · exfalso
    simp only [tri_rankLt_iff] at r1 r2 r3
    omega
  · exact ⟨(c, b, a), (mem_triFound_iff g etype hn _ _ _).2 ⟨nc, m_cb, m_ca, m_ba, r2, r1⟩,
      sort3_eq_of hab hbc (by omega)⟩

/-- two strictly rank-increasing triples with the same corners are equal -/
theorem tri_increasing_unique (deg : Nat → Nat) {u v w u' v' w' : Nat}
    (h1 : rankLt deg u v = true) (h2 : rankLt deg v w = true)
    (h1' : rankLt deg u' v' = true) (h2' : rankLt deg v' w' = true)
    (hu : u' = u ∨ u' = v ∨ u' = w) (hv : v' = u ∨ v' = v ∨ v' = w) (hw : w' = u ∨ w' = v ∨ w' = w) :
    (u, v, w) = (u', v', w') := by
  simp only [tri_rankLt_iff] at h1 h2 h1' h2'
  rcases hu with hu | hu | hu <;> rcases hv with hv | hv | hv <;> rcases hw with hw | hw | hw <;>
    subst hu <;> subst hv <;> subst hw <;> first | rfl | (exfalso; omega)

theorem triFound_sort3_inj (g : Graph) (etype : Option Nat) (hn : NodesUnique g)
    {t t' : Nat × Nat × Nat} (ht : t ∈ triFound g etype true) (ht' : t' ∈ triFound g etype true)
    (h : sort3 t = sort3 t') : t = t' := by
  obtain ⟨u, v, w⟩ := t
  obtain ⟨u', v', w'⟩ := t'
  rw [mem_triFound_iff g etype hn] at ht ht'
  have hc : ∀ x, (x = u' ∨ x = v' ∨ x = w') → (x = u ∨ x = v ∨ x = w) := by
    intro x hx
    have := (sort3_corner (u', v', w') x).2 hx
    rw [← h] at this
    exact (sort3_corner (u, v, w) x).1 this
  exact tri_increasing_unique _ ht.2.2.2.2.1 ht.2.2.2.2.2 ht'.2.2.2.2.1 ht'.2.2.2.2.2
    (hc u' (.inl rfl)) (hc v' (.inr (.inl rfl))) (hc w' (.inr (.inr rfl)))

theorem triFound_sorted_exact (g : Graph) (etype : Option Nat) (hn : NodesUnique g) :
    ((triFound g etype true).map sort3).Nodup ∧
    ∀ a b c, (a, b, c) ∈ (triFound g etype true).map sort3 ↔ IsTriangleT g etype a b c := by
  constructor
  · unfold List.Nodup
    rw [List.pairwise_map]
    refine List.Pairwise.imp_of_mem ?_ (nodup_triFound g etype hn)
    intro t t' ht ht' hne h
    exact hne (triFound_sort3_inj g etype hn ht ht' h)
  · intro a b c
    rw [List.mem_map]
    constructor
    · rintro ⟨⟨u, v, w⟩, hm, hs⟩
      exact triFound_sound g etype hn hm hs
    · intro ht
      exact triFound_complete g etype hn ht

theorem triangles_exact (g : Graph) (etype : Option Nat) (hn : NodesUnique g) :
    ∃ ts : List (Nat × Nat × Nat), ts.Nodup ∧ ts.length = triangleCount g etype true ∧
      ∀ a b c, (a, b, c) ∈ ts ↔ IsTriangleT g etype a b c := by
  refine ⟨(triFound g etype true).map sort3, (triFound_sorted_exact g etype hn).1, ?_,
    (triFound_sorted_exact g etype hn).2⟩
  rw [List.length_map, triangleCount]

theorem triangles_per_node (g : Graph) (etype : Option Nat) (hn : NodesUnique g) (x : Nat) :
    ∃ ts : List (Nat × Nat × Nat), ts.Nodup ∧ ts.length = nodeTriangles g etype true x ∧
      ∀ a b c, (a, b, c) ∈ ts ↔ (IsTriangleT g etype a b c ∧ (x = a ∨ x = b ∨ x = c)) := by
  refine ⟨((triFound g etype true).filter (fun t => t.1 == x || t.2.1 == x || t.2.2 == x)).map sort3,
    ?_, ?_, ?_⟩
  · exact List.Nodup.sublist (List.Sublist.map sort3 List.filter_sublist)
      (triFound_sorted_exact g etype hn).1
  · rw [List.length_map, nodeTriangles, cornerCount]
  · intro a b c
    have hex := (triFound_sorted_exact g etype hn).2 a b c
    rw [List.mem_map] at hex
    rw [List.mem_map]
    constructor
    · rintro ⟨t, hm, hs⟩
      rw [List.mem_filter] at hm
      refine ⟨hex.1 ⟨t, hm.1, hs⟩, ?_⟩
      have hcor : x = t.1 ∨ x = t.2.1 ∨ x = t.2.2 := by
        have := hm.2
        simp only [Bool.or_eq_true, beq_iff_eq] at this
        omega
      have := (sort3_corner t x).2 hcor
      rw [hs] at this
      exact this
    · rintro ⟨ht, hx⟩
      obtain ⟨t, hm, hs⟩ := hex.2 ht
      refine ⟨t, ?_, hs⟩
      rw [List.mem_filter]
      refine ⟨hm, ?_⟩
      have hx' : x = (sort3 t).1 ∨ x = (sort3 t).2.1 ∨ x = (sort3 t).2.2 := by
        rw [hs]; exact hx
      have := (sort3_corner t x).1 hx'
      simp only [Bool.or_eq_true, beq_iff_eq]
      omega

/-! ### closed examples -/

/-- undirected triangle 1-2-3 with a pendant node 4 attached to node 1 -/
def triExG : Graph :=
  { nodes := [⟨1, none⟩, ⟨2, none⟩, ⟨3, none⟩, ⟨4, none⟩]
    edges := [⟨1, 1, 2, false, 0, none, none⟩, ⟨2, 2, 3, false, 0, none, none⟩,
              ⟨3, 3, 1, false, 0, none, none⟩, ⟨4, 1, 4, false, 0, none, none⟩] }

example : triangleCount triExG none true = 1 := by decide
example : nodeTriangles triExG none true 1 = 1 := by decide
example : nodeTriangles triExG none true 2 = 1 := by decide
example : nodeTriangles triExG none true 3 = 1 := by decide
example : nodeTriangles triExG none true 4 = 0 := by decide

/-- the complete graph on four nodes (mixed directed / undirected edges) -/
def triExK4 : Graph :=
  { nodes := [⟨1, none⟩, ⟨2, none⟩, ⟨3, none⟩, ⟨4, none⟩]
    edges := [⟨1, 1, 2, false, 0, none, none⟩, ⟨2, 1, 3, true, 0, none, none⟩,
              ⟨3, 4, 1, false, 0, none, none⟩, ⟨4, 2, 3, false, 0, none, none⟩,
              ⟨5, 4, 2, true, 0, none, none⟩, ⟨6, 3, 4, false, 0, none, none⟩] }

example : triangleCount triExK4 none true = 4 := by decide
example : nodeTriangles triExK4 none true 2 = 3 := by decide

end Neumann.Paths
