import NeumannModel.Paths.AlgoModel
/-!
  The early-stopping enumeration `awEnumTake` (what the driver runs, and what the engine does:
  `if paths.len() >= max_paths { break }`) is exactly the `take k` prefix of the full enumeration
  `awEnum`; hence `findAllWeightedPathsFast = findAllWeightedPaths`.
-/
namespace Neumann.Paths

/-- a prefix of a concatenation, with the first part already cut -/
theorem awf_take_append {α : Type} (X R : List α) (k : Nat) :
    X.take k ++ R.take (k - (X.take k).length) = (X ++ R).take k := by
  rw [List.take_append, List.length_take]
  have h : k - min k X.length = k - X.length := by omega
  rw [h]

/-- the body of `awEnum`'s `flatMap` -/
def awf_step (parents : MultiParent) (src d : Nat) (ns es : List Nat) : Nat × Nat → List Path :=
  fun (p, eid) => if ns.contains p then [] else awEnum parents src d p (p :: ns) (eid :: es)

/-- list version, given the node version at the same depth -/
theorem awf_list_of_node (parents : MultiParent) (src d : Nat)
    (ih : ∀ cur ns es k, awEnumTake parents src d cur ns es k = (awEnum parents src d cur ns es).take k)
    (ns es : List Nat) (ps : List (Nat × Nat)) (k : Nat) :
    awEnumTakeList parents src d ns es ps k = (ps.flatMap (awf_step parents src d ns es)).take k := by
  induction ps generalizing k with
  | nil => rw [awEnumTakeList]; simp only [List.flatMap_nil, List.take_nil]
  | cons a rest ihl =>
    obtain ⟨p, eid⟩ := a
    rw [awEnumTakeList]
    by_cases hk : k = 0
    · subst hk
      simp only [beq_self_eq_true, if_true, List.take_zero]
    · have hk' : (k == 0) = false := by simp only [beq_eq_false_iff_ne, ne_eq, hk, not_false_eq_true]
      simp only [hk', Bool.false_eq_true, if_false, List.flatMap_cons]
      rw [ihl]
      cases hc : ns.contains p with
      | true =>
        simp only [awf_step, hc, if_true, List.length_nil, Nat.sub_zero, List.nil_append]
      | false =>
        have hs : awf_step parents src d ns es (p, eid) = awEnum parents src d p (p :: ns) (eid :: es) := by
          simp only [awf_step, hc, Bool.false_eq_true, if_false]
        simp only [Bool.false_eq_true, if_false]
        rw [ih, hs]
        exact awf_take_append _ _ _

theorem awf_enum_unfold (parents : MultiParent) (src d cur : Nat) (ns es : List Nat) :
    awEnum parents src (d + 1) cur ns es =
      if cur == src then [{ nodes := ns, edges := es }]
      else match lookupParents parents cur with
        | none => []
        | some ps => ps.reverse.flatMap (awf_step parents src d ns es) := by
  rw [awEnum]; rfl

theorem awEnumTake_eq (parents : MultiParent) (src d cur : Nat) (ns es : List Nat) (k : Nat) :
    awEnumTake parents src d cur ns es k = (awEnum parents src d cur ns es).take k := by
  induction d generalizing cur ns es k with
  | zero =>
    rw [awEnumTake, awEnum]
    by_cases hk : k = 0
    · subst hk; simp only [beq_self_eq_true, if_true, List.take_zero]
    · have hk' : (k == 0) = false := by simp only [beq_eq_false_iff_ne, ne_eq, hk, not_false_eq_true]
      simp only [hk', Bool.false_eq_true, if_false]
      cases hc : (cur == src) with
      | true =>
        simp only [if_true]
        rw [List.take_of_length_le]
        simp only [List.length_cons, List.length_nil]; omega
      | false => simp only [Bool.false_eq_true, if_false, List.take_nil]
  | succ d ih =>
    rw [awEnumTake, awf_enum_unfold]
    by_cases hk : k = 0
    · subst hk; simp only [beq_self_eq_true, if_true, List.take_zero]
    · have hk' : (k == 0) = false := by simp only [beq_eq_false_iff_ne, ne_eq, hk, not_false_eq_true]
      simp only [hk', Bool.false_eq_true, if_false]
      cases hc : (cur == src) with
      | true =>
        simp only [if_true]
        rw [List.take_of_length_le]
        simp only [List.length_cons, List.length_nil]; omega
      | false =>
        simp only [Bool.false_eq_true, if_false]
        cases hl : lookupParents parents cur with
        | none => simp only [List.take_nil]
        | some ps =>
          exact awf_list_of_node parents src d ih ns es ps.reverse k

/-- the list version, in the shape of `awEnum`'s body -/
theorem awEnumTakeList_eq (parents : MultiParent) (src d : Nat) (ns es : List Nat)
    (ps : List (Nat × Nat)) (k : Nat) :
    awEnumTakeList parents src d ns es ps k =
      (ps.flatMap (fun (p, eid) =>
        if ns.contains p then [] else awEnum parents src d p (p :: ns) (eid :: es))).take k :=
  awf_list_of_node parents src d (awEnumTake_eq parents src d) ns es ps k

theorem findAllWeightedPathsFast_eq (g : Graph) (mp cap s t : Nat) :
    findAllWeightedPathsFast g mp cap s t = findAllWeightedPaths g mp cap s t := by
  unfold findAllWeightedPathsFast findAllWeightedPaths
  simp only [awEnumTake_eq]

/-- two parents of node 2, both leading to the source 0: the cut enumeration returns one path -/
example : awEnumTake [(2, [(0, 7), (1, 8)]), (1, [(0, 9)])] 0 5 2 [2] [] 1
    = [{ nodes := [0, 1, 2], edges := [9, 8] }] := by
  rw [awEnumTake_eq]; decide

example : (awEnumTake [(2, [(0, 7), (1, 8)]), (1, [(0, 9)])] 0 5 2 [2] [] 1).length = 1 := by
  rw [awEnumTake_eq]; decide

end Neumann.Paths
