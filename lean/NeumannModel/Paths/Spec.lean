import NeumannModel.Paths.Model
/-
  C18 — declarative side: what a "real" path is (walks that respect edge direction and the filter),
  independent of how the engine searches.  The theorems of `Props.lean` relate the model functions of
  `Model.lean` to these definitions.  The last section gives first-draft textbook definitions for the
  algorithm family; the definitions the theorems of `AlgoProps.lean` are stated against (with the
  engine's `edge_type` option) are in `AlgoSpec.lean`.
-/
namespace Neumann.Paths

/-- edge `e` may be used to go from `u` to `v`: along its direction, or either way when undirected -/
def Edge.joins (e : Edge) (u v : Nat) : Prop :=
  (e.src = u ∧ e.dst = v) ∨ (e.directed = false ∧ e.dst = u ∧ e.src = v)

instance (e : Edge) (u v : Nat) : Decidable (e.joins u v) := by unfold Edge.joins; exact inferInstance

/-! ### find_path -/

/-- one qualifying hop `u → v` over edge `e` of a `find_path(_, tgt, filter)` query: the edge exists,
    passes the edge filter, is usable in that direction, and `v` passes the node filter unless it is
    the target (the start node is never filtered). -/
def BStep (g : Graph) (flt : Flt) (tgt u v : Nat) (e : Edge) : Prop :=
  e ∈ g.edges ∧ flt.edgeOk e = true ∧ e.joins u v ∧ (v = tgt ∨ flt.nodeOk v = true)

/-- `BWalk g flt tgt u v n`: a qualifying walk of `n` hops from `u` to `v` -/
inductive BWalk (g : Graph) (flt : Flt) (tgt : Nat) : Nat → Nat → Nat → Prop
  | nil (u : Nat) : BWalk g flt tgt u u 0
  | cons {u v w n : Nat} (e : Edge) : BStep g flt tgt u v e → BWalk g flt tgt v w n → BWalk g flt tgt u w (n + 1)

/-- a returned (node list, edge-id list) pair is a chain of hops: consecutive nodes are joined by an
    existing edge carrying the listed id and satisfying `step` -/
def ChainOk (g : Graph) (step : Nat → Nat → Edge → Prop) : List Nat → List Nat → Prop
  | [_], [] => True
  | u :: v :: ns, eid :: es => (∃ e, e ∈ g.edges ∧ e.id = eid ∧ step u v e) ∧ ChainOk g step (v :: ns) es
  | _, _ => False

/-! ### find_weighted_path -/

def WStep (g : Graph) (u v : Nat) (e : Edge) : Prop := e ∈ g.edges ∧ e.joins u v

/-- `WWalk g u v c`: a direction-respecting walk from `u` to `v` of total weight `c` -/
inductive WWalk (g : Graph) : Nat → Nat → Int → Prop
  | nil (u : Nat) : WWalk g u u 0
  | cons {u v w : Nat} {c : Int} (e : Edge) : WStep g u v e → WWalk g v w c → WWalk g u w (e.w + c)

/-- the returned chain has exactly the returned total weight -/
def WChainOk (g : Graph) : List Nat → List Nat → Int → Prop
  | [_], [], c => c = 0
  | u :: v :: ns, eid :: es, c => ∃ e, e ∈ g.edges ∧ e.id = eid ∧ e.joins u v ∧ WChainOk g (v :: ns) es (c - e.w)
  | _, _, _ => False

def NonNeg (g : Graph) : Prop := ∀ e, e ∈ g.edges → 0 ≤ e.w

/-! ### astar_path -/

/-- one hop `u → v` over edge `e` for `astar_path(.., direction)`: the edge is followed forwards
    (`Outgoing`), backwards (`Incoming`) or either way (`Both`), undirected edges count in every
    direction, and `v` is a node that exists -/
def AStep (g : Graph) (dir : Dir) (u v : Nat) (e : Edge) : Prop :=
  e ∈ g.edges ∧ g.hasNode v = true ∧
    ((dir.hasOut = true ∧ e.joins u v) ∨ (dir.hasIn = true ∧ e.joins v u))

/-- `AWalk g dir s v c`: a walk from `s` to `v` of total weight `c` for that direction -/
inductive AWalk (g : Graph) (dir : Dir) (s : Nat) : Nat → Int → Prop
  | nil : AWalk g dir s s 0
  | snoc {v w : Nat} {c : Int} (e : Edge) : AWalk g dir s v c → AStep g dir v w e → AWalk g dir s w (c + e.w)

/-- every edge endpoint is an existing node (what `create_edge` / `delete_node` maintain) -/
def EndpointsExist (g : Graph) : Prop := ∀ e, e ∈ g.edges → g.hasNode e.src = true ∧ g.hasNode e.dst = true

/-! ### traverse -/

/-- `v` is a neighbour of `u` for `traverse(.., dir, .., edge_type, filter)`: a different node joined by an
    edge of the requested type passing the edge filter, followed forwards (`Outgoing`), backwards
    (`Incoming`) or either way (`Both`); undirected edges count in every direction. -/
def TStep (g : Graph) (etype : Option Nat) (dir : Dir) (flt : Flt) (u v : Nat) : Prop :=
  v ≠ u ∧ ∃ e, e ∈ g.edges ∧ typeOk etype e = true ∧ flt.edgeOk e = true ∧
    ((dir.hasOut = true ∧ e.joins u v) ∨ (dir.hasIn = true ∧ e.joins v u))

inductive TWalk (g : Graph) (etype : Option Nat) (dir : Dir) (flt : Flt) : Nat → Nat → Nat → Prop
  | nil (u : Nat) : TWalk g etype dir flt u u 0
  | cons {u v w n : Nat} : TStep g etype dir flt u v → TWalk g etype dir flt v w n → TWalk g etype dir flt u w (n + 1)

/-! ### find_variable_paths -/

/-- one hop of a variable-length match -/
def VStep (g : Graph) (cfg : VarCfg) (flt : Flt) (tgt u v : Nat) (e : Edge) : Prop :=
  e ∈ g.edges ∧ typesOk cfg.etypes e = true ∧ flt.edgeOk e = true ∧
    ((cfg.dir.hasOut = true ∧ e.joins u v) ∨ (cfg.dir.hasIn = true ∧ e.joins v u)) ∧
    (v = tgt ∨ flt.nodeOk v = true)

/-- what a variable-length match must be: a chain of qualifying hops from `src` to `tgt` whose hop count
    lies within the bounds, without repeated nodes unless cycles are allowed -/
def VarPathOk (g : Graph) (cfg : VarCfg) (flt : Flt) (src tgt : Nat) (p : Path) : Prop :=
  p.nodes.head? = some src ∧ p.nodes.getLast? = some tgt ∧
  ChainOk g (VStep g cfg flt tgt) p.nodes p.edges ∧
  cfg.minHops ≤ p.edges.length ∧ p.edges.length ≤ cfg.maxHops ∧
  (cfg.allowCycles = false → p.nodes.Nodup)

/-! ### Spec — textbook definitions for the algorithm family (superseded by `AlgoSpec.lean`) -/
section Spec

/-- undirected adjacency ignoring direction, self-loops and multiplicity (what `neighbors(_, Both)` gives) -/
def adjacent (g : Graph) (u v : Nat) : Prop := u ≠ v ∧ ∃ e, e ∈ g.edges ∧ ((e.src = u ∧ e.dst = v) ∨ (e.src = v ∧ e.dst = u))

/-- connected: reflexive-transitive closure of "some edge joins them, in either direction" -/
inductive Connected (g : Graph) : Nat → Nat → Prop
  | refl (u : Nat) : Connected g u u
  | step {u v w : Nat} : adjacent g u v → Connected g v w → Connected g u w

/-- `connected_components` is correct when two nodes get the same label iff they are `Connected` -/
def ComponentsSpec (g : Graph) (label : Nat → Nat) : Prop :=
  ∀ u v, g.hasNode u = true → g.hasNode v = true → (label u = label v ↔ Connected g u v)

/-- a set of edges (by id) is a spanning forest: acyclic (no edge joins two nodes already connected by
    the others) and connecting exactly what the whole graph connects -/
def subgraph (g : Graph) (ids : List Nat) : Graph := { g with edges := g.edges.filter (fun e => ids.contains e.id) }

def SpanningForest (g : Graph) (ids : List Nat) : Prop :=
  ids.Nodup ∧ (∀ i, i ∈ ids → ∃ e, e ∈ g.edges ∧ e.id = i) ∧
  (∀ u v, Connected g u v ↔ Connected (subgraph g ids) u v) ∧
  (∀ i, i ∈ ids → ∀ e, e ∈ g.edges → e.id = i → ¬ Connected (subgraph g (ids.erase i)) e.src e.dst)

def forestWeight (g : Graph) (ids : List Nat) : Int :=
  ((g.edges.filter (fun e => ids.contains e.id)).map Edge.w).foldl (· + ·) 0

/-- `minimum_spanning_tree(.., compute_forest)` is correct when its edges form a spanning forest of
    minimum total weight -/
def MstSpec (g : Graph) (ids : List Nat) : Prop :=
  SpanningForest g ids ∧ ∀ ids', SpanningForest g ids' → forestWeight g ids ≤ forestWeight g ids'

/-- degree of `u` inside the node set `s` (simple undirected adjacency) -/
def IsKCoreSet (g : Graph) (k : Nat) (s : List Nat) : Prop :=
  ∀ u, u ∈ s → ∃ ns : List Nat, ns.Nodup ∧ k ≤ ns.length ∧ ∀ v, v ∈ ns → v ∈ s ∧ adjacent g u v

/-- core number of `u` = the largest `k` such that `u` lies in some node set of minimum inner degree `k` -/
def CoreNumberSpec (g : Graph) (core : Nat → Nat) : Prop :=
  ∀ u, g.hasNode u = true →
    (∃ s, u ∈ s ∧ IsKCoreSet g (core u) s) ∧ ∀ k s, u ∈ s → IsKCoreSet g k s → k ≤ core u

/-- a triangle is an unordered triple of pairwise adjacent distinct nodes, listed with `a < b < c` -/
def IsTriangle (g : Graph) (a b c : Nat) : Prop :=
  a < b ∧ b < c ∧ adjacent g a b ∧ adjacent g b c ∧ adjacent g a c

def TriangleCountSpec (g : Graph) (count : Nat) : Prop :=
  ∃ ts : List (Nat × Nat × Nat), ts.Nodup ∧ ts.length = count ∧
    ∀ a b c, (a, b, c) ∈ ts ↔ IsTriangle g a b c

end Spec

end Neumann.Paths
