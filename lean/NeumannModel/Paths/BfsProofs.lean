import NeumannModel.Paths.Spec
/-
  C18 — `find_path` (BFS): the returned path is a real walk, it is a shortest one, `PathNotFound` is
  returned exactly when no qualifying walk exists, and the loop fuel `bfsFuel` is adequate.
  All statements are for every graph / filter / node pair (invariant proofs, no enumeration).
-/
namespace Neumann.Paths

/-! ### neighbour rule vs. `Edge.joins` / `BStep` -/

theorem bfsDirRule_iff {u v : Nat} {e : Edge} : bfsDirRule u e = some v ↔ e.joins u v := by
  unfold bfsDirRule Edge.joins
  by_cases h1 : e.src = u
  · by_cases h2 : e.dst = u <;> cases hd : e.directed <;> simp [h1, h2] <;> omega
  · by_cases h2 : e.dst = u <;> cases hd : e.directed <;> simp [h1, h2]

theorem bfsNbr_iff {flt : Flt} {t u v : Nat} {e : Edge} :
    bfsNbrWith bfsDirRule flt t u e = some v ↔
      flt.edgeOk e = true ∧ e.joins u v ∧ (v = t ∨ flt.nodeOk v = true) := by
  rw [← bfsDirRule_iff]
  unfold bfsNbrWith
  cases h1 : flt.edgeOk e
  · simp
  · cases h2 : bfsDirRule u e with
    | none => simp
    | some nb =>
      by_cases h3 : nb = t
      · simp [h3]
        intro h; subst h; simp
      · cases h4 : flt.nodeOk nb
        · simp [h3, h4]
          intro h; subst h; simp [h3, h4]
        · simp [h4]
          intro h; subst h; simp [h4]

theorem bstep_iff {g : Graph} {flt : Flt} {t u v : Nat} {e : Edge} :
    BStep g flt t u v e ↔ e ∈ g.edges ∧ bfsNbrWith bfsDirRule flt t u e = some v := by
  unfold BStep; rw [bfsNbr_iff]

theorem mem_allEdges_sub {g : Graph} {u : Nat} {e : Edge} (h : e ∈ allEdges g u) : e ∈ g.edges := by
  unfold allEdges outEdges inEdges at h
  simp only [List.mem_append, List.mem_filter] at h
  rcases h with h | h
  · exact h.1
  · exact h.1.1

theorem mem_allEdges_of_joins {g : Graph} {u v : Nat} {e : Edge} (he : e ∈ g.edges)
    (hj : e.joins u v) : e ∈ allEdges g u := by
  unfold allEdges outEdges
  simp only [List.mem_append, List.mem_filter]
  left
  refine ⟨he, ?_⟩
  unfold inOut
  unfold Edge.joins at hj
  rcases hj with ⟨h1, _⟩ | ⟨h1, h2, _⟩
  · simp [h1]
  · simp [h1, h2]

theorem BWalk.snoc {g : Graph} {flt : Flt} {t a b c n : Nat} {e : Edge}
    (hw : BWalk g flt t a b n) (hs : BStep g flt t b c e) : BWalk g flt t a c (n + 1) := by
  induction hw with
  | nil u => exact BWalk.cons e hs (BWalk.nil _)
  | cons e' hs' _ ih => exact BWalk.cons e' hs' (ih hs)

/-! ### layer 1: structure of the parent map -/

/-- keys of the parent map, newest first -/
def pkeys (P : ParentMap) : List Nat := P.map (·.1)

/-- the parent map is a forest rooted at `s`, built in insertion order: each entry's parent is `s` or an
    older key, keys are unique and differ from `s`, and each entry is a real qualifying hop -/
def PWf (g : Graph) (flt : Flt) (t s : Nat) : ParentMap → Prop
  | [] => True
  | x :: P => PWf g flt t s P ∧ x.1 ≠ s ∧ x.1 ∉ pkeys P ∧ (x.2.1 = s ∨ x.2.1 ∈ pkeys P) ∧
      ∃ e, e ∈ g.edges ∧ e.id = x.2.2 ∧ BStep g flt t x.2.1 x.1 e

structure PInv (g : Graph) (flt : Flt) (t s : Nat) (st : BfsSt) : Prop where
  wf : PWf g flt t s st.parent
  vis : ∀ x, x ∈ st.visited ↔ (x = s ∨ x ∈ pkeys st.parent)
  que : ∀ q, q ∈ st.queue → q ∈ st.visited

section layer1
variable {g : Graph} {flt : Flt} {t s : Nat}

theorem scan_pinv (hst : s ≠ t) (cur : Nat) (es : List Edge) (hes : ∀ e, e ∈ es → e ∈ g.edges)
    (st : BfsSt) (hinv : PInv g flt t s st) (hcur : cur ∈ st.visited) :
    (∀ st', bfsScanWith bfsDirRule flt t cur es st = .ok st' → PInv g flt t s st') ∧
    (∀ P, bfsScanWith bfsDirRule flt t cur es st = .error P → PWf g flt t s P ∧ t ∈ pkeys P) := by
  induction es generalizing st with
  | nil =>
    simp only [bfsScanWith]
    refine ⟨?_, ?_⟩
    · intro st' h; cases h; exact hinv
    · intro P h; cases h
  | cons e es ih =>
    have hes' : ∀ e', e' ∈ es → e' ∈ g.edges := fun e' h => hes e' (List.mem_cons_of_mem _ h)
    simp only [bfsScanWith]
    cases hn : bfsNbrWith bfsDirRule flt t cur e with
    | none => exact ih hes' st hinv hcur
    | some nb =>
      dsimp only
      by_cases hv : st.visited.contains nb = true
      · rw [if_pos hv]; exact ih hes' st hinv hcur
      · rw [if_neg hv]
        have hnv : nb ∉ st.visited := by simpa using hv
        have hstep : BStep g flt t cur nb e := bstep_iff.2 ⟨hes e (List.mem_cons_self ..), hn⟩
        have hnk : ¬ (nb = s ∨ nb ∈ pkeys st.parent) := fun h => hnv ((hinv.vis nb).2 h)
        have hwf' : PWf g flt t s ((nb, cur, e.id) :: st.parent) :=
          ⟨hinv.wf, fun h => hnk (Or.inl h), fun h => hnk (Or.inr h), (hinv.vis cur).1 hcur,
            e, hes e (List.mem_cons_self ..), rfl, hstep⟩
        by_cases ht : (nb == t) = true
        · rw [if_pos ht]
          have : nb = t := by simpa using ht
          subst this
          refine ⟨fun st' h => by simp at h, ?_⟩
          intro P h
          simp only [Except.error.injEq] at h
          subst h
          exact ⟨hwf', by simp [pkeys]⟩
        · rw [if_neg ht]
          apply ih hes'
          · refine ⟨hwf', ?_, ?_⟩
            · intro x
              simp only [List.mem_cons, pkeys, List.map_cons]
              have := hinv.vis x
              simp only [pkeys] at this
              rw [this]
              constructor
              · rintro (h | h | h)
                · exact Or.inr (Or.inl h)
                · exact Or.inl h
                · exact Or.inr (Or.inr h)
              · rintro (h | h | h)
                · exact Or.inr (Or.inl h)
                · exact Or.inl h
                · exact Or.inr (Or.inr h)
            · intro q hq
              simp only [List.mem_append, List.mem_singleton] at hq
              rcases hq with hq | hq
              · exact List.mem_cons_of_mem _ (hinv.que q hq)
              · subst hq; exact List.mem_cons_self ..
          · exact List.mem_cons_of_mem _ hcur

theorem loop_pinv (hst : s ≠ t) (fuel : Nat) (st : BfsSt) (hinv : PInv g flt t s st) (P : ParentMap)
    (h : bfsLoopWith bfsDirRule g flt t fuel st = some P) : PWf g flt t s P ∧ t ∈ pkeys P := by
  induction fuel generalizing st with
  | zero => simp [bfsLoopWith] at h
  | succ fuel ih =>
    rw [bfsLoopWith] at h
    cases hq : st.queue with
    | nil => simp [hq] at h
    | cons cur rest =>
      simp only [hq] at h
      have hcur : cur ∈ st.visited := hinv.que cur (by simp [hq])
      have hinv' : PInv g flt t s { st with queue := rest } :=
        ⟨hinv.wf, hinv.vis, fun q hq' => hinv.que q (by simp [hq, hq'])⟩
      have hsc := scan_pinv hst cur (allEdges g cur) (fun e he => mem_allEdges_sub he)
        { st with queue := rest } hinv' hcur
      cases hr : bfsScanWith bfsDirRule flt t cur (allEdges g cur) { st with queue := rest } with
      | error P' =>
        rw [hr] at h
        cases h
        exact hsc.2 P hr
      | ok st' =>
        rw [hr] at h
        exact ih st' (hsc.1 st' hr) h

end layer1

/-! ### distances -/

/-- `d` is the length of a shortest qualifying walk from `s` to `v` -/
def IsDist (g : Graph) (flt : Flt) (t s v d : Nat) : Prop :=
  BWalk g flt t s v d ∧ ∀ m, BWalk g flt t s v m → d ≤ m

/-- every entry of the parent map links a node at distance `d` to a node at distance `d + 1` -/
def PDist (g : Graph) (flt : Flt) (t s : Nat) (P : ParentMap) : Prop :=
  ∀ x, x ∈ P → ∃ d, IsDist g flt t s x.2.1 d ∧ IsDist g flt t s x.1 (d + 1)

section recon
variable {g : Graph} {flt : Flt} {t s : Nat}

theorem IsDist.unique {v d1 d2 : Nat} (h1 : IsDist g flt t s v d1) (h2 : IsDist g flt t s v d2) :
    d1 = d2 :=
  Nat.le_antisymm (h1.2 _ h2.1) (h2.2 _ h1.1)

theorem isDist_src : IsDist g flt t s s 0 := ⟨BWalk.nil s, fun _ _ => Nat.zero_le _⟩

theorem lookupParent_cons_self (x : Nat × Nat × Nat) (P : ParentMap) :
    lookupParent (x :: P) x.1 = some (x.2.1, x.2.2) := by
  obtain ⟨v, p, e⟩ := x
  simp [lookupParent]

theorem lookupParent_cons_ne {x : Nat × Nat × Nat} {P : ParentMap} {cur : Nat} (h : cur ≠ x.1) :
    lookupParent (x :: P) cur = lookupParent P cur := by
  have : (x.1 == cur) = false := by simpa using fun h' => h h'.symm
  simp [lookupParent, this]

theorem lookupParent_some_mem {P : ParentMap} {cur par eid : Nat}
    (h : lookupParent P cur = some (par, eid)) : (cur, par, eid) ∈ P := by
  unfold lookupParent at h
  cases hf : P.find? (·.1 == cur) with
  | none => simp [hf] at h
  | some y =>
    obtain ⟨v, p, e⟩ := y
    simp only [hf, Option.some.injEq, Prod.mk.injEq] at h
    have h1 := List.mem_of_find?_eq_some hf
    have h2 := List.find?_some hf
    simp only [beq_iff_eq] at h2
    obtain ⟨rfl, rfl⟩ := h
    subst h2
    exact h1

theorem PWf.parent_mem {P : ParentMap} (hwf : PWf g flt t s P) {x : Nat × Nat × Nat} (hx : x ∈ P) :
    x.2.1 = s ∨ x.2.1 ∈ pkeys P := by
  induction P with
  | nil => cases hx
  | cons y P ih =>
    obtain ⟨hP, _, _, hpar, _⟩ := hwf
    simp only [pkeys, List.map_cons, List.mem_cons]
    rcases List.mem_cons.1 hx with rfl | hx
    · rcases hpar with h | h
      · exact Or.inl h
      · exact Or.inr (Or.inr h)
    · rcases ih hP hx with h | h
      · exact Or.inl h
      · exact Or.inr (Or.inr h)

theorem reconstruct_at_src (P : ParentMap) (fuel : Nat) (ns es : List Nat) :
    reconstruct P s (fuel + 1) s ns es = { nodes := s :: ns, edges := es } := by
  simp [reconstruct]

/-- entries newer than the current node do not influence the back-walk -/
theorem reconstruct_cons (x : Nat × Nat × Nat) (P : ParentMap) (hwf : PWf g flt t s (x :: P))
    (fuel cur : Nat) (ns es : List Nat) (hc : cur = s ∨ cur ∈ pkeys P) :
    reconstruct (x :: P) s fuel cur ns es = reconstruct P s fuel cur ns es := by
  induction fuel generalizing cur ns es with
  | zero => simp [reconstruct]
  | succ fuel ih =>
    by_cases hcs : cur = s
    · subst hcs; rw [reconstruct_at_src, reconstruct_at_src]
    · have hck : cur ∈ pkeys P := hc.resolve_left hcs
      have hne : cur ≠ x.1 := fun h => hwf.2.2.1 (h ▸ hck)
      have hb : (cur == s) = false := by simpa using hcs
      simp only [reconstruct, hb, lookupParent_cons_ne hne]
      cases hl : lookupParent P cur with
      | none => rfl
      | some pe =>
        obtain ⟨par, eid⟩ := pe
        simp only [Bool.false_eq_true, if_false]
        exact ih par (cur :: ns) (eid :: es) (hwf.1.parent_mem (lookupParent_some_mem hl))

theorem reconstruct_ok (P : ParentMap) (hwf : PWf g flt t s P) (fuel cur : Nat) (ns es : List Nat)
    (tl : Nat) (hc : cur = s ∨ cur ∈ pkeys P) (hfuel : P.length + 1 ≤ fuel)
    (hch : ChainOk g (BStep g flt t) (cur :: ns) es) (hl : (cur :: ns).getLast? = some tl)
    (r : Path) (hr : r = reconstruct P s fuel cur ns es) :
    r.nodes.head? = some s ∧ r.nodes.getLast? = some tl ∧ ChainOk g (BStep g flt t) r.nodes r.edges ∧
    (PDist g flt t s P → ∀ d, IsDist g flt t s cur d → r.edges.length = es.length + d) := by
  -- the case `cur = s`, common to all branches
  have hsrc : ∀ (P : ParentMap) (fuel : Nat) (ns es : List Nat), 1 ≤ fuel →
      ChainOk g (BStep g flt t) (s :: ns) es → (s :: ns).getLast? = some tl →
      ∀ r, r = reconstruct P s fuel s ns es →
      r.nodes.head? = some s ∧ r.nodes.getLast? = some tl ∧ ChainOk g (BStep g flt t) r.nodes r.edges ∧
      (∀ d, IsDist g flt t s s d → r.edges.length = es.length + d) := by
    intro P fuel ns es hf hch hl r hr
    obtain ⟨f, rfl⟩ : ∃ f, fuel = f + 1 := ⟨fuel - 1, by omega⟩
    rw [reconstruct_at_src] at hr
    subst hr
    refine ⟨rfl, hl, hch, ?_⟩
    intro d hd
    have : d = 0 := hd.unique isDist_src
    simp [this]
  induction P generalizing fuel cur ns es r with
  | nil =>
    have hcs : cur = s := by simpa [pkeys] using hc
    subst hcs
    obtain ⟨h1, h2, h3, h4⟩ := hsrc [] fuel ns es (by omega) hch hl r hr
    exact ⟨h1, h2, h3, fun _ => h4⟩
  | cons x P ih =>
    by_cases hcs : cur = s
    · subst hcs
      obtain ⟨h1, h2, h3, h4⟩ := hsrc (x :: P) fuel ns es (by omega) hch hl r hr
      exact ⟨h1, h2, h3, fun _ => h4⟩
    · have hck : cur ∈ pkeys (x :: P) := hc.resolve_left hcs
      simp only [pkeys, List.map_cons, List.mem_cons] at hck
      simp only [List.length_cons] at hfuel
      by_cases hcx : cur = x.1
      · subst hcx
        obtain ⟨f, rfl⟩ : ∃ f, fuel = f + 1 := ⟨fuel - 1, by omega⟩
        have hb : (x.1 == s) = false := by simpa using hcs
        obtain ⟨hP, _, _, hpar, e, he, heid, hstep⟩ := hwf
        rw [reconstruct] at hr
        simp only [hb, lookupParent_cons_self, Bool.false_eq_true, if_false] at hr
        rw [reconstruct_cons x P ⟨hP, ‹_›, ‹_›, hpar, e, he, heid, hstep⟩ f x.2.1 _ _ hpar] at hr
        have hch' : ChainOk g (BStep g flt t) (x.2.1 :: x.1 :: ns) (x.2.2 :: es) := by
          simp only [ChainOk]
          exact ⟨⟨e, he, heid, hstep⟩, hch⟩
        have hl' : (x.2.1 :: x.1 :: ns).getLast? = some tl := by
          rw [List.getLast?_cons_cons]; exact hl
        obtain ⟨h1, h2, h3, h4⟩ := ih hP f x.2.1 (x.1 :: ns) (x.2.2 :: es) hpar (by omega) hch' hl' r hr
        refine ⟨h1, h2, h3, ?_⟩
        intro hpd d hd
        obtain ⟨d0, hd0, hd1⟩ := hpd x (List.mem_cons_self ..)
        have hdd : d = d0 + 1 := hd.unique hd1
        have := h4 (fun y hy => hpd y (List.mem_cons_of_mem _ hy)) d0 hd0
        simp only [List.length_cons] at this
        omega
      · have hck' : cur ∈ pkeys P := by
          rcases hck with h | h
          · exact absurd h hcx
          · exact h
        rw [reconstruct_cons x P hwf fuel cur ns es (Or.inr hck')] at hr
        obtain ⟨h1, h2, h3, h4⟩ := ih hwf.1 fuel cur ns es (Or.inr hck') (by omega) hch hl r hr
        exact ⟨h1, h2, h3, fun hpd => h4 (fun y hy => hpd y (List.mem_cons_of_mem _ hy))⟩

end recon

/-! ### layer 2: distances along the loop -/

section layer2
variable {g : Graph} {flt : Flt} {t s : Nat}

/-- a walk leaving a node set `V` that contains its start crosses the frontier of `V` somewhere -/
theorem frontier (V : List Nat) {u w n i0 : Nat} (hw : BWalk g flt t u w n) (hu : u ∈ V) (hwV : w ∉ V)
    (h0 : BWalk g flt t s u i0) :
    ∃ x y i e, BWalk g flt t s x i ∧ x ∈ V ∧ BStep g flt t x y e ∧ y ∉ V ∧ i + 1 ≤ i0 + n := by
  induction hw generalizing i0 with
  | nil u => exact absurd hu hwV
  | @cons u v w n e hs hw' ih =>
    by_cases hv : v ∈ V
    · obtain ⟨x, y, i, e', h1, h2, h3, h4, h5⟩ := ih hv hwV (h0.snoc hs)
      exact ⟨x, y, i, e', h1, h2, h3, h4, by omega⟩
    · exact ⟨u, v, i0, e, h0, hu, hs, hv, by omega⟩

/-- invariant of the outer `while` loop -/
structure DInv (g : Graph) (flt : Flt) (t s : Nat) (st : BfsSt) : Prop where
  src : s ∈ st.visited
  dist : ∀ v, v ∈ st.visited → ∃ d, IsDist g flt t s v d
  sorted : st.queue.Pairwise
    (fun a b => ∀ da db, IsDist g flt t s a da → IsDist g flt t s b db → da ≤ db)
  spread : ∀ a, a ∈ st.queue → ∀ b, b ∈ st.queue →
    ∀ da db, IsDist g flt t s a da → IsDist g flt t s b db → db ≤ da + 1
  qvis : ∀ q, q ∈ st.queue → q ∈ st.visited
  closed : ∀ v, v ∈ st.visited → v ∉ st.queue → ∀ w e, BStep g flt t v w e → w ∈ st.visited
  tgt : t ∉ st.visited
  par : PDist g flt t s st.parent

/-- invariant of the inner `for` loop over the edges `es` still to be scanned of the dequeued node `cur`
    (at distance `dc`) -/
structure SInv (g : Graph) (flt : Flt) (t s cur dc : Nat) (es : List Edge) (st : BfsSt) : Prop where
  src : s ∈ st.visited
  dist : ∀ v, v ∈ st.visited → ∃ d, IsDist g flt t s v d
  sorted : st.queue.Pairwise
    (fun a b => ∀ da db, IsDist g flt t s a da → IsDist g flt t s b db → da ≤ db)
  range : ∀ a, a ∈ st.queue → ∀ da, IsDist g flt t s a da → dc ≤ da ∧ da ≤ dc + 1
  qvis : ∀ q, q ∈ st.queue → q ∈ st.visited
  closed : ∀ v, v ∈ st.visited → v ∉ st.queue → v ≠ cur →
    ∀ w e, BStep g flt t v w e → w ∈ st.visited
  curcl : ∀ w e, BStep g flt t cur w e →
    w ∈ st.visited ∨ ∃ e', e' ∈ es ∧ bfsNbrWith bfsDirRule flt t cur e' = some w
  tgt : t ∉ st.visited
  par : PDist g flt t s st.parent

/-- a node first seen from `cur` is at distance exactly `dc + 1` -/
theorem discover {cur dc : Nat} {es : List Edge} {st : BfsSt} {e : Edge} {nb : Nat}
    (hdc : IsDist g flt t s cur dc) (h : SInv g flt t s cur dc es st) (he : e ∈ g.edges)
    (hn : bfsNbrWith bfsDirRule flt t cur e = some nb) (hnv : nb ∉ st.visited) :
    IsDist g flt t s nb (dc + 1) := by
  refine ⟨hdc.1.snoc (bstep_iff.2 ⟨he, hn⟩), ?_⟩
  intro m hm
  obtain ⟨x, y, i, e', hx, hxV, hxy, hyV, hi⟩ := frontier st.visited hm h.src hnv (BWalk.nil s)
  by_cases hxc : x = cur
  · subst hxc
    have := hdc.2 i hx
    omega
  · by_cases hxq : x ∈ st.queue
    · obtain ⟨dx, hdx⟩ := h.dist x hxV
      have h1 := (h.range x hxq dx hdx).1
      have h2 := hdx.2 i hx
      omega
    · exact absurd (h.closed x hxV hxq hxc y e' hxy) hyV

theorem scan_sinv (cur dc : Nat) (hdc : IsDist g flt t s cur dc) (es : List Edge)
    (hes : ∀ e, e ∈ es → e ∈ g.edges) (st : BfsSt) (hinv : SInv g flt t s cur dc es st) :
    (∀ st', bfsScanWith bfsDirRule flt t cur es st = .ok st' → SInv g flt t s cur dc [] st') ∧
    (∀ P, bfsScanWith bfsDirRule flt t cur es st = .error P → PDist g flt t s P) := by
  induction es generalizing st with
  | nil =>
    simp only [bfsScanWith]
    refine ⟨?_, ?_⟩
    · intro st' h
      simp only [Except.ok.injEq] at h
      subst h; exact hinv
    · intro P h; simp at h
  | cons e es ih =>
    have hes' : ∀ e', e' ∈ es → e' ∈ g.edges := fun e' h => hes e' (List.mem_cons_of_mem _ h)
    have heg : e ∈ g.edges := hes e (List.mem_cons_self ..)
    simp only [bfsScanWith]
    cases hn : bfsNbrWith bfsDirRule flt t cur e with
    | none =>
      apply ih hes' st
      refine { hinv with curcl := ?_ }
      intro w e0 hs0
      rcases hinv.curcl w e0 hs0 with h | ⟨e', he', hw⟩
      · exact Or.inl h
      · rcases List.mem_cons.1 he' with rfl | he'
        · rw [hn] at hw; cases hw
        · exact Or.inr ⟨e', he', hw⟩
    | some nb =>
      dsimp only
      by_cases hv : st.visited.contains nb = true
      · rw [if_pos hv]
        have hnv : nb ∈ st.visited := by simpa using hv
        apply ih hes' st
        refine { hinv with curcl := ?_ }
        intro w e0 hs0
        rcases hinv.curcl w e0 hs0 with h | ⟨e', he', hw⟩
        · exact Or.inl h
        · rcases List.mem_cons.1 he' with rfl | he'
          · rw [hn] at hw
            simp only [Option.some.injEq] at hw
            subst hw; exact Or.inl hnv
          · exact Or.inr ⟨e', he', hw⟩
      · rw [if_neg hv]
        have hnv : nb ∉ st.visited := by simpa using hv
        have hdn : IsDist g flt t s nb (dc + 1) := discover hdc hinv heg hn hnv
        have hpd : PDist g flt t s ((nb, cur, e.id) :: st.parent) := by
          intro x hx
          rcases List.mem_cons.1 hx with rfl | hx
          · exact ⟨dc, hdc, hdn⟩
          · exact hinv.par x hx
        by_cases ht : (nb == t) = true
        · rw [if_pos ht]
          refine ⟨fun st' h => by simp at h, ?_⟩
          intro P h
          simp only [Except.error.injEq] at h
          subst h
          exact hpd
        · rw [if_neg ht]
          have hnt : nb ≠ t := by simpa using ht
          apply ih hes'
          refine ⟨?_, ?_, ?_, ?_, ?_, ?_, ?_, ?_, hpd⟩
          · exact List.mem_cons_of_mem _ hinv.src
          · intro v hv'
            rcases List.mem_cons.1 hv' with rfl | hv'
            · exact ⟨_, hdn⟩
            · exact hinv.dist v hv'
          · show (st.queue ++ [nb]).Pairwise _
            rw [List.pairwise_append]
            refine ⟨hinv.sorted, List.pairwise_singleton _ _, ?_⟩
            intro a ha b hb da db hda hdb
            have hb' : b = nb := by simpa using hb
            subst hb'
            have := (hinv.range a ha da hda).2
            have := hdb.unique hdn
            omega
          · intro a ha da hda
            have ha' : a ∈ st.queue ∨ a = nb := by simpa using ha
            rcases ha' with ha' | rfl
            · exact hinv.range a ha' da hda
            · have := hda.unique hdn
              omega
          · intro q hq
            have hq' : q ∈ st.queue ∨ q = nb := by simpa using hq
            rcases hq' with hq' | rfl
            · exact List.mem_cons_of_mem _ (hinv.qvis q hq')
            · exact List.mem_cons_self ..
          · intro v hv' hvq hvc w e0 hs0
            have hvq' : v ∉ st.queue ∧ v ≠ nb := by simpa using hvq
            rcases List.mem_cons.1 hv' with rfl | hv'
            · exact absurd rfl hvq'.2
            · exact List.mem_cons_of_mem _ (hinv.closed v hv' hvq'.1 hvc w e0 hs0)
          · intro w e0 hs0
            rcases hinv.curcl w e0 hs0 with h | ⟨e', he', hw⟩
            · exact Or.inl (List.mem_cons_of_mem _ h)
            · rcases List.mem_cons.1 he' with rfl | he'
              · rw [hn] at hw
                simp only [Option.some.injEq] at hw
                subst hw; exact Or.inl (List.mem_cons_self ..)
              · exact Or.inr ⟨e', he', hw⟩
          · intro h
            rcases List.mem_cons.1 h with h | h
            · exact hnt h.symm
            · exact hinv.tgt h

/-- dequeuing `cur` establishes the inner invariant -/
theorem dinv_to_sinv {st : BfsSt} {cur dc : Nat} {rest : List Nat} (h : DInv g flt t s st)
    (hq : st.queue = cur :: rest) (hdc : IsDist g flt t s cur dc) :
    SInv g flt t s cur dc (allEdges g cur) { st with queue := rest } := by
  have hsorted := h.sorted
  rw [hq, List.pairwise_cons] at hsorted
  refine ⟨h.src, h.dist, hsorted.2, ?_, ?_, ?_, ?_, h.tgt, h.par⟩
  · intro a ha da hda
    have ha' : a ∈ st.queue := by rw [hq]; exact List.mem_cons_of_mem _ ha
    have hc' : cur ∈ st.queue := by rw [hq]; exact List.mem_cons_self ..
    exact ⟨hsorted.1 a ha dc da hdc hda, h.spread cur hc' a ha' dc da hdc hda⟩
  · intro q hq'
    exact h.qvis q (by rw [hq]; exact List.mem_cons_of_mem _ hq')
  · intro v hv hvq hvc w e hs0
    refine h.closed v hv ?_ w e hs0
    rw [hq]
    intro hm
    rcases List.mem_cons.1 hm with hm | hm
    · exact hvc hm
    · exact hvq hm
  · intro w e hs0
    right
    have h1 := bstep_iff.1 hs0
    exact ⟨e, mem_allEdges_of_joins h1.1 (bfsNbr_iff.1 h1.2).2.1, h1.2⟩

/-- once all edges of `cur` are scanned the outer invariant holds again -/
theorem sinv_to_dinv {st : BfsSt} {cur dc : Nat} (h : SInv g flt t s cur dc [] st) :
    DInv g flt t s st := by
  refine ⟨h.src, h.dist, h.sorted, ?_, h.qvis, ?_, h.tgt, h.par⟩
  · intro a ha b hb da db hda hdb
    have := (h.range a ha da hda).1
    have := (h.range b hb db hdb).2
    omega
  · intro v hv hvq w e hs0
    by_cases hvc : v = cur
    · subst hvc
      rcases h.curcl w e hs0 with h' | ⟨e', he', _⟩
      · exact h'
      · cases he'
    · exact h.closed v hv hvq hvc w e hs0

theorem dinv_init (g : Graph) (flt : Flt) {t s : Nat} (hst : s ≠ t) :
    DInv g flt t s { queue := [s], visited := [s], parent := [] } := by
  refine ⟨List.mem_cons_self .., ?_, List.pairwise_singleton _ _, ?_, fun q hq => hq, ?_, ?_, ?_⟩
  · intro v hv
    have : v = s := by simpa using hv
    subst this; exact ⟨0, isDist_src⟩
  · intro a ha b hb da db hda hdb
    have ha' : a = s := by simpa using ha
    have hb' : b = s := by simpa using hb
    subst ha'; subst hb'
    have := hda.unique hdb
    omega
  · intro v hv hvq; exact absurd hv hvq
  · intro h
    have : t = s := by simpa using h
    exact hst this.symm
  · intro x hx; cases hx

/-! ### fuel: a measure that drops with every dequeued node -/

/-- every node that can ever be enqueued: the start and the endpoints of the edges -/
def cands (g : Graph) (s : Nat) : List Nat := s :: g.edges.flatMap (fun e => [e.src, e.dst])

def unvis (l vis : List Nat) : Nat := (l.filter (fun x => decide (x ∉ vis))).length

/-- candidates not yet visited, plus nodes waiting in the queue -/
def mu (g : Graph) (s : Nat) (st : BfsSt) : Nat := unvis (cands g s) st.visited + st.queue.length

theorem filter_len_le (p q : Nat → Bool) (h : ∀ x, p x = true → q x = true) (l : List Nat) :
    (l.filter p).length ≤ (l.filter q).length := by
  induction l with
  | nil => simp
  | cons a l ih =>
    simp only [List.filter_cons]
    cases hp : p a
    · cases hq : q a
      · simpa using ih
      · simp only [Bool.false_eq_true, if_false, if_true, List.length_cons]; omega
    · simp only [h a hp, if_true, List.length_cons]; omega

theorem filter_len_lt (p q : Nat → Bool) (h : ∀ x, p x = true → q x = true) (l : List Nat) (nb : Nat)
    (hm : nb ∈ l) (hq : q nb = true) (hp : p nb = false) :
    (l.filter p).length + 1 ≤ (l.filter q).length := by
  induction l with
  | nil => cases hm
  | cons a l ih =>
    simp only [List.filter_cons]
    by_cases h2 : a = nb
    · subst h2
      have := filter_len_le p q h l
      simp only [hp, hq, Bool.false_eq_true, if_false, if_true, List.length_cons]; omega
    · have hm' : nb ∈ l := by
        rcases List.mem_cons.1 hm with h' | h'
        · exact absurd h'.symm h2
        · exact h'
      have := ih hm'
      cases hpa : p a
      · cases hqa : q a
        · simpa using this
        · simp only [Bool.false_eq_true, if_false, if_true, List.length_cons]; omega
      · simp only [h a hpa, if_true, List.length_cons]; omega

theorem unvis_drop (l vis : List Nat) (nb : Nat) (hm : nb ∈ l) (hv : nb ∉ vis) :
    unvis l (nb :: vis) + 1 ≤ unvis l vis := by
  unfold unvis
  apply filter_len_lt _ _ _ l nb hm
  · simpa using hv
  · simp
  · intro x hx
    simp only [List.mem_cons, not_or, decide_eq_true_eq] at hx ⊢
    exact hx.2

theorem nbr_mem_cands {cur nb : Nat} {e : Edge} (he : e ∈ g.edges)
    (hn : bfsNbrWith bfsDirRule flt t cur e = some nb) : nb ∈ cands g s := by
  have hj := (bfsNbr_iff.1 hn).2.1
  unfold cands
  apply List.mem_cons_of_mem
  rw [List.mem_flatMap]
  refine ⟨e, he, ?_⟩
  unfold Edge.joins at hj
  rcases hj with ⟨_, h⟩ | ⟨_, _, h⟩ <;> simp [h]

theorem scan_mu (cur : Nat) (es : List Edge) (hes : ∀ e, e ∈ es → e ∈ g.edges) (st st' : BfsSt)
    (h : bfsScanWith bfsDirRule flt t cur es st = .ok st') : mu g s st' ≤ mu g s st := by
  induction es generalizing st with
  | nil =>
    simp only [bfsScanWith, Except.ok.injEq] at h
    subst h; exact Nat.le_refl _
  | cons e es ih =>
    have hes' : ∀ e', e' ∈ es → e' ∈ g.edges := fun e' h => hes e' (List.mem_cons_of_mem _ h)
    simp only [bfsScanWith] at h
    cases hn : bfsNbrWith bfsDirRule flt t cur e with
    | none => rw [hn] at h; exact ih hes' st h
    | some nb =>
      rw [hn] at h
      dsimp only at h
      by_cases hv : st.visited.contains nb = true
      · rw [if_pos hv] at h; exact ih hes' st h
      · rw [if_neg hv] at h
        have hnv : nb ∉ st.visited := by simpa using hv
        by_cases ht : (nb == t) = true
        · rw [if_pos ht] at h; simp at h
        · rw [if_neg ht] at h
          have h1 := ih hes' _ h
          have h2 := unvis_drop (cands g s) st.visited nb
            (nbr_mem_cands (hes e (List.mem_cons_self ..)) hn) hnv
          simp only [mu, List.length_append, List.length_singleton] at h1 ⊢
          omega

theorem loop_fuel (fuel k : Nat) (st : BfsSt) (h : mu g s st ≤ fuel) :
    bfsLoopWith bfsDirRule g flt t (fuel + k) st = bfsLoopWith bfsDirRule g flt t fuel st := by
  induction fuel generalizing st with
  | zero =>
    have hq : st.queue = [] := by
      have : st.queue.length = 0 := by unfold mu at h; omega
      exact List.eq_nil_of_length_eq_zero this
    cases k with
    | zero => rfl
    | succ k =>
      rw [Nat.zero_add, bfsLoopWith, bfsLoopWith]
      simp [hq]
  | succ fuel ih =>
    rw [Nat.add_right_comm, bfsLoopWith, bfsLoopWith]
    cases hq : st.queue with
    | nil => rfl
    | cons cur rest =>
      dsimp only
      cases hr : bfsScanWith bfsDirRule flt t cur (allEdges g cur) { st with queue := rest } with
      | error P => rfl
      | ok st' =>
        dsimp only
        apply ih
        have := scan_mu (s := s) cur (allEdges g cur) (fun e he => mem_allEdges_sub he) _ st' hr
        simp only [mu, hq, List.length_cons] at this h ⊢
        omega

theorem mu_init (g : Graph) (s : Nat) :
    mu g s { queue := [s], visited := [s], parent := [] } ≤ bfsFuel g := by
  have h1 := unvis_drop (cands g s) [] s (List.mem_cons_self ..) (by simp)
  have h2 : unvis (cands g s) [] ≤ 2 * g.edges.length + 1 := by
    unfold unvis
    refine Nat.le_trans (List.length_filter_le _ _) ?_
    unfold cands
    simp only [List.length_cons, List.length_flatMap, List.length_nil]
    have : ∀ l : List Edge, (l.map (fun _ => 2)).sum = 2 * l.length := by
      intro l; induction l with
      | nil => rfl
      | cons a l ih => simp only [List.map_cons, List.sum_cons, List.length_cons, ih]; omega
    rw [this]; omega
  simp only [mu, bfsFuel, List.length_singleton]
  omega

/-- the two ways the loop ends, under the outer invariant -/
theorem loop_dinv (fuel : Nat) (st : BfsSt) (hinv : DInv g flt t s st) :
    (∀ P, bfsLoopWith bfsDirRule g flt t fuel st = some P → PDist g flt t s P) ∧
    (mu g s st ≤ fuel → bfsLoopWith bfsDirRule g flt t fuel st = none →
      ∀ n, ¬ BWalk g flt t s t n) := by
  -- an exhausted queue means the visited set is closed and misses `t`
  have hempty : st.queue = [] → ∀ n, ¬ BWalk g flt t s t n := by
    intro hq n hw
    obtain ⟨x, y, i, e, _, hxV, hxy, hyV, _⟩ := frontier st.visited hw hinv.src hinv.tgt (BWalk.nil s)
    exact hyV (hinv.closed x hxV (by rw [hq]; exact List.not_mem_nil) y e hxy)
  induction fuel generalizing st with
  | zero =>
    refine ⟨fun P h => by simp [bfsLoopWith] at h, ?_⟩
    intro hmu _
    apply hempty
    have : st.queue.length = 0 := by unfold mu at hmu; omega
    exact List.eq_nil_of_length_eq_zero this
  | succ fuel ih =>
    rw [bfsLoopWith]
    cases hq : st.queue with
    | nil =>
      dsimp only
      exact ⟨fun P h => by simp at h, fun _ _ => hempty hq⟩
    | cons cur rest =>
      dsimp only
      obtain ⟨dc, hdc⟩ := hinv.dist cur (hinv.qvis cur (by rw [hq]; exact List.mem_cons_self ..))
      have hs := scan_sinv cur dc hdc (allEdges g cur) (fun e he => mem_allEdges_sub he)
        { st with queue := rest } (dinv_to_sinv hinv hq hdc)
      cases hr : bfsScanWith bfsDirRule flt t cur (allEdges g cur) { st with queue := rest } with
      | error P' =>
        dsimp only
        refine ⟨?_, fun _ h => by simp at h⟩
        intro P h
        simp only [Option.some.injEq] at h
        subst h
        exact hs.2 _ hr
      | ok st' =>
        dsimp only
        have hinv' := sinv_to_dinv (hs.1 st' hr)
        have hmu' := scan_mu (s := s) cur (allEdges g cur) (fun e he => mem_allEdges_sub he) _ st' hr
        obtain ⟨h1, h2⟩ := ih st' hinv' (fun hq' => by
          intro n hw
          obtain ⟨x, y, i, e, _, hxV, hxy, hyV, _⟩ :=
            frontier st'.visited hw hinv'.src hinv'.tgt (BWalk.nil s)
          exact hyV (hinv'.closed x hxV (by rw [hq']; exact List.not_mem_nil) y e hxy))
        refine ⟨h1, ?_⟩
        intro hmu
        apply h2
        simp only [mu, hq, List.length_cons] at hmu' hmu ⊢
        omega

end layer2

/-! ### `findPath` case analysis and the first theorem -/

/-- the state `find_path` starts its loop from -/
def bfsInit (s : Nat) : BfsSt := { queue := [s], visited := [s], parent := [] }

theorem findPath_ok_cases {g : Graph} {flt : Flt} {s t : Nat} {p : Path}
    (h : findPath g flt s t = .ok p) :
    (s = t ∧ p = { nodes := [s], edges := [] }) ∨
    (s ≠ t ∧ ∃ P, bfsLoopWith bfsDirRule g flt t (bfsFuel g) (bfsInit s) = some P ∧
      p = reconstruct P s (P.length + 1) t [] []) := by
  unfold findPath findPathWith at h
  split at h
  · cases h
  · split at h
    · cases h
    · split at h
      · rename_i hst
        left
        simp only [Except.ok.injEq] at h
        exact ⟨by simpa using hst, h.symm⟩
      · rename_i hst
        right
        refine ⟨by simpa using hst, ?_⟩
        split at h
        · cases h
        · rename_i P hP
          simp only [Except.ok.injEq] at h
          exact ⟨P, hP, h.symm⟩

theorem pinv_init (g : Graph) (flt : Flt) (t s : Nat) : PInv g flt t s (bfsInit s) := by
  refine ⟨trivial, ?_, ?_⟩
  · intro x; simp [bfsInit, pkeys]
  · intro q hq; exact hq

/-- **The path returned by `find_path` is a real walk**: it starts at the source, ends at the target, and
    every consecutive pair of nodes is joined by an existing edge with the listed id that passes the edge
    filter, is usable in that direction, and leads to a node passing the node filter (or the target). -/
theorem bfs_path_is_walk (g : Graph) (flt : Flt) (s t : Nat) (p : Path)
    (h : findPath g flt s t = .ok p) :
    p.nodes.head? = some s ∧ p.nodes.getLast? = some t ∧ ChainOk g (BStep g flt t) p.nodes p.edges := by
  rcases findPath_ok_cases h with ⟨rfl, rfl⟩ | ⟨hst, P, hP, rfl⟩
  · exact ⟨rfl, rfl, trivial⟩
  · obtain ⟨hwf, htk⟩ := loop_pinv hst (bfsFuel g) (bfsInit s) (pinv_init g flt t s) P hP
    obtain ⟨h1, h2, h3, _⟩ := reconstruct_ok P hwf (P.length + 1) t [] [] t (Or.inr htk)
      (Nat.le_refl _) trivial rfl _ rfl
    exact ⟨h1, h2, h3⟩

/-- a small graph for the examples: `1→2→3→4`, a directed shortcut `1→4`, and an undirected `4—5` -/
def exG : Graph :=
  { nodes := [⟨1, none⟩, ⟨2, none⟩, ⟨3, none⟩, ⟨4, none⟩, ⟨5, none⟩, ⟨6, none⟩]
    edges := [⟨10, 1, 2, true, 0, none, none⟩, ⟨11, 2, 3, true, 0, none, none⟩,
              ⟨12, 3, 4, true, 0, none, none⟩, ⟨13, 1, 4, true, 0, none, none⟩,
              ⟨14, 5, 4, false, 0, none, none⟩] }

/-- the hypothesis of `bfs_path_is_walk` / `bfs_path_shortest` on concrete non-trivial queries -/
example : findPath exG Flt.all 1 5 = .ok { nodes := [1, 4, 5], edges := [13, 14] } := rfl
example : findPath exG Flt.all 2 5 = .ok { nodes := [2, 3, 4, 5], edges := [11, 12, 14] } := rfl

/-- **The path returned by `find_path` is a shortest qualifying walk**: no qualifying walk from the source
    to the target has fewer hops than the returned path has edges. -/
theorem bfs_path_shortest (g : Graph) (flt : Flt) (s t : Nat) (p : Path)
    (h : findPath g flt s t = .ok p) :
    ∀ n, BWalk g flt t s t n → p.edges.length ≤ n := by
  rcases findPath_ok_cases h with ⟨rfl, rfl⟩ | ⟨hst, P, hP, rfl⟩
  · intro n _; exact Nat.zero_le _
  · obtain ⟨hwf, htk⟩ := loop_pinv hst (bfsFuel g) (bfsInit s) (pinv_init g flt t s) P hP
    have hpd : PDist g flt t s P := (loop_dinv (bfsFuel g) (bfsInit s) (dinv_init g flt hst)).1 P hP
    obtain ⟨x, hx, hx1⟩ : ∃ x, x ∈ P ∧ x.1 = t := by simpa [pkeys] using htk
    obtain ⟨d0, _, hdt⟩ := hpd x hx
    rw [hx1] at hdt
    obtain ⟨_, _, _, h4⟩ := reconstruct_ok P hwf (P.length + 1) t [] [] t (Or.inr htk)
      (Nat.le_refl _) trivial rfl _ rfl
    intro n hw
    have h5 := h4 hpd (d0 + 1) hdt
    have h6 := hdt.2 n hw
    simp only [List.length_nil] at h5
    omega

theorem findPath_eq_of_ne {g : Graph} {flt : Flt} {s t : Nat} (hs : g.hasNode s = true)
    (ht : g.hasNode t = true) (hst : s ≠ t) :
    findPath g flt s t =
      match bfsLoopWith bfsDirRule g flt t (bfsFuel g) (bfsInit s) with
      | none => .error .pathNotFound
      | some p => .ok (reconstruct p s (p.length + 1) t [] []) := by
  have h3 : (s == t) = false := by simpa using hst
  unfold findPath findPathWith bfsInit
  simp only [hs, ht, h3, Bool.not_true, Bool.false_eq_true, if_false]
  rfl

/-- the hypotheses of `bfs_none_iff_unreachable` on concrete queries: directed edges are not followed
    backwards (`4 → 1`), and an isolated node is unreachable (`1 → 6`) -/
example : exG.hasNode 4 = true ∧ exG.hasNode 1 = true ∧
    findPath exG Flt.all 4 1 = .error .pathNotFound := ⟨rfl, rfl, rfl⟩
example : exG.hasNode 1 = true ∧ exG.hasNode 6 = true ∧
    findPath exG Flt.all 1 6 = .error .pathNotFound := ⟨rfl, rfl, rfl⟩

/-- **`PathNotFound` exactly when unreachable**: for existing endpoints, `find_path` fails with
    `PathNotFound` iff there is no qualifying walk at all from the source to the target. -/
theorem bfs_none_iff_unreachable (g : Graph) (flt : Flt) (s t : Nat)
    (hs : g.hasNode s = true) (ht : g.hasNode t = true) :
    findPath g flt s t = .error .pathNotFound ↔ ¬ ∃ n, BWalk g flt t s t n := by
  by_cases hst : s = t
  · subst hst
    have h1 : findPath g flt s s = .ok { nodes := [s], edges := [] } := by
      unfold findPath findPathWith; simp [hs]
    rw [h1]
    constructor
    · intro h; cases h
    · intro h; exact absurd ⟨0, BWalk.nil s⟩ h
  · rw [findPath_eq_of_ne hs ht hst]
    have hl := loop_dinv (bfsFuel g) (bfsInit s) (dinv_init g flt hst)
    cases hr : bfsLoopWith bfsDirRule g flt t (bfsFuel g) (bfsInit s) with
    | none =>
      dsimp only
      refine ⟨fun _ => ?_, fun _ => rfl⟩
      rintro ⟨n, hw⟩
      exact hl.2 (mu_init g s) hr n hw
    | some P =>
      dsimp only
      refine ⟨fun h => (by cases h), fun h => ?_⟩
      exfalso
      apply h
      obtain ⟨_, htk⟩ := loop_pinv hst (bfsFuel g) (bfsInit s) (pinv_init g flt t s) P hr
      obtain ⟨x, hx, hx1⟩ : ∃ x, x ∈ P ∧ x.1 = t := by simpa [pkeys] using htk
      obtain ⟨d0, _, hdt⟩ := hl.1 P hr x hx
      rw [hx1] at hdt
      exact ⟨d0 + 1, hdt.1⟩

/-- **Fuel adequacy**: `bfsFuel g` iterations are enough — more fuel never changes the answer (so the
    fuel-exhausted branch of `bfsLoop`, which the engine's `while` loop does not have, is never the reason
    for a `none`). -/
theorem bfs_fuel_adequate (g : Graph) (flt : Flt) (s t : Nat) (k : Nat) :
    bfsLoop g flt t (bfsFuel g + k) { queue := [s], visited := [s], parent := [] }
      = bfsLoop g flt t (bfsFuel g) { queue := [s], visited := [s], parent := [] } :=
  loop_fuel (s := s) (bfsFuel g) k _ (mu_init g s)

end Neumann.Paths
