import NeumannModel.Paths.BfsProofs
/-
  C18 — `find_all_paths` (level BFS with multi-parent tracking, then enumeration of all parent chains):
  every listed path is a real shortest chain, the hop count is the true distance, `PathNotFound` exactly
  when unreachable, and (caps not reached) every shortest chain is listed.
  All statements are for every graph / caps / node pair (invariant proofs, no enumeration).
-/
namespace Neumann.Paths

/-! ### basic facts -/

theorem apNbr_iff {u v : Nat} {e : Edge} : apNbr u e = some v ↔ e.joins u v := by
  unfold apNbr Edge.joins
  by_cases h1 : e.src = u
  · by_cases h2 : e.dst = u <;> cases hd : e.directed <;> simp [h1, h2] <;> omega
  · by_cases h2 : e.dst = u <;> cases hd : e.directed <;> simp [h1, h2]

theorem apBStep_iff {g : Graph} {t u v : Nat} {e : Edge} :
    BStep g Flt.all t u v e ↔ e ∈ g.edges ∧ e.joins u v := by
  simp [BStep, Flt.all]

theorem apMem_outEdges {g : Graph} {u v : Nat} {e : Edge} (he : e ∈ g.edges) (hj : e.joins u v) :
    e ∈ outEdges g u := by
  unfold outEdges
  simp only [List.mem_filter]
  refine ⟨he, ?_⟩
  unfold inOut
  unfold Edge.joins at hj
  rcases hj with ⟨h1, _⟩ | ⟨h1, h2, _⟩
  · simp [h1]
  · simp [h1, h2]

theorem apOutEdges_sub {g : Graph} {u : Nat} {e : Edge} (h : e ∈ outEdges g u) : e ∈ g.edges := by
  unfold outEdges at h
  exact (List.mem_filter.1 h).1

theorem apJoins_mem_cands {g : Graph} {s u v : Nat} {e : Edge} (he : e ∈ g.edges) (hj : e.joins u v) :
    v ∈ cands g s := by
  unfold cands
  apply List.mem_cons_of_mem
  rw [List.mem_flatMap]
  refine ⟨e, he, ?_⟩
  unfold Edge.joins at hj
  rcases hj with ⟨_, h⟩ | ⟨_, _, h⟩ <;> simp [h]

theorem apWalk_trans {g : Graph} {flt : Flt} {t a b c n m : Nat}
    (h1 : BWalk g flt t a b n) (h2 : BWalk g flt t b c m) : BWalk g flt t a c (n + m) := by
  induction h1 with
  | nil u => simpa using h2
  | @cons u v w n e hs _ ih =>
    have := BWalk.cons e hs (ih h2)
    have hh : n + 1 + m = n + m + 1 := by omega
    rw [hh]; exact this

/-! ### association lists -/

theorem apLookupLevel_cons (k l : Nat) (m : List (Nat × Nat)) (v : Nat) :
    lookupLevel ((k, l) :: m) v = if k = v then some l else lookupLevel m v := by
  unfold lookupLevel
  by_cases h : k = v
  · simp [h]
  · have : (k == v) = false := by simpa using h
    simp [this, h]

theorem apLookupLevel_ne_none {m : List (Nat × Nat)} {v : Nat} :
    lookupLevel m v ≠ none ↔ v ∈ m.map (·.1) := by
  induction m with
  | nil => simp [lookupLevel]
  | cons x m ih =>
    obtain ⟨k, l⟩ := x
    rw [apLookupLevel_cons]
    by_cases h : k = v
    · simp [h]
    · simp only [h, if_false, List.map_cons, List.mem_cons]
      rw [ih]
      constructor
      · exact Or.inr
      · rintro (h' | h')
        · exact absurd h'.symm h
        · exact h'

theorem apLookupParents_cons (k : Nat) (ps : List (Nat × Nat)) (m : MultiParent) (v : Nat) :
    lookupParents ((k, ps) :: m) v = if k = v then some ps else lookupParents m v := by
  unfold lookupParents
  by_cases h : k = v
  · simp [h]
  · have : (k == v) = false := by simpa using h
    simp [this, h]

theorem apLookupParents_push (cap n : Nat) (entry : Nat × Nat) (m : MultiParent) (v : Nat) :
    lookupParents (pushParent cap n entry m) v =
      if v = n then (lookupParents m n).map (fun ps => if ps.length < cap then ps ++ [entry] else ps)
      else lookupParents m v := by
  induction m with
  | nil => simp [pushParent, lookupParents]
  | cons x m ih =>
    obtain ⟨k, ps⟩ := x
    unfold pushParent
    by_cases hk : k = n
    · subst hk
      simp only [beq_self_eq_true, if_true]
      rw [apLookupParents_cons, apLookupParents_cons]
      by_cases hv : v = k
      · subst hv; simp
      · have : ¬ k = v := fun h => hv h.symm
        simp [hv, this, apLookupParents_cons]
    · have : (k == n) = false := by simpa using hk
      simp only [this, Bool.false_eq_true, if_false]
      rw [apLookupParents_cons, ih, apLookupParents_cons]
      by_cases hv : v = n
      · subst hv
        simp [hk]
      · simp only [hv, if_false]
        rw [apLookupParents_cons]

/-! ### the scan as a fold of single steps -/

/-- one iteration of the `for edge_id in out_list(current)` loop -/
def apStep (cap tgt cur level : Nat) (st : APSt) (e : Edge) : APSt :=
  match apNbr cur e with
  | none => st
  | some nb =>
    match lookupLevel st.levels nb with
    | none =>
      { levels := (nb, level) :: st.levels, parents := (nb, [(cur, e.id)]) :: st.parents,
        next := st.next ++ [nb], found := st.found || nb == tgt }
    | some l =>
      if l == level then { st with parents := pushParent cap nb (cur, e.id) st.parents } else st

theorem apScan_eq_foldl (cap tgt cur level : Nat) (es : List Edge) (st : APSt) :
    apScan cap tgt cur level es st = es.foldl (apStep cap tgt cur level) st := by
  induction es generalizing st with
  | nil => rfl
  | cons e es ih =>
    rw [apScan, List.foldl_cons]
    unfold apStep
    cases h1 : apNbr cur e with
    | none => exact ih st
    | some nb =>
      dsimp only
      cases h2 : lookupLevel st.levels nb with
      | none => exact ih _
      | some l =>
        dsimp only
        by_cases h3 : (l == level) = true
        · rw [if_pos h3, if_pos h3]; exact ih _
        · rw [if_neg h3, if_neg h3]; exact ih _

/-- generic invariant of a left fold, remembering the elements already folded -/
theorem apFoldl_inv {α σ : Type} (f : σ → α → σ) (P : List α → σ → Prop) (Q : α → Prop)
    (hstep : ∀ acc st e, Q e → P acc st → P (e :: acc) (f st e)) (es : List α)
    (hQ : ∀ e, e ∈ es → Q e) (acc : List α) (st : σ) (h : P acc st) :
    P (es.reverse ++ acc) (es.foldl f st) := by
  induction es generalizing acc st with
  | nil => simpa using h
  | cons e es ih =>
    rw [List.foldl_cons, List.reverse_cons, List.append_assoc]
    exact ih (fun e' h' => hQ e' (List.mem_cons_of_mem _ h')) (e :: acc) (f st e)
      (hstep acc st e (hQ e (List.mem_cons_self ..)) h)

/-! ### the level invariant (soundness, distances, closure) -/

/-- parent lists are sound: each recorded pair is a real edge from a node exactly one level lower -/
def ApParOk (g : Graph) (s t : Nat) (P : MultiParent) : Prop :=
  ∀ v ps, lookupParents P v = some ps → ∀ pe, pe ∈ ps →
    ∃ l, IsDist g Flt.all t s pe.1 l ∧ IsDist g Flt.all t s v (l + 1) ∧
      ∃ e, e ∈ g.edges ∧ e.id = pe.2 ∧ e.joins pe.1 v

/-- every out-neighbour of `u` has a level -/
def ApClosed (g : Graph) (levels : List (Nat × Nat)) (u : Nat) : Prop :=
  ∀ e v, e ∈ g.edges → e.joins u v → lookupLevel levels v ≠ none

/-- invariant while level `L + 1` is being built; `rest` = nodes of level `L` not yet fully scanned -/
structure ApInv (g : Graph) (s t L : Nat) (rest : List Nat) (st : APSt) : Prop where
  lev : ∀ v l, lookupLevel st.levels v = some l → IsDist g Flt.all t s v l ∧ l ≤ L + 1
  closed : ∀ u l, lookupLevel st.levels u = some l → l ≤ L → u ∈ rest ∨ ApClosed g st.levels u
  next : ∀ v, v ∈ st.next ↔ lookupLevel st.levels v = some (L + 1)
  foundF : st.found = false → lookupLevel st.levels t = none
  foundT : st.found = true → lookupLevel st.levels t = some (L + 1)
  par : ApParOk g s t st.parents
  cands : ∀ v, lookupLevel st.levels v ≠ none → v ∈ cands g s
  src : lookupLevel st.levels s = some 0

section inv
variable {g : Graph} {s t : Nat}

/-- a node first seen from a level-`L` node is at distance exactly `L + 1` -/
theorem apDiscover {L : Nat} {R : List Nat} {st : APSt} {cur nb : Nat} {e : Edge}
    (h : ApInv g s t L R st) (hR : ∀ c, c ∈ R → IsDist g Flt.all t s c L) (hcur : cur ∈ R)
    (he : e ∈ g.edges) (hj : e.joins cur nb) (hnb : lookupLevel st.levels nb = none) :
    IsDist g Flt.all t s nb (L + 1) := by
  refine ⟨(hR cur hcur).1.snoc (apBStep_iff.2 ⟨he, hj⟩), ?_⟩
  intro m hm
  have hsV : s ∈ st.levels.map (·.1) := apLookupLevel_ne_none.1 (by rw [h.src]; simp)
  have hnV : nb ∉ st.levels.map (·.1) := fun hc => apLookupLevel_ne_none.2 hc hnb
  obtain ⟨x, y, i, e', hx, hxV, hxy, hyV, hi⟩ := frontier _ hm hsV hnV (BWalk.nil s)
  have hxl : lookupLevel st.levels x ≠ none := apLookupLevel_ne_none.2 hxV
  cases hlx : lookupLevel st.levels x with
  | none => exact absurd hlx hxl
  | some lx =>
    obtain ⟨hdx, hle⟩ := h.lev x lx hlx
    have h1 := hdx.2 i hx
    by_cases hlL : lx ≤ L
    · rcases h.closed x lx hlx hlL with hxR | hcl
      · have := (hR x hxR).2 i hx
        omega
      · have hs' := apBStep_iff.1 hxy
        exact absurd (apLookupLevel_ne_none.1 (hcl e' y hs'.1 hs'.2)) hyV
    · omega

theorem apStep_inv {cap L : Nat} {R : List Nat} {st : APSt} {cur : Nat} {e : Edge}
    (h : ApInv g s t L R st) (hR : ∀ c, c ∈ R → IsDist g Flt.all t s c L) (hcur : cur ∈ R)
    (he : e ∈ g.edges) :
    ApInv g s t L R (apStep cap t cur (L + 1) st e) ∧
    (∀ v l, lookupLevel st.levels v = some l →
      lookupLevel (apStep cap t cur (L + 1) st e).levels v = some l) ∧
    (∀ v, e.joins cur v → lookupLevel (apStep cap t cur (L + 1) st e).levels v ≠ none) := by
  unfold apStep
  cases h1 : apNbr cur e with
  | none =>
    dsimp only
    refine ⟨h, fun _ _ hh => hh, ?_⟩
    intro v hj
    rw [apNbr_iff.2 hj] at h1; cases h1
  | some nb =>
    dsimp only
    have hj : e.joins cur nb := apNbr_iff.1 h1
    have hfun : ∀ v, e.joins cur v → v = nb := by
      intro v hv
      have := apNbr_iff.2 hv
      rw [h1] at this; cases this; rfl
    cases h2 : lookupLevel st.levels nb with
    | none =>
      dsimp only
      have hdn := apDiscover h hR hcur he hj h2
      have hmono : ∀ v l, lookupLevel st.levels v = some l →
          lookupLevel ((nb, L + 1) :: st.levels) v = some l := by
        intro v l hv
        rw [apLookupLevel_cons]
        by_cases hnv : nb = v
        · subst hnv; rw [h2] at hv; cases hv
        · simp only [hnv, if_false]; exact hv
      have hmono' : ∀ v, lookupLevel st.levels v ≠ none →
          lookupLevel ((nb, L + 1) :: st.levels) v ≠ none := by
        intro v hv
        cases hl : lookupLevel st.levels v with
        | none => exact absurd hl hv
        | some l => rw [hmono v l hl]; simp
      refine ⟨⟨?_, ?_, ?_, ?_, ?_, ?_, ?_, ?_⟩, hmono, ?_⟩
      · intro v l hv
        dsimp only at hv
        rw [apLookupLevel_cons] at hv
        by_cases hnv : nb = v
        · subst hnv
          simp only [if_true, Option.some.injEq] at hv
          subst hv
          exact ⟨hdn, Nat.le_refl _⟩
        · simp only [hnv, if_false] at hv
          exact h.lev v l hv
      · intro u l hu hl
        dsimp only at hu ⊢
        rw [apLookupLevel_cons] at hu
        by_cases hnu : nb = u
        · simp only [hnu, if_true, Option.some.injEq] at hu
          omega
        · simp only [hnu, if_false] at hu
          rcases h.closed u l hu hl with hr | hc
          · exact Or.inl hr
          · exact Or.inr (fun e' v he' hj' => hmono' v (hc e' v he' hj'))
      · intro v
        dsimp only
        simp only [List.mem_append, List.mem_singleton]
        rw [apLookupLevel_cons]
        by_cases hnv : nb = v
        · subst hnv; simp
        · simp only [hnv, if_false]
          rw [← h.next v]
          constructor
          · rintro (h' | h')
            · exact h'
            · exact absurd h'.symm hnv
          · exact Or.inl
      · intro hf
        dsimp only at hf ⊢
        simp only [Bool.or_eq_false_iff] at hf
        obtain ⟨hf1, hf2⟩ := hf
        rw [apLookupLevel_cons]
        have : ¬ nb = t := by simpa using hf2
        simp only [this, if_false]
        exact h.foundF hf1
      · intro hf
        dsimp only at hf ⊢
        rw [apLookupLevel_cons]
        by_cases hnt : nb = t
        · simp [hnt]
        · simp only [hnt, if_false]
          have : st.found = true := by simpa [hnt] using hf
          exact h.foundT this
      · intro v ps hv pe hpe
        dsimp only at hv
        rw [apLookupParents_cons] at hv
        by_cases hnv : nb = v
        · subst hnv
          simp only [if_true, Option.some.injEq] at hv
          subst hv
          have : pe = (cur, e.id) := by simpa using hpe
          subst this
          exact ⟨L, hR cur hcur, hdn, e, he, rfl, hj⟩
        · simp only [hnv, if_false] at hv
          exact h.par v ps hv pe hpe
      · intro v hv
        dsimp only at hv
        rw [apLookupLevel_cons] at hv
        by_cases hnv : nb = v
        · subst hnv; exact apJoins_mem_cands he hj
        · simp only [hnv, if_false] at hv
          exact h.cands v hv
      · exact hmono s 0 h.src
      · intro v hv
        rw [hfun v hv, apLookupLevel_cons]
        simp
    | some l =>
      dsimp only
      have hsc : ∀ v, e.joins cur v → lookupLevel st.levels v ≠ none := by
        intro v hv
        rw [hfun v hv, h2]; simp
      by_cases h3 : (l == L + 1) = true
      · rw [if_pos h3]
        have hl : l = L + 1 := by simpa using h3
        subst hl
        refine ⟨⟨h.lev, h.closed, h.next, h.foundF, h.foundT, ?_, h.cands, h.src⟩,
          fun _ _ hh => hh, hsc⟩
        intro v ps hv pe hpe
        dsimp only at hv
        rw [apLookupParents_push] at hv
        by_cases hvn : v = nb
        · subst hvn
          simp only [if_true] at hv
          cases h4 : lookupParents st.parents v with
          | none => rw [h4] at hv; simp at hv
          | some ps0 =>
            rw [h4] at hv
            simp only [Option.map_some, Option.some.injEq] at hv
            subst hv
            have hold := h.par v ps0 h4 pe
            by_cases hc : ps0.length < cap
            · rw [if_pos hc] at hpe
              rcases List.mem_append.1 hpe with hpe | hpe
              · exact hold hpe
              · have : pe = (cur, e.id) := by simpa using hpe
                subst this
                exact ⟨L, hR cur hcur, (h.lev v (L + 1) h2).1, e, he, rfl, hj⟩
            · rw [if_neg hc] at hpe
              exact hold hpe
        · simp only [hvn, if_false] at hv
          exact h.par v ps hv pe hpe
      · rw [if_neg h3]
        exact ⟨h, fun _ _ hh => hh, hsc⟩

theorem apScan_inv {cap L : Nat} {R : List Nat} {cur : Nat}
    (hR : ∀ c, c ∈ R → IsDist g Flt.all t s c L) (hcur : cur ∈ R) (es : List Edge)
    (hes : ∀ e, e ∈ es → e ∈ g.edges) (st : APSt) (h : ApInv g s t L R st) :
    ApInv g s t L R (apScan cap t cur (L + 1) es st) ∧
    (∀ v l, lookupLevel st.levels v = some l →
      lookupLevel (apScan cap t cur (L + 1) es st).levels v = some l) ∧
    (∀ e, e ∈ es → ∀ v, e.joins cur v →
      lookupLevel (apScan cap t cur (L + 1) es st).levels v ≠ none) := by
  rw [apScan_eq_foldl]
  have := apFoldl_inv (apStep cap t cur (L + 1))
    (fun acc st' => ApInv g s t L R st' ∧
      (∀ v l, lookupLevel st.levels v = some l → lookupLevel st'.levels v = some l) ∧
      (∀ e, e ∈ acc → ∀ v, e.joins cur v → lookupLevel st'.levels v ≠ none))
    (fun e => e ∈ g.edges)
    (by
      intro acc st' e he ⟨hi, hm, ha⟩
      obtain ⟨k1, k2, k3⟩ := apStep_inv (cap := cap) hi hR hcur he
      refine ⟨k1, fun v l hv => k2 v l (hm v l hv), ?_⟩
      intro e' he' v hj
      rcases List.mem_cons.1 he' with rfl | he'
      · exact k3 v hj
      · cases hl : lookupLevel st'.levels v with
        | none => exact absurd hl (ha e' he' v hj)
        | some l => rw [k2 v l hl]; simp)
    es hes [] st ⟨h, fun _ _ hh => hh, fun _ he => by cases he⟩
  obtain ⟨k1, k2, k3⟩ := this
  exact ⟨k1, k2, fun e he => k3 e (by simpa using he)⟩

theorem apLevel_inv {cap L : Nat} (cl : List Nat) (hR : ∀ c, c ∈ cl → IsDist g Flt.all t s c L)
    (st : APSt) (h : ApInv g s t L cl st) :
    ApInv g s t L [] (apLevel g cap t (L + 1) cl st) ∧
    (∀ v l, lookupLevel st.levels v = some l →
      lookupLevel (apLevel g cap t (L + 1) cl st).levels v = some l) := by
  induction cl generalizing st with
  | nil => exact ⟨h, fun _ _ hh => hh⟩
  | cons c rest ih =>
    rw [apLevel]
    obtain ⟨h1, hm1, hs1⟩ := apScan_inv (cap := cap) hR (List.mem_cons_self ..) (outEdges g c)
      (fun e he => apOutEdges_sub he) st h
    have h1' : ApInv g s t L rest (apScan cap t c (L + 1) (outEdges g c) st) := by
      refine { h1 with closed := ?_ }
      intro u l hu hl
      rcases h1.closed u l hu hl with hr | hc
      · rcases List.mem_cons.1 hr with rfl | hr
        · exact Or.inr (fun e v he hj => hs1 e (apMem_outEdges he hj) v hj)
        · exact Or.inl hr
      · exact Or.inr hc
    obtain ⟨h2, hm2⟩ := ih (fun c' hc' => hR c' (List.mem_cons_of_mem _ hc')) _ h1'
    exact ⟨h2, fun v l hv => hm2 v l (hm1 v l hv)⟩

/-- invariant of the outer `while` at the start of a level: `current` = the nodes of level `level` -/
structure ApLoopInv (g : Graph) (s t level : Nat) (current : List Nat) (st : APSt) : Prop where
  lev : ∀ v l, lookupLevel st.levels v = some l → IsDist g Flt.all t s v l ∧ l ≤ level
  cur : ∀ v, v ∈ current ↔ lookupLevel st.levels v = some level
  closed : ∀ u l, lookupLevel st.levels u = some l → l < level → ApClosed g st.levels u
  found : st.found = false
  tgt : lookupLevel st.levels t = none
  par : ApParOk g s t st.parents
  cands : ∀ v, lookupLevel st.levels v ≠ none → v ∈ cands g s
  src : lookupLevel st.levels s = some 0

theorem apLoopInv_start {level : Nat} {current : List Nat} {st : APSt}
    (h : ApLoopInv g s t level current st) : ApInv g s t level current { st with next := [] } := by
  refine ⟨?_, ?_, ?_, fun _ => h.tgt, ?_, h.par, h.cands, h.src⟩
  · intro v l hv
    have := h.lev v l hv
    exact ⟨this.1, by omega⟩
  · intro u l hu hl
    by_cases hlt : l < level
    · exact Or.inr (h.closed u l hu hlt)
    · have : l = level := by omega
      subst this
      exact Or.inl ((h.cur u).2 hu)
  · intro v
    constructor
    · intro hv; cases hv
    · intro hv
      have := (h.lev v _ hv).2
      omega
  · intro hf
    have := h.found
    dsimp only at hf
    rw [this] at hf; cases hf

theorem apLoopInv_next {level : Nat} {st : APSt} (h : ApInv g s t level [] st)
    (hf : st.found = false) : ApLoopInv g s t (level + 1) st.next st := by
  refine ⟨h.lev, h.next, ?_, hf, h.foundF hf, h.par, h.cands, h.src⟩
  intro u l hu hl
  rcases h.closed u l hu (by omega) with hr | hc
  · cases hr
  · exact hc

theorem apLoopInv_init (g : Graph) {s t : Nat} (hst : s ≠ t) :
    ApLoopInv g s t 0 [s] { levels := [(s, 0)], parents := [], next := [], found := false } := by
  have hl : ∀ v l, lookupLevel [(s, 0)] v = some l → v = s ∧ l = 0 := by
    intro v l hv
    rw [apLookupLevel_cons] at hv
    by_cases hsv : s = v
    · simp only [hsv, if_true, Option.some.injEq] at hv
      exact ⟨hsv.symm, hv.symm⟩
    · simp [hsv, lookupLevel] at hv
  refine ⟨?_, ?_, ?_, rfl, ?_, ?_, ?_, ?_⟩
  · intro v l hv
    obtain ⟨rfl, rfl⟩ := hl v l hv
    exact ⟨isDist_src, Nat.le_refl _⟩
  · intro v
    dsimp only
    rw [apLookupLevel_cons]
    by_cases hsv : s = v
    · simp [hsv]
    · have : ¬ v = s := fun h => hsv h.symm
      simp [hsv, this, lookupLevel]
  · intro u l _ hl'; omega
  · dsimp only
    rw [apLookupLevel_cons]
    simp [hst, lookupLevel]
  · intro v ps hv
    simp [lookupParents] at hv
  · intro v hv
    dsimp only at hv
    cases hl' : lookupLevel [(s, 0)] v with
    | none => exact absurd hl' hv
    | some l =>
      obtain ⟨rfl, _⟩ := hl v l hl'
      exact List.mem_cons_self ..
  · dsimp only
    rw [apLookupLevel_cons]; simp

/-- the loop's answer: the hop count is the distance of `t` and the parent lists are sound -/
theorem apLoop_some {cap : Nat} (fuel level : Nat) (current : List Nat) (st : APSt)
    (hinv : ApLoopInv g s t level current st) (hops : Nat) (P : MultiParent)
    (hr : apLoop g cap t fuel level current st = some (hops, P)) :
    IsDist g Flt.all t s t hops ∧ ApParOk g s t P := by
  induction fuel generalizing level current st with
  | zero => simp [apLoop] at hr
  | succ fuel ih =>
    rw [apLoop] at hr
    by_cases hemp : current.isEmpty = true
    · rw [if_pos hemp] at hr; cases hr
    · rw [if_neg hemp] at hr
      dsimp only at hr
      obtain ⟨hA, _⟩ := apLevel_inv (cap := cap) current
        (fun c hc => (hinv.lev c level ((hinv.cur c).1 hc)).1) _ (apLoopInv_start hinv)
      by_cases hf : (apLevel g cap t (level + 1) current { st with next := [] }).found = true
      · rw [if_pos hf] at hr
        simp only [Option.some.injEq, Prod.mk.injEq] at hr
        obtain ⟨rfl, rfl⟩ := hr
        exact ⟨(hA.lev t _ (hA.foundT hf)).1, hA.par⟩
      · rw [if_neg hf] at hr
        exact ih _ _ _ (apLoopInv_next hA (by simpa using hf)) hr

/-- an empty level means the visited set is closed and misses `t` -/
theorem apLoop_empty {level : Nat} {st : APSt} (hinv : ApLoopInv g s t level [] st) :
    ∀ n, ¬ BWalk g Flt.all t s t n := by
  intro n hw
  have hsV : s ∈ st.levels.map (·.1) := apLookupLevel_ne_none.1 (by rw [hinv.src]; simp)
  have htV : t ∉ st.levels.map (·.1) := fun hc => apLookupLevel_ne_none.2 hc hinv.tgt
  obtain ⟨x, y, i, e, _, hxV, hxy, hyV, _⟩ := frontier _ hw hsV htV (BWalk.nil s)
  have hxl : lookupLevel st.levels x ≠ none := apLookupLevel_ne_none.2 hxV
  cases hlx : lookupLevel st.levels x with
  | none => exact absurd hlx hxl
  | some lx =>
    have hle := (hinv.lev x lx hlx).2
    by_cases hlt : lx < level
    · have hs' := apBStep_iff.1 hxy
      exact hyV (apLookupLevel_ne_none.1 (hinv.closed x lx hlx hlt e y hs'.1 hs'.2))
    · have : lx = level := by omega
      subst this
      have := (hinv.cur x).2 hlx
      cases this

theorem apLoop_none {cap : Nat} (fuel level : Nat) (current : List Nat) (st : APSt)
    (hinv : ApLoopInv g s t level current st)
    (hfuel : unvis (cands g s) (st.levels.map (·.1)) + 1 ≤ fuel)
    (hr : apLoop g cap t fuel level current st = none) : ∀ n, ¬ BWalk g Flt.all t s t n := by
  induction fuel generalizing level current st with
  | zero => omega
  | succ fuel ih =>
    rw [apLoop] at hr
    by_cases hemp : current.isEmpty = true
    · have : current = [] := by simpa using hemp
      subst this
      exact apLoop_empty hinv
    · rw [if_neg hemp] at hr
      dsimp only at hr
      obtain ⟨hA, hm⟩ := apLevel_inv (cap := cap) current
        (fun c hc => (hinv.lev c level ((hinv.cur c).1 hc)).1) _ (apLoopInv_start hinv)
      by_cases hf : (apLevel g cap t (level + 1) current { st with next := [] }).found = true
      · rw [if_pos hf] at hr; cases hr
      · rw [if_neg hf] at hr
        have hinv' := apLoopInv_next hA (by simpa using hf)
        cases hnx : (apLevel g cap t (level + 1) current { st with next := [] }).next with
        | nil => rw [hnx] at hinv'; exact apLoop_empty hinv'
        | cons nb rest =>
          apply ih _ _ _ hinv' _ hr
          have hnb : lookupLevel (apLevel g cap t (level + 1) current { st with next := [] }).levels nb
              = some (level + 1) := (hA.next nb).1 (by rw [hnx]; exact List.mem_cons_self ..)
          have hnb0 : lookupLevel st.levels nb = none := by
            cases hl : lookupLevel st.levels nb with
            | none => rfl
            | some l =>
              have h1 := (hinv.lev nb l hl).2
              have h2 := hm nb l hl
              rw [hnb] at h2
              simp only [Option.some.injEq] at h2
              omega
          have hdrop : unvis (cands g s)
              ((apLevel g cap t (level + 1) current { st with next := [] }).levels.map (·.1)) + 1
              ≤ unvis (cands g s) (st.levels.map (·.1)) := by
            unfold unvis
            apply filter_len_lt _ _ _ (cands g s) nb
            · exact hA.cands nb (by rw [hnb]; simp)
            · have : nb ∉ st.levels.map (·.1) := fun hc => apLookupLevel_ne_none.2 hc hnb0
              simpa using this
            · have : nb ∈ (apLevel g cap t (level + 1) current { st with next := [] }).levels.map (·.1) :=
                apLookupLevel_ne_none.1 (by rw [hnb]; simp)
              simpa using this
            · intro x hx
              simp only [decide_eq_true_eq] at hx ⊢
              intro hc
              apply hx
              have hc' := apLookupLevel_ne_none.2 hc
              cases hl : lookupLevel st.levels x with
              | none => exact absurd hl hc'
              | some l => exact apLookupLevel_ne_none.1 (by rw [hm x l hl]; simp)
          omega

end inv

/-! ### enumeration: soundness -/

section enum
variable {g : Graph} {s t : Nat}

theorem apEnum_sound (P : MultiParent) (hP : ApParOk g s t P) (d cur : Nat) (tl es : List Nat)
    (hch : ChainOk g (BStep g Flt.all t) (cur :: tl) es) (hl : (cur :: tl).getLast? = some t) :
    ∀ p, p ∈ apEnum P s d cur (cur :: tl) es →
      p.nodes.head? = some s ∧ p.nodes.getLast? = some t ∧
      ChainOk g (BStep g Flt.all t) p.nodes p.edges ∧
      ∀ dc, IsDist g Flt.all t s cur dc → p.edges.length = es.length + dc := by
  induction d generalizing cur tl es with
  | zero =>
    intro p hp
    rw [apEnum] at hp
    by_cases hcs : (cur == s) = true
    · rw [if_pos hcs] at hp
      have hcs' : cur = s := by simpa using hcs
      subst hcs'
      have : p = { nodes := cur :: tl, edges := es } := by simpa using hp
      subst this
      refine ⟨rfl, hl, hch, ?_⟩
      intro dc hdc
      have : dc = 0 := hdc.unique isDist_src
      simp [this]
    · rw [if_neg hcs] at hp
      simp at hp
  | succ d ih =>
    intro p hp
    rw [apEnum] at hp
    by_cases hcs : (cur == s) = true
    · rw [if_pos hcs] at hp
      have hcs' : cur = s := by simpa using hcs
      subst hcs'
      have : p = { nodes := cur :: tl, edges := es } := by simpa using hp
      subst this
      refine ⟨rfl, hl, hch, ?_⟩
      intro dc hdc
      have : dc = 0 := hdc.unique isDist_src
      simp [this]
    · rw [if_neg hcs] at hp
      dsimp only at hp
      cases hlp : lookupParents P cur with
      | none => rw [hlp] at hp; simp at hp
      | some ps =>
        rw [hlp] at hp
        dsimp only at hp
        rw [List.mem_flatMap] at hp
        obtain ⟨⟨par, eid⟩, hmem, hp⟩ := hp
        have hmem' : (par, eid) ∈ ps := by simpa using hmem
        obtain ⟨l, hdp, hdc', e, he, heid, hj⟩ := hP cur ps hlp (par, eid) hmem'
        dsimp only at hdp heid hj hp
        have hch' : ChainOk g (BStep g Flt.all t) (par :: cur :: tl) (eid :: es) := by
          simp only [ChainOk]
          exact ⟨⟨e, he, heid, apBStep_iff.2 ⟨he, hj⟩⟩, hch⟩
        have hl' : (par :: cur :: tl).getLast? = some t := by
          rw [List.getLast?_cons_cons]; exact hl
        obtain ⟨k1, k2, k3, k4⟩ := ih par (cur :: tl) (eid :: es) hch' hl' p hp
        refine ⟨k1, k2, k3, ?_⟩
        intro dc hdc
        have := k4 l hdp
        have h2 : dc = l + 1 := hdc.unique hdc'
        simp only [List.length_cons] at this
        omega

end enum

/-! ### `findAllPaths` case analysis and the first three theorems -/

/-- the state `find_all_paths` starts its loop from -/
def apInit (s : Nat) : APSt := { levels := [(s, 0)], parents := [], next := [], found := false }

theorem findAllPaths_ok_cases {g : Graph} {maxPaths cap s t : Nat} {r : AllPaths}
    (h : findAllPaths g maxPaths cap s t = .ok r) :
    (s = t ∧ r = { hops := 0, paths := [{ nodes := [s], edges := [] }] }) ∨
    (s ≠ t ∧ ∃ hops P, apLoop g cap t (bfsFuel g) 0 [s] (apInit s) = some (hops, P) ∧
      r = { hops := hops, paths := (apEnum P s hops t [t] []).take maxPaths }) := by
  unfold findAllPaths at h
  split at h
  · cases h
  · split at h
    · cases h
    · split at h
      · rename_i hst
        left
        simp only [Except.ok.injEq] at h
        exact ⟨by simpa using hst, h.symm⟩
      · rename_i hst
        right
        refine ⟨by simpa using hst, ?_⟩
        split at h
        · cases h
        · rename_i hops P hP
          simp only [Except.ok.injEq] at h
          exact ⟨hops, P, hP, h.symm⟩

theorem findAllPaths_eq_of_ne {g : Graph} {maxPaths cap s t : Nat} (hs : g.hasNode s = true)
    (ht : g.hasNode t = true) (hst : s ≠ t) :
    findAllPaths g maxPaths cap s t =
      match apLoop g cap t (bfsFuel g) 0 [s] (apInit s) with
      | none => .error .pathNotFound
      | some (hops, parents) =>
        .ok { hops := hops, paths := (apEnum parents s hops t [t] []).take maxPaths } := by
  have h3 : (s == t) = false := by simpa using hst
  unfold findAllPaths apInit
  simp only [hs, ht, h3, Bool.not_true, Bool.false_eq_true, if_false]
  rfl

/-- every listed path is a real direction-respecting chain from s to t with exactly `hops` edges -/
theorem allpaths_sound (g : Graph) (maxPaths cap s t : Nat) (r : AllPaths)
    (h : findAllPaths g maxPaths cap s t = .ok r) :
    ∀ p, p ∈ r.paths → p.nodes.head? = some s ∧ p.nodes.getLast? = some t ∧
      ChainOk g (BStep g Flt.all t) p.nodes p.edges ∧ p.edges.length = r.hops := by
  rcases findAllPaths_ok_cases h with ⟨rfl, rfl⟩ | ⟨hst, hops, P, hP, rfl⟩
  · intro p hp
    have : p = { nodes := [s], edges := [] } := by simpa using hp
    subst this
    exact ⟨rfl, rfl, trivial, rfl⟩
  · intro p hp
    obtain ⟨hd, hpar⟩ := apLoop_some (bfsFuel g) 0 [s] (apInit s) (apLoopInv_init g hst) hops P hP
    obtain ⟨k1, k2, k3, k4⟩ := apEnum_sound P hpar hops t [] [] trivial rfl p
      (List.mem_of_mem_take hp)
    refine ⟨k1, k2, k3, ?_⟩
    have := k4 hops hd
    simpa using this

/-- the reported hop count is the true distance: a walk of that length exists and none is shorter -/
theorem allpaths_hops_shortest (g : Graph) (maxPaths cap s t : Nat) (r : AllPaths)
    (h : findAllPaths g maxPaths cap s t = .ok r) :
    BWalk g Flt.all t s t r.hops ∧ ∀ n, BWalk g Flt.all t s t n → r.hops ≤ n := by
  rcases findAllPaths_ok_cases h with ⟨rfl, rfl⟩ | ⟨hst, hops, P, hP, rfl⟩
  · exact ⟨BWalk.nil s, fun _ _ => Nat.zero_le _⟩
  · exact (apLoop_some (bfsFuel g) 0 [s] (apInit s) (apLoopInv_init g hst) hops P hP).1

theorem allpaths_none_iff_unreachable (g : Graph) (maxPaths cap s t : Nat)
    (hs : g.hasNode s = true) (ht : g.hasNode t = true) :
    findAllPaths g maxPaths cap s t = .error .pathNotFound ↔ ¬ ∃ n, BWalk g Flt.all t s t n := by
  by_cases hst : s = t
  · subst hst
    have h1 : findAllPaths g maxPaths cap s s =
        .ok { hops := 0, paths := [{ nodes := [s], edges := [] }] } := by
      unfold findAllPaths; simp [hs]
    rw [h1]
    constructor
    · intro h; cases h
    · intro h; exact absurd ⟨0, BWalk.nil s⟩ h
  · rw [findAllPaths_eq_of_ne hs ht hst]
    cases hr : apLoop g cap t (bfsFuel g) 0 [s] (apInit s) with
    | none =>
      dsimp only
      refine ⟨fun _ => ?_, fun _ => rfl⟩
      rintro ⟨n, hw⟩
      refine apLoop_none (bfsFuel g) 0 [s] (apInit s) (apLoopInv_init g hst) ?_ hr n hw
      have := mu_init g s
      simpa [mu, apInit] using this
    | some hp =>
      obtain ⟨hops, P⟩ := hp
      dsimp only
      refine ⟨fun h => (by cases h), fun h => ?_⟩
      exfalso
      apply h
      exact ⟨hops, (apLoop_some (bfsFuel g) 0 [s] (apInit s) (apLoopInv_init g hst) hops P hr).1.1⟩

/-! ### completeness of the parent lists (when the cap is not reached) -/

/-- all recorded entries survive -/
def ApSub (P P' : MultiParent) : Prop :=
  ∀ v ps, lookupParents P v = some ps →
    ∃ ps', lookupParents P' v = some ps' ∧ ∀ pe, pe ∈ ps → pe ∈ ps'

/-- number of scan steps spent on the nodes of `l` -/
def apDegSum (g : Graph) (l : List Nat) : Nat := (l.map (fun u => (outEdges g u).length)).sum

/-- second invariant while level `L + 1` is being built: parent lists are complete for the part
    already scanned, and no list is longer than the number `n` of scan steps done -/
structure ApInvB (g : Graph) (s t L : Nat) (rest : List Nat) (n : Nat) (st : APSt) : Prop where
  keys : ∀ v, lookupParents st.parents v ≠ none → lookupLevel st.levels v ≠ none
  has : ∀ v, lookupLevel st.levels v ≠ none → v ≠ s → lookupParents st.parents v ≠ none
  compl : ∀ p l v e, lookupLevel st.levels p = some l → l ≤ L → e ∈ g.edges → e.joins p v →
    IsDist g Flt.all t s v (l + 1) →
    p ∈ rest ∨ ∃ ps, lookupParents st.parents v = some ps ∧ (p, e.id) ∈ ps
  bound : ∀ v ps, lookupParents st.parents v = some ps → ps.length ≤ n
  nextNd : st.next.Nodup

theorem apFoldl_inv_len {α σ : Type} (f : σ → α → σ) (P : List α → σ → Prop) (Q : α → Prop) (N : Nat)
    (hstep : ∀ acc st e, Q e → acc.length < N → P acc st → P (e :: acc) (f st e)) (es : List α)
    (hQ : ∀ e, e ∈ es → Q e) (acc : List α) (st : σ) (hN : acc.length + es.length ≤ N)
    (h : P acc st) : P (es.reverse ++ acc) (es.foldl f st) := by
  induction es generalizing acc st with
  | nil => simpa using h
  | cons e es ih =>
    rw [List.foldl_cons, List.reverse_cons, List.append_assoc]
    simp only [List.length_cons] at hN
    exact ih (fun e' h' => hQ e' (List.mem_cons_of_mem _ h')) (e :: acc) (f st e)
      (by simp only [List.length_cons]; omega)
      (hstep acc st e (hQ e (List.mem_cons_self ..)) (by omega) h)

section invB
variable {g : Graph} {s t : Nat}

theorem ApInvB.weaken {L n : Nat} {R : List Nat} {st : APSt} (h : ApInvB g s t L R n st) :
    ApInvB g s t L R (n + 1) st :=
  { h with bound := fun v ps hv => Nat.le_succ_of_le (h.bound v ps hv) }

theorem ApSub.rfl' (P : MultiParent) : ApSub P P := fun _ ps hv => ⟨ps, hv, fun _ h => h⟩

theorem apStep_invB {cap L n : Nat} {R : List Nat} {st : APSt} {cur : Nat} {e : Edge}
    (hA : ApInv g s t L R st) (hB : ApInvB g s t L R n st) (hn : n < cap) :
    ApInvB g s t L R (n + 1) (apStep cap t cur (L + 1) st e) ∧
    ApSub st.parents (apStep cap t cur (L + 1) st e).parents ∧
    (∀ v, e.joins cur v → IsDist g Flt.all t s v (L + 1) →
      ∃ ps, lookupParents (apStep cap t cur (L + 1) st e).parents v = some ps ∧ (cur, e.id) ∈ ps) := by
  unfold apStep
  cases h1 : apNbr cur e with
  | none =>
    dsimp only
    refine ⟨hB.weaken, ApSub.rfl' _, ?_⟩
    intro v hj
    rw [apNbr_iff.2 hj] at h1; cases h1
  | some nb =>
    dsimp only
    have hj : e.joins cur nb := apNbr_iff.1 h1
    have hfun : ∀ v, e.joins cur v → v = nb := by
      intro v hv
      have := apNbr_iff.2 hv
      rw [h1] at this; cases this; rfl
    cases h2 : lookupLevel st.levels nb with
    | none =>
      dsimp only
      have hlp : lookupParents st.parents nb = none := by
        cases hq : lookupParents st.parents nb with
        | none => rfl
        | some x => exact absurd h2 (hB.keys nb (by rw [hq]; simp))
      have hsub : ApSub st.parents ((nb, [(cur, e.id)]) :: st.parents) := by
        intro v ps hv
        refine ⟨ps, ?_, fun _ h => h⟩
        rw [apLookupParents_cons]
        by_cases hnv : nb = v
        · subst hnv; rw [hlp] at hv; cases hv
        · simp only [hnv, if_false]; exact hv
      refine ⟨⟨?_, ?_, ?_, ?_, ?_⟩, hsub, ?_⟩
      · intro v hv
        dsimp only at hv ⊢
        rw [apLookupParents_cons] at hv
        rw [apLookupLevel_cons]
        by_cases hnv : nb = v
        · simp [hnv]
        · simp only [hnv, if_false] at hv ⊢
          exact hB.keys v hv
      · intro v hv hvs
        dsimp only at hv ⊢
        rw [apLookupLevel_cons] at hv
        rw [apLookupParents_cons]
        by_cases hnv : nb = v
        · simp [hnv]
        · simp only [hnv, if_false] at hv ⊢
          exact hB.has v hv hvs
      · intro p l v e' hp hl he' hj' hd
        dsimp only at hp ⊢
        rw [apLookupLevel_cons] at hp
        by_cases hnp : nb = p
        · simp only [hnp, if_true, Option.some.injEq] at hp
          omega
        · simp only [hnp, if_false] at hp
          rcases hB.compl p l v e' hp hl he' hj' hd with hr | ⟨ps, k1, k2⟩
          · exact Or.inl hr
          · obtain ⟨ps', k3, k4⟩ := hsub v ps k1
            exact Or.inr ⟨ps', k3, k4 _ k2⟩
      · intro v ps hv
        dsimp only at hv
        rw [apLookupParents_cons] at hv
        by_cases hnv : nb = v
        · simp only [hnv, if_true, Option.some.injEq] at hv
          subst hv
          simp
        · simp only [hnv, if_false] at hv
          have := hB.bound v ps hv
          omega
      · dsimp only
        refine List.nodup_append.2 ⟨hB.nextNd, by simp, ?_⟩
        intro a ha b hb hab
        have hb' : b = nb := by simpa using hb
        subst hb'; subst hab
        have := (hA.next a).1 ha
        rw [h2] at this; cases this
      · intro v hv _
        rw [hfun v hv]
        exact ⟨[(cur, e.id)], by rw [apLookupParents_cons]; simp, by simp⟩
    | some l =>
      dsimp only
      by_cases h3 : (l == L + 1) = true
      · rw [if_pos h3]
        have hl : l = L + 1 := by simpa using h3
        subst hl
        have hsub : ApSub st.parents (pushParent cap nb (cur, e.id) st.parents) := by
          intro v ps hv
          rw [apLookupParents_push]
          by_cases hvn : v = nb
          · subst hvn
            simp only [if_true]
            rw [hv]
            simp only [Option.map_some]
            by_cases hc : ps.length < cap
            · rw [if_pos hc]
              exact ⟨_, rfl, fun pe h => List.mem_append_left _ h⟩
            · rw [if_neg hc]
              exact ⟨ps, rfl, fun _ h => h⟩
          · simp only [hvn, if_false]
            exact ⟨ps, hv, fun _ h => h⟩
        refine ⟨⟨?_, ?_, ?_, ?_, hB.nextNd⟩, hsub, ?_⟩
        · intro v hv
          dsimp only at hv ⊢
          rw [apLookupParents_push] at hv
          by_cases hvn : v = nb
          · subst hvn
            simp only [if_true] at hv
            cases hq : lookupParents st.parents v with
            | none => rw [hq] at hv; simp at hv
            | some ps0 => exact hB.keys v (by rw [hq]; simp)
          · simp only [hvn, if_false] at hv
            exact hB.keys v hv
        · intro v hv hvs
          dsimp only at hv ⊢
          have := hB.has v hv hvs
          cases hq : lookupParents st.parents v with
          | none => exact absurd hq this
          | some ps =>
            obtain ⟨ps', k1, _⟩ := hsub v ps hq
            rw [k1]; simp
        · intro p l v e' hp hl he' hj' hd
          rcases hB.compl p l v e' hp hl he' hj' hd with hr | ⟨ps, k1, k2⟩
          · exact Or.inl hr
          · obtain ⟨ps', k3, k4⟩ := hsub v ps k1
            exact Or.inr ⟨ps', k3, k4 _ k2⟩
        · intro v ps hv
          dsimp only at hv
          rw [apLookupParents_push] at hv
          by_cases hvn : v = nb
          · subst hvn
            simp only [if_true] at hv
            cases hq : lookupParents st.parents v with
            | none => rw [hq] at hv; simp at hv
            | some ps0 =>
              rw [hq] at hv
              simp only [Option.map_some, Option.some.injEq] at hv
              subst hv
              have := hB.bound v ps0 hq
              split
              · simp only [List.length_append, List.length_singleton]; omega
              · omega
          · simp only [hvn, if_false] at hv
            have := hB.bound v ps hv
            omega
        · intro v hv _
          dsimp only
          rw [hfun v hv]
          have hns : nb ≠ s := by
            intro hc
            rw [hc, hA.src] at h2
            cases h2
          have hhas := hB.has nb (by rw [h2]; simp) hns
          cases hq : lookupParents st.parents nb with
          | none => exact absurd hq hhas
          | some ps0 =>
            have hb := hB.bound nb ps0 hq
            refine ⟨ps0 ++ [(cur, e.id)], ?_, by simp⟩
            rw [apLookupParents_push, if_pos rfl, hq]
            simp only [Option.map_some]
            rw [if_pos (by omega)]
      · rw [if_neg h3]
        refine ⟨hB.weaken, ApSub.rfl' _, ?_⟩
        intro v hv hd
        rw [hfun v hv] at hd
        have := (hA.lev nb l h2).1.unique hd
        subst this
        simp at h3

theorem apScan_invB {cap L n : Nat} {R : List Nat} {cur : Nat}
    (hR : ∀ c, c ∈ R → IsDist g Flt.all t s c L) (hcur : cur ∈ R) (es : List Edge)
    (hes : ∀ e, e ∈ es → e ∈ g.edges) (st : APSt) (hA : ApInv g s t L R st)
    (hB : ApInvB g s t L R n st) (hcap : n + es.length ≤ cap) :
    ApInvB g s t L R (n + es.length) (apScan cap t cur (L + 1) es st) ∧
    (∀ e, e ∈ es → ∀ v, e.joins cur v → IsDist g Flt.all t s v (L + 1) →
      ∃ ps, lookupParents (apScan cap t cur (L + 1) es st).parents v = some ps ∧
        (cur, e.id) ∈ ps) := by
  rw [apScan_eq_foldl]
  have := apFoldl_inv_len (apStep cap t cur (L + 1))
    (fun acc st' => ApInv g s t L R st' ∧ ApInvB g s t L R (n + acc.length) st' ∧
      (∀ e, e ∈ acc → ∀ v, e.joins cur v → IsDist g Flt.all t s v (L + 1) →
        ∃ ps, lookupParents st'.parents v = some ps ∧ (cur, e.id) ∈ ps))
    (fun e => e ∈ g.edges) es.length
    (by
      intro acc st' e he hlen ⟨hi, hb, ha⟩
      obtain ⟨k1, _, _⟩ := apStep_inv (cap := cap) hi hR hcur he
      obtain ⟨b1, b2, b3⟩ := apStep_invB (cap := cap) (cur := cur) (e := e) hi hb (by omega)
      refine ⟨k1, by simpa [Nat.add_assoc] using b1, ?_⟩
      intro e' he' v hj hd
      rcases List.mem_cons.1 he' with rfl | he'
      · exact b3 v hj hd
      · obtain ⟨ps, q1, q2⟩ := ha e' he' v hj hd
        obtain ⟨ps', q3, q4⟩ := b2 v ps q1
        exact ⟨ps', q3, q4 _ q2⟩)
    es hes [] st (by simp) ⟨hA, by simpa using hB, fun _ he => by cases he⟩
  obtain ⟨_, k2, k3⟩ := this
  exact ⟨by simpa using k2, fun e he => k3 e (by simpa using he)⟩

theorem apInv_drop {L : Nat} {c : Nat} {rest : List Nat} {st : APSt}
    (h : ApInv g s t L (c :: rest) st)
    (hs : ∀ e, e ∈ outEdges g c → ∀ v, e.joins c v → lookupLevel st.levels v ≠ none) :
    ApInv g s t L rest st := by
  refine { h with closed := ?_ }
  intro u l hu hl
  rcases h.closed u l hu hl with hr | hc
  · rcases List.mem_cons.1 hr with rfl | hr
    · exact Or.inr (fun e v he hj => hs e (apMem_outEdges he hj) v hj)
    · exact Or.inl hr
  · exact Or.inr hc

theorem apLevel_invB {cap L : Nat} (cl : List Nat) (hR : ∀ c, c ∈ cl → IsDist g Flt.all t s c L)
    (n : Nat) (st : APSt) (hA : ApInv g s t L cl st) (hB : ApInvB g s t L cl n st)
    (hcap : n + apDegSum g cl ≤ cap) :
    ApInvB g s t L [] (n + apDegSum g cl) (apLevel g cap t (L + 1) cl st) := by
  induction cl generalizing n st with
  | nil => simpa [apDegSum, apLevel] using hB
  | cons c rest ih =>
    rw [apLevel]
    have hsum : apDegSum g (c :: rest) = (outEdges g c).length + apDegSum g rest := by
      simp [apDegSum]
    rw [hsum] at hcap ⊢
    obtain ⟨h1, _, hs1⟩ := apScan_inv (cap := cap) hR (List.mem_cons_self ..) (outEdges g c)
      (fun e he => apOutEdges_sub he) st hA
    obtain ⟨b1, bs1⟩ := apScan_invB (cap := cap) hR (List.mem_cons_self ..) (outEdges g c)
      (fun e he => apOutEdges_sub he) st hA hB (by omega)
    have h1' := apInv_drop h1 hs1
    have b1' : ApInvB g s t L rest (n + (outEdges g c).length)
        (apScan cap t c (L + 1) (outEdges g c) st) := by
      refine { b1 with compl := ?_ }
      intro p l v e hp hl he hj hd
      rcases b1.compl p l v e hp hl he hj hd with hr | hc
      · rcases List.mem_cons.1 hr with rfl | hr
        · have hl' : l = L := (h1.lev p l hp).1.unique (hR p (List.mem_cons_self ..))
          subst hl'
          exact Or.inr (bs1 e (apMem_outEdges he hj) v hj hd)
        · exact Or.inl hr
      · exact Or.inr hc
    have := ih (fun c' hc' => hR c' (List.mem_cons_of_mem _ hc')) _ _ h1' b1' (by omega)
    rw [← Nat.add_assoc]
    exact this

/-! #### the scan-step budget: distinct nodes have at most `2·|E|` out-list entries in total -/

theorem apCountOne (l : List Nat) (hnd : l.Nodup) (a : Nat) : l.countP (· == a) ≤ 1 := by
  induction l with
  | nil => simp
  | cons x l ih =>
    rw [List.nodup_cons] at hnd
    rw [List.countP_cons]
    by_cases hx : x = a
    · subst hx
      have : l.countP (· == x) = 0 := by
        rw [List.countP_eq_zero]
        intro y hy hc
        have : y = x := by simpa using hc
        subst this; exact hnd.1 hy
      simp [this]
    · have := ih hnd.2
      simp [hx]; exact this

theorem apCountTwo (l : List Nat) (hnd : l.Nodup) (a b : Nat) (p : Nat → Bool)
    (hp : ∀ u, p u = true → u = a ∨ u = b) : l.countP p ≤ 2 := by
  have h1 : l.countP p ≤ l.countP (· == a) + l.countP (· == b) := by
    clear hnd
    induction l with
    | nil => simp
    | cons x l ih =>
      simp only [List.countP_cons]
      cases hpx : p x with
      | false => simp; omega
      | true =>
        rcases hp x hpx with rfl | rfl
        · simp; omega
        · simp; omega
  have := apCountOne l hnd a
  have := apCountOne l hnd b
  omega

theorem apDegSum_aux (E : List Edge) (l : List Nat) (hnd : l.Nodup) :
    (l.map (fun u => (E.filter (inOut · u)).length)).sum ≤ 2 * E.length := by
  induction E with
  | nil =>
    have : ∀ l : List Nat, (l.map (fun u => (([] : List Edge).filter (inOut · u)).length)).sum = 0 := by
      intro l; induction l with
      | nil => rfl
      | cons a l ih => simpa using ih
    rw [this]; omega
  | cons e E ih =>
    have hsplit : ∀ l : List Nat, (l.map (fun u => ((e :: E).filter (inOut · u)).length)).sum =
        l.countP (inOut e ·) + (l.map (fun u => (E.filter (inOut · u)).length)).sum := by
      intro l; induction l with
      | nil => rfl
      | cons a l ih' =>
        simp only [List.map_cons, List.sum_cons, List.countP_cons, ih']
        cases hin : inOut e a <;> simp [hin] <;> omega
    have hc : l.countP (inOut e ·) ≤ 2 := by
      apply apCountTwo l hnd e.src e.dst
      intro u hu
      unfold inOut at hu
      simp only [Bool.or_eq_true, Bool.and_eq_true, beq_iff_eq] at hu
      rcases hu with h | ⟨_, h⟩
      · exact Or.inl h.symm
      · exact Or.inr h.symm
    rw [hsplit]
    simp only [List.length_cons]
    omega

theorem apDegSum_le (g : Graph) (l : List Nat) (hnd : l.Nodup) : apDegSum g l ≤ 2 * g.edges.length :=
  apDegSum_aux g.edges l hnd

theorem apDegSum_append (g : Graph) (l₁ l₂ : List Nat) :
    apDegSum g (l₁ ++ l₂) = apDegSum g l₁ + apDegSum g l₂ := by
  simp [apDegSum, List.sum_append]

/-! #### the outer loop -/

structure ApLoopInvB (g : Graph) (s t level : Nat) (current done : List Nat) (st : APSt) : Prop where
  keys : ∀ v, lookupParents st.parents v ≠ none → lookupLevel st.levels v ≠ none
  has : ∀ v, lookupLevel st.levels v ≠ none → v ≠ s → lookupParents st.parents v ≠ none
  compl : ∀ p l v e, lookupLevel st.levels p = some l → l < level → e ∈ g.edges → e.joins p v →
    IsDist g Flt.all t s v (l + 1) → ∃ ps, lookupParents st.parents v = some ps ∧ (p, e.id) ∈ ps
  bound : ∀ v ps, lookupParents st.parents v = some ps → ps.length ≤ apDegSum g done
  nodup : (done ++ current).Nodup
  doneLev : ∀ u, u ∈ done → ∃ l, lookupLevel st.levels u = some l ∧ l < level

/-- the parent lists record every edge between consecutive levels up to `hops` -/
def ApParFull (g : Graph) (s t hops : Nat) (P : MultiParent) : Prop :=
  ∀ p l v e, IsDist g Flt.all t s p l → l < hops → e ∈ g.edges → e.joins p v →
    IsDist g Flt.all t s v (l + 1) → ∃ ps, lookupParents P v = some ps ∧ (p, e.id) ∈ ps

/-- once a level is complete, every node within that distance has its level recorded -/
theorem apPresent {L : Nat} {st : APSt} (h : ApInv g s t L [] st) {p l : Nat}
    (hd : IsDist g Flt.all t s p l) (hl : l ≤ L) : lookupLevel st.levels p = some l := by
  have hsV : s ∈ st.levels.map (·.1) := apLookupLevel_ne_none.1 (by rw [h.src]; simp)
  cases hq : lookupLevel st.levels p with
  | some lp => rw [(h.lev p lp hq).1.unique hd]
  | none =>
    exfalso
    have hnV : p ∉ st.levels.map (·.1) := fun hc => apLookupLevel_ne_none.2 hc hq
    obtain ⟨x, y, i, e', hx, hxV, hxy, hyV, hi⟩ := frontier _ hd.1 hsV hnV (BWalk.nil s)
    have hxl : lookupLevel st.levels x ≠ none := apLookupLevel_ne_none.2 hxV
    cases hlx : lookupLevel st.levels x with
    | none => exact absurd hlx hxl
    | some lx =>
      have h1 := (h.lev x lx hlx).1.2 i hx
      rcases h.closed x lx hlx (by omega) with hr | hcl
      · cases hr
      · have hs' := apBStep_iff.1 hxy
        exact hyV (apLookupLevel_ne_none.1 (hcl e' y hs'.1 hs'.2))

theorem apLoopInvB_init (g : Graph) (s t : Nat) : ApLoopInvB g s t 0 [s] [] (apInit s) := by
  refine ⟨?_, ?_, ?_, ?_, by simp, ?_⟩
  · intro v hv; simp [apInit, lookupParents] at hv
  · intro v hv hvs
    exfalso
    apply hv
    simp only [apInit]
    rw [apLookupLevel_cons]
    have : ¬ s = v := fun h => hvs h.symm
    simp [this, lookupLevel]
  · intro p l v e _ hl; omega
  · intro v ps hv; simp [apInit, lookupParents] at hv
  · intro u hu; cases hu

theorem apLoop_full {cap : Nat} (hcap : 2 * g.edges.length ≤ cap) (fuel level : Nat)
    (current done : List Nat) (st : APSt) (hinv : ApLoopInv g s t level current st)
    (hB : ApLoopInvB g s t level current done st) (hops : Nat) (P : MultiParent)
    (hr : apLoop g cap t fuel level current st = some (hops, P)) : ApParFull g s t hops P := by
  induction fuel generalizing level current done st with
  | zero => simp [apLoop] at hr
  | succ fuel ih =>
    rw [apLoop] at hr
    by_cases hemp : current.isEmpty = true
    · rw [if_pos hemp] at hr; cases hr
    · rw [if_neg hemp] at hr
      dsimp only at hr
      have hR : ∀ c, c ∈ current → IsDist g Flt.all t s c level :=
        fun c hc => (hinv.lev c level ((hinv.cur c).1 hc)).1
      have hA0 := apLoopInv_start hinv
      have hB0 : ApInvB g s t level current (apDegSum g done) { st with next := [] } := by
        refine ⟨hB.keys, hB.has, ?_, hB.bound, List.nodup_nil⟩
        intro p l v e hp hl he hj hd
        by_cases hlt : l < level
        · exact Or.inr (hB.compl p l v e hp hlt he hj hd)
        · have : l = level := by omega
          subst this
          exact Or.inl ((hinv.cur p).2 hp)
      have hbud : apDegSum g done + apDegSum g current ≤ cap := by
        have := apDegSum_le g _ hB.nodup
        rw [apDegSum_append] at this
        omega
      obtain ⟨hA, hm⟩ := apLevel_inv (cap := cap) current hR _ hA0
      have hB' := apLevel_invB (cap := cap) current hR _ _ hA0 hB0 hbud
      by_cases hf : (apLevel g cap t (level + 1) current { st with next := [] }).found = true
      · rw [if_pos hf] at hr
        simp only [Option.some.injEq, Prod.mk.injEq] at hr
        obtain ⟨rfl, rfl⟩ := hr
        intro p l v e hdp hl he hj hdv
        have hp := apPresent hA hdp (by omega)
        rcases hB'.compl p l v e hp (by omega) he hj hdv with hr | hc
        · cases hr
        · exact hc
      · rw [if_neg hf] at hr
        refine ih _ _ (done ++ current) _ (apLoopInv_next hA (by simpa using hf)) ?_ hr
        refine ⟨hB'.keys, hB'.has, ?_, ?_, ?_, ?_⟩
        · intro p l v e hp hl he hj hd
          rcases hB'.compl p l v e hp (by omega) he hj hd with hr | hc
          · cases hr
          · exact hc
        · rw [apDegSum_append]; exact hB'.bound
        · refine List.nodup_append.2 ⟨hB.nodup, hB'.nextNd, ?_⟩
          intro a ha b hb hab
          subst hab
          have hb' := (hA.next a).1 hb
          rcases List.mem_append.1 ha with ha | ha
          · obtain ⟨l, k1, k2⟩ := hB.doneLev a ha
            have := hm a l k1
            rw [hb'] at this
            simp only [Option.some.injEq] at this
            omega
          · have := hm a level ((hinv.cur a).1 ha)
            rw [hb'] at this
            simp only [Option.some.injEq] at this
            omega
        · intro u hu
          rcases List.mem_append.1 hu with hu | hu
          · obtain ⟨l, k1, k2⟩ := hB.doneLev u hu
            exact ⟨l, hm u l k1, by omega⟩
          · exact ⟨level, hm u level ((hinv.cur u).1 hu), by omega⟩

end invB

/-! ### enumeration: completeness -/

/-- a chain whose `k`-th node is at distance exactly `i + k` -/
def ApChainD (g : Graph) (s t : Nat) : Nat → List Nat → List Nat → Prop
  | i, [u], [] => IsDist g Flt.all t s u i
  | i, u :: v :: ns, eid :: es =>
    IsDist g Flt.all t s u i ∧ (∃ e, e ∈ g.edges ∧ e.id = eid ∧ e.joins u v) ∧
      ApChainD g s t (i + 1) (v :: ns) es
  | _, _, _ => False

section enumc
variable {g : Graph} {s t : Nat}

theorem apChain_len (ns es : List Nat) (h : ChainOk g (BStep g Flt.all t) ns es) :
    ns.length = es.length + 1 := by
  induction ns generalizing es with
  | nil => cases es <;> simp [ChainOk] at h
  | cons u ns ih =>
    cases ns with
    | nil => cases es <;> simp [ChainOk] at h ⊢
    | cons v ns =>
      cases es with
      | nil => simp [ChainOk] at h
      | cons eid es =>
        simp only [ChainOk] at h
        have := ih es h.2
        simp only [List.length_cons] at this ⊢
        omega

theorem apChain_walk (u : Nat) (ns es : List Nat) (w : Nat)
    (h : ChainOk g (BStep g Flt.all t) (u :: ns) es) (hl : (u :: ns).getLast? = some w) :
    BWalk g Flt.all t u w es.length := by
  induction ns generalizing u es with
  | nil =>
    cases es with
    | nil =>
      have : u = w := by simpa using hl
      subst this; exact BWalk.nil u
    | cons eid es => simp [ChainOk] at h
  | cons v ns ih =>
    cases es with
    | nil => simp [ChainOk] at h
    | cons eid es =>
      simp only [ChainOk] at h
      obtain ⟨⟨e, _, _, hs⟩, hrest⟩ := h
      rw [List.getLast?_cons_cons] at hl
      exact BWalk.cons e hs (ih v es hrest hl)

theorem apChainD_of (u : Nat) (ns es : List Nat) (i : Nat)
    (h : ChainOk g (BStep g Flt.all t) (u :: ns) es) (hl : (u :: ns).getLast? = some t)
    (hw : BWalk g Flt.all t s u i) (hd : IsDist g Flt.all t s t (i + es.length)) :
    ApChainD g s t i (u :: ns) es := by
  induction ns generalizing u es i with
  | nil =>
    cases es with
    | nil =>
      have : u = t := by simpa using hl
      subst this
      simpa [ApChainD] using hd
    | cons eid es => simp [ChainOk] at h
  | cons v ns ih =>
    cases es with
    | nil => simp [ChainOk] at h
    | cons eid es =>
      have hwalk := apChain_walk u (v :: ns) (eid :: es) t h hl
      simp only [ChainOk] at h
      obtain ⟨⟨e, he, heid, hs⟩, hrest⟩ := h
      rw [List.getLast?_cons_cons] at hl
      simp only [ApChainD]
      refine ⟨⟨hw, ?_⟩, ⟨e, he, heid, (apBStep_iff.1 hs).2⟩, ?_⟩
      · intro m hm
        have := hd.2 _ (apWalk_trans hm hwalk)
        omega
      · apply ih v es (i + 1) hrest hl (hw.snoc hs)
        have : i + 1 + es.length = i + (eid :: es).length := by
          simp only [List.length_cons]; omega
        rw [this]; exact hd

theorem apChainD_split (pre epre : List Nat) (p c : Nat) (suf : List Nat) (eid : Nat)
    (esuf : List Nat) (i : Nat) (hlen : pre.length = epre.length)
    (h : ApChainD g s t i (pre ++ p :: c :: suf) (epre ++ eid :: esuf)) :
    IsDist g Flt.all t s p (i + pre.length) ∧ IsDist g Flt.all t s c (i + pre.length + 1) ∧
      ∃ e, e ∈ g.edges ∧ e.id = eid ∧ e.joins p c := by
  induction pre generalizing epre i with
  | nil =>
    cases epre with
    | cons _ _ => simp at hlen
    | nil =>
      simp only [List.nil_append, ApChainD] at h
      obtain ⟨h1, h2, h3⟩ := h
      refine ⟨by simpa using h1, ?_, h2⟩
      cases suf with
      | nil =>
        cases esuf with
        | nil => simpa [ApChainD] using h3
        | cons _ _ => simp [ApChainD] at h3
      | cons v suf =>
        cases esuf with
        | nil => simp [ApChainD] at h3
        | cons _ _ =>
          simp only [ApChainD] at h3
          simpa using h3.1
  | cons x pre ih =>
    cases epre with
    | nil => simp at hlen
    | cons y epre =>
      simp only [List.length_cons, Nat.add_right_cancel_iff] at hlen
      have h' : ApChainD g s t (i + 1) (pre ++ p :: c :: suf) (epre ++ eid :: esuf) := by
        cases pre with
        | nil =>
          simp only [List.cons_append, List.nil_append, ApChainD] at h
          exact h.2.2
        | cons x' pre' =>
          simp only [List.cons_append, ApChainD] at h
          exact h.2.2
      obtain ⟨k1, k2, k3⟩ := ih epre (i + 1) hlen h'
      simp only [List.length_cons]
      have e1 : i + (pre.length + 1) = i + 1 + pre.length := by omega
      rw [e1]
      exact ⟨k1, k2, k3⟩

theorem apEnum_complete (P : MultiParent) (hops : Nat) (hP : ApParFull g s t hops P) (d : Nat)
    (hd : d ≤ hops) (cur : Nat) (suf esuf pre epre : List Nat) (hlen : pre.length = epre.length)
    (hpd : pre.length ≤ d) (hch : ApChainD g s t 0 (pre ++ cur :: suf) (epre ++ esuf))
    (hhead : (pre ++ cur :: suf).head? = some s) :
    ({ nodes := pre ++ cur :: suf, edges := epre ++ esuf } : Path) ∈
      apEnum P s d cur (cur :: suf) esuf := by
  induction d generalizing cur suf esuf pre epre with
  | zero =>
    have hp0 : pre = [] := List.eq_nil_of_length_eq_zero (by omega)
    subst hp0
    have he0 : epre = [] := List.eq_nil_of_length_eq_zero (by simpa using hlen.symm)
    subst he0
    have : cur = s := by simpa using hhead
    subst this
    rw [apEnum]
    simp
  | succ d ih =>
    rcases List.eq_nil_or_concat pre with hp0 | ⟨pre', p, hp⟩
    · subst hp0
      have he0 : epre = [] := List.eq_nil_of_length_eq_zero (by simpa using hlen.symm)
      subst he0
      have : cur = s := by simpa using hhead
      subst this
      rw [apEnum]
      simp
    · rw [List.concat_eq_append] at hp
      subst hp
      rcases List.eq_nil_or_concat epre with he0 | ⟨epre', eid, hep⟩
      · subst he0; simp at hlen
      · rw [List.concat_eq_append] at hep
        subst hep
        simp only [List.length_append, List.length_singleton, Nat.add_right_cancel_iff] at hlen hpd
        have hn : pre' ++ [p] ++ cur :: suf = pre' ++ p :: cur :: suf := by simp
        have hn' : epre' ++ [eid] ++ esuf = epre' ++ eid :: esuf := by simp
        rw [hn, hn'] at hch ⊢
        rw [hn] at hhead
        obtain ⟨k1, k2, e, he, heid, hj⟩ := apChainD_split pre' epre' p cur suf eid esuf 0 hlen hch
        simp only [Nat.zero_add] at k1 k2
        have hcs : ¬ (cur == s) = true := by
          intro hc
          have hc' : cur = s := by simpa using hc
          subst hc'
          have := k2.unique isDist_src
          omega
        obtain ⟨ps, q1, q2⟩ := hP p pre'.length cur e k1 (by omega) he hj k2
        rw [heid] at q2
        rw [apEnum, if_neg hcs]
        dsimp only
        rw [q1]
        dsimp only
        rw [List.mem_flatMap]
        refine ⟨(p, eid), by simpa using q2, ?_⟩
        dsimp only
        exact ih (by omega) p (cur :: suf) (eid :: esuf) pre' epre' hlen (by omega) hch hhead

end enumc

/-- completeness when the two caps are not reached: every shortest chain is listed.
    (Unique edge ids are not needed: the chain itself supplies, for every listed id, an edge with that
    id joining the two nodes, and the scan records the id of every such edge.) -/
theorem allpaths_complete (g : Graph) (maxPaths cap s t : Nat) (r : AllPaths)
    (h : findAllPaths g maxPaths cap s t = .ok r)
    (hcap : 2 * g.edges.length ≤ cap) (hmax : r.paths.length < maxPaths)
    (ns es : List Nat) (hhead : ns.head? = some s) (hlast : ns.getLast? = some t)
    (hchain : ChainOk g (BStep g Flt.all t) ns es) (hlen : es.length = r.hops) :
    { nodes := ns, edges := es } ∈ r.paths := by
  have hnl := apChain_len ns es hchain
  rcases findAllPaths_ok_cases h with ⟨rfl, rfl⟩ | ⟨hst, hops, P, hP, rfl⟩
  · dsimp only at hlen
    have he : es = [] := List.eq_nil_of_length_eq_zero hlen
    subst he
    cases ns with
    | nil => simp at hhead
    | cons u ns =>
      cases ns with
      | cons _ _ => simp at hnl
      | nil =>
        have : u = s := by simpa using hhead
        subst this
        simp
  · dsimp only at hlen hmax ⊢
    obtain ⟨hdt, _⟩ := apLoop_some (bfsFuel g) 0 [s] (apInit s) (apLoopInv_init g hst) hops P hP
    have hfull := apLoop_full hcap (bfsFuel g) 0 [s] [] (apInit s) (apLoopInv_init g hst)
      (apLoopInvB_init g s t) hops P hP
    -- `take` does not truncate
    have htake : (apEnum P s hops t [t] []).take maxPaths = apEnum P s hops t [t] [] := by
      apply List.take_of_length_le
      rw [List.length_take] at hmax
      omega
    rw [htake]
    obtain ⟨pre, hpre⟩ := List.getLast?_eq_some_iff.1 hlast
    subst hpre
    have hpl : pre.length = es.length := by
      simp only [List.length_append, List.length_singleton] at hnl
      omega
    have hchD : ApChainD g s t 0 (pre ++ [t]) es := by
      cases hq : pre ++ [t] with
      | nil => simp at hq
      | cons u tl =>
        rw [hq] at hchain hlast hhead
        have hu : u = s := by simpa using hhead
        subst hu
        apply apChainD_of u tl es 0 hchain hlast (BWalk.nil u)
        rw [Nat.zero_add, hlen]; exact hdt
    have := apEnum_complete P hops hfull hops (Nat.le_refl _) t [] [] pre es hpl (by omega)
      (by simpa using hchD) (by simpa using hhead)
    simpa using this

/-! ### non-vacuity: a diamond `1→2→4`, `1→3→4` with an undirected tail `4—5`, node 6 isolated -/

def apExG : Graph :=
  { nodes := [⟨1, none⟩, ⟨2, none⟩, ⟨3, none⟩, ⟨4, none⟩, ⟨5, none⟩, ⟨6, none⟩]
    edges := [⟨10, 1, 2, true, 0, none, none⟩, ⟨11, 1, 3, true, 0, none, none⟩,
              ⟨12, 2, 4, true, 0, none, none⟩, ⟨13, 3, 4, true, 0, none, none⟩,
              ⟨14, 5, 4, false, 0, none, none⟩] }

/-- the hypothesis of `allpaths_sound` / `allpaths_hops_shortest`: two shortest paths, both listed
    (last recorded parent first) -/
example : findAllPaths apExG 1000 100 1 5 = .ok { hops := 3, paths :=
    [{ nodes := [1, 3, 4, 5], edges := [11, 13, 14] }, { nodes := [1, 2, 4, 5], edges := [10, 12, 14] }] } := rfl

/-- `maxPaths` truncates (so `hmax` of `allpaths_complete` is a real restriction) -/
example : findAllPaths apExG 1 100 1 5 = .ok { hops := 3, paths :=
    [{ nodes := [1, 3, 4, 5], edges := [11, 13, 14] }] } := rfl

/-- the hypotheses of `allpaths_none_iff_unreachable`: a directed edge is not followed backwards, and an
    isolated node is unreachable -/
example : apExG.hasNode 4 = true ∧ apExG.hasNode 1 = true ∧
    findAllPaths apExG 1000 100 4 1 = .error .pathNotFound := ⟨rfl, rfl, rfl⟩
example : apExG.hasNode 1 = true ∧ apExG.hasNode 6 = true ∧
    findAllPaths apExG 1000 100 1 6 = .error .pathNotFound := ⟨rfl, rfl, rfl⟩

/-- all hypotheses of `allpaths_complete` hold for the chain `1 →10 2 →12 4 —14 5`, and the theorem
    then places it in the answer -/
example : ({ nodes := [1, 2, 4, 5], edges := [10, 12, 14] } : Path) ∈
    ({ hops := 3, paths := [{ nodes := [1, 3, 4, 5], edges := [11, 13, 14] },
        { nodes := [1, 2, 4, 5], edges := [10, 12, 14] }] } : AllPaths).paths := by
  refine allpaths_complete apExG 1000 100 1 5 _ rfl (by decide) (by decide) [1, 2, 4, 5] [10, 12, 14]
    rfl rfl ?_ rfl
  · simp only [ChainOk]
    refine ⟨⟨⟨10, 1, 2, true, 0, none, none⟩, by simp [apExG], rfl, ?_⟩,
      ⟨⟨12, 2, 4, true, 0, none, none⟩, by simp [apExG], rfl, ?_⟩,
      ⟨⟨14, 5, 4, false, 0, none, none⟩, by simp [apExG], rfl, ?_⟩, trivial⟩
    all_goals (rw [apBStep_iff]; refine ⟨by simp [apExG], by decide⟩)

end Neumann.Paths
