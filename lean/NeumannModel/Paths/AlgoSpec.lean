import NeumannModel.Paths.Spec
import NeumannModel.Paths.AlgoModel
/-
  C18 — declarative side for `find_all_weighted_paths` and the algorithm family: the textbook
  definitions the theorems of `Props.lean` relate the model functions of `AlgoModel.lean` to.
  Every notion takes the `edge_type` option of the engine's configs (`none` = all edges).
-/
namespace Neumann.Paths

/-- node ids are unique (the engine's id counter) -/
def NodesUnique (g : Graph) : Prop := (g.nodes.map (·.id)).Nodup

/-! ### connected components -/

/-- some edge of the requested type has `u` and `v` as its two ends (direction ignored) -/
def linked (g : Graph) (etype : Option Nat) (u v : Nat) : Prop :=
  ∃ e, e ∈ g.edges ∧ typeOk etype e = true ∧ ((e.src = u ∧ e.dst = v) ∨ (e.src = v ∧ e.dst = u))

/-- `u` and `v` lie in the same connected component: reflexive-transitive closure of `linked` -/
inductive Linked (g : Graph) (etype : Option Nat) : Nat → Nat → Prop
  | refl (u : Nat) : Linked g etype u u
  | step {u v w : Nat} : linked g etype u v → Linked g etype v w → Linked g etype u w

/-! ### spanning forests -/

/-- `u` and `v` are joined by the edges of `F` (direction ignored) -/
inductive Joined (F : List Edge) : Nat → Nat → Prop
  | refl (u : Nat) : Joined F u u
  | step {u v w : Nat} (e : Edge) : e ∈ F → ((e.src = u ∧ e.dst = v) ∨ (e.src = v ∧ e.dst = u)) →
      Joined F v w → Joined F u w

/-- `F` consists of edges of the graph and joins exactly the node pairs the whole graph joins -/
def Spans (g : Graph) (F : List Edge) : Prop :=
  (∀ e, e ∈ F → e ∈ g.edges) ∧ ∀ u v, Joined F u v ↔ Joined g.edges u v

/-- textbook forest: no repeated edge and every edge is a bridge of `F` (no cycle passes through it) -/
def IsForest (F : List Edge) : Prop :=
  F.Nodup ∧ ∀ e, e ∈ F → ¬ Joined (F.erase e) e.src e.dst

/-- built edge by edge (the head is the newest edge), every edge joins two nodes the older ones did not
    join.  Every `IsForest` list is `SeqAcyclic` in whatever order it is listed (`isForest_seqAcyclic`),
    so a statement over all `SeqAcyclic` competitors covers all textbook forests. -/
def SeqAcyclic : List Edge → Prop
  | [] => True
  | e :: F => ¬ Joined F e.src e.dst ∧ SeqAcyclic F

/-- edge records are pairwise distinct (unique edge ids) -/
def EdgesUnique (g : Graph) : Prop := g.edges.Nodup

/-! ### core numbers and triangles: the simple undirected view of the graph -/

/-- `u` and `v` are distinct existing nodes with an edge of the requested type between them -/
def adjacentT (g : Graph) (etype : Option Nat) (u v : Nat) : Prop :=
  u ≠ v ∧ g.hasNode u = true ∧ g.hasNode v = true ∧ linked g etype u v

/-- every member of `s` is a node with at least `k` distinct neighbours inside `s` -/
def IsKCoreSetT (g : Graph) (etype : Option Nat) (k : Nat) (s : List Nat) : Prop :=
  ∀ u, u ∈ s → g.hasNode u = true ∧
    ∃ ns : List Nat, ns.Nodup ∧ k ≤ ns.length ∧ ∀ v, v ∈ ns → v ∈ s ∧ adjacentT g etype u v

/-- a triangle: three pairwise adjacent nodes, listed with `a < b < c` -/
def IsTriangleT (g : Graph) (etype : Option Nat) (a b c : Nat) : Prop :=
  a < b ∧ b < c ∧ adjacentT g etype a b ∧ adjacentT g etype b c ∧ adjacentT g etype a c

/-! ### articulation points and bridges of the simple undirected view -/

/-- connected by a walk over adjacent nodes -/
inductive ConnT (g : Graph) (etype : Option Nat) : Nat → Nat → Prop
  | refl (u : Nat) : ConnT g etype u u
  | step {u v w : Nat} : adjacentT g etype u v → ConnT g etype v w → ConnT g etype u w

/-- connected by a walk that never visits `x` -/
inductive ConnAvoid (g : Graph) (etype : Option Nat) (x : Nat) : Nat → Nat → Prop
  | refl (u : Nat) : u ≠ x → ConnAvoid g etype x u u
  | step {u v w : Nat} : u ≠ x → adjacentT g etype u v → ConnAvoid g etype x v w → ConnAvoid g etype x u w

/-- `x` is a cut vertex: two other nodes of its component are separated when `x` is removed -/
def IsArticulation (g : Graph) (etype : Option Nat) (x : Nat) : Prop :=
  ∃ a b, a ≠ x ∧ b ≠ x ∧ ConnT g etype x a ∧ ConnT g etype x b ∧ ¬ ConnAvoid g etype x a b

/-- connected by a walk that never steps directly between `a` and `b` -/
inductive ConnWithout (g : Graph) (etype : Option Nat) (a b : Nat) : Nat → Nat → Prop
  | refl (u : Nat) : ConnWithout g etype a b u u
  | step {u v w : Nat} : adjacentT g etype u v → ¬ ((u = a ∧ v = b) ∨ (u = b ∧ v = a)) →
      ConnWithout g etype a b v w → ConnWithout g etype a b u w

/-- the adjacent pair `a`, `b` is a bridge of the simple view: without their adjacency (all parallel
    edges between them) they are disconnected -/
def IsBridgePair (g : Graph) (etype : Option Nat) (a b : Nat) : Prop :=
  adjacentT g etype a b ∧ ¬ ConnWithout g etype a b a b

end Neumann.Paths
