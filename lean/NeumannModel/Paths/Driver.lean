import NeumannModel.Common.Proto
import NeumannModel.Paths.Model
import NeumannModel.Paths.AlgoModel
/-
  Line-protocol driver for the path-query model (C18).

    reset                                                   -> ok
    node <id> <prop|->                                      -> ok
    edge <id> <src> <dst> <d|u> <etype> <weight|-> <prop|-> -> ok
    path <s> <t> <nodeconds> <edgeconds>      -> ok <hops> n=<ids> e=<ids> | none | nonode <id>
    pathold <s> <t> <nodeconds> <edgeconds>   -> same, with the pre-fix neighbour rule
    allpaths <s> <t> [<max_paths> <max_parents>] -> ok <hops> <count> <n.n/e;...> | none | nonode <id>
    allwpaths <s> <t> <max_paths> <max_parents> -> ok <total> <count> <n.n/e;...> | none | neg <edge id> | nonode <id>
    components <etype|->                      -> ok <node:root,...> (sorted by node) | empty
    mst <forest 0|1>                          -> ok <total> <tree count> <weights of the accepted edges> | empty
    kcore <etype|->                           -> ok <node:core,...> (sorted by node) | empty
    triangles <etype|-> <undirected 0|1>      -> ok <count> <node:count,...> (sorted by node) | empty
    scc <etype|->                             -> ok <n.n;n;...> (members sorted, groups by smallest member) | empty
    artic <etype|->                           -> ok <sorted node ids> | empty
    bridges <etype|->                         -> ok <a.b;a.b;...> (a < b, sorted) | empty
    edgesof <n> <out|in|both>                 -> ok <sorted edge ids> | nonode <id>
    nbrs <n> <out|in|both> <etype|-> <nodeconds> <edgeconds> -> ok <sorted ids> | nonode <id>
    wpath <s> <t>                             -> ok <cost> n=<ids> e=<ids> | none | neg <edge id> | nonode <id>
    astar <s> <t> <out|in|both>               -> ok <cost> | none      (zero heuristic; cost only)
    astarcfg <s> <t> <out|in|both> <etype|-> <weighted 0|1> -> ok <cost> | none
    trav <s> <out|in|both> <maxdepth> <etype|-> <nodeconds> <edgeconds> -> ok <sorted ids> | nonode <id>
    vpaths <s> <t> <min> <max> <out|in|both> <etypes|-> <cycles 0|1> <nodeconds> <edgeconds>
                                              -> ok <count> <n.n.n/e.e;...> | nonode <id>
    vpathsk <same nine arguments as vpaths> <max_paths>  -> the same, first <max_paths> matches only
  conds: `-` or comma separated `<op>:<int>` with op ∈ eq ne lt le gt ge.
-/
open Neumann Neumann.Proto Neumann.Paths

def parseOptInt (s : String) : Option (Option Int) :=
  if s = "-" then some none else (s.toInt?).map some

def parseOptNat (s : String) : Option (Option Nat) :=
  if s = "-" then some none else (s.toNat?).map some

def parseCmp : String → Option Cmp
  | "eq" => some .eq | "ne" => some .ne | "lt" => some .lt
  | "le" => some .le | "gt" => some .gt | "ge" => some .ge | _ => none

def parseCond (s : String) : Option Cond :=
  match s.splitOn ":" with
  | [o, v] => match parseCmp o, v.toInt? with
    | some op, some val => some { op := op, val := val }
    | _, _ => none
  | _ => none

def parseConds (s : String) : Option (List Cond) :=
  if s = "-" then some [] else (s.splitOn ",").mapM parseCond

def parseDir : String → Option Dir
  | "out" => some .out | "in" => some .inc | "both" => some .both | _ => none

def parseTypes (s : String) : Option (Option (List Nat)) :=
  if s = "-" then some none else (parseNats s).map some

def showErr : QErr → String
  | .nodeNotFound n => s!"nonode {n}"
  | .pathNotFound => "none"
  | .negativeWeight e => s!"neg {e}"

def dots (xs : List Nat) : String := ".".intercalate (xs.map toString)

def showPathRes (r : Except QErr Path) : String :=
  match r with
  | .ok p => s!"ok {p.edges.length} n={showNats p.nodes} e={showNats p.edges}"
  | .error e => showErr e

def insertSorted (x : Nat) : List Nat → List Nat
  | [] => [x]
  | y :: ys => if x ≤ y then x :: y :: ys else y :: insertSorted x ys

def sortNats (xs : List Nat) : List Nat := xs.foldr insertSorted []

def insertPair (x : Nat × Nat) : List (Nat × Nat) → List (Nat × Nat)
  | [] => [x]
  | y :: ys => if x.1 ≤ y.1 then x :: y :: ys else y :: insertPair x ys

def showPairs (xs : List (Nat × Nat)) : String :=
  if xs.isEmpty then "-"
  else ",".intercalate ((xs.foldr insertPair []).map fun p => s!"{p.1}:{p.2}")

def insertGroup (x : List Nat) : List (List Nat) → List (List Nat)
  | [] => [x]
  | y :: ys => if x.headD 0 ≤ y.headD 0 then x :: y :: ys else y :: insertGroup x ys

/-- lexicographic insertion of two-element lists -/
def insertGroup2 (x : List Nat) : List (List Nat) → List (List Nat)
  | [] => [x]
  | y :: ys =>
    if x.headD 0 < y.headD 0 || (x.headD 0 == y.headD 0 && x.getLastD 0 ≤ y.getLastD 0) then x :: y :: ys
    else y :: insertGroup2 x ys

def showPartition (gs : List (List Nat)) : String :=
  ";".intercalate (((gs.map sortNats).foldr insertGroup []).map dots)

def showPaths (ps : List Path) : String :=
  ";".intercalate (ps.map fun p => dots p.nodes ++ "/" ++ dots p.edges)

def pathsStep (g : Graph) (line : String) : Graph × String :=
  let bad := (g, "bad-op")
  match words line with
  | ["reset"] => ({ nodes := [], edges := [] }, "ok")
  | ["node", i, p] => match i.toNat?, parseOptInt p with
      | some i, some p => ({ g with nodes := g.nodes ++ [{ id := i, prop := p }] }, "ok")
      | _, _ => bad
  | ["edge", i, s, d, k, t, w, p] =>
      match i.toNat?, s.toNat?, d.toNat?, t.toNat?, parseOptInt w, parseOptInt p with
      | some i, some s, some d, some t, some w, some p =>
        if k = "d" ∨ k = "u" then
          ({ g with edges := g.edges ++ [{ id := i, src := s, dst := d, directed := k = "d", etype := t, weight := w, prop := p }] }, "ok")
        else bad
      | _, _, _, _, _, _ => bad
  | ["path", s, t, nc, ec] => match s.toNat?, t.toNat?, parseConds nc, parseConds ec with
      | some s, some t, some nc, some ec => (g, showPathRes (findPath g (mkFlt g nc ec) s t))
      | _, _, _, _ => bad
  | ["pathold", s, t, nc, ec] => match s.toNat?, t.toNat?, parseConds nc, parseConds ec with
      | some s, some t, some nc, some ec => (g, showPathRes (findPathOld g (mkFlt g nc ec) s t))
      | _, _, _, _ => bad
  | ["allpaths", s, t] => match s.toNat?, t.toNat? with
      | some s, some t => (match findAllPaths g 1000 100 s t with
          | .ok r => (g, s!"ok {r.hops} {r.paths.length} " ++ ";".intercalate (r.paths.map fun p => dots p.nodes ++ "/" ++ dots p.edges))
          | .error e => (g, showErr e))
      | _, _ => bad
  | ["allpaths", s, t, mp, cap] => match s.toNat?, t.toNat?, mp.toNat?, cap.toNat? with
      | some s, some t, some mp, some cap => (match findAllPaths g mp cap s t with
          | .ok r => (g, s!"ok {r.hops} {r.paths.length} " ++ showPaths r.paths)
          | .error e => (g, showErr e))
      | _, _, _, _ => bad
  | ["allwpaths", s, t, mp, cap] => match s.toNat?, t.toNat?, mp.toNat?, cap.toNat? with
      | some s, some t, some mp, some cap => (match findAllWeightedPathsFast g mp cap s t with
          | .ok r => (g, s!"ok {r.total} {r.paths.length} " ++ showPaths r.paths)
          | .error e => (g, showErr e))
      | _, _, _, _ => bad
  | ["components", et] => match parseOptNat et with
      | some et => if g.nodes.isEmpty then (g, "empty") else (g, "ok " ++ showPairs (connectedComponents g et))
      | none => bad
  | ["mst", f] => match f.toNat? with
      | some f => (match minimumSpanningTree g (f != 0) with
          | some r => (g, s!"ok {r.total} {r.trees} " ++ showInts (r.edges.map Edge.w))
          | none => (g, "empty"))
      | none => bad
  | ["kcore", et] => match parseOptNat et with
      | some et => if g.nodes.isEmpty then (g, "empty") else (g, "ok " ++ showPairs (kcore g et))
      | none => bad
  | ["triangles", et, u] => match parseOptNat et, u.toNat? with
      | some et, some u =>
        if g.nodes.isEmpty then (g, "empty")
        else
          let found := triFound g et (u != 0)   -- `triangleCount` = its length, `nodeTriangles` = `cornerCount` of it
          (g, s!"ok {found.length} " ++ showPairs (g.nodes.map fun n => (n.id, cornerCount found n.id)))
      | _, _ => bad
  | ["scc", et] => match parseOptNat et with
      | some et => if g.nodes.isEmpty then (g, "empty") else (g, "ok " ++ showPartition (sccComponents g et))
      | none => bad
  | ["artic", et] => match parseOptNat et with
      | some et => if g.nodes.isEmpty then (g, "empty") else (g, "ok " ++ showNats (sortNats (articulationPoints g et)))
      | none => bad
  | ["bridges", et] => match parseOptNat et with
      | some et =>
        if g.nodes.isEmpty then (g, "empty")
        else
          let bs := ((bridgePairs g et).map fun p => [p.1, p.2])
          (g, "ok " ++ (if bs.isEmpty then "-" else ";".intercalate ((bs.foldr insertGroup2 []).map dots)))
      | none => bad
  | ["edgesof", n, d] => match n.toNat?, parseDir d with
      | some n, some d => (match edgesOf g d n with
          | some r => (g, "ok " ++ showNats (sortNats r))
          | none => (g, s!"nonode {n}"))
      | _, _ => bad
  | ["nbrs", n, d, et, nc, ec] => match n.toNat?, parseDir d, parseOptNat et, parseConds nc, parseConds ec with
      | some n, some d, some et, some nc, some ec => (match neighborsApi g et d (mkFlt g nc ec) n with
          | some r => (g, "ok " ++ showNats (sortNats r))
          | none => (g, s!"nonode {n}"))
      | _, _, _, _, _ => bad
  | ["wpath", s, t] => match s.toNat?, t.toNat? with
      | some s, some t => (match findWeightedPath g s t with
          | .ok p => (g, s!"ok {p.total} n={showNats p.nodes} e={showNats p.edges}")
          | .error e => (g, showErr e))
      | _, _ => bad
  | ["astar", s, t, d] => match s.toNat?, t.toNat?, parseDir d with
      | some s, some t, some d => (match astarCost g d s t with
          | some c => (g, s!"ok {c}")
          | none => (g, "none"))
      | _, _, _ => bad
  | ["astarcfg", s, t, d, et, w] => match s.toNat?, t.toNat?, parseDir d, parseOptNat et, w.toNat? with
      | some s, some t, some d, some et, some w => (match astarCostCfg g et (w != 0) d s t with
          | some c => (g, s!"ok {c}")
          | none => (g, "none"))
      | _, _, _, _, _ => bad
  | ["trav", s, d, md, et, nc, ec] =>
      match s.toNat?, parseDir d, md.toNat?, parseOptNat et, parseConds nc, parseConds ec with
      | some s, some d, some md, some et, some nc, some ec =>
        (match traverse g s d md et (mkFlt g nc ec) with
          | some r => (g, "ok " ++ showNats (sortNats r))
          | none => (g, s!"nonode {s}"))
      | _, _, _, _, _, _ => bad
  | ["vpathsk", s, t, mn, mx, d, ets, cyc, nc, ec, k] =>
      match s.toNat?, t.toNat?, mn.toNat?, mx.toNat?, parseDir d, parseTypes ets, cyc.toNat?, parseConds nc, parseConds ec with
      | some s, some t, some mn, some mx, some d, some ets, some cyc, some nc, some ec =>
        let cfg : VarCfg := { minHops := mn, maxHops := mx, dir := d, etypes := ets, allowCycles := cyc != 0 }
        (match k.toNat? with
          | none => bad
          | some k =>
            match findVariablePathsCapped g cfg (mkFlt g nc ec) s t k with
            | .ok ps => (g, s!"ok {ps.length} " ++ ";".intercalate (ps.map fun p => dots p.nodes ++ "/" ++ dots p.edges))
            | .error e => (g, showErr e))
      | _, _, _, _, _, _, _, _, _ => bad
  | ["vpaths", s, t, mn, mx, d, ets, cyc, nc, ec] =>
      match s.toNat?, t.toNat?, mn.toNat?, mx.toNat?, parseDir d, parseTypes ets, cyc.toNat?, parseConds nc, parseConds ec with
      | some s, some t, some mn, some mx, some d, some ets, some cyc, some nc, some ec =>
        let cfg : VarCfg := { minHops := mn, maxHops := mx, dir := d, etypes := ets, allowCycles := cyc != 0 }
        (match findVariablePaths g cfg (mkFlt g nc ec) s t with
          | .ok ps => (g, s!"ok {ps.length} " ++ ";".intercalate (ps.map fun p => dots p.nodes ++ "/" ++ dots p.edges))
          | .error e => (g, showErr e))
      | _, _, _, _, _, _, _, _, _ => bad
  | _ => bad

def main : IO Unit := run pathsStep { nodes := [], edges := [] }
