import NeumannModel.Paths.AllWProofs
import NeumannModel.Paths.AllWFastProofs
import NeumannModel.Paths.UnionFindProofs
import NeumannModel.Paths.MstProofs
import NeumannModel.Paths.TriangleProofs
import NeumannModel.Paths.KCoreProofs
import NeumannModel.Paths.SccProofs
import NeumannModel.Paths.BiconProofs
import NeumannModel.Paths.NeighborsProofs
import NeumannModel.Paths.VarProofs
import NeumannModel.Paths.AStarCfgProofs
/-
  C18 — second half of the property theorems: the stored adjacency as the public API shows it
  (`edges_of`, `neighbors`), and the algorithm family ("component, spanning-tree, core-number and
  triangle algorithms agree with their textbook definitions on the same graph").

  Everything is stated over the model of `AlgoModel.lean` (union-find with rank and path compression,
  Kruskal, lazy-heap core peeling, forward triangle count, recursive Tarjan, low-link DFS for cut
  vertices and bridges — mirrored from the Rust branch by branch) and
  the declarative notions of `AlgoSpec.lean`, for EVERY graph; hypotheses are only the engine's own
  invariants where a statement needs them (`NodesUnique`: node ids are unique).
-/
namespace Neumann.Paths.Props
open Neumann.Paths

/-! ### find_variable_paths under `max_paths` -/

/-- with `max_paths = k` the answer is a prefix of the untruncated answer: at most `k` matches, every
    one a qualifying chain within the hop bounds, and all of them when there are at most `k` -/
theorem varpaths_capped (g : Graph) (cfg : VarCfg) (flt : Flt) (s t k : Nat) (ps : List Path)
    (h : findVariablePathsCapped g cfg flt s t k = .ok ps) :
    ps.length ≤ k ∧ (∀ p, p ∈ ps → VarPathOk g cfg flt s t p) ∧
    ∃ full, findVariablePaths g cfg flt s t = .ok full ∧ ps = full.take k ∧ (full.length ≤ k → ps = full) := by
  unfold findVariablePathsCapped at h
  split at h
  · rename_i full hfull
    cases h
    refine ⟨List.length_take_le _ _, ?_, full, hfull, rfl, fun hl => List.take_of_length_le hl⟩
    intro p hp
    exact (Neumann.Paths.varpaths_exact g cfg flt s t full hfull p).1 (List.mem_of_mem_take hp)
  · cases h

/-- non-vacuity: two matches 1 ⇝ 3 within 1..2 hops, `max_paths = 1` keeps the first -/
example : (findVariablePathsCapped exGraph ⟨1, 2, .out, none, false⟩ Flt.all 1 3 1).toOption
    = some [⟨[1, 3], [12]⟩] := by decide

/-! ### the stored adjacency: `edges_of` and `neighbors` -/

/-- `edges_of(n, dir)` lists (once each) exactly the ids of the edges that leave `n` (`Outgoing`),
    arrive at `n` (`Incoming`) or either (`Both`); an undirected edge does both at both of its ends -/
theorem edges_of_exact (g : Graph) (dir : Dir) (n : Nat) (r : List Nat) (h : edgesOf g dir n = some r) :
    r.Nodup ∧ ∀ i, i ∈ r ↔ ∃ e, e ∈ g.edges ∧ e.id = i ∧
      ((dir.hasOut = true ∧ (e.src = n ∨ (e.directed = false ∧ e.dst = n))) ∨
       (dir.hasIn = true ∧ (e.dst = n ∨ (e.directed = false ∧ e.src = n)))) :=
  Neumann.Paths.edges_of_exact g dir n r h

theorem edges_of_none_iff (g : Graph) (dir : Dir) (n : Nat) : edgesOf g dir n = none ↔ g.hasNode n = false :=
  Neumann.Paths.edges_of_none_iff g dir n

/-- `neighbors(n, edge_type, dir, filter)` returns (once each) exactly the existing nodes that pass the
    node filter and are one qualifying hop away — the same one-hop relation `traverse` is proved
    against (`traverse_exact`, `neighbours_exact`) -/
theorem neighbors_api_exact (g : Graph) (etype : Option Nat) (dir : Dir) (flt : Flt) (n : Nat) (r : List Nat)
    (h : neighborsApi g etype dir flt n = some r) :
    r.Nodup ∧ ∀ v, v ∈ r ↔ (g.hasNode v = true ∧ flt.nodeOk v = true ∧ TStep g etype dir flt n v) :=
  Neumann.Paths.neighbors_api_exact g etype dir flt n r h

theorem neighbors_api_none_iff (g : Graph) (etype : Option Nat) (dir : Dir) (flt : Flt) (n : Nat) :
    neighborsApi g etype dir flt n = none ↔ g.hasNode n = false :=
  Neumann.Paths.neighbors_api_none_iff g etype dir flt n

/-- non-vacuity: directed 1→2, undirected 2—3, self-loop on 2 -/
example : neighborsApi nbExampleGraph none .out Flt.all 2 = some [3] ∧
    neighborsApi nbExampleGraph none .inc Flt.all 2 = some [1, 3] ∧
    edgesOf nbExampleGraph .out 2 = some [11, 12] ∧ edgesOf nbExampleGraph .inc 2 = some [10, 11, 12] := by decide

/-! ### find_all_weighted_paths: all minimum-weight simple paths -/

/-- the reported total is the weight of a real direction-respecting walk, and no walk is lighter -/
theorem awp_total_optimal (g : Graph) (mp cap s t : Nat) (r : AllWPaths) (hnn : NonNeg g)
    (h : findAllWeightedPaths g mp cap s t = .ok r) :
    WWalk g s t r.total ∧ ∀ c, WWalk g s t c → r.total ≤ c :=
  Neumann.Paths.awp_total_optimal g mp cap s t r hnn h

/-- every listed path is a simple chain of existing edges from `s` to `t`, followed along their
    direction, whose weights add up to exactly the reported (minimum) total -/
theorem awp_paths_sound (g : Graph) (mp cap s t : Nat) (r : AllWPaths) (hnn : NonNeg g)
    (h : findAllWeightedPaths g mp cap s t = .ok r) :
    ∀ p, p ∈ r.paths → p.nodes.head? = some s ∧ p.nodes.getLast? = some t ∧
      WChainOk g p.nodes p.edges r.total ∧ p.nodes.Nodup :=
  Neumann.Paths.awp_paths_sound g mp cap s t r hnn h

/-- `NegativeWeight{edge_id}` always names an existing edge with a negative weight -/
theorem awp_negative_reported (g : Graph) (mp cap s t id : Nat)
    (h : findAllWeightedPaths g mp cap s t = .error (.negativeWeight id)) :
    ∃ e, e ∈ g.edges ∧ e.id = id ∧ e.w < 0 :=
  Neumann.Paths.awp_negative_reported g mp cap s t id h

/-- for existing endpoints and non-negative weights, `PathNotFound` iff no walk exists (includes fuel
    adequacy of the loop) -/
theorem awp_none_iff_unreachable (g : Graph) (mp cap s t : Nat) (hnn : NonNeg g)
    (hs : g.hasNode s = true) (ht : g.hasNode t = true) :
    findAllWeightedPaths g mp cap s t = .error .pathNotFound ↔ ¬ ∃ c, WWalk g s t c :=
  Neumann.Paths.awp_none_iff_unreachable g mp cap s t hnn hs ht

/-- it reports exactly the total `find_weighted_path` reports, and no path exactly when that does -/
theorem awp_total_eq_dijkstra (g : Graph) (mp cap s t : Nat) (hnn : NonNeg g)
    (hs : g.hasNode s = true) (ht : g.hasNode t = true) :
    (findAllWeightedPaths g mp cap s t).toOption.map (·.total) = (findWeightedPath g s t).toOption.map (·.total) :=
  Neumann.Paths.awp_total_eq_dijkstra g mp cap s t hnn hs ht

/-- with `max_paths > 0` at least one path is listed, whatever `max_parents_per_node` is and even
    when zero-weight cycles make a node its own equal-cost ancestor -/
theorem awp_nonempty (g : Graph) (mp cap s t : Nat) (r : AllWPaths) (hnn : NonNeg g) (hmp : 0 < mp)
    (h : findAllWeightedPaths g mp cap s t = .ok r) : r.paths ≠ [] :=
  Neumann.Paths.awp_nonempty g mp cap s t r hnn hmp h

/-- when neither cap is reached (`max_parents_per_node ≥ 2·|E|`, fewer than `max_paths` results)
    every simple minimum-weight chain is listed -/
theorem awp_complete (g : Graph) (mp cap s t : Nat) (r : AllWPaths) (hnn : NonNeg g)
    (h : findAllWeightedPaths g mp cap s t = .ok r)
    (hcap : 2 * g.edges.length ≤ cap) (hmax : r.paths.length < mp)
    (ns es : List Nat) (hhead : ns.head? = some s) (hlast : ns.getLast? = some t)
    (hchain : WChainOk g ns es r.total) (hnd : ns.Nodup) :
    { nodes := ns, edges := es } ∈ r.paths :=
  Neumann.Paths.awp_complete g mp cap s t r hnn h hcap hmax ns es hhead hlast hchain hnd

/-- the early-stopping enumeration the driver runs (and the engine's loop performs: it breaks at
    `max_paths` results) answers exactly what `findAllWeightedPaths` answers -/
theorem awp_fast_eq (g : Graph) (mp cap s t : Nat) :
    findAllWeightedPathsFast g mp cap s t = findAllWeightedPaths g mp cap s t :=
  Neumann.Paths.findAllWeightedPathsFast_eq g mp cap s t

/-- non-vacuity: the diamond 0→1→3, 0→2→3 (weight 2) beside the direct edge of weight 5; `max_paths = 1`
    truncates, `max_parents_per_node = 1` keeps one parent; an unreachable pair; a negative edge -/
example : NonNeg awExGraph := awExGraph_nonneg
example : (findAllWeightedPaths awExGraph 10 10 0 3).toOption.map (fun r => (r.total, r.paths.length)) = some (2, 2) ∧
    (findAllWeightedPaths awExGraph 1 10 0 3).toOption.map (fun r => r.paths.length) = some 1 ∧
    (findAllWeightedPaths awExGraph 10 1 0 3).toOption.map (fun r => r.paths.length) = some 1 ∧
    (findAllWeightedPaths awExGraph 10 10 0 4).toOption.map (fun r => r.total) = none := by decide

/-! ### astar_path under a config (`edge_type`, no `weight_property`) -/

/-- the edges the configured search sees: those of the requested type, each weighing 1 when no weight
    property is configured -/
theorem astar_view_edges (g : Graph) (etype : Option Nat) (weighted : Bool) (e' : Edge) :
    e' ∈ (astarView g etype weighted).edges ↔
      ∃ e, e ∈ g.edges ∧ typeOk etype e = true ∧ e' = (if weighted then e else { e with weight := none }) :=
  Neumann.Paths.mem_astarView_edges g etype weighted e'

/-- the configured A* answers the weight (the hop count when unweighted) of a real walk over edges of
    the requested type, in the requested direction -/
theorem astar_cfg_cost_is_walk (g : Graph) (etype : Option Nat) (weighted : Bool) (dir : Dir) (s t : Nat) (c : Int)
    (hnn : weighted = true → NonNeg g) (h : astarCostCfg g etype weighted dir s t = some c) :
    AWalk (astarView g etype weighted) dir s t c :=
  Neumann.Paths.astar_cfg_cost_is_walk g etype weighted dir s t c hnn h

/-- no such walk is lighter (shorter) -/
theorem astar_cfg_cost_optimal (g : Graph) (etype : Option Nat) (weighted : Bool) (dir : Dir) (s t : Nat) (c : Int)
    (hnn : weighted = true → NonNeg g) (h : astarCostCfg g etype weighted dir s t = some c) :
    ∀ c', AWalk (astarView g etype weighted) dir s t c' → c ≤ c' :=
  Neumann.Paths.astar_cfg_cost_optimal g etype weighted dir s t c hnn h

theorem astar_cfg_none_iff_unreachable (g : Graph) (etype : Option Nat) (weighted : Bool) (dir : Dir) (s t : Nat)
    (hnn : weighted = true → NonNeg g) (hst : s ≠ t) (hs : g.hasNode s = true) (ht : g.hasNode t = true) :
    astarCostCfg g etype weighted dir s t = none ↔ ¬ ∃ c, AWalk (astarView g etype weighted) dir s t c :=
  Neumann.Paths.astar_cfg_none_iff_unreachable g etype weighted dir s t hnn hst hs ht

/-- non-vacuity on the typed example graph (1-2, 2-3 of type 0; 4-5 of type 1): two hops 1 ⇝ 3 over
    type 0, nothing over type 1 -/
example : astarCostCfg ufExampleGraph (some 0) false .out 1 3 = some 2 ∧
    astarCostCfg ufExampleGraph (some 1) false .out 1 3 = none ∧
    astarCostCfg ufExampleGraph (some 1) true .both 5 4 = some 1 := by decide

/-! ### connected_components (union-find with rank and path compression) -/

/-- every node gets exactly one label, in node order -/
theorem components_keys (g : Graph) (etype : Option Nat) :
    (connectedComponents g etype).map (·.1) = g.nodes.map (·.id) :=
  Neumann.Paths.components_keys g etype

/-- two nodes carry the same label exactly when they are connected by edges of the requested type,
    direction ignored (includes fuel adequacy of `find`: it always reaches the root) -/
theorem components_exact (g : Graph) (etype : Option Nat) (u v lu lv : Nat)
    (hu : (u, lu) ∈ connectedComponents g etype) (hv : (v, lv) ∈ connectedComponents g etype) :
    lu = lv ↔ Linked g etype u v :=
  Neumann.Paths.components_exact g etype u v lu lv hu hv

/-- the label of a component is one of its members -/
theorem components_label_linked (g : Graph) (etype : Option Nat) (u l : Nat)
    (hu : (u, l) ∈ connectedComponents g etype) : Linked g etype u l :=
  Neumann.Paths.components_label_linked g etype u l hu

/-- non-vacuity: edges 1-2, 2-3 of type 0 and 4-5 of type 1 -/
example : connectedComponents ufExampleGraph none = [(1, 1), (2, 1), (3, 1), (4, 4), (5, 4)] ∧
    connectedComponents ufExampleGraph (some 0) = [(1, 1), (2, 1), (3, 1), (4, 4), (5, 5)] := by decide

/-! ### minimum_spanning_tree (Kruskal over the union-find) -/

/-- for whatever order the engine's hash-map scan delivers the edges in (`order`, any permutation of
    the edges) and either setting of `compute_forest`: the accepted edges are edges of the graph,
    join exactly the node pairs the whole graph joins and contain no cycle; `total_weight` is their
    weight and `tree_count` the number of connected components -/
theorem mst_spanning_forest (g : Graph) (forest : Bool) (order : List Edge) (r : MstRes)
    (hperm : order.Perm g.edges) (hend : EndpointsExist g) (hn : NodesUnique g) (he : EdgesUnique g)
    (h : mstOf g forest order = some r) :
    Spans g r.edges ∧ IsForest r.edges ∧ r.total = sumW r.edges ∧ r.trees + r.edges.length = g.nodes.length :=
  Neumann.Paths.mst_spanning_forest g forest order r hperm hend hn he h

/-- no spanning forest of the graph is lighter (negative weights included) -/
theorem mst_minimal_forest (g : Graph) (forest : Bool) (order : List Edge) (r : MstRes)
    (hperm : order.Perm g.edges) (hend : EndpointsExist g) (hn : NodesUnique g)
    (h : mstOf g forest order = some r) :
    ∀ F, Spans g F → IsForest F → r.total ≤ sumW F :=
  Neumann.Paths.mst_minimal_forest g forest order r hperm hend hn h

/-- the same over the larger class of edge lists that are acyclic in their listed order -/
theorem mst_minimal (g : Graph) (forest : Bool) (order : List Edge) (r : MstRes)
    (hperm : order.Perm g.edges) (hend : EndpointsExist g) (hn : NodesUnique g)
    (h : mstOf g forest order = some r) :
    ∀ F, Spans g F → SeqAcyclic F → r.total ≤ sumW F :=
  Neumann.Paths.mst_minimal g forest order r hperm hend hn h

/-- the scan order and `compute_forest` change neither the total, nor the tree count, nor the
    ascending list of accepted weights (what the correspondence run compares) -/
theorem mst_scan_order_irrelevant (g : Graph) (forest forest' : Bool) (order order' : List Edge) (r r' : MstRes)
    (hperm : order.Perm g.edges) (hperm' : order'.Perm g.edges) (hend : EndpointsExist g) (hn : NodesUnique g)
    (h : mstOf g forest order = some r) (h' : mstOf g forest' order' = some r') :
    r.total = r'.total ∧ r.trees = r'.trees ∧ r.edges.map Edge.w = r'.edges.map Edge.w :=
  Neumann.Paths.mst_scan_order_irrelevant g forest forest' order order' r r' hperm hperm' hend hn h h'

theorem mst_none_iff (g : Graph) (forest : Bool) (order : List Edge) : mstOf g forest order = none ↔ g.nodes = [] :=
  Neumann.Paths.mst_none_iff g forest order

/-- non-vacuity: edges 1-2 (3), 2-3 (−1), 1-3 (3), 3-4 (no weight = 1), isolated node 5: total 3, two
    trees, weights −1, 1, 3 — with either edge of weight 3, depending on the scan order -/
example : EndpointsExist mstExampleGraph ∧ NodesUnique mstExampleGraph ∧ EdgesUnique mstExampleGraph := by
  refine ⟨?_, by unfold NodesUnique; decide, by unfold EdgesUnique; decide⟩
  intro e he
  simp only [mstExampleGraph, List.mem_cons, List.not_mem_nil, or_false] at he
  rcases he with rfl | rfl | rfl | rfl <;> decide
example : (minimumSpanningTree mstExampleGraph true).map (fun r => (r.total, r.trees, r.edges.map Edge.id)) = some (3, 2, [2, 4, 1]) ∧
    (mstOf mstExampleGraph false mstExampleGraph.edges.reverse).map (fun r => (r.total, r.trees, r.edges.map Edge.id)) = some (3, 2, [2, 4, 3]) := by decide

/-! ### strongly_connected_components (recursive Tarjan) -/

/-- the successors Tarjan's search follows are the declarative one-step relation: an edge of the
    requested type followed along its direction (either way when undirected) to another existing node -/
theorem scc_successors_exact (g : Graph) (etype : Option Nat) (u v : Nat) :
    v ∈ nbrSet g etype .out u ↔ SStep g etype u v :=
  Neumann.Paths.mem_nbrSet_out g etype u v

/-- every node lies in exactly one component, exactly once (includes fuel adequacy of the recursion) -/
theorem scc_partition (g : Graph) (etype : Option Nat) (hn : NodesUnique g) :
    (sccComponents g etype).flatten.Perm (g.nodes.map (·.id)) :=
  Neumann.Paths.scc_partition g etype hn

/-- the members of a component are exactly the nodes mutually reachable with any one of its members -/
theorem scc_exact (g : Graph) (etype : Option Nat) (hn : NodesUnique g) (c : List Nat)
    (hc : c ∈ sccComponents g etype) (u : Nat) (hu : u ∈ c) (v : Nat) :
    v ∈ c ↔ (g.hasNode v = true ∧ SReach g etype u v ∧ SReach g etype v u) :=
  Neumann.Paths.scc_exact g etype hn c hc u hu v

/-- non-vacuity: the directed cycle 1→2→3→1 with the tail 3→4 and the undirected edge 4—5 of type 1 -/
example : sccComponents tjExG none = [[5, 4], [3, 2, 1]] ∧ sccComponents tjExG (some 0) = [[4], [3, 2, 1], [5]] := by
  rw [sccComponents_eq_F, sccComponents_eq_F]; decide

/-! ### articulation_points / bridges (low-link DFS on the simple undirected view) -/

/-- `x` is reported exactly when it is a cut vertex: two other nodes of its component are separated
    once `x` is removed (includes fuel adequacy of the recursion) -/
theorem ap_exact (g : Graph) (etype : Option Nat) (hn : NodesUnique g) (x : Nat) :
    x ∈ articulationPoints g etype ↔ IsArticulation g etype x :=
  Neumann.Paths.ap_exact g etype hn x

/-- the pair `(a, b)`, smaller id first, is reported exactly when `a` and `b` are adjacent and become
    disconnected without that adjacency (simple-graph view: parallel edges between them count as one) -/
theorem bridges_exact (g : Graph) (etype : Option Nat) (hn : NodesUnique g) (a b : Nat) :
    (a, b) ∈ bridgePairs g etype ↔ (a < b ∧ IsBridgePair g etype a b) :=
  Neumann.Paths.bridges_exact g etype hn a b

/-- no pair is reported twice -/
theorem bridges_nodup (g : Graph) (etype : Option Nat) (hn : NodesUnique g) : (bridgePairs g etype).Nodup :=
  Neumann.Paths.bridges_nodup g etype hn

/-- non-vacuity: the path 1—2—3 with the triangle 3—4—5—3; two nodes joined only by parallel edges -/
example : articulationPoints bcExG none = [2, 3] ∧ bridgePairs bcExG none = [(2, 3), (1, 2)] ∧
    bridgePairs bcExP none = [(1, 2)] ∧ articulationPoints bcExP none = [] := by
  rw [bc_articulationPoints_eq_F, bc_bridgePairs_eq_F, bc_bridgePairs_eq_F, bc_articulationPoints_eq_F]; decide

/-! ### kcore_decomposition (peeling with a lazy min-heap) -/

/-- every node receives exactly one core number (includes fuel adequacy: the loop ends with an empty
    heap and every node processed) -/
theorem kcore_keys (g : Graph) (etype : Option Nat) (hn : NodesUnique g) :
    ((kcore g etype).map (·.1)).Perm (g.nodes.map (·.id)) :=
  Neumann.Paths.kcore_keys g etype hn

/-- the number answered for `u` is its textbook core number in the simple undirected view: `u` lies in
    a node set whose members all have at least `c` neighbours inside the set, and in no such set for a
    larger bound -/
theorem kcore_exact (g : Graph) (etype : Option Nat) (hn : NodesUnique g) (u c : Nat)
    (h : (u, c) ∈ kcore g etype) :
    (∃ s, u ∈ s ∧ IsKCoreSetT g etype c s) ∧ ∀ k s, u ∈ s → IsKCoreSetT g etype k s → k ≤ c :=
  Neumann.Paths.kcore_exact g etype hn u c h

/-- the adjacency the peeling (and the triangle count) runs on is the declarative one -/
theorem kcore_adjacency_exact (g : Graph) (etype : Option Nat) (u v : Nat) (hu : g.hasNode u = true) :
    v ∈ nbrSet g etype .both u ↔ adjacentT g etype u v :=
  Neumann.Paths.mem_nbrSet_both_iff_adjacentT g etype u v hu

/-- non-vacuity: triangle 1-2-3, pendant 4 on node 1, isolated 5: core numbers 2,2,2,1,0; restricted
    to edge type 0 the triangle opens into a path -/
example : NodesUnique kcoreExG := by unfold NodesUnique; decide
example : [1, 2, 3, 4, 5].map (nmGet (kcore kcoreExG none)) = [some 2, some 2, some 2, some 1, some 0] ∧
    [1, 2, 3, 4, 5].map (nmGet (kcore kcoreExT (some 0))) = [some 1, some 1, some 1, some 1, some 0] := by decide

/-! ### count_triangles (undirected view) -/

/-- `triangle_count` is the number of triangles of the simple undirected view of the graph: there is
    a duplicate-free list of exactly that length whose members are exactly the triangles -/
theorem triangles_exact (g : Graph) (etype : Option Nat) (hn : NodesUnique g) :
    ∃ ts : List (Nat × Nat × Nat), ts.Nodup ∧ ts.length = triangleCount g etype true ∧
      ∀ a b c, (a, b, c) ∈ ts ↔ IsTriangleT g etype a b c :=
  Neumann.Paths.triangles_exact g etype hn

/-- `node_triangles[x]` is the number of triangles that have `x` as a corner -/
theorem triangles_per_node (g : Graph) (etype : Option Nat) (hn : NodesUnique g) (x : Nat) :
    ∃ ts : List (Nat × Nat × Nat), ts.Nodup ∧ ts.length = nodeTriangles g etype true x ∧
      ∀ a b c, (a, b, c) ∈ ts ↔ (IsTriangleT g etype a b c ∧ (x = a ∨ x = b ∨ x = c)) :=
  Neumann.Paths.triangles_per_node g etype hn x

/-- non-vacuity: the triangle 1-2-3 with a pendant on node 1 (degree order ≠ id order: the witness of
    the fixed double-count defect) has one triangle; K4 has four -/
example : NodesUnique triExG := by unfold NodesUnique; decide
example : triangleCount triExG none true = 1 ∧ nodeTriangles triExG none true 1 = 1 ∧
    nodeTriangles triExG none true 4 = 0 ∧ triangleCount triExK4 none true = 4 := by decide

end Neumann.Paths.Props
