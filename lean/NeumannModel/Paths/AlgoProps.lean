import NeumannModel.Paths.UnionFindProofs
import NeumannModel.Paths.TriangleProofs
import NeumannModel.Paths.KCoreProofs
import NeumannModel.Paths.NeighborsProofs
/-
  C18 — second half of the property theorems: the stored adjacency as the public API shows it
  (`edges_of`, `neighbors`), and the algorithm family ("component, spanning-tree, core-number and
  triangle algorithms agree with their textbook definitions on the same graph").

  Everything is stated over the model of `AlgoModel.lean` (union-find with rank and path compression,
  Kruskal, lazy-heap core peeling, forward triangle count — mirrored from the Rust branch by branch) and
  the declarative notions of `AlgoSpec.lean`, for EVERY graph; hypotheses are only the engine's own
  invariants where a statement needs them (`NodesUnique`: node ids are unique).
-/
namespace Neumann.Paths.Props
open Neumann.Paths

/-! ### the stored adjacency: `edges_of` and `neighbors` -/

/-- `edges_of(n, dir)` lists (once each) exactly the ids of the edges that leave `n` (`Outgoing`),
    arrive at `n` (`Incoming`) or either (`Both`); an undirected edge does both at both of its ends -/
theorem edges_of_exact (g : Graph) (dir : Dir) (n : Nat) (r : List Nat) (h : edgesOf g dir n = some r) :
    r.Nodup ∧ ∀ i, i ∈ r ↔ ∃ e, e ∈ g.edges ∧ e.id = i ∧
      ((dir.hasOut = true ∧ (e.src = n ∨ (e.directed = false ∧ e.dst = n))) ∨
       (dir.hasIn = true ∧ (e.dst = n ∨ (e.directed = false ∧ e.src = n)))) :=
  Neumann.Paths.edges_of_exact g dir n r h

theorem edges_of_none_iff (g : Graph) (dir : Dir) (n : Nat) : edgesOf g dir n = none ↔ g.hasNode n = false :=
  Neumann.Paths.edges_of_none_iff g dir n

/-- `neighbors(n, edge_type, dir, filter)` returns (once each) exactly the existing nodes that pass the
    node filter and are one qualifying hop away — the same one-hop relation `traverse` is proved
    against (`traverse_exact`, `neighbours_exact`) -/
theorem neighbors_api_exact (g : Graph) (etype : Option Nat) (dir : Dir) (flt : Flt) (n : Nat) (r : List Nat)
    (h : neighborsApi g etype dir flt n = some r) :
    r.Nodup ∧ ∀ v, v ∈ r ↔ (g.hasNode v = true ∧ flt.nodeOk v = true ∧ TStep g etype dir flt n v) :=
  Neumann.Paths.neighbors_api_exact g etype dir flt n r h

theorem neighbors_api_none_iff (g : Graph) (etype : Option Nat) (dir : Dir) (flt : Flt) (n : Nat) :
    neighborsApi g etype dir flt n = none ↔ g.hasNode n = false :=
  Neumann.Paths.neighbors_api_none_iff g etype dir flt n

/-- non-vacuity: directed 1→2, undirected 2—3, self-loop on 2 -/
example : neighborsApi nbExampleGraph none .out Flt.all 2 = some [3] ∧
    neighborsApi nbExampleGraph none .inc Flt.all 2 = some [1, 3] ∧
    edgesOf nbExampleGraph .out 2 = some [11, 12] ∧ edgesOf nbExampleGraph .inc 2 = some [10, 11, 12] := by decide

/-! ### connected_components (union-find with rank and path compression) -/

/-- every node gets exactly one label, in node order -/
theorem components_keys (g : Graph) (etype : Option Nat) :
    (connectedComponents g etype).map (·.1) = g.nodes.map (·.id) :=
  Neumann.Paths.components_keys g etype

/-- two nodes carry the same label exactly when they are connected by edges of the requested type,
    direction ignored (includes fuel adequacy of `find`: it always reaches the root) -/
theorem components_exact (g : Graph) (etype : Option Nat) (u v lu lv : Nat)
    (hu : (u, lu) ∈ connectedComponents g etype) (hv : (v, lv) ∈ connectedComponents g etype) :
    lu = lv ↔ Linked g etype u v :=
  Neumann.Paths.components_exact g etype u v lu lv hu hv

/-- the label of a component is one of its members -/
theorem components_label_linked (g : Graph) (etype : Option Nat) (u l : Nat)
    (hu : (u, l) ∈ connectedComponents g etype) : Linked g etype u l :=
  Neumann.Paths.components_label_linked g etype u l hu

/-- non-vacuity: edges 1-2, 2-3 of type 0 and 4-5 of type 1 -/
example : connectedComponents ufExampleGraph none = [(1, 1), (2, 1), (3, 1), (4, 4), (5, 4)] ∧
    connectedComponents ufExampleGraph (some 0) = [(1, 1), (2, 1), (3, 1), (4, 4), (5, 5)] := by decide

/-! ### kcore_decomposition (peeling with a lazy min-heap) -/

/-- every node receives exactly one core number (includes fuel adequacy: the loop ends with an empty
    heap and every node processed) -/
theorem kcore_keys (g : Graph) (etype : Option Nat) (hn : NodesUnique g) :
    ((kcore g etype).map (·.1)).Perm (g.nodes.map (·.id)) :=
  Neumann.Paths.kcore_keys g etype hn

/-- the number answered for `u` is its textbook core number in the simple undirected view: `u` lies in
    a node set whose members all have at least `c` neighbours inside the set, and in no such set for a
    larger bound -/
theorem kcore_exact (g : Graph) (etype : Option Nat) (hn : NodesUnique g) (u c : Nat)
    (h : (u, c) ∈ kcore g etype) :
    (∃ s, u ∈ s ∧ IsKCoreSetT g etype c s) ∧ ∀ k s, u ∈ s → IsKCoreSetT g etype k s → k ≤ c :=
  Neumann.Paths.kcore_exact g etype hn u c h

/-- the adjacency the peeling (and the triangle count) runs on is the declarative one -/
theorem kcore_adjacency_exact (g : Graph) (etype : Option Nat) (u v : Nat) (hu : g.hasNode u = true) :
    v ∈ nbrSet g etype .both u ↔ adjacentT g etype u v :=
  Neumann.Paths.mem_nbrSet_both_iff_adjacentT g etype u v hu

/-- non-vacuity: triangle 1-2-3, pendant 4 on node 1, isolated 5: core numbers 2,2,2,1,0; restricted
    to edge type 0 the triangle opens into a path -/
example : NodesUnique kcoreExG := by unfold NodesUnique; decide
example : [1, 2, 3, 4, 5].map (nmGet (kcore kcoreExG none)) = [some 2, some 2, some 2, some 1, some 0] ∧
    [1, 2, 3, 4, 5].map (nmGet (kcore kcoreExT (some 0))) = [some 1, some 1, some 1, some 1, some 0] := by decide

/-! ### count_triangles (undirected view) -/

/-- `triangle_count` is the number of triangles of the simple undirected view of the graph: there is
    a duplicate-free list of exactly that length whose members are exactly the triangles -/
theorem triangles_exact (g : Graph) (etype : Option Nat) (hn : NodesUnique g) :
    ∃ ts : List (Nat × Nat × Nat), ts.Nodup ∧ ts.length = triangleCount g etype true ∧
      ∀ a b c, (a, b, c) ∈ ts ↔ IsTriangleT g etype a b c :=
  Neumann.Paths.triangles_exact g etype hn

/-- `node_triangles[x]` is the number of triangles that have `x` as a corner -/
theorem triangles_per_node (g : Graph) (etype : Option Nat) (hn : NodesUnique g) (x : Nat) :
    ∃ ts : List (Nat × Nat × Nat), ts.Nodup ∧ ts.length = nodeTriangles g etype true x ∧
      ∀ a b c, (a, b, c) ∈ ts ↔ (IsTriangleT g etype a b c ∧ (x = a ∨ x = b ∨ x = c)) :=
  Neumann.Paths.triangles_per_node g etype hn x

/-- non-vacuity: the triangle 1-2-3 with a pendant on node 1 (degree order ≠ id order: the witness of
    the fixed double-count defect) has one triangle; K4 has four -/
example : NodesUnique triExG := by unfold NodesUnique; decide
example : triangleCount triExG none true = 1 ∧ nodeTriangles triExG none true 1 = 1 ∧
    nodeTriangles triExG none true 4 = 0 ∧ triangleCount triExK4 none true = 4 := by decide

end Neumann.Paths.Props
