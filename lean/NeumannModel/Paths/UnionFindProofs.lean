import NeumannModel.Paths.AlgoSpec
/-
  C18 — union-find (`UF`, `ufFind`, `ufUnion`, `ufLabels`) and `connectedComponents`:
  the representative function `UF.rep`, the well-formedness predicate `UF.Good`, the specification
  of find / union / labels in terms of representatives, and the exactness of connected components
  with respect to `Linked`.
-/
namespace Neumann.Paths

/-! ### association-list lookups -/

theorem nmGet_nil (x : Nat) : nmGet [] x = none := rfl

theorem nmGet_cons (a b : Nat) (m : NatMap) (x : Nat) :
    nmGet ((a, b) :: m) x = if a = x then some b else nmGet m x := by
  by_cases h : a = x
  · have hb : (a == x) = true := by simpa using h
    simp only [nmGet, List.find?_cons, hb, if_pos h]
  · have hb : (a == x) = false := by simpa using h
    simp only [nmGet, List.find?_cons, hb, if_neg h]

theorem nmGet_map (f : Nat → Nat) (ns : List Nat) (x : Nat) :
    nmGet (ns.map (fun n => (n, f n))) x = if x ∈ ns then some (f x) else none := by
  induction ns with
  | nil => simp [nmGet_nil]
  | cons n ns ih =>
    rw [List.map_cons, nmGet_cons, ih]
    by_cases h : n = x
    · subst h; simp
    · have h' : ¬ x = n := fun e => h e.symm
      simp [h, h']

theorem UF.parentOf_cons (uf : UF) (a b : Nat) (r : NatMap) (y : Nat) :
    UF.parentOf { parent := (a, b) :: uf.parent, rank := r } y
      = if a = y then b else uf.parentOf y := by
  simp only [UF.parentOf, nmGet_cons]
  by_cases h : a = y
  · simp [h]
  · simp [h]

theorem UF.rankOf_cons (uf : UF) (a b : Nat) (p : NatMap) (y : Nat) :
    UF.rankOf { parent := p, rank := (a, b) :: uf.rank } y
      = if a = y then b else uf.rankOf y := by
  simp only [UF.rankOf, nmGet_cons]
  by_cases h : a = y
  · simp [h]
  · simp [h]

theorem UF.rankOf_congr {uf uf' : UF} (h : uf'.rank = uf.rank) (y : Nat) :
    uf'.rankOf y = uf.rankOf y := by
  unfold UF.rankOf
  rw [h]

/-! ### roots, well-formedness, representatives -/

/-- follow `parentOf` at most `fuel` times (no compression) -/
def UF.root (uf : UF) : Nat → Nat → Nat
  | 0, x => x
  | f + 1, x => if uf.parentOf x == x then x else uf.root f (uf.parentOf x)

theorem UF.root_zero (uf : UF) (x : Nat) : uf.root 0 x = x := rfl

theorem UF.root_succ (uf : UF) (f x : Nat) :
    uf.root (f + 1) x = if uf.parentOf x = x then x else uf.root f (uf.parentOf x) := by
  simp only [UF.root, beq_iff_eq]

/-- well-formedness with rank bound `k`: ranks are at most `k` and strictly increase along
    parent links -/
def UF.Good (uf : UF) (k : Nat) : Prop :=
  (∀ x, uf.rankOf x ≤ k) ∧ ∀ x, uf.parentOf x ≠ x → uf.rankOf x < uf.rankOf (uf.parentOf x)

/-- the representative under a `Good k` structure -/
def UF.rep (uf : UF) (k : Nat) (x : Nat) : Nat := uf.root (k + 1) x

theorem UF.root_of_fix {uf : UF} {x : Nat} (hx : uf.parentOf x = x) (f : Nat) :
    uf.root f x = x := by
  cases f with
  | zero => rfl
  | succ f => rw [UF.root_succ, if_pos hx]

theorem UF.root_stable {uf : UF} : ∀ (f x : Nat), uf.parentOf (uf.root f x) = uf.root f x →
    ∀ f', f ≤ f' → uf.root f' x = uf.root f x := by
  intro f
  induction f with
  | zero =>
    intro x hx f' _
    rw [UF.root_zero] at hx ⊢
    exact UF.root_of_fix hx f'
  | succ f ih =>
    intro x hx f' hf'
    obtain ⟨f'', rfl⟩ : ∃ f'', f' = f'' + 1 := ⟨f' - 1, by omega⟩
    by_cases hp : uf.parentOf x = x
    · simp only [UF.root_succ, if_pos hp]
    · simp only [UF.root_succ, if_neg hp] at hx ⊢
      exact ih _ hx f'' (by omega)

theorem UF.Good.rank_le_root {uf : UF} {k : Nat} (h : uf.Good k) :
    ∀ (f x : Nat), uf.rankOf x ≤ uf.rankOf (uf.root f x) := by
  intro f
  induction f with
  | zero => intro x; exact Nat.le_refl _
  | succ f ih =>
    intro x
    by_cases hp : uf.parentOf x = x
    · simp only [UF.root_succ, if_pos hp]; exact Nat.le_refl _
    · simp only [UF.root_succ, if_neg hp]
      have h1 := h.2 x hp
      have h2 := ih (uf.parentOf x)
      omega

theorem UF.Good.root_fix {uf : UF} {k : Nat} (h : uf.Good k) :
    ∀ (f x : Nat), k - uf.rankOf x < f → uf.parentOf (uf.root f x) = uf.root f x := by
  intro f
  induction f with
  | zero => intro x hf; omega
  | succ f ih =>
    intro x hf
    by_cases hp : uf.parentOf x = x
    · simp only [UF.root_succ, if_pos hp]; exact hp
    · simp only [UF.root_succ, if_neg hp]
      apply ih
      have h1 := h.2 x hp
      have h2 := h.1 (uf.parentOf x)
      omega

theorem UF.Good.rep_fix {uf : UF} {k : Nat} (h : uf.Good k) (x : Nat) :
    uf.parentOf (uf.rep k x) = uf.rep k x :=
  h.root_fix (k + 1) x (by omega)

/-- any fuel above `k - rank x` reaches the representative -/
theorem UF.Good.root_eq_rep {uf : UF} {k : Nat} (h : uf.Good k) {f x : Nat}
    (hf : k - uf.rankOf x < f) : uf.root f x = uf.rep k x := by
  rcases Nat.le_total f (k + 1) with hle | hle
  · exact (UF.root_stable f x (h.root_fix f x hf) (k + 1) hle).symm
  · exact UF.root_stable (k + 1) x (h.rep_fix x) f hle

theorem UF.rep_of_fix {uf : UF} {x : Nat} (hx : uf.parentOf x = x) (k : Nat) : uf.rep k x = x :=
  UF.root_of_fix hx (k + 1)

theorem UF.good_mono {uf : UF} {k k' : Nat} (h : uf.Good k) (hk : k ≤ k') : uf.Good k' :=
  ⟨fun x => Nat.le_trans (h.1 x) hk, h.2⟩

/-- more fuel changes nothing -/
theorem UF.rep_mono {uf : UF} {k k' : Nat} (h : uf.Good k) (hk : k ≤ k') (x : Nat) :
    uf.rep k' x = uf.rep k x :=
  h.root_eq_rep (f := k' + 1) (by omega)

theorem UF.rep_idem {uf : UF} {k : Nat} (h : uf.Good k) (x : Nat) :
    uf.rep k (uf.rep k x) = uf.rep k x :=
  UF.rep_of_fix (h.rep_fix x) k

theorem UF.rep_parentOf {uf : UF} {k : Nat} (h : uf.Good k) (x : Nat) :
    uf.parentOf (uf.rep k x) = uf.rep k x := h.rep_fix x

/-- an element and its parent have the same representative -/
theorem UF.Good.rep_parent {uf : UF} {k : Nat} (h : uf.Good k) (x : Nat) :
    uf.rep k (uf.parentOf x) = uf.rep k x := by
  by_cases hp : uf.parentOf x = x
  · rw [hp]
  · have h1 := h.2 x hp
    have h2 := h.1 (uf.parentOf x)
    have e : uf.rep k x = uf.root k (uf.parentOf x) := by
      unfold UF.rep
      rw [UF.root_succ, if_neg hp]
    rw [e]
    exact (h.root_eq_rep (by omega)).symm

theorem UF.Good.rank_le_rep {uf : UF} {k : Nat} (h : uf.Good k) (x : Nat) :
    uf.rankOf x ≤ uf.rankOf (uf.rep k x) := h.rank_le_root (k + 1) x

theorem UF.Good.rank_lt_rep {uf : UF} {k : Nat} (h : uf.Good k) (x : Nat)
    (hx : uf.rep k x ≠ x) : uf.rankOf x < uf.rankOf (uf.rep k x) := by
  have hp : uf.parentOf x ≠ x := fun e => hx (UF.rep_of_fix e k)
  have h1 := h.2 x hp
  have h2 := h.rank_le_rep (uf.parentOf x)
  rw [h.rep_parent x] at h2
  omega

/-- a function that is constant along parent links and fixes the roots is the representative -/
theorem UF.Good.rep_unique {uf : UF} {k : Nat} (h : uf.Good k) (ρ : Nat → Nat)
    (h1 : ∀ y, ρ (uf.parentOf y) = ρ y) (h2 : ∀ y, uf.parentOf y = y → ρ y = y) (y : Nat) :
    uf.rep k y = ρ y := by
  have hroot : ∀ (f y : Nat), ρ (uf.root f y) = ρ y := by
    intro f
    induction f with
    | zero => intro y; rfl
    | succ f ih =>
      intro y
      by_cases hp : uf.parentOf y = y
      · simp only [UF.root_succ, if_pos hp]
      · simp only [UF.root_succ, if_neg hp]
        rw [ih, h1]
  exact (h2 _ (h.rep_fix y)).symm.trans (hroot (k + 1) y)

/-! ### `UF.new` -/

theorem UF.new_parentOf (nodes : List Nat) (x : Nat) : (UF.new nodes).parentOf x = x := by
  simp only [UF.parentOf, UF.new, nmGet_map]
  split <;> rfl

theorem UF.new_rankOf (nodes : List Nat) (x : Nat) : (UF.new nodes).rankOf x = 0 := by
  simp only [UF.rankOf, UF.new, nmGet_map]
  split <;> rfl

theorem UF.new_good (nodes : List Nat) : (UF.new nodes).Good 0 :=
  ⟨fun x => by rw [UF.new_rankOf]; exact Nat.le_refl _,
   fun x hx => absurd (UF.new_parentOf nodes x) hx⟩

theorem UF.new_rep (nodes : List Nat) (x : Nat) : (UF.new nodes).rep 0 x = x :=
  UF.rep_of_fix (UF.new_parentOf nodes x) 0

/-! ### find -/

theorem ufFind_zero (uf : UF) (x : Nat) : ufFind 0 uf x = (x, uf) := rfl

theorem ufFind_succ (fuel : Nat) (uf : UF) (x : Nat) :
    ufFind (fuel + 1) uf x =
      if uf.parentOf x = x then (x, uf)
      else ((ufFind fuel uf (uf.parentOf x)).1,
            { parent := (x, (ufFind fuel uf (uf.parentOf x)).1)
                          :: (ufFind fuel uf (uf.parentOf x)).2.parent,
              rank := (ufFind fuel uf (uf.parentOf x)).2.rank }) := by
  simp only [ufFind, beq_iff_eq]

/-- find never touches the ranks -/
theorem ufFind_rank : ∀ (fuel : Nat) (uf : UF) (x : Nat), (ufFind fuel uf x).2.rank = uf.rank := by
  intro fuel
  induction fuel with
  | zero => intro uf x; rfl
  | succ fuel ih =>
    intro uf x
    rw [ufFind_succ]
    by_cases hp : uf.parentOf x = x
    · rw [if_pos hp]
    · rw [if_neg hp]
      exact ih uf (uf.parentOf x)

/-- re-parenting `x` to its own representative keeps well-formedness and every representative -/
theorem UF.compress_spec {uf : UF} {k : Nat} (h : uf.Good k) (x : Nat) (uf' : UF)
    (hpar : ∀ y, uf'.parentOf y = if x = y then uf.rep k x else uf.parentOf y)
    (hrank : ∀ y, uf'.rankOf y = uf.rankOf y) :
    uf'.Good k ∧ ∀ y, uf'.rep k y = uf.rep k y := by
  have hg : uf'.Good k := by
    refine ⟨fun y => by rw [hrank]; exact h.1 y, fun y hy => ?_⟩
    rw [hpar] at hy ⊢
    rw [hrank, hrank]
    by_cases hxy : x = y
    · subst hxy
      rw [if_pos rfl] at hy ⊢
      exact h.rank_lt_rep x hy
    · rw [if_neg hxy] at hy ⊢
      exact h.2 y hy
  refine ⟨hg, fun y => hg.rep_unique (fun y => uf.rep k y) ?_ ?_ y⟩
  · intro y
    rw [hpar]
    by_cases hxy : x = y
    · subst hxy
      rw [if_pos rfl]
      exact UF.rep_idem h x
    · rw [if_neg hxy]
      exact h.rep_parent y
  · intro y hy
    rw [hpar] at hy
    by_cases hxy : x = y
    · subst hxy
      rw [if_pos rfl] at hy
      exact hy
    · rw [if_neg hxy] at hy
      exact UF.rep_of_fix hy k

theorem ufFind_aux {k : Nat} : ∀ (fuel : Nat) (uf : UF) (x : Nat), uf.Good k →
    k - uf.rankOf x < fuel →
    (ufFind fuel uf x).1 = uf.rep k x ∧ (ufFind fuel uf x).2.Good k ∧
      ∀ y, (ufFind fuel uf x).2.rep k y = uf.rep k y := by
  intro fuel
  induction fuel with
  | zero => intro uf x _ hf; omega
  | succ fuel ih =>
    intro uf x h hf
    rw [ufFind_succ]
    by_cases hp : uf.parentOf x = x
    · rw [if_pos hp]
      exact ⟨(UF.rep_of_fix hp k).symm, h, fun _ => rfl⟩
    · rw [if_neg hp]
      have h1 := h.2 x hp
      have h2 := h.1 (uf.parentOf x)
      obtain ⟨e1, g1, r1⟩ := ih uf (uf.parentOf x) h (by omega)
      have hrk := ufFind_rank fuel uf (uf.parentOf x)
      generalize ufFind fuel uf (uf.parentOf x) = F at e1 g1 r1 hrk ⊢
      have eF : F.1 = F.2.rep k x := by rw [e1, h.rep_parent x, r1]
      have hc := UF.compress_spec g1 x
        { parent := (x, F.1) :: F.2.parent, rank := F.2.rank }
        (fun y => by rw [UF.parentOf_cons, eF])
        (fun y => rfl)
      refine ⟨?_, hc.1, fun y => (hc.2 y).trans (r1 y)⟩
      show F.1 = uf.rep k x
      rw [e1, h.rep_parent x]

/-- find answers the representative (it never runs out of fuel); path compression keeps
    well-formedness and changes no representative -/
theorem ufFind_spec {uf : UF} {k fuel : Nat} (h : uf.Good k) (hf : k < fuel) (x : Nat) :
    (ufFind fuel uf x).1 = uf.rep k x ∧ (ufFind fuel uf x).2.Good k ∧
      ∀ y, (ufFind fuel uf x).2.rep k y = uf.rep k y :=
  ufFind_aux fuel uf x h (by omega)

/-! ### union -/

/-- hanging the root `a` under the root `b` (whose rank may have been raised) -/
theorem UF.link_spec {uf : UF} {k : Nat} (h : uf.Good k) {a b : Nat}
    (ha : uf.parentOf a = a) (hb : uf.parentOf b = b) (hab : a ≠ b) (uf' : UF)
    (hpar : ∀ y, uf'.parentOf y = if a = y then b else uf.parentOf y)
    (hr : ∀ y, y ≠ b → uf'.rankOf y = uf.rankOf y)
    (hrb : uf.rankOf b ≤ uf'.rankOf b) (hrb' : uf'.rankOf b ≤ k + 1)
    (hlt : uf.rankOf a < uf'.rankOf b) :
    uf'.Good (k + 1) ∧
      ∀ y, uf'.rep (k + 1) y = if uf.rep k y = a then b else uf.rep k y := by
  have hg : uf'.Good (k + 1) := by
    refine ⟨fun y => ?_, fun y hy => ?_⟩
    · by_cases hyb : y = b
      · rw [hyb]; exact hrb'
      · rw [hr y hyb]; have := h.1 y; omega
    · rw [hpar] at hy ⊢
      by_cases hay : a = y
      · subst hay
        rw [if_pos rfl]
        rw [hr a hab]
        exact hlt
      · rw [if_neg hay] at hy ⊢
        have hyb : y ≠ b := fun e => hy (by rw [e]; exact hb)
        rw [hr y hyb]
        have h1 := h.2 y hy
        by_cases hpb : uf.parentOf y = b
        · rw [hpb] at h1 ⊢; omega
        · rw [hr _ hpb]; exact h1
  refine ⟨hg, fun y =>
    hg.rep_unique (fun y => if uf.rep k y = a then b else uf.rep k y) ?_ ?_ y⟩
  · intro y
    show (if uf.rep k (uf'.parentOf y) = a then b else uf.rep k (uf'.parentOf y))
        = if uf.rep k y = a then b else uf.rep k y
    rw [hpar]
    by_cases hay : a = y
    · subst hay
      rw [if_pos rfl, UF.rep_of_fix hb k, UF.rep_of_fix ha k, if_pos rfl,
        if_neg (fun e => hab e.symm)]
    · rw [if_neg hay, h.rep_parent y]
  · intro y hy
    show (if uf.rep k y = a then b else uf.rep k y) = y
    rw [hpar] at hy
    by_cases hay : a = y
    · subst hay
      rw [if_pos rfl] at hy
      exact absurd hy.symm hab
    · rw [if_neg hay] at hy
      rw [UF.rep_of_fix hy k, if_neg (fun e => hay e.symm)]

theorem UF.union_concl {uf uf' : UF} {k X Y A B : Nat} (_hXY : X ≠ Y)
    (hAB : (A = X ∧ B = Y) ∨ (A = Y ∧ B = X))
    (hrep : ∀ y, uf'.rep (k + 1) y = if uf.rep k y = A then B else uf.rep k y) (a b : Nat) :
    (uf'.rep (k + 1) a = uf'.rep (k + 1) b ↔
      (uf.rep k a = uf.rep k b ∨ (uf.rep k a = X ∧ uf.rep k b = Y) ∨
        (uf.rep k a = Y ∧ uf.rep k b = X))) := by
  rw [hrep, hrep]
  split <;> split <;> omega

theorem ufUnion_eq (fuel : Nat) (uf : UF) (x y : Nat) :
    ufUnion fuel uf x y =
      if (ufFind fuel uf x).1 = (ufFind fuel (ufFind fuel uf x).2 y).1 then
        ((ufFind fuel (ufFind fuel uf x).2 y).2, false)
      else if (ufFind fuel (ufFind fuel uf x).2 y).2.rankOf (ufFind fuel uf x).1
            < (ufFind fuel (ufFind fuel uf x).2 y).2.rankOf (ufFind fuel (ufFind fuel uf x).2 y).1 then
        ({ parent := ((ufFind fuel uf x).1, (ufFind fuel (ufFind fuel uf x).2 y).1)
                      :: (ufFind fuel (ufFind fuel uf x).2 y).2.parent,
           rank := (ufFind fuel (ufFind fuel uf x).2 y).2.rank }, true)
      else if (ufFind fuel (ufFind fuel uf x).2 y).2.rankOf (ufFind fuel uf x).1
            > (ufFind fuel (ufFind fuel uf x).2 y).2.rankOf (ufFind fuel (ufFind fuel uf x).2 y).1 then
        ({ parent := ((ufFind fuel (ufFind fuel uf x).2 y).1, (ufFind fuel uf x).1)
                      :: (ufFind fuel (ufFind fuel uf x).2 y).2.parent,
           rank := (ufFind fuel (ufFind fuel uf x).2 y).2.rank }, true)
      else
        ({ parent := ((ufFind fuel (ufFind fuel uf x).2 y).1, (ufFind fuel uf x).1)
                      :: (ufFind fuel (ufFind fuel uf x).2 y).2.parent,
           rank := ((ufFind fuel uf x).1,
                    (ufFind fuel (ufFind fuel uf x).2 y).2.rankOf (ufFind fuel uf x).1 + 1)
                      :: (ufFind fuel (ufFind fuel uf x).2 y).2.rank }, true) := by
  simp only [ufUnion, beq_iff_eq]

/-- after union the classes of `x` and `y` are merged and nothing else changes -/
theorem ufUnion_spec {uf : UF} {k fuel : Nat} (h : uf.Good k) (hf : k < fuel) (x y : Nat) :
    (ufUnion fuel uf x y).1.Good (k + 1) ∧
    ((ufUnion fuel uf x y).2 = true ↔ uf.rep k x ≠ uf.rep k y) ∧
    ∀ a b, ((ufUnion fuel uf x y).1.rep (k + 1) a = (ufUnion fuel uf x y).1.rep (k + 1) b ↔
      (uf.rep k a = uf.rep k b ∨ (uf.rep k a = uf.rep k x ∧ uf.rep k b = uf.rep k y) ∨
       (uf.rep k a = uf.rep k y ∧ uf.rep k b = uf.rep k x))) := by
  rw [ufUnion_eq]
  obtain ⟨ex, gx, rx⟩ := ufFind_spec h hf x
  obtain ⟨ey, gy, ry⟩ := ufFind_spec gx hf y
  rw [rx] at ey
  have r2 : ∀ z, (ufFind fuel (ufFind fuel uf x).2 y).2.rep k z = uf.rep k z :=
    fun z => (ry z).trans (rx z)
  rw [ex, ey]
  generalize (ufFind fuel (ufFind fuel uf x).2 y).2 = uf2 at gy r2 ⊢
  have hX : uf2.parentOf (uf.rep k x) = uf.rep k x := by
    rw [← r2 x]; exact gy.rep_fix x
  have hY : uf2.parentOf (uf.rep k y) = uf.rep k y := by
    rw [← r2 y]; exact gy.rep_fix y
  by_cases hXY : uf.rep k x = uf.rep k y
  · rw [if_pos hXY]
    refine ⟨UF.good_mono gy (by omega), ?_, fun a b => ?_⟩
    · simp [hXY]
    · show uf2.rep (k + 1) a = uf2.rep (k + 1) b ↔ _
      rw [UF.rep_mono (k' := k + 1) gy (by omega), UF.rep_mono (k' := k + 1) gy (by omega), r2, r2]
      omega
  · rw [if_neg hXY]
    by_cases hlt : uf2.rankOf (uf.rep k x) < uf2.rankOf (uf.rep k y)
    · rw [if_pos hlt]
      have hl := UF.link_spec gy hX hY hXY
        { parent := (uf.rep k x, uf.rep k y) :: uf2.parent, rank := uf2.rank }
        (fun z => UF.parentOf_cons uf2 _ _ _ z) (fun z _ => rfl) (Nat.le_refl _)
        (by have := gy.1 (uf.rep k y); show uf2.rankOf _ ≤ k + 1; omega) hlt
      refine ⟨hl.1, by simp [hXY], fun a b => ?_⟩
      exact UF.union_concl hXY (Or.inl ⟨rfl, rfl⟩)
        (fun z => by rw [hl.2 z, r2 z]) a b
    · rw [if_neg hlt]
      by_cases hgt : uf2.rankOf (uf.rep k x) > uf2.rankOf (uf.rep k y)
      · rw [if_pos hgt]
        have hl := UF.link_spec gy hY hX (fun e => hXY e.symm)
          { parent := (uf.rep k y, uf.rep k x) :: uf2.parent, rank := uf2.rank }
          (fun z => UF.parentOf_cons uf2 _ _ _ z) (fun z _ => rfl) (Nat.le_refl _)
          (by have := gy.1 (uf.rep k x); show uf2.rankOf _ ≤ k + 1; omega) hgt
        refine ⟨hl.1, by simp [hXY], fun a b => ?_⟩
        exact UF.union_concl hXY (Or.inr ⟨rfl, rfl⟩)
          (fun z => by rw [hl.2 z, r2 z]) a b
      · rw [if_neg hgt]
        have heq : uf2.rankOf (uf.rep k x) = uf2.rankOf (uf.rep k y) := by omega
        have hkx := gy.1 (uf.rep k x)
        have hl := UF.link_spec gy hY hX (fun e => hXY e.symm)
          { parent := (uf.rep k y, uf.rep k x) :: uf2.parent,
            rank := (uf.rep k x, uf2.rankOf (uf.rep k x) + 1) :: uf2.rank }
          (fun z => UF.parentOf_cons uf2 _ _ _ z)
          (fun z hz => by
            rw [UF.rankOf_cons, if_neg (fun e => hz e.symm)])
          (by rw [UF.rankOf_cons, if_pos rfl]; omega)
          (by rw [UF.rankOf_cons, if_pos rfl]; omega)
          (by rw [UF.rankOf_cons, if_pos rfl]; omega)
        refine ⟨hl.1, by simp [hXY], fun a b => ?_⟩
        exact UF.union_concl hXY (Or.inr ⟨rfl, rfl⟩)
          (fun z => by rw [hl.2 z, r2 z]) a b

/-! ### labels -/

theorem ufLabels_spec {uf : UF} {k fuel : Nat} (h : uf.Good k) (hf : k < fuel) (ns : List Nat) :
    ufLabels fuel ns uf = ns.map (fun n => (n, uf.rep k n)) := by
  induction ns generalizing uf with
  | nil => rfl
  | cons n ns ih =>
    obtain ⟨e1, g1, r1⟩ := ufFind_spec h hf n
    show (n, (ufFind fuel uf n).1) :: ufLabels fuel ns (ufFind fuel uf n).2 = _
    rw [ih g1, e1, List.map_cons]
    congr 1
    apply List.map_congr_left
    intro m _
    rw [r1]

theorem ufLabels_keys (fuel : Nat) (ns : List Nat) (uf : UF) :
    (ufLabels fuel ns uf).map (·.1) = ns := by
  induction ns generalizing uf with
  | nil => rfl
  | cons n ns ih =>
    show n :: (ufLabels fuel ns (ufFind fuel uf n).2).map (·.1) = _
    rw [ih]

/-! ### `Linked` is an equivalence relation -/

theorem linked_symm {g : Graph} {etype : Option Nat} {u v : Nat} (h : linked g etype u v) :
    linked g etype v u := by
  obtain ⟨e, he, ht, hs⟩ := h
  exact ⟨e, he, ht, hs.symm⟩

theorem Linked.single {g : Graph} {etype : Option Nat} {u v : Nat} (h : linked g etype u v) :
    Linked g etype u v := Linked.step h (Linked.refl v)

theorem Linked.trans {g : Graph} {etype : Option Nat} {u v w : Nat}
    (h1 : Linked g etype u v) (h2 : Linked g etype v w) : Linked g etype u w := by
  induction h1 with
  | refl _ => exact h2
  | step hl _ ih => exact Linked.step hl (ih h2)

theorem Linked.symm {g : Graph} {etype : Option Nat} {u v : Nat}
    (h : Linked g etype u v) : Linked g etype v u := by
  induction h with
  | refl _ => exact Linked.refl _
  | step hl _ ih => exact ih.trans (Linked.single (linked_symm hl))

/-- `Linked` only depends on the typed edges -/
theorem Linked.mono {g g' : Graph} {etype : Option Nat}
    (hsub : ∀ e, e ∈ g.edges → typeOk etype e = true → e ∈ g'.edges) {u v : Nat}
    (h : Linked g etype u v) : Linked g' etype u v := by
  induction h with
  | refl _ => exact Linked.refl _
  | step hl _ ih =>
    obtain ⟨e, he, ht, hs⟩ := hl
    exact Linked.step ⟨e, hsub e he ht, ht, hs⟩ ih

/-- the components generated by the typed edges of a list -/
abbrev LinkedBy (es : List Edge) (etype : Option Nat) (u v : Nat) : Prop :=
  Linked ({ nodes := [], edges := es } : Graph) etype u v

theorem linkedBy_iff (g : Graph) (etype : Option Nat) (u v : Nat) :
    LinkedBy g.edges etype u v ↔ Linked g etype u v :=
  ⟨fun h => Linked.mono (g := { nodes := [], edges := g.edges }) (g' := g) (fun _ he _ => he) h,
   fun h => Linked.mono (g := g) (g' := { nodes := [], edges := g.edges }) (fun _ he _ => he) h⟩

theorem linkedBy_nil {etype : Option Nat} {u v : Nat} (h : LinkedBy [] etype u v) : u = v := by
  cases h with
  | refl _ => rfl
  | step hl _ =>
    obtain ⟨e, he, _, _⟩ := hl
    exact absurd he (List.not_mem_nil)

/-- adding an edge of another type changes nothing -/
theorem linkedBy_snoc_skip {es : List Edge} {etype : Option Nat} {e : Edge}
    (ht : typeOk etype e ≠ true) (u v : Nat) :
    LinkedBy (es ++ [e]) etype u v ↔ LinkedBy es etype u v := by
  constructor
  · apply Linked.mono
    intro e' he' ht'
    rcases List.mem_append.1 he' with h | h
    · exact h
    · rw [List.mem_singleton] at h
      subst h
      exact absurd ht' ht
  · apply Linked.mono
    intro e' he' _
    exact List.mem_append.2 (Or.inl he')

/-- adding an edge of the requested type merges the classes of its two ends -/
theorem linkedBy_snoc_take {es : List Edge} {etype : Option Nat} {e : Edge}
    (ht : typeOk etype e = true) (u v : Nat) :
    LinkedBy (es ++ [e]) etype u v ↔
      (LinkedBy es etype u v ∨ (LinkedBy es etype u e.src ∧ LinkedBy es etype v e.dst) ∨
        (LinkedBy es etype u e.dst ∧ LinkedBy es etype v e.src)) := by
  have hmono : ∀ {a b : Nat}, LinkedBy es etype a b → LinkedBy (es ++ [e]) etype a b := by
    intro a b
    apply Linked.mono
    intro e' he' _
    exact List.mem_append.2 (Or.inl he')
  have hedge : LinkedBy (es ++ [e]) etype e.src e.dst :=
    Linked.single ⟨e, List.mem_append.2 (Or.inr (List.mem_singleton.2 rfl)), ht,
      Or.inl ⟨rfl, rfl⟩⟩
  constructor
  · intro h
    induction h with
    | refl a => exact Or.inl (Linked.refl a)
    | @step a c b hl _ ih =>
      obtain ⟨e', he', ht', hs⟩ := hl
      rcases List.mem_append.1 he' with hm | hm
      · have hac : LinkedBy es etype a c := Linked.single ⟨e', hm, ht', hs⟩
        rcases ih with h1 | ⟨h1, h2⟩ | ⟨h1, h2⟩
        · exact Or.inl (hac.trans h1)
        · exact Or.inr (Or.inl ⟨hac.trans h1, h2⟩)
        · exact Or.inr (Or.inr ⟨hac.trans h1, h2⟩)
      · rw [List.mem_singleton] at hm
        subst hm
        rcases hs with ⟨rfl, rfl⟩ | ⟨rfl, rfl⟩
        · -- a = src, c = dst
          rcases ih with h1 | ⟨h1, h2⟩ | ⟨_, h2⟩
          · exact Or.inr (Or.inl ⟨Linked.refl _, h1.symm⟩)
          · exact Or.inl (h1.symm.trans h2.symm)
          · exact Or.inl h2.symm
        · -- a = dst, c = src
          rcases ih with h1 | ⟨_, h2⟩ | ⟨h1, h2⟩
          · exact Or.inr (Or.inr ⟨Linked.refl _, h1.symm⟩)
          · exact Or.inl h2.symm
          · exact Or.inl (h1.symm.trans h2.symm)
  · rintro (h | ⟨h1, h2⟩ | ⟨h1, h2⟩)
    · exact hmono h
    · exact (hmono h1).trans (hedge.trans (hmono h2).symm)
    · exact (hmono h1).trans (hedge.symm.trans (hmono h2).symm)

/-! ### the unions of `connected_components` -/

/-- after the edges `es` have been processed: well-formed with rank bound `es.length`, and two
    keys have the same representative exactly if the typed edges of `es` join them -/
def CCInv (etype : Option Nat) (es : List Edge) (uf : UF) : Prop :=
  uf.Good es.length ∧
    ∀ a b, uf.rep es.length a = uf.rep es.length b ↔ LinkedBy es etype a b

theorem ccInv_new (etype : Option Nat) (nodes : List Nat) : CCInv etype [] (UF.new nodes) := by
  refine ⟨UF.new_good nodes, fun a b => ?_⟩
  show (UF.new nodes).rep 0 a = (UF.new nodes).rep 0 b ↔ _
  rw [UF.new_rep, UF.new_rep]
  exact ⟨fun e => e ▸ Linked.refl a, linkedBy_nil⟩

theorem ccInv_step {etype : Option Nat} {fuel : Nat} {es : List Edge} {uf : UF} (e : Edge)
    (h : CCInv etype es uf) (hf : es.length < fuel) :
    CCInv etype (es ++ [e])
      (if typeOk etype e = true then (ufUnion fuel uf e.src e.dst).1 else uf) := by
  obtain ⟨hg, hrep⟩ := h
  have hlen : (es ++ [e]).length = es.length + 1 := by simp
  unfold CCInv
  rw [hlen]
  by_cases ht : typeOk etype e = true
  · rw [if_pos ht]
    obtain ⟨g', _, r'⟩ := ufUnion_spec hg hf e.src e.dst
    refine ⟨g', fun a b => ?_⟩
    rw [r' a b, linkedBy_snoc_take ht, hrep, hrep, hrep, hrep, hrep]
  · rw [if_neg ht]
    refine ⟨UF.good_mono hg (by omega), fun a b => ?_⟩
    rw [UF.rep_mono (k' := es.length + 1) hg (by omega),
      UF.rep_mono (k' := es.length + 1) hg (by omega), hrep, linkedBy_snoc_skip ht]

theorem ccUnions_cons (fuel : Nat) (etype : Option Nat) (e : Edge) (es : List Edge) (uf : UF) :
    ccUnions fuel etype (e :: es) uf =
      ccUnions fuel etype es
        (if typeOk etype e = true then (ufUnion fuel uf e.src e.dst).1 else uf) := by
  rw [ccUnions]
  split <;> rfl

theorem ccUnions_inv {etype : Option Nat} {fuel : Nat} :
    ∀ (es₂ es₁ : List Edge) (uf : UF), CCInv etype es₁ uf → es₁.length + es₂.length ≤ fuel →
      CCInv etype (es₁ ++ es₂) (ccUnions fuel etype es₂ uf) := by
  intro es₂
  induction es₂ with
  | nil =>
    intro es₁ uf h _
    rw [List.append_nil]
    exact h
  | cons e es ih =>
    intro es₁ uf h hf
    rw [List.length_cons] at hf
    rw [ccUnions_cons]
    have h' := ccInv_step (fuel := fuel) e h (by omega)
    have := ih (es₁ ++ [e]) _ h' (by simp; omega)
    rw [List.append_assoc] at this
    exact this

/-! ### connected components -/

theorem components_inv (g : Graph) (etype : Option Nat) :
    CCInv etype g.edges
      (ccUnions (ufFuel g) etype g.edges (UF.new (g.nodes.map (·.id)))) := by
  have := ccUnions_inv (etype := etype) (fuel := ufFuel g) g.edges [] _
    (ccInv_new etype (g.nodes.map (·.id))) (by unfold ufFuel; simp)
  rw [List.nil_append] at this
  exact this

theorem components_eq (g : Graph) (etype : Option Nat) :
    connectedComponents g etype =
      (g.nodes.map (·.id)).map (fun n =>
        (n, (ccUnions (ufFuel g) etype g.edges (UF.new (g.nodes.map (·.id)))).rep
              g.edges.length n)) := by
  unfold connectedComponents
  exact ufLabels_spec (components_inv g etype).1 (by unfold ufFuel; omega) _

theorem components_keys (g : Graph) (etype : Option Nat) :
    (connectedComponents g etype).map (·.1) = g.nodes.map (·.id) := by
  unfold connectedComponents
  exact ufLabels_keys _ _ _

theorem components_mem {g : Graph} {etype : Option Nat} {u l : Nat}
    (hu : (u, l) ∈ connectedComponents g etype) :
    l = (ccUnions (ufFuel g) etype g.edges (UF.new (g.nodes.map (·.id)))).rep
          g.edges.length u := by
  rw [components_eq, List.mem_map] at hu
  obtain ⟨n, _, hn⟩ := hu
  cases hn
  rfl

theorem components_exact (g : Graph) (etype : Option Nat) (u v lu lv : Nat)
    (hu : (u, lu) ∈ connectedComponents g etype) (hv : (v, lv) ∈ connectedComponents g etype) :
    lu = lv ↔ Linked g etype u v := by
  rw [components_mem hu, components_mem hv, (components_inv g etype).2, linkedBy_iff]

/-- the label is itself a member of the component -/
theorem components_label_linked (g : Graph) (etype : Option Nat) (u l : Nat)
    (hu : (u, l) ∈ connectedComponents g etype) : Linked g etype u l := by
  rw [components_mem hu, ← linkedBy_iff, ← (components_inv g etype).2]
  exact (UF.rep_idem (components_inv g etype).1 u).symm

/-! ### a concrete graph: nodes 1..5, edges 1-2, 2-3 of type 0 and 4-5 of type 1 -/

def ufExampleGraph : Graph :=
  { nodes := [⟨1, none⟩, ⟨2, none⟩, ⟨3, none⟩, ⟨4, none⟩, ⟨5, none⟩],
    edges := [⟨1, 1, 2, false, 0, none, none⟩, ⟨2, 2, 3, false, 0, none, none⟩,
              ⟨3, 4, 5, false, 1, none, none⟩] }

example : connectedComponents ufExampleGraph none = [(1, 1), (2, 1), (3, 1), (4, 4), (5, 4)] := by
  decide

example : connectedComponents ufExampleGraph (some 0)
    = [(1, 1), (2, 1), (3, 1), (4, 4), (5, 5)] := by decide

example : connectedComponents ufExampleGraph (some 1)
    = [(1, 1), (2, 2), (3, 3), (4, 4), (5, 4)] := by decide

example : ((connectedComponents ufExampleGraph none).map (·.2)).eraseDups.length = 2 := by decide

example : ((connectedComponents ufExampleGraph (some 0)).map (·.2)).eraseDups.length = 3 := by
  decide

end Neumann.Paths
