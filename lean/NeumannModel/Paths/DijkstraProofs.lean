import NeumannModel.Paths.Spec
/-
  C18 — proofs about the model of `find_weighted_path` (Dijkstra) for every graph.
-/
namespace Neumann.Paths

/-! ### lookups on association lists -/

theorem lookupDist_cons (k : Nat) (c : Int) (D : DistMap) (v : Nat) :
    lookupDist ((k, c) :: D) v = if k = v then some c else lookupDist D v := by
  unfold lookupDist
  by_cases h : k = v
  · simp [h]
  · simp [h]

theorem lookupParent_cons (k p eid : Nat) (P : ParentMap) (v : Nat) :
    lookupParent ((k, p, eid) :: P) v = if k = v then some (p, eid) else lookupParent P v := by
  unfold lookupParent
  by_cases h : k = v
  · simp [h]
  · simp [h]

theorem lookupDist_mem_keys {D : DistMap} {v : Nat} {c : Int} (h : lookupDist D v = some c) :
    v ∈ D.map Prod.fst := by
  induction D with
  | nil => simp [lookupDist] at h
  | cons a D ih =>
    obtain ⟨k, c'⟩ := a
    rw [lookupDist_cons] at h
    by_cases hk : k = v
    · simp [hk]
    · simp only [hk, if_false] at h
      simp [ih h]

/-! ### candidates of one expansion are exactly the usable edges -/

theorem mem_dijCands {g : Graph} {u v : Nat} {e : Edge} (h : (v, e) ∈ dijCands g u) :
    e ∈ g.edges ∧ e.joins u v := by
  unfold dijCands outEdges inEdges inOut inIn at h
  unfold Edge.joins
  simp only [List.mem_append, List.mem_filterMap, List.mem_filter] at h
  rcases h with ⟨a, ⟨ha, _⟩, h⟩ | ⟨a, ⟨ha, _⟩, h⟩
  · split at h
    · simp at h; grind
    · split at h
      · simp at h; grind
      · simp at h
  · split at h
    · simp at h
    · split at h
      · simp at h; grind
      · simp at h

theorem dijCands_complete {g : Graph} {u v : Nat} {e : Edge} (he : e ∈ g.edges) (hj : e.joins u v) :
    (v, e) ∈ dijCands g u := by
  unfold dijCands outEdges inEdges inOut inIn
  unfold Edge.joins at hj
  simp only [List.mem_append, List.mem_filterMap, List.mem_filter]
  left
  refine ⟨e, ⟨he, ?_⟩, ?_⟩
  · rcases hj with ⟨h1, _⟩ | ⟨h1, h2, _⟩
    · simp [h1]
    · simp [h1, h2]
  · rcases hj with ⟨h1, h2⟩ | ⟨h1, h2, h3⟩
    · simp [h1, h2]
    · by_cases hs : e.src = u
      · simp [hs]; omega
      · simp [h1, h2, h3]
        intro h; exact h.symm

theorem dijCands_length_le (g : Graph) (u : Nat) : (dijCands g u).length ≤ 2 * g.edges.length := by
  unfold dijCands outEdges inEdges
  rw [List.length_append]
  have h1 := List.length_filterMap_le (fun e : Edge =>
    if e.src == u then some (e.dst, e)
    else if !e.directed && e.dst == u then some (e.src, e)
    else none) (g.edges.filter (inOut · u))
  have h2 := List.length_filterMap_le (fun e : Edge =>
    if e.directed then none
    else if e.dst == u then some (e.src, e)
    else none) (g.edges.filter (inIn · u))
  have h3 := List.length_filter_le (inOut · u) g.edges
  have h4 := List.length_filter_le (inIn · u) g.edges
  omega

/-! ### the heap -/

theorem entryBefore_le {a b : Int × Nat} (h : entryBefore a b = true) : a.1 ≤ b.1 := by
  unfold entryBefore at h
  simp only [Bool.or_eq_true, Bool.and_eq_true, decide_eq_true_eq, beq_iff_eq] at h
  omega

theorem not_entryBefore_le {a b : Int × Nat} (h : ¬ entryBefore a b = true) : b.1 ≤ a.1 := by
  unfold entryBefore at h
  simp only [Bool.or_eq_true, Bool.and_eq_true, decide_eq_true_eq, beq_iff_eq] at h
  omega

theorem bestOf_spec (b : Int × Nat) (xs : List (Int × Nat)) :
    bestOf b xs ∈ b :: xs ∧ ∀ x, x ∈ b :: xs → (bestOf b xs).1 ≤ x.1 := by
  induction xs generalizing b with
  | nil => simp [bestOf]
  | cons y ys ih =>
    rw [bestOf]
    by_cases hb : entryBefore y b = true
    · rw [if_pos hb]
      obtain ⟨h1, h2⟩ := ih y
      refine ⟨by simp only [List.mem_cons] at h1 ⊢; grind, ?_⟩
      intro x hx
      have hyb := entryBefore_le hb
      have hy := h2 y (by simp)
      simp only [List.mem_cons] at hx
      rcases hx with rfl | rfl | hx
      · omega
      · exact hy
      · exact h2 x (by simp [hx])
    · rw [if_neg hb]
      obtain ⟨h1, h2⟩ := ih b
      refine ⟨by simp only [List.mem_cons] at h1 ⊢; grind, ?_⟩
      intro x hx
      have hyb := not_entryBefore_le hb
      have hbb := h2 b (by simp)
      simp only [List.mem_cons] at hx
      rcases hx with rfl | rfl | hx
      · exact hbb
      · omega
      · exact h2 x (by simp [hx])

theorem popMin_spec {h h' : List (Int × Nat)} {b : Int × Nat} (hp : popMin h = some (b, h')) :
    b ∈ h ∧ h' = h.erase b ∧ ∀ x, x ∈ h → b.1 ≤ x.1 := by
  cases h with
  | nil => simp [popMin] at hp
  | cons x xs =>
    simp only [popMin, Option.some.injEq, Prod.mk.injEq] at hp
    obtain ⟨rfl, rfl⟩ := hp
    exact ⟨(bestOf_spec x xs).1, rfl, (bestOf_spec x xs).2⟩

theorem popMin_none {h : List (Int × Nat)} (hp : popMin h = none) : h = [] := by
  cases h with
  | nil => rfl
  | cons x xs => simp [popMin] at hp

/-! ### weights -/

theorem edgeWeight_ok {e : Edge} (h : 0 ≤ e.w) : edgeWeight e = .ok e.w := by
  unfold edgeWeight
  unfold Edge.w at h ⊢
  cases hw : e.weight with
  | none => rfl
  | some w =>
    simp only [hw] at h ⊢
    have : ¬ w < 0 := by omega
    simp [this]

theorem edgeWeight_error {e : Edge} {id : Nat} (h : edgeWeight e = .error id) : e.id = id ∧ e.w < 0 := by
  unfold edgeWeight at h
  unfold Edge.w
  cases hw : e.weight with
  | none => simp [hw] at h
  | some w =>
    simp only [hw] at h ⊢
    by_cases hlt : w < 0
    · simp only [hlt, if_true, Except.error.injEq] at h
      exact ⟨h, hlt⟩
    · simp [hlt] at h

/-! ### negative weights are reported faithfully (no hypothesis on the graph) -/

theorem dijRelax_error {cur : Nat} {cost : Int} {id : Nat} :
    ∀ (cs : List (Nat × Edge)) (st : DijSt), dijRelax cur cost cs st = .error id →
      ∃ v e, (v, e) ∈ cs ∧ e.id = id ∧ e.w < 0 := by
  intro cs
  induction cs with
  | nil => intro st h; simp [dijRelax] at h
  | cons a rest ih =>
    intro st h
    obtain ⟨nb, e⟩ := a
    rw [dijRelax] at h
    cases hw : edgeWeight e with
    | error id' =>
      simp only [hw, Except.error.injEq] at h
      subst h
      exact ⟨nb, e, by simp, edgeWeight_error hw⟩
    | ok w =>
      simp only [hw] at h
      split at h
      · obtain ⟨v, e', hm, h2⟩ := ih _ h
        exact ⟨v, e', by simp [hm], h2⟩
      · obtain ⟨v, e', hm, h2⟩ := ih _ h
        exact ⟨v, e', by simp [hm], h2⟩

theorem dijLoop_error {g : Graph} {t : Nat} {id : Nat} :
    ∀ (fuel : Nat) (st : DijSt), dijLoop g t fuel st = .error id →
      ∃ e, e ∈ g.edges ∧ e.id = id ∧ e.w < 0 := by
  intro fuel
  induction fuel with
  | zero => intro st h; simp [dijLoop] at h
  | succ n ih =>
    intro st h
    rw [dijLoop] at h
    split at h
    · simp at h
    · rename_i cost u heap' _
      split at h
      · simp at h
      · split at h
        · exact ih _ h
        · split at h
          · rename_i id' hr
            simp only [Except.error.injEq] at h
            subst h
            obtain ⟨v, e, hm, h2⟩ := dijRelax_error _ _ hr
            exact ⟨e, (mem_dijCands hm).1, h2⟩
          · exact ih _ h

theorem dijkstra_negative_reported (g : Graph) (s t : Nat) (id : Nat)
    (h : findWeightedPath g s t = .error (.negativeWeight id)) :
    ∃ e, e ∈ g.edges ∧ e.id = id ∧ e.w < 0 := by
  unfold findWeightedPath at h
  split at h
  · simp at h
  · split at h
    · simp at h
    · split at h
      · simp at h
      · split at h
        · rename_i id' hl
          simp only [Except.error.injEq, QErr.negativeWeight.injEq] at h
          subst h
          exact dijLoop_error _ _ hl
        · simp at h
        · simp at h

/-! ### walks -/

theorem WWalk.snoc {g : Graph} {a b d : Nat} {c : Int} {e : Edge}
    (h : WWalk g a b c) (hs : WStep g b d e) : WWalk g a d (c + e.w) := by
  induction h with
  | nil u =>
    have := WWalk.cons e hs (WWalk.nil d)
    have heq : (0 : Int) + e.w = e.w + 0 := by omega
    rw [heq]; exact this
  | @cons u v w c' e' hs' _ ih =>
    have := WWalk.cons e' hs' (ih hs)
    have heq : e'.w + c' + e.w = e'.w + (c' + e.w) := by omega
    rw [heq]; exact this

theorem WWalk.nonneg {g : Graph} (hnn : NonNeg g) {a b : Nat} {c : Int} (h : WWalk g a b c) : 0 ≤ c := by
  induction h with
  | nil u => omega
  | cons e hs _ ih =>
    have := hnn e hs.1
    omega

/-- nodes a walk from `a` can end in -/
def walkNodes (g : Graph) (a : Nat) : List Nat := a :: g.edges.flatMap (fun e => [e.src, e.dst])

theorem walkNodes_length (g : Graph) (a : Nat) : (walkNodes g a).length = 2 * g.edges.length + 1 := by
  unfold walkNodes
  have : ∀ es : List Edge, (es.flatMap (fun e => [e.src, e.dst])).length = 2 * es.length := by
    intro es
    induction es with
    | nil => rfl
    | cons e es ih => simp only [List.flatMap_cons, List.length_append, List.length_cons, List.length_nil, ih]; omega
  simp only [List.length_cons, this]

theorem WWalk.mem_walkNodes {g : Graph} {a b : Nat} {c : Int} (h : WWalk g a b c) : b ∈ walkNodes g a := by
  have key : ∀ x y : Nat, ∀ c : Int, WWalk g x y c → y = x ∨ y ∈ g.edges.flatMap (fun e => [e.src, e.dst]) := by
    intro x y c h
    induction h with
    | nil u => left; rfl
    | cons e hs hw ih =>
      rename_i u v w c
      rcases ih with rfl | ih
      · right
        simp only [List.mem_flatMap]
        refine ⟨e, hs.1, ?_⟩
        have := hs.2
        unfold Edge.joins at this
        simp only [List.mem_cons]
        grind
      · right; exact ih
  unfold walkNodes
  rcases key a b c h with rfl | h
  · simp
  · simp [h]

/-! ### pigeonhole on lists -/

theorem nodup_subset_length {S L : List Nat} (hn : S.Nodup) (hs : ∀ x, x ∈ S → x ∈ L) :
    S.length ≤ L.length := by
  induction S generalizing L with
  | nil => simp
  | cons a S ih =>
    have ha : a ∈ L := hs a (by simp)
    rw [List.nodup_cons] at hn
    have hsub : ∀ x, x ∈ S → x ∈ L.erase a := by
      intro x hx
      have hne : x ≠ a := by intro h; subst h; exact hn.1 hx
      exact (List.mem_erase_of_ne hne).2 (hs x (by simp [hx]))
    have := ih hn.2 hsub
    have hl := List.length_erase_of_mem ha
    have hpos : 0 < L.length := List.length_pos_of_mem ha
    simp only [List.length_cons]
    omega

/-! ### settle order -/

/-- position from the end of the settle list (newest first): `0` = absent -/
def rank : List Nat → Nat → Nat
  | [], _ => 0
  | x :: xs, v => if x = v then xs.length + 1 else rank xs v

theorem rank_le (S : List Nat) (v : Nat) : rank S v ≤ S.length := by
  induction S with
  | nil => simp [rank]
  | cons x xs ih =>
    simp only [rank, List.length_cons]
    split <;> omega

theorem rank_pos {S : List Nat} {v : Nat} (h : v ∈ S) : 1 ≤ rank S v := by
  induction S with
  | nil => simp at h
  | cons x xs ih =>
    simp only [rank]
    split
    · omega
    · rename_i hne
      simp only [List.mem_cons] at h
      rcases h with rfl | h
      · exact absurd rfl hne
      · exact ih h

theorem rank_cons_ne {u v : Nat} (S : List Nat) (h : u ≠ v) : rank (u :: S) v = rank S v := by
  simp [rank, h]

theorem rank_cons_self (u : Nat) (S : List Nat) : rank (u :: S) u = S.length + 1 := by
  simp [rank]

/-! ### the invariant -/

/-- `S`: nodes already expanded (newest first).  `u`, `pend`: the node being expanded and the
    candidates not yet relaxed (`pend = []` between expansions). -/
structure Inv (g : Graph) (s : Nat) (S : List Nat) (u : Nat) (pend : List (Nat × Edge)) (st : DijSt) : Prop where
  src0 : lookupDist st.dist s = some 0
  sound : ∀ v c, lookupDist st.dist v = some c → WWalk g s v c
  heapUp : ∀ c v, (c, v) ∈ st.heap → ∃ c', lookupDist st.dist v = some c' ∧ c' ≤ c
  heapLive : ∀ v c, lookupDist st.dist v = some c → v ∉ S → (c, v) ∈ st.heap
  settled : ∀ x, x ∈ S → ∃ cx, lookupDist st.dist x = some cx ∧ ∀ c v, (c, v) ∈ st.heap → cx ≤ c
  closed : ∀ x, x ∈ S → ∀ v e, e ∈ g.edges → e.joins x v →
    (x = u ∧ (v, e) ∈ pend) ∨
    ∃ cx cv, lookupDist st.dist x = some cx ∧ lookupDist st.dist v = some cv ∧ cv ≤ cx + e.w
  par : ∀ v c, lookupDist st.dist v = some c → v ≠ s →
    ∃ p eid e cp, lookupParent st.parent v = some (p, eid) ∧ e ∈ g.edges ∧ e.id = eid ∧ e.joins p v ∧
      lookupDist st.dist p = some cp ∧ c = cp + e.w ∧ p ∈ S ∧ (v ∈ S → rank S p < rank S v)
  nodup : S.Nodup
  len : st.parent.length + 1 = st.dist.length

theorem inv_init (g : Graph) (s u : Nat) :
    Inv g s [] u [] { dist := [(s, 0)], parent := [], heap := [(0, s)] } := by
  refine ⟨?_, ?_, ?_, ?_, ?_, ?_, ?_, ?_, ?_⟩
  · simp [lookupDist_cons]
  · intro v c h
    rw [lookupDist_cons] at h
    by_cases hv : s = v
    · subst hv
      simp only [if_true, Option.some.injEq] at h
      subst h; exact WWalk.nil s
    · simp [hv, lookupDist] at h
  · intro c v h
    simp only [List.mem_cons, List.not_mem_nil, or_false, Prod.mk.injEq] at h
    obtain ⟨rfl, rfl⟩ := h
    exact ⟨0, by simp [lookupDist_cons], by omega⟩
  · intro v c h _
    rw [lookupDist_cons] at h
    by_cases hv : s = v
    · subst hv
      simp only [if_true, Option.some.injEq] at h
      subst h; simp
    · simp [hv, lookupDist] at h
  · intro x hx; simp at hx
  · intro x hx; simp at hx
  · intro v c h hne
    rw [lookupDist_cons] at h
    by_cases hv : s = v
    · exact absurd hv.symm hne
    · simp [hv, lookupDist] at h
  · simp
  · simp

/-! ### one relaxation pass -/

theorem dijRelax_inv {g : Graph} (hnn : NonNeg g) {s : Nat} {S : List Nat} {u : Nat} {c : Int} (hu : u ∈ S) :
    ∀ (pend : List (Nat × Edge)) (st : DijSt),
      Inv g s S u pend st →
      lookupDist st.dist u = some c →
      (∀ x cx, x ∈ S → lookupDist st.dist x = some cx → cx ≤ c) →
      (∀ v e, (v, e) ∈ pend → e ∈ g.edges ∧ e.joins u v) →
      ∃ st', dijRelax u c pend st = .ok st' ∧ Inv g s S u [] st' ∧
        st'.heap.length ≤ st.heap.length + pend.length := by
  intro pend
  induction pend with
  | nil =>
    intro st hinv _ _ _
    exact ⟨st, by simp [dijRelax], hinv, by simp⟩
  | cons a rest ih =>
    intro st hinv hdu hbound hpend
    obtain ⟨nb, e⟩ := a
    obtain ⟨heE, hjoin⟩ := hpend nb e (by simp)
    have hw0 : 0 ≤ e.w := hnn e heE
    have hc0 : 0 ≤ c := (hinv.sound u c hdu).nonneg hnn
    have hrest : ∀ v e, (v, e) ∈ rest → e ∈ g.edges ∧ e.joins u v :=
      fun v e h => hpend v e (by simp [h])
    rw [dijRelax, edgeWeight_ok hw0]
    simp only
    by_cases himp : improves (c + e.w) (lookupDist st.dist nb) = true
    · rw [if_pos himp]
      -- the improved node is not settled, is not `u`, is not `s`
      have hnbS : nb ∉ S := by
        intro hmem
        obtain ⟨cx, hcx, _⟩ := hinv.settled nb hmem
        have := hbound nb cx hmem hcx
        rw [hcx] at himp
        simp only [improves, decide_eq_true_eq] at himp
        omega
      have hnbu : nb ≠ u := fun h => hnbS (h ▸ hu)
      have hnbs : nb ≠ s := by
        intro h
        rw [h, hinv.src0] at himp
        simp only [improves, decide_eq_true_eq] at himp
        omega
      have hold : ∀ cv, lookupDist st.dist nb = some cv → c + e.w < cv := by
        intro cv h
        rw [h] at himp
        simpa [improves] using himp
      have hkeep : ∀ x, x ∈ S → nb ≠ x := fun x hx h => hnbS (h ▸ hx)
      obtain ⟨st', h1, h2, h3⟩ := ih
        { dist := (nb, c + e.w) :: st.dist, parent := (nb, u, e.id) :: st.parent,
          heap := (c + e.w, nb) :: st.heap }
        (by
          refine ⟨?_, ?_, ?_, ?_, ?_, ?_, ?_, hinv.nodup, ?_⟩
          · simp only [lookupDist_cons, if_neg hnbs]; exact hinv.src0
          · intro v cv h
            simp only [lookupDist_cons] at h
            by_cases hv : nb = v
            · subst hv
              simp only [if_true, Option.some.injEq] at h
              subst h
              exact (hinv.sound u c hdu).snoc ⟨heE, hjoin⟩
            · rw [if_neg hv] at h; exact hinv.sound v cv h
          · intro c' v h
            simp only [List.mem_cons, Prod.mk.injEq] at h
            simp only [lookupDist_cons]
            by_cases hv : nb = v
            · subst hv
              simp only [if_true]
              refine ⟨c + e.w, rfl, ?_⟩
              rcases h with ⟨rfl, _⟩ | h
              · omega
              · obtain ⟨c'', h1, h2⟩ := hinv.heapUp c' nb h
                have := hold c'' h1
                omega
            · rw [if_neg hv]
              rcases h with ⟨_, rfl⟩ | h
              · exact absurd rfl hv
              · exact hinv.heapUp c' v h
          · intro v cv h hvS
            simp only [lookupDist_cons] at h
            simp only [List.mem_cons, Prod.mk.injEq]
            by_cases hv : nb = v
            · subst hv
              simp only [if_true, Option.some.injEq] at h
              left; exact ⟨h.symm, rfl⟩
            · rw [if_neg hv] at h
              right; exact hinv.heapLive v cv h hvS
          · intro x hx
            obtain ⟨cx, hcx, hle⟩ := hinv.settled x hx
            refine ⟨cx, by simp only [lookupDist_cons, if_neg (hkeep x hx)]; exact hcx, ?_⟩
            intro c' v h
            simp only [List.mem_cons, Prod.mk.injEq] at h
            rcases h with ⟨rfl, _⟩ | h
            · have := hbound x cx hx hcx; omega
            · exact hle c' v h
          · intro x hx v e' he' hj'
            simp only [lookupDist_cons, if_neg (hkeep x hx)]
            rcases hinv.closed x hx v e' he' hj' with ⟨hxu, hm⟩ | ⟨cx, cv, h1, h2, h3⟩
            · simp only [List.mem_cons, Prod.mk.injEq] at hm
              rcases hm with ⟨rfl, rfl⟩ | hm
              · right
                subst hxu
                exact ⟨c, c + e'.w, hdu, by simp, by omega⟩
              · left; exact ⟨hxu, hm⟩
            · right
              by_cases hv : nb = v
              · subst hv
                have := hold cv h2
                exact ⟨cx, c + e.w, h1, by simp, by omega⟩
              · exact ⟨cx, cv, h1, by rw [if_neg hv]; exact h2, h3⟩
          · intro v cv h hvs
            simp only [lookupDist_cons] at h
            simp only [lookupDist_cons, lookupParent_cons]
            by_cases hv : nb = v
            · subst hv
              simp only [if_true, Option.some.injEq] at h
              refine ⟨u, e.id, e, c, if_pos rfl, heE, rfl, hjoin, ?_, h.symm, hu, fun h => absurd h hnbS⟩
              rw [if_neg hnbu]; exact hdu
            · rw [if_neg hv] at h
              obtain ⟨p, eid, e', cp, h1, h2, h3, h4, h5, h6, h7, h8⟩ := hinv.par v cv h hvs
              refine ⟨p, eid, e', cp, by rw [if_neg hv]; exact h1, h2, h3, h4, ?_, h6, h7, h8⟩
              rw [if_neg (hkeep p h7)]; exact h5
          · simp only [List.length_cons]; have := hinv.len; omega)
        (by simp only [lookupDist_cons, if_neg hnbu]; exact hdu)
        (by
          intro x cx hx h
          simp only [lookupDist_cons, if_neg (hkeep x hx)] at h
          exact hbound x cx hx h)
        hrest
      refine ⟨st', h1, h2, ?_⟩
      simp only [List.length_cons] at h3 ⊢
      omega
    · rw [if_neg himp]
      obtain ⟨st', h1, h2, h3⟩ := ih st
        (by
          refine ⟨hinv.src0, hinv.sound, hinv.heapUp, hinv.heapLive, hinv.settled, ?_, hinv.par,
            hinv.nodup, hinv.len⟩
          intro x hx v e' he' hj'
          rcases hinv.closed x hx v e' he' hj' with ⟨hxu, hm⟩ | h
          · simp only [List.mem_cons, Prod.mk.injEq] at hm
            rcases hm with ⟨rfl, rfl⟩ | hm
            · right
              subst hxu
              cases hd : lookupDist st.dist v with
              | none => rw [hd] at himp; simp [improves] at himp
              | some cv =>
                rw [hd] at himp
                simp only [improves, decide_eq_true_eq] at himp
                exact ⟨c, cv, hdu, rfl, by omega⟩
            · left; exact ⟨hxu, hm⟩
          · right; exact h)
        hdu hbound hrest
      refine ⟨st', h1, h2, ?_⟩
      simp only [List.length_cons]
      omega

theorem dijRelax_noop {u : Nat} {c : Int} :
    ∀ (pend : List (Nat × Edge)) (st : DijSt),
      (∀ v e, (v, e) ∈ pend → edgeWeight e = .ok e.w ∧ improves (c + e.w) (lookupDist st.dist v) = false) →
      dijRelax u c pend st = .ok st := by
  intro pend
  induction pend with
  | nil => intro st _; simp [dijRelax]
  | cons a rest ih =>
    intro st h
    obtain ⟨nb, e⟩ := a
    obtain ⟨h1, h2⟩ := h nb e (by simp)
    rw [dijRelax, h1]
    simp only [h2]
    exact ih st (fun v e' hm => h v e' (by simp [hm]))

/-! ### steps of the main loop -/

theorem inv_erase {g : Graph} {s : Nat} {S : List Nat} {u : Nat} {pend : List (Nat × Edge)} {st : DijSt}
    (x : Int × Nat) (hinv : Inv g s S u pend st)
    (hx : ∀ v cv, lookupDist st.dist v = some cv → v ∉ S → (cv, v) ≠ x) :
    Inv g s S u pend { dist := st.dist, parent := st.parent, heap := st.heap.erase x } := by
  refine ⟨hinv.src0, hinv.sound, ?_, ?_, ?_, hinv.closed, hinv.par, hinv.nodup, hinv.len⟩
  · intro c v h
    exact hinv.heapUp c v (List.mem_of_mem_erase h)
  · intro v cv h hvS
    exact (List.mem_erase_of_ne (hx v cv h hvS)).2 (hinv.heapLive v cv h hvS)
  · intro y hy
    obtain ⟨cy, h1, h2⟩ := hinv.settled y hy
    exact ⟨cy, h1, fun c v h => h2 c v (List.mem_of_mem_erase h)⟩

theorem inv_settle {g : Graph} {s : Nat} {S : List Nat} {u0 : Nat} {st : DijSt} {u : Nat} {c : Int}
    (hinv : Inv g s S u0 [] st) (huS : u ∉ S) (hdu : lookupDist st.dist u = some c)
    (hmin : ∀ c' v, (c', v) ∈ st.heap → c ≤ c') :
    Inv g s (u :: S) u (dijCands g u) st := by
  refine ⟨hinv.src0, hinv.sound, hinv.heapUp, ?_, ?_, ?_, ?_, ?_, hinv.len⟩
  · intro v cv h hv
    exact hinv.heapLive v cv h (fun hm => hv (by simp [hm]))
  · intro x hx
    simp only [List.mem_cons] at hx
    rcases hx with rfl | hx
    · exact ⟨c, hdu, hmin⟩
    · exact hinv.settled x hx
  · intro x hx v e he hj
    simp only [List.mem_cons] at hx
    rcases hx with rfl | hx
    · left; exact ⟨rfl, dijCands_complete he hj⟩
    · rcases hinv.closed x hx v e he hj with ⟨_, hm⟩ | h
      · simp at hm
      · right; exact h
  · intro v cv h hvs
    obtain ⟨p, eid, e, cp, h1, h2, h3, h4, h5, h6, h7, h8⟩ := hinv.par v cv h hvs
    refine ⟨p, eid, e, cp, h1, h2, h3, h4, h5, h6, by simp [h7], ?_⟩
    intro hv
    have hpu : u ≠ p := fun h => huS (h ▸ h7)
    rw [rank_cons_ne S hpu]
    simp only [List.mem_cons] at hv
    rcases hv with rfl | hv
    · rw [rank_cons_self]
      have := rank_le S p
      omega
    · have hvu : u ≠ v := fun h => huS (h ▸ hv)
      rw [rank_cons_ne S hvu]
      exact h8 hv
  · exact List.nodup_cons.2 ⟨huS, hinv.nodup⟩

/-! ### what the invariant says about arbitrary walks -/

theorem walk_bound {g : Graph} (hnn : NonNeg g) {s : Nat} {S : List Nat} {u0 : Nat} {st : DijSt}
    (hinv : Inv g s S u0 [] st) (m : Int) (hm : ∀ c v, (c, v) ∈ st.heap → m ≤ c) :
    ∀ x v w, WWalk g x v w → x ∈ S → ∀ cx, lookupDist st.dist x = some cx →
      (∃ cv, lookupDist st.dist v = some cv ∧ cv ≤ cx + w) ∨ m ≤ cx + w := by
  intro x v w hw
  induction hw with
  | nil a =>
    intro _ cx hcx
    left; exact ⟨cx, hcx, by omega⟩
  | @cons a b d c' e hs hw' ih =>
    intro haS cx hcx
    have hc' : 0 ≤ c' := hw'.nonneg hnn
    rcases hinv.closed a haS b e hs.1 hs.2 with ⟨_, hmem⟩ | ⟨cx', cb, h1, h2, h3⟩
    · simp at hmem
    · rw [hcx] at h1
      simp only [Option.some.injEq] at h1
      subst h1
      by_cases hbS : b ∈ S
      · rcases ih hbS cb h2 with ⟨cv, h4, h5⟩ | h4
        · left; exact ⟨cv, h4, by omega⟩
        · right; omega
      · right
        have := hm cb b (hinv.heapLive b cb h2 hbS)
        omega

theorem final_dist {g : Graph} {s : Nat} {S : List Nat} {u0 : Nat} {st : DijSt} {t : Nat} {c : Int}
    (hinv : Inv g s S u0 [] st) (htS : t ∉ S) (hmem : (c, t) ∈ st.heap)
    (hmin : ∀ c' v, (c', v) ∈ st.heap → c ≤ c') : lookupDist st.dist t = some c := by
  obtain ⟨ct, h1, h2⟩ := hinv.heapUp c t hmem
  have := hmin ct t (hinv.heapLive t ct h1 htS)
  have : ct = c := by omega
  rw [h1, this]

theorem final_opt {g : Graph} (hnn : NonNeg g) {s : Nat} {S : List Nat} {u0 : Nat} {st : DijSt} {t : Nat}
    {c : Int} (hinv : Inv g s S u0 [] st) (htS : t ∉ S)
    (hmin : ∀ c' v, (c', v) ∈ st.heap → c ≤ c') : ∀ c', WWalk g s t c' → c ≤ c' := by
  intro c' hw
  by_cases hsS : s ∈ S
  · rcases walk_bound hnn hinv c hmin s t c' hw hsS 0 hinv.src0 with ⟨ct, h1, h2⟩ | h
    · have := hmin ct t (hinv.heapLive t ct h1 htS)
      omega
    · omega
  · have := hmin 0 s (hinv.heapLive s 0 hinv.src0 hsS)
    have := hw.nonneg hnn
    omega

theorem final_none {g : Graph} (hnn : NonNeg g) {s : Nat} {S : List Nat} {u0 : Nat} {st : DijSt} {t : Nat}
    (hinv : Inv g s S u0 [] st) (htS : t ∉ S) (hempty : st.heap = []) : ¬ ∃ c, WWalk g s t c := by
  rintro ⟨c', hw⟩
  have hm : ∀ c v, (c, v) ∈ st.heap → c' + 1 ≤ c := by
    intro c v h; rw [hempty] at h; simp at h
  have hsS : s ∈ S := by
    apply Classical.byContradiction
    intro hsS
    have := hinv.heapLive s 0 hinv.src0 hsS
    rw [hempty] at this; simp at this
  rcases walk_bound hnn hinv (c' + 1) hm s t c' hw hsS 0 hinv.src0 with ⟨ct, h1, _⟩ | h
  · have := hinv.heapLive t ct h1 htS
    rw [hempty] at this; simp at this
  · omega

/-! ### reconstruction from the parent map -/

theorem wchain_single (g : Graph) (t : Nat) (c : Int) : WChainOk g [t] [] c ↔ c = 0 := by
  simp [WChainOk]

theorem wchain_cons (g : Graph) (u v : Nat) (ns : List Nat) (eid : Nat) (es : List Nat) (c : Int) :
    WChainOk g (u :: v :: ns) (eid :: es) c ↔
      ∃ e, e ∈ g.edges ∧ e.id = eid ∧ e.joins u v ∧ WChainOk g (v :: ns) es (c - e.w) := by
  simp [WChainOk]

theorem reconstruct_spec {g : Graph} {s : Nat} {S : List Nat} {u0 : Nat} {st : DijSt} {t : Nat} {c : Int}
    (hinv : Inv g s S u0 [] st) :
    ∀ (fuel cur : Nat) (ns es : List Nat) (cc : Int),
      lookupDist st.dist cur = some cc →
      (if cur ∈ S then rank S cur else S.length + 1) ≤ fuel →
      (cur :: ns).getLast? = some t →
      WChainOk g (cur :: ns) es (c - cc) →
      (reconstruct st.parent s fuel cur ns es).nodes.head? = some s ∧
      (reconstruct st.parent s fuel cur ns es).nodes.getLast? = some t ∧
      WChainOk g (reconstruct st.parent s fuel cur ns es).nodes (reconstruct st.parent s fuel cur ns es).edges c := by
  intro fuel
  induction fuel with
  | zero =>
    intro cur ns es cc _ hm _ _
    exfalso
    by_cases hc : cur ∈ S
    · rw [if_pos hc] at hm
      have := rank_pos hc
      omega
    · rw [if_neg hc] at hm
      omega
  | succ n ih =>
    intro cur ns es cc hd hm hlast hchain
    rw [reconstruct]
    by_cases hcs : cur = s
    · subst hcs
      simp only [beq_self_eq_true, if_true]
      rw [hinv.src0] at hd
      simp only [Option.some.injEq] at hd
      subst hd
      rw [Int.sub_zero] at hchain
      exact ⟨rfl, hlast, hchain⟩
    · have hbeq : (cur == s) = false := by simp [hcs]
      simp only [hbeq]
      obtain ⟨p, eid, e, cp, h1, h2, h3, h4, h5, h6, h7, h8⟩ := hinv.par cur cc hd hcs
      rw [h1]
      simp only
      apply ih p (cur :: ns) (eid :: es) cp h5
      · rw [if_pos h7]
        by_cases hc : cur ∈ S
        · rw [if_pos hc] at hm
          have := h8 hc
          omega
        · rw [if_neg hc] at hm
          have := rank_le S p
          omega
      · rw [List.getLast?_cons_cons]; exact hlast
      · rw [wchain_cons]
        refine ⟨e, h2, h3, h4, ?_⟩
        have : c - cp - e.w = c - cc := by omega
        rw [this]; exact hchain

theorem final_path {g : Graph} {s : Nat} {S : List Nat} {u0 : Nat} {st : DijSt} {t : Nat} {c : Int}
    (hinv : Inv g s S u0 [] st) (htS : t ∉ S) (hdt : lookupDist st.dist t = some c) :
    (reconstruct st.parent s (st.parent.length + 1) t [] []).nodes.head? = some s ∧
    (reconstruct st.parent s (st.parent.length + 1) t [] []).nodes.getLast? = some t ∧
    WChainOk g (reconstruct st.parent s (st.parent.length + 1) t [] []).nodes
      (reconstruct st.parent s (st.parent.length + 1) t [] []).edges c := by
  apply reconstruct_spec hinv (st.parent.length + 1) t [] [] c hdt
  · rw [if_neg htS]
    have hnd : (t :: S).Nodup := List.nodup_cons.2 ⟨htS, hinv.nodup⟩
    have hsub : ∀ x, x ∈ t :: S → x ∈ st.dist.map Prod.fst := by
      intro x hx
      simp only [List.mem_cons] at hx
      rcases hx with rfl | hx
      · exact lookupDist_mem_keys hdt
      · obtain ⟨cx, h, _⟩ := hinv.settled x hx
        exact lookupDist_mem_keys h
    have := nodup_subset_length hnd hsub
    have hl := hinv.len
    simp only [List.length_cons, List.length_map] at this
    omega
  · rfl
  · rw [wchain_single]; omega

/-! ### the main loop -/

def Good (g : Graph) (s t : Nat) (c : Int) (P : ParentMap) : Prop :=
  (∀ c', WWalk g s t c' → c ≤ c') ∧ WWalk g s t c ∧
  (reconstruct P s (P.length + 1) t [] []).nodes.head? = some s ∧
  (reconstruct P s (P.length + 1) t [] []).nodes.getLast? = some t ∧
  WChainOk g (reconstruct P s (P.length + 1) t [] []).nodes (reconstruct P s (P.length + 1) t [] []).edges c

/-- postcondition of `dijLoop`; `fuelOk` = "the fuel covers the potential of the start state" -/
def Post (g : Graph) (s t : Nat) (fuelOk : Prop) : Except Nat (Option (Int × ParentMap)) → Prop
  | .error _ => False
  | .ok none => fuelOk → ¬ ∃ c, WWalk g s t c
  | .ok (some (c, P)) => Good g s t c P

theorem Post.mono {g : Graph} {s t : Nat} {A B : Prop} (hab : A → B) :
    ∀ r, Post g s t B r → Post g s t A r
  | .error _, h => h
  | .ok none, h => fun ha => h (hab ha)
  | .ok (some (_, _)), h => h

/-- pops still possible: entries in the heap + candidates of the nodes not yet expanded -/
def pot (g : Graph) (st : DijSt) (S : List Nat) : Nat :=
  st.heap.length + 2 * g.edges.length * (2 * g.edges.length + 1 - S.length)

theorem dijLoop_post {g : Graph} (hnn : NonNeg g) {s t : Nat} :
    ∀ (fuel : Nat) (st : DijSt) (S : List Nat) (u0 : Nat), Inv g s S u0 [] st → t ∉ S →
      Post g s t (pot g st S ≤ fuel) (dijLoop g t fuel st) := by
  intro fuel
  induction fuel with
  | zero =>
    intro st S u0 hinv htS
    rw [dijLoop]
    intro hpot
    have : st.heap.length = 0 := by unfold pot at hpot; omega
    exact final_none hnn hinv htS (List.eq_nil_of_length_eq_zero this)
  | succ n ih =>
    intro st S u0 hinv htS
    rw [dijLoop]
    cases hp : popMin st.heap with
    | none =>
      simp only
      intro _
      exact final_none hnn hinv htS (popMin_none hp)
    | some r =>
      obtain ⟨⟨c, u⟩, h'⟩ := r
      obtain ⟨hmem, rfl, hmin'⟩ := popMin_spec hp
      have hmin : ∀ c' v, (c', v) ∈ st.heap → c ≤ c' := fun c' v h => hmin' (c', v) h
      have hlen : (st.heap.erase (c, u)).length + 1 = st.heap.length := by
        have := List.length_erase_of_mem hmem
        have := List.length_pos_of_mem hmem
        omega
      simp only
      by_cases hut : u = t
      · subst hut
        simp only [beq_self_eq_true, if_true]
        have hdt := final_dist hinv htS hmem hmin
        exact ⟨final_opt hnn hinv htS hmin, hinv.sound u c hdt, final_path hinv htS hdt⟩
      · have hbeq : (u == t) = false := by simp [hut]
        simp only [hbeq]
        obtain ⟨cu, hdu, hcu⟩ := hinv.heapUp c u hmem
        -- dropping the popped entry keeps the invariant when it is not the live entry of an open node
        have hdrop : (c ≠ cu ∨ u ∈ S) →
            Post g s t (pot g st S ≤ n + 1)
              (dijLoop g t n { dist := st.dist, parent := st.parent, heap := st.heap.erase (c, u) }) := by
          intro hor
          have hinv' := inv_erase (c, u) hinv (by
            intro v cv hv hvS heq
            simp only [Prod.mk.injEq] at heq
            obtain ⟨rfl, rfl⟩ := heq
            rw [hdu] at hv
            simp only [Option.some.injEq] at hv
            rcases hor with h | h
            · exact h hv.symm
            · exact hvS h)
          refine Post.mono ?_ _ (ih _ S u0 hinv' htS)
          unfold pot
          simp only
          omega
        by_cases hst : stale c (lookupDist st.dist u) = true
        · rw [if_pos hst]
          apply hdrop
          left
          rw [hdu] at hst
          simp only [stale, decide_eq_true_eq] at hst
          omega
        · rw [if_neg hst]
          have hceq : cu = c := by
            rw [hdu] at hst
            simp only [stale, decide_eq_true_eq] at hst
            omega
          subst hceq
          by_cases huS : u ∈ S
          · -- re-expansion of a settled node changes nothing
            have hno := dijRelax_noop (u := u) (c := cu) (dijCands g u)
              { dist := st.dist, parent := st.parent, heap := st.heap.erase (cu, u) } (by
                intro v e hm
                obtain ⟨he, hj⟩ := mem_dijCands hm
                refine ⟨edgeWeight_ok (hnn e he), ?_⟩
                rcases hinv.closed u huS v e he hj with ⟨_, hmm⟩ | ⟨cx, cv, h1, h2, h3⟩
                · simp at hmm
                · rw [hdu] at h1
                  simp only [Option.some.injEq] at h1
                  subst h1
                  simp only [h2, improves, decide_eq_false_iff_not]
                  omega)
            rw [hno]
            exact hdrop (Or.inr huS)
          · have hinv1 := inv_settle hinv huS hdu hmin
            have hinv2 := inv_erase (cu, u) hinv1 (by
              intro v cv _ hvS heq
              simp only [Prod.mk.injEq] at heq
              exact hvS (by simp [heq.2]))
            obtain ⟨st', hr, hinv3, hlen3⟩ := dijRelax_inv hnn (s := s) (S := u :: S) (u := u) (c := cu)
              (by simp) (dijCands g u) _ hinv2 hdu
              (by
                intro x cx hx hdx
                simp only [List.mem_cons] at hx
                rcases hx with rfl | hx
                · rw [hdu] at hdx
                  simp only [Option.some.injEq] at hdx
                  omega
                · obtain ⟨cx', h1, h2⟩ := hinv.settled x hx
                  rw [hdx] at h1
                  simp only [Option.some.injEq] at h1
                  subst h1
                  exact h2 cu u hmem)
              (fun v e hm => mem_dijCands hm)
            rw [hr]
            simp only
            have htS' : t ∉ u :: S := by
              simp only [List.mem_cons, not_or]
              exact ⟨fun h => hut h.symm, htS⟩
            refine Post.mono ?_ _ (ih st' (u :: S) u hinv3 htS')
            -- the potential drops
            have hcard : (u :: S).length ≤ (walkNodes g s).length :=
              nodup_subset_length hinv3.nodup (by
                intro x hx
                obtain ⟨cx, h1, _⟩ := hinv3.settled x hx
                exact (hinv3.sound x cx h1).mem_walkNodes)
            rw [walkNodes_length] at hcard
            have hk := dijCands_length_le g u
            simp only [List.length_cons] at hcard hlen3
            unfold pot
            simp only [List.length_cons]
            have hsplit : 2 * g.edges.length + 1 - S.length = (2 * g.edges.length + 1 - (S.length + 1)) + 1 := by
              omega
            rw [hsplit, Nat.mul_succ]
            generalize 2 * g.edges.length * (2 * g.edges.length + 1 - (S.length + 1)) = X
            omega

theorem dijFuel_covers (g : Graph) (s : Nat) :
    pot g { dist := [(s, 0)], parent := [], heap := [(0, s)] } [] ≤ dijFuel g := by
  unfold pot dijFuel
  simp only [List.length_cons, List.length_nil, Nat.sub_zero]
  have h : 2 * g.edges.length * (2 * g.edges.length + 1) ≤ (2 * g.edges.length + 2) * (2 * g.edges.length + 2) :=
    Nat.mul_le_mul (by omega) (by omega)
  omega

theorem dijLoop_main {g : Graph} (hnn : NonNeg g) (s t : Nat) :
    Post g s t True (dijLoop g t (dijFuel g) { dist := [(s, 0)], parent := [], heap := [(0, s)] }) :=
  Post.mono (fun _ => dijFuel_covers g s) _
    (dijLoop_post hnn (dijFuel g) _ [] s (inv_init g s s) (by simp))

/-! ### the theorems -/

theorem dijkstra_path_is_walk (g : Graph) (s t : Nat) (p : WPath) (hnn : NonNeg g)
    (h : findWeightedPath g s t = .ok p) :
    p.nodes.head? = some s ∧ p.nodes.getLast? = some t ∧ WChainOk g p.nodes p.edges p.total := by
  unfold findWeightedPath at h
  split at h
  · simp at h
  · split at h
    · simp at h
    · split at h
      · rename_i hst
        simp only [beq_iff_eq] at hst
        subst hst
        simp only [Except.ok.injEq] at h
        subst h
        exact ⟨rfl, rfl, by simp [WChainOk]⟩
      · have hpost := dijLoop_main hnn s t
        split at h
        · simp at h
        · simp at h
        · rename_i cost P hl
          rw [hl] at hpost
          simp only [Except.ok.injEq] at h
          subst h
          exact hpost.2.2

theorem dijkstra_optimal (g : Graph) (s t : Nat) (p : WPath) (hnn : NonNeg g)
    (h : findWeightedPath g s t = .ok p) :
    ∀ c, WWalk g s t c → p.total ≤ c := by
  unfold findWeightedPath at h
  split at h
  · simp at h
  · split at h
    · simp at h
    · split at h
      · simp only [Except.ok.injEq] at h
        subst h
        intro c hw
        exact hw.nonneg hnn
      · have hpost := dijLoop_main hnn s t
        split at h
        · simp at h
        · simp at h
        · rename_i cost P hl
          rw [hl] at hpost
          simp only [Except.ok.injEq] at h
          subst h
          exact hpost.1

theorem dijkstra_none_iff_unreachable (g : Graph) (s t : Nat) (hnn : NonNeg g)
    (hs : g.hasNode s = true) (ht : g.hasNode t = true) :
    findWeightedPath g s t = .error .pathNotFound ↔ ¬ ∃ c, WWalk g s t c := by
  unfold findWeightedPath
  simp only [hs, ht, Bool.not_true, Bool.false_eq_true, if_false]
  by_cases hst : s = t
  · subst hst
    simp only [beq_self_eq_true, if_true]
    constructor
    · intro h; simp at h
    · intro h; exact absurd ⟨0, WWalk.nil s⟩ h
  · have hbeq : (s == t) = false := by simp [hst]
    simp only [hbeq, Bool.false_eq_true, if_false]
    have hpost := dijLoop_main hnn s t
    cases hl : dijLoop g t (dijFuel g) { dist := [(s, 0)], parent := [], heap := [(0, s)] } with
    | error id => rw [hl] at hpost; exact absurd hpost (by simp [Post])
    | ok r =>
      cases r with
      | none =>
        rw [hl] at hpost
        simp only [true_iff]
        exact hpost trivial
      | some cp =>
        obtain ⟨c, P⟩ := cp
        rw [hl] at hpost
        simp only
        constructor
        · intro h; simp at h
        · intro h; exact absurd ⟨c, hpost.2.1⟩ h

/-! ### the hypotheses are satisfiable: a weighted triangle with a cheaper two-hop route -/

def dijExGraph : Graph :=
  { nodes := [⟨0, none⟩, ⟨1, none⟩, ⟨2, none⟩, ⟨3, none⟩]
    edges := [⟨10, 0, 2, true, 0, some 5, none⟩, ⟨11, 0, 1, true, 0, some 2, none⟩,
              ⟨12, 2, 1, false, 0, none, none⟩] }

theorem dijExGraph_nonneg : NonNeg dijExGraph := by
  intro e he
  simp only [dijExGraph, List.mem_cons, List.not_mem_nil, or_false] at he
  rcases he with rfl | rfl | rfl <;> decide

example : NonNeg dijExGraph ∧
    findWeightedPath dijExGraph 0 2 = .ok { nodes := [0, 1, 2], edges := [11, 12], total := 3 } :=
  ⟨dijExGraph_nonneg, by rfl⟩

example : NonNeg dijExGraph ∧ dijExGraph.hasNode 0 = true ∧ dijExGraph.hasNode 3 = true ∧
    findWeightedPath dijExGraph 0 3 = .error .pathNotFound :=
  ⟨dijExGraph_nonneg, by rfl, by rfl, by rfl⟩

example : findWeightedPath
    { nodes := [⟨0, none⟩, ⟨1, none⟩], edges := [⟨7, 0, 1, true, 0, some (-4), none⟩] } 0 1 =
    .error (.negativeWeight 7) := by rfl

end Neumann.Paths
