import NeumannModel.Paths.DijkstraProofs
import NeumannModel.Paths.AlgoSpec
/-
  C18 — proofs about the model of `find_all_weighted_paths` (Dijkstra with multi-parent tracking,
  then enumeration of the simple parent chains) for every graph.
-/
namespace Neumann.Paths

/-! ### lookups in the multi-parent map -/

theorem aw_lookupParents_cons (k : Nat) (ps : List (Nat × Nat)) (M : MultiParent) (v : Nat) :
    lookupParents ((k, ps) :: M) v = if k = v then some ps else lookupParents M v := by
  unfold lookupParents
  by_cases h : k = v
  · simp [h]
  · simp [h]

theorem aw_lookupParents_nil (v : Nat) : lookupParents [] v = none := by
  simp [lookupParents]

theorem aw_lookupParents_pushParent (cap n : Nat) (entry : Nat × Nat) (M : MultiParent) (v : Nat) :
    lookupParents (pushParent cap n entry M) v =
      if n = v then (lookupParents M v).map (fun ps => if ps.length < cap then ps ++ [entry] else ps)
      else lookupParents M v := by
  induction M with
  | nil => simp [pushParent, aw_lookupParents_nil]
  | cons a M ih =>
    obtain ⟨k, ps⟩ := a
    rw [pushParent]
    by_cases hk : k = n
    · subst hk
      simp only [beq_self_eq_true, if_true, aw_lookupParents_cons]
      by_cases hv : k = v
      · simp [hv]
      · simp [hv]
    · have hb : (k == n) = false := by simp [hk]
      simp only [hb, Bool.false_eq_true, if_false, aw_lookupParents_cons, ih]
      by_cases hv : k = v
      · have hnv : ¬ n = v := by omega
        simp [hv, hnv]
      · simp [hv]

theorem aw_lookupParents_push_mono {cap n : Nat} {entry : Nat × Nat} {M : MultiParent} {v : Nat}
    {ps : List (Nat × Nat)} (h : lookupParents M v = some ps) :
    ∃ ps', lookupParents (pushParent cap n entry M) v = some ps' ∧ ∀ x, x ∈ ps → x ∈ ps' := by
  rw [aw_lookupParents_pushParent, h]
  by_cases hn : n = v
  · rw [if_pos hn]
    simp only [Option.map_some]
    refine ⟨_, rfl, ?_⟩
    intro x hx
    split
    · simp [hx]
    · exact hx
  · rw [if_neg hn]
    exact ⟨ps, rfl, fun x hx => hx⟩

theorem aw_lookupParents_push_inv {cap n : Nat} {entry : Nat × Nat} {M : MultiParent} {v : Nat}
    {ps' : List (Nat × Nat)} (h : lookupParents (pushParent cap n entry M) v = some ps') :
    ∃ ps, lookupParents M v = some ps ∧ ∀ x, x ∈ ps' → x ∈ ps ∨ (x = entry ∧ n = v) := by
  rw [aw_lookupParents_pushParent] at h
  by_cases hn : n = v
  · rw [if_pos hn] at h
    cases hl : lookupParents M v with
    | none => rw [hl] at h; simp at h
    | some ps =>
      rw [hl] at h
      simp only [Option.map_some, Option.some.injEq] at h
      refine ⟨ps, rfl, ?_⟩
      intro x hx
      subst h
      split at hx
      · simp only [List.mem_append, List.mem_singleton] at hx
        rcases hx with hx | hx
        · left; exact hx
        · right; exact ⟨hx, hn⟩
      · left; exact hx
  · rw [if_neg hn] at h
    exact ⟨ps', h, fun x hx => Or.inl hx⟩

/-! ### negative weights are reported faithfully (no hypothesis on the graph) -/

theorem awRelax_error {cap tgt cur : Nat} {cost : Int} {id : Nat} :
    ∀ (cs : List (Nat × Edge)) (st : AWSt), awRelax cap tgt cur cost cs st = .error id →
      ∃ v e, (v, e) ∈ cs ∧ e.id = id ∧ e.w < 0 := by
  intro cs
  induction cs with
  | nil => intro st h; simp [awRelax] at h
  | cons a rest ih =>
    intro st h
    obtain ⟨nb, e⟩ := a
    rw [awRelax] at h
    cases hw : edgeWeight e with
    | error id' =>
      simp only [hw, Except.error.injEq] at h
      subst h
      exact ⟨nb, e, by simp, edgeWeight_error hw⟩
    | ok w =>
      simp only [hw] at h
      split at h
      · obtain ⟨v, e', hm, h2⟩ := ih _ h
        exact ⟨v, e', by simp [hm], h2⟩
      · split at h
        · obtain ⟨v, e', hm, h2⟩ := ih _ h
          exact ⟨v, e', by simp [hm], h2⟩
        · obtain ⟨v, e', hm, h2⟩ := ih _ h
          exact ⟨v, e', by simp [hm], h2⟩

theorem awLoop_error {g : Graph} {cap t : Nat} {id : Nat} :
    ∀ (fuel : Nat) (st : AWSt), awLoop g cap t fuel st = .error id →
      ∃ e, e ∈ g.edges ∧ e.id = id ∧ e.w < 0 := by
  intro fuel
  induction fuel with
  | zero => intro st h; simp [awLoop] at h
  | succ n ih =>
    intro st h
    rw [awLoop] at h
    split at h
    · simp at h
    · rename_i cost u heap' _
      split at h
      · simp at h
      · split at h
        · exact ih _ h
        · split at h
          · rename_i id' hr
            simp only [Except.error.injEq] at h
            subst h
            obtain ⟨v, e, hm, h2⟩ := awRelax_error _ _ hr
            exact ⟨e, (mem_dijCands hm).1, h2⟩
          · exact ih _ h

theorem awp_negative_reported (g : Graph) (mp cap s t id : Nat)
    (h : findAllWeightedPaths g mp cap s t = .error (.negativeWeight id)) :
    ∃ e, e ∈ g.edges ∧ e.id = id ∧ e.w < 0 := by
  unfold findAllWeightedPaths at h
  split at h
  · simp at h
  · split at h
    · simp at h
    · split at h
      · simp at h
      · split at h
        · rename_i id' hl
          simp only [Except.error.injEq, QErr.negativeWeight.injEq] at h
          subst h
          exact awLoop_error _ _ hl
        · split at h
          · simp at h
          · simp at h

/-! ### one relaxation step on the Dijkstra invariant of `DijkstraProofs` -/

theorem aw_inv_step_improve {g : Graph} (hnn : NonNeg g) {s : Nat} {S : List Nat} {u : Nat} {c : Int}
    (hu : u ∈ S) {nb : Nat} {e : Edge} {rest : List (Nat × Edge)} {st : DijSt}
    (hinv : Inv g s S u ((nb, e) :: rest) st)
    (hdu : lookupDist st.dist u = some c)
    (hbound : ∀ x cx, x ∈ S → lookupDist st.dist x = some cx → cx ≤ c)
    (heE : e ∈ g.edges) (hjoin : e.joins u nb)
    (himp : improves (c + e.w) (lookupDist st.dist nb) = true) :
    nb ∉ S ∧ nb ≠ s ∧
    Inv g s S u rest
      { dist := (nb, c + e.w) :: st.dist, parent := (nb, u, e.id) :: st.parent,
        heap := (c + e.w, nb) :: st.heap } := by
  have hw0 : 0 ≤ e.w := hnn e heE
  have hc0 : 0 ≤ c := (hinv.sound u c hdu).nonneg hnn
  have hnbS : nb ∉ S := by
    intro hmem
    obtain ⟨cx, hcx, _⟩ := hinv.settled nb hmem
    have := hbound nb cx hmem hcx
    rw [hcx] at himp
    simp only [improves, decide_eq_true_eq] at himp
    omega
  have hnbu : nb ≠ u := fun h => hnbS (h ▸ hu)
  have hnbs : nb ≠ s := by
    intro h
    rw [h, hinv.src0] at himp
    simp only [improves, decide_eq_true_eq] at himp
    omega
  have hold : ∀ cv, lookupDist st.dist nb = some cv → c + e.w < cv := by
    intro cv h
    rw [h] at himp
    simpa [improves] using himp
  have hkeep : ∀ x, x ∈ S → nb ≠ x := fun x hx h => hnbS (h ▸ hx)
  refine ⟨hnbS, hnbs, ?_, ?_, ?_, ?_, ?_, ?_, ?_, hinv.nodup, ?_⟩
  · simp only [lookupDist_cons, if_neg hnbs]; exact hinv.src0
  · intro v cv h
    simp only [lookupDist_cons] at h
    by_cases hv : nb = v
    · subst hv
      simp only [if_true, Option.some.injEq] at h
      subst h
      exact (hinv.sound u c hdu).snoc ⟨heE, hjoin⟩
    · rw [if_neg hv] at h; exact hinv.sound v cv h
  · intro c' v h
    simp only [List.mem_cons, Prod.mk.injEq] at h
    simp only [lookupDist_cons]
    by_cases hv : nb = v
    · subst hv
      simp only [if_true]
      refine ⟨c + e.w, rfl, ?_⟩
      rcases h with ⟨rfl, _⟩ | h
      · omega
      · obtain ⟨c'', h1, h2⟩ := hinv.heapUp c' nb h
        have := hold c'' h1
        omega
    · rw [if_neg hv]
      rcases h with ⟨_, rfl⟩ | h
      · exact absurd rfl hv
      · exact hinv.heapUp c' v h
  · intro v cv h hvS
    simp only [lookupDist_cons] at h
    simp only [List.mem_cons, Prod.mk.injEq]
    by_cases hv : nb = v
    · subst hv
      simp only [if_true, Option.some.injEq] at h
      left; exact ⟨h.symm, rfl⟩
    · rw [if_neg hv] at h
      right; exact hinv.heapLive v cv h hvS
  · intro x hx
    obtain ⟨cx, hcx, hle⟩ := hinv.settled x hx
    refine ⟨cx, by simp only [lookupDist_cons, if_neg (hkeep x hx)]; exact hcx, ?_⟩
    intro c' v h
    simp only [List.mem_cons, Prod.mk.injEq] at h
    rcases h with ⟨rfl, _⟩ | h
    · have := hbound x cx hx hcx; omega
    · exact hle c' v h
  · intro x hx v e' he' hj'
    simp only [lookupDist_cons, if_neg (hkeep x hx)]
    rcases hinv.closed x hx v e' he' hj' with ⟨hxu, hm⟩ | ⟨cx, cv, h1, h2, h3⟩
    · simp only [List.mem_cons, Prod.mk.injEq] at hm
      rcases hm with ⟨rfl, rfl⟩ | hm
      · right
        subst hxu
        exact ⟨c, c + e'.w, hdu, by simp, by omega⟩
      · left; exact ⟨hxu, hm⟩
    · right
      by_cases hv : nb = v
      · subst hv
        have := hold cv h2
        exact ⟨cx, c + e.w, h1, by simp, by omega⟩
      · exact ⟨cx, cv, h1, by rw [if_neg hv]; exact h2, h3⟩
  · intro v cv h hvs
    simp only [lookupDist_cons] at h
    simp only [lookupDist_cons, lookupParent_cons]
    by_cases hv : nb = v
    · subst hv
      simp only [if_true, Option.some.injEq] at h
      refine ⟨u, e.id, e, c, if_pos rfl, heE, rfl, hjoin, ?_, h.symm, hu, fun h => absurd h hnbS⟩
      rw [if_neg hnbu]; exact hdu
    · rw [if_neg hv] at h
      obtain ⟨p, eid, e', cp, h1, h2, h3, h4, h5, h6, h7, h8⟩ := hinv.par v cv h hvs
      refine ⟨p, eid, e', cp, by rw [if_neg hv]; exact h1, h2, h3, h4, ?_, h6, h7, h8⟩
      rw [if_neg (hkeep p h7)]; exact h5
  · simp only [List.length_cons]; have := hinv.len; omega

theorem aw_inv_step_skip {g : Graph} {s : Nat} {S : List Nat} {u : Nat} {c : Int}
    {nb : Nat} {e : Edge} {rest : List (Nat × Edge)} {st : DijSt}
    (hinv : Inv g s S u ((nb, e) :: rest) st)
    (hdu : lookupDist st.dist u = some c)
    (himp : ¬ improves (c + e.w) (lookupDist st.dist nb) = true) :
    Inv g s S u rest st := by
  refine ⟨hinv.src0, hinv.sound, hinv.heapUp, hinv.heapLive, hinv.settled, ?_, hinv.par,
    hinv.nodup, hinv.len⟩
  intro x hx v e' he' hj'
  rcases hinv.closed x hx v e' he' hj' with ⟨hxu, hm⟩ | h
  · simp only [List.mem_cons, Prod.mk.injEq] at hm
    rcases hm with ⟨rfl, rfl⟩ | hm
    · right
      subst hxu
      cases hd : lookupDist st.dist v with
      | none => rw [hd] at himp; simp [improves] at himp
      | some cv =>
        rw [hd] at himp
        simp only [improves, decide_eq_true_eq] at himp
        exact ⟨c, cv, hdu, rfl, by omega⟩
    · left; exact ⟨hxu, hm⟩
  · right; exact h

/-! ### counting the candidates that point at one node -/

def awPendCount (v : Nat) (pend : List (Nat × Edge)) : Nat := pend.countP (fun a => a.1 == v)

def awCands (es : List Edge) (cur : Nat) : List (Nat × Edge) :=
  (es.filter (inOut · cur)).filterMap (fun e =>
    if e.src == cur then some (e.dst, e)
    else if !e.directed && e.dst == cur then some (e.src, e)
    else none)
  ++ (es.filter (inIn · cur)).filterMap (fun e =>
    if e.directed then none
    else if e.dst == cur then some (e.src, e)
    else none)

theorem aw_dijCands_eq (g : Graph) (x : Nat) : dijCands g x = awCands g.edges x := rfl

theorem aw_countP_fm_cons (p : Nat × Edge → Bool) (q : Edge → Bool) (f : Edge → Option (Nat × Edge))
    (e : Edge) (es : List Edge) :
    (((e :: es).filter q).filterMap f).countP p =
      ((([e].filter q).filterMap f).countP p) + ((es.filter q).filterMap f).countP p := by
  have : e :: es = [e] ++ es := rfl
  rw [this, List.filter_append, List.filterMap_append, List.countP_append]

theorem aw_pendCount_cands_cons (v : Nat) (e : Edge) (es : List Edge) (x : Nat) :
    awPendCount v (awCands (e :: es) x) = awPendCount v (awCands [e] x) + awPendCount v (awCands es x) := by
  unfold awCands awPendCount
  rw [List.countP_append, List.countP_append, List.countP_append, aw_countP_fm_cons, aw_countP_fm_cons _ (inIn · x)]
  omega

def awXo (e : Edge) (v : Nat) : Nat := if e.dst = v then e.src else e.dst

theorem aw_pendCount_cands_single (v : Nat) (e : Edge) (x : Nat) :
    awPendCount v (awCands [e] x) ≤ (if x = awXo e v then 1 else 0) + (if x = e.dst then 1 else 0) := by
  unfold awCands awPendCount awXo inOut inIn
  rw [List.countP_append]
  apply Nat.add_le_add
  · by_cases h1 : e.src = x
    · by_cases h2 : e.dst = v
      · simp [h1, h2]
      · simp [h1, h2]
    · by_cases h3 : e.dst = x
      · by_cases h4 : e.directed = true
        · simp [h1, h3, h4]
        · by_cases h5 : e.src = v
          · simp [h3, h4, h5]; grind
          · simp [h1, h3, h4, h5]
      · simp [h1, h3]
  · by_cases h4 : e.directed = true
    · simp [List.filter_cons]
      split
      · simp [h4]
      · simp
    · by_cases h3 : e.dst = x
      · simp [h3, h4]
        split <;> simp
      · simp [List.filter_cons, h3, h4]
        split <;> simp [h3, h4]

theorem aw_sum_map_le {S : List Nat} {f h : Nat → Nat} (hle : ∀ x, f x ≤ h x) :
    (S.map f).sum ≤ (S.map h).sum := by
  induction S with
  | nil => simp
  | cons a S ih =>
    simp only [List.map_cons, List.sum_cons]
    have := hle a
    omega

theorem aw_sum_map_add (S : List Nat) (f h : Nat → Nat) :
    (S.map (fun x => f x + h x)).sum = (S.map f).sum + (S.map h).sum := by
  induction S with
  | nil => simp
  | cons a S ih =>
    simp only [List.map_cons, List.sum_cons, ih]
    omega

theorem aw_sum_indicator_zero {S : List Nat} {a : Nat} (ha : a ∉ S) :
    (S.map (fun x => if x = a then 1 else 0)).sum = 0 := by
  induction S with
  | nil => simp
  | cons b S ih =>
    simp only [List.mem_cons, not_or] at ha
    simp only [List.map_cons, List.sum_cons, ih ha.2]
    have : ¬ b = a := fun h => ha.1 h.symm
    simp [this]

theorem aw_sum_indicator {S : List Nat} (a : Nat) (hn : S.Nodup) :
    (S.map (fun x => if x = a then 1 else 0)).sum ≤ 1 := by
  induction S with
  | nil => simp
  | cons b S ih =>
    rw [List.nodup_cons] at hn
    simp only [List.map_cons, List.sum_cons]
    by_cases hb : b = a
    · subst hb
      rw [aw_sum_indicator_zero hn.1]
      simp
    · have := ih hn.2
      simp only [hb, if_false]
      omega

theorem aw_sum_zero (S : List Nat) : (S.map (fun _ => 0)).sum = 0 := by
  induction S with
  | nil => rfl
  | cons a S ih => simp only [List.map_cons, List.sum_cons, ih]

theorem aw_candSum_le (es : List Edge) (v : Nat) {S : List Nat} (hn : S.Nodup) :
    (S.map (fun x => awPendCount v (awCands es x))).sum ≤ 2 * es.length := by
  induction es with
  | nil =>
    have : ∀ x, awPendCount v (awCands [] x) ≤ 0 := by
      intro x; simp [awPendCount, awCands]
    have h := aw_sum_map_le (S := S) this
    simp only [List.length_nil] at h ⊢
    have hz := aw_sum_zero S
    omega
  | cons e es ih =>
    have hpt : ∀ x, awPendCount v (awCands (e :: es) x) ≤
        ((if x = awXo e v then 1 else 0) + (if x = e.dst then 1 else 0)) + awPendCount v (awCands es x) := by
      intro x
      rw [aw_pendCount_cands_cons]
      have := aw_pendCount_cands_single v e x
      omega
    have h := aw_sum_map_le (S := S) hpt
    rw [aw_sum_map_add, aw_sum_map_add] at h
    have h1 := aw_sum_indicator (awXo e v) hn
    have h2 := aw_sum_indicator e.dst hn
    simp only [List.length_cons]
    omega

theorem aw_candSum_le' (g : Graph) (v : Nat) {S : List Nat} (hn : S.Nodup) :
    (S.map (fun x => awPendCount v (dijCands g x))).sum ≤ 2 * g.edges.length :=
  aw_candSum_le g.edges v hn

theorem awPendCount_nil (v : Nat) : awPendCount v [] = 0 := rfl

theorem awPendCount_cons (v nb : Nat) (e : Edge) (rest : List (Nat × Edge)) :
    awPendCount v ((nb, e) :: rest) = awPendCount v rest + (if nb = v then 1 else 0) := by
  unfold awPendCount
  rw [List.countP_cons]
  by_cases h : nb = v
  · simp [h]
  · simp [h]

/-- length of the parent list of a node (`0` when it has none) -/
def awPlen (M : MultiParent) (v : Nat) : Nat :=
  match lookupParents M v with
  | none => 0
  | some ps => ps.length

theorem awPlen_cons (k : Nat) (ps : List (Nat × Nat)) (M : MultiParent) (v : Nat) :
    awPlen ((k, ps) :: M) v = if k = v then ps.length else awPlen M v := by
  unfold awPlen
  rw [aw_lookupParents_cons]
  by_cases h : k = v
  · simp [h]
  · simp [h]

theorem awPlen_push (cap n : Nat) (entry : Nat × Nat) (M : MultiParent) (v : Nat) :
    awPlen (pushParent cap n entry M) v ≤ awPlen M v + (if n = v then 1 else 0) := by
  unfold awPlen
  rw [aw_lookupParents_pushParent]
  by_cases h : n = v
  · simp only [h, if_true]
    cases lookupParents M v with
    | none => simp
    | some ps =>
      simp only [Option.map_some]
      split <;> simp
  · simp only [h, if_false]
    omega

/-! ### the invariant of `awLoop` -/

/-- the Dijkstra state inside an `AWSt`; `P` is a ghost single-parent map (first parent of every node) -/
def awProj (st : AWSt) (P : ParentMap) : DijSt := { dist := st.dist, parent := P, heap := st.heap }

structure AwInv (g : Graph) (s t cap : Nat) (S : List Nat) (u : Nat) (pend : List (Nat × Edge))
    (st : AWSt) (P : ParentMap) : Prop where
  base : Inv g s S u pend (awProj st P)
  link : ∀ v p eid, lookupParent P v = some (p, eid) →
    ∃ ps, lookupParents st.parents v = some ps ∧ (p, eid) ∈ ps
  psound : ∀ v ps, lookupParents st.parents v = some ps → ∀ p eid, (p, eid) ∈ ps →
    p ∈ S ∧ ∃ e cp, e ∈ g.edges ∧ e.id = eid ∧ e.joins p v ∧
      lookupDist st.dist p = some cp ∧ lookupDist st.dist v = some (cp + e.w)
  dcEq : t ≠ s → st.dc = lookupDist st.dist t
  heapFresh : ∀ x cx, x ∈ S → lookupDist st.dist x = some cx → (cx, x) ∉ st.heap
  heapOnce : ∀ v cv, lookupDist st.dist v = some cv → st.heap.count (cv, v) ≤ 1
  pcomplete : 2 * g.edges.length ≤ cap → ∀ x, x ∈ S → ∀ v e, v ≠ s → e ∈ g.edges → e.joins x v →
    (x = u ∧ (v, e) ∈ pend) ∨
    ∃ cx cv, lookupDist st.dist x = some cx ∧ lookupDist st.dist v = some cv ∧ cv ≤ cx + e.w ∧
      (cv = cx + e.w → ∃ ps, lookupParents st.parents v = some ps ∧ (x, e.id) ∈ ps)
  pcount : ∀ v, awPlen st.parents v + awPendCount v pend ≤
    (S.map (fun x => awPendCount v (dijCands g x))).sum

theorem awinv_init (g : Graph) (s t cap u : Nat) :
    AwInv g s t cap [] u [] { dist := [(s, 0)], parents := [], heap := [(0, s)], dc := none } [] := by
  refine ⟨inv_init g s u, ?_, ?_, ?_, ?_, ?_, ?_, ?_⟩
  · intro v p eid h; simp [lookupParent] at h
  · intro v ps h; simp [aw_lookupParents_nil] at h
  · intro hts
    simp only [lookupDist_cons]
    rw [if_neg (fun h => hts h.symm)]
    simp [lookupDist]
  · intro x cx hx; simp at hx
  · intro v cv _
    simp only [List.count_cons, List.count_nil]
    split <;> omega
  · intro _ x hx; simp at hx
  · intro v
    simp [awPlen, aw_lookupParents_nil, awPendCount_nil]

theorem aw_sameCost_eq {nc : Int} {o : Option Int} (h : sameCost nc o = true) : o = some nc := by
  cases o with
  | none => simp [sameCost] at h
  | some c =>
    simp only [sameCost, beq_iff_eq] at h
    rw [h]

theorem awRelax_inv {g : Graph} (hnn : NonNeg g) {s t cap : Nat} {S : List Nat} {u : Nat} {c : Int}
    (hu : u ∈ S) :
    ∀ (pend : List (Nat × Edge)) (st : AWSt) (P : ParentMap),
      AwInv g s t cap S u pend st P →
      lookupDist st.dist u = some c →
      (∀ x cx, x ∈ S → lookupDist st.dist x = some cx → cx ≤ c) →
      (∀ v e, (v, e) ∈ pend → e ∈ g.edges ∧ e.joins u v) →
      ∃ st' P', awRelax cap t u c pend st = .ok st' ∧ AwInv g s t cap S u [] st' P' ∧
        st'.heap.length ≤ st.heap.length + pend.length := by
  intro pend
  induction pend with
  | nil =>
    intro st P hinv _ _ _
    exact ⟨st, P, by simp [awRelax], hinv, by simp⟩
  | cons a rest ih =>
    intro st P hinv hdu hbound hpend
    obtain ⟨nb, e⟩ := a
    obtain ⟨heE, hjoin⟩ := hpend nb e (by simp)
    have hw0 : 0 ≤ e.w := hnn e heE
    have hrest : ∀ v e, (v, e) ∈ rest → e ∈ g.edges ∧ e.joins u v :=
      fun v e h => hpend v e (by simp [h])
    rw [awRelax, edgeWeight_ok hw0]
    simp only
    by_cases himp : improves (c + e.w) (lookupDist st.dist nb) = true
    · rw [if_pos himp]
      obtain ⟨hnbS, hnbs, hbase⟩ := aw_inv_step_improve hnn hu hinv.base hdu hbound heE hjoin himp
      have hnbu : nb ≠ u := fun h => hnbS (h ▸ hu)
      have hkeep : ∀ x, x ∈ S → nb ≠ x := fun x hx h => hnbS (h ▸ hx)
      have hold : ∀ cv, lookupDist st.dist nb = some cv → c + e.w < cv := by
        intro cv h
        rw [h] at himp
        simpa [improves] using himp
      obtain ⟨st', P', h1, h2, h3⟩ := ih
        { dist := (nb, c + e.w) :: st.dist, parents := (nb, [(u, e.id)]) :: st.parents,
          heap := (c + e.w, nb) :: st.heap, dc := if nb == t then some (c + e.w) else st.dc }
        ((nb, u, e.id) :: P)
        (by
          refine ⟨hbase, ?_, ?_, ?_, ?_, ?_, ?_, ?_⟩
          · intro v p eid h
            rw [lookupParent_cons] at h
            simp only [aw_lookupParents_cons]
            by_cases hv : nb = v
            · rw [if_pos hv] at h
              simp only [Option.some.injEq, Prod.mk.injEq] at h
              rw [if_pos hv]
              exact ⟨_, rfl, by simp [h.1, h.2]⟩
            · rw [if_neg hv] at h
              rw [if_neg hv]
              exact hinv.link v p eid h
          · intro v ps h p eid hm
            simp only [aw_lookupParents_cons] at h
            simp only [lookupDist_cons]
            by_cases hv : nb = v
            · rw [if_pos hv] at h
              simp only [Option.some.injEq] at h
              subst h
              simp only [List.mem_singleton, Prod.mk.injEq] at hm
              obtain ⟨rfl, rfl⟩ := hm
              subst hv
              refine ⟨hu, e, c, heE, rfl, hjoin, ?_, ?_⟩
              · rw [if_neg hnbu]; exact hdu
              · rw [if_pos rfl]
            · rw [if_neg hv] at h
              obtain ⟨hpS, e', cp, h1, h2, h3, h4, h5⟩ := hinv.psound v ps h p eid hm
              refine ⟨hpS, e', cp, h1, h2, h3, ?_, ?_⟩
              · rw [if_neg (hkeep p hpS)]; exact h4
              · rw [if_neg hv]; exact h5
          · intro hts
            simp only [lookupDist_cons]
            by_cases hv : nb = t
            · simp [hv]
            · have hb : (nb == t) = false := by simp [hv]
              simp only [hb, Bool.false_eq_true, if_false, if_neg hv]
              exact hinv.dcEq hts
          · intro x cx hx h
            simp only [lookupDist_cons, if_neg (hkeep x hx)] at h
            simp only [List.mem_cons, Prod.mk.injEq, not_or]
            refine ⟨fun hh => hkeep x hx hh.2.symm, hinv.heapFresh x cx hx h⟩
          · intro v cv h
            simp only [lookupDist_cons] at h
            by_cases hv : nb = v
            · subst hv
              simp only [if_true, Option.some.injEq] at h
              subst h
              have hnot : (c + e.w, nb) ∉ st.heap := by
                intro hm
                obtain ⟨c'', h1, h2⟩ := hinv.base.heapUp (c + e.w) nb hm
                have := hold c'' h1
                omega
              rw [List.count_cons_self, List.count_eq_zero.2 hnot]
              omega
            · rw [if_neg hv] at h
              have hne : ((c + e.w, nb) == (cv, v)) = false := by
                simp only [beq_eq_false_iff_ne, ne_eq, Prod.mk.injEq, not_and]
                intro _ hh; exact hv hh
              rw [List.count_cons, hne]
              simp only [Bool.false_eq_true, if_false, Nat.add_zero]
              exact hinv.heapOnce v cv h
          · intro hcap x hx v e' hvs he' hj'
            simp only [lookupDist_cons, if_neg (hkeep x hx)]
            rcases hinv.pcomplete hcap x hx v e' hvs he' hj' with ⟨hxu, hm⟩ | ⟨cx, cv, h1, h2, h3, h4⟩
            · simp only [List.mem_cons, Prod.mk.injEq] at hm
              rcases hm with ⟨rfl, rfl⟩ | hm
              · right
                subst hxu
                refine ⟨c, c + e'.w, hdu, by simp, by omega, ?_⟩
                intro _
                exact ⟨_, by rw [aw_lookupParents_cons, if_pos rfl], by simp⟩
              · left; exact ⟨hxu, hm⟩
            · right
              by_cases hv : nb = v
              · subst hv
                have := hold cv h2
                refine ⟨cx, c + e.w, h1, by simp, by omega, ?_⟩
                intro heq; omega
              · refine ⟨cx, cv, h1, by rw [if_neg hv]; exact h2, h3, ?_⟩
                intro heq
                obtain ⟨ps, h5, h6⟩ := h4 heq
                exact ⟨ps, by rw [aw_lookupParents_cons, if_neg hv]; exact h5, h6⟩
          · intro v
            rw [awPlen_cons]
            have h0 := hinv.pcount v
            rw [awPendCount_cons] at h0
            by_cases hv : nb = v
            · simp only [hv, if_true, List.length_cons, List.length_nil] at h0 ⊢
              omega
            · simp only [hv, if_false] at h0 ⊢
              omega)
        (by simp only [lookupDist_cons, if_neg hnbu]; exact hdu)
        (by
          intro x cx hx h
          simp only [lookupDist_cons, if_neg (hkeep x hx)] at h
          exact hbound x cx hx h)
        hrest
      refine ⟨st', P', h1, h2, ?_⟩
      simp only [List.length_cons] at h3 ⊢
      omega
    · rw [if_neg himp]
      have hbase := aw_inv_step_skip hinv.base hdu himp
      by_cases hsame : sameCost (c + e.w) (lookupDist st.dist nb) = true
      · rw [if_pos hsame]
        have hdnb := aw_sameCost_eq hsame
        obtain ⟨st', P', h1, h2, h3⟩ := ih
          { dist := st.dist, parents := pushParent cap nb (u, e.id) st.parents, heap := st.heap, dc := st.dc } P
          (by
            refine ⟨hbase, ?_, ?_, hinv.dcEq, hinv.heapFresh, hinv.heapOnce, ?_, ?_⟩
            · intro v p eid h
              obtain ⟨ps, h1, h2⟩ := hinv.link v p eid h
              obtain ⟨ps', h3, h4⟩ := aw_lookupParents_push_mono (cap := cap) (n := nb) (entry := (u, e.id)) h1
              exact ⟨ps', h3, h4 _ h2⟩
            · intro v ps' h p eid hm
              obtain ⟨ps, h1, h2⟩ := aw_lookupParents_push_inv h
              rcases h2 _ hm with hm' | ⟨heq, hnv⟩
              · exact hinv.psound v ps h1 p eid hm'
              · simp only [Prod.mk.injEq] at heq
                obtain ⟨rfl, rfl⟩ := heq
                subst hnv
                exact ⟨hu, e, c, heE, rfl, hjoin, hdu, hdnb⟩
            · intro hcap x hx v e' hvs he' hj'
              rcases hinv.pcomplete hcap x hx v e' hvs he' hj' with ⟨hxu, hm⟩ | ⟨cx, cv, h1, h2, h3, h4⟩
              · simp only [List.mem_cons, Prod.mk.injEq] at hm
                rcases hm with ⟨rfl, rfl⟩ | hm
                · right
                  subst hxu
                  refine ⟨c, c + e'.w, hdu, hdnb, by omega, ?_⟩
                  intro _
                  obtain ⟨p, eid, e2, cp, hp1, _⟩ := hinv.base.par v (c + e'.w) hdnb hvs
                  obtain ⟨ps, hl, _⟩ := hinv.link v p eid hp1
                  have hlen : ps.length < cap := by
                    have h0 := hinv.pcount v
                    rw [awPendCount_cons] at h0
                    simp only [if_true] at h0
                    have h1 := aw_candSum_le' g v hinv.base.nodup
                    unfold awPlen at h0
                    rw [hl] at h0
                    simp only at h0
                    omega
                  refine ⟨ps ++ [(x, e'.id)], ?_, by simp⟩
                  rw [aw_lookupParents_pushParent, if_pos rfl, hl]
                  simp [hlen]
                · left; exact ⟨hxu, hm⟩
              · right
                refine ⟨cx, cv, h1, h2, h3, ?_⟩
                intro heq
                obtain ⟨ps, h5, h6⟩ := h4 heq
                obtain ⟨ps', h7, h8⟩ :=
                  aw_lookupParents_push_mono (cap := cap) (n := nb) (entry := (u, e.id)) h5
                exact ⟨ps', h7, h8 _ h6⟩
            · intro v
              have h0 := hinv.pcount v
              rw [awPendCount_cons] at h0
              have h1 := awPlen_push cap nb (u, e.id) st.parents v
              by_cases hv : nb = v
              · simp only [hv, if_true] at h0 h1 ⊢
                omega
              · simp only [hv, if_false] at h0 h1 ⊢
                omega)
          hdu hbound hrest
        refine ⟨st', P', h1, h2, ?_⟩
        simp only [List.length_cons] at h3 ⊢
        omega
      · rw [if_neg hsame]
        obtain ⟨st', P', h1, h2, h3⟩ := ih st P
          ⟨hbase, hinv.link, hinv.psound, hinv.dcEq, hinv.heapFresh, hinv.heapOnce,
            (by
              intro hcap x hx v e' hvs he' hj'
              rcases hinv.pcomplete hcap x hx v e' hvs he' hj' with ⟨hxu, hm⟩ | h
              · simp only [List.mem_cons, Prod.mk.injEq] at hm
                rcases hm with ⟨rfl, rfl⟩ | hm
                · right
                  subst hxu
                  cases hd : lookupDist st.dist v with
                  | none => rw [hd] at himp; simp [improves] at himp
                  | some cv =>
                    rw [hd] at himp hsame
                    simp only [improves, decide_eq_true_eq] at himp
                    simp only [sameCost, beq_iff_eq] at hsame
                    exact ⟨c, cv, hdu, rfl, by omega, fun h => absurd h.symm hsame⟩
                · left; exact ⟨hxu, hm⟩
              · right; exact h),
            (by
              intro v
              have h0 := hinv.pcount v
              rw [awPendCount_cons] at h0
              omega)⟩
          hdu hbound hrest
        refine ⟨st', P', h1, h2, ?_⟩
        simp only [List.length_cons]
        omega

/-! ### steps of the main loop -/

theorem awinv_erase {g : Graph} {s t cap : Nat} {S : List Nat} {u : Nat} {pend : List (Nat × Edge)}
    {st : AWSt} {P : ParentMap} (x : Int × Nat) (hinv : AwInv g s t cap S u pend st P)
    (hx : ∀ v cv, lookupDist st.dist v = some cv → v ∉ S → (cv, v) ≠ x) :
    AwInv g s t cap S u pend
      { dist := st.dist, parents := st.parents, heap := st.heap.erase x, dc := st.dc } P := by
  refine ⟨inv_erase x hinv.base hx, hinv.link, hinv.psound, hinv.dcEq, ?_, ?_, hinv.pcomplete,
    hinv.pcount⟩
  · intro y cy hy h hm
    exact hinv.heapFresh y cy hy h (List.mem_of_mem_erase hm)
  · intro v cv h
    have h1 := hinv.heapOnce v cv h
    have h2 : (st.heap.erase x).count (cv, v) ≤ st.heap.count (cv, v) :=
      (List.erase_sublist).count_le _
    exact Nat.le_trans h2 h1

theorem awinv_settle {g : Graph} {s t cap : Nat} {S : List Nat} {u0 : Nat} {st : AWSt} {P : ParentMap}
    {u : Nat} {c : Int} (hinv : AwInv g s t cap S u0 [] st P) (huS : u ∉ S)
    (hdu : lookupDist st.dist u = some c) (hmin : ∀ c' v, (c', v) ∈ st.heap → c ≤ c') :
    AwInv g s t cap (u :: S) u (dijCands g u)
      { dist := st.dist, parents := st.parents, heap := st.heap.erase (c, u), dc := st.dc } P := by
  have hb1 := inv_settle hinv.base huS hdu hmin
  have hb2 := inv_erase (c, u) hb1 (by
    intro v cv _ hvS heq
    simp only [Prod.mk.injEq] at heq
    exact hvS (by simp [heq.2]))
  refine ⟨hb2, hinv.link, ?_, hinv.dcEq, ?_, ?_, ?_, ?_⟩
  · intro v ps h p eid hm
    obtain ⟨h1, h2⟩ := hinv.psound v ps h p eid hm
    exact ⟨by simp [h1], h2⟩
  · intro x cx hx h hm
    simp only [List.mem_cons] at hx
    rcases hx with rfl | hx
    · rw [hdu] at h
      simp only [Option.some.injEq] at h
      subst h
      have h1 := hinv.heapOnce x c hdu
      have h2 : 0 < (st.heap.erase (c, x)).count (c, x) := List.count_pos_iff.2 hm
      rw [List.count_erase_self] at h2
      omega
    · exact hinv.heapFresh x cx hx h (List.mem_of_mem_erase hm)
  · intro v cv h
    have h1 := hinv.heapOnce v cv h
    have h2 : (st.heap.erase (c, u)).count (cv, v) ≤ st.heap.count (cv, v) :=
      (List.erase_sublist).count_le _
    exact Nat.le_trans h2 h1
  · intro hcap x hx v e hvs he hj
    simp only [List.mem_cons] at hx
    rcases hx with rfl | hx
    · left; exact ⟨rfl, dijCands_complete he hj⟩
    · rcases hinv.pcomplete hcap x hx v e hvs he hj with ⟨_, hm⟩ | h
      · simp at hm
      · right; exact h
  · intro v
    have h0 := hinv.pcount v
    rw [awPendCount_nil] at h0
    simp only [List.map_cons, List.sum_cons]
    omega

/-- the loop stopped for a reason other than fuel: every entry left in the heap is past the
    destination cost (in particular the heap is empty when the destination was never reached) -/
def AwTerm (st : AWSt) : Prop := ∀ c v, (c, v) ∈ st.heap → ∃ ct, st.dc = some ct ∧ ct < c

/-- postcondition of `awLoop`; `fuelOk` = "the fuel covers the potential of the start state" -/
def AwPost (g : Graph) (s t cap : Nat) (fuelOk : Prop) : Except Nat AWSt → Prop
  | .error _ => False
  | .ok st => ∃ S u0 P, AwInv g s t cap S u0 [] st P ∧ (fuelOk → AwTerm st)

theorem AwPost.mono {g : Graph} {s t cap : Nat} {A B : Prop} (hab : A → B) :
    ∀ r, AwPost g s t cap B r → AwPost g s t cap A r
  | .error _, h => h
  | .ok _, ⟨S, u0, P, h1, h2⟩ => ⟨S, u0, P, h1, fun ha => h2 (hab ha)⟩

theorem awLoop_post {g : Graph} (hnn : NonNeg g) {s t cap : Nat} :
    ∀ (fuel : Nat) (st : AWSt) (S : List Nat) (u0 : Nat) (P : ParentMap), AwInv g s t cap S u0 [] st P →
      AwPost g s t cap (pot g (awProj st P) S ≤ fuel) (awLoop g cap t fuel st) := by
  intro fuel
  induction fuel with
  | zero =>
    intro st S u0 P hinv
    rw [awLoop]
    refine ⟨S, u0, P, hinv, ?_⟩
    intro hpot c v hm
    have : st.heap.length = 0 := by unfold pot awProj at hpot; simp only at hpot; omega
    rw [List.eq_nil_of_length_eq_zero this] at hm
    simp at hm
  | succ n ih =>
    intro st S u0 P hinv
    rw [awLoop]
    cases hp : popMin st.heap with
    | none =>
      simp only
      refine ⟨S, u0, P, hinv, ?_⟩
      intro _ c v hm
      rw [popMin_none hp] at hm
      simp at hm
    | some r =>
      obtain ⟨⟨c, u⟩, h'⟩ := r
      obtain ⟨hmem, rfl, hmin'⟩ := popMin_spec hp
      have hmin : ∀ c' v, (c', v) ∈ st.heap → c ≤ c' := fun c' v h => hmin' (c', v) h
      have hlen : (st.heap.erase (c, u)).length + 1 = st.heap.length := by
        have := List.length_erase_of_mem hmem
        have := List.length_pos_of_mem hmem
        omega
      simp only
      by_cases hpd : pastDest c st.dc = true
      · rw [if_pos hpd]
        refine ⟨S, u0, P, hinv, ?_⟩
        intro _ c' v hm
        cases hdc : st.dc with
        | none => rw [hdc] at hpd; simp [pastDest] at hpd
        | some ct =>
          rw [hdc] at hpd
          simp only [pastDest, decide_eq_true_eq] at hpd
          have := hmin c' v hm
          exact ⟨ct, rfl, by omega⟩
      · rw [if_neg hpd]
        obtain ⟨cu, hdu, hcu⟩ := hinv.base.heapUp c u hmem
        have hdu' : lookupDist st.dist u = some cu := hdu
        by_cases hst : stale c (lookupDist st.dist u) = true
        · rw [if_pos hst]
          have hne : c ≠ cu := by
            rw [hdu'] at hst
            simp only [stale, decide_eq_true_eq] at hst
            omega
          have hinv' := awinv_erase (c, u) hinv (by
            intro v cv hv _ heq
            simp only [Prod.mk.injEq] at heq
            obtain ⟨rfl, rfl⟩ := heq
            rw [hdu'] at hv
            simp only [Option.some.injEq] at hv
            exact hne hv.symm)
          refine AwPost.mono ?_ _ (ih _ S u0 P hinv')
          unfold pot awProj
          simp only
          omega
        · rw [if_neg hst]
          have hceq : cu = c := by
            rw [hdu'] at hst
            simp only [stale, decide_eq_true_eq] at hst
            omega
          subst hceq
          have huS : u ∉ S := fun h => hinv.heapFresh u cu h hdu' hmem
          have hinv2 := awinv_settle hinv huS hdu' hmin
          obtain ⟨st', P', hr, hinv3, hlen3⟩ := awRelax_inv hnn (s := s) (t := t) (cap := cap)
            (S := u :: S) (u := u) (c := cu) (by simp) (dijCands g u) _ P hinv2 hdu'
            (by
              intro x cx hx hdx
              simp only [List.mem_cons] at hx
              rcases hx with rfl | hx
              · rw [hdu'] at hdx
                simp only [Option.some.injEq] at hdx
                omega
              · obtain ⟨cx', h1, h2⟩ := hinv.base.settled x hx
                have h1' : lookupDist st.dist x = some cx' := h1
                rw [hdx] at h1'
                simp only [Option.some.injEq] at h1'
                subst h1'
                exact h2 cu u hmem)
            (fun v e hm => mem_dijCands hm)
          rw [hr]
          simp only
          refine AwPost.mono ?_ _ (ih st' (u :: S) u P' hinv3)
          have hcard : (u :: S).length ≤ (walkNodes g s).length :=
            nodup_subset_length hinv3.base.nodup (by
              intro x hx
              obtain ⟨cx, h1, _⟩ := hinv3.base.settled x hx
              exact (hinv3.base.sound x cx h1).mem_walkNodes)
          rw [walkNodes_length] at hcard
          have hk := dijCands_length_le g u
          simp only [List.length_cons] at hcard hlen3
          unfold pot awProj
          simp only [List.length_cons]
          have hsplit : 2 * g.edges.length + 1 - S.length = (2 * g.edges.length + 1 - (S.length + 1)) + 1 := by
            omega
          rw [hsplit, Nat.mul_succ]
          generalize 2 * g.edges.length * (2 * g.edges.length + 1 - (S.length + 1)) = X
          omega

theorem awLoop_main {g : Graph} (hnn : NonNeg g) (s t cap : Nat) :
    AwPost g s t cap True
      (awLoop g cap t (dijFuel g) { dist := [(s, 0)], parents := [], heap := [(0, s)], dc := none }) :=
  AwPost.mono (fun _ => dijFuel_covers g s) _
    (awLoop_post hnn (dijFuel g) _ [] s [] (awinv_init g s t cap s))

/-! ### what the final state says about arbitrary walks -/

theorem aw_opt_of_bound {g : Graph} (hnn : NonNeg g) {s : Nat} {S : List Nat} {u0 : Nat} {st : DijSt}
    (hinv : Inv g s S u0 [] st) (m : Int) (hm : ∀ c v, (c, v) ∈ st.heap → m ≤ c)
    {v : Nat} {c' : Int} (hw : WWalk g s v c') :
    (∃ cv, lookupDist st.dist v = some cv ∧ cv ≤ c') ∨ m ≤ c' := by
  by_cases hsS : s ∈ S
  · rcases walk_bound hnn hinv m hm s v c' hw hsS 0 hinv.src0 with ⟨cv, h1, h2⟩ | h
    · left; exact ⟨cv, h1, by omega⟩
    · right; omega
  · right
    have := hm 0 s (hinv.heapLive s 0 hinv.src0 hsS)
    have := hw.nonneg hnn
    omega

/-- the loop result, spelled out: `total` is the distance of `t`, it is optimal, and every node
    reachable within `total` has been expanded with its optimal distance -/
theorem aw_final_facts {g : Graph} (hnn : NonNeg g) {s t cap : Nat} (hts : t ≠ s) {S : List Nat} {u0 : Nat}
    {st : AWSt} {P : ParentMap} (hinv : AwInv g s t cap S u0 [] st P) (hterm : AwTerm st) {total : Int}
    (hdc : st.dc = some total) :
    lookupDist st.dist t = some total ∧
    ∀ v c', WWalk g s v c' → c' ≤ total →
      v ∈ S ∧ ∃ cv, lookupDist st.dist v = some cv ∧ cv ≤ c' := by
  have hdt : lookupDist st.dist t = some total := by rw [← hinv.dcEq hts, hdc]
  refine ⟨hdt, ?_⟩
  intro v c' hw hle
  have hm : ∀ c x, (c, x) ∈ st.heap → total + 1 ≤ c := by
    intro c x h
    obtain ⟨ct, h1, h2⟩ := hterm c x h
    rw [hdc] at h1
    simp only [Option.some.injEq] at h1
    omega
  rcases aw_opt_of_bound hnn hinv.base (total + 1) hm hw with ⟨cv, h1, h2⟩ | h
  · refine ⟨?_, cv, h1, h2⟩
    apply Classical.byContradiction
    intro hvS
    have := hm cv v (hinv.base.heapLive v cv h1 hvS)
    omega
  · omega

theorem aw_final_opt {g : Graph} (hnn : NonNeg g) {s t cap : Nat} (hts : t ≠ s) {S : List Nat} {u0 : Nat}
    {st : AWSt} {P : ParentMap} (hinv : AwInv g s t cap S u0 [] st P) (hterm : AwTerm st) {total : Int}
    (hdc : st.dc = some total) :
    WWalk g s t total ∧ ∀ c', WWalk g s t c' → total ≤ c' := by
  obtain ⟨hdt, hall⟩ := aw_final_facts hnn hts hinv hterm hdc
  refine ⟨hinv.base.sound t total hdt, ?_⟩
  intro c' hw
  by_cases hle : c' ≤ total
  · obtain ⟨_, cv, h1, h2⟩ := hall t c' hw hle
    rw [hdt] at h1
    simp only [Option.some.injEq] at h1
    omega
  · omega

theorem aw_final_none {g : Graph} (hnn : NonNeg g) {s t cap : Nat} (hts : t ≠ s) {S : List Nat} {u0 : Nat}
    {st : AWSt} {P : ParentMap} (hinv : AwInv g s t cap S u0 [] st P) (hterm : AwTerm st)
    (hdc : st.dc = none) : ¬ ∃ c, WWalk g s t c := by
  have hdt : lookupDist st.dist t = none := by rw [← hinv.dcEq hts, hdc]
  have hempty : st.heap = [] := by
    cases hh : st.heap with
    | nil => rfl
    | cons x xs =>
      obtain ⟨ct, h1, _⟩ := hterm x.1 x.2 (by rw [hh]; simp)
      rw [hdc] at h1
      simp at h1
  have htS : t ∉ S := by
    intro h
    obtain ⟨cx, h1, _⟩ := hinv.base.settled t h
    have h1' : lookupDist st.dist t = some cx := h1
    rw [hdt] at h1'
    simp at h1'
  exact final_none hnn hinv.base htS hempty

/-! ### enumeration of the parent chains: soundness -/

theorem awEnum_sound {g : Graph} {s t cap : Nat} {S : List Nat} {u0 : Nat} {st : AWSt} {P : ParentMap}
    {total : Int} (hinv : AwInv g s t cap S u0 [] st P) :
    ∀ (d cur : Nat) (ns es : List Nat) (cc : Int),
      lookupDist st.dist cur = some cc →
      (cur :: ns).getLast? = some t →
      WChainOk g (cur :: ns) es (total - cc) →
      (cur :: ns).Nodup →
      ∀ p, p ∈ awEnum st.parents s d cur (cur :: ns) es →
        p.nodes.head? = some s ∧ p.nodes.getLast? = some t ∧
          WChainOk g p.nodes p.edges total ∧ p.nodes.Nodup := by
  intro d
  induction d with
  | zero =>
    intro cur ns es cc hd hlast hchain hnd p hp
    rw [awEnum] at hp
    by_cases hcs : cur = s
    · subst hcs
      simp only [beq_self_eq_true, if_true, List.mem_singleton] at hp
      subst hp
      have h0 : lookupDist st.dist cur = some 0 := hinv.base.src0
      rw [h0] at hd
      simp only [Option.some.injEq] at hd
      subst hd
      rw [Int.sub_zero] at hchain
      exact ⟨rfl, hlast, hchain, hnd⟩
    · have hbeq : (cur == s) = false := by simp [hcs]
      simp [hbeq] at hp
  | succ n ih =>
    intro cur ns es cc hd hlast hchain hnd p hp
    rw [awEnum] at hp
    by_cases hcs : cur = s
    · subst hcs
      simp only [beq_self_eq_true, if_true, List.mem_singleton] at hp
      subst hp
      have h0 : lookupDist st.dist cur = some 0 := hinv.base.src0
      rw [h0] at hd
      simp only [Option.some.injEq] at hd
      subst hd
      rw [Int.sub_zero] at hchain
      exact ⟨rfl, hlast, hchain, hnd⟩
    · have hbeq : (cur == s) = false := by simp [hcs]
      simp only [hbeq, Bool.false_eq_true, if_false] at hp
      cases hl : lookupParents st.parents cur with
      | none => rw [hl] at hp; simp at hp
      | some ps =>
        rw [hl] at hp
        simp only [List.mem_flatMap] at hp
        obtain ⟨⟨q, eid⟩, hq, hp⟩ := hp
        simp only at hp
        by_cases hcon : (cur :: ns).contains q = true
        · rw [if_pos hcon] at hp; simp at hp
        · rw [if_neg hcon] at hp
          have hqps : (q, eid) ∈ ps := List.mem_reverse.1 hq
          obtain ⟨_, e, cp, h1, h2, h3, h4, h5⟩ := hinv.psound cur ps hl q eid hqps
          rw [hd] at h5
          simp only [Option.some.injEq] at h5
          apply ih q (cur :: ns) (eid :: es) cp h4 _ _ _ p hp
          · rw [List.getLast?_cons_cons]; exact hlast
          · rw [wchain_cons]
            refine ⟨e, h1, h2, h3, ?_⟩
            have : total - cp - e.w = total - cc := by omega
            rw [this]; exact hchain
          · refine List.nodup_cons.2 ⟨?_, hnd⟩
            intro hmem
            apply hcon
            simp only [List.contains_eq_mem, decide_eq_true_eq] 
            exact hmem

/-! ### the theorems -/

theorem awp_total_optimal (g : Graph) (mp cap s t : Nat) (r : AllWPaths) (hnn : NonNeg g)
    (h : findAllWeightedPaths g mp cap s t = .ok r) :
    WWalk g s t r.total ∧ ∀ c, WWalk g s t c → r.total ≤ c := by
  unfold findAllWeightedPaths at h
  split at h
  · simp at h
  · split at h
    · simp at h
    · split at h
      · rename_i hst
        simp only [beq_iff_eq] at hst
        subst hst
        simp only [Except.ok.injEq] at h
        subst h
        exact ⟨WWalk.nil s, fun c hw => hw.nonneg hnn⟩
      · rename_i hst
        have hts : t ≠ s := by
          intro h'; apply hst; simp [h']
        have hpost := awLoop_main hnn s t cap
        split at h
        · simp at h
        · rename_i st hl
          rw [hl] at hpost
          obtain ⟨S, u0, P, hinv, hterm⟩ := hpost
          split at h
          · simp at h
          · rename_i total hdc
            simp only [Except.ok.injEq] at h
            subst h
            exact aw_final_opt hnn hts hinv (hterm trivial) hdc

theorem awp_paths_sound (g : Graph) (mp cap s t : Nat) (r : AllWPaths) (hnn : NonNeg g)
    (h : findAllWeightedPaths g mp cap s t = .ok r) :
    ∀ p, p ∈ r.paths → p.nodes.head? = some s ∧ p.nodes.getLast? = some t ∧
      WChainOk g p.nodes p.edges r.total ∧ p.nodes.Nodup := by
  unfold findAllWeightedPaths at h
  split at h
  · simp at h
  · split at h
    · simp at h
    · split at h
      · rename_i hst
        simp only [beq_iff_eq] at hst
        subst hst
        simp only [Except.ok.injEq] at h
        subst h
        intro p hp
        simp only [List.mem_singleton] at hp
        subst hp
        exact ⟨rfl, rfl, by simp [WChainOk], by simp⟩
      · rename_i hst
        have hts : t ≠ s := by
          intro h'; apply hst; simp [h']
        have hpost := awLoop_main hnn s t cap
        split at h
        · simp at h
        · rename_i st hl
          rw [hl] at hpost
          obtain ⟨S, u0, P, hinv, hterm⟩ := hpost
          split at h
          · simp at h
          · rename_i total hdc
            simp only [Except.ok.injEq] at h
            subst h
            intro p hp
            have hp' := List.mem_of_mem_take hp
            have hdt : lookupDist st.dist t = some total := by rw [← hinv.dcEq hts, hdc]
            exact awEnum_sound (total := total) hinv (awDepth g) t [] [] total hdt rfl
              (by rw [wchain_single]; omega) (by simp) p hp'

theorem awp_cases (g : Graph) (mp cap s t : Nat) (hnn : NonNeg g)
    (hs : g.hasNode s = true) (ht : g.hasNode t = true) :
    (∃ r, findAllWeightedPaths g mp cap s t = .ok r) ∨
      (findAllWeightedPaths g mp cap s t = .error .pathNotFound ∧ ¬ ∃ c, WWalk g s t c) := by
  unfold findAllWeightedPaths
  simp only [hs, ht, Bool.not_true, Bool.false_eq_true, if_false]
  by_cases hst : s = t
  · subst hst
    simp only [beq_self_eq_true, if_true]
    left; exact ⟨_, rfl⟩
  · have hbeq : (s == t) = false := by simp [hst]
    have hts : t ≠ s := fun h => hst h.symm
    simp only [hbeq, Bool.false_eq_true, if_false]
    have hpost := awLoop_main hnn s t cap
    cases hl : awLoop g cap t (dijFuel g) { dist := [(s, 0)], parents := [], heap := [(0, s)], dc := none } with
    | error id => rw [hl] at hpost; exact absurd hpost (by simp [AwPost])
    | ok st =>
      rw [hl] at hpost
      obtain ⟨S, u0, P, hinv, hterm⟩ := hpost
      simp only
      cases hdc : st.dc with
      | none =>
        right
        exact ⟨rfl, aw_final_none hnn hts hinv (hterm trivial) hdc⟩
      | some total =>
        left; exact ⟨_, rfl⟩

theorem awp_none_iff_unreachable (g : Graph) (mp cap s t : Nat) (hnn : NonNeg g)
    (hs : g.hasNode s = true) (ht : g.hasNode t = true) :
    findAllWeightedPaths g mp cap s t = .error .pathNotFound ↔ ¬ ∃ c, WWalk g s t c := by
  rcases awp_cases g mp cap s t hnn hs ht with ⟨r, hr⟩ | ⟨he, hn⟩
  · rw [hr]
    constructor
    · intro h; simp at h
    · intro h
      exact absurd ⟨r.total, (awp_total_optimal g mp cap s t r hnn hr).1⟩ h
  · rw [he]
    exact ⟨fun _ => hn, fun _ => rfl⟩

theorem aw_wchain_walk {g : Graph} {t : Nat} :
    ∀ (ns es : List Nat) (x : Nat) (c : Int), WChainOk g (x :: ns) es c →
      (x :: ns).getLast? = some t → WWalk g x t c := by
  intro ns
  induction ns with
  | nil =>
    intro es x c hc hl
    cases es with
    | nil =>
      rw [wchain_single] at hc
      subst hc
      simp only [List.getLast?_singleton, Option.some.injEq] at hl
      subst hl
      exact WWalk.nil x
    | cons e es => simp [WChainOk] at hc
  | cons y ns ih =>
    intro es x c hc hl
    cases es with
    | nil => simp [WChainOk] at hc
    | cons eid es =>
      rw [wchain_cons] at hc
      obtain ⟨e, h1, _, h3, h4⟩ := hc
      rw [List.getLast?_cons_cons] at hl
      have hw := WWalk.cons e ⟨h1, h3⟩ (ih es y (c - e.w) h4 hl)
      have heq : e.w + (c - e.w) = c := by omega
      rw [heq] at hw
      exact hw

theorem aw_fwp_cases (g : Graph) (s t : Nat) (hnn : NonNeg g)
    (hs : g.hasNode s = true) (ht : g.hasNode t = true) :
    (∃ p, findWeightedPath g s t = .ok p) ∨
      (findWeightedPath g s t = .error .pathNotFound ∧ ¬ ∃ c, WWalk g s t c) := by
  cases hf : findWeightedPath g s t with
  | ok p => left; exact ⟨p, rfl⟩
  | error err =>
    right
    cases err with
    | pathNotFound => exact ⟨rfl, (dijkstra_none_iff_unreachable g s t hnn hs ht).1 hf⟩
    | negativeWeight id =>
      obtain ⟨e, he, _, hw⟩ := dijkstra_negative_reported g s t id hf
      have := hnn e he
      omega
    | nodeNotFound n =>
      exfalso
      unfold findWeightedPath at hf
      simp only [hs, ht, Bool.not_true, Bool.false_eq_true, if_false] at hf
      split at hf
      · simp at hf
      · split at hf <;> simp at hf

theorem awp_total_eq_dijkstra (g : Graph) (mp cap s t : Nat) (hnn : NonNeg g)
    (hs : g.hasNode s = true) (ht : g.hasNode t = true) :
    (findAllWeightedPaths g mp cap s t).toOption.map (·.total) =
      (findWeightedPath g s t).toOption.map (·.total) := by
  rcases awp_cases g mp cap s t hnn hs ht with ⟨r, hr⟩ | ⟨he, hn⟩
  · obtain ⟨hw, hopt⟩ := awp_total_optimal g mp cap s t r hnn hr
    rcases aw_fwp_cases g s t hnn hs ht with ⟨p, hp⟩ | ⟨he', hn'⟩
    · rw [hr, hp]
      obtain ⟨h1, h2, h3⟩ := dijkstra_path_is_walk g s t p hnn hp
      have hopt' := dijkstra_optimal g s t p hnn hp
      have hw' : WWalk g s t p.total := by
        cases hn : p.nodes with
        | nil => rw [hn] at h1; simp at h1
        | cons x ns =>
          rw [hn] at h1 h2 h3
          simp only [List.head?_cons, Option.some.injEq] at h1
          subst h1
          exact aw_wchain_walk ns p.edges x p.total h3 h2
      have h4 := hopt p.total hw'
      have h5 := hopt' r.total hw
      have : r.total = p.total := by omega
      simp only [Except.toOption, Option.map_some, this]
    · exact absurd ⟨r.total, hw⟩ hn'
  · rcases aw_fwp_cases g s t hnn hs ht with ⟨p, hp⟩ | ⟨he', _⟩
    · obtain ⟨h1, h2, h3⟩ := dijkstra_path_is_walk g s t p hnn hp
      exfalso
      apply hn
      cases hnn' : p.nodes with
      | nil => rw [hnn'] at h1; simp at h1
      | cons x ns =>
        rw [hnn'] at h1 h2 h3
        simp only [List.head?_cons, Option.some.injEq] at h1
        subst h1
        exact ⟨p.total, aw_wchain_walk ns p.edges x p.total h3 h2⟩
    · rw [he, he']
      rfl

/-! ### at least one path is listed: the chain of first parents is simple -/

/-- expansion time of a node (`|S| + 1` for a node not yet expanded) -/
def awKey (S : List Nat) (v : Nat) : Nat := if v ∈ S then rank S v else S.length + 1

theorem awKey_pos (S : List Nat) (v : Nat) : 1 ≤ awKey S v := by
  unfold awKey
  split
  · rename_i h; exact rank_pos h
  · omega

theorem awEnum_nonempty {g : Graph} {s t cap : Nat} {S : List Nat} {u0 : Nat} {st : AWSt} {P : ParentMap}
    (hinv : AwInv g s t cap S u0 [] st P) :
    ∀ (d cur : Nat) (ns es : List Nat) (cc : Int),
      lookupDist st.dist cur = some cc →
      awKey S cur ≤ d →
      (∀ x, x ∈ ns → awKey S cur < awKey S x) →
      awEnum st.parents s d cur (cur :: ns) es ≠ [] := by
  intro d
  induction d with
  | zero =>
    intro cur ns es cc _ hk _
    have := awKey_pos S cur
    omega
  | succ n ih =>
    intro cur ns es cc hd hk hns
    rw [awEnum]
    by_cases hcs : cur = s
    · subst hcs
      simp
    · have hbeq : (cur == s) = false := by simp [hcs]
      simp only [hbeq, Bool.false_eq_true, if_false]
      obtain ⟨p, eid, e, cp, h1, _, _, _, h5, _, h7, h8⟩ := hinv.base.par cur cc hd hcs
      obtain ⟨ps, hl, hmem⟩ := hinv.link cur p eid h1
      rw [hl]
      simp only
      have hkp : awKey S p < awKey S cur := by
        unfold awKey
        rw [if_pos h7]
        split
        · rename_i hc; exact h8 hc
        · have := rank_le S p; omega
      intro hnil
      have hz := (List.flatMap_eq_nil_iff.1 hnil) (p, eid) (List.mem_reverse.2 hmem)
      simp only at hz
      have hcon : ¬ (cur :: ns).contains p = true := by
        simp only [List.contains_eq_mem, decide_eq_true_eq, List.mem_cons, not_or]
        constructor
        · intro h; subst h; omega
        · intro h; have := hns p h; omega
      rw [if_neg hcon] at hz
      refine ih p (cur :: ns) (eid :: es) cp h5 (by omega) ?_ hz
      intro x hx
      simp only [List.mem_cons] at hx
      rcases hx with rfl | hx
      · exact hkp
      · have := hns x hx; omega

theorem awp_nonempty (g : Graph) (mp cap s t : Nat) (r : AllWPaths) (hnn : NonNeg g) (hmp : 0 < mp)
    (h : findAllWeightedPaths g mp cap s t = .ok r) : r.paths ≠ [] := by
  unfold findAllWeightedPaths at h
  split at h
  · simp at h
  · split at h
    · simp at h
    · split at h
      · simp only [Except.ok.injEq] at h
        subst h
        simp
      · rename_i hst
        have hts : t ≠ s := by
          intro h'; apply hst; simp [h']
        have hpost := awLoop_main hnn s t cap
        split at h
        · simp at h
        · rename_i st hl
          rw [hl] at hpost
          obtain ⟨S, u0, P, hinv, hterm⟩ := hpost
          split at h
          · simp at h
          · rename_i total hdc
            simp only [Except.ok.injEq] at h
            subst h
            simp only
            have hdt : lookupDist st.dist t = some total := by rw [← hinv.dcEq hts, hdc]
            have hcard : S.length ≤ (walkNodes g s).length :=
              nodup_subset_length hinv.base.nodup (by
                intro x hx
                obtain ⟨cx, h1, _⟩ := hinv.base.settled x hx
                exact (hinv.base.sound x cx h1).mem_walkNodes)
            rw [walkNodes_length] at hcard
            have hk : awKey S t ≤ awDepth g := by
              unfold awKey awDepth
              split
              · have := rank_le S t; omega
              · omega
            have hne := awEnum_nonempty hinv (awDepth g) t [] [] total hdt hk (by simp)
            cases hL : awEnum st.parents s (awDepth g) t [t] [] with
            | nil => exact absurd hL hne
            | cons x xs =>
              cases mp with
              | zero => omega
              | succ k => simp

/-! ### every simple minimum-weight chain is listed -/

theorem aw_walk_append {g : Graph} {a b d : Nat} {c1 c2 : Int}
    (h1 : WWalk g a b c1) (h2 : WWalk g b d c2) : WWalk g a d (c1 + c2) := by
  induction h1 with
  | nil u => rw [Int.zero_add]; exact h2
  | @cons u v w c' e hs _ ih =>
    have := WWalk.cons e hs (ih h2)
    have heq : e.w + c' + c2 = e.w + (c' + c2) := by omega
    rw [heq]; exact this

/-- a node on a minimum-weight route has been expanded, with the weight of the route's prefix as distance -/
theorem aw_exact_dist {g : Graph} (hnn : NonNeg g) {s t cap : Nat} (hts : t ≠ s) {S : List Nat} {u0 : Nat}
    {st : AWSt} {P : ParentMap} (hinv : AwInv g s t cap S u0 [] st P) (hterm : AwTerm st) {total : Int}
    (hdc : st.dc = some total) {x : Nat} {a c : Int}
    (h1 : WWalk g s x a) (h2 : WWalk g x t c) (hsum : a + c = total) :
    x ∈ S ∧ lookupDist st.dist x = some a := by
  obtain ⟨_, hopt⟩ := aw_final_opt hnn hts hinv hterm hdc
  obtain ⟨_, hall⟩ := aw_final_facts hnn hts hinv hterm hdc
  have hc := h2.nonneg hnn
  obtain ⟨hxS, cv, h3, h4⟩ := hall x a h1 (by omega)
  have h5 := hopt (cv + c) (aw_walk_append (hinv.base.sound x cv h3) h2)
  have h6 : cv = a := by omega
  subst h6
  exact ⟨hxS, h3⟩

/-- a chain through parent entries, listed from the end: `v :: p :: …` with `(p, eid) ∈ parents[v]` -/
def awPCr (M : MultiParent) : List Nat → List Nat → Prop
  | [_], [] => True
  | v :: p :: rest, eid :: re =>
    (∃ ps, lookupParents M v = some ps ∧ (p, eid) ∈ ps) ∧ awPCr M (p :: rest) re
  | _, _ => False

theorem awPCr_cons (M : MultiParent) (v p : Nat) (rest : List Nat) (eid : Nat) (re : List Nat) :
    awPCr M (v :: p :: rest) (eid :: re) ↔
      (∃ ps, lookupParents M v = some ps ∧ (p, eid) ∈ ps) ∧ awPCr M (p :: rest) re := by
  simp [awPCr]

theorem aw_chain_PCr {g : Graph} (hnn : NonNeg g) {s t cap : Nat} (hts : t ≠ s) {S : List Nat} {u0 : Nat}
    {st : AWSt} {P : ParentMap} (hinv : AwInv g s t cap S u0 [] st P) (hterm : AwTerm st) {total : Int}
    (hdc : st.dc = some total) (hcap : 2 * g.edges.length ≤ cap) :
    ∀ (ns es : List Nat) (x : Nat) (a c : Int) (racc reacc : List Nat),
      awPCr st.parents (x :: racc) reacc → WWalk g s x a → WChainOk g (x :: ns) es c →
      (x :: ns).getLast? = some t → a + c = total → s ∉ ns →
      awPCr st.parents ((x :: ns).reverse ++ racc) (es.reverse ++ reacc) := by
  intro ns
  induction ns with
  | nil =>
    intro es x a c racc reacc hacc _ hchain _ _ _
    cases es with
    | nil => simpa using hacc
    | cons e es => simp [WChainOk] at hchain
  | cons y ns ih =>
    intro es x a c racc reacc hacc hwalk hchain hlast hsum hs
    cases es with
    | nil => simp [WChainOk] at hchain
    | cons eid es =>
      have hxt := aw_wchain_walk (y :: ns) (eid :: es) x c hchain hlast
      rw [wchain_cons] at hchain
      obtain ⟨e, h1, h2, h3, h4⟩ := hchain
      rw [List.getLast?_cons_cons] at hlast
      have hyt := aw_wchain_walk ns es y (c - e.w) h4 hlast
      have hsy : WWalk g s y (a + e.w) := hwalk.snoc ⟨h1, h3⟩
      obtain ⟨hxS, hdx⟩ := aw_exact_dist hnn hts hinv hterm hdc hwalk hxt hsum
      obtain ⟨_, hdy⟩ := aw_exact_dist hnn hts hinv hterm hdc hsy hyt (by omega)
      simp only [List.mem_cons, not_or] at hs
      have hys : y ≠ s := fun h => hs.1 h.symm
      have hlink : ∃ ps, lookupParents st.parents y = some ps ∧ (x, eid) ∈ ps := by
        rcases hinv.pcomplete hcap x hxS y e hys h1 h3 with ⟨_, hm⟩ | ⟨cx, cv, h5, h6, _, h8⟩
        · simp at hm
        · rw [hdx] at h5
          rw [hdy] at h6
          simp only [Option.some.injEq] at h5 h6
          subst h5 h6
          rw [← h2]
          exact h8 rfl
      have := ih es y (a + e.w) (c - e.w) (x :: racc) (eid :: reacc)
        ((awPCr_cons _ _ _ _ _ _).2 ⟨hlink, hacc⟩) hsy h4 hlast (by omega) hs.2
      simpa [List.reverse_cons, List.append_assoc] using this

theorem awEnum_complete (M : MultiParent) (s : Nat) :
    ∀ (rp : List Nat) (d cur : Nat) (re ns' es' : List Nat),
      awPCr M (cur :: rp) re → (rp.reverse ++ cur :: ns').Nodup →
      (cur :: rp).getLast? = some s → rp.length ≤ d →
      ({ nodes := rp.reverse ++ cur :: ns', edges := re.reverse ++ es' } : Path) ∈
        awEnum M s d cur (cur :: ns') es' := by
  intro rp
  induction rp with
  | nil =>
    intro d cur re ns' es' hpc _ hlast _
    simp only [List.getLast?_singleton, Option.some.injEq] at hlast
    subst hlast
    cases re with
    | cons e re => simp [awPCr] at hpc
    | nil =>
      cases d with
      | zero => rw [awEnum]; simp
      | succ n => rw [awEnum]; simp
  | cons p rp ih =>
    intro d cur re ns' es' hpc hnd hlast hlen
    cases re with
    | nil => simp [awPCr] at hpc
    | cons eid re =>
      rw [awPCr_cons] at hpc
      obtain ⟨⟨ps, hl, hmem⟩, hrest⟩ := hpc
      rw [List.getLast?_cons_cons] at hlast
      have hsmem : s ∈ p :: rp := List.mem_of_getLast? hlast
      have hdisj := (List.nodup_append.1 hnd).2.2
      have hcs : cur ≠ s := by
        intro h
        exact hdisj s (List.mem_reverse.2 hsmem) cur (by simp) h.symm
      have hcon : ¬ (cur :: ns').contains p = true := by
        simp only [List.contains_eq_mem, decide_eq_true_eq]
        intro hm
        exact hdisj p (List.mem_reverse.2 (by simp)) p hm rfl
      cases d with
      | zero => simp at hlen
      | succ n =>
        rw [awEnum]
        have hbeq : (cur == s) = false := by simp [hcs]
        simp only [hbeq, Bool.false_eq_true, if_false, hl, List.mem_flatMap]
        refine ⟨(p, eid), List.mem_reverse.2 hmem, ?_⟩
        simp only
        rw [if_neg hcon]
        have := ih n p re (cur :: ns') (eid :: es') hrest
          (by simpa [List.reverse_cons, List.append_assoc] using hnd) hlast
          (by simp only [List.length_cons] at hlen; omega)
        simpa [List.reverse_cons, List.append_assoc] using this

theorem aw_chain_nodes {g : Graph} :
    ∀ (ns es : List Nat) (x : Nat) (c : Int), WChainOk g (x :: ns) es c →
      ∀ y, y ∈ ns → y ∈ g.edges.flatMap (fun e => [e.src, e.dst]) := by
  intro ns
  induction ns with
  | nil => intro es x c _ y hy; simp at hy
  | cons z ns ih =>
    intro es x c hchain y hy
    cases es with
    | nil => simp [WChainOk] at hchain
    | cons eid es =>
      rw [wchain_cons] at hchain
      obtain ⟨e, h1, _, h3, h4⟩ := hchain
      simp only [List.mem_cons] at hy
      rcases hy with rfl | hy
      · simp only [List.mem_flatMap]
        refine ⟨e, h1, ?_⟩
        unfold Edge.joins at h3
        simp only [List.mem_cons]
        grind
      · exact ih es z (c - e.w) h4 y hy

theorem awp_complete (g : Graph) (mp cap s t : Nat) (r : AllWPaths) (hnn : NonNeg g)
    (h : findAllWeightedPaths g mp cap s t = .ok r)
    (hcap : 2 * g.edges.length ≤ cap) (hmax : r.paths.length < mp)
    (ns es : List Nat) (hhead : ns.head? = some s) (hlast : ns.getLast? = some t)
    (hchain : WChainOk g ns es r.total) (hnd : ns.Nodup) :
    { nodes := ns, edges := es } ∈ r.paths := by
  cases ns with
  | nil => simp at hhead
  | cons x tl =>
    simp only [List.head?_cons, Option.some.injEq] at hhead
    subst hhead
    unfold findAllWeightedPaths at h
    split at h
    · simp at h
    · split at h
      · simp at h
      · split at h
        · rename_i hst
          simp only [beq_iff_eq] at hst
          subst hst
          simp only [Except.ok.injEq] at h
          subst h
          cases tl with
          | nil =>
            cases es with
            | nil => simp
            | cons e es => simp [WChainOk] at hchain
          | cons y tl =>
            exfalso
            rw [List.getLast?_cons_cons] at hlast
            have := List.mem_of_getLast? hlast
            exact (List.nodup_cons.1 hnd).1 this
        · rename_i hst
          have hts : t ≠ x := by
            intro h'; apply hst; simp [h']
          have hpost := awLoop_main hnn x t cap
          split at h
          · simp at h
          · rename_i st hl
            rw [hl] at hpost
            obtain ⟨S, u0, P, hinv, hterm⟩ := hpost
            split at h
            · simp at h
            · rename_i total hdc
              simp only [Except.ok.injEq] at h
              subst h
              simp only at hchain hmax ⊢
              have hxtl : x ∉ tl := (List.nodup_cons.1 hnd).1
              have hpc := aw_chain_PCr hnn hts hinv (hterm trivial) hdc hcap tl es x 0 total [] []
                (by simp [awPCr]) (WWalk.nil x) hchain hlast (by omega) hxtl
              simp only [List.append_nil] at hpc
              -- the reversed node list starts with `t`
              have hrh : (x :: tl).reverse.head? = some t := by rw [List.head?_reverse]; exact hlast
              cases hr : (x :: tl).reverse with
              | nil => rw [hr] at hrh; simp at hrh
              | cons t' rp =>
                rw [hr] at hrh hpc
                simp only [List.head?_cons, Option.some.injEq] at hrh
                subst hrh
                have hns : x :: tl = rp.reverse ++ [t'] := by
                  have := congrArg List.reverse hr
                  simpa [List.reverse_cons] using this
                have hlast' : (t' :: rp).getLast? = some x := by
                  rw [← hr, List.getLast?_reverse]; rfl
                have hsub : ∀ y, y ∈ x :: tl → y ∈ walkNodes g x := by
                  intro y hy
                  unfold walkNodes
                  simp only [List.mem_cons] at hy ⊢
                  rcases hy with rfl | hy
                  · left; rfl
                  · right; exact aw_chain_nodes tl es x total hchain y hy
                have hcard := nodup_subset_length hnd hsub
                rw [walkNodes_length, hns] at hcard
                simp only [List.length_append, List.length_reverse, List.length_cons, List.length_nil] at hcard
                have hmemL := awEnum_complete st.parents x rp (awDepth g) t' es.reverse [] []
                  hpc (by rw [← hns]; exact hnd) hlast' (by unfold awDepth; omega)
                rw [← hns] at hmemL
                simp only [List.reverse_reverse, List.append_nil] at hmemL
                -- the cap `mp` was not reached
                have hLlen : (awEnum st.parents x (awDepth g) t' [t'] []).length < mp := by
                  rw [List.length_take] at hmax
                  omega
                rw [List.take_of_length_le (by omega)]
                exact hmemL

/-! ### the hypotheses are satisfiable; what the model answers on small graphs -/

/-- a diamond with two minimum-weight routes and a heavier direct edge -/
def awExGraph : Graph :=
  { nodes := [⟨0, none⟩, ⟨1, none⟩, ⟨2, none⟩, ⟨3, none⟩, ⟨4, none⟩]
    edges := [⟨10, 0, 1, true, 0, some 1, none⟩, ⟨11, 0, 2, true, 0, some 1, none⟩,
              ⟨12, 1, 3, true, 0, some 1, none⟩, ⟨13, 2, 3, true, 0, some 1, none⟩,
              ⟨14, 0, 3, true, 0, some 5, none⟩] }

theorem awExGraph_nonneg : NonNeg awExGraph := by
  intro e he
  simp only [awExGraph, List.mem_cons, List.not_mem_nil, or_false] at he
  rcases he with rfl | rfl | rfl | rfl | rfl <;> decide

example : NonNeg awExGraph ∧ 2 * awExGraph.edges.length ≤ 10 ∧
    findAllWeightedPaths awExGraph 10 10 0 3 =
      .ok { total := 2, paths := [{ nodes := [0, 1, 3], edges := [10, 12] },
                                   { nodes := [0, 2, 3], edges := [11, 13] }] } :=
  ⟨awExGraph_nonneg, by decide, by rfl⟩

/-- `max_paths = 1` truncates the list, `max_parents_per_node = 1` keeps the first parent only -/
example : findAllWeightedPaths awExGraph 1 10 0 3 =
      .ok { total := 2, paths := [{ nodes := [0, 1, 3], edges := [10, 12] }] } ∧
    findAllWeightedPaths awExGraph 10 1 0 3 =
      .ok { total := 2, paths := [{ nodes := [0, 2, 3], edges := [11, 13] }] } :=
  ⟨by rfl, by rfl⟩

example : awExGraph.hasNode 0 = true ∧ awExGraph.hasNode 4 = true ∧
    findAllWeightedPaths awExGraph 10 10 0 4 = .error .pathNotFound :=
  ⟨by rfl, by rfl, by rfl⟩

example : findAllWeightedPaths
    { nodes := [⟨0, none⟩, ⟨1, none⟩], edges := [⟨7, 0, 1, true, 0, some (-4), none⟩] } 10 10 0 1 =
    .error (.negativeWeight 7) := by rfl

/-- observation (not excluded by the theorems above, which speak about membership): an undirected
    edge followed from its `dst` end to its `src` end is a candidate of BOTH loops of one expansion
    (out-list and in-list), the second relaxation finds an equal cost and pushes the same parent
    entry again, so the same path is listed twice. -/
example : findAllWeightedPaths
    { nodes := [⟨0, none⟩, ⟨1, none⟩], edges := [⟨10, 1, 0, false, 0, some 2, none⟩] } 10 10 0 1 =
    .ok { total := 2, paths := [{ nodes := [0, 1], edges := [10] }, { nodes := [0, 1], edges := [10] }] } := by
  rfl

end Neumann.Paths
