import NeumannModel.Paths.UnionFindProofs
import NeumannModel.Paths.ForestProofs
/-
  C18 — correctness of the model of `minimum_spanning_tree` (Kruskal, algorithms/mst.rs).

  Part 1: the concrete loop `kruskal` (union-find with path compression and union by rank, early
          return of the `!compute_forest` mode) computes the abstract loop `greedy` of
          `ForestProofs.lean`, and its final union-find represents `Joined` of the accepted edges.
  Part 2: the theorems about `mstOf`: spanning forest, exact tree count, minimal total weight,
          independence of the scan order and of `compute_forest`, the empty answer.
-/
namespace Neumann.Paths

set_option linter.unusedVariables false
set_option linter.unusedSimpArgs false

/-! ## Part 1 — the concrete loop is the abstract greedy -/

theorem kr_nil (fuel : Nat) (forest : Bool) (n : Nat) (uf : UF) (acc : List Edge) :
    kruskal fuel forest n [] uf acc = (uf, acc) := rfl

theorem kr_cons (fuel : Nat) (forest : Bool) (n : Nat) (e : Edge) (es : List Edge) (uf : UF)
    (acc : List Edge) :
    kruskal fuel forest n (e :: es) uf acc =
      if (ufUnion fuel uf e.src e.dst).2 = true then
        if (!forest && (e :: acc).length == n - 1) = true then
          ((ufUnion fuel uf e.src e.dst).1, e :: acc)
        else kruskal fuel forest n es (ufUnion fuel uf e.src e.dst).1 (e :: acc)
      else kruskal fuel forest n es (ufUnion fuel uf e.src e.dst).1 acc := rfl

/-- once every remaining edge has joined ends the abstract loop accepts nothing more -/
theorem mst_greedy_all_joined (es acc : List Edge) (h : ∀ e, e ∈ es → Joined acc e.src e.dst) :
    greedy es acc = acc := by
  induction es with
  | nil => exact greedy_nil acc
  | cons e es ih =>
    rw [greedy_cons_pos (h e (List.mem_cons_self ..))]
    exact ih (fun x hx => h x (List.mem_cons_of_mem _ hx))

/-- the union-find is well formed with rank bound `k` and represents exactly `Joined acc` -/
def KrInv (uf : UF) (k : Nat) (acc : List Edge) : Prop :=
  uf.Good k ∧ ∀ a b, uf.rep k a = uf.rep k b ↔ Joined acc a b

theorem kr_inv_new (nodes : List Nat) : KrInv (UF.new nodes) 0 [] := by
  refine ⟨UF.new_good nodes, fun a b => ?_⟩
  rw [UF.new_rep, UF.new_rep]
  exact joined_nil_iff.symm

theorem kr_loop {ns : List Nat} (hnd : ns.Nodup) (fuel : Nat) (forest : Bool) :
    ∀ (es : List Edge) (uf : UF) (acc : List Edge) (k : Nat),
      (∀ e, e ∈ es → e.src ∈ ns ∧ e.dst ∈ ns) → (∀ e, e ∈ acc → e.src ∈ ns ∧ e.dst ∈ ns) →
      SeqAcyclic acc → k + es.length < fuel → KrInv uf k acc →
      (kruskal fuel forest ns.length es uf acc).2 = greedy es acc ∧
      ∃ k', k' < fuel ∧ KrInv (kruskal fuel forest ns.length es uf acc).1 k' (greedy es acc) := by
  intro es
  induction es with
  | nil =>
    intro uf acc k _ _ _ hf hinv
    rw [kr_nil, greedy_nil]
    exact ⟨rfl, k, by simpa using hf, hinv⟩
  | cons e es ih =>
    intro uf acc k hes hacc hac hf hinv
    obtain ⟨hg, hrep⟩ := hinv
    rw [List.length_cons] at hf
    obtain ⟨g', hacc_iff, r'⟩ := ufUnion_spec hg (show k < fuel by omega) e.src e.dst
    have hesrc := hes e (List.mem_cons_self ..)
    have hes' : ∀ x, x ∈ es → x.src ∈ ns ∧ x.dst ∈ ns :=
      fun x hx => hes x (List.mem_cons_of_mem _ hx)
    rw [kr_cons]
    by_cases hj : Joined acc e.src e.dst
    · -- rejected: the classes do not change
      have hr : ¬ (ufUnion fuel uf e.src e.dst).2 = true := by
        rw [hacc_iff]; exact fun hne => hne ((hrep _ _).2 hj)
      rw [if_neg hr, greedy_cons_pos hj]
      apply ih _ acc (k + 1) hes' hacc hac (by omega)
      refine ⟨g', fun a b => ?_⟩
      rw [r' a b, hrep, hrep, hrep, hrep, hrep]
      constructor
      · rintro (h | ⟨h1, h2⟩ | ⟨h1, h2⟩)
        · exact h
        · exact h1.trans (hj.trans h2.symm)
        · exact h1.trans (hj.symm.trans h2.symm)
      · exact Or.inl
    · -- accepted: two classes merge
      have hr : (ufUnion fuel uf e.src e.dst).2 = true := by
        rw [hacc_iff]; exact fun heq => hj ((hrep _ _).1 heq)
      rw [if_pos hr, greedy_cons_neg hj]
      have hinv' : KrInv (ufUnion fuel uf e.src e.dst).1 (k + 1) (e :: acc) := by
        refine ⟨g', fun a b => ?_⟩
        rw [r' a b, hrep, hrep, hrep, hrep, hrep, joined_cons_iff]
        constructor
        · rintro (h | ⟨h1, h2⟩ | ⟨h1, h2⟩)
          · exact Or.inl h
          · exact Or.inr (Or.inl ⟨h1, h2.symm⟩)
          · exact Or.inr (Or.inr ⟨h1, h2.symm⟩)
        · rintro (h | ⟨h1, h2⟩ | ⟨h1, h2⟩)
          · exact Or.inl h
          · exact Or.inr (Or.inl ⟨h1, h2.symm⟩)
          · exact Or.inr (Or.inr ⟨h1, h2.symm⟩)
      have hacc' : ∀ x, x ∈ e :: acc → x.src ∈ ns ∧ x.dst ∈ ns := by
        intro x hx
        rcases List.mem_cons.1 hx with rfl | hx
        · exact hesrc
        · exact hacc x hx
      have hac' : SeqAcyclic (e :: acc) := ⟨hj, hac⟩
      by_cases hstop : (!forest && (e :: acc).length == ns.length - 1) = true
      · -- early return: one class is left, nothing more would be accepted
        rw [if_pos hstop]
        have hlen : (e :: acc).length = ns.length - 1 := by
          simp only [Bool.and_eq_true, beq_iff_eq] at hstop
          exact hstop.2
        have hcl := seqAcyclic_classes hnd hacc' hac'
        have hnpos : 0 < ns.length := List.length_pos_of_mem hesrc.1
        have h1 : classes ns (e :: acc) ≤ 1 := by
          generalize (e :: acc).length = m at hlen hcl
          omega
        have hall : greedy es (e :: acc) = e :: acc :=
          mst_greedy_all_joined _ _
            (fun x hx => classes_one_joined hnd h1 (hes' x hx).1 (hes' x hx).2)
        rw [hall]
        exact ⟨rfl, k + 1, by omega, hinv'⟩
      · rw [if_neg hstop]
        exact ih _ (e :: acc) (k + 1) hes' hacc' hac' (by omega) hinv'

/-! ## Part 2 — `mstOf` -/

theorem mst_hasNode_iff (g : Graph) (x : Nat) : g.hasNode x = true ↔ x ∈ g.nodes.map (·.id) := by
  unfold Graph.hasNode
  simp only [List.any_eq_true, beq_iff_eq, List.mem_map]

theorem mst_unfold (g : Graph) (forest : Bool) (order : List Edge) :
    mstOf g forest order =
      if (g.nodes.map (·.id)).isEmpty = true then none
      else some
        { edges := (kruskal (ufFuel g) forest (g.nodes.map (·.id)).length (sortByW order)
              (UF.new (g.nodes.map (·.id))) []).2.reverse,
          total := sumW (kruskal (ufFuel g) forest (g.nodes.map (·.id)).length (sortByW order)
              (UF.new (g.nodes.map (·.id))) []).2.reverse,
          trees := ((ufLabels (ufFuel g) (g.nodes.map (·.id))
              (kruskal (ufFuel g) forest (g.nodes.map (·.id)).length (sortByW order)
                (UF.new (g.nodes.map (·.id))) []).1).map (·.2)).eraseDups.length } := rfl

theorem mst_none_iff (g : Graph) (forest : Bool) (order : List Edge) :
    mstOf g forest order = none ↔ g.nodes = [] := by
  rw [mst_unfold]
  cases hnodes : g.nodes with
  | nil => simp
  | cons x xs => simp

/-- members of the sorted scan are edges of the graph -/
theorem mst_mem_sorted {g : Graph} {order : List Edge} (hperm : order.Perm g.edges) (e : Edge) :
    e ∈ sortByW order ↔ e ∈ g.edges :=
  ((sortByW_perm order).trans hperm).mem_iff

theorem mst_sorted_ends {g : Graph} {order : List Edge} (hperm : order.Perm g.edges)
    (hend : EndpointsExist g) :
    ∀ e, e ∈ sortByW order → e.src ∈ g.nodes.map (·.id) ∧ e.dst ∈ g.nodes.map (·.id) := by
  intro e he
  have := hend e ((mst_mem_sorted hperm e).1 he)
  exact ⟨(mst_hasNode_iff g _).1 this.1, (mst_hasNode_iff g _).1 this.2⟩

/-- the answer of `mstOf` in terms of the abstract loop: the accepted edges are those of `greedy`
    (in acceptance order), the total is their weight, and the tree count plus the number of accepted
    edges is the number of nodes -/
theorem mst_core (g : Graph) (forest : Bool) (order : List Edge) (r : MstRes)
    (hperm : order.Perm g.edges) (hend : EndpointsExist g) (hn : NodesUnique g)
    (h : mstOf g forest order = some r) :
    r.edges = (greedy (sortByW order) []).reverse ∧
    r.total = sumW (greedy (sortByW order) []) ∧
    r.trees + (greedy (sortByW order) []).length = g.nodes.length := by
  have hnd : (g.nodes.map (·.id)).Nodup := hn
  have hin := mst_sorted_ends hperm hend
  have hlen : (sortByW order).length = g.edges.length :=
    ((sortByW_perm order).trans hperm).length_eq
  obtain ⟨hacc, k', hk', hg', hrep'⟩ :=
    kr_loop hnd (ufFuel g) forest (sortByW order) (UF.new (g.nodes.map (·.id))) [] 0 hin
      (fun e he => absurd he List.not_mem_nil) trivial
      (by rw [hlen]; unfold ufFuel; omega) (kr_inv_new _)
  rw [mst_unfold] at h
  by_cases hempty : (g.nodes.map (·.id)).isEmpty = true
  · rw [if_pos hempty] at h
    exact absurd h (by simp)
  · rw [if_neg hempty] at h
    have hr := (Option.some.inj h).symm
    rw [ufLabels_spec hg' hk', hacc] at hr
    subst hr
    refine ⟨rfl, sumW_perm (List.reverse_perm _), ?_⟩
    show ((List.map (fun n => (n, _)) (g.nodes.map (·.id))).map (·.2)).eraseDups.length + _ = _
    rw [List.map_map]
    have hfun : ((fun x : Nat × Nat => x.2) ∘ fun n =>
        (n, (kruskal (ufFuel g) forest (g.nodes.map (·.id)).length (sortByW order)
              (UF.new (g.nodes.map (·.id))) []).1.rep k' n)) =
        (kruskal (ufFuel g) forest (g.nodes.map (·.id)).length (sortByW order)
              (UF.new (g.nodes.map (·.id))) []).1.rep k' := rfl
    rw [hfun, classes_eq_reps _ hrep']
    have := seqAcyclic_classes hnd (fun e he => hin e (greedy_mem he))
      (greedy_seqAcyclic (sortByW order))
    rw [this, List.length_map]

/-- `IsForest` does not depend on the order in which the edges are listed -/
theorem mst_isForest_perm {F F' : List Edge} (hp : F.Perm F') (h : IsForest F) : IsForest F' := by
  refine ⟨hp.nodup_iff.1 h.1, fun e he hj => ?_⟩
  refine h.2 e (hp.mem_iff.2 he) ?_
  exact Joined.mono (fun x hx => ((hp.erase e).mem_iff).2 hx) hj

theorem mst_spans (g : Graph) (order : List Edge) (hperm : order.Perm g.edges) :
    Spans g (greedy (sortByW order) []).reverse := by
  refine ⟨fun e he => ?_, fun u v => ?_⟩
  · exact (mst_mem_sorted hperm e).1 (greedy_mem (List.mem_reverse.1 he))
  · rw [Joined.congr_mem (fun e => List.mem_reverse) u v, greedy_joined]
    exact Joined.congr_mem (mst_mem_sorted hperm) u v

theorem mst_spanning_forest (g : Graph) (forest : Bool) (order : List Edge) (r : MstRes)
    (hperm : order.Perm g.edges) (hend : EndpointsExist g) (hn : NodesUnique g) (he : EdgesUnique g)
    (h : mstOf g forest order = some r) :
    Spans g r.edges ∧ IsForest r.edges ∧ r.total = sumW r.edges ∧
      r.trees + r.edges.length = g.nodes.length := by
  obtain ⟨hed, htot, htr⟩ := mst_core g forest order r hperm hend hn h
  have hnd : (g.nodes.map (·.id)).Nodup := hn
  have hsnd : (sortByW order).Nodup :=
    ((sortByW_perm order).trans hperm).nodup_iff.2 he
  rw [hed]
  refine ⟨mst_spans g order hperm, ?_, ?_, ?_⟩
  · exact mst_isForest_perm (List.reverse_perm _).symm
      (greedy_isForest hnd (mst_sorted_ends hperm hend) hsnd)
  · rw [htot]; exact sumW_perm (List.reverse_perm _).symm
  · rw [List.length_reverse]; exact htr

/-- the counting part needs no uniqueness of edge records -/
theorem mst_tree_count (g : Graph) (forest : Bool) (order : List Edge) (r : MstRes)
    (hperm : order.Perm g.edges) (hend : EndpointsExist g) (hn : NodesUnique g)
    (h : mstOf g forest order = some r) :
    r.total = sumW r.edges ∧ r.trees + r.edges.length = g.nodes.length := by
  obtain ⟨hed, htot, htr⟩ := mst_core g forest order r hperm hend hn h
  rw [hed, List.length_reverse]
  exact ⟨htot.trans (sumW_perm (List.reverse_perm _).symm), htr⟩

theorem mst_minimal (g : Graph) (forest : Bool) (order : List Edge) (r : MstRes)
    (hperm : order.Perm g.edges) (hend : EndpointsExist g) (hn : NodesUnique g)
    (h : mstOf g forest order = some r) :
    ∀ F, Spans g F → SeqAcyclic F → r.total ≤ sumW F := by
  intro F hsp hac
  obtain ⟨_, htot, _⟩ := mst_core g forest order r hperm hend hn h
  have hnd : (g.nodes.map (·.id)).Nodup := hn
  rw [htot]
  refine greedy_minimal hnd (mst_sorted_ends hperm hend) (sortByW_sorted order)
    (fun e he => (mst_mem_sorted hperm e).2 (hsp.1 e he)) (fun u v => ?_) hac
  rw [hsp.2 u v]
  exact (Joined.congr_mem (mst_mem_sorted hperm) u v).symm

theorem mst_minimal_forest (g : Graph) (forest : Bool) (order : List Edge) (r : MstRes)
    (hperm : order.Perm g.edges) (hend : EndpointsExist g) (hn : NodesUnique g)
    (h : mstOf g forest order = some r) :
    ∀ F, Spans g F → IsForest F → r.total ≤ sumW F :=
  fun F hsp hF => mst_minimal g forest order r hperm hend hn h F hsp (isForest_seqAcyclic hF)

theorem mst_scan_order_irrelevant (g : Graph) (forest forest' : Bool) (order order' : List Edge)
    (r r' : MstRes)
    (hperm : order.Perm g.edges) (hperm' : order'.Perm g.edges) (hend : EndpointsExist g)
    (hn : NodesUnique g)
    (h : mstOf g forest order = some r) (h' : mstOf g forest' order' = some r') :
    r.total = r'.total ∧ r.trees = r'.trees ∧ r.edges.map Edge.w = r'.edges.map Edge.w := by
  obtain ⟨hed, htot, htr⟩ := mst_core g forest order r hperm hend hn h
  obtain ⟨hed', htot', htr'⟩ := mst_core g forest' order' r' hperm' hend hn h'
  have hnd : (g.nodes.map (·.id)).Nodup := hn
  have hp : (sortByW order).Perm (sortByW order') :=
    ((sortByW_perm order).trans hperm).trans ((sortByW_perm order').trans hperm').symm
  have hw := greedy_weights_unique hnd (mst_sorted_ends hperm hend) hp (sortByW_sorted order)
    (sortByW_sorted order')
  have hlen : (greedy (sortByW order) []).length = (greedy (sortByW order') []).length := by
    have := congrArg List.length hw
    rwa [List.length_map, List.length_map, List.length_reverse, List.length_reverse] at this
  refine ⟨?_, by omega, by rw [hed, hed']; exact hw⟩
  rw [htot, htot', sumW_perm (List.reverse_perm (greedy (sortByW order) [])).symm,
    sumW_perm (List.reverse_perm (greedy (sortByW order') [])).symm, sumW_eq_sum, sumW_eq_sum, hw]

/-! ## a concrete graph: nodes 1..4 and the isolated 5; a negative weight, a missing weight
    (counts 1) and a tie between the two heaviest edges -/

def mstExampleGraph : Graph :=
  { nodes := [⟨1, none⟩, ⟨2, none⟩, ⟨3, none⟩, ⟨4, none⟩, ⟨5, none⟩],
    edges := [⟨1, 1, 2, false, 0, some 3, none⟩, ⟨2, 2, 3, false, 0, some (-1), none⟩,
              ⟨3, 1, 3, false, 0, some 3, none⟩, ⟨4, 3, 4, false, 0, none, none⟩] }

example : (minimumSpanningTree mstExampleGraph true).map
    (fun r => (r.total, r.trees, r.edges.map Edge.w)) = some (3, 2, [-1, 1, 3]) := by decide

example : (minimumSpanningTree mstExampleGraph false).map
    (fun r => (r.total, r.trees, r.edges.map Edge.w)) = some (3, 2, [-1, 1, 3]) := by decide

example : (minimumSpanningTree mstExampleGraph true).map (fun r => r.edges.map Edge.id)
    = some [2, 4, 1] := by decide

/-- the other scan order of the tie accepts the other edge of weight 3: same total, trees, weights -/
example : (mstOf mstExampleGraph false mstExampleGraph.edges.reverse).map
    (fun r => (r.total, r.trees, r.edges.map Edge.w, r.edges.map Edge.id))
    = some (3, 2, [-1, 1, 3], [2, 4, 3]) := by decide

example : minimumSpanningTree { nodes := [], edges := [] } true = none := by decide

end Neumann.Paths
