import NeumannModel.Gossip.ClusterLemmas
/-
  C17 helper lemmas for RefuteProps: a refutation (`refute(m, n)`, the operation behind
  `GossipMessage::Alive`) against news about OLDER incarnations of `m` (stale suspicions, merged
  Degraded / Failed / Unknown states of an incarnation below `n`, older refutations, ping acks).
-/
namespace Neumann.Gossip

/-- what `merge` does to a member that is already in the view: the register it holds afterwards
    is at least the old one and is either the old one or an entry of the batch -/
theorem merge_present (s : State) (b : List Update) (m : Nat) (e : Reg) (h : s.regs m = some e) :
    ∃ e', (merge s b).1.regs m = some e' ∧ e.le e' ∧ (e' = e ∨ (⟨m, e'⟩ : Update) ∈ b) := by
  have hj := joinList_isJoin (s.regs m) (forMember m b)
  rw [← merge_apply, h] at hj
  obtain ⟨h1, h2, _⟩ := hj
  cases hr : (merge s b).1.regs m with
  | none => rw [hr] at h2; simp [OLe] at h2
  | some e' =>
    rw [hr] at h1 h2
    refine ⟨e', rfl, by simpa [OLe] using h2, ?_⟩
    cases h1 with
    | inl h1 => left; cases h1; rfl
    | inr h1 =>
      obtain ⟨x, hx, ex⟩ := h1
      cases ex
      exact Or.inr (mem_forMember.mp hx)

/-- one of the four guarded local events seen from member `m`: nothing, or it acted on `m` -/
theorem localOp_reg (c : Reg → Prop) [DecidablePred c] (f : Reg → Nat → Reg) (s : State) (k m : Nat)
    (e : Reg) (h : s.regs m = some e) :
    (localOp c f s k).1.regs m = some e ∨
      (k = m ∧ c e ∧ (localOp c f s k).1.regs m = some (f e (s.clock + 1))) := by
  rcases localOp_cases c f s k with h' | ⟨e0, he0, hc, h'⟩ <;> rw [h']
  · exact Or.inl h
  · by_cases hm : m = k
    · subst hm
      rw [h] at he0; cases he0
      exact Or.inr ⟨rfl, hc, setReg_same _ _ _⟩
    · left; simp only []; rw [setReg_other _ _ hm]; exact h

theorem suspect_reg (s : State) (k i m : Nat) (e : Reg) (h : s.regs m = some e) :
    (suspect s k i).1.regs m = some e ∨ (k = m ∧ (e.inc = i ∧ e.health ≠ .failed) ∧
      (suspect s k i).1.regs m = some { e with health := .degraded, ts := s.clock + 1 }) := by
  rw [suspect_spec]; exact localOp_reg _ _ s k m e h
theorem fail_reg (s : State) (k m : Nat) (e : Reg) (h : s.regs m = some e) :
    (fail s k).1.regs m = some e ∨ (k = m ∧ e.health ≠ .failed ∧
      (fail s k).1.regs m = some { e with health := .failed, ts := s.clock + 1 }) := by
  rw [fail_spec]; exact localOp_reg _ _ s k m e h
theorem refute_reg (s : State) (k i m : Nat) (e : Reg) (h : s.regs m = some e) :
    (refute s k i).1.regs m = some e ∨ (k = m ∧ i > e.inc ∧
      (refute s k i).1.regs m = some ⟨.healthy, s.clock + 1, i⟩) := by
  rw [refute_spec]; exact localOp_reg _ _ s k m e h
theorem markHealthy_reg (s : State) (k m : Nat) (e : Reg) (h : s.regs m = some e) :
    (markHealthy s k).1.regs m = some e ∨ (k = m ∧ e.health ≠ .healthy ∧
      (markHealthy s k).1.regs m = some { e with health := .healthy, ts := s.clock + 1 }) := by
  rw [markHealthy_spec]; exact localOp_reg _ _ s k m e h

/-- Operations that carry, about member `m`, only news of incarnations BELOW `n`: merged states
    of `m` with a lower incarnation (any health, any timestamp), suspicions and refutations of a
    lower incarnation, `mark_healthy` (not tagged with an incarnation: it only ever keeps the
    recorded one), clock operations, and anything at all about other members.  Not in the class:
    `fail(m)` and `update_local(m, ..)` — they are verdicts about whatever incarnation is
    recorded, not about an older one. -/
def StaleFor (m n : Nat) : Op → Prop
  | .merge b => ∀ u ∈ b, u.node = m → u.reg.inc < n
  | .updateLocal k _ _ => k ≠ m
  | .suspect k i => k = m → i < n
  | .fail k => k ≠ m
  | .refute k i => k = m → i < n
  | .markHealthy _ => True
  | .tick => True
  | .syncTime _ => True

/-- `m` is in the view at an incarnation in `[lo, n)` -/
def Below (m lo n : Nat) (s : State) : Prop := ∃ e, s.regs m = some e ∧ lo ≤ e.inc ∧ e.inc < n

theorem stale_below {m lo n : Nat} {s : State} {o : Op} (hs : StaleFor m n o) (hb : Below m lo n s) :
    Below m lo n (apply s o) := by
  obtain ⟨e, he, hlo, hlt⟩ := hb
  cases o with
  | merge b =>
    obtain ⟨e', he', hle, hor⟩ := merge_present s b m e he
    have hinc := Reg.le_inc hle
    refine ⟨e', he', by omega, ?_⟩
    cases hor with
    | inl h => rw [h]; exact hlt
    | inr h => exact hs _ h rfl
  | updateLocal k hh i =>
    have hk : m ≠ k := fun x => hs x.symm
    exact ⟨e, by simp only [apply, updateLocal]; rw [setReg_other _ _ hk]; exact he, hlo, hlt⟩
  | suspect k i =>
    rcases suspect_reg s k i m e he with h | ⟨_, _, h⟩
    · exact ⟨e, h, hlo, hlt⟩
    · exact ⟨_, h, hlo, hlt⟩
  | fail k =>
    rcases fail_reg s k m e he with h | ⟨_, _, h⟩
    · exact ⟨e, h, hlo, hlt⟩
    · exact ⟨_, h, hlo, hlt⟩
  | refute k i =>
    rcases refute_reg s k i m e he with h | ⟨hk, hc, h⟩
    · exact ⟨e, h, hlo, hlt⟩
    · have := hs hk
      exact ⟨_, h, by simp only []; omega, this⟩
  | markHealthy k =>
    rcases markHealthy_reg s k m e he with h | ⟨_, _, h⟩
    · exact ⟨e, h, hlo, hlt⟩
    · exact ⟨_, h, hlo, hlt⟩
  | tick => exact ⟨e, he, hlo, hlt⟩
  | syncTime t => exact ⟨e, he, hlo, hlt⟩

/-- once `m` is recorded Healthy at incarnation `n`, news about lower incarnations does not
    touch its register at all (health, timestamp and incarnation stay) -/
theorem stale_refuted {m n t : Nat} {s : State} {o : Op} (hs : StaleFor m n o)
    (he : s.regs m = some ⟨.healthy, t, n⟩) : (apply s o).regs m = some ⟨.healthy, t, n⟩ := by
  cases o with
  | merge b =>
    obtain ⟨e', he', hle, hor⟩ := merge_present s b m _ he
    cases hor with
    | inl h => show (merge s b).1.regs m = _; rw [he', h]
    | inr h =>
      have h1 := hs _ h rfl
      have h2 := Reg.le_inc hle
      simp only [] at h1 h2
      omega
  | updateLocal k hh i =>
    have hk : m ≠ k := fun x => hs x.symm
    simp only [apply, updateLocal]; rw [setReg_other _ _ hk]; exact he
  | suspect k i =>
    rcases suspect_reg s k i m _ he with h | ⟨hk, hc, _⟩
    · exact h
    · have := hs hk; simp only [] at hc; omega
  | fail k =>
    rcases fail_reg s k m _ he with h | ⟨hk, _, _⟩
    · exact h
    · exact absurd hk hs
  | refute k i =>
    rcases refute_reg s k i m _ he with h | ⟨hk, hc, _⟩
    · exact h
    · have := hs hk; simp only [] at hc; omega
  | markHealthy k =>
    rcases markHealthy_reg s k m _ he with h | ⟨_, hc, _⟩
    · exact h
    · simp only [] at hc; exact absurd rfl hc
  | tick => exact he
  | syncTime t => exact he

theorem run_stale_below {m lo n : Nat} (ops : List Op) {s : State} (hs : ∀ o ∈ ops, StaleFor m n o)
    (hb : Below m lo n s) : Below m lo n (run s ops) := by
  induction ops generalizing s with
  | nil => exact hb
  | cons o os ih =>
    exact ih (fun x hx => hs x (List.mem_cons_of_mem _ hx)) (stale_below (hs o (List.mem_cons_self ..)) hb)

theorem run_stale_refuted {m n t : Nat} (ops : List Op) {s : State} (hs : ∀ o ∈ ops, StaleFor m n o)
    (he : s.regs m = some ⟨.healthy, t, n⟩) : (run s ops).regs m = some ⟨.healthy, t, n⟩ := by
  induction ops generalizing s with
  | nil => exact he
  | cons o os ih =>
    exact ih (fun x hx => hs x (List.mem_cons_of_mem _ hx)) (stale_refuted (hs o (List.mem_cons_self ..)) he)

/-- a refutation with an incarnation above the recorded one is always recorded, whatever the
    health currently recorded -/
theorem refute_fires {s : State} {m n : Nat} {e : Reg} (he : s.regs m = some e) (hlt : e.inc < n) :
    refute s m n = (⟨setReg s.regs m ⟨.healthy, s.clock + 1, n⟩, s.clock + 1⟩, true) := by
  unfold refute
  rw [he]
  simp [hlt]

/-! ### the manager -/

/-- manager events that carry only news about incarnations of `m` below `n`: a `Sync` from
    anybody but `m` whose states for `m` are all below `n`, a `Suspect` / `Alive` about a lower
    incarnation, `add_peer`, ping acks, gossip rounds in which no suspicion of `m` expires, a
    `suspect_node` of another member -/
def EvStale (m n : Nat) : MEv → Prop
  | .msg (.sync s b _) => s ≠ m ∧ ∀ u ∈ b, u.node = m → u.reg.inc < n
  | .msg (.suspect k i) => k = m → i < n
  | .msg (.alive k i) => k = m → i < n
  | .msg (.addPeer _) => True
  | .msg (.pingAck _ _) => True
  | .round _ _ ex => m ∉ ex
  | .suspectNode k => k ≠ m

theorem expireOps_stale (m n : Nat) (ex : List Nat) (hm : m ∉ ex) (g : Mgr) :
    ∀ o ∈ g.expireOps ex, StaleFor m n o := by
  induction ex generalizing g with
  | nil => intro o ho; cases ho
  | cons k ks ih =>
    have hk : k ≠ m := fun x => hm (by simp [x])
    have hks : m ∉ ks := fun x => hm (List.mem_cons_of_mem _ x)
    intro o ho
    unfold Mgr.expireOps at ho
    split at ho
    · cases List.mem_cons.mp ho with
      | inl x => subst x; exact hk
      | inr x => exact ih hks _ o x
    · exact ih hks g o ho

/-- the CRDT operations of a stale event are stale operations, provided `m` is in the view (so
    that `add_peer` never creates it) -/
theorem evOps_stale {m n : Nat} (g : Mgr) (e : MEv) (he : EvStale m n e) (hm : g.st.regs m ≠ none) :
    ∀ o ∈ g.evOps e, StaleFor m n o := by
  intro o ho
  cases e with
  | msg x =>
    cases x with
    | sync s b t =>
      simp only [Mgr.evOps, List.mem_cons, List.not_mem_nil, or_false] at ho
      rcases ho with h | h | h
      · subst h; trivial
      · subst h
        intro u hu hn
        exact he.2 u (List.mem_filter.mp hu).1 hn
      · subst h
        intro u hu hn
        simp only [List.mem_cons, List.not_mem_nil, or_false] at hu
        subst hu
        exact absurd hn he.1
    | suspect k i =>
      have hc : g.evOps (.msg (.suspect k i)) = [] ∨ g.evOps (.msg (.suspect k i)) = [.suspect k i] := by
        simp only [Mgr.evOps]; repeat' split
        all_goals simp
      rcases hc with hc | hc <;> rw [hc] at ho
      · cases ho
      · simp only [List.mem_cons, List.not_mem_nil, or_false] at ho; subst ho; exact he
    | alive k i =>
      have hc : g.evOps (.msg (.alive k i)) = [] ∨ g.evOps (.msg (.alive k i)) = [.refute k i] := by
        simp only [Mgr.evOps]; repeat' split
        all_goals simp
      rcases hc with hc | hc <;> rw [hc] at ho
      · cases ho
      · simp only [List.mem_cons, List.not_mem_nil, or_false] at ho; subst ho; exact he
    | addPeer p =>
      cases hp : g.st.regs p with
      | some x =>
        have hc : g.evOps (.msg (.addPeer p)) = [] := by simp only [Mgr.evOps, hp]
        rw [hc] at ho; cases ho
      | none =>
        have hc : g.evOps (.msg (.addPeer p)) = [.tick, .merge [⟨p, ⟨.unknown, g.st.clock + 1, 0⟩⟩]] := by
          simp only [Mgr.evOps, hp]
        rw [hc] at ho
        simp only [List.mem_cons, List.not_mem_nil, or_false] at ho
        rcases ho with h | h
        · subst h; trivial
        · subst h
          intro u hu hn
          simp only [List.mem_cons, List.not_mem_nil, or_false] at hu
          subst hu
          simp only [] at hn
          subst hn
          exact absurd hp hm
    | pingAck t ok =>
      have hc : g.evOps (.msg (.pingAck t ok)) = [] ∨ g.evOps (.msg (.pingAck t ok)) = [.markHealthy t] := by
        simp only [Mgr.evOps]; repeat' split
        all_goals simp
      rcases hc with hc | hc <;> rw [hc] at ho
      · cases ho
      · simp only [List.mem_cons, List.not_mem_nil, or_false] at ho; subst ho; trivial
  | round ord k ex => exact expireOps_stale m n ex he g o ho
  | suspectNode k =>
    have hc : g.evOps (.suspectNode k) = [] ∨ g.evOps (.suspectNode k) = [.suspect k (g.suspectInc k)] := by
      simp only [Mgr.evOps]; split <;> simp
    rcases hc with hc | hc <;> rw [hc] at ho
    · cases ho
    · simp only [List.mem_cons, List.not_mem_nil, or_false] at ho
      subst ho
      exact fun x => absurd x he

theorem stepEv_stale_below {m lo n : Nat} (g : Mgr) (e : MEv) (he : EvStale m n e)
    (hb : Below m lo n g.st) : Below m lo n (g.stepEv e).st := by
  rw [stepEv_eq_run]
  refine run_stale_below _ (evOps_stale g e he ?_) hb
  obtain ⟨x, hx, _⟩ := hb
  rw [hx]; simp

theorem stepEv_stale_refuted {m n t : Nat} (g : Mgr) (e : MEv) (he : EvStale m n e)
    (hr : g.st.regs m = some ⟨.healthy, t, n⟩) : (g.stepEv e).st.regs m = some ⟨.healthy, t, n⟩ := by
  rw [stepEv_eq_run]
  refine run_stale_refuted _ (evOps_stale g e he ?_) hr
  rw [hr]; simp

theorem runEv_maxDelta (g : Mgr) (evs : List MEv) : (g.runEv evs).maxDelta = g.maxDelta := by
  induction evs generalizing g with
  | nil => rfl
  | cons e es ih =>
    have : g.runEv (e :: es) = (g.stepEv e).runEv es := rfl
    rw [this, ih, (stepEv_local g e).2.1]

theorem runEv_append (g : Mgr) (a b : List MEv) : g.runEv (a ++ b) = (g.runEv a).runEv b := by
  unfold Mgr.runEv; rw [List.foldl_append]

theorem runEv_stale_below {m lo n : Nat} (evs : List MEv) (g : Mgr) (hs : ∀ e ∈ evs, EvStale m n e)
    (hb : Below m lo n g.st) : Below m lo n (g.runEv evs).st := by
  induction evs generalizing g with
  | nil => exact hb
  | cons e es ih =>
    exact ih (g.stepEv e) (fun x hx => hs x (List.mem_cons_of_mem _ hx))
      (stepEv_stale_below g e (hs e (List.mem_cons_self ..)) hb)

theorem runEv_stale_refuted {m n t : Nat} (evs : List MEv) (g : Mgr) (hs : ∀ e ∈ evs, EvStale m n e)
    (hr : g.st.regs m = some ⟨.healthy, t, n⟩) : (g.runEv evs).st.regs m = some ⟨.healthy, t, n⟩ := by
  induction evs generalizing g with
  | nil => exact hr
  | cons e es ih =>
    exact ih (g.stepEv e) (fun x hx => hs x (List.mem_cons_of_mem _ hx))
      (stepEv_stale_refuted g e (hs e (List.mem_cons_self ..)) hr)

/-- `handle_alive` with an incarnation above the recorded one and within the jump limit records it -/
theorem handleAlive_fires {g : Mgr} {m n : Nat} {e : Reg} (he : g.st.regs m = some e) (hlt : e.inc < n)
    (hd : n ≤ e.inc + g.maxDelta) :
    (g.handleAlive m n).st.regs m = some ⟨.healthy, g.st.clock + 1, n⟩ := by
  unfold Mgr.handleAlive
  simp only [he]
  have h1 : ¬ (n - e.inc > g.maxDelta) := by omega
  rw [if_neg h1, refute_fires he hlt]
  simp only [if_true]
  exact setReg_same _ _ _

end Neumann.Gossip
