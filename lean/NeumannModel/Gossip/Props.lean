import NeumannModel.Gossip.Lemmas
/-
  C17 — "Cluster membership views converge and never move backwards".
  ONLY property theorems and their non-vacuity examples; helpers are in `Lemmas.lean`.

  Reading guide
  * `Reg.le`  : lexicographic order on the key `(incarnation, timestamp, health_tie_rank health)`.
  * `join`    : what one step of `LWWMembershipState::merge` does to a (possibly absent) register.
  * `deliver` : a replica merging a list of batches (each batch = one `merge` call, with its
                `sync_time`), `run`/`seen` : a replica history with local events and the ghost
                list of every update it merged or generated.
  * `Sys`     : the multi-node system (Model.lean) in which incarnations for `m` are created only
                by `m` (`announce`) and reach other replicas only as `Alive`/gossip.
-/
namespace Neumann.Gossip.Props
open Neumann.Gossip

/-! ## 1. the key order is total, and `merge` takes the maximum -/

theorem key_le_refl (a : Reg) : a.le a := Reg.le_refl a
theorem key_le_total (a b : Reg) : a.le b ∨ b.le a := Reg.le_total a b
theorem key_le_trans (a b c : Reg) (h1 : a.le b) (h2 : b.le c) : a.le c := Reg.le_trans h1 h2
/-- equal keys are equal registers (`health_tie_rank` is injective): the order is a total order
    on registers, not just a preorder -/
theorem key_le_antisymm (a b : Reg) (h1 : a.le b) (h2 : b.le a) : a = b := Reg.le_antisymm h1 h2

example : (⟨.healthy, 5, 1⟩ : Reg).le ⟨.failed, 5, 1⟩ ∧ ¬ (⟨.failed, 5, 1⟩ : Reg).le ⟨.healthy, 5, 1⟩ := by decide

/-- `merge` replaces a stored register exactly when the incoming one is strictly greater -/
theorem wins_iff_key_gt (a b : Reg) : wins a b = true ↔ b.le a ∧ b ≠ a := by
  rw [wins_iff]; exact Reg.lt_iff_le_ne

/-- the unchanged `supersedes` is the restriction of the key order to `(inc, ts)` -/
theorem supersedes_iff (a b : Reg) :
    supersedes a b = true ↔ b.inc < a.inc ∨ (b.inc = a.inc ∧ b.ts < a.ts) := by
  unfold supersedes
  by_cases h : a.inc = b.inc
  · simp [h]
  · simp [h]; omega

/-- one loop iteration of `merge` on a present member stores the maximum of old and incoming -/
theorem mergeOne_eq_max (regs : Nat → Option Reg) (u : Update) (e : Reg) (h : regs u.node = some e) :
    (mergeOne regs u).1 u.node = some (regMax e u.reg) := by
  rw [mergeOne_apply, if_pos rfl, h, join_some_some]

theorem mergeOne_absent (regs : Nat → Option Reg) (u : Update) (h : regs u.node = none) :
    (mergeOne regs u).1 u.node = some u.reg := by
  rw [mergeOne_apply, if_pos rfl, h]; rfl

theorem mergeOne_other (regs : Nat → Option Reg) (u : Update) (k : Nat) (h : k ≠ u.node) :
    (mergeOne regs u).1 k = regs k := by
  rw [mergeOne_apply, if_neg h]

example : (mergeOne (fun _ => some ⟨.healthy, 5, 1⟩) ⟨0, ⟨.failed, 5, 1⟩⟩).1 0 = some ⟨.failed, 5, 1⟩ := by decide
example : (mergeOne (fun _ => some ⟨.failed, 5, 1⟩) ⟨0, ⟨.healthy, 5, 1⟩⟩).1 0 = some ⟨.failed, 5, 1⟩ := by decide

/-! ## 2. semilattice laws on registers -/

theorem merge_comm (a b : Option Reg) : join a b = join b a := join_comm' a b
theorem merge_assoc (a b c : Option Reg) : join (join a b) c = join a (join b c) := join_assoc' a b c
theorem merge_idem (a : Option Reg) : join a a = a := join_idem' a
/-- `join` is the least upper bound of the key order (with "absent" as bottom) -/
theorem merge_is_lub (a b c : Option Reg) : OLe (join a b) c ↔ OLe a c ∧ OLe b c :=
  ⟨fun h => ⟨OLe.trans (join_ge_left a b) h, OLe.trans (join_ge_right a b) h⟩, fun h => join_le h.1 h.2⟩

/-! ## 3. convergence: order, grouping and repetition of delivery do not matter -/

/-- Two replicas that start from the same state and are delivered batches whose flattened
    contents are the same **set** of updates — any order, any grouping into `merge` calls, any
    repetition, any number of members and updates — hold identical `(health, ts, inc)` for
    every member.  (Their Lamport clocks may differ: the clock counts `merge` calls.) -/
theorem merge_order_independent (s : State) (B₁ B₂ : List (List Update))
    (h : ∀ u, u ∈ B₁.flatten ↔ u ∈ B₂.flatten) (m : Nat) :
    (deliver s B₁).regs m = (deliver s B₂).regs m := by
  rw [deliver_regs, deliver_regs]
  exact isJoin_unique (joinList_isJoin _ _) (joinList_isJoin _ _)
    (fun x => by rw [mem_forMember, mem_forMember]; exact h _)

/-- the multiset form (same updates up to permutation, regrouped arbitrarily) -/
theorem merge_perm_independent (s : State) (B₁ B₂ : List (List Update))
    (h : B₁.flatten.Perm B₂.flatten) (m : Nat) : (deliver s B₁).regs m = (deliver s B₂).regs m :=
  merge_order_independent s B₁ B₂ (fun _ => h.mem_iff) m

/-- re-delivering anything already delivered changes no register -/
theorem redelivery_is_noop (s : State) (B : List (List Update)) (b : List Update)
    (h : ∀ u ∈ b, u ∈ B.flatten) (m : Nat) : (deliver s (B ++ [b])).regs m = (deliver s B).regs m := by
  apply merge_order_independent
  intro u
  simp only [List.flatten_append, List.flatten_cons, List.flatten_nil, List.append_nil, List.mem_append]
  exact ⟨fun h' => h'.elim id (h u), Or.inl⟩

-- non-vacuity: three updates with an exact tie, two orders / groupings / a repetition
example :
    let a : Update := ⟨1, ⟨.healthy, 5, 1⟩⟩
    let b : Update := ⟨1, ⟨.failed, 5, 1⟩⟩
    let c : Update := ⟨2, ⟨.degraded, 0, 3⟩⟩
    (∀ u, u ∈ [[a], [b, c]].flatten ↔ u ∈ [[c, b, b], [], [a]].flatten) ∧
    (deliver State.empty [[a], [b, c]]).regs 1 = some ⟨.failed, 5, 1⟩ ∧
    (deliver State.empty [[c, b, b], [], [a]]).regs 1 = some ⟨.failed, 5, 1⟩ := by
  refine ⟨?_, by decide, by decide⟩
  intro u; simp only [List.flatten_cons, List.flatten_nil, List.mem_append, List.mem_cons, List.not_mem_nil]
  grind

-- non-vacuity of the permutation / re-delivery forms
example : ([[(⟨0, ⟨.healthy, 1, 1⟩⟩ : Update)], [⟨0, ⟨.unknown, 1, 1⟩⟩, ⟨1, ⟨.failed, 0, 0⟩⟩]].flatten).Perm
    ([[(⟨1, ⟨.failed, 0, 0⟩⟩ : Update), ⟨0, ⟨.unknown, 1, 1⟩⟩, ⟨0, ⟨.healthy, 1, 1⟩⟩]].flatten) := by decide
example : ∀ u ∈ [(⟨0, ⟨.healthy, 1, 1⟩⟩ : Update)],
    u ∈ [[(⟨0, ⟨.healthy, 1, 1⟩⟩ : Update)], [⟨0, ⟨.unknown, 1, 1⟩⟩]].flatten := by decide

/-! ## 4. nothing moves backwards -/

/-- the Lamport clock never decreases, under every operation (merge, the local events, and the
    public `tick` / `sync_time`) -/
theorem clock_monotone (s : State) (o : Op) : s.clock ≤ (apply s o).clock := by
  cases o with
  | merge b => simp only [apply]; rw [merge_clock]; cases maxTs b <;> simp only [] <;> omega
  | updateLocal m h i => simp [apply, updateLocal]
  | suspect m i => simp only [apply]; rw [suspect_spec]; exact localOp_clock _ _ s m
  | fail m => simp only [apply]; rw [fail_spec]; exact localOp_clock _ _ s m
  | refute m i => simp only [apply]; rw [refute_spec]; exact localOp_clock _ _ s m
  | markHealthy m => simp only [apply]; rw [markHealthy_spec]; exact localOp_clock _ _ s m
  | tick => exact Nat.le_succ _
  | syncTime t => simp only [apply, syncTime]; omega

theorem clock_monotone_run (s : State) (ops : List Op) : s.clock ≤ (run s ops).clock := by
  induction ops generalizing s with
  | nil => exact Nat.le_refl _
  | cons o os ih => exact Nat.le_trans (clock_monotone s o) (ih (apply s o))

/-- a recorded member is never forgotten and its recorded incarnation never decreases, under
    every operation.  The only hypothesis is `OpOk`: `update_local` is not handed an incarnation
    below the recorded one (it inserts unconditionally — see `updateLocal_inc_decrease_witness`);
    merge, suspect, fail, refute, mark_healthy need nothing. -/
theorem inc_monotone (s : State) (o : Op) (hok : OpOk s o) (m : Nat) (e : Reg) (h : s.regs m = some e) :
    ∃ e', (apply s o).regs m = some e' ∧ e.inc ≤ e'.inc := by
  cases o with
  | merge b =>
    obtain ⟨_, h2, _⟩ := joinList_isJoin (s.regs m) (forMember m b)
    rw [← merge_apply, h] at h2
    simp only [apply]
    cases hr : (merge s b).1.regs m with
    | none => rw [hr] at h2; exact absurd h2 (by simp [OLe])
    | some e' => rw [hr] at h2; exact ⟨e', rfl, Reg.le_inc h2⟩
  | updateLocal m' hh i =>
    simp only [apply, updateLocal]
    by_cases hm : m = m'
    · subst hm; exact ⟨_, setReg_same _ _ _, hok e h⟩
    · exact ⟨e, by rw [setReg_other _ _ hm]; exact h, Nat.le_refl _⟩
  | suspect m' i => simp only [apply]; rw [suspect_spec]; exact localOp_inc (freshOk_suspect i) s m' m e h
  | fail m' => simp only [apply]; rw [fail_spec]; exact localOp_inc freshOk_fail s m' m e h
  | refute m' i => simp only [apply]; rw [refute_spec]; exact localOp_inc (freshOk_refute i) s m' m e h
  | markHealthy m' => simp only [apply]; rw [markHealthy_spec]; exact localOp_inc freshOk_markHealthy s m' m e h
  | tick => exact ⟨e, h, Nat.le_refl _⟩
  | syncTime t => exact ⟨e, h, Nat.le_refl _⟩

theorem inc_monotone_run (s : State) (ops : List Op) (hadm : Admissible s ops) (m : Nat) (e : Reg)
    (h : s.regs m = some e) : ∃ e', (run s ops).regs m = some e' ∧ e.inc ≤ e'.inc := by
  induction ops generalizing s e with
  | nil => exact ⟨e, h, Nat.le_refl _⟩
  | cons o os ih =>
    obtain ⟨e1, h1, le1⟩ := inc_monotone s o hadm.1 m e h
    obtain ⟨e2, h2, le2⟩ := ih (apply s o) hadm.2 e1 h1
    exact ⟨e2, h2, Nat.le_trans le1 le2⟩

/-- `update_local` really is unguarded: called with a lower incarnation it moves the recorded
    incarnation backwards (outside `OpOk`; production code calls it only on an empty state). -/
theorem updateLocal_inc_decrease_witness :
    let s := (updateLocal State.empty 1 .healthy 5).1
    (s.regs 1).map (·.inc) = some 5 ∧ ((updateLocal s 1 .healthy 0).1.regs 1).map (·.inc) = some 0 := by
  decide

/-- the clock invariant every reachable replica state satisfies: it dominates all stored stamps
    (`WF s` is `∀ m e, s.regs m = some e → e.ts ≤ s.clock`; `Op.merge b` takes an arbitrary batch,
    so this already covers every internal order of a batch — spelled out, with the strict form
    for a freshly merged batch, as `clock_dominates_held_timestamps` in §9) -/
theorem wf_reachable (ops : List Op) : WF (run State.empty ops) := run_wf wf_empty ops

/-- stronger than `inc_monotone`: on a reachable state every operation can only raise a member's
    whole key `(inc, ts, rank)` -/
theorem key_monotone (s : State) (hwf : WF s) (o : Op) (hok : OpOk s o) (m : Nat) :
    OLe (s.regs m) ((apply s o).regs m) := by
  rw [apply_join hwf o hok]
  exact (joinList_isJoin _ _).2.1

example : WF (run State.empty [.updateLocal 0 .healthy 0, .merge [⟨1, ⟨.degraded, 7, 2⟩⟩], .suspect 0 0]) ∧
    Admissible State.empty [.updateLocal 0 .healthy 0, .merge [⟨1, ⟨.degraded, 7, 2⟩⟩], .suspect 0 0, .updateLocal 1 .healthy 2] := by
  refine ⟨wf_reachable _, ?_⟩
  simp only [Admissible, OpOk, and_true, true_and]
  refine ⟨(by intro e h; cases h), ?_⟩
  decide

/-! ## 5. a view is the join of everything merged or generated -/

/-- After any admissible history a replica's register for `m` is the greatest element (in the
    key order) of the registers for `m` among all updates it has merged or generated: it is one
    of them (or still absent), and it dominates every one of them. -/
theorem view_is_join (ops : List Op) (hadm : Admissible State.empty ops) (m : Nat) :
    let r := (run State.empty ops).regs m
    (r = none ∨ ∃ x, (⟨m, x⟩ : Update) ∈ seen State.empty ops ∧ r = some x) ∧
    ∀ x, (⟨m, x⟩ : Update) ∈ seen State.empty ops → OLe (some x) r := by
  have hj := run_join wf_empty ops hadm m
  obtain ⟨h1, _, h3⟩ := joinList_isJoin (State.empty.regs m) (forMember m (seen State.empty ops))
  rw [← hj] at h1 h3
  refine ⟨?_, fun x hx => h3 x (mem_forMember.mpr hx)⟩
  cases h1 with
  | inl h => left; exact h
  | inr h => obtain ⟨x, hx, e⟩ := h; right; exact ⟨x, mem_forMember.mp hx, e⟩

/-- the same from any reachable (well-formed) state, as an equation -/
theorem view_is_join_from (s : State) (hwf : WF s) (ops : List Op) (hadm : Admissible s ops) (m : Nat) :
    (run s ops).regs m = joinList (s.regs m) (forMember m (seen s ops)) := run_join hwf ops hadm m

/-- Convergence with local events: two replicas whose histories (merges in any order/grouping,
    interleaved with local suspect/fail/refute/mark-healthy/update-local events) have merged or
    generated the same set of updates for `m` hold the same register for `m`. -/
theorem converge_of_same_seen (ops₁ ops₂ : List Op) (h₁ : Admissible State.empty ops₁)
    (h₂ : Admissible State.empty ops₂) (m : Nat)
    (hset : ∀ x, (⟨m, x⟩ : Update) ∈ seen State.empty ops₁ ↔ (⟨m, x⟩ : Update) ∈ seen State.empty ops₂) :
    (run State.empty ops₁).regs m = (run State.empty ops₂).regs m := by
  rw [run_join wf_empty ops₁ h₁, run_join wf_empty ops₂ h₂]
  exact isJoin_unique (joinList_isJoin _ _) (joinList_isJoin _ _)
    (fun x => by rw [mem_forMember, mem_forMember]; exact hset x)

-- non-vacuity: a replica that suspects locally and one that only hears about it converge
example :
    let h₁ : List Op := [.merge [⟨1, ⟨.healthy, 1, 0⟩⟩], .suspect 1 0]
    let h₂ : List Op := [.merge [⟨1, ⟨.degraded, 3, 0⟩⟩, ⟨1, ⟨.healthy, 1, 0⟩⟩]]
    seen State.empty h₁ = [⟨1, ⟨.healthy, 1, 0⟩⟩, ⟨1, ⟨.degraded, 3, 0⟩⟩] ∧
    (run State.empty h₁).regs 1 = some ⟨.degraded, 3, 0⟩ ∧
    (run State.empty h₂).regs 1 = some ⟨.degraded, 3, 0⟩ := by decide

/-- Anti-entropy: whatever two replicas did before (any merges, any local events, even states
    that are not reachable), after each merges the other's published registers for the members
    `ms` — in any batching order relative to other traffic — they agree on every member of `ms`. -/
theorem anti_entropy_converges (s t : State) (ms : List Nat) (m : Nat) (hm : m ∈ ms) :
    (merge s (snapshot t ms)).1.regs m = (merge t (snapshot s ms)).1.regs m := by
  rw [merge_snapshot s t ms m hm, merge_snapshot t s ms m hm, join_comm']

example :
    let s := run State.empty [.updateLocal 0 .healthy 0, .merge [⟨1, ⟨.healthy, 1, 0⟩⟩], .suspect 1 0]
    let t := run State.empty [.updateLocal 1 .healthy 0, .merge [⟨0, ⟨.healthy, 1, 0⟩⟩], .fail 0]
    (merge s (snapshot t [0, 1])).1.regs 0 = some ⟨.failed, 3, 0⟩ ∧
    (merge t (snapshot s [0, 1])).1.regs 0 = some ⟨.failed, 3, 0⟩ ∧
    (merge s (snapshot t [0, 1])).1.regs 1 = (merge t (snapshot s [0, 1])).1.regs 1 := by decide

/-! ## 6. nobody is failed at an incarnation the member never announced -/

/-- the bound for every recorded health -/
theorem recorded_inc_le_announced (steps : List Step) (r m : Nat) (e : Reg)
    (h : ((Sys.init.run steps).nodes r).regs m = some e) :
    e.inc ≤ (Sys.init.run steps).announced m :=
  (sysInv_run steps Sys.init sysInv_init).1 r m e h

/-- In every run of the multi-node system (any interleaving of announcements, `Alive`
    deliveries, gossip publication, delayed/duplicated/reordered batch deliveries, `handle_sync`'s
    sender stamp, `add_peer`, local suspect/fail/mark-healthy on any replica) no replica ever
    records member `m` — in particular never records it **Failed** — at an incarnation higher
    than `m` itself has announced. -/
theorem failed_inc_le_announced (steps : List Step) (r m : Nat) (e : Reg)
    (h : ((Sys.init.run steps).nodes r).regs m = some e) (_hf : e.health = .failed) :
    e.inc ≤ (Sys.init.run steps).announced m :=
  recorded_inc_le_announced steps r m e h

-- non-vacuity: member 1 announces incarnation 1, replica 0 hears it, fails it, replica 2 learns it
example :
    let steps : List Step := [.gossip 1 [1], .deliver 0 [⟨1, ⟨.healthy, 1, 0⟩⟩], .announce 1,
      .deliverAlive 0 1 1, .fail 0 1, .gossip 0 [1], .deliver 2 [⟨1, ⟨.failed, 4, 1⟩⟩]]
    ((Sys.init.run steps).nodes 2).regs 1 = some ⟨.failed, 4, 1⟩ ∧ (Sys.init.run steps).announced 1 = 1 := by
  decide

/-! ## 7. the manager (`GossipMembershipManager::handle_gossip`) -/

/-- Two managers (same configuration, same starting CRDT registers for `m`) that handle Sync
    messages carrying the same **set** of states — any order, any split into messages, any
    repetition, any `sender_time`s — hold the same register for every member `m` that is not one
    of the senders, provided no incarnation exceeds the configured `max_incarnation_delta` (the
    jump filter is a deliberately state-dependent guard outside the property's small incarnation
    ranges).  The sender's own register is excluded: `handle_sync` stamps it with a receiver-local
    "alive" event. -/
theorem mgr_sync_order_independent (g₁ g₂ : Mgr) (M₁ M₂ : List Msg) (m : Nat)
    (hcfg : g₁.maxDelta = g₂.maxDelta) (hstart : g₁.st.regs m = g₂.st.regs m)
    (h₁ : SyncsNotFrom m M₁) (h₂ : SyncsNotFrom m M₂)
    (hset : ∀ u, u ∈ syncPayload M₁ ↔ u ∈ syncPayload M₂)
    (hpass : ∀ u ∈ syncPayload M₁, u.reg.inc ≤ g₁.maxDelta) :
    (g₁.run M₁).st.regs m = (g₂.run M₂).st.regs m := by
  rw [runSyncs_regs g₁ M₁ m h₁ hpass,
    runSyncs_regs g₂ M₂ m h₂ (fun u hu => hcfg ▸ hpass u ((hset u).mpr hu)), hstart]
  exact isJoin_unique (joinList_isJoin _ _) (joinList_isJoin _ _)
    (fun x => by rw [mem_forMember, mem_forMember]; exact hset _)

example :
    let a : Update := ⟨1, ⟨.healthy, 2, 1⟩⟩
    let b : Update := ⟨1, ⟨.failed, 2, 1⟩⟩
    SyncsNotFrom 1 [.sync 4 [a] 0, .sync 4 [b] 3] ∧
    ((Mgr.new 5 100).run [.sync 4 [a] 0, .sync 4 [b] 3]).st.regs 1 = some b.reg ∧
    ((Mgr.new 5 100).run [.sync 4 [b, a] 1]).st.regs 1 = some b.reg := by
  refine ⟨by simp [SyncsNotFrom], by decide, by decide⟩

/-- every handled message (Sync incl. the jump filter and the sender stamp, Suspect, Alive,
    PingAck, add_peer) leaves the manager's Lamport clock and every recorded incarnation non-decreasing -/
theorem mgr_clock_monotone (g : Mgr) (x : Msg) : g.st.clock ≤ (g.handle x).st.clock := by
  cases x with
  | sync s b t =>
    simp only [Mgr.handle, Mgr.handleSync]
    refine Nat.le_trans ?_ (clock_monotone _ (.merge _))
    refine Nat.le_trans ?_ (clock_monotone _ (.merge _))
    simp only [syncTime]; omega
  | suspect m i =>
    simp only [Mgr.handle, Mgr.handleSuspect]
    split
    · exact Nat.le_refl _
    · split
      · exact Nat.le_refl _
      · exact clock_monotone g.st (.suspect m i)
  | alive m i =>
    simp only [Mgr.handle]
    cases handleAlive_st g m i with
    | inl h => rw [h]; exact Nat.le_refl _
    | inr h => rw [h]; exact clock_monotone g.st (.refute m i)
  | addPeer p =>
    simp only [Mgr.handle, Mgr.addPeer]
    cases g.st.regs p with
    | some _ => exact Nat.le_refl _
    | none =>
      simp only []
      refine Nat.le_trans ?_ (clock_monotone _ (.merge _))
      simp
  | pingAck t ok =>
    simp only [Mgr.handle]
    cases handlePingAck_st g t ok with
    | inl h => rw [h]; exact Nat.le_refl _
    | inr h => rw [h]; exact clock_monotone g.st (.markHealthy t)

theorem mgr_inc_monotone (g : Mgr) (x : Msg) (m : Nat) (e : Reg) (h : g.st.regs m = some e) :
    ∃ e', (g.handle x).st.regs m = some e' ∧ e.inc ≤ e'.inc := by
  cases x with
  | sync s b t =>
    simp only [Mgr.handle, Mgr.handleSync]
    obtain ⟨e1, h1, l1⟩ := inc_monotone (syncTime g.st t)
      (.merge (b.filter (passesDelta (syncTime g.st t) g.maxDelta))) trivial m e h
    obtain ⟨e2, h2, l2⟩ := inc_monotone _ (.merge [⟨s, ⟨.healthy, _, _⟩⟩]) trivial m e1 h1
    exact ⟨e2, h2, Nat.le_trans l1 l2⟩
  | suspect m' i =>
    simp only [Mgr.handle, Mgr.handleSuspect]
    split
    · exact ⟨e, h, Nat.le_refl _⟩
    · split
      · exact ⟨e, h, Nat.le_refl _⟩
      · exact inc_monotone g.st (.suspect m' i) trivial m e h
  | alive m' i =>
    simp only [Mgr.handle]
    cases handleAlive_st g m' i with
    | inl h' => rw [h']; exact ⟨e, h, Nat.le_refl _⟩
    | inr h' => rw [h']; exact inc_monotone g.st (.refute m' i) trivial m e h
  | addPeer p =>
    simp only [Mgr.handle, Mgr.addPeer]
    cases hp : g.st.regs p with
    | some _ => exact ⟨e, h, Nat.le_refl _⟩
    | none =>
      simp only []
      exact inc_monotone { g.st with clock := g.st.clock + 1 } (.merge _) trivial m e h
  | pingAck t ok =>
    simp only [Mgr.handle]
    cases handlePingAck_st g t ok with
    | inl h' => rw [h']; exact ⟨e, h, Nat.le_refl _⟩
    | inr h' => rw [h']; exact inc_monotone g.st (.markHealthy t) trivial m e h

/-! ## 8. the defect the fix removed -/

/-- With the pre-fix merge (`supersedes` only) two replicas that received the same two updates —
    an exact `(incarnation, timestamp)` tie with different health — in opposite orders disagree
    forever: first arrival wins. -/
theorem tie_witness_old :
    (deliverOld State.empty [[⟨0, ⟨.healthy, 5, 1⟩⟩], [⟨0, ⟨.failed, 5, 1⟩⟩]]).regs 0 = some ⟨.healthy, 5, 1⟩ ∧
    (deliverOld State.empty [[⟨0, ⟨.failed, 5, 1⟩⟩], [⟨0, ⟨.healthy, 5, 1⟩⟩]]).regs 0 = some ⟨.failed, 5, 1⟩ := by
  decide

-- the same two deliveries with the current merge agree (instance of `merge_order_independent`)
example :
    (deliver State.empty [[⟨0, ⟨.healthy, 5, 1⟩⟩], [⟨0, ⟨.failed, 5, 1⟩⟩]]).regs 0 = some ⟨.failed, 5, 1⟩ ∧
    (deliver State.empty [[⟨0, ⟨.failed, 5, 1⟩⟩], [⟨0, ⟨.healthy, 5, 1⟩⟩]]).regs 0 = some ⟨.failed, 5, 1⟩ := by
  decide

/-! ## 9. the clock dominates every held timestamp, so local events survive re-delivery -/

/-- The invariant that makes local events win.  In every state reachable by any sequence of
    merges of ARBITRARY batches (any internal order of the entries — the newest entry at the head
    or anywhere else —, any repetition, re-deliveries of earlier batches) and local events:
    (1) the Lamport clock is at least every timestamp the replica holds (`wf_reachable` spelled
    out), and (2) one more merge of any batch leaves the clock strictly above the timestamp of
    every entry of that batch, wherever the entry sits in it.  Hence the stamp `clock + 1` of the
    next local suspect / fail / refute / mark_healthy is above everything held. -/
theorem clock_dominates_held_timestamps (ops : List Op) :
    (∀ m e, (run State.empty ops).regs m = some e → e.ts ≤ (run State.empty ops).clock) ∧
    (∀ (b : List Update) (u : Update), u ∈ b → u.reg.ts < (merge (run State.empty ops) b).1.clock) := by
  refine ⟨wf_reachable ops, ?_⟩
  intro b u hu
  obtain ⟨t, ht, hle⟩ := maxTs_ge hu
  rw [merge_clock, ht]
  simp only []
  omega

/-- the same for the manager: after any sequence of handled messages (Sync with ANY `sender_time`,
    also one behind the timestamps of its own states, and any order of the states; Suspect; Alive;
    add_peer) the manager's clock is at least every timestamp in its view -/
theorem mgr_clock_dominates_held_timestamps (loc maxDelta : Nat) (msgs : List Msg) (m : Nat) (e : Reg)
    (h : ((Mgr.new loc maxDelta).run msgs).st.regs m = some e) :
    e.ts ≤ ((Mgr.new loc maxDelta).run msgs).st.clock :=
  mgr_run_wf _ (mgr_new_wf loc maxDelta) msgs m e h

-- non-vacuity: a batch whose head is its OLDEST entry; a Sync whose sender_time is behind its states
example :
    (run State.empty [.merge [⟨2, ⟨.healthy, 3, 1⟩⟩, ⟨3, ⟨.healthy, 5, 2⟩⟩, ⟨1, ⟨.healthy, 9, 1⟩⟩]]).regs 1
      = some ⟨.healthy, 9, 1⟩ ∧
    (run State.empty [.merge [⟨2, ⟨.healthy, 3, 1⟩⟩, ⟨3, ⟨.healthy, 5, 2⟩⟩, ⟨1, ⟨.healthy, 9, 1⟩⟩]]).clock = 10 ∧
    ((Mgr.new 5 100).run [.sync 4 [⟨2, ⟨.healthy, 3, 1⟩⟩, ⟨1, ⟨.healthy, 9, 1⟩⟩] 0]).st.regs 1
      = some ⟨.healthy, 9, 1⟩ ∧
    ((Mgr.new 5 100).run [.sync 4 [⟨2, ⟨.healthy, 3, 1⟩⟩, ⟨1, ⟨.healthy, 9, 1⟩⟩] 0]).st.clock = 12 := by
  decide

/-- `redelivery_is_noop` extended to histories with local events and to "in-between" updates:
    after ANY admissible history (merges of arbitrary batches in arbitrary order, local events,
    earlier re-deliveries), delivering any further batches — in any order and grouping — whose
    entries for `m` are each an update the replica has already merged or generated, or older (in
    the key order) than one, changes nothing for `m`. -/
theorem redelivery_after_local_events_is_noop (ops : List Op) (hadm : Admissible State.empty ops)
    (m : Nat) (bs : List (List Update))
    (hold : ∀ u ∈ bs.flatten, u.node = m →
      ∃ y, (⟨m, y⟩ : Update) ∈ seen State.empty ops ∧ u.reg.le y) :
    (deliver (run State.empty ops) bs).regs m = (run State.empty ops).regs m := by
  rw [deliver_regs]
  apply joinList_absorb
  intro x hx
  obtain ⟨y, hy, hle⟩ := hold ⟨m, x⟩ (mem_forMember.mp hx) rfl
  have hj := run_join wf_empty ops hadm m
  obtain ⟨_, _, h3⟩ := joinList_isJoin (State.empty.regs m) (forMember m (seen State.empty ops))
  rw [← hj] at h3
  exact OLe.trans (show OLe (some x) (some y) from hle) (h3 y (mem_forMember.mpr hy))

/-- A local verdict is never lost to old news.  At any reachable replica state, when a local
    suspect / fail / refute / mark_healthy on member `m` succeeds (returns `true`), the register
    it writes carries the event's health and the fresh stamp `clock + 1`, and it is still exactly
    that register after merging ANY batches — any number, any internal order — made of entries
    for `m` that existed at the replica before the event (re-deliveries of anything it had merged
    or generated) or are older than such an entry (late updates with an in-between timestamp). -/
theorem local_event_survives_redelivery (ops : List Op) (hadm : Admissible State.empty ops) (o : Op)
    (m : Nat) (h : Health) (ht : localTarget o = some (m, h))
    (hsucc : emitted (run State.empty ops) o ≠ []) (bs : List (List Update))
    (hold : ∀ u ∈ bs.flatten, u.node = m →
      ∃ y, (⟨m, y⟩ : Update) ∈ seen State.empty ops ∧ u.reg.le y) :
    ∃ x, (apply (run State.empty ops) o).regs m = some x ∧ x.health = h ∧
      x.ts = (run State.empty ops).clock + 1 ∧
      (deliver (apply (run State.empty ops) o) bs).regs m = some x := by
  have key : OpOk (run State.empty ops) o →
      (deliver (apply (run State.empty ops) o) bs).regs m = (apply (run State.empty ops) o).regs m := by
    intro hok
    have h1 := redelivery_after_local_events_is_noop (ops ++ [o])
      (admissible_append hadm ⟨hok, trivial⟩) m bs (fun u hu hm => by
        obtain ⟨y, hy, hle⟩ := hold u hu hm
        exact ⟨y, by rw [seen_append]; exact List.mem_append_left _ hy, hle⟩)
    rw [run_append] at h1
    exact h1
  cases o with
  | merge b => simp [localTarget] at ht
  | updateLocal m' hh i => simp [localTarget] at ht
  | suspect m' i =>
    simp only [localTarget, Option.some.injEq, Prod.mk.injEq] at ht
    obtain ⟨rfl, rfl⟩ := ht
    simp only [emitted] at hsucc; rw [suspect_spec] at hsucc
    obtain ⟨e, _, _, hr, _⟩ := localOp_emitted _ _ hsucc
    exact ⟨_, hr, rfl, rfl, (key trivial).trans hr⟩
  | fail m' =>
    simp only [localTarget, Option.some.injEq, Prod.mk.injEq] at ht
    obtain ⟨rfl, rfl⟩ := ht
    simp only [emitted] at hsucc; rw [fail_spec] at hsucc
    obtain ⟨e, _, _, hr, _⟩ := localOp_emitted _ _ hsucc
    exact ⟨_, hr, rfl, rfl, (key trivial).trans hr⟩
  | refute m' i =>
    simp only [localTarget, Option.some.injEq, Prod.mk.injEq] at ht
    obtain ⟨rfl, rfl⟩ := ht
    simp only [emitted] at hsucc; rw [refute_spec] at hsucc
    obtain ⟨e, _, _, hr, _⟩ := localOp_emitted _ _ hsucc
    exact ⟨_, hr, rfl, rfl, (key trivial).trans hr⟩
  | markHealthy m' =>
    simp only [localTarget, Option.some.injEq, Prod.mk.injEq] at ht
    obtain ⟨rfl, rfl⟩ := ht
    simp only [emitted] at hsucc; rw [markHealthy_spec] at hsucc
    obtain ⟨e, _, _, hr, _⟩ := localOp_emitted _ _ hsucc
    exact ⟨_, hr, rfl, rfl, (key trivial).trans hr⟩
  | tick => simp [localTarget] at ht
  | syncTime t => simp [localTarget] at ht

-- non-vacuity (the seeded scenario on the real merge): a batch whose head is not its newest
-- entry, a successful local `fail`, then the same batch again in the other order plus a late
-- update with an in-between timestamp: the hypotheses hold and the verdict stays
example :
    let ops : List Op := [.merge [⟨2, ⟨.healthy, 3, 1⟩⟩, ⟨1, ⟨.healthy, 9, 1⟩⟩]]
    let bs : List (List Update) := [[⟨1, ⟨.healthy, 9, 1⟩⟩, ⟨2, ⟨.healthy, 3, 1⟩⟩], [⟨1, ⟨.healthy, 7, 1⟩⟩]]
    Admissible State.empty ops ∧ localTarget (.fail 1) = some (1, .failed) ∧
    emitted (run State.empty ops) (.fail 1) ≠ [] ∧
    (∀ u ∈ bs.flatten, u.node = 1 → ∃ y, (⟨1, y⟩ : Update) ∈ seen State.empty ops ∧ u.reg.le y) ∧
    (apply (run State.empty ops) (.fail 1)).regs 1 = some ⟨.failed, 11, 1⟩ ∧
    (deliver (apply (run State.empty ops) (.fail 1)) bs).regs 1 = some ⟨.failed, 11, 1⟩ := by
  refine ⟨⟨trivial, trivial⟩, rfl, by decide, ?_, by decide, by decide⟩
  intro u hu hm
  refine ⟨⟨.healthy, 9, 1⟩, by decide, ?_⟩
  simp only [List.flatten_cons, List.flatten_nil, List.append_nil, List.cons_append, List.nil_append,
    List.mem_cons, List.not_mem_nil, or_false] at hu
  rcases hu with rfl | rfl | rfl
  · decide
  · exact absurd hm (by decide)
  · decide

/-- Taking the clock from the FIRST entry of the batch (`mergeClockFromHead`: `incoming.first()`
    instead of the maximum timestamp) breaks both, on a 2-entry batch whose head is not its newest
    entry: the registers are those of the real merge, but the clock (4) is behind a held timestamp
    (9); a successful local `fail` is stamped 5, older than the entry it replaces; re-delivery of
    the very same batch — by either merge — reverts the verdict to Healthy; and two replicas given
    the same two updates (only the order inside the batch differs), the same local `fail` and the
    same late update end with different views. -/
theorem mergeClockFromHead_witness :
    let batch : List Update := [⟨2, ⟨.healthy, 3, 1⟩⟩, ⟨1, ⟨.healthy, 9, 1⟩⟩]
    let s := (mergeClockFromHead State.empty batch).1
    let s' := (fail s 1).1
    let t := (mergeClockFromHead State.empty batch.reverse).1
    let late : List Update := [⟨1, ⟨.healthy, 7, 1⟩⟩]
    (s.regs 1 = (merge State.empty batch).1.regs 1 ∧ s.regs 1 = some ⟨.healthy, 9, 1⟩ ∧ s.clock = 4) ∧
    ((fail s 1).2 = true ∧ s'.regs 1 = some ⟨.failed, 5, 1⟩) ∧
    ((mergeClockFromHead s' batch).1.regs 1 = some ⟨.healthy, 9, 1⟩ ∧
      (merge s' batch).1.regs 1 = some ⟨.healthy, 9, 1⟩) ∧
    ((mergeClockFromHead (fail t 1).1 late).1.regs 1 = some ⟨.failed, 11, 1⟩ ∧
      (mergeClockFromHead s' late).1.regs 1 = some ⟨.healthy, 7, 1⟩) := by
  decide

-- the same steps with the current merge: clock 10, the `fail` stamped 11, both orders agree
example :
    let batch : List Update := [⟨2, ⟨.healthy, 3, 1⟩⟩, ⟨1, ⟨.healthy, 9, 1⟩⟩]
    let s := (merge State.empty batch).1
    let t := (merge State.empty batch.reverse).1
    s.clock = 10 ∧ (fail s 1).1.regs 1 = some ⟨.failed, 11, 1⟩ ∧
    (merge (fail s 1).1 batch).1.regs 1 = some ⟨.failed, 11, 1⟩ ∧
    (merge (fail s 1).1 [⟨1, ⟨.healthy, 7, 1⟩⟩]).1.regs 1 = (merge (fail t 1).1 [⟨1, ⟨.healthy, 7, 1⟩⟩]).1.regs 1 := by
  decide

end Neumann.Gossip.Props
