import NeumannModel.Gossip.RefuteLemmas
/-
  C17 helper lemmas for AddPeerProps: a member that is in the view stays in the view under every
  CRDT operation and every manager event (entries are never removed), and `add_peer` of such a
  member is the identity on the manager.
-/
namespace Neumann.Gossip

/-- member `m` has an entry in the view -/
def Known (m : Nat) (s : State) : Prop := ∃ e, s.regs m = some e

theorem apply_known (s : State) (o : Op) (m : Nat) (h : Known m s) : Known m (apply s o) := by
  obtain ⟨e, he⟩ := h
  cases o with
  | merge b =>
    obtain ⟨e', h', _⟩ := merge_present s b m e he
    exact ⟨e', h'⟩
  | updateLocal k hh i =>
    by_cases hm : m = k
    · subst hm; exact ⟨_, setReg_same _ _ _⟩
    · exact ⟨e, by simp only [apply, updateLocal]; rw [setReg_other _ _ hm]; exact he⟩
  | suspect k i =>
    rcases suspect_reg s k i m e he with h' | ⟨_, _, h'⟩ <;> exact ⟨_, h'⟩
  | fail k =>
    rcases fail_reg s k m e he with h' | ⟨_, _, h'⟩ <;> exact ⟨_, h'⟩
  | refute k i =>
    rcases refute_reg s k i m e he with h' | ⟨_, _, h'⟩ <;> exact ⟨_, h'⟩
  | markHealthy k =>
    rcases markHealthy_reg s k m e he with h' | ⟨_, _, h'⟩ <;> exact ⟨_, h'⟩
  | tick => exact ⟨e, he⟩
  | syncTime t => exact ⟨e, he⟩

theorem run_known (ops : List Op) (s : State) (m : Nat) (h : Known m s) : Known m (run s ops) := by
  induction ops generalizing s with
  | nil => exact h
  | cons o os ih => exact ih (apply s o) (apply_known s o m h)

theorem stepEv_known (g : Mgr) (e : MEv) (m : Nat) (h : Known m g.st) : Known m (g.stepEv e).st := by
  rw [stepEv_eq_run]; exact run_known _ _ m h

theorem runEv_known (evs : List MEv) (g : Mgr) (m : Nat) (h : Known m g.st) : Known m (g.runEv evs).st := by
  induction evs generalizing g with
  | nil => exact h
  | cons e es ih => exact ih (g.stepEv e) (stepEv_known g e m h)

theorem addPeer_known (g : Mgr) (p : Nat) (h : Known p g.st) : g.addPeer p = g := by
  obtain ⟨e, he⟩ := h
  simp only [Mgr.addPeer, he]

/-- the event list with every `add_peer(p)` taken out -/
def withoutAddPeer (p : Nat) (evs : List MEv) : List MEv :=
  evs.filter (fun e => decide (e ≠ MEv.msg (.addPeer p)))

theorem withoutAddPeer_append (p : Nat) (a b : List MEv) :
    withoutAddPeer p (a ++ b) = withoutAddPeer p a ++ withoutAddPeer p b := by
  simp [withoutAddPeer]

theorem runEv_withoutAddPeer (evs : List MEv) (g : Mgr) (p : Nat) (h : Known p g.st) :
    g.runEv (withoutAddPeer p evs) = g.runEv evs := by
  induction evs generalizing g with
  | nil => rfl
  | cons e es ih =>
    by_cases he : e = MEv.msg (.addPeer p)
    · subst he
      have h1 : withoutAddPeer p (MEv.msg (.addPeer p) :: es) = withoutAddPeer p es := by
        simp [withoutAddPeer]
      have h2 : g.runEv (MEv.msg (.addPeer p) :: es) = (g.addPeer p).runEv es := rfl
      rw [h1, h2, addPeer_known g p h]
      exact ih g h
    · have h1 : withoutAddPeer p (e :: es) = e :: withoutAddPeer p es := by
        simp [withoutAddPeer, he]
      have h2 : ∀ l, g.runEv (e :: l) = (g.stepEv e).runEv l := fun _ => rfl
      rw [h1, h2, h2]
      exact ih (g.stepEv e) (stepEv_known g e p h)

end Neumann.Gossip
