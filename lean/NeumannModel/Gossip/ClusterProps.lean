import NeumannModel.Gossip.ClusterLemmas
import NeumannModel.Gossip.Props
/-
  C17 — the sending side of `GossipMembershipManager` and the cluster of managers.
  ONLY property theorems and their non-vacuity examples; helpers are in `ClusterLemmas.lean`.

  Reading guide
  * `statesForGossip s order k` : `LWWMembershipState::states_for_gossip(k)` when the `states`
    HashMap iterates in the order `order` (every theorem holds for EVERY order).
  * `Mgr.syncMsg`, `Mgr.expire`, `Mgr.suspectNode`, `Msg.pingAck` : `gossip_round`'s Sync,
    `expire_suspicions`, `suspect_node`, `handle_ping_ack`.
  * `MEv` / `Mgr.stepEv` / `Mgr.out` : one event at one manager and what it hands to the transport.
  * `Cluster` : managers `Mgr.new r d` for every `r`; a `Sync` / `Suspect` / `Alive` can be handled
    (by any node, any number of times, in any order) only if some manager has sent exactly it.
-/
namespace Neumann.Gossip.Props
open Neumann.Gossip

/-! ## 10. what `states_for_gossip` publishes -/

/-- every published state is a register the replica holds, for a member of its view -/
theorem statesForGossip_held (s : State) (order : List Nat) (k : Nat) (u : Update)
    (h : u ∈ statesForGossip s order k) : u.node ∈ order ∧ s.regs u.node = some u.reg :=
  mem_statesForGossip h

theorem statesForGossip_length (s : State) (order : List Nat) (k : Nat) :
    (statesForGossip s order k).length ≤ k := List.length_take_le _ _

/-- newest first -/
theorem statesForGossip_sorted (s : State) (order : List Nat) (k : Nat) :
    (statesForGossip s order k).Pairwise (fun a b => b.reg.ts ≤ a.reg.ts) :=
  (sortDesc_sorted _).sublist (List.take_sublist _ _)

/-- one entry per member (the map has one entry per key): a published batch never carries two
    states for the same node -/
theorem statesForGossip_one_per_member (s : State) (order : List Nat) (k : Nat) (hnd : order.Nodup) :
    ((statesForGossip s order k).map (·.node)).Nodup := by
  have h1 : ((snapshot s order).map (·.node)).Nodup := hnd.sublist (snapshot_nodes_sublist s order)
  have h2 : ((sortDesc (snapshot s order)).map (·.node)).Nodup :=
    ((sortDesc_perm _).map _).nodup_iff.mpr h1
  exact h2.sublist ((List.take_sublist _ _).map _)

/-- truncation drops only the oldest: a held register that is not published is not newer than
    any published one -/
theorem statesForGossip_keeps_newest (s : State) (order : List Nat) (k : Nat) (u : Update)
    (hu : u ∈ statesForGossip s order k) (m : Nat) (hm : m ∈ order) (e : Reg) (he : s.regs m = some e)
    (hout : (⟨m, e⟩ : Update) ∉ statesForGossip s order k) : e.ts ≤ u.reg.ts := by
  have hall : (⟨m, e⟩ : Update) ∈ sortDesc (snapshot s order) :=
    mem_sortDesc.mpr (mem_snapshot.mpr ⟨hm, he⟩)
  have hs := sortDesc_sorted (snapshot s order)
  unfold SortedDesc at hs
  rw [← List.take_append_drop k (sortDesc (snapshot s order))] at hall hs
  cases List.mem_append.mp hall with
  | inl h => exact absurd h hout
  | inr h => exact (List.pairwise_append.mp hs).2.2 u hu _ h

/-- with room for the whole view (`max_states_per_message ≥` number of members) everything held
    is published -/
theorem statesForGossip_full_view (s : State) (order : List Nat) (k : Nat) (hk : order.length ≤ k)
    (u : Update) : u ∈ statesForGossip s order k ↔ u.node ∈ order ∧ s.regs u.node = some u.reg :=
  mem_statesForGossip_full hk

-- non-vacuity: a 3-member view in map order [2, 0, 1], cut to the 2 newest
example :
    let s := run State.empty [.merge [⟨0, ⟨.healthy, 3, 0⟩⟩, ⟨1, ⟨.failed, 7, 1⟩⟩, ⟨2, ⟨.degraded, 5, 0⟩⟩]]
    statesForGossip s [2, 0, 1] 2 = [⟨1, ⟨.failed, 7, 1⟩⟩, ⟨2, ⟨.degraded, 5, 0⟩⟩] ∧
    statesForGossip s [2, 0, 1] 3 = [⟨1, ⟨.failed, 7, 1⟩⟩, ⟨2, ⟨.degraded, 5, 0⟩⟩, ⟨0, ⟨.healthy, 3, 0⟩⟩] ∧
    [2, 0, 1].Nodup ∧ (⟨0, ⟨.healthy, 3, 0⟩⟩ : Update) ∉ statesForGossip s [2, 0, 1] 2 := by decide

/-! ## 11. a gossip round is honest, and handling it loses nothing that passes the filter -/

/-- The `Sync` of `gossip_round` on any reachable manager (any events before it): it names the
    local node, its `sender_time` is the sender's Lamport clock, every state in it is a register
    the sender holds, and `sender_time` is at least every timestamp in it. -/
theorem round_sync_is_honest (loc d : Nat) (evs : List MEv) (order : List Nat) (k : Nat) :
    let g := (Mgr.new loc d).runEv evs
    ∃ b, g.syncMsg order k = .sync g.local_ b g.st.clock ∧
      ∀ u ∈ b, g.st.regs u.node = some u.reg ∧ u.reg.ts ≤ g.st.clock := by
  intro g
  refine ⟨statesForGossip g.st order k, rfl, ?_⟩
  intro u hu
  have h := (mem_statesForGossip hu).2
  exact ⟨h, runEv_wf _ (mgr_new_wf loc d) evs u.node u.reg h⟩

/-- `handle_sync` never loses a state: after it, the receiver's register for the member of every
    state of the message that passes the incarnation-jump filter is at least that state (key
    order) — whatever `sender_time`, whatever the order of the states, also for the sender's own
    entry and for a Sync the node receives from itself. -/
theorem sync_delivers_every_accepted_state (g : Mgr) (sender : Nat) (b : List Update) (t : Nat)
    (u : Update) (hu : u ∈ b) (hp : passesDelta (syncTime g.st t) g.maxDelta u = true) :
    OLe (some u.reg) ((g.handle (.sync sender b t)).st.regs u.node) :=
  handleSync_dominates g sender b t u hu hp

/-- Handling the Sync of a peer `h` whose message has room for `h`'s whole view: for every member
    `m` of that view other than the sender, the receiver ends with the JOIN of its own and `h`'s
    register (no incarnation above the configured jump). -/
theorem full_sync_joins_views (g h : Mgr) (order : List Nat) (k : Nat) (hk : order.length ≤ k)
    (m : Nat) (hm : m ∈ order) (hns : m ≠ h.local_)
    (hpass : ∀ k' e, h.st.regs k' = some e → e.inc ≤ g.maxDelta) :
    (g.handle (h.syncMsg order k)).st.regs m = join (g.st.regs m) (h.st.regs m) := by
  simp only [Mgr.syncMsg, Mgr.handle]
  rw [handleSync_regs g h.local_ _ h.st.clock m hns
    (fun u hu => hpass u.node u.reg (mem_statesForGossip hu).2)]
  exact joinList_full_view _ _ _ _ hk m hm

/-- Anti-entropy through the managers: `h` runs a gossip round, `g` handles that Sync, then `g`
    runs a round and `h` handles it.  Whatever the two did before (any views, any clocks, any map
    orders), they now hold the same register for every member other than the two of them (their
    own entries carry the receiver-local "sender is alive" stamps). -/
theorem mgr_exchange_converges (g h : Mgr) (o₁ o₂ : List Nat) (k₁ k₂ : Nat)
    (hk₁ : o₁.length ≤ k₁) (hk₂ : o₂.length ≤ k₂) (m : Nat) (hm₁ : m ∈ o₁) (hm₂ : m ∈ o₂)
    (hg : m ≠ g.local_) (hh : m ≠ h.local_)
    (hpg : ∀ k' e, h.st.regs k' = some e → e.inc ≤ g.maxDelta)
    (hph : ∀ k' e, (g.handle (h.syncMsg o₁ k₁)).st.regs k' = some e → e.inc ≤ h.maxDelta) :
    let g' := g.handle (h.syncMsg o₁ k₁)
    let h' := h.handle (g'.syncMsg o₂ k₂)
    g'.st.regs m = h'.st.regs m := by
  intro g' h'
  have e1 : g'.st.regs m = join (g.st.regs m) (h.st.regs m) :=
    full_sync_joins_views g h o₁ k₁ hk₁ m hm₁ hh hpg
  have hl : g'.local_ = g.local_ := (handle_local g _).1
  have e2 : h'.st.regs m = join (h.st.regs m) (g'.st.regs m) :=
    full_sync_joins_views h g' o₂ k₂ hk₂ m hm₂ (by rw [hl]; exact hg) hph
  rw [e2, e1, ← join_assoc', join_comm' (h.st.regs m), join_assoc', join_idem']

-- non-vacuity: two managers with different histories, member 2 seen differently, full exchange
example :
    let g := (Mgr.new 0 100).runEv [.msg (.sync 3 [⟨2, ⟨.healthy, 4, 1⟩⟩] 5), .suspectNode 2]
    let h := (Mgr.new 1 100).runEv [.msg (.sync 3 [⟨2, ⟨.healthy, 9, 1⟩⟩, ⟨4, ⟨.unknown, 2, 0⟩⟩] 9)]
    let g' := g.handle (h.syncMsg [4, 1, 3, 2] 20)
    let h' := h.handle (g'.syncMsg [0, 2, 3, 4, 1] 20)
    g.st.regs 2 = some ⟨.degraded, 10, 1⟩ ∧ h.st.regs 2 = some ⟨.healthy, 9, 1⟩ ∧
    g'.st.regs 2 = some ⟨.degraded, 10, 1⟩ ∧ h'.st.regs 2 = some ⟨.degraded, 10, 1⟩ ∧
    g'.st.regs 4 = h'.st.regs 4 := by decide

/-! ## 12. no event of the manager moves anything backwards -/

/-- For a manager reached by ANY sequence of events (handled Sync / Suspect / Alive / PingAck,
    add_peer, gossip rounds with any set of expired suspicions, local suspect_node) and any further
    event: the Lamport clock does not decrease, every member's key (incarnation, timestamp,
    severity) does not decrease (in particular: no member is forgotten, no incarnation goes down),
    and the clock is at least every held timestamp afterwards. -/
theorem mgr_event_never_moves_backwards (loc d : Nat) (evs : List MEv) (e : MEv) :
    let g := (Mgr.new loc d).runEv evs
    g.st.clock ≤ (g.stepEv e).st.clock ∧
    (∀ m, OLe (g.st.regs m) ((g.stepEv e).st.regs m)) ∧
    (∀ m x, (g.stepEv e).st.regs m = some x → x.ts ≤ (g.stepEv e).st.clock) :=
  stepEv_fwd _ (runEv_wf _ (mgr_new_wf loc d) evs) e

/-- an expired suspicion records the member Failed at exactly the incarnation held for it: the
    failure path of the manager never invents an incarnation -/
theorem expire_keeps_incarnation (g : Mgr) (expired : List Nat) (m : Nat) (e' : Reg)
    (h : (g.expire expired).st.regs m = some e') : ∃ e, g.st.regs m = some e ∧ e'.inc = e.inc :=
  expire_inc g expired m e' h

-- non-vacuity: suspect_node then an expiring round fails member 2 at the held incarnation 1
example :
    let g := (Mgr.new 0 100).runEv [.msg (.sync 3 [⟨2, ⟨.healthy, 4, 1⟩⟩] 5), .suspectNode 2]
    g.suspicions = [2] ∧ (g.stepEv (.round [0, 2, 3] 20 [2])).st.regs 2 = some ⟨.failed, 11, 1⟩ ∧
    (g.stepEv (.round [0, 2, 3] 20 [2])).suspicions = [] ∧
    g.out (.round [0, 2, 3] 20 [2]) =
      [.sync 0 [⟨2, ⟨.degraded, 10, 1⟩⟩, ⟨3, ⟨.healthy, 8, 0⟩⟩, ⟨0, ⟨.healthy, 1, 0⟩⟩] 10] := by decide

/-! ## 13. the cluster: nobody is recorded above the incarnation the member itself announced -/

/-- In every run of the cluster of managers — gossip rounds (any map order, any truncation, any
    set of expired suspicions), `suspect_node`, `add_peer`, ping acks, and the handling by ANY node,
    any number of times and in any order, of any `Sync` / `Suspect` / `Alive` that some manager has
    sent — no node records member `m` at an incarnation above `m`'s own counter (the largest
    incarnation `m` has put into an `Alive`). -/
theorem cluster_recorded_inc_le_announced (d : Nat) (steps : List (Nat × MEv)) (r m : Nat) (e : Reg)
    (h : (((Cluster.init d).run steps).nodes r).st.regs m = some e) :
    e.inc ≤ (((Cluster.init d).run steps).nodes m).ownInc :=
  (cinv_run steps _ (cinv_init d)).2.1 r m e h

/-- in particular never **Failed** above it (the clause of the property) -/
theorem cluster_failed_inc_le_announced (d : Nat) (steps : List (Nat × MEv)) (r m : Nat) (e : Reg)
    (h : (((Cluster.init d).run steps).nodes r).st.regs m = some e) (_hf : e.health = .failed) :
    e.inc ≤ (((Cluster.init d).run steps).nodes m).ownInc :=
  cluster_recorded_inc_le_announced d steps r m e h

/-- every `Alive` in flight names an incarnation its subject has reached, every state of every
    `Sync` in flight is bounded the same way -/
theorem cluster_messages_le_announced (d : Nat) (steps : List (Nat × MEv)) (x : Msg)
    (hx : x ∈ ((Cluster.init d).run steps).net) :
    (∀ m i, x = .alive m i → i ≤ (((Cluster.init d).run steps).nodes m).ownInc) ∧
    (∀ s b t, x = .sync s b t → ∀ u ∈ b, u.reg.inc ≤ (((Cluster.init d).run steps).nodes u.node).ownInc) := by
  have h := (cinv_run steps _ (cinv_init d)).2.2.1 x hx
  refine ⟨?_, ?_⟩
  · intro m i e; subst e; exact h
  · intro s b t e; subst e; exact h

/-- every step of a cluster run leaves every node's clock and every member's key at every node
    non-decreasing, and every node's clock at least every timestamp it holds -/
theorem cluster_never_moves_backwards (d : Nat) (steps : List (Nat × MEv)) (st : Nat × MEv) (k : Nat) :
    let c := (Cluster.init d).run steps
    (c.nodes k).st.clock ≤ ((c.step st).nodes k).st.clock ∧
    (∀ m, OLe ((c.nodes k).st.regs m) (((c.step st).nodes k).st.regs m)) ∧
    (∀ m x, (c.nodes k).st.regs m = some x → x.ts ≤ (c.nodes k).st.clock) := by
  intro c
  have hinv := cinv_run steps _ (cinv_init d)
  have h := cluster_step_fwd c hinv st k
  exact ⟨h.1, h.2.1, hinv.2.2.2 k⟩

/-- The run used below: node 1 gossips, node 0 learns member 1, suspects it (`suspect_node`), node 1
    handles the `Suspect` about itself (bumps its counter to 1, sends `Alive(1, 1)`), node 0 handles
    the `Alive`, suspects member 1 again and the suspicion expires in a gossip round. -/
def selfViewRun : List (Nat × MEv) :=
  [(1, .round [1] 20 []), (0, .msg (.sync 1 [⟨1, ⟨.healthy, 1, 0⟩⟩] 1)), (0, .suspectNode 1),
   (1, .msg (.suspect 1 0)), (0, .msg (.alive 1 1)), (0, .suspectNode 1), (0, .round [0, 1] 20 [1])]

/-- `specs/tla/Membership.tla` states `NoFalsePositivesSafety` against the member's SELF-VIEW
    (`membershipView[n][n].incarnation`), and its `RefuteSuspicion` action bumps that self-view.
    The code's `handle_suspect` on the local node bumps only the `incarnation` counter and sends
    `Alive`; its own register is not touched.  So in the code the self-view lags: after this run
    node 0 records member 1 **Failed at incarnation 1** while node 1's own register for itself is
    still at incarnation 0 — the TLA form of the invariant is false of the code, the announced
    form (`cluster_failed_inc_le_announced`, the property's wording) holds with equality. -/
theorem self_view_lags_announced_witness :
    let c := (Cluster.init 100).run selfViewRun
    (c.nodes 0).st.regs 1 = some ⟨.failed, 9, 1⟩ ∧
    (c.nodes 1).st.regs 1 = some ⟨.healthy, 1, 0⟩ ∧
    (c.nodes 1).ownInc = 1 ∧ Msg.alive 1 1 ∈ c.net := by
  decide

-- non-vacuity of the cluster theorems: the run above is a run in which every handled message was
-- really sent (each `enabled` check passes: the net grows to 5 messages), and a forged Alive is refused
example :
    ((Cluster.init 100).run selfViewRun).net.length = 5 ∧
    (((Cluster.init 100).run [(0, .msg (.alive 1 7))]).nodes 0).st.regs 1 = none ∧
    (((Cluster.init 100).run [(0, .msg (.addPeer 1)), (0, .msg (.alive 1 7))]).nodes 0).st.regs 1
      = some ⟨.unknown, 2, 0⟩ := by decide

/-! ## 14. the manager is a CRDT replica: the replica theorems apply to it -/

/-- Every event of the manager acts on its `LWWMembershipState` through a short sequence of the
    public operations (`Mgr.evOps`: `sync_time, merge, merge` for a Sync — the filtered states, then
    the sender stamp —, `tick, merge` for add_peer, `suspect`, `refute`, `mark_healthy`, one `fail`
    per expired suspicion), never `update_local`: an admissible replica history. -/
theorem mgr_event_is_crdt_history (g : Mgr) (e : MEv) :
    (g.stepEv e).st = run g.st (g.evOps e) ∧ Admissible g.st (g.evOps e) :=
  ⟨stepEv_eq_run g e, admissible_of_noUpdateLocal (evOps_noUL g e)⟩

/-- the CRDT state of a manager after any events is the replica history `Mgr.history` (the
    constructor's `update_local(local, Healthy, 0)` on the empty state, then the operations of each
    event) — so every theorem about `run State.empty ops` (§4, §5, §9) holds of managers -/
theorem mgr_is_crdt_replica (loc d : Nat) (evs : List MEv) :
    ((Mgr.new loc d).runEv evs).st = run State.empty (Mgr.history loc d evs) ∧
    Admissible State.empty (Mgr.history loc d evs) :=
  ⟨mgr_history_run loc d evs, mgr_history_admissible loc d evs⟩

/-- `view_is_join` for the manager: its register for `m` is the greatest (key order) of all the
    states it accepted from Syncs (after the jump filter), the sender stamps, the add_peer
    placeholders and the registers its own suspect / refute / mark_healthy / fail wrote. -/
theorem mgr_view_is_join (loc d : Nat) (evs : List MEv) (m : Nat) :
    let r := ((Mgr.new loc d).runEv evs).st.regs m
    (r = none ∨ ∃ x, (⟨m, x⟩ : Update) ∈ seen State.empty (Mgr.history loc d evs) ∧ r = some x) ∧
    ∀ x, (⟨m, x⟩ : Update) ∈ seen State.empty (Mgr.history loc d evs) → OLe (some x) r := by
  intro r
  have h := view_is_join (Mgr.history loc d evs) (mgr_history_admissible loc d evs) m
  simp only [r, mgr_history_run]
  exact h

/-- A Sync from anybody but `m` whose states for `m` are all old news — each at most the register
    the manager holds (key order) — leaves that register exactly as it is, whatever else the
    message carries, whatever its `sender_time` (any manager state, reachable or not). -/
theorem mgr_stale_sync_changes_nothing (g : Mgr) (s : Nat) (b : List Update) (t : Nat) (m : Nat)
    (hm : m ≠ s) (hold : ∀ u ∈ b, u.node = m → OLe (some u.reg) (g.st.regs m)) :
    (g.handle (.sync s b t)).st.regs m = g.st.regs m :=
  handleSync_absorbs g s b t m hm hold

/-- The manager's verdicts survive old news: take a manager reached by any events, let any event
    `e` happen (a `suspect_node` that degrades `m`, a round whose expiry fails `m`, a ping ack that
    marks it healthy, an `Alive` …), then handle a Sync — not sent by `m` — whose states for `m`
    were already dominated by the view BEFORE `e` (re-deliveries, late in-between updates): the
    register `e` left for `m` is untouched. -/
theorem mgr_verdict_survives_old_news (loc d : Nat) (evs : List MEv) (e : MEv) (s : Nat)
    (b : List Update) (t : Nat) (m : Nat) (hm : m ≠ s)
    (hold : ∀ u ∈ b, u.node = m → OLe (some u.reg) (((Mgr.new loc d).runEv evs).st.regs m)) :
    ((((Mgr.new loc d).runEv evs).stepEv e).handle (.sync s b t)).st.regs m
      = (((Mgr.new loc d).runEv evs).stepEv e).st.regs m := by
  apply mgr_stale_sync_changes_nothing _ s b t m hm
  intro u hu hn
  exact OLe.trans (hold u hu hn) ((mgr_event_never_moves_backwards loc d evs e).2.1 m)

-- non-vacuity: member 2 arrives Healthy, is suspected, the suspicion expires (Failed, stamp 11);
-- the original Sync and a late in-between update are handled again: still Failed at stamp 11
example :
    let evs : List MEv := [.msg (.sync 3 [⟨2, ⟨.healthy, 4, 1⟩⟩] 5), .suspectNode 2]
    let g := (Mgr.new 0 100).runEv evs
    let b : List Update := [⟨2, ⟨.healthy, 4, 1⟩⟩, ⟨2, ⟨.unknown, 7, 1⟩⟩, ⟨3, ⟨.failed, 30, 0⟩⟩]
    (∀ u ∈ b, u.node = 2 → OLe (some u.reg) (g.st.regs 2)) ∧
    (g.stepEv (.round [0, 2, 3] 20 [2])).st.regs 2 = some ⟨.failed, 11, 1⟩ ∧
    ((g.stepEv (.round [0, 2, 3] 20 [2])).handle (.sync 3 b 6)).st.regs 2 = some ⟨.failed, 11, 1⟩ ∧
    Mgr.history 0 100 evs =
      [.updateLocal 0 .healthy 0, .syncTime 5, .merge [⟨2, ⟨.healthy, 4, 1⟩⟩], .merge [⟨3, ⟨.healthy, 8, 0⟩⟩],
       .suspect 2 1] := by
  refine ⟨?_, by decide, by decide, by decide⟩
  intro u hu hn
  simp only [List.mem_cons, List.not_mem_nil, or_false] at hu
  rcases hu with rfl | rfl | rfl
  · decide
  · decide
  · exact absurd hn (by decide)

end Neumann.Gossip.Props
