/-
  C17 — model of the gossip membership CRDT of tensor_chain/src/gossip.rs.

  * `Reg`      = the compared part of `GossipNodeState` (health, Lamport timestamp,
                 incarnation); `updated_at` (wall clock) is never compared by the code.
  * `State`    = `LWWMembershipState` : `states : HashMap<NodeId, GossipNodeState>` as a
                 finite-support function `Nat → Option Reg` (member ids are dense small
                 integers on the wire), and `lamport_time`.
  * `merge`    = `LWWMembershipState::merge` (per incoming state in order, then
                 `sync_time(max incoming ts)`), `mergeOld` = the same with the pre-fix
                 update condition (`supersedes` only).
  * `updateLocal / suspect / fail / refute / markHealthy` = the local mutators, each
                 branch as in the Rust.
  * `Mgr`      = the part of `GossipMembershipManager::handle_gossip` that touches the
                 CRDT (`handle_sync`, `handle_suspect`, `handle_alive`, `add_peer`).
  * `Sys`      = the multi-node system in which only member `m` creates incarnations for `m`.

  u64 counters are `Nat` (no overflow: 2^64 ticks are out of scope).  Import-free.
-/
namespace Neumann.Gossip

/-- `membership::NodeHealth` -/
inductive Health where
  | healthy | degraded | failed | unknown
  deriving DecidableEq, Repr, Inhabited

/-- `health_tie_rank` -/
def Health.rank : Health → Nat
  | .healthy => 0
  | .unknown => 1
  | .degraded => 2
  | .failed => 3

structure Reg where
  health : Health
  ts : Nat
  inc : Nat
  deriving DecidableEq, Repr, Inhabited

/-- one `GossipNodeState` on the wire -/
structure Update where
  node : Nat
  reg : Reg
  deriving DecidableEq, Repr, Inhabited

/-- `GossipNodeState::supersedes` : incarnation first, then timestamp. -/
def supersedes (a b : Reg) : Bool :=
  if a.inc = b.inc then decide (a.ts > b.ts) else decide (a.inc > b.inc)

/-- the update condition of `merge` after the fix: `supersedes` or, on an exact
    `(incarnation, timestamp)` tie, strictly higher `health_tie_rank`. -/
def wins (a b : Reg) : Bool :=
  supersedes a b ||
    (decide (a.inc = b.inc) && decide (a.ts = b.ts) && decide (a.health.rank > b.health.rank))

structure State where
  regs : Nat → Option Reg
  clock : Nat

def State.empty : State := ⟨fun _ => none, 0⟩

def setReg (regs : Nat → Option Reg) (m : Nat) (r : Reg) : Nat → Option Reg :=
  fun k => if k = m then some r else regs k

/-- `sync_time` -/
def syncTime (s : State) (t : Nat) : State := { s with clock := max s.clock t + 1 }

/-- loop body of `merge` on the map; the Bool is "pushed to `changed`". -/
def mergeOneWith (w : Reg → Reg → Bool) (regs : Nat → Option Reg) (u : Update) :
    (Nat → Option Reg) × Bool :=
  match regs u.node with
  | none => (setReg regs u.node u.reg, true)
  | some e => if w u.reg e then (setReg regs u.node u.reg, true) else (regs, false)

def mergeRegsWith (w : Reg → Reg → Bool) (regs : Nat → Option Reg) :
    List Update → (Nat → Option Reg) × List Nat
  | [] => (regs, [])
  | u :: us =>
    let (r1, c) := mergeOneWith w regs u
    let (r2, ch) := mergeRegsWith w r1 us
    (r2, if c then u.node :: ch else ch)

/-- `incoming.iter().map(|s| s.timestamp).max()` -/
def maxTs : List Update → Option Nat
  | [] => none
  | u :: us => match maxTs us with
    | none => some u.reg.ts
    | some t => some (max u.reg.ts t)

def mergeWith (w : Reg → Reg → Bool) (s : State) (b : List Update) : State × List Nat :=
  let (r, ch) := mergeRegsWith w s.regs b
  match maxTs b with
  | none => ({ s with regs := r }, ch)
  | some t => (syncTime { s with regs := r } t, ch)

def mergeOne (regs : Nat → Option Reg) (u : Update) := mergeOneWith wins regs u
def mergeRegs (regs : Nat → Option Reg) (b : List Update) := mergeRegsWith wins regs b
/-- `LWWMembershipState::merge` (current code). Returns the new state and `changed`. -/
def merge (s : State) (b : List Update) : State × List Nat := mergeWith wins s b
/-- the merge before "fix: gossip merge breaks exact ties by health severity". -/
def mergeOld (s : State) (b : List Update) : State × List Nat := mergeWith supersedes s b

/-- `incoming.first().map(|s| s.timestamp)` -/
def headTs : List Update → Option Nat
  | [] => none
  | u :: _ => some u.reg.ts

/-- NOT the code: `merge` with the Lamport clock advanced from the FIRST entry of the batch
    (`incoming.first()`) instead of the maximum timestamp in the batch — the "gossip batches
    are sorted newest-first" shortcut.  The register loop is the current one.  Kept only for
    `mergeClockFromHead_witness`. -/
def mergeClockFromHead (s : State) (b : List Update) : State × List Nat :=
  let (r, ch) := mergeRegsWith wins s.regs b
  match headTs b with
  | none => ({ s with regs := r }, ch)
  | some t => (syncTime { s with regs := r } t, ch)

/-- `update_local` : tick, then insert unconditionally. -/
def updateLocal (s : State) (m : Nat) (h : Health) (inc : Nat) : State × Reg :=
  let ts := s.clock + 1
  let r : Reg := ⟨h, ts, inc⟩
  (⟨setReg s.regs m r, ts⟩, r)

/-- `suspect` : only a present, non-failed member at exactly this incarnation. -/
def suspect (s : State) (m : Nat) (inc : Nat) : State × Bool :=
  match s.regs m with
  | some e =>
    if e.inc = inc ∧ e.health ≠ .failed then
      (⟨setReg s.regs m { e with health := .degraded, ts := s.clock + 1 }, s.clock + 1⟩, true)
    else (s, false)
  | none => (s, false)

/-- `fail` -/
def fail (s : State) (m : Nat) : State × Bool :=
  match s.regs m with
  | some e =>
    if e.health ≠ .failed then
      (⟨setReg s.regs m { e with health := .failed, ts := s.clock + 1 }, s.clock + 1⟩, true)
    else (s, false)
  | none => (s, false)

/-- `refute` : strictly larger incarnation only. -/
def refute (s : State) (m : Nat) (newInc : Nat) : State × Bool :=
  match s.regs m with
  | some e =>
    if newInc > e.inc then
      (⟨setReg s.regs m ⟨.healthy, s.clock + 1, newInc⟩, s.clock + 1⟩, true)
    else (s, false)
  | none => (s, false)

/-- NOT the code: `refute` with the "nothing to do" fast path of `mark_healthy` copied in — a
    member that is currently recorded Healthy is left alone, also when the announced incarnation
    is higher than the recorded one ("there is no suspicion to refute").  The incarnation the
    member announced is then dropped at every replica that has not (yet) seen the suspicion, and
    old news about the previous incarnation is accepted afterwards.  Kept only for
    `refuteUnlessHealthy_witness`. -/
def refuteUnlessHealthy (s : State) (m : Nat) (newInc : Nat) : State × Bool :=
  match s.regs m with
  | some e =>
    if newInc > e.inc ∧ e.health ≠ .healthy then
      (⟨setReg s.regs m ⟨.healthy, s.clock + 1, newInc⟩, s.clock + 1⟩, true)
    else (s, false)
  | none => (s, false)

/-- `mark_healthy` -/
def markHealthy (s : State) (m : Nat) : State × Bool :=
  match s.regs m with
  | some e =>
    if e.health ≠ .healthy then
      (⟨setReg s.regs m { e with health := .healthy, ts := s.clock + 1 }, s.clock + 1⟩, true)
    else (s, false)
  | none => (s, false)

/-! ### replica histories -/

inductive Op where
  | merge (b : List Update)
  | updateLocal (m : Nat) (h : Health) (inc : Nat)
  | suspect (m : Nat) (inc : Nat)
  | fail (m : Nat)
  | refute (m : Nat) (inc : Nat)
  | markHealthy (m : Nat)
  /-- the public `tick()` -/
  | tick
  /-- the public `sync_time(incoming_time)` -/
  | syncTime (t : Nat)
  deriving DecidableEq, Repr

/-- `tick` : advance the Lamport clock by one -/
def tick (s : State) : State := { s with clock := s.clock + 1 }

def apply (s : State) : Op → State
  | .merge b => (merge s b).1
  | .updateLocal m h i => (updateLocal s m h i).1
  | .suspect m i => (suspect s m i).1
  | .fail m => (fail s m).1
  | .refute m i => (refute s m i).1
  | .markHealthy m => (markHealthy s m).1
  | .tick => tick s
  | .syncTime t => syncTime s t

def run (s : State) (ops : List Op) : State := ops.foldl apply s

/-- the update a local event generates: when it returned `true`, the register the replica
    now holds for `m` (exactly what it will gossip from now on); nothing when it refused. -/
def emittedLocal (r : State × Bool) (m : Nat) : List Update :=
  if r.2 then (match r.1.regs m with | some x => [⟨m, x⟩] | none => []) else []

/-- the updates an op feeds into the replica at state `s`: the batch for a merge, the
    freshly generated update for a successful local event, nothing for a refused one. -/
def emitted (s : State) : Op → List Update
  | .merge b => b
  | .updateLocal m h i => [⟨m, (updateLocal s m h i).2⟩]
  | .suspect m i => emittedLocal (suspect s m i) m
  | .fail m => emittedLocal (fail s m) m
  | .refute m i => emittedLocal (refute s m i) m
  | .markHealthy m => emittedLocal (markHealthy s m) m
  | .tick => []
  | .syncTime _ => []

/-- every update merged or generated along a history (ghost) -/
def seen (s : State) : List Op → List Update
  | [] => []
  | o :: os => emitted s o ++ seen (apply s o) os

/-- deliver a list of batches -/
def deliver (s : State) (bs : List (List Update)) : State :=
  bs.foldl (fun s b => (merge s b).1) s

def deliverOld (s : State) (bs : List (List Update)) : State :=
  bs.foldl (fun s b => (mergeOld s b).1) s

/-! ### the part of `GossipMembershipManager` that touches the CRDT -/

structure Mgr where
  local_ : Nat
  maxDelta : Nat
  st : State
  /-- keys of the `suspicions` map -/
  suspicions : List Nat
  /-- `incarnation_rejected` counter -/
  rejected : Nat
  /-- own `incarnation` counter -/
  ownInc : Nat

/-- `GossipMembershipManager::new` : local node registered Healthy at incarnation 0 -/
def Mgr.new (loc maxDelta : Nat) : Mgr :=
  ⟨loc, maxDelta, (updateLocal State.empty loc .healthy 0).1, [], 0, 0⟩

/-- `add_peer` : an absent peer is merged in as Unknown at a fresh tick, incarnation 0 -/
def Mgr.addPeer (g : Mgr) (p : Nat) : Mgr :=
  match g.st.regs p with
  | some _ => g
  | none =>
    let s1 : State := { g.st with clock := g.st.clock + 1 }
    { g with st := (merge s1 [⟨p, ⟨.unknown, s1.clock, 0⟩⟩]).1 }

/-- NOT the code: `add_peer` "tidied" into an early-return shape — the placeholder is merged on
    every first registration of a peer, whether or not the view already holds an entry for it (the
    guard `state.get(&peer).is_none()` replaced by the `known_peers` membership test, on the wrong
    assumption that a node that is not a registered peer cannot be in the view: entries are also
    created by gossip).  `known_peers` is not part of the model; a call of this function is a first
    registration.  The placeholder carries a fresh, locally highest timestamp and incarnation 0, so
    it supersedes any entry at incarnation 0.  Kept only for
    `addPeerAlwaysMergesPlaceholder_witness`. -/
def Mgr.addPeerAlwaysMergesPlaceholder (g : Mgr) (p : Nat) : Mgr :=
  let s1 : State := { g.st with clock := g.st.clock + 1 }
  { g with st := (merge s1 [⟨p, ⟨.unknown, s1.clock, 0⟩⟩]).1 }

/-- the incarnation-jump filter of `handle_sync` (evaluated against the state *before* the merge) -/
def passesDelta (s : State) (maxDelta : Nat) (u : Update) : Bool :=
  let delta := match s.regs u.node with
    | none => u.reg.inc
    | some e => u.reg.inc - e.inc
  decide (delta ≤ maxDelta)

/-- `handle_sync` -/
def Mgr.handleSync (g : Mgr) (sender : Nat) (states : List Update) (senderTime : Nat) : Mgr :=
  let s1 := syncTime g.st senderTime
  let filtered := states.filter (passesDelta s1 g.maxDelta)
  let rej := (states.filter (fun u => !passesDelta s1 g.maxDelta u)).length
  let s2 := (merge s1 filtered).1
  let senderInc := match s2.regs sender with | some e => e.inc | none => 0
  let s3 := (merge s2 [⟨sender, ⟨.healthy, s2.clock + 1, senderInc⟩⟩]).1
  { g with st := s3, rejected := g.rejected + rej, suspicions := g.suspicions.filter (· ≠ sender) }

/-- `handle_suspect` (a suspicion of the local node only bumps the own incarnation and broadcasts) -/
def Mgr.handleSuspect (g : Mgr) (suspectId : Nat) (inc : Nat) : Mgr :=
  if suspectId = g.local_ then { g with ownInc := g.ownInc + 1 }
  else if g.suspicions.contains suspectId then g
  else { g with st := (suspect g.st suspectId inc).1, suspicions := suspectId :: g.suspicions }

/-- `handle_alive` -/
def Mgr.handleAlive (g : Mgr) (m : Nat) (inc : Nat) : Mgr :=
  let cur := match g.st.regs m with | some e => e.inc | none => 0
  if inc - cur > g.maxDelta then { g with rejected := g.rejected + 1 }
  else
    let (s', ok) := refute g.st m inc
    if ok then { g with st := s', suspicions := g.suspicions.filter (· ≠ m) } else g

/-- `handle_ping_ack` : a successful indirect ping is direct evidence that `target` is alive —
    `mark_healthy` and the pending suspicion is dropped, only for a member that is in the view;
    an unsuccessful one changes nothing. -/
def Mgr.handlePingAck (g : Mgr) (target : Nat) (success : Bool) : Mgr :=
  if success then
    match g.st.regs target with
    | some _ => { g with st := (markHealthy g.st target).1, suspicions := g.suspicions.filter (· ≠ target) }
    | none => g
  else g

/-- the gossip messages that touch the CRDT (plus `add_peer`) -/
inductive Msg where
  | sync (sender : Nat) (states : List Update) (senderTime : Nat)
  | suspect (m : Nat) (inc : Nat)
  | alive (m : Nat) (inc : Nat)
  | addPeer (p : Nat)
  | pingAck (target : Nat) (success : Bool)
  deriving DecidableEq, Repr

/-- `handle_gossip` -/
def Mgr.handle (g : Mgr) : Msg → Mgr
  | .sync s b t => g.handleSync s b t
  | .suspect m i => g.handleSuspect m i
  | .alive m i => g.handleAlive m i
  | .addPeer p => g.addPeer p
  | .pingAck t ok => g.handlePingAck t ok

def Mgr.run (g : Mgr) (msgs : List Msg) : Mgr := msgs.foldl Mgr.handle g

/-- the `states` payloads of the Sync messages in a list, flattened -/
def syncPayload : List Msg → List Update
  | [] => []
  | .sync _ b _ :: ms => b ++ syncPayload ms
  | _ :: ms => syncPayload ms

/-! ### the multi-node system: only member `m` announces incarnations for `m` -/

structure Sys where
  /-- replica `r`'s CRDT -/
  nodes : Nat → State
  /-- member `m`'s own incarnation counter (`GossipMembershipManager::incarnation`) -/
  announced : Nat → Nat
  /-- register snapshots in flight (never removed: delay, duplication, reordering) -/
  net : List Update
  /-- `Alive { node_id, incarnation }` messages in flight -/
  alive : List (Nat × Nat)

/-- every replica starts with itself Healthy at incarnation 0 -/
def Sys.init : Sys :=
  ⟨fun r => (updateLocal State.empty r .healthy 0).1, fun _ => 0, [], []⟩

inductive Step where
  /-- member `m` refutes a suspicion: bumps its own counter, broadcasts `Alive(m, new)` -/
  | announce (m : Nat)
  /-- replica `r` handles an `Alive(m, inc)` that is in flight -/
  | deliverAlive (r m inc : Nat)
  /-- replica `r` publishes its registers for the members `ms` -/
  | gossip (r : Nat) (ms : List Nat)
  /-- replica `r` merges a batch drawn from the updates in flight -/
  | deliver (r : Nat) (batch : List Update)
  /-- `handle_sync`'s implicit "sender is alive" merge on replica `r` -/
  | markSender (r sender : Nat)
  | addPeer (r p : Nat)
  | suspect (r m inc : Nat)
  | fail (r m : Nat)
  | markHealthy (r m : Nat)

def setNode (nodes : Nat → State) (r : Nat) (s : State) : Nat → State :=
  fun k => if k = r then s else nodes k

def snapshot (s : State) : List Nat → List Update
  | [] => []
  | m :: ms => match s.regs m with
    | some e => ⟨m, e⟩ :: snapshot s ms
    | none => snapshot s ms

def Sys.step (y : Sys) : Step → Sys
  | .announce m =>
    { y with announced := fun k => if k = m then y.announced m + 1 else y.announced k,
             alive := (m, y.announced m + 1) :: y.alive }
  | .deliverAlive r m inc =>
    if (m, inc) ∈ y.alive then { y with nodes := setNode y.nodes r (refute (y.nodes r) m inc).1 } else y
  | .gossip r ms => { y with net := snapshot (y.nodes r) ms ++ y.net }
  | .deliver r batch =>
    if batch.all (· ∈ y.net) then { y with nodes := setNode y.nodes r (merge (y.nodes r) batch).1 } else y
  | .markSender r sender =>
    let s := y.nodes r
    let inc := match s.regs sender with | some e => e.inc | none => 0
    { y with nodes := setNode y.nodes r (merge s [⟨sender, ⟨.healthy, s.clock + 1, inc⟩⟩]).1 }
  | .addPeer r p =>
    let s := y.nodes r
    match s.regs p with
    | some _ => y
    | none =>
      let s1 : State := { s with clock := s.clock + 1 }
      { y with nodes := setNode y.nodes r (merge s1 [⟨p, ⟨.unknown, s1.clock, 0⟩⟩]).1 }
  | .suspect r m inc => { y with nodes := setNode y.nodes r (suspect (y.nodes r) m inc).1 }
  | .fail r m => { y with nodes := setNode y.nodes r (fail (y.nodes r) m).1 }
  | .markHealthy r m => { y with nodes := setNode y.nodes r (markHealthy (y.nodes r) m).1 }

def Sys.run (y : Sys) (steps : List Step) : Sys := steps.foldl Sys.step y

/-! ### the sending side of the manager: `states_for_gossip`, `gossip_round`, `suspect_node` -/

/-- insert into a list sorted by timestamp descending, before the first entry that is not newer
    (so that `sortDesc` is stable, like `sort_by`) -/
def insertDesc (u : Update) : List Update → List Update
  | [] => [u]
  | v :: vs => if u.reg.ts < v.reg.ts then v :: insertDesc u vs else u :: v :: vs

/-- `states.sort_by(|a, b| b.timestamp.cmp(&a.timestamp))` : stable, newest first -/
def sortDesc : List Update → List Update
  | [] => []
  | u :: us => insertDesc u (sortDesc us)

/-- `states_for_gossip(max_count)`.  `order` is the iteration order of the `states` HashMap at the
    time of the call (any list of member ids; an id that is not in the view contributes nothing):
    collect the values, stable-sort them newest timestamp first, truncate to `max_count`. -/
def statesForGossip (s : State) (order : List Nat) (k : Nat) : List Update :=
  (sortDesc (snapshot s order)).take k

/-- the `Sync` that `gossip_round` hands to the transport: `states_for_gossip(max_states_per_message)`
    and the sender's Lamport time, read without ticking -/
def Mgr.syncMsg (g : Mgr) (order : List Nat) (k : Nat) : Msg :=
  .sync g.local_ (statesForGossip g.st order k) g.st.clock

/-- `expire_suspicions` for the pending suspicions `expired` whose timer has run out, in the
    iteration order of the `suspicions` map: the suspicion is dropped and the member is `fail`ed
    (ids that are not pending are skipped). -/
def Mgr.expire (g : Mgr) : List Nat → Mgr
  | [] => g
  | m :: ms =>
    if g.suspicions.contains m then
      Mgr.expire { g with suspicions := g.suspicions.filter (· ≠ m), st := (fail g.st m).1 } ms
    else Mgr.expire g ms

/-- `suspect_node` : the incarnation is the one held for `m` (0 for an unknown member); unless a
    suspicion is already pending the CRDT `suspect` runs and the suspicion is recorded (also when
    `suspect` refused). -/
def Mgr.suspectInc (g : Mgr) (m : Nat) : Nat :=
  match g.st.regs m with | some e => e.inc | none => 0

def Mgr.suspectNode (g : Mgr) (m : Nat) : Mgr :=
  if g.suspicions.contains m then g
  else { g with st := (suspect g.st m (g.suspectInc m)).1, suspicions := m :: g.suspicions }

/-- what can happen at one manager: a handled message, a `gossip_round` that found targets
    (`order` = HashMap iteration order of the view, `k` = `max_states_per_message`, `expired` = the
    suspicions whose timer has run out, in map order), a local `suspect_node` -/
inductive MEv where
  | msg (x : Msg)
  | round (order : List Nat) (k : Nat) (expired : List Nat)
  | suspectNode (m : Nat)
  deriving DecidableEq, Repr

def Mgr.stepEv (g : Mgr) : MEv → Mgr
  | .msg x => g.handle x
  | .round _ _ expired => g.expire expired
  | .suspectNode m => g.suspectNode m

/-- the CRDT-relevant messages the event hands to the transport: the `Alive` with the bumped own
    incarnation when the local node is suspected, the `Sync` of a gossip round, the `Suspect`
    broadcast of `suspect_node` (sent whether or not a suspicion was already pending) -/
def Mgr.out (g : Mgr) : MEv → List Msg
  | .msg (.suspect m _) => if m = g.local_ then [.alive g.local_ (g.ownInc + 1)] else []
  | .msg _ => []
  | .round order k _ => [g.syncMsg order k]
  | .suspectNode m => [.suspect m (g.suspectInc m)]

/-! ### the cluster of managers: every message in flight was produced by a manager -/

structure Cluster where
  nodes : Nat → Mgr
  /-- messages handed to a transport so far (never removed: delay, duplication, reordering,
      delivery to any node) -/
  net : List Msg

/-- node `r` is `GossipMembershipManager::new(r, max_incarnation_delta = d)` -/
def Cluster.init (d : Nat) : Cluster := ⟨fun r => Mgr.new r d, []⟩

/-- which events the environment may trigger at a node: API calls (`add_peer`, `gossip_round`,
    `suspect_node`) and ping acks (their outcome is the transport's) at any time; `Sync`,
    `Suspect` and `Alive` only when some manager has sent exactly that message -/
def Cluster.enabled (c : Cluster) : MEv → Bool
  | .msg (.addPeer _) => true
  | .msg (.pingAck _ _) => true
  | .msg x => decide (x ∈ c.net)
  | .round _ _ _ => true
  | .suspectNode _ => true

def setMgr (nodes : Nat → Mgr) (r : Nat) (g : Mgr) : Nat → Mgr :=
  fun k => if k = r then g else nodes k

/-- event `e` at node `r` -/
def Cluster.step (c : Cluster) (re : Nat × MEv) : Cluster :=
  if c.enabled re.2 then
    ⟨setMgr c.nodes re.1 ((c.nodes re.1).stepEv re.2), (c.nodes re.1).out re.2 ++ c.net⟩
  else c

def Cluster.run (c : Cluster) (steps : List (Nat × MEv)) : Cluster := steps.foldl Cluster.step c

end Neumann.Gossip
