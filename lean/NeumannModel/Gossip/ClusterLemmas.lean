import NeumannModel.Gossip.Lemmas
/-
  C17 helper lemmas for the sending side of the manager (`states_for_gossip`, `gossip_round`,
  `expire_suspicions`, `suspect_node`, `handle_ping_ack`) and for the cluster of managers.
-/
namespace Neumann.Gossip

instance (a b : Option Reg) : Decidable (OLe a b) := by
  cases a <;> cases b <;> unfold OLe <;> infer_instance

/-! ### `sortDesc` -/

theorem insertDesc_perm (u : Update) (l : List Update) : (insertDesc u l).Perm (u :: l) := by
  induction l with
  | nil => exact List.Perm.refl _
  | cons v vs ih =>
    unfold insertDesc
    split
    · exact ((ih.cons v).trans (List.Perm.swap u v vs))
    · exact List.Perm.refl _

theorem sortDesc_perm (l : List Update) : (sortDesc l).Perm l := by
  induction l with
  | nil => exact List.Perm.refl _
  | cons u us ih => exact (insertDesc_perm u (sortDesc us)).trans (ih.cons u)

/-- newest timestamp first -/
def SortedDesc (l : List Update) : Prop := l.Pairwise (fun a b => b.reg.ts ≤ a.reg.ts)

theorem insertDesc_sorted (u : Update) {l : List Update} (h : SortedDesc l) : SortedDesc (insertDesc u l) := by
  induction l with
  | nil => exact List.pairwise_singleton _ _
  | cons v vs ih =>
    unfold insertDesc
    have hv := List.pairwise_cons.mp h
    split
    · rename_i hlt
      refine List.pairwise_cons.mpr ⟨?_, ih hv.2⟩
      intro x hx
      cases List.mem_cons.mp ((insertDesc_perm u vs).mem_iff.mp hx) with
      | inl e => subst e; exact Nat.le_of_lt hlt
      | inr hx => exact hv.1 x hx
    · rename_i hge
      refine List.pairwise_cons.mpr ⟨?_, h⟩
      intro x hx
      cases List.mem_cons.mp hx with
      | inl e => subst e; exact Nat.le_of_not_lt hge
      | inr hx => exact Nat.le_trans (hv.1 x hx) (Nat.le_of_not_lt hge)

theorem sortDesc_sorted (l : List Update) : SortedDesc (sortDesc l) := by
  induction l with
  | nil => exact List.Pairwise.nil
  | cons u us ih => exact insertDesc_sorted u ih

theorem mem_sortDesc {l : List Update} {u : Update} : u ∈ sortDesc l ↔ u ∈ l :=
  (sortDesc_perm l).mem_iff

/-! ### `snapshot` / `statesForGossip` -/

theorem snapshot_nodes_sublist (s : State) (ms : List Nat) :
    ((snapshot s ms).map (·.node)).Sublist ms := by
  induction ms with
  | nil => exact List.Sublist.refl _
  | cons k ks ih =>
    unfold snapshot
    cases s.regs k with
    | none => exact ih.cons k
    | some e => exact ih.cons_cons k

theorem snapshot_length_le (s : State) (ms : List Nat) : (snapshot s ms).length ≤ ms.length := by
  have := (snapshot_nodes_sublist s ms).length_le
  simpa using this

theorem mem_statesForGossip {s : State} {order : List Nat} {k : Nat} {u : Update}
    (h : u ∈ statesForGossip s order k) : u.node ∈ order ∧ s.regs u.node = some u.reg :=
  mem_snapshot.mp (mem_sortDesc.mp (List.mem_of_mem_take h))

theorem statesForGossip_full {s : State} {order : List Nat} {k : Nat} (hk : order.length ≤ k) :
    statesForGossip s order k = sortDesc (snapshot s order) := by
  unfold statesForGossip
  apply List.take_of_length_le
  rw [(sortDesc_perm _).length_eq]
  exact Nat.le_trans (snapshot_length_le s order) hk

theorem mem_statesForGossip_full {s : State} {order : List Nat} {k : Nat} (hk : order.length ≤ k)
    {u : Update} : u ∈ statesForGossip s order k ↔ u.node ∈ order ∧ s.regs u.node = some u.reg := by
  rw [statesForGossip_full hk, mem_sortDesc, mem_snapshot]

/-- merging a full published view joins, member by member (as `merge_snapshot`) -/
theorem joinList_full_view (a : Option Reg) (t : State) (order : List Nat) (k : Nat)
    (hk : order.length ≤ k) (m : Nat) (hm : m ∈ order) :
    joinList a (forMember m (statesForGossip t order k)) = join a (t.regs m) := by
  cases ht : t.regs m with
  | none =>
    rw [join_none_right]
    have : forMember m (statesForGossip t order k) = [] := by
      apply List.eq_nil_iff_forall_not_mem.mpr
      intro x hx
      have := ((mem_statesForGossip_full hk).mp (mem_forMember.mp hx)).2
      simp only at this; rw [ht] at this; cases this
    rw [this]; rfl
  | some r =>
    have h1 : join a (some r) = joinList a [r] := rfl
    rw [h1]
    apply isJoin_unique (joinList_isJoin _ _) (joinList_isJoin _ _)
    intro x
    rw [mem_forMember, mem_statesForGossip_full hk]
    simp only [List.mem_cons, List.not_mem_nil, or_false]
    constructor
    · intro ⟨_, h2⟩; rw [ht] at h2; cases h2; rfl
    · intro e; subst e; exact ⟨hm, ht⟩

/-! ### nothing moves backwards, operation by operation -/

theorem merge_key_mono (s : State) (b : List Update) (m : Nat) :
    OLe (s.regs m) ((merge s b).1.regs m) := by
  rw [merge_apply]; exact (joinList_isJoin _ _).2.1

theorem apply_key_mono {s : State} (hwf : WF s) (o : Op) (hok : OpOk s o) (m : Nat) :
    OLe (s.regs m) ((apply s o).regs m) := by
  rw [apply_join hwf o hok]; exact (joinList_isJoin _ _).2.1

theorem apply_clock_mono (s : State) (o : Op) : s.clock ≤ (apply s o).clock := by
  cases o with
  | merge b => simp only [apply]; rw [merge_clock]; cases maxTs b <;> simp only [] <;> omega
  | updateLocal m h i => simp [apply, updateLocal]
  | suspect m i => simp only [apply]; rw [suspect_spec]; exact localOp_clock _ _ s m
  | fail m => simp only [apply]; rw [fail_spec]; exact localOp_clock _ _ s m
  | refute m i => simp only [apply]; rw [refute_spec]; exact localOp_clock _ _ s m
  | markHealthy m => simp only [apply]; rw [markHealthy_spec]; exact localOp_clock _ _ s m
  | tick => exact Nat.le_succ _
  | syncTime t => simp only [apply, syncTime]; omega

/-- clock and keys do not move backwards and the clock invariant is kept -/
def Fwd (s s' : State) : Prop :=
  s.clock ≤ s'.clock ∧ (∀ m, OLe (s.regs m) (s'.regs m)) ∧ WF s'

theorem Fwd.refl {s : State} (h : WF s) : Fwd s s := ⟨Nat.le_refl _, fun _ => OLe.refl _, h⟩

theorem Fwd.trans {a b c : State} (h1 : Fwd a b) (h2 : Fwd b c) : Fwd a c :=
  ⟨Nat.le_trans h1.1 h2.1, fun m => OLe.trans (h1.2.1 m) (h2.2.1 m), h2.2.2⟩

theorem fwd_apply {s : State} (hwf : WF s) (o : Op) (hok : OpOk s o) : Fwd s (apply s o) :=
  ⟨apply_clock_mono s o, apply_key_mono hwf o hok, apply_wf hwf o⟩

theorem fwd_merge {s : State} (hwf : WF s) (b : List Update) : Fwd s (merge s b).1 :=
  fwd_apply hwf (.merge b) trivial

theorem fwd_clock {s : State} (hwf : WF s) (c : Nat) (hc : s.clock ≤ c) : Fwd s { s with clock := c } :=
  ⟨hc, fun _ => OLe.refl _, wf_clock_mono hwf c hc⟩

/-! ### the manager's events -/

theorem handleSync_fwd (g : Mgr) (h : WF g.st) (s : Nat) (b : List Update) (t : Nat) :
    Fwd g.st (g.handleSync s b t).st := by
  unfold Mgr.handleSync
  simp only []
  have h1 : Fwd g.st (syncTime g.st t) := fwd_clock h _ (by omega)
  have h2 := fwd_merge h1.2.2 (b.filter (passesDelta (syncTime g.st t) g.maxDelta))
  exact (h1.trans h2).trans (fwd_merge h2.2.2 _)

theorem handle_fwd (g : Mgr) (h : WF g.st) (x : Msg) : Fwd g.st (g.handle x).st := by
  cases x with
  | sync s b t => exact handleSync_fwd g h s b t
  | suspect m i =>
    simp only [Mgr.handle, Mgr.handleSuspect]
    split
    · exact Fwd.refl h
    · split
      · exact Fwd.refl h
      · exact fwd_apply h (.suspect m i) trivial
  | alive m i =>
    simp only [Mgr.handle]
    cases handleAlive_st g m i with
    | inl h' => rw [h']; exact Fwd.refl h
    | inr h' => rw [h']; exact fwd_apply h (.refute m i) trivial
  | addPeer p =>
    simp only [Mgr.handle, Mgr.addPeer]
    cases g.st.regs p with
    | some _ => exact Fwd.refl h
    | none =>
      have h1 : Fwd g.st { g.st with clock := g.st.clock + 1 } := fwd_clock h _ (Nat.le_succ _)
      exact h1.trans (fwd_merge h1.2.2 _)
  | pingAck t ok =>
    simp only [Mgr.handle]
    cases handlePingAck_st g t ok with
    | inl h' => rw [h']; exact Fwd.refl h
    | inr h' => rw [h']; exact fwd_apply h (.markHealthy t) trivial

theorem expire_fwd (g : Mgr) (h : WF g.st) (ms : List Nat) : Fwd g.st (g.expire ms).st := by
  induction ms generalizing g with
  | nil => exact Fwd.refl h
  | cons m ms ih =>
    unfold Mgr.expire
    split
    · have h1 : Fwd g.st (fail g.st m).1 := fwd_apply h (.fail m) trivial
      exact h1.trans (ih { g with suspicions := g.suspicions.filter (· ≠ m), st := (fail g.st m).1 } h1.2.2)
    · exact ih g h

theorem suspectNode_fwd (g : Mgr) (h : WF g.st) (m : Nat) : Fwd g.st (g.suspectNode m).st := by
  unfold Mgr.suspectNode
  split
  · exact Fwd.refl h
  · exact fwd_apply h (.suspect m _) trivial

theorem stepEv_fwd (g : Mgr) (h : WF g.st) (e : MEv) : Fwd g.st (g.stepEv e).st := by
  cases e with
  | msg x => exact handle_fwd g h x
  | round o k ex => exact expire_fwd g h ex
  | suspectNode m => exact suspectNode_fwd g h m

/-! ### configuration and own counter -/

theorem expire_local (g : Mgr) (ms : List Nat) :
    (g.expire ms).local_ = g.local_ ∧ (g.expire ms).ownInc = g.ownInc ∧ (g.expire ms).maxDelta = g.maxDelta := by
  induction ms generalizing g with
  | nil => exact ⟨rfl, rfl, rfl⟩
  | cons m ms ih =>
    unfold Mgr.expire
    split
    · exact ih _
    · exact ih g

theorem handle_local (g : Mgr) (x : Msg) :
    (g.handle x).local_ = g.local_ ∧ (g.handle x).maxDelta = g.maxDelta ∧ g.ownInc ≤ (g.handle x).ownInc := by
  cases x with
  | sync s b t => exact ⟨rfl, rfl, Nat.le_refl _⟩
  | suspect m i =>
    simp only [Mgr.handle, Mgr.handleSuspect]
    split
    · exact ⟨rfl, rfl, Nat.le_succ _⟩
    · split <;> exact ⟨rfl, rfl, Nat.le_refl _⟩
  | alive m i =>
    simp only [Mgr.handle, Mgr.handleAlive]
    repeat' split
    all_goals exact ⟨rfl, rfl, Nat.le_refl _⟩
  | addPeer p =>
    simp only [Mgr.handle, Mgr.addPeer]
    split <;> exact ⟨rfl, rfl, Nat.le_refl _⟩
  | pingAck t ok =>
    simp only [Mgr.handle, Mgr.handlePingAck]
    repeat' split
    all_goals exact ⟨rfl, rfl, Nat.le_refl _⟩

theorem stepEv_local (g : Mgr) (e : MEv) :
    (g.stepEv e).local_ = g.local_ ∧ (g.stepEv e).maxDelta = g.maxDelta ∧ g.ownInc ≤ (g.stepEv e).ownInc := by
  cases e with
  | msg x => exact handle_local g x
  | round o k ex => obtain ⟨a, b, c⟩ := expire_local g ex; exact ⟨a, c, Nat.le_of_eq b.symm⟩
  | suspectNode m =>
    simp only [Mgr.stepEv, Mgr.suspectNode]
    split <;> exact ⟨rfl, rfl, Nat.le_refl _⟩

/-! ### the incarnation bound through the manager's events -/

/-- what a message may carry when every incarnation for `m` in flight is at most `A m` -/
def MsgOk (A : Nat → Nat) : Msg → Prop
  | .sync _ b _ => ∀ u ∈ b, u.reg.inc ≤ A u.node
  | .alive m i => i ≤ A m
  | _ => True

theorem incBound_mono {A A' : Nat → Nat} {s : State} (h : IncBound A s) (hA : ∀ m, A m ≤ A' m) :
    IncBound A' s := fun m e he => Nat.le_trans (h m e he) (hA m)

theorem msgOk_mono {A A' : Nat → Nat} {x : Msg} (h : MsgOk A x) (hA : ∀ m, A m ≤ A' m) : MsgOk A' x := by
  cases x with
  | sync s b t => exact fun u hu => Nat.le_trans (h u hu) (hA _)
  | alive m i => exact Nat.le_trans h (hA m)
  | suspect _ _ => trivial
  | addPeer _ => trivial
  | pingAck _ _ => trivial

theorem suspect_incBound {A : Nat → Nat} {s : State} (h : IncBound A s) (m i : Nat) :
    IncBound A (suspect s m i).1 := by
  rw [suspect_spec]; exact localOp_incBound h m (fun e _ he _ => h m e he)
theorem fail_incBound {A : Nat → Nat} {s : State} (h : IncBound A s) (m : Nat) :
    IncBound A (fail s m).1 := by
  rw [fail_spec]; exact localOp_incBound h m (fun e _ he _ => h m e he)
theorem markHealthy_incBound {A : Nat → Nat} {s : State} (h : IncBound A s) (m : Nat) :
    IncBound A (markHealthy s m).1 := by
  rw [markHealthy_spec]; exact localOp_incBound h m (fun e _ he _ => h m e he)
theorem refute_incBound {A : Nat → Nat} {s : State} (h : IncBound A s) (m i : Nat) (hi : i ≤ A m) :
    IncBound A (refute s m i).1 := by
  rw [refute_spec]; exact localOp_incBound h m (fun _ _ _ _ => hi)

theorem handle_incBound {A : Nat → Nat} (g : Mgr) (h : IncBound A g.st) (x : Msg) (hx : MsgOk A x) :
    IncBound A (g.handle x).st := by
  cases x with
  | sync s b t =>
    simp only [Mgr.handle, Mgr.handleSync]
    have h1 : IncBound A (syncTime g.st t) := h
    have h2 : IncBound A (merge (syncTime g.st t) (b.filter (passesDelta (syncTime g.st t) g.maxDelta))).1 :=
      merge_incBound h1 (fun u hu => hx u (List.mem_filter.mp hu).1)
    refine merge_incBound h2 ?_
    intro u hu
    simp only [List.mem_cons, List.not_mem_nil, or_false] at hu
    subst hu
    simp only []
    split
    · rename_i e he; exact h2 s e he
    · exact Nat.zero_le _
  | suspect m i =>
    simp only [Mgr.handle, Mgr.handleSuspect]
    split
    · exact h
    · split
      · exact h
      · exact suspect_incBound h m i
  | alive m i =>
    simp only [Mgr.handle]
    cases handleAlive_st g m i with
    | inl h' => rw [h']; exact h
    | inr h' => rw [h']; exact refute_incBound h m i hx
  | addPeer p =>
    simp only [Mgr.handle, Mgr.addPeer]
    cases g.st.regs p with
    | some _ => exact h
    | none =>
      refine merge_incBound (s := { g.st with clock := g.st.clock + 1 }) h ?_
      intro u hu
      simp only [List.mem_cons, List.not_mem_nil, or_false] at hu
      subst hu; exact Nat.zero_le _
  | pingAck t ok =>
    simp only [Mgr.handle]
    cases handlePingAck_st g t ok with
    | inl h' => rw [h']; exact h
    | inr h' => rw [h']; exact markHealthy_incBound h t

theorem expire_incBound {A : Nat → Nat} (g : Mgr) (h : IncBound A g.st) (ms : List Nat) :
    IncBound A (g.expire ms).st := by
  induction ms generalizing g with
  | nil => exact h
  | cons m ms ih =>
    unfold Mgr.expire
    split
    · exact ih _ (fail_incBound h m)
    · exact ih g h

theorem stepEv_incBound {A : Nat → Nat} (g : Mgr) (h : IncBound A g.st) (e : MEv)
    (he : ∀ x, e = .msg x → MsgOk A x) : IncBound A (g.stepEv e).st := by
  cases e with
  | msg x => exact handle_incBound g h x (he x rfl)
  | round o k ex => exact expire_incBound g h ex
  | suspectNode m =>
    simp only [Mgr.stepEv, Mgr.suspectNode]
    split
    · exact h
    · exact suspect_incBound h m _

/-- `fail` (hence `expire_suspicions`) records a member at exactly the incarnation it held -/
theorem fail_inc (s : State) (m k : Nat) (e' : Reg) (h : (fail s m).1.regs k = some e') :
    ∃ e, s.regs k = some e ∧ e'.inc = e.inc := by
  rw [fail_spec] at h
  rcases localOp_cases (fun e => e.health ≠ .failed) (fun e t => { e with health := .failed, ts := t }) s m
    with h' | ⟨e0, he0, _, h'⟩ <;> rw [h'] at h
  · exact ⟨e', h, rfl⟩
  · simp only [] at h
    by_cases hk : k = m
    · subst hk; rw [setReg_same] at h; cases h; exact ⟨e0, he0, rfl⟩
    · rw [setReg_other _ _ hk] at h; exact ⟨e', h, rfl⟩

theorem expire_inc (g : Mgr) (ms : List Nat) (k : Nat) (e' : Reg) (h : (g.expire ms).st.regs k = some e') :
    ∃ e, g.st.regs k = some e ∧ e'.inc = e.inc := by
  induction ms generalizing g with
  | nil => exact ⟨e', h, rfl⟩
  | cons m ms ih =>
    unfold Mgr.expire at h
    split at h
    · obtain ⟨e1, h1, l1⟩ := ih _ h
      obtain ⟨e0, h0, l0⟩ := fail_inc g.st m k e1 h1
      exact ⟨e0, h0, l1.trans l0⟩
    · exact ih g h

/-! ### `handle_sync` delivers every state that passes the jump filter -/

theorem mem_forMember_self {u : Update} {b : List Update} (h : u ∈ b) : u.reg ∈ forMember u.node b :=
  mem_forMember.mpr (by cases u; exact h)

theorem handleSync_dominates (g : Mgr) (s : Nat) (b : List Update) (t : Nat) (u : Update) (hu : u ∈ b)
    (hp : passesDelta (syncTime g.st t) g.maxDelta u = true) :
    OLe (some u.reg) ((g.handleSync s b t).st.regs u.node) := by
  unfold Mgr.handleSync
  simp only []
  refine OLe.trans ?_ (merge_key_mono _ _ u.node)
  rw [merge_apply]
  exact (joinList_isJoin _ _).2.2 u.reg (mem_forMember_self (List.mem_filter.mpr ⟨hu, hp⟩))

/-! ### the cluster invariant -/

/-- every node is who it says it is, every incarnation recorded anywhere or carried by a `Sync` /
    `Alive` in flight for member `m` is at most `m`'s own counter, every clock dominates -/
def CInv (c : Cluster) : Prop :=
  (∀ r, (c.nodes r).local_ = r) ∧
  (∀ r, IncBound (fun m => (c.nodes m).ownInc) (c.nodes r).st) ∧
  (∀ x ∈ c.net, MsgOk (fun m => (c.nodes m).ownInc) x) ∧
  (∀ r, WF (c.nodes r).st)

theorem cinv_init (d : Nat) : CInv (Cluster.init d) := by
  refine ⟨fun r => rfl, ?_, (by intro x h; cases h), fun r => mgr_new_wf r d⟩
  intro r m e he
  simp only [Cluster.init, Mgr.new, updateLocal, State.empty, setReg] at he
  by_cases hm : m = r
  · simp only [hm, if_true, Option.some.injEq] at he; subst he; exact Nat.zero_le _
  · simp [hm] at he

theorem enabled_msgOk {c : Cluster} {A : Nat → Nat} (hnet : ∀ x ∈ c.net, MsgOk A x) {e : MEv}
    (hen : c.enabled e = true) : ∀ x, e = .msg x → MsgOk A x := by
  intro x hx
  subst hx
  cases x with
  | sync s b t => exact hnet _ (by simpa [Cluster.enabled] using hen)
  | alive m i => exact hnet _ (by simpa [Cluster.enabled] using hen)
  | suspect _ _ => trivial
  | addPeer _ => trivial
  | pingAck _ _ => trivial

theorem out_msgOk (g : Mgr) (A' : Nat → Nat) (e : MEv)
    (hst : IncBound A' g.st) (hown : (g.stepEv e).ownInc ≤ A' g.local_) :
    ∀ x ∈ g.out e, MsgOk A' x := by
  intro x hx
  cases e with
  | msg y =>
    cases y with
    | suspect m i =>
      simp only [Mgr.out] at hx
      split at hx
      · rename_i hm
        simp only [List.mem_cons, List.not_mem_nil, or_false] at hx
        subst hx
        simp only [Mgr.stepEv, Mgr.handle, Mgr.handleSuspect, hm, if_true] at hown
        exact hown
      · cases hx
    | sync _ _ _ => cases hx
    | alive _ _ => cases hx
    | addPeer _ => cases hx
    | pingAck _ _ => cases hx
  | round o k ex =>
    simp only [Mgr.out, Mgr.syncMsg, List.mem_cons, List.not_mem_nil, or_false] at hx
    subst hx
    intro u hu
    exact hst u.node u.reg (mem_statesForGossip hu).2
  | suspectNode m =>
    simp only [Mgr.out, List.mem_cons, List.not_mem_nil, or_false] at hx
    subst hx; trivial

theorem cinv_step (c : Cluster) (re : Nat × MEv) (h : CInv c) : CInv (c.step re) := by
  obtain ⟨r, e⟩ := re
  unfold Cluster.step
  simp only []
  split
  · rename_i hen
    obtain ⟨hloc, hinc, hnet, hwf⟩ := h
    obtain ⟨l1, _, l3⟩ := stepEv_local (c.nodes r) e
    have hA : ∀ m, (c.nodes m).ownInc ≤ (setMgr c.nodes r ((c.nodes r).stepEv e) m).ownInc := by
      intro m; unfold setMgr
      by_cases hm : m = r
      · subst hm; simpa using l3
      · simp [hm]
    have hnew : IncBound (fun m => (c.nodes m).ownInc) ((c.nodes r).stepEv e).st :=
      stepEv_incBound (c.nodes r) (hinc r) e (enabled_msgOk hnet hen)
    refine ⟨?_, ?_, ?_, ?_⟩
    · intro k; unfold setMgr
      by_cases hk : k = r
      · subst hk; simpa using l1.trans (hloc k)
      · simpa [hk] using hloc k
    · intro k
      refine incBound_mono ?_ hA
      unfold setMgr
      by_cases hk : k = r
      · subst hk; simpa using hnew
      · simpa [hk] using hinc k
    · intro x hx
      cases List.mem_append.mp hx with
      | inr hx => exact msgOk_mono (hnet x hx) hA
      | inl hx =>
        refine out_msgOk (c.nodes r) _ e (incBound_mono (hinc r) hA) ?_ x hx
        rw [hloc r]; simp [setMgr]
    · intro k; unfold setMgr
      by_cases hk : k = r
      · subst hk; simpa using (stepEv_fwd (c.nodes k) (hwf k) e).2.2
      · simpa [hk] using hwf k
  · exact h

theorem cinv_run (steps : List (Nat × MEv)) (c : Cluster) (h : CInv c) : CInv (c.run steps) := by
  induction steps generalizing c with
  | nil => exact h
  | cons st sts ih => exact ih (c.step st) (cinv_step c st h)

/-- one cluster step moves no node backwards -/
theorem cluster_step_fwd (c : Cluster) (h : CInv c) (re : Nat × MEv) (k : Nat) :
    Fwd (c.nodes k).st ((c.step re).nodes k).st := by
  obtain ⟨r, e⟩ := re
  unfold Cluster.step
  simp only []
  split
  · unfold setMgr
    by_cases hk : k = r
    · subst hk; simpa using stepEv_fwd (c.nodes k) (h.2.2.2 k) e
    · simpa [hk] using Fwd.refl (h.2.2.2 k)
  · exact Fwd.refl (h.2.2.2 k)

/-! ### runs of one manager -/

def Mgr.runEv (g : Mgr) (evs : List MEv) : Mgr := evs.foldl Mgr.stepEv g

theorem runEv_wf (g : Mgr) (h : WF g.st) (evs : List MEv) : WF (g.runEv evs).st := by
  induction evs generalizing g with
  | nil => exact h
  | cons e es ih => exact ih (g.stepEv e) (stepEv_fwd g h e).2.2

/-! ### every manager event is a short history of public CRDT operations -/

def Mgr.expireOps (g : Mgr) : List Nat → List Op
  | [] => []
  | m :: ms =>
    if g.suspicions.contains m then
      .fail m :: Mgr.expireOps { g with suspicions := g.suspicions.filter (· ≠ m), st := (fail g.st m).1 } ms
    else Mgr.expireOps g ms

/-- the operations of `LWWMembershipState` an event performs, in order -/
def Mgr.evOps (g : Mgr) : MEv → List Op
  | .msg (.sync s b t) =>
    let s1 := syncTime g.st t
    let filtered := b.filter (passesDelta s1 g.maxDelta)
    let s2 := (merge s1 filtered).1
    let senderInc := match s2.regs s with | some e => e.inc | none => 0
    [.syncTime t, .merge filtered, .merge [⟨s, ⟨.healthy, s2.clock + 1, senderInc⟩⟩]]
  | .msg (.suspect m i) =>
    if m = g.local_ then [] else if g.suspicions.contains m then [] else [.suspect m i]
  | .msg (.alive m i) =>
    let cur := match g.st.regs m with | some e => e.inc | none => 0
    if i - cur > g.maxDelta then [] else [.refute m i]
  | .msg (.addPeer p) =>
    match g.st.regs p with
    | some _ => []
    | none => [.tick, .merge [⟨p, ⟨.unknown, g.st.clock + 1, 0⟩⟩]]
  | .msg (.pingAck t ok) =>
    if ok then (match g.st.regs t with | some _ => [.markHealthy t] | none => []) else []
  | .round _ _ ex => g.expireOps ex
  | .suspectNode m => if g.suspicions.contains m then [] else [.suspect m (g.suspectInc m)]

/-- no `update_local` in it (the only operation with a precondition) -/
def NoUpdateLocal : List Op → Prop
  | [] => True
  | .updateLocal _ _ _ :: _ => False
  | _ :: os => NoUpdateLocal os

theorem admissible_of_noUpdateLocal {s : State} {ops : List Op} (h : NoUpdateLocal ops) : Admissible s ops := by
  induction ops generalizing s with
  | nil => trivial
  | cons o os ih =>
    cases o with
    | updateLocal _ _ _ => exact absurd h (by simp [NoUpdateLocal])
    | merge _ => exact ⟨trivial, ih h⟩
    | suspect _ _ => exact ⟨trivial, ih h⟩
    | fail _ => exact ⟨trivial, ih h⟩
    | refute _ _ => exact ⟨trivial, ih h⟩
    | markHealthy _ => exact ⟨trivial, ih h⟩
    | tick => exact ⟨trivial, ih h⟩
    | syncTime _ => exact ⟨trivial, ih h⟩

theorem expireOps_noUL (g : Mgr) (ms : List Nat) : NoUpdateLocal (g.expireOps ms) := by
  induction ms generalizing g with
  | nil => trivial
  | cons m ms ih =>
    unfold Mgr.expireOps
    split
    · exact ih _
    · exact ih g

theorem evOps_noUL (g : Mgr) (e : MEv) : NoUpdateLocal (g.evOps e) := by
  cases e with
  | msg x =>
    cases x with
    | sync s b t => simp [Mgr.evOps, NoUpdateLocal]
    | suspect m i => simp only [Mgr.evOps]; repeat' split
                     all_goals simp [NoUpdateLocal]
    | alive m i => simp only [Mgr.evOps]; repeat' split
                   all_goals simp [NoUpdateLocal]
    | addPeer p => simp only [Mgr.evOps]; repeat' split
                   all_goals simp [NoUpdateLocal]
    | pingAck t ok => simp only [Mgr.evOps]; repeat' split
                      all_goals simp [NoUpdateLocal]
  | round o k ex => exact expireOps_noUL g ex
  | suspectNode m => simp only [Mgr.evOps]; repeat' split
                     all_goals simp [NoUpdateLocal]

theorem expire_eq_run (g : Mgr) (ms : List Nat) : (g.expire ms).st = run g.st (g.expireOps ms) := by
  induction ms generalizing g with
  | nil => rfl
  | cons m ms ih =>
    unfold Mgr.expire Mgr.expireOps
    split
    · rw [ih]; rfl
    · exact ih g

theorem refute_refused {s : State} {m i : Nat} (h : (refute s m i).2 = false) : (refute s m i).1 = s := by
  rw [refute_spec] at h ⊢
  rcases localOp_cases (fun e => i > e.inc) (fun _ t => ⟨.healthy, t, i⟩) s m with h' | ⟨e, _, _, h'⟩
  · rw [h']
  · rw [h'] at h; cases h

theorem stepEv_eq_run (g : Mgr) (e : MEv) : (g.stepEv e).st = run g.st (g.evOps e) := by
  cases e with
  | msg x =>
    cases x with
    | sync s b t => rfl
    | suspect m i =>
      simp only [Mgr.stepEv, Mgr.handle, Mgr.handleSuspect, Mgr.evOps]
      repeat' split
      all_goals rfl
    | alive m i =>
      have key : ∀ cur : Nat,
          (if i - cur > g.maxDelta then { g with rejected := g.rejected + 1 }
            else if (refute g.st m i).2 = true then
              { g with st := (refute g.st m i).1, suspicions := g.suspicions.filter (· ≠ m) } else g).st
          = run g.st (if i - cur > g.maxDelta then [] else [Op.refute m i]) := by
        intro cur
        by_cases hd : i - cur > g.maxDelta
        · simp only [hd, if_true]; rfl
        · simp only [hd, if_false]
          cases hr : (refute g.st m i).2 with
          | true => simp only [if_true]; rfl
          | false =>
            simp only [Bool.false_eq_true, if_false]
            exact (refute_refused hr).symm
      simp only [Mgr.stepEv, Mgr.handle, Mgr.handleAlive, Mgr.evOps]
      cases g.st.regs m with
      | none => exact key 0
      | some e => exact key e.inc
    | addPeer p =>
      simp only [Mgr.stepEv, Mgr.handle, Mgr.addPeer, Mgr.evOps]
      cases g.st.regs p <;> rfl
    | pingAck t ok =>
      simp only [Mgr.stepEv, Mgr.handle, Mgr.handlePingAck, Mgr.evOps]
      cases ok with
      | false => rfl
      | true => simp only [if_true]; cases g.st.regs t <;> rfl
  | round o k ex => exact expire_eq_run g ex
  | suspectNode m =>
    simp only [Mgr.stepEv, Mgr.suspectNode, Mgr.evOps]
    split <;> rfl

/-- the whole CRDT history of a manager: its constructor's `update_local`, then the operations of
    every event -/
def Mgr.historyFrom (g : Mgr) : List MEv → List Op
  | [] => []
  | e :: es => g.evOps e ++ Mgr.historyFrom (g.stepEv e) es

theorem historyFrom_noUL (g : Mgr) (evs : List MEv) : NoUpdateLocal (g.historyFrom evs) := by
  induction evs generalizing g with
  | nil => trivial
  | cons e es ih =>
    have h1 := evOps_noUL g e
    have h2 := ih (g.stepEv e)
    unfold Mgr.historyFrom
    generalize g.evOps e = a at h1
    induction a with
    | nil => exact h2
    | cons o os iho =>
      cases o with
      | updateLocal _ _ _ => exact absurd h1 (by simp [NoUpdateLocal])
      | merge _ => exact iho h1
      | suspect _ _ => exact iho h1
      | fail _ => exact iho h1
      | refute _ _ => exact iho h1
      | markHealthy _ => exact iho h1
      | tick => exact iho h1
      | syncTime _ => exact iho h1

theorem runEv_eq_run (g : Mgr) (evs : List MEv) : (g.runEv evs).st = run g.st (g.historyFrom evs) := by
  induction evs generalizing g with
  | nil => rfl
  | cons e es ih =>
    have : g.runEv (e :: es) = (g.stepEv e).runEv es := rfl
    rw [this, ih, stepEv_eq_run,
      show g.historyFrom (e :: es) = g.evOps e ++ (g.stepEv e).historyFrom es from rfl, run_append]

def Mgr.history (loc : Nat) (d : Nat) (evs : List MEv) : List Op :=
  .updateLocal loc .healthy 0 :: (Mgr.new loc d).historyFrom evs

theorem mgr_history_admissible (loc d : Nat) (evs : List MEv) : Admissible State.empty (Mgr.history loc d evs) :=
  show OpOk _ _ ∧ Admissible _ _ from
    ⟨fun _ h => (by cases h), admissible_of_noUpdateLocal (historyFrom_noUL _ evs)⟩

theorem mgr_history_run (loc d : Nat) (evs : List MEv) :
    ((Mgr.new loc d).runEv evs).st = run State.empty (Mgr.history loc d evs) := by
  rw [runEv_eq_run]; rfl

/-- a Sync whose states for `m` are all dominated by the held register leaves it alone -/
theorem handleSync_absorbs (g : Mgr) (s : Nat) (b : List Update) (t : Nat) (m : Nat) (hm : m ≠ s)
    (hold : ∀ u ∈ b, u.node = m → OLe (some u.reg) (g.st.regs m)) :
    (g.handleSync s b t).st.regs m = g.st.regs m := by
  unfold Mgr.handleSync
  simp only []
  rw [merge_apply, merge_apply]
  have hs : ¬ s = m := fun e => hm e.symm
  have h1 : ∀ r : Reg, forMember m [(⟨s, r⟩ : Update)] = [] := by
    intro r; simp [forMember, hs]
  rw [h1]
  show joinList (g.st.regs m) _ = _
  apply joinList_absorb
  intro x hx
  have := mem_forMember.mp hx
  exact hold _ (List.mem_filter.mp this).1 rfl

end Neumann.Gossip
