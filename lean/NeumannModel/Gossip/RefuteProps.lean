import NeumannModel.Gossip.RefuteLemmas
import NeumannModel.Gossip.ClusterProps
/-
  C17 — a refutation is never lost: `LWWMembershipState::refute` (the operation behind
  `GossipMessage::Alive` / `handle_alive`) against old news.
  ONLY property theorems and their non-vacuity examples; helpers are in `RefuteLemmas.lean`.

  The clauses of the property this file is about: "a node's recorded incarnation for any member
  never decreases", "a member is never recorded as failed at an incarnation higher than one that
  member itself announced" and convergence, read together: once a replica has been told that `m`
  announced incarnation `n`, it records at least `n` — whatever it recorded before, in particular
  also when it saw `m` as Healthy and knew of no suspicion —, and from then on suspicions /
  Degraded / Failed / Unknown states of incarnations below `n` can never be recorded again.
  Hence the announcement and any amount of such old news commute.

  Reading guide
  * `StaleFor m n o` (RefuteLemmas): the operation `o` carries, about `m`, only news of
    incarnations below `n` (`merge` of states of `m` with a lower incarnation — any health, any
    timestamp —, `suspect` / `refute` with a lower incarnation, `mark_healthy`, clock operations,
    anything about other members).  `fail(m)` and `update_local(m, ..)` are not in the class.
  * `EvStale m n e`: the same for manager events (`Sync` from anybody but `m`, `Suspect`, `Alive`,
    `add_peer`, ping acks, rounds in which no suspicion of `m` expires, `suspect_node` of others).
  * `refuteUnlessHealthy` (Model.lean): NOT the code — `refute` that leaves a Healthy member alone.
-/
namespace Neumann.Gossip.Props
open Neumann.Gossip

/-! ## R1. `refute` records the announced incarnation -/

/-- After `refute(m, n)` has returned, a member that is in the view is recorded at an incarnation
    of at least `n` — for EVERY register held before (Healthy, Degraded, Failed or Unknown, any
    timestamp, any incarnation), whether the call returned `true` or `false`. -/
theorem refute_records_announced (s : State) (m n : Nat) (e : Reg) (h : s.regs m = some e) :
    ∃ e', (refute s m n).1.regs m = some e' ∧ n ≤ e'.inc := by
  by_cases hlt : e.inc < n
  · rw [refute_fires h hlt]
    exact ⟨_, setReg_same _ _ _, Nat.le_refl _⟩
  · rcases refute_reg s m n m e h with h' | ⟨_, hc, _⟩
    · exact ⟨e, h', by omega⟩
    · omega

/-- a strictly higher incarnation is recorded whatever the health: the member is Healthy at `n`
    with the fresh stamp `clock + 1`, and the call answers `true` -/
theorem refute_raises_whatever_the_health (s : State) (m n : Nat) (e : Reg) (h : s.regs m = some e)
    (hlt : e.inc < n) :
    (refute s m n).2 = true ∧ (refute s m n).1.regs m = some ⟨.healthy, s.clock + 1, n⟩ ∧
      (refute s m n).1.clock = s.clock + 1 := by
  rw [refute_fires h hlt]
  exact ⟨rfl, setReg_same _ _ _, rfl⟩

/-- `refute` answers `true` exactly for a known member and a strictly higher incarnation; the
    recorded health plays no role -/
theorem refute_accepts_iff (s : State) (m n : Nat) :
    (refute s m n).2 = true ↔ ∃ e, s.regs m = some e ∧ e.inc < n := by
  unfold refute
  cases h : s.regs m with
  | none => simp
  | some e => by_cases hlt : n > e.inc <;> simp [hlt]

example : (refute (merge State.empty [⟨1, ⟨.healthy, 3, 0⟩⟩]).1 1 1).1.regs 1 = some ⟨.healthy, 5, 1⟩ ∧
    (refute (merge State.empty [⟨1, ⟨.failed, 3, 0⟩⟩]).1 1 1).1.regs 1 = some ⟨.healthy, 5, 1⟩ := by decide

/-- and it stays recorded: after `refute(m, n)` every admissible history (merges of anything,
    suspect, fail, refute, mark_healthy, clock operations) keeps `m` at an incarnation `≥ n` -/
theorem announced_incarnation_is_kept (s : State) (m n : Nat) (e : Reg) (h : s.regs m = some e)
    (ops : List Op) (hadm : Admissible (refute s m n).1 ops) :
    ∃ e', (run (refute s m n).1 ops).regs m = some e' ∧ n ≤ e'.inc := by
  obtain ⟨e1, h1, hn⟩ := refute_records_announced s m n e h
  obtain ⟨e2, h2, hle⟩ := inc_monotone_run _ ops hadm m e1 h1
  exact ⟨e2, h2, Nat.le_trans hn hle⟩

/-! ## R2. a refutation and old news commute -/

/-- Let `m` be in the view at an incarnation below `n`.  Take ANY two sequences `pre`, `post` of
    operations that carry only news about incarnations of `m` below `n` (`StaleFor`), and put
    `refute(m, n)` anywhere between them.  The replica ends with `m` Healthy at incarnation `n`:
    old news that arrives before the refutation cannot stop it (whatever health it leaves behind,
    Healthy included), old news that arrives after it is ignored. -/
theorem refute_wins_over_stale_news (s : State) (m n : Nat) (e : Reg) (h : s.regs m = some e)
    (hlt : e.inc < n) (pre post : List Op) (hpre : ∀ o ∈ pre, StaleFor m n o)
    (hpost : ∀ o ∈ post, StaleFor m n o) :
    ∃ t, (run s (pre ++ .refute m n :: post)).regs m = some ⟨.healthy, t, n⟩ := by
  obtain ⟨e1, he1, _, hlt1⟩ := run_stale_below (lo := 0) pre hpre ⟨e, h, Nat.zero_le _, hlt⟩
  have hr : (apply (run s pre) (.refute m n)).regs m = some ⟨.healthy, (run s pre).clock + 1, n⟩ :=
    (refute_raises_whatever_the_health _ m n e1 he1 hlt1).2.1
  refine ⟨(run s pre).clock + 1, ?_⟩
  rw [run_append]
  exact run_stale_refuted post hpost hr

/-- Order independence: two replicas that start from the same register for `m` and receive the
    refutation `refute(m, n)` and old news about `m` in ANY two orders (in particular: the same
    events, the refutation overtaking the suspicion at one replica and trailing it at the other)
    agree on `m`'s health and incarnation — Healthy at `n`. -/
theorem refute_and_stale_news_commute (s₁ s₂ : State) (m n : Nat) (e₁ e₂ : Reg)
    (h₁ : s₁.regs m = some e₁) (h₂ : s₂.regs m = some e₂) (hlt₁ : e₁.inc < n) (hlt₂ : e₂.inc < n)
    (pre₁ post₁ pre₂ post₂ : List Op)
    (hs : ∀ o ∈ pre₁ ++ post₁ ++ pre₂ ++ post₂, StaleFor m n o) :
    ((run s₁ (pre₁ ++ .refute m n :: post₁)).regs m).map (fun r => (r.health, r.inc)) = some (.healthy, n) ∧
    ((run s₂ (pre₂ ++ .refute m n :: post₂)).regs m).map (fun r => (r.health, r.inc)) = some (.healthy, n) := by
  obtain ⟨t₁, r₁⟩ := refute_wins_over_stale_news s₁ m n e₁ h₁ hlt₁ pre₁ post₁
    (fun o ho => hs o (by simp [ho])) (fun o ho => hs o (by simp [ho]))
  obtain ⟨t₂, r₂⟩ := refute_wins_over_stale_news s₂ m n e₂ h₂ hlt₂ pre₂ post₂
    (fun o ho => hs o (by simp [ho])) (fun o ho => hs o (by simp [ho]))
  rw [r₁, r₂]
  exact ⟨rfl, rfl⟩

-- non-vacuity: the two orders of {suspect(m, 0), refute(m, 1)} and a stale Failed state with a
-- far newer timestamp, on a member seen Healthy at incarnation 0
example :
    let s := (merge State.empty [⟨1, ⟨.healthy, 1, 0⟩⟩]).1
    StaleFor 1 1 (.suspect 1 0) ∧ StaleFor 1 1 (.merge [⟨1, ⟨.failed, 7, 0⟩⟩]) ∧
    (run s [.suspect 1 0, .refute 1 1]).regs 1 = some ⟨.healthy, 4, 1⟩ ∧
    (run s [.refute 1 1, .suspect 1 0]).regs 1 = some ⟨.healthy, 3, 1⟩ ∧
    (run s [.refute 1 1, .merge [⟨1, ⟨.failed, 7, 0⟩⟩]]).regs 1 = some ⟨.healthy, 3, 1⟩ ∧
    (run s [.merge [⟨1, ⟨.failed, 7, 0⟩⟩], .refute 1 1]).regs 1 = some ⟨.healthy, 9, 1⟩ := by
  refine ⟨?_, ?_, ?_, ?_, ?_, ?_⟩
  · intro _; decide
  · intro u hu _
    simp only [List.mem_cons, List.not_mem_nil, or_false] at hu
    subst hu; decide
  all_goals decide

/-! ## R3. the manager: `handle_alive` -/

/-- `handle_alive(m, n)` on a known member within the incarnation jump limit: the member is
    recorded at an incarnation of at least `n` afterwards, whatever was recorded before -/
theorem mgr_alive_records_announced (g : Mgr) (m n : Nat) (e : Reg) (h : g.st.regs m = some e)
    (hd : n ≤ e.inc + g.maxDelta) :
    ∃ e', (g.handle (.alive m n)).st.regs m = some e' ∧ n ≤ e'.inc := by
  by_cases hlt : e.inc < n
  · exact ⟨_, handleAlive_fires h hlt hd, Nat.le_refl _⟩
  · cases handleAlive_st g m n with
    | inl h' => exact ⟨e, by simp only [Mgr.handle]; rw [h']; exact h, by omega⟩
    | inr h' =>
      obtain ⟨e', he', hn⟩ := refute_records_announced g.st m n e h
      exact ⟨e', by simp only [Mgr.handle]; rw [h']; exact he', hn⟩

/-- The manager form of `refute_wins_over_stale_news`, over ALL events of a manager: `m` known at
    an incarnation below `n` and within the jump limit of `n`; any events that carry only old news
    about `m` (`EvStale`: Syncs from others with states of `m` below `n`, Suspect / Alive about
    lower incarnations, add_peer, ping acks, rounds that do not expire a suspicion of `m`,
    suspect_node of others) before and after the `Alive(m, n)`: `m` ends Healthy at `n`. -/
theorem mgr_alive_wins_over_stale_news (g : Mgr) (m n : Nat) (e : Reg) (h : g.st.regs m = some e)
    (hlt : e.inc < n) (hd : n ≤ e.inc + g.maxDelta) (pre post : List MEv)
    (hpre : ∀ x ∈ pre, EvStale m n x) (hpost : ∀ x ∈ post, EvStale m n x) :
    ∃ t, (g.runEv (pre ++ .msg (.alive m n) :: post)).st.regs m = some ⟨.healthy, t, n⟩ := by
  obtain ⟨e1, he1, hlo, hlt1⟩ := runEv_stale_below (lo := e.inc) pre g hpre ⟨e, h, Nat.le_refl _, hlt⟩
  have hmd : (g.runEv pre).maxDelta = g.maxDelta := runEv_maxDelta g pre
  have hr : ((g.runEv pre).stepEv (.msg (.alive m n))).st.regs m =
      some ⟨.healthy, (g.runEv pre).st.clock + 1, n⟩ :=
    handleAlive_fires he1 hlt1 (by rw [hmd]; omega)
  refine ⟨(g.runEv pre).st.clock + 1, ?_⟩
  rw [runEv_append]
  exact runEv_stale_refuted post _ hpost hr

/-- two managers, the `Alive` and the old news in any two orders: both record `m` Healthy at `n` -/
theorem mgr_alive_and_stale_news_commute (g₁ g₂ : Mgr) (m n : Nat) (e₁ e₂ : Reg)
    (h₁ : g₁.st.regs m = some e₁) (h₂ : g₂.st.regs m = some e₂) (hlt₁ : e₁.inc < n) (hlt₂ : e₂.inc < n)
    (hd₁ : n ≤ e₁.inc + g₁.maxDelta) (hd₂ : n ≤ e₂.inc + g₂.maxDelta)
    (pre₁ post₁ pre₂ post₂ : List MEv)
    (hs : ∀ x ∈ pre₁ ++ post₁ ++ pre₂ ++ post₂, EvStale m n x) :
    ((g₁.runEv (pre₁ ++ .msg (.alive m n) :: post₁)).st.regs m).map (fun r => (r.health, r.inc)) = some (.healthy, n) ∧
    ((g₂.runEv (pre₂ ++ .msg (.alive m n) :: post₂)).st.regs m).map (fun r => (r.health, r.inc)) = some (.healthy, n) := by
  obtain ⟨t₁, r₁⟩ := mgr_alive_wins_over_stale_news g₁ m n e₁ h₁ hlt₁ hd₁ pre₁ post₁
    (fun o ho => hs o (by simp [ho])) (fun o ho => hs o (by simp [ho]))
  obtain ⟨t₂, r₂⟩ := mgr_alive_wins_over_stale_news g₂ m n e₂ h₂ hlt₂ hd₂ pre₂ post₂
    (fun o ho => hs o (by simp [ho])) (fun o ho => hs o (by simp [ho]))
  rw [r₁, r₂]
  exact ⟨rfl, rfl⟩

-- non-vacuity: manager 0 learns member 1 (Healthy, incarnation 0) from a Sync of node 2, then
-- Alive(1, 1) and the stale Suspect(1, 0) in both orders
example :
    let g := (Mgr.new 0 100).handle (.sync 2 [⟨1, ⟨.healthy, 1, 0⟩⟩] 1)
    EvStale 1 1 (.msg (.suspect 1 0)) ∧ g.st.regs 1 = some ⟨.healthy, 1, 0⟩ ∧
    ((g.runEv [.msg (.alive 1 1), .msg (.suspect 1 0)]).st.regs 1).map (fun r => (r.health, r.inc)) = some (.healthy, 1) ∧
    ((g.runEv [.msg (.suspect 1 0), .msg (.alive 1 1)]).st.regs 1).map (fun r => (r.health, r.inc)) = some (.healthy, 1) := by
  refine ⟨?_, ?_, ?_, ?_⟩
  · intro _; decide
  all_goals decide

/-! ## R4. what goes wrong when a Healthy member is left alone -/

/-- `refuteUnlessHealthy` differs from the code's `refute` exactly on a member recorded Healthy
    below the announced incarnation (there it does nothing) -/
theorem refuteUnlessHealthy_differs_iff (s : State) (m n : Nat) :
    refuteUnlessHealthy s m n ≠ refute s m n ↔
      ∃ e, s.regs m = some e ∧ e.health = .healthy ∧ e.inc < n := by
  unfold refuteUnlessHealthy refute
  cases h : s.regs m with
  | none => simp
  | some e =>
    by_cases h1 : n > e.inc <;> by_cases h2 : e.health = .healthy <;> simp [h1, h2] <;> omega

/-- With the "nothing to refute while Healthy" shortcut (`refuteUnlessHealthy`) on a member seen
    Healthy at incarnation 0: the announced incarnation 1 is dropped (`refute_records_announced`
    fails); the two orders of {suspect(m, 0), refute(m, 1)} end Healthy@1 and Degraded@0; a stale
    Failed state of incarnation 0 merged afterwards is accepted, so the member is recorded Failed
    at an incarnation it had already refuted, while the replica that saw the stale state first
    ends Healthy@1. -/
theorem refuteUnlessHealthy_witness :
    let s := (merge State.empty [⟨1, ⟨.healthy, 1, 0⟩⟩]).1
    let hi := fun (x : State) => (x.regs 1).map (fun r => (r.health, r.inc))
    ((refuteUnlessHealthy s 1 1).2 = false ∧ hi (refuteUnlessHealthy s 1 1).1 = some (.healthy, 0)) ∧
    (hi (refuteUnlessHealthy (suspect s 1 0).1 1 1).1 = some (.healthy, 1) ∧
      hi (suspect (refuteUnlessHealthy s 1 1).1 1 0).1 = some (.degraded, 0)) ∧
    (hi (refuteUnlessHealthy (merge s [⟨1, ⟨.failed, 7, 0⟩⟩]).1 1 1).1 = some (.healthy, 1) ∧
      hi (merge (refuteUnlessHealthy s 1 1).1 [⟨1, ⟨.failed, 7, 0⟩⟩]).1 = some (.failed, 0)) := by
  decide

-- the same steps with the code's `refute`: both orders Healthy@1
example :
    let s := (merge State.empty [⟨1, ⟨.healthy, 1, 0⟩⟩]).1
    let hi := fun (x : State) => (x.regs 1).map (fun r => (r.health, r.inc))
    hi (refute s 1 1).1 = some (.healthy, 1) ∧
    hi (suspect (refute s 1 1).1 1 0).1 = some (.healthy, 1) ∧
    hi (merge (refute s 1 1).1 [⟨1, ⟨.failed, 7, 0⟩⟩]).1 = some (.healthy, 1) := by
  decide

/-! ## R5. observation: the manager's suspicion table is not tagged with what it suspects -/

/-- NOT covered by `mgr_alive_wins_over_stale_news` (its hypothesis excludes rounds in which a
    suspicion of `m` expires), and true of the code as it is: `handle_suspect` records a pending
    suspicion also when the CRDT `suspect` refused it as stale, and `expire_suspicions` fails the
    member at whatever incarnation is recorded by then.  Manager 0 sees member 1 Healthy@0; with
    `Alive(1, 1)` before the stale `Suspect(1, 0)` the next expiring round records member 1 Failed
    at the incarnation 1 it announced in order to refute exactly that suspicion; in the other
    order the `Alive` clears the suspicion and member 1 stays Healthy@1.  (Failed at 1 ≤ announced
    1: the clause "never failed above an announced incarnation" holds; the expiry is a local
    `fail` event, which the property does not require to commute.) -/
theorem stale_suspicion_stays_pending_witness :
    let g := (Mgr.new 0 100).handle (.sync 2 [⟨1, ⟨.healthy, 1, 0⟩⟩] 1)
    let hi := fun (x : Mgr) => (x.st.regs 1).map (fun r => (r.health, r.inc))
    hi ((g.run [.alive 1 1, .suspect 1 0]).expire [1]) = some (.failed, 1) ∧
    hi ((g.run [.suspect 1 0, .alive 1 1]).expire [1]) = some (.healthy, 1) := by
  decide

end Neumann.Gossip.Props
