import NeumannModel.Gossip.HlcLemmas
/-
  C17 — "a node's … logical clock never decrease[s]": the hybrid logical clock of
  tensor_chain/src/hlc.rs.  ONLY property theorems and their non-vacuity examples; helpers are in
  `HlcLemmas.lean`, the model in `Hlc.lean`.

  Reading guide
  * `Ts` / `a < b`      : `HLCTimestamp` and its derived `Ord` (wall_ms, logical, node_id_hash).
  * `Clock.now c p`     : `now()` when `wall_with_drift()` reads `p`.
  * `Clock.receive c p r` : `receive(&r)` when `wall_with_drift()` reads `p`.
  * `Clock.run c steps` : any sequence of such calls, every call with its OWN physical-time reading —
                          nothing relates the readings of different calls: the physical clock may
                          stall, jump or run backwards between (and because of `set_drift_offset`,
                          during) any two calls.
  * `c.stamp`           : the timestamp the clock stands at (`last_wall_ms`, `logical`, node).
-/
namespace Neumann.Gossip.Props
open Neumann.Gossip.Hlc

/-! ## 20. the order timestamps are compared in -/

/-- the derived order is a strict total order -/
theorem hlc_order_is_strict_total (a b c : Ts) :
    ¬ a < a ∧ (a < b → b < c → a < c) ∧ (a < b ∨ a = b ∨ b < a) :=
  ⟨Ts.lt_irrefl a, Ts.lt_trans, Ts.lt_trichotomy a b⟩

/-! ## 21. one call -/

/-- `now()` hands out a timestamp strictly after the one the clock stood at — whatever the physical
    clock reads — and the clock then stands at exactly that timestamp -/
theorem hlc_now_moves_forward (c : Clock) (p : Nat) :
    c.stamp < (c.now p).2 ∧ (c.now p).1.stamp = (c.now p).2 :=
  ⟨(now_spec c p).1, (now_spec c p).2.1⟩

/-- `receive(r)` hands out a timestamp strictly after BOTH the one the clock stood at and `r`,
    whatever the physical clock reads and however the three wall times tie, and the clock then stands
    at exactly that timestamp -/
theorem hlc_receive_after_local_and_received (c : Clock) (p : Nat) (r : Ts) :
    c.stamp < (c.receive p r).2 ∧ r < (c.receive p r).2 ∧ (c.receive p r).1.stamp = (c.receive p r).2 :=
  ⟨(receive_spec c p r).1, (receive_spec c p r).2.1, (receive_spec c p r).2.2.1⟩

/-- the wall component of every answer is the largest wall time in sight: never behind the physical
    reading of that call, never behind the clock's own, never behind the received one -/
theorem hlc_wall_is_max_of_walls (c : Clock) (p : Nat) (r : Ts) :
    (c.now p).2.wall = max p c.last ∧ (c.receive p r).2.wall = max (max p c.last) r.wall :=
  ⟨(now_spec c p).2.2.2, (receive_spec c p r).2.2.2.2⟩

/-- a physical reading at or behind the clock's wall component has no influence on the answer: all
    such readings (a stalled clock, one that was set back by any amount) give the same result -/
theorem hlc_physical_time_behind_is_irrelevant (c : Clock) (p q : Nat) (r : Ts)
    (hp : p ≤ c.last) (hq : q ≤ c.last) :
    c.now p = c.now q ∧ c.receive p r = c.receive q r := by
  constructor
  · simp only [Clock.now, show ¬ p > c.last by omega, show ¬ q > c.last by omega, if_false]
  · have h : max (max p c.last) r.wall = max (max q c.last) r.wall := by omega
    simp only [Clock.receive, Clock.receiveWith, h]

example : (Clock.mk 100 4 1).receive 0 ⟨100, 2, 9⟩ = (Clock.mk 100 4 1).receive 100 ⟨100, 2, 9⟩ :=
  (hlc_physical_time_behind_is_irrelevant _ 0 100 _ (by decide) (by decide)).2

/-! ## 22. every sequence of calls, arbitrary physical readings -/

/-- ISSUED TIMESTAMPS ARE STRICTLY INCREASING: in every sequence of now / receive calls on a clock in
    any state, with arbitrary physical readings and arbitrary received timestamps, every timestamp
    handed out is strictly after every timestamp handed out earlier -/
theorem hlc_issued_strictly_increasing (c : Clock) (steps : List Step) :
    (c.run steps).2.Pairwise (· < ·) :=
  run_pairwise c steps

/-- in particular no timestamp is ever handed out twice -/
theorem hlc_issued_no_duplicates (c : Clock) (steps : List Step) : (c.run steps).2.Nodup :=
  (run_pairwise c steps).imp fun {a b} h => fun e : a = b => by subst e; exact Ts.lt_irrefl _ h

/-- the clock itself never moves backwards: after any calls it stands at the last timestamp handed
    out, at or after everything handed out, and (strictly, once a call was made) after where it
    started -/
theorem hlc_clock_never_moves_backwards (c : Clock) (steps : List Step) :
    (∀ t ∈ (c.run steps).2, c.stamp < t) ∧
      (∀ t ∈ (c.run steps).2, t = (c.run steps).1.stamp ∨ t < (c.run steps).1.stamp) ∧
      ((c.run steps).1.stamp = c.stamp ∨ c.stamp < (c.run steps).1.stamp) :=
  ⟨(run_above_start c steps).1, (run_above_start c steps).2.1, (run_above_start c steps).2.2.2⟩

/-- `receive(r)` after ANY history returns a timestamp greater than `r` and than everything issued
    before -/
theorem hlc_receive_after_everything_issued (c : Clock) (steps : List Step) (p : Nat) (r : Ts) :
    r < ((c.run steps).1.receive p r).2 ∧ ∀ u ∈ (c.run steps).2, u < ((c.run steps).1.receive p r).2 := by
  refine ⟨(receive_spec _ p r).2.1, fun u hu => ?_⟩
  rcases (run_above_start c steps).2.1 u hu with h | h
  · exact h ▸ (receive_spec _ p r).1
  · exact Ts.lt_trans h (receive_spec _ p r).1

/-- `now()` after ANY history returns a timestamp greater than everything issued before -/
theorem hlc_now_after_everything_issued (c : Clock) (steps : List Step) (p : Nat) :
    ∀ u ∈ (c.run steps).2, u < ((c.run steps).1.now p).2 := by
  intro u hu
  rcases (run_above_start c steps).2.1 u hu with h | h
  · exact h ▸ (now_spec _ p).1
  · exact Ts.lt_trans h (now_spec _ p).1

/-- a received timestamp stays behind for good: the answer to `receive(r)` and everything the clock
    hands out afterwards, under any later calls, is strictly after `r` -/
theorem hlc_received_stays_behind (c : Clock) (p : Nat) (r : Ts) (later : List Step) :
    ∀ t ∈ (c.run (.recv p r :: later)).2, r < t := by
  intro t ht
  rw [run_cons] at ht
  rcases List.mem_cons.mp ht with rfl | ht
  · exact (receive_spec c p r).2.1
  · have h := (run_above_start (c.step (.recv p r)).1 later).1 t ht
    rw [(step_spec c (.recv p r)).2.1] at h
    exact Ts.lt_trans (receive_spec c p r).2.1 h

/-- message causality between two clocks with unrelated physical clocks: whatever clock `a` stamps a
    message with, everything clock `b` hands out from the receipt on is strictly after it — also when
    the message is delayed behind any other calls on `b`, delivered again, or ties with `b`'s wall
    component -/
theorem hlc_message_causality (a b : Clock) (sa : Step) (before : List Step) (pb : Nat) (later : List Step) :
    ∀ t ∈ ((b.run before).1.run (.recv pb (a.step sa).2 :: later)).2, (a.step sa).2 < t :=
  hlc_received_stays_behind _ pb _ later

/-- the wall component never decreases along a run -/
theorem hlc_wall_never_decreases (c : Clock) (steps : List Step) :
    c.last ≤ (c.run steps).1.last ∧ ∀ t ∈ (c.run steps).2, c.last ≤ t.wall := by
  have h := run_above_start c steps
  constructor
  · rcases h.2.2.2 with e | l
    · have : (c.run steps).1.stamp.wall = c.stamp.wall := by rw [e]
      exact Nat.le_of_eq this.symm
    · rw [Ts.lt_def] at l
      simp only [Clock.stamp] at l
      omega
  · intro t ht
    have l := h.1 t ht
    rw [Ts.lt_def] at l
    simp only [Clock.stamp] at l
    omega

/-- non-vacuity: the physical clock stalls (5, 5), jumps (900), runs backwards (3, 0) and a delayed
    message ties with the clock's wall component with a smaller counter; the answers keep increasing -/
example :
    ((Clock.mk 100 0 1).run
      [.now 5, .recv 5 ⟨160, 0, 2⟩, .now 3, .now 0, .recv 0 ⟨160, 1, 2⟩, .recv 160 ⟨160, 9, 2⟩,
       .now 900, .now 3, .recv 0 ⟨900, 1, 7⟩, .recv 0 ⟨900, 0, 7⟩]).2
      = [⟨100, 1, 1⟩, ⟨160, 1, 1⟩, ⟨160, 2, 1⟩, ⟨160, 3, 1⟩, ⟨160, 4, 1⟩, ⟨160, 10, 1⟩,
         ⟨900, 0, 1⟩, ⟨900, 1, 1⟩, ⟨900, 2, 1⟩, ⟨900, 3, 1⟩] := by decide

/-! ## 23. a ladder that tests "received carries the maximum wall time" first -/

/-- NOT the code.  With the received-first ladder a delayed message that ties with the clock's wall
    component and carries a smaller counter sets the clock back: `receive` returns (160, 2) after
    `now()` had returned (160, 3), and the next `now()` hands (160, 3) out a second time.  The code's
    ladder (three-way tie first) answers (160, 4), (160, 5) on the same calls. -/
theorem hlc_receivedFirst_ladder_moves_backwards_witness :
    ((Clock.mk 100 0 1).runReceivedFirst
        [.recv 0 ⟨160, 0, 2⟩, .now 0, .now 0, .recv 0 ⟨160, 1, 2⟩, .now 0]).2
      = [⟨160, 1, 1⟩, ⟨160, 2, 1⟩, ⟨160, 3, 1⟩, ⟨160, 2, 1⟩, ⟨160, 3, 1⟩] ∧
    ((Clock.mk 100 0 1).run
        [.recv 0 ⟨160, 0, 2⟩, .now 0, .now 0, .recv 0 ⟨160, 1, 2⟩, .now 0]).2
      = [⟨160, 1, 1⟩, ⟨160, 2, 1⟩, ⟨160, 3, 1⟩, ⟨160, 4, 1⟩, ⟨160, 5, 1⟩] ∧
    ¬ ((Clock.mk 100 0 1).runReceivedFirst
        [.recv 0 ⟨160, 0, 2⟩, .now 0, .now 0, .recv 0 ⟨160, 1, 2⟩, .now 0]).2.Pairwise (· < ·) ∧
    ¬ ((Clock.mk 100 0 1).runReceivedFirst
        [.recv 0 ⟨160, 0, 2⟩, .now 0, .now 0, .recv 0 ⟨160, 1, 2⟩, .now 0]).2.Nodup := by decide

/-- the two ladders differ ONLY on that tie: whenever the received wall time is not equal to the
    clock's, or its counter is at least the clock's, they give the same answer (why forward skew,
    local-ahead and same-wall-larger-counter inputs do not tell them apart) -/
theorem hlc_ladders_differ_only_on_tie_with_smaller_counter (c : Clock) (p : Nat) (r : Ts)
    (h : r.wall ≠ c.last ∨ p > c.last ∨ c.logical ≤ r.logical) :
    c.receiveReceivedFirst p r = c.receive p r := by
  have key : recvLogicalReceivedFirst c (max (max p c.last) r.wall) r =
      recvLogical c (max (max p c.last) r.wall) r := by
    unfold recvLogicalReceivedFirst recvLogical
    split <;> split <;> (try split) <;> (try split) <;> omega
  simp only [Clock.receiveReceivedFirst, Clock.receive, Clock.receiveWith, key]

example : (Clock.mk 160 3 1).receiveReceivedFirst 0 ⟨160, 1, 2⟩ ≠ (Clock.mk 160 3 1).receive 0 ⟨160, 1, 2⟩ := by
  decide

/-! ## 24. the u64 counters -/

/-- while the counters involved are below the largest counter value `B` (u64::MAX in the code), the
    saturating / wrapping arithmetic of the code is the arithmetic of the model -/
theorem hlc_bounded_counters_refine (B : Nat) (c : Clock) (p : Nat) (r : Ts)
    (hc : c.logical < B) (hr : r.logical < B) :
    c.nowSat B p = c.now p ∧ c.receiveSat B p r = c.receive p r := by
  constructor
  · unfold Clock.nowSat Clock.now
    rw [satSucc_lt hc, Nat.mod_eq_of_lt (by omega)]
  · have key : ∀ mx, recvLogicalSat B c mx r = recvLogical c mx r := by
      intro mx
      unfold recvLogicalSat recvLogical
      rw [satSucc_lt hc, satSucc_lt hr, satSucc_lt (show max c.logical r.logical < B by omega)]
    simp only [Clock.receiveSat, Clock.receive, Clock.receiveWith, key]

example : (Clock.mk 100 4 1).receiveSat 7 0 ⟨100, 6, 2⟩ = (Clock.mk 100 4 1).receive 0 ⟨100, 6, 2⟩ :=
  (hlc_bounded_counters_refine 7 _ 0 _ (by decide) (by decide)).2

/-- at the largest counter value the code's arithmetic stops moving forward (shown with `B = 3`
    standing for u64::MAX): a received timestamp carrying the largest counter is answered with a
    timestamp that is not after it, the next `now()` repeats that answer (the stored counter wrapped
    to 0 while the returned one saturated) and the one after goes back to counter 1.  Outside the
    property's quantifier (small timestamp ranges); reported by the harness as an observation. -/
theorem hlc_saturated_counter_repeats_witness :
    let c0 : Clock := ⟨100, 0, 1⟩
    let r : Ts := ⟨160, 3, 2⟩
    let (c1, t1) := c0.receiveSat 3 0 r
    let (c2, t2) := c1.nowSat 3 0
    let (_, t3) := c2.nowSat 3 0
    ¬ r < t1 ∧ t2 = t1 ∧ t3 < t2 := by decide

end Neumann.Gossip.Props
