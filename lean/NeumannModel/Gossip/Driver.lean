import NeumannModel.Common.Proto
import NeumannModel.Gossip.Model
import NeumannModel.Gossip.Hlc
/-
  Line-protocol driver for the gossip membership model (C17).
  Replicas 0..3 (plain `LWWMembershipState`), managers 0..3 (`GossipMembershipManager`),
  members printed: 0..5.

    reset                                  -> ok
    merge r <batch>                        -> <changed> | <view>
    mergeold r <batch>                     -> same, pre-fix merge
    conv <batch> <batch> ...               -> fresh replica, merges in order: <changed>/<changed>/.. | <view>
    update_local r m h inc                 -> h:ts:inc | <view>
    suspect r m inc | fail r m | refute r m inc | mark_healthy r m   -> true|false | <view>
    tick r | sync_time r t                 -> ok | <view>
    view r                                 -> <view>
    mgr_new g loc maxDelta | mgr_add_peer g p | mgr_sync g sender senderTime <batch>
    mgr_suspect g m inc | mgr_alive g m inc | mgr_view g            -> rej=.. own=.. sus=.. | <view>
    ev_sync g sender senderTime <batch> | ev_suspect g m inc | ev_alive g m inc | ev_add_peer g p
    ev_ping_ack g target 0|1 | ev_suspect_node g m
    ev_round g k t0 <order> <expired>      gossip_round that found targets: k = max_states_per_message,
                                           <order> = HashMap iteration order of the view, <expired> = the
                                           suspicions that were failed, in the order they were failed;
                                           t0 = 1: suspicion_timeout_ms = 0, every other pending suspicion
                                           expires too
                                           -> <out> | rej=.. own=.. sus=.. | <view>
    hlc_now last logical node phys         HybridLogicalClock in state (last_wall_ms, logical, node_id_hash),
    hlc_recv last logical node phys rw rl rn   wall_with_drift() reading phys; u64 arithmetic (B = 2^64-1)
                                           -> <wall>:<logical>:<node> <last'> <logical'>   (answer, new state)
  <out>   = `-` or the message handed to the transport: sync/<sender>/<time>/<batch>, alive/<m>/<inc>,
            suspect/<m>/<inc>
  <batch> = `-` or `m:h:ts:inc;m:h:ts:inc;..`, h ∈ H D F U
  <view>  = `clk=<lamport> 0=<h:ts:inc or -> 1=.. .. 5=..`
-/
open Neumann Neumann.Proto Neumann.Gossip

def nMembers : Nat := 6

def showHealth : Health → String
  | .healthy => "H" | .degraded => "D" | .failed => "F" | .unknown => "U"

def parseHealth : String → Option Health
  | "H" => some .healthy | "D" => some .degraded | "F" => some .failed | "U" => some .unknown
  | _ => none

def showReg (r : Reg) : String := s!"{showHealth r.health}:{r.ts}:{r.inc}"

def showView (s : State) : String :=
  s!"clk={s.clock} " ++ " ".intercalate ((List.range nMembers).map fun m =>
    s!"{m}=" ++ (match s.regs m with | some r => showReg r | none => "-"))

def parseUpdate (w : String) : Option Update :=
  match w.splitOn ":" with
  | [m, h, ts, inc] => match m.toNat?, parseHealth h, ts.toNat?, inc.toNat? with
    | some m, some h, some ts, some inc => some ⟨m, ⟨h, ts, inc⟩⟩
    | _, _, _, _ => none
  | _ => none

def parseBatch (w : String) : Option (List Update) :=
  if w = "-" then some [] else (w.splitOn ";").mapM parseUpdate

structure DState where
  reps : List State
  mgrs : List Mgr

def dInit : DState :=
  ⟨List.replicate 4 State.empty, List.replicate 4 (Mgr.new 0 100)⟩

def showBool (b : Bool) : String := if b then "true" else "false"

def showMgr (g : Mgr) : String :=
  s!"rej={g.rejected} own={g.ownInc} sus={showNats (g.suspicions.mergeSort (· ≤ ·))} | {showView g.st}"

def withRep (d : DState) (r : String) (f : State → State × String) : DState × String :=
  match r.toNat? with
  | some i => match d.reps[i]? with
    | some s => let (s', out) := f s
                ({ d with reps := d.reps.set i s' }, out ++ " | " ++ showView s')
    | none => (d, "bad-op")
  | none => (d, "bad-op")

def withMgr (d : DState) (g : String) (f : Mgr → Mgr) : DState × String :=
  match g.toNat? with
  | some i => match d.mgrs[i]? with
    | some m => let m' := f m
                ({ d with mgrs := d.mgrs.set i m' }, showMgr m')
    | none => (d, "bad-op")
  | none => (d, "bad-op")

def showBatch (b : List Update) : String :=
  if b.isEmpty then "-" else ";".intercalate (b.map fun u => s!"{u.node}:{showReg u.reg}")

def showMsg : Msg → String
  | .sync s b t => s!"sync/{s}/{t}/{showBatch b}"
  | .alive m i => s!"alive/{m}/{i}"
  | .suspect m i => s!"suspect/{m}/{i}"
  | .addPeer p => s!"add_peer/{p}"
  | .pingAck t ok => s!"ping_ack/{t}/{ok}"

def showOut (ms : List Msg) : String :=
  if ms.isEmpty then "-" else "+".intercalate (ms.map showMsg)

/-- one manager event: answer = what it hands to the transport, then the manager -/
def withEv (d : DState) (g : String) (e : Mgr → MEv) : DState × String :=
  match g.toNat? with
  | some i => match d.mgrs[i]? with
    | some m => let ev := e m
                let m' := m.stepEv ev
                ({ d with mgrs := d.mgrs.set i m' }, showOut (m.out ev) ++ " | " ++ showMgr m')
    | none => (d, "bad-op")
  | none => (d, "bad-op")

def convGo (s : State) (acc : List String) : List String → Option (State × List String)
  | [] => some (s, acc.reverse)
  | w :: ws => match parseBatch w with
    | some b => let (s', ch) := merge s b
                convGo s' (showNats ch :: acc) ws
    | none => none

def gossipStep (d : DState) (line : String) : DState × String :=
  let bad := (d, "bad-op")
  match words line with
  | ["reset"] => (dInit, "ok")
  | ["merge", r, b] => match parseBatch b with
    | some b => withRep d r fun s => let (s', ch) := merge s b; (s', showNats ch)
    | none => bad
  | ["mergeold", r, b] => match parseBatch b with
    | some b => withRep d r fun s => let (s', ch) := mergeOld s b; (s', showNats ch)
    | none => bad
  | "conv" :: bs => match convGo State.empty [] bs with
    | some (s, chs) => (d, "/".intercalate chs ++ " | " ++ showView s)
    | none => bad
  | ["update_local", r, m, h, inc] => match m.toNat?, parseHealth h, inc.toNat? with
    | some m, some h, some inc => withRep d r fun s => let (s', g) := updateLocal s m h inc; (s', showReg g)
    | _, _, _ => bad
  | ["suspect", r, m, inc] => match m.toNat?, inc.toNat? with
    | some m, some inc => withRep d r fun s => let (s', ok) := suspect s m inc; (s', showBool ok)
    | _, _ => bad
  | ["fail", r, m] => match m.toNat? with
    | some m => withRep d r fun s => let (s', ok) := fail s m; (s', showBool ok)
    | none => bad
  | ["refute", r, m, inc] => match m.toNat?, inc.toNat? with
    | some m, some inc => withRep d r fun s => let (s', ok) := refute s m inc; (s', showBool ok)
    | _, _ => bad
  | ["mark_healthy", r, m] => match m.toNat? with
    | some m => withRep d r fun s => let (s', ok) := markHealthy s m; (s', showBool ok)
    | none => bad
  | ["tick", r] => withRep d r fun s => (tick s, "ok")
  | ["sync_time", r, t] => match t.toNat? with
    | some t => withRep d r fun s => (syncTime s t, "ok")
    | none => bad
  | ["view", r] => match r.toNat? with
    | some i => match d.reps[i]? with
      | some s => (d, showView s)
      | none => bad
    | none => bad
  | ["mgr_new", g, loc, mx] => match loc.toNat?, mx.toNat? with
    | some loc, some mx => withMgr d g fun _ => Mgr.new loc mx
    | _, _ => bad
  | ["mgr_add_peer", g, p] => match p.toNat? with
    | some p => withMgr d g fun m => m.addPeer p
    | none => bad
  | ["mgr_sync", g, sender, st, b] => match sender.toNat?, st.toNat?, parseBatch b with
    | some sender, some st, some b => withMgr d g fun m => m.handleSync sender b st
    | _, _, _ => bad
  | ["mgr_suspect", g, m, inc] => match m.toNat?, inc.toNat? with
    | some m, some inc => withMgr d g fun x => x.handleSuspect m inc
    | _, _ => bad
  | ["mgr_alive", g, m, inc] => match m.toNat?, inc.toNat? with
    | some m, some inc => withMgr d g fun x => x.handleAlive m inc
    | _, _ => bad
  | ["mgr_view", g] => withMgr d g id
  | ["ev_sync", g, sender, st, b] => match sender.toNat?, st.toNat?, parseBatch b with
    | some sender, some st, some b => withEv d g fun _ => .msg (.sync sender b st)
    | _, _, _ => bad
  | ["ev_suspect", g, m, inc] => match m.toNat?, inc.toNat? with
    | some m, some inc => withEv d g fun _ => .msg (.suspect m inc)
    | _, _ => bad
  | ["ev_alive", g, m, inc] => match m.toNat?, inc.toNat? with
    | some m, some inc => withEv d g fun _ => .msg (.alive m inc)
    | _, _ => bad
  | ["ev_add_peer", g, p] => match p.toNat? with
    | some p => withEv d g fun _ => .msg (.addPeer p)
    | none => bad
  | ["ev_ping_ack", g, t, ok] => match t.toNat?, ok.toNat? with
    | some t, some ok => withEv d g fun _ => .msg (.pingAck t (ok != 0))
    | _, _ => bad
  | ["ev_suspect_node", g, m] => match m.toNat? with
    | some m => withEv d g fun _ => .suspectNode m
    | none => bad
  | ["ev_round", g, k, t0, order, expired] =>
    match k.toNat?, t0.toNat?, parseNats order, parseNats expired with
    | some k, some t0, some order, some expired =>
      withEv d g fun x =>
        .round order k (if t0 != 0 then expired ++ (x.expire expired).suspicions else expired)
    | _, _, _, _ => bad
  | _ => bad

def u64Max : Nat := 2^64 - 1

def showHlc (x : Hlc.Clock × Hlc.Ts) : String :=
  s!"{x.2.wall}:{x.2.logical}:{x.2.node} {x.1.last} {x.1.logical}"

def hlcStep (ws : List String) : Option String :=
  match ws.mapM (·.toNat?) with
  | some [last, lg, node, phys] => some (showHlc ((Hlc.Clock.mk last lg node).nowSat u64Max phys))
  | some [last, lg, node, phys, rw, rl, rn] =>
    some (showHlc ((Hlc.Clock.mk last lg node).receiveSat u64Max phys ⟨rw, rl, rn⟩))
  | _ => none

def topStep (d : DState) (line : String) : DState × String :=
  match words line with
  | "hlc_now" :: ws => if ws.length = 4 then (d, (hlcStep ws).getD "bad-op") else (d, "bad-op")
  | "hlc_recv" :: ws => if ws.length = 7 then (d, (hlcStep ws).getD "bad-op") else (d, "bad-op")
  | _ => gossipStep d line

def main : IO Unit := run topStep dInit
