import NeumannModel.Gossip.AddPeerLemmas
import NeumannModel.Gossip.RefuteProps
/-
  C17 — registering a peer is bookkeeping, not a membership update:
  `GossipMembershipManager::add_peer` against a view that ALREADY holds the member.
  ONLY property theorems and their non-vacuity examples; helpers are in `AddPeerLemmas.lean`.

  The clauses of the property this file is about: "two nodes that have received the same set of
  membership updates hold identical views" and "never move backwards".  Entries of the view are
  created by `add_peer` (placeholder Unknown, incarnation 0, fresh tick) AND by gossip (a Sync that
  carries the member, or that the member sent), independently of the `known_peers` list.  When the
  node learns of a member through gossip first and registers it as a peer afterwards (late
  registration, dynamic join), `add_peer` must leave the view alone: the placeholder would carry a
  locally highest timestamp, win over any entry at incarnation 0 (Healthy, Degraded, Failed), win
  again at every replica it is gossiped to, and two nodes with the same updates would disagree
  depending on WHEN they registered the peer.

  Reading guide
  * `Known m s` (AddPeerLemmas): `m` has an entry in the view `s`.
  * `withoutAddPeer p evs`: the event list `evs` with every `add_peer(p)` removed.
  * `Mgr.addPeerAlwaysMergesPlaceholder` (Model.lean): NOT the code — the placeholder is merged
    whether or not the member has an entry.
-/
namespace Neumann.Gossip.Props
open Neumann.Gossip

/-! ## A1. `add_peer` and a member that is in the view -/

/-- `add_peer(p)` on a manager whose view holds an entry for `p` — whatever its health, incarnation
    and timestamp, however it got there — is the identity: no register, not the clock, nothing. -/
theorem add_peer_of_known_member_is_identity (g : Mgr) (p : Nat) (e : Reg) (h : g.st.regs p = some e) :
    g.addPeer p = g :=
  addPeer_known g p ⟨e, h⟩

/-- `add_peer(p)` never changes the entry of ANY member that has one (`p` itself or another). -/
theorem add_peer_keeps_every_entry (g : Mgr) (p m : Nat) (e : Reg) (h : g.st.regs m = some e) :
    (g.addPeer p).st.regs m = some e := by
  cases hp : g.st.regs p with
  | some e' => rw [addPeer_known g p ⟨e', hp⟩]; exact h
  | none =>
    have hm : m ≠ p := by intro hmp; subst hmp; rw [h] at hp; cases hp
    simp only [Mgr.addPeer, hp, merge, mergeWith, mergeRegsWith, mergeOneWith, maxTs, syncTime]
    rw [setReg_other _ _ hm]; exact h

/-- the other branch (so that the two theorems above are not about a function that never does
    anything): an absent member is entered as Unknown at incarnation 0 with a fresh stamp -/
theorem add_peer_enters_an_absent_member (g : Mgr) (p : Nat) (h : g.st.regs p = none) :
    (g.addPeer p).st.regs p = some ⟨.unknown, g.st.clock + 1, 0⟩ ∧
      (g.addPeer p).st.clock = g.st.clock + 2 := by
  simp only [Mgr.addPeer, h, merge, mergeWith, mergeRegsWith, mergeOneWith, maxTs, syncTime]
  exact ⟨setReg_same _ _ _, by simp⟩

-- non-vacuity: a member learned through a Sync in each health state, then registered
example :
    let g := (Mgr.new 5 100).handle (.sync 4 [⟨2, ⟨.failed, 50, 0⟩⟩, ⟨1, ⟨.healthy, 3, 0⟩⟩, ⟨0, ⟨.degraded, 7, 2⟩⟩] 50)
    g.st.regs 2 = some ⟨.failed, 50, 0⟩ ∧ (g.addPeer 2).st.regs 2 = some ⟨.failed, 50, 0⟩ ∧
    (g.addPeer 1).st.regs 1 = some ⟨.healthy, 3, 0⟩ ∧ (g.addPeer 0).st.regs 0 = some ⟨.degraded, 7, 2⟩ ∧
    (g.addPeer 2).st.clock = g.st.clock ∧
    g.st.regs 3 = none ∧ (g.addPeer 3).st.regs 3 = some ⟨.unknown, g.st.clock + 1, 0⟩ := by
  decide

/-! ## A2. late registration is invisible: same updates, any registration points, same manager -/

/-- A member that is in the view stays in the view under every manager event (entries are never
    removed): Sync, Suspect, Alive, PingAck, add_peer, rounds with any expired set, suspect_node. -/
theorem known_member_stays_known (g : Mgr) (evs : List MEv) (m : Nat) (e : Reg) (h : g.st.regs m = some e) :
    ∃ e', (g.runEv evs).st.regs m = some e' :=
  runEv_known evs g m ⟨e, h⟩

/-- Once the view holds an entry for `p`, the `add_peer(p)` calls in ANY later history — any number
    of them, anywhere between any other events — are invisible: the manager ends in exactly the
    state (view, clock, suspicions, counters) it reaches without them. -/
theorem late_registration_is_invisible (g : Mgr) (evs : List MEv) (p : Nat) (e : Reg)
    (h : g.st.regs p = some e) :
    g.runEv evs = g.runEv (withoutAddPeer p evs) :=
  (runEv_withoutAddPeer evs g p ⟨e, h⟩).symm

/-- Two managers in the same state that are handed the same events, each with `add_peer(p)` calls
    at points of its own (histories that are equal up to `add_peer(p)`), after `p` was learned:
    identical managers.  In particular they agree on every member's health and incarnation. -/
theorem registration_point_does_not_matter (g : Mgr) (evsA evsB : List MEv) (p : Nat) (e : Reg)
    (h : g.st.regs p = some e) (hsame : withoutAddPeer p evsA = withoutAddPeer p evsB) :
    g.runEv evsA = g.runEv evsB := by
  rw [late_registration_is_invisible g evsA p e h, late_registration_is_invisible g evsB p e h, hsame]

/-- The same from a common history `pre` that leaves `p` in the view (for instance one that ends
    with the Sync through which `p` is learned), with the registration before / between / after
    any further events `a ++ b`: all the same as never registering. -/
theorem registration_after_learning_commutes (g : Mgr) (pre a b : List MEv) (p : Nat) (e : Reg)
    (h : (g.runEv pre).st.regs p = some e) :
    g.runEv (pre ++ a ++ [MEv.msg (.addPeer p)] ++ b) = g.runEv (pre ++ a ++ b) := by
  rw [List.append_assoc, List.append_assoc, runEv_append, List.append_assoc pre a b, runEv_append g pre (a ++ b)]
  apply registration_point_does_not_matter _ _ _ p e h
  simp [withoutAddPeer]

-- non-vacuity: learned Healthy@0 by a Sync from a third node; registered right away, after a
-- Suspect, never — the same manager, member 2 Degraded@0
example :
    let g := Mgr.new 5 100
    let learn := [MEv.msg (.sync 4 [⟨2, ⟨.healthy, 50, 0⟩⟩] 50)]
    let rest := [MEv.msg (.suspect 2 0), MEv.msg (.sync 4 [⟨1, ⟨.healthy, 3, 0⟩⟩] 60)]
    ((g.runEv (learn ++ [MEv.msg (.addPeer 2)] ++ rest)).st.regs 2 = some ⟨.degraded, 55, 0⟩) ∧
    ((g.runEv (learn ++ rest ++ [MEv.msg (.addPeer 2)])).st.regs 2 = some ⟨.degraded, 55, 0⟩) ∧
    ((g.runEv (learn ++ rest)).st.regs 2 = some ⟨.degraded, 55, 0⟩) := by
  decide

/-! ## A3. the variant that merges the placeholder on every first registration -/

/-- `addPeerAlwaysMergesPlaceholder` agrees with the code on a member that is not in the view. -/
theorem addPeerAlwaysMergesPlaceholder_agrees_on_absent (g : Mgr) (p : Nat) (h : g.st.regs p = none) :
    g.addPeerAlwaysMergesPlaceholder p = g.addPeer p := by
  simp only [Mgr.addPeerAlwaysMergesPlaceholder, Mgr.addPeer, h]

/-- With the placeholder merged on every first registration (`addPeerAlwaysMergesPlaceholder`), on a
    manager that learned members 1 and 2 through a Sync from node 4 (Healthy@0, Failed@0) and
    member 0 at incarnation 1: registering member 1 rewrites Healthy@0 to Unknown@0 and registering
    member 2 rewrites Failed@0 to Unknown@0 — a failed member is un-failed without any update about
    it — (`add_peer_of_known_member_is_identity`, `add_peer_keeps_every_entry` fail); the clock
    moves although nothing was learned; a manager that registered member 1 BEFORE the same Sync
    holds Healthy@0, so the two disagree on the same updates
    (`registration_point_does_not_matter` fails); the rewritten entry, gossiped on, overrides the
    correct one at a third manager; only an entry at incarnation >= 1 survives. -/
theorem addPeerAlwaysMergesPlaceholder_witness :
    let sync : Msg := .sync 4 [⟨1, ⟨.healthy, 50, 0⟩⟩, ⟨2, ⟨.failed, 50, 0⟩⟩, ⟨0, ⟨.degraded, 50, 1⟩⟩] 50
    let g := (Mgr.new 5 100).handle sync
    let hi := fun (x : Mgr) (m : Nat) => (x.st.regs m).map (fun r => (r.health, r.inc))
    (hi g 1 = some (.healthy, 0) ∧ hi (g.addPeerAlwaysMergesPlaceholder 1) 1 = some (.unknown, 0)) ∧
    (hi g 2 = some (.failed, 0) ∧ hi (g.addPeerAlwaysMergesPlaceholder 2) 2 = some (.unknown, 0)) ∧
    (g.addPeerAlwaysMergesPlaceholder 1).st.clock > g.st.clock ∧
    hi (((Mgr.new 5 100).addPeerAlwaysMergesPlaceholder 1).handle sync) 1 = some (.healthy, 0) ∧
    ((g.addPeerAlwaysMergesPlaceholder 1).st.regs 1 = some ⟨.unknown, 55, 0⟩ ∧
      hi (((Mgr.new 3 100).handle sync).handle (.sync 5 [⟨1, ⟨.unknown, 55, 0⟩⟩] 60)) 1 = some (.unknown, 0)) ∧
    hi (g.addPeerAlwaysMergesPlaceholder 0) 0 = some (.degraded, 1) := by
  decide

-- the same steps with the code's `add_peer`: nothing moves, the two registration points agree
example :
    let sync : Msg := .sync 4 [⟨1, ⟨.healthy, 50, 0⟩⟩, ⟨2, ⟨.failed, 50, 0⟩⟩, ⟨0, ⟨.degraded, 50, 1⟩⟩] 50
    let g := (Mgr.new 5 100).handle sync
    let hi := fun (x : Mgr) (m : Nat) => (x.st.regs m).map (fun r => (r.health, r.inc))
    hi (g.addPeer 1) 1 = some (.healthy, 0) ∧ hi (g.addPeer 2) 2 = some (.failed, 0) ∧
    (g.addPeer 1).st.clock = g.st.clock ∧
    hi (((Mgr.new 5 100).addPeer 1).handle sync) 1 = some (.healthy, 0) := by
  decide

end Neumann.Gossip.Props
