import NeumannModel.Gossip.Model
/-
  C17 helper lemmas: the order on registers, `join`, and the characterisation of a fold of
  merges as "the greatest element of what was fed in".
-/
namespace Neumann.Gossip

theorem Health.rank_inj {a b : Health} (h : a.rank = b.rank) : a = b := by
  cases a <;> cases b <;> first | rfl | (simp [Health.rank] at h)

theorem Reg.ext_key {a b : Reg} (h1 : a.inc = b.inc) (h2 : a.ts = b.ts)
    (h3 : a.health.rank = b.health.rank) : a = b := by
  cases a; cases b; simp only [Reg.mk.injEq] at *
  exact ⟨Health.rank_inj h3, h2, h1⟩

/-- strict lexicographic order on the key `(inc, ts, rank health)` -/
def Reg.lt (a b : Reg) : Prop :=
  a.inc < b.inc ∨ (a.inc = b.inc ∧ (a.ts < b.ts ∨ (a.ts = b.ts ∧ a.health.rank < b.health.rank)))

/-- lexicographic order on the key `(inc, ts, rank health)` -/
def Reg.le (a b : Reg) : Prop :=
  a.inc < b.inc ∨ (a.inc = b.inc ∧ (a.ts < b.ts ∨ (a.ts = b.ts ∧ a.health.rank ≤ b.health.rank)))

instance (a b : Reg) : Decidable (a.lt b) := by unfold Reg.lt; infer_instance
instance (a b : Reg) : Decidable (a.le b) := by unfold Reg.le; infer_instance

/-- the larger of two registers in the key order -/
def regMax (a b : Reg) : Reg := if a.le b then b else a

theorem wins_iff (a b : Reg) : wins a b = true ↔ b.lt a := by
  unfold wins supersedes Reg.lt
  by_cases h : a.inc = b.inc
  · simp [h]; omega
  · simp [h]; omega

theorem not_wins_iff (a b : Reg) : wins a b = false ↔ a.le b := by
  rw [← Bool.not_eq_true, wins_iff]
  unfold Reg.lt Reg.le; omega

theorem Reg.le_refl (a : Reg) : a.le a := by unfold Reg.le; omega
theorem Reg.le_total (a b : Reg) : a.le b ∨ b.le a := by unfold Reg.le; omega
theorem Reg.le_trans {a b c : Reg} (h1 : a.le b) (h2 : b.le c) : a.le c := by
  unfold Reg.le at *; omega
theorem Reg.le_antisymm {a b : Reg} (h1 : a.le b) (h2 : b.le a) : a = b := by
  unfold Reg.le at *
  exact Reg.ext_key (by omega) (by omega) (by omega)
theorem Reg.lt_iff_le_ne {a b : Reg} : a.lt b ↔ a.le b ∧ a ≠ b := by
  constructor
  · intro h; refine ⟨by unfold Reg.lt at h; unfold Reg.le; omega, ?_⟩
    intro e; subst e; unfold Reg.lt at h; omega
  · intro ⟨h, ne⟩
    unfold Reg.le at h; unfold Reg.lt
    by_cases hk : a.inc = b.inc ∧ a.ts = b.ts ∧ a.health.rank = b.health.rank
    · exact absurd (Reg.ext_key hk.1 hk.2.1 hk.2.2) ne
    · omega
theorem Reg.not_le {a b : Reg} : ¬ a.le b ↔ b.lt a := by unfold Reg.le Reg.lt; omega
theorem Reg.le_inc {a b : Reg} (h : a.le b) : a.inc ≤ b.inc := by unfold Reg.le at h; omega

/-- what one `merge` step does to a (possibly absent) register -/
def join : Option Reg → Option Reg → Option Reg
  | none, y => y
  | some a, none => some a
  | some a, some b => if wins b a then some b else some a

/-- order on possibly absent registers (`none` is bottom) -/
def OLe : Option Reg → Option Reg → Prop
  | none, _ => True
  | some _, none => False
  | some a, some b => a.le b

theorem OLe.refl (a : Option Reg) : OLe a a := by
  cases a <;> simp [OLe, Reg.le_refl]
theorem OLe.trans {a b c : Option Reg} (h1 : OLe a b) (h2 : OLe b c) : OLe a c := by
  cases a <;> cases b <;> cases c <;> simp_all [OLe]
  exact Reg.le_trans h1 h2
theorem OLe.antisymm {a b : Option Reg} (h1 : OLe a b) (h2 : OLe b a) : a = b := by
  cases a <;> cases b <;> simp_all [OLe]
  exact Reg.le_antisymm h1 h2

theorem join_some_some (a b : Reg) : join (some a) (some b) = some (regMax a b) := by
  simp only [join, regMax]
  by_cases hab : a.le b
  · simp only [hab, if_true]
    cases h : wins b a
    · have := (not_wins_iff b a).mp h
      simp [Reg.le_antisymm hab this]
    · simp
  · have hw : wins b a = false := by
      rw [not_wins_iff]
      cases Reg.le_total a b with
      | inl h' => exact absurd h' hab
      | inr h' => exact h'
    simp [hw, hab]

theorem join_ge_left (a b : Option Reg) : OLe a (join a b) := by
  cases a with
  | none => simp [OLe]
  | some a => cases b with
    | none => simp [join, OLe, Reg.le_refl]
    | some b =>
      rw [join_some_some]; unfold regMax; simp only [OLe]
      by_cases h : a.le b <;> simp [h, Reg.le_refl]

theorem join_ge_right (a b : Option Reg) : OLe b (join a b) := by
  cases a with
  | none => simp [join, OLe.refl]
  | some a => cases b with
    | none => simp [OLe]
    | some b =>
      rw [join_some_some]; unfold regMax; simp only [OLe]
      by_cases h : a.le b
      · simp [h, Reg.le_refl]
      · simp only [h, if_false]; cases Reg.le_total a b with
        | inl h' => exact absurd h' h
        | inr h' => exact h'

theorem join_eq_or (a b : Option Reg) : join a b = a ∨ join a b = b := by
  cases a with
  | none => right; rfl
  | some a => cases b with
    | none => left; rfl
    | some b => simp only [join]; split <;> simp

/-- `join` is the least upper bound -/
theorem join_le {a b c : Option Reg} (h1 : OLe a c) (h2 : OLe b c) : OLe (join a b) c := by
  cases join_eq_or a b with
  | inl h => rw [h]; exact h1
  | inr h => rw [h]; exact h2

theorem join_comm' (a b : Option Reg) : join a b = join b a :=
  OLe.antisymm (join_le (join_ge_right b a) (join_ge_left b a))
    (join_le (join_ge_right a b) (join_ge_left a b))

theorem join_assoc' (a b c : Option Reg) : join (join a b) c = join a (join b c) := by
  apply OLe.antisymm
  · apply join_le
    · apply join_le (join_ge_left _ _)
      exact OLe.trans (join_ge_left b c) (join_ge_right a _)
    · exact OLe.trans (join_ge_right b c) (join_ge_right a _)
  · apply join_le
    · exact OLe.trans (join_ge_left a b) (join_ge_left _ c)
    · apply join_le
      · exact OLe.trans (join_ge_right a b) (join_ge_left _ c)
      · exact join_ge_right _ c

theorem join_idem' (a : Option Reg) : join a a = a := by
  cases join_eq_or a a <;> assumption

theorem join_of_le {a b : Option Reg} (h : OLe a b) : join a b = b :=
  OLe.antisymm (join_le h (OLe.refl b)) (join_ge_right a b)

/-! ### folds -/

def joinList (init : Option Reg) (l : List Reg) : Option Reg :=
  l.foldl (fun acc r => join acc (some r)) init

theorem joinList_cons (init : Option Reg) (x : Reg) (l : List Reg) :
    joinList init (x :: l) = joinList (join init (some x)) l := rfl

theorem joinList_append (init : Option Reg) (a b : List Reg) :
    joinList init (a ++ b) = joinList (joinList init a) b := by
  unfold joinList; rw [List.foldl_append]

/-- `r` is the greatest element of `init` together with the members of `l` -/
def IsJoinOf (r init : Option Reg) (l : List Reg) : Prop :=
  (r = init ∨ ∃ x ∈ l, r = some x) ∧ OLe init r ∧ ∀ x ∈ l, OLe (some x) r

theorem joinList_isJoin (init : Option Reg) (l : List Reg) : IsJoinOf (joinList init l) init l := by
  induction l generalizing init with
  | nil => exact ⟨Or.inl rfl, OLe.refl _, by simp⟩
  | cons x xs ih =>
    rw [joinList_cons]
    obtain ⟨h1, h2, h3⟩ := ih (join init (some x))
    refine ⟨?_, OLe.trans (join_ge_left _ _) h2, ?_⟩
    · cases h1 with
      | inl h => cases join_eq_or init (some x) with
        | inl h' => left; rw [h, h']
        | inr h' => right; exact ⟨x, by simp, by rw [h, h']⟩
      | inr h => obtain ⟨y, hy, e⟩ := h; right; exact ⟨y, by simp [hy], e⟩
    · intro y hy
      cases List.mem_cons.mp hy with
      | inl e => subst e; exact OLe.trans (join_ge_right _ _) h2
      | inr hy => exact h3 y hy

theorem isJoin_unique {r r' init : Option Reg} {l l' : List Reg}
    (h : IsJoinOf r init l) (h' : IsJoinOf r' init l') (hset : ∀ x, x ∈ l ↔ x ∈ l') : r = r' := by
  obtain ⟨a1, a2, a3⟩ := h
  obtain ⟨b1, b2, b3⟩ := h'
  apply OLe.antisymm
  · cases a1 with
    | inl e => rw [e]; exact b2
    | inr e => obtain ⟨x, hx, e⟩ := e; rw [e]; exact b3 x ((hset x).mp hx)
  · cases b1 with
    | inl e => rw [e]; exact a2
    | inr e => obtain ⟨x, hx, e⟩ := e; rw [e]; exact a3 x ((hset x).mpr hx)

/-- the registers a batch carries for member `m` -/
def forMember (m : Nat) (b : List Update) : List Reg :=
  (b.filter (fun u => u.node = m)).map (·.reg)

theorem forMember_append (m : Nat) (a b : List Update) :
    forMember m (a ++ b) = forMember m a ++ forMember m b := by
  simp [forMember]

theorem mem_forMember {m : Nat} {b : List Update} {x : Reg} :
    x ∈ forMember m b ↔ (⟨m, x⟩ : Update) ∈ b := by
  unfold forMember
  simp only [List.mem_map, List.mem_filter, decide_eq_true_eq]
  constructor
  · rintro ⟨u, ⟨hu, hm⟩, e⟩; cases u; simp_all
  · intro h; exact ⟨⟨m, x⟩, ⟨h, rfl⟩, rfl⟩

/-! ### merge on the register map -/

theorem mergeOne_apply (regs : Nat → Option Reg) (u : Update) (k : Nat) :
    (mergeOne regs u).1 k = if k = u.node then join (regs k) (some u.reg) else regs k := by
  unfold mergeOne mergeOneWith
  by_cases hk : k = u.node
  · subst hk
    cases h : regs u.node with
    | none => simp [setReg, join]
    | some e =>
      simp only [if_true]
      split
      · simp [setReg, join, *]
      · simp [join, *]
  · cases h : regs u.node with
    | none => simp [setReg, hk]
    | some e => simp only [hk, if_false]; split <;> simp [setReg, hk]

theorem mergeRegs_cons (regs : Nat → Option Reg) (u : Update) (us : List Update) :
    (mergeRegs regs (u :: us)).1 = (mergeRegs (mergeOne regs u).1 us).1 := rfl

theorem mergeRegs_apply (regs : Nat → Option Reg) (b : List Update) (m : Nat) :
    (mergeRegs regs b).1 m = joinList (regs m) (forMember m b) := by
  induction b generalizing regs with
  | nil => rfl
  | cons u us ih =>
    rw [mergeRegs_cons, ih, mergeOne_apply]
    unfold forMember
    by_cases hk : m = u.node
    · subst hk; simp [joinList]
    · have : ¬ u.node = m := fun e => hk e.symm
      simp [hk, this]

theorem merge_regs (s : State) (b : List Update) : (merge s b).1.regs = (mergeRegs s.regs b).1 := by
  unfold merge mergeWith mergeRegs
  cases maxTs b <;> rfl

theorem merge_apply (s : State) (b : List Update) (m : Nat) :
    (merge s b).1.regs m = joinList (s.regs m) (forMember m b) := by
  rw [merge_regs, mergeRegs_apply]

theorem merge_clock (s : State) (b : List Update) :
    (merge s b).1.clock = match maxTs b with | none => s.clock | some t => max s.clock t + 1 := by
  unfold merge mergeWith
  cases maxTs b <;> rfl

theorem maxTs_ge {b : List Update} {u : Update} (h : u ∈ b) : ∃ t, maxTs b = some t ∧ u.reg.ts ≤ t := by
  induction b with
  | nil => cases h
  | cons v vs ih =>
    unfold maxTs
    cases List.mem_cons.mp h with
    | inl e =>
      subst e
      cases maxTs vs with
      | none => exact ⟨_, rfl, Nat.le_refl _⟩
      | some t => exact ⟨_, rfl, Nat.le_max_left _ _⟩
    | inr hm =>
      obtain ⟨t, ht, hle⟩ := ih hm
      rw [ht]; exact ⟨_, rfl, Nat.le_trans hle (Nat.le_max_right _ _)⟩

theorem deliver_regs (s : State) (bs : List (List Update)) (m : Nat) :
    (deliver s bs).regs m = joinList (s.regs m) (forMember m bs.flatten) := by
  induction bs generalizing s with
  | nil => rfl
  | cons b bs ih =>
    have : deliver s (b :: bs) = deliver (merge s b).1 bs := rfl
    rw [this, ih, merge_apply, List.flatten_cons, forMember_append, joinList_append]

/-! ### well-formedness: the clock dominates every stored timestamp -/

def WF (s : State) : Prop := ∀ m e, s.regs m = some e → e.ts ≤ s.clock

theorem wf_empty : WF State.empty := by intro m e h; cases h

theorem wf_set {s : State} (h : WF s) (m : Nat) (r : Reg) (c : Nat) (hr : r.ts ≤ c) (hc : s.clock ≤ c) :
    WF ⟨setReg s.regs m r, c⟩ := by
  intro k e hk
  simp only [setReg] at hk
  by_cases hkm : k = m
  · simp only [hkm, if_true, Option.some.injEq] at hk; subst hk; exact hr
  · simp only [hkm, if_false] at hk; exact Nat.le_trans (h k e hk) hc

/-- a fresh local stamp beats the register it replaces -/
theorem join_fresh {s : State} (h : WF s) {m : Nat} {e r : Reg} (he : s.regs m = some e)
    (hts : r.ts = s.clock + 1) (hinc : e.inc ≤ r.inc) : join (some e) (some r) = some r := by
  apply join_of_le
  have := h m e he
  simp only [OLe]; unfold Reg.le; omega

/-! ### the four conditional local events share one shape -/

def localOp (c : Reg → Prop) [DecidablePred c] (f : Reg → Nat → Reg) (s : State) (m : Nat) : State × Bool :=
  match s.regs m with
  | some e => if c e then (⟨setReg s.regs m (f e (s.clock + 1)), s.clock + 1⟩, true) else (s, false)
  | none => (s, false)

theorem suspect_spec (s : State) (m i : Nat) :
    suspect s m i = localOp (fun e => e.inc = i ∧ e.health ≠ .failed)
      (fun e t => { e with health := .degraded, ts := t }) s m := rfl
theorem fail_spec (s : State) (m : Nat) :
    fail s m = localOp (fun e => e.health ≠ .failed) (fun e t => { e with health := .failed, ts := t }) s m := rfl
theorem refute_spec (s : State) (m i : Nat) :
    refute s m i = localOp (fun e => i > e.inc) (fun _ t => ⟨.healthy, t, i⟩) s m := rfl
theorem markHealthy_spec (s : State) (m : Nat) :
    markHealthy s m = localOp (fun e => e.health ≠ .healthy)
      (fun e t => { e with health := .healthy, ts := t }) s m := rfl

/-- the stamp is the fresh tick and the incarnation does not go down -/
def FreshOk (c : Reg → Prop) (f : Reg → Nat → Reg) : Prop :=
  ∀ e t, c e → (f e t).ts = t ∧ e.inc ≤ (f e t).inc

theorem localOp_cases (c : Reg → Prop) [DecidablePred c] (f : Reg → Nat → Reg) (s : State) (m : Nat) :
    (localOp c f s m = (s, false)) ∨
    (∃ e, s.regs m = some e ∧ c e ∧
      localOp c f s m = (⟨setReg s.regs m (f e (s.clock + 1)), s.clock + 1⟩, true)) := by
  unfold localOp
  cases h : s.regs m with
  | none => left; rfl
  | some e =>
    by_cases hc : c e
    · right; exact ⟨e, rfl, hc, by simp [hc]⟩
    · left; simp [hc]

theorem setReg_same (regs : Nat → Option Reg) (m : Nat) (r : Reg) : setReg regs m r m = some r := by
  simp [setReg]
theorem setReg_other (regs : Nat → Option Reg) {m k : Nat} (r : Reg) (h : k ≠ m) : setReg regs m r k = regs k := by
  simp [setReg, h]

theorem localOp_clock (c : Reg → Prop) [DecidablePred c] (f : Reg → Nat → Reg) (s : State) (m : Nat) :
    s.clock ≤ (localOp c f s m).1.clock := by
  rcases localOp_cases c f s m with h | ⟨e, _, _, h⟩ <;> rw [h] <;> simp

theorem localOp_wf {c : Reg → Prop} [DecidablePred c] {f : Reg → Nat → Reg} (hf : FreshOk c f)
    {s : State} (h : WF s) (m : Nat) : WF (localOp c f s m).1 := by
  rcases localOp_cases c f s m with h' | ⟨e, _, hc, h'⟩ <;> rw [h']
  · exact h
  · exact wf_set h m _ _ (by rw [(hf e _ hc).1]; exact Nat.le_refl _) (Nat.le_succ _)

theorem localOp_inc {c : Reg → Prop} [DecidablePred c] {f : Reg → Nat → Reg} (hf : FreshOk c f)
    (s : State) (m' m : Nat) (e : Reg) (h : s.regs m = some e) :
    ∃ e', (localOp c f s m').1.regs m = some e' ∧ e.inc ≤ e'.inc := by
  rcases localOp_cases c f s m' with h' | ⟨e0, he0, hc, h'⟩ <;> rw [h']
  · exact ⟨e, h, Nat.le_refl _⟩
  · by_cases hm : m = m'
    · subst hm; rw [h] at he0; cases he0
      exact ⟨_, setReg_same _ _ _, (hf e _ hc).2⟩
    · exact ⟨e, by simp only []; rw [setReg_other _ _ hm]; exact h, Nat.le_refl _⟩

/-- a local event is the merge of the fresh update it generates -/
theorem localOp_join {c : Reg → Prop} [DecidablePred c] {f : Reg → Nat → Reg} (hf : FreshOk c f)
    {s : State} (hwf : WF s) (m' m : Nat) :
    (localOp c f s m').1.regs m = joinList (s.regs m) (forMember m (emittedLocal (localOp c f s m') m')) := by
  rcases localOp_cases c f s m' with h' | ⟨e0, he0, hc, h'⟩ <;> rw [h']
  · simp [emittedLocal, forMember, joinList]
  · simp only [emittedLocal, if_true, setReg_same]
    by_cases hm : m = m'
    · subst hm
      simp only [setReg_same, forMember, List.filter_cons, decide_true, if_true, List.filter_nil,
        List.map_cons, List.map_nil, joinList, List.foldl_cons, List.foldl_nil, he0]
      exact (join_fresh hwf he0 (hf e0 _ hc).1 (hf e0 _ hc).2).symm
    · have : ¬ m' = m := fun e => hm e.symm
      simp [setReg_other _ _ hm, forMember, this, joinList]

theorem freshOk_suspect (i : Nat) : FreshOk (fun e => e.inc = i ∧ e.health ≠ .failed)
    (fun e t => { e with health := .degraded, ts := t }) := by intro e t _; simp
theorem freshOk_fail : FreshOk (fun e => e.health ≠ .failed)
    (fun e t => { e with health := .failed, ts := t }) := by intro e t _; simp
theorem freshOk_refute (i : Nat) : FreshOk (fun e => i > e.inc) (fun _ t => ⟨.healthy, t, i⟩) := by
  intro e t h; simp; omega
theorem freshOk_markHealthy : FreshOk (fun e => e.health ≠ .healthy)
    (fun e t => { e with health := .healthy, ts := t }) := by intro e t _; simp

/-! ### histories -/

/-- `update_local` is the only mutator that takes its incarnation from the caller without a
    guard: it is monotone exactly when the caller does not pass a lower one. -/
def OpOk (s : State) : Op → Prop
  | .updateLocal m _ inc => ∀ e, s.regs m = some e → e.inc ≤ inc
  | _ => True

def Admissible (s : State) : List Op → Prop
  | [] => True
  | o :: os => OpOk s o ∧ Admissible (apply s o) os

theorem merge_wf {s : State} (h : WF s) (b : List Update) : WF (merge s b).1 := by
  intro m e he
  rw [merge_apply] at he
  rw [merge_clock]
  obtain ⟨h1, _, _⟩ := joinList_isJoin (s.regs m) (forMember m b)
  rw [he] at h1
  cases h1 with
  | inl h1 =>
    have := h m e h1.symm
    cases maxTs b with
    | none => exact this
    | some t => simp only []; omega
  | inr h1 =>
    obtain ⟨x, hx, e'⟩ := h1
    cases e'
    obtain ⟨t, ht, hle⟩ := maxTs_ge (mem_forMember.mp hx)
    rw [ht]; simp only [] at hle ⊢; omega

theorem apply_wf {s : State} (h : WF s) (o : Op) : WF (apply s o) := by
  cases o with
  | merge b => exact merge_wf h b
  | updateLocal m hh i => exact wf_set h m _ _ (Nat.le_refl _) (Nat.le_succ _)
  | suspect m i => simp only [apply]; rw [suspect_spec]; exact localOp_wf (freshOk_suspect i) h m
  | fail m => simp only [apply]; rw [fail_spec]; exact localOp_wf freshOk_fail h m
  | refute m i => simp only [apply]; rw [refute_spec]; exact localOp_wf (freshOk_refute i) h m
  | markHealthy m => simp only [apply]; rw [markHealthy_spec]; exact localOp_wf freshOk_markHealthy h m
  | tick => exact fun m e he => Nat.le_trans (h m e he) (Nat.le_succ _)
  | syncTime t => exact fun m e he => Nat.le_trans (h m e he) (by simp only [apply, syncTime]; omega)

theorem run_wf {s : State} (h : WF s) (ops : List Op) : WF (run s ops) := by
  induction ops generalizing s with
  | nil => exact h
  | cons o os ih => exact ih (apply_wf h o)

/-- every op is the merge of what it `emitted` -/
theorem apply_join {s : State} (hwf : WF s) (o : Op) (hok : OpOk s o) (m : Nat) :
    (apply s o).regs m = joinList (s.regs m) (forMember m (emitted s o)) := by
  cases o with
  | merge b => exact merge_apply s b m
  | updateLocal m' hh i =>
    simp only [apply, emitted, updateLocal]
    by_cases hm : m = m'
    · subst hm
      simp only [setReg_same, forMember, List.filter_cons, decide_true, if_true, List.filter_nil,
        List.map_cons, List.map_nil, joinList, List.foldl_cons, List.foldl_nil]
      cases he : s.regs m with
      | none => rfl
      | some e => exact (join_fresh hwf he rfl (hok e he)).symm
    · have : ¬ m' = m := fun e => hm e.symm
      simp [setReg_other _ _ hm, forMember, this, joinList]
  | suspect m' i => simp only [apply, emitted]; rw [suspect_spec]; exact localOp_join (freshOk_suspect i) hwf m' m
  | fail m' => simp only [apply, emitted]; rw [fail_spec]; exact localOp_join freshOk_fail hwf m' m
  | refute m' i => simp only [apply, emitted]; rw [refute_spec]; exact localOp_join (freshOk_refute i) hwf m' m
  | markHealthy m' => simp only [apply, emitted]; rw [markHealthy_spec]; exact localOp_join freshOk_markHealthy hwf m' m
  | tick => rfl
  | syncTime t => rfl

theorem run_join {s : State} (hwf : WF s) (ops : List Op) (hadm : Admissible s ops) (m : Nat) :
    (run s ops).regs m = joinList (s.regs m) (forMember m (seen s ops)) := by
  induction ops generalizing s with
  | nil => rfl
  | cons o os ih =>
    have : run s (o :: os) = run (apply s o) os := rfl
    rw [this, ih (apply_wf hwf o) hadm.2, apply_join hwf o hadm.1]
    simp only [seen, forMember_append, joinList_append]

/-! ### incarnation bound (system invariant building blocks) -/

/-- every incarnation recorded in `s` for member `m` is at most `A m` -/
def IncBound (A : Nat → Nat) (s : State) : Prop := ∀ m e, s.regs m = some e → e.inc ≤ A m

theorem merge_incBound {A : Nat → Nat} {s : State} (h : IncBound A s) {b : List Update}
    (hb : ∀ u ∈ b, u.reg.inc ≤ A u.node) : IncBound A (merge s b).1 := by
  intro m e he
  rw [merge_apply] at he
  obtain ⟨h1, _, _⟩ := joinList_isJoin (s.regs m) (forMember m b)
  rw [he] at h1
  cases h1 with
  | inl h1 => exact h m e h1.symm
  | inr h1 =>
    obtain ⟨x, hx, e'⟩ := h1
    cases e'
    exact hb _ (mem_forMember.mp hx)

theorem localOp_incBound {A : Nat → Nat} {c : Reg → Prop} [DecidablePred c] {f : Reg → Nat → Reg}
    {s : State} (h : IncBound A s) (m' : Nat) (hf : ∀ e t, s.regs m' = some e → c e → (f e t).inc ≤ A m') :
    IncBound A (localOp c f s m').1 := by
  rcases localOp_cases c f s m' with h' | ⟨e0, he0, hc, h'⟩ <;> rw [h']
  · exact h
  · intro m e he
    simp only [] at he
    by_cases hm : m = m'
    · subst hm; rw [setReg_same] at he; cases he; exact hf e0 _ he0 hc
    · rw [setReg_other _ _ hm] at he; exact h m e he

/-! ### the multi-node system -/

/-- system invariant: every incarnation recorded anywhere, in flight or announced by `Alive`,
    for member `m` is at most the counter `m` itself has reached -/
def SysInv (y : Sys) : Prop :=
  (∀ r, IncBound y.announced (y.nodes r)) ∧
  (∀ u ∈ y.net, u.reg.inc ≤ y.announced u.node) ∧
  (∀ p ∈ y.alive, p.2 ≤ y.announced p.1)

theorem sysInv_step (y : Sys) (st : Step) (h : SysInv y) : SysInv (y.step st) := by
  obtain ⟨hn, hnet, hal⟩ := h
  have setN : ∀ (r : Nat) (s' : State), IncBound y.announced s' →
      ∀ k, IncBound y.announced (setNode y.nodes r s' k) := by
    intro r s' hs k; unfold setNode; by_cases hk : k = r <;> simp [hk, hs, hn k]
  cases st with
  | announce m =>
    refine ⟨?_, ?_, ?_⟩
    · intro r k e he
      have := hn r k e he
      simp only [Sys.step]
      by_cases hk : k = m
      · subst hk; simp only [if_true]; omega
      · simp only [hk, if_false]; exact this
    · intro u hu
      have := hnet u hu
      simp only [Sys.step]
      by_cases hk : u.node = m
      · rw [hk] at this; simp only [hk, if_true]; omega
      · simp only [hk, if_false]; exact this
    · intro p hp
      simp only [Sys.step, List.mem_cons] at hp ⊢
      cases hp with
      | inl e => subst e; simp
      | inr hp =>
        have := hal p hp
        by_cases hk : p.1 = m
        · rw [hk] at this; simp only [hk, if_true]; omega
        · simp only [hk, if_false]; exact this
  | deliverAlive r m inc =>
    simp only [Sys.step]
    by_cases hmem : (m, inc) ∈ y.alive
    · simp only [hmem, if_true]
      refine ⟨setN r _ ?_, hnet, hal⟩
      rw [refute_spec]
      exact localOp_incBound (hn r) m (fun _ _ _ _ => hal (m, inc) hmem)
    · simp only [hmem, if_false]; exact ⟨hn, hnet, hal⟩
  | gossip r ms =>
    refine ⟨hn, ?_, hal⟩
    intro u hu
    simp only [Sys.step, List.mem_append] at hu
    cases hu with
    | inr hu => exact hnet u hu
    | inl hu =>
      have : ∀ ms, u ∈ snapshot (y.nodes r) ms → (y.nodes r).regs u.node = some u.reg := by
        intro ms
        induction ms with
        | nil => intro h; cases h
        | cons k ks ih =>
          intro h
          unfold snapshot at h
          cases hk : (y.nodes r).regs k with
          | none => rw [hk] at h; exact ih h
          | some e =>
            rw [hk] at h
            cases List.mem_cons.mp h with
            | inl e' => subst e'; exact hk
            | inr h' => exact ih h'
      exact hn r u.node u.reg (this ms hu)
  | deliver r batch =>
    simp only [Sys.step]
    by_cases hall : batch.all (· ∈ y.net) = true
    · simp only [hall, if_true]
      refine ⟨setN r _ (merge_incBound (hn r) ?_), hnet, hal⟩
      intro u hu
      have := List.all_eq_true.mp hall u hu
      exact hnet u (by simpa using this)
    · simp only [hall]; exact ⟨hn, hnet, hal⟩
  | markSender r sender =>
    refine ⟨setN r _ (merge_incBound (hn r) ?_), hnet, hal⟩
    intro u hu
    simp only [List.mem_cons, List.not_mem_nil, or_false] at hu
    subst hu
    simp only []
    cases hs : (y.nodes r).regs sender with
    | none => simp
    | some e => exact hn r sender e hs
  | addPeer r p =>
    simp only [Sys.step]
    cases hp : (y.nodes r).regs p with
    | some e => exact ⟨hn, hnet, hal⟩
    | none =>
      refine ⟨setN r _ (merge_incBound (s := { (y.nodes r) with clock := (y.nodes r).clock + 1 }) (hn r) ?_), hnet, hal⟩
      intro u hu
      simp only [List.mem_cons, List.not_mem_nil, or_false] at hu
      subst hu; simp
  | suspect r m inc =>
    refine ⟨setN r _ ?_, hnet, hal⟩
    rw [suspect_spec]
    exact localOp_incBound (hn r) m (fun e _ he _ => hn r m e he)
  | fail r m =>
    refine ⟨setN r _ ?_, hnet, hal⟩
    rw [fail_spec]
    exact localOp_incBound (hn r) m (fun e _ he _ => hn r m e he)
  | markHealthy r m =>
    refine ⟨setN r _ ?_, hnet, hal⟩
    rw [markHealthy_spec]
    exact localOp_incBound (hn r) m (fun e _ he _ => hn r m e he)

theorem sysInv_init : SysInv Sys.init := by
  refine ⟨?_, (by intro u h; cases h), (by intro p h; cases h)⟩
  intro r m e he
  simp only [Sys.init, updateLocal, State.empty, setReg] at he
  by_cases hm : m = r
  · simp only [hm, if_true, Option.some.injEq] at he; subst he; simp [Sys.init]
  · simp [hm] at he

theorem sysInv_run (sts : List Step) (y : Sys) (h : SysInv y) : SysInv (y.run sts) := by
  induction sts generalizing y with
  | nil => exact h
  | cons st sts ih => exact ih (y.step st) (sysInv_step y st h)

/-! ### anti-entropy -/

theorem mem_snapshot {s : State} {ms : List Nat} {u : Update} :
    u ∈ snapshot s ms ↔ u.node ∈ ms ∧ s.regs u.node = some u.reg := by
  induction ms with
  | nil => simp [snapshot]
  | cons k ks ih =>
    unfold snapshot
    cases hk : s.regs k with
    | none =>
      simp only [ih, List.mem_cons]
      constructor
      · intro ⟨h1, h2⟩; exact ⟨Or.inr h1, h2⟩
      · intro ⟨h1, h2⟩
        cases h1 with
        | inl e => rw [e, hk] at h2; cases h2
        | inr h1 => exact ⟨h1, h2⟩
    | some e =>
      simp only [List.mem_cons, ih]
      constructor
      · intro h
        cases h with
        | inl h => subst h; exact ⟨Or.inl rfl, hk⟩
        | inr h => exact ⟨Or.inr h.1, h.2⟩
      · intro ⟨h1, h2⟩
        cases h1 with
        | inl h1 =>
          left
          cases u with
          | mk n r =>
            simp only at h1 h2; subst h1; rw [hk] at h2; cases h2; rfl
        | inr h1 => exact Or.inr ⟨h1, h2⟩

theorem join_none_right (a : Option Reg) : join a none = a := by cases a <;> rfl

/-- merging another replica's published registers joins, member by member -/
theorem merge_snapshot (s t : State) (ms : List Nat) (m : Nat) (hm : m ∈ ms) :
    (merge s (snapshot t ms)).1.regs m = join (s.regs m) (t.regs m) := by
  rw [merge_apply]
  cases ht : t.regs m with
  | none =>
    rw [join_none_right]
    have : forMember m (snapshot t ms) = [] := by
      apply List.eq_nil_iff_forall_not_mem.mpr
      intro x hx
      have := (mem_snapshot.mp (mem_forMember.mp hx)).2
      simp only at this; rw [ht] at this; cases this
    rw [this]; rfl
  | some r =>
    have h1 : join (s.regs m) (some r) = joinList (s.regs m) [r] := rfl
    rw [h1]
    apply isJoin_unique (joinList_isJoin _ _) (joinList_isJoin _ _)
    intro x
    rw [mem_forMember, mem_snapshot]
    simp only [List.mem_cons, List.not_mem_nil, or_false]
    constructor
    · intro ⟨_, h2⟩; rw [ht] at h2; cases h2; rfl
    · intro e; subst e; exact ⟨hm, ht⟩

/-! ### the manager -/

theorem passesDelta_of_le (s : State) (maxDelta : Nat) (u : Update) (h : u.reg.inc ≤ maxDelta) :
    passesDelta s maxDelta u = true := by
  unfold passesDelta
  cases s.regs u.node <;> simp <;> omega

theorem handleSync_maxDelta (g : Mgr) (sender : Nat) (b : List Update) (t : Nat) :
    (g.handleSync sender b t).maxDelta = g.maxDelta := rfl

/-- `handle_sync` on a member other than the sender, when no incoming state exceeds the
    configured incarnation jump: the plain CRDT merge of the payload -/
theorem handleSync_regs (g : Mgr) (sender : Nat) (b : List Update) (t : Nat) (m : Nat) (hm : m ≠ sender)
    (hpass : ∀ u ∈ b, u.reg.inc ≤ g.maxDelta) :
    (g.handleSync sender b t).st.regs m = joinList (g.st.regs m) (forMember m b) := by
  have hfil : b.filter (passesDelta (syncTime g.st t) g.maxDelta) = b :=
    List.filter_eq_self.mpr (fun u hu => passesDelta_of_le _ _ u (hpass u hu))
  unfold Mgr.handleSync
  simp only [hfil]
  rw [merge_apply, merge_apply]
  have : ¬ sender = m := fun e => hm e.symm
  simp [forMember, this, joinList, syncTime]

theorem handleAlive_st (g : Mgr) (m i : Nat) :
    (g.handleAlive m i).st = g.st ∨ (g.handleAlive m i).st = (refute g.st m i).1 := by
  unfold Mgr.handleAlive
  simp only []
  repeat' split
  all_goals first | (left; rfl) | (right; rfl)

theorem handlePingAck_st (g : Mgr) (t : Nat) (ok : Bool) :
    (g.handlePingAck t ok).st = g.st ∨ (g.handlePingAck t ok).st = (markHealthy g.st t).1 := by
  unfold Mgr.handlePingAck
  repeat' split
  all_goals first | (left; rfl) | (right; rfl)

/-- a list of messages consisting of Sync messages only, none of them sent by `m` -/
def SyncsNotFrom (m : Nat) : List Msg → Prop
  | [] => True
  | .sync s _ _ :: ms => s ≠ m ∧ SyncsNotFrom m ms
  | _ :: _ => False

theorem run_maxDelta_syncs (g : Mgr) (msgs : List Msg) (m : Nat) (h : SyncsNotFrom m msgs) :
    (g.run msgs).maxDelta = g.maxDelta := by
  induction msgs generalizing g with
  | nil => rfl
  | cons x xs ih =>
    cases x with
    | sync s b t => exact ih (g.handleSync s b t) h.2
    | suspect _ _ => exact absurd h (by simp [SyncsNotFrom])
    | alive _ _ => exact absurd h (by simp [SyncsNotFrom])
    | addPeer _ => exact absurd h (by simp [SyncsNotFrom])
    | pingAck _ _ => exact absurd h (by simp [SyncsNotFrom])

theorem runSyncs_regs (g : Mgr) (msgs : List Msg) (m : Nat) (h : SyncsNotFrom m msgs)
    (hpass : ∀ u ∈ syncPayload msgs, u.reg.inc ≤ g.maxDelta) :
    (g.run msgs).st.regs m = joinList (g.st.regs m) (forMember m (syncPayload msgs)) := by
  induction msgs generalizing g with
  | nil => rfl
  | cons x xs ih =>
    cases x with
    | sync s b t =>
      have hrun : g.run (Msg.sync s b t :: xs) = (g.handleSync s b t).run xs := rfl
      have hb : ∀ u ∈ b, u.reg.inc ≤ g.maxDelta := fun u hu => hpass u (by simp [syncPayload, hu])
      have hxs : ∀ u ∈ syncPayload xs, u.reg.inc ≤ (g.handleSync s b t).maxDelta :=
        fun u hu => hpass u (by simp [syncPayload, hu])
      rw [hrun, ih (g.handleSync s b t) h.2 hxs, handleSync_regs g s b t m (fun e => h.1 e.symm) hb]
      simp only [syncPayload, forMember_append, joinList_append]
    | suspect _ _ => exact absurd h (by simp [SyncsNotFrom])
    | alive _ _ => exact absurd h (by simp [SyncsNotFrom])
    | addPeer _ => exact absurd h (by simp [SyncsNotFrom])
    | pingAck _ _ => exact absurd h (by simp [SyncsNotFrom])

/-! ### re-delivery after local events -/

theorem join_absorb {r : Option Reg} {x : Reg} (h : OLe (some x) r) : join r (some x) = r := by
  rw [join_comm']; exact join_of_le h

/-- merging registers that are all dominated by the stored one changes nothing -/
theorem joinList_absorb (r : Option Reg) (l : List Reg) (h : ∀ x ∈ l, OLe (some x) r) :
    joinList r l = r := by
  induction l with
  | nil => rfl
  | cons x xs ih =>
    rw [joinList_cons, join_absorb (h x (by simp))]
    exact ih (fun y hy => h y (by simp [hy]))

theorem run_append (s : State) (a b : List Op) : run s (a ++ b) = run (run s a) b := by
  unfold run; rw [List.foldl_append]

theorem seen_append (s : State) (a b : List Op) : seen s (a ++ b) = seen s a ++ seen (run s a) b := by
  induction a generalizing s with
  | nil => rfl
  | cons o os ih =>
    have hr : run s (o :: os) = run (apply s o) os := rfl
    simp only [List.cons_append, seen, ih, List.append_assoc, hr]

theorem admissible_append {s : State} {a b : List Op} (ha : Admissible s a)
    (hb : Admissible (run s a) b) : Admissible s (a ++ b) := by
  induction a generalizing s with
  | nil => exact hb
  | cons o os ih => exact ⟨ha.1, ih ha.2 hb⟩

/-- the four guarded local events: the member they act on and the health they record -/
def localTarget : Op → Option (Nat × Health)
  | .suspect m _ => some (m, .degraded)
  | .fail m => some (m, .failed)
  | .refute m _ => some (m, .healthy)
  | .markHealthy m => some (m, .healthy)
  | _ => none

/-- a local event that returned `true` wrote a register with the fresh stamp `clock + 1` -/
theorem localOp_emitted {c : Reg → Prop} [DecidablePred c] {f : Reg → Nat → Reg} (s : State) (m : Nat)
    (h : emittedLocal (localOp c f s m) m ≠ []) :
    ∃ e, s.regs m = some e ∧ c e ∧ (localOp c f s m).1.regs m = some (f e (s.clock + 1)) ∧
      emittedLocal (localOp c f s m) m = [⟨m, f e (s.clock + 1)⟩] := by
  rcases localOp_cases c f s m with h' | ⟨e, he, hc, h'⟩
  · rw [h'] at h; simp [emittedLocal] at h
  · refine ⟨e, he, hc, ?_, ?_⟩ <;> rw [h'] <;> simp [emittedLocal, setReg_same]

/-! ### the manager keeps the clock invariant -/

theorem wf_clock_mono {s : State} (h : WF s) (c : Nat) (hc : s.clock ≤ c) : WF { s with clock := c } :=
  fun m e he => Nat.le_trans (h m e he) hc

theorem syncTime_wf {s : State} (h : WF s) (t : Nat) : WF (syncTime s t) :=
  wf_clock_mono h _ (by omega)

theorem mgr_new_wf (loc maxDelta : Nat) : WF (Mgr.new loc maxDelta).st :=
  apply_wf wf_empty (.updateLocal loc .healthy 0)

theorem mgr_handle_wf (g : Mgr) (h : WF g.st) (x : Msg) : WF (g.handle x).st := by
  cases x with
  | sync s b t =>
    simp only [Mgr.handle, Mgr.handleSync]
    exact merge_wf (merge_wf (syncTime_wf h t) _) _
  | suspect m i =>
    simp only [Mgr.handle, Mgr.handleSuspect]
    split
    · exact h
    · split
      · exact h
      · exact apply_wf h (.suspect m i)
  | alive m i =>
    simp only [Mgr.handle]
    cases handleAlive_st g m i with
    | inl h' => rw [h']; exact h
    | inr h' => rw [h']; exact apply_wf h (.refute m i)
  | addPeer p =>
    simp only [Mgr.handle, Mgr.addPeer]
    cases g.st.regs p with
    | some _ => exact h
    | none => exact merge_wf (wf_clock_mono h _ (Nat.le_succ _)) _
  | pingAck t ok =>
    simp only [Mgr.handle]
    cases handlePingAck_st g t ok with
    | inl h' => rw [h']; exact h
    | inr h' => rw [h']; exact apply_wf h (.markHealthy t)

theorem mgr_run_wf (g : Mgr) (h : WF g.st) (msgs : List Msg) : WF (g.run msgs).st := by
  induction msgs generalizing g with
  | nil => exact h
  | cons x xs ih => exact ih (g.handle x) (mgr_handle_wf g h x)

end Neumann.Gossip
