import NeumannModel.Gossip.Hlc
/-
  C17 — helper lemmas for the hybrid logical clock model (no Mathlib).
-/
namespace Neumann.Gossip.Hlc

theorem Ts.lt_def (a b : Ts) :
    a < b ↔ (a.wall < b.wall ∨
      (a.wall = b.wall ∧ (a.logical < b.logical ∨ (a.logical = b.logical ∧ a.node < b.node)))) :=
  Iff.rfl

theorem Ts.lt_irrefl (a : Ts) : ¬ a < a := by
  rw [Ts.lt_def]; omega

theorem Ts.lt_trans {a b c : Ts} (h1 : a < b) (h2 : b < c) : a < c := by
  rw [Ts.lt_def] at *; omega

theorem Ts.lt_asymm {a b : Ts} (h1 : a < b) : ¬ b < a := by
  rw [Ts.lt_def] at *; omega

theorem Ts.lt_trichotomy (a b : Ts) : a < b ∨ a = b ∨ b < a := by
  rw [Ts.lt_def, Ts.lt_def]
  cases a; cases b
  simp only [Ts.mk.injEq]
  omega

/-- `now`: the answer is the stamp the clock then stands at, strictly above where it stood, its wall
    component the larger of physical time and the old wall component -/
theorem now_spec (c : Clock) (p : Nat) :
    c.stamp < (c.now p).2 ∧ (c.now p).1.stamp = (c.now p).2 ∧ (c.now p).1.node = c.node ∧
      (c.now p).2.wall = max p c.last := by
  unfold Clock.now
  split
  · refine ⟨?_, rfl, rfl, ?_⟩
    · rw [Ts.lt_def]; dsimp only [Clock.stamp]; omega
    · dsimp only; omega
  · refine ⟨?_, rfl, rfl, ?_⟩
    · rw [Ts.lt_def]; dsimp only [Clock.stamp]; omega
    · dsimp only; omega

/-- `receive`: the answer is the stamp the clock then stands at, strictly above where it stood AND
    strictly above the received timestamp (already in (wall, logical): the node component is never
    needed), its wall component the largest of the three wall times -/
theorem receive_spec (c : Clock) (p : Nat) (r : Ts) :
    c.stamp < (c.receive p r).2 ∧ r < (c.receive p r).2 ∧
      (c.receive p r).1.stamp = (c.receive p r).2 ∧ (c.receive p r).1.node = c.node ∧
      (c.receive p r).2.wall = max (max p c.last) r.wall := by
  simp only [Ts.lt_def]
  dsimp only [Clock.receive, Clock.receiveWith, Clock.stamp, recvLogical]
  refine ⟨?_, ?_, ?_, rfl, rfl⟩
  · split
    · omega
    · split
      · omega
      · split <;> omega
  · split
    · omega
    · split
      · omega
      · split <;> omega
  · congr 1
    split <;> omega

theorem step_spec (c : Clock) (s : Step) :
    c.stamp < (c.step s).2 ∧ (c.step s).1.stamp = (c.step s).2 ∧ (c.step s).1.node = c.node := by
  cases s with
  | now p => exact ⟨(now_spec c p).1, (now_spec c p).2.1, (now_spec c p).2.2.1⟩
  | recv p r => exact ⟨(receive_spec c p r).1, (receive_spec c p r).2.2.1, (receive_spec c p r).2.2.2.1⟩

theorem run_cons (c : Clock) (s : Step) (rest : List Step) :
    c.run (s :: rest) = (((c.step s).1.run rest).1, (c.step s).2 :: ((c.step s).1.run rest).2) := rfl

theorem run_append (c : Clock) (xs ys : List Step) :
    c.run (xs ++ ys) = (((c.run xs).1.run ys).1, (c.run xs).2 ++ ((c.run xs).1.run ys).2) := by
  induction xs generalizing c with
  | nil => rfl
  | cons s rest ih => simp only [List.cons_append, run_cons, ih]

/-- everything a run hands out is strictly above the stamp it started from; the final clock stands
    at the last timestamp handed out (or where it started) and above-or-at everything handed out -/
theorem run_above_start (c : Clock) (steps : List Step) :
    (∀ t ∈ (c.run steps).2, c.stamp < t) ∧
      (∀ t ∈ (c.run steps).2, t = (c.run steps).1.stamp ∨ t < (c.run steps).1.stamp) ∧
      (c.run steps).1.node = c.node ∧
      ((c.run steps).1.stamp = c.stamp ∨ c.stamp < (c.run steps).1.stamp) := by
  induction steps generalizing c with
  | nil => exact ⟨fun _ h => (nomatch h), fun _ h => (nomatch h), rfl, Or.inl rfl⟩
  | cons s rest ih =>
    rw [run_cons]
    have hs := step_spec c s
    have h1 := ih (c.step s).1
    refine ⟨?_, ?_, ?_, ?_⟩
    · intro t ht
      rcases List.mem_cons.mp ht with rfl | ht
      · exact hs.1
      · exact Ts.lt_trans (hs.2.1 ▸ hs.1) (h1.1 t ht)
    · intro t ht
      rcases List.mem_cons.mp ht with rfl | ht
      · rcases h1.2.2.2 with h | h
        · exact Or.inl (hs.2.1 ▸ h.symm)
        · exact Or.inr (hs.2.1 ▸ h)
      · exact h1.2.1 t ht
    · exact h1.2.2.1.trans hs.2.2
    · rcases h1.2.2.2 with h | h
      · exact Or.inr (h ▸ hs.2.1 ▸ hs.1)
      · exact Or.inr (Ts.lt_trans (hs.2.1 ▸ hs.1) h)

theorem run_pairwise (c : Clock) (steps : List Step) : (c.run steps).2.Pairwise (· < ·) := by
  induction steps generalizing c with
  | nil => exact List.Pairwise.nil
  | cons s rest ih =>
    rw [run_cons]
    refine List.Pairwise.cons ?_ (ih _)
    intro t ht
    have := (run_above_start (c.step s).1 rest).1 t ht
    rwa [(step_spec c s).2.1] at this

theorem satSucc_lt {B n : Nat} (h : n < B) : satSucc B n = n + 1 := by
  simp only [satSucc, h, if_true]

end Neumann.Gossip.Hlc
