/-
  C17 — model of the hybrid logical clock of tensor_chain/src/hlc.rs ("a node's … logical clock
  never decrease[s]").

  * `Ts`      = `HLCTimestamp { wall_ms, logical, node_id_hash }`; `Ts.lt` = the derived `Ord`
                (lexicographic in field order).
  * `Clock`   = `HybridLogicalClock`: `last_wall_ms`, `logical`, `node_id_hash`.  The physical time
                (`wall_with_drift()` = wall_start + monotonic elapsed + drift offset) is an INPUT of
                every step: nothing is assumed about it (it may stall, jump forwards or go backwards
                through `set_drift_offset` / `inject_clock_jump`).
  * `Clock.now`     = `now()` executed alone (the compare_exchange succeeds).
  * `Clock.receive` = `receive(&received)`, branch by branch (all comparisons against the value of
                `last_wall_ms` read BEFORE the store, as in the code).
  * `recvLogicalReceivedFirst` = a branch ladder that tests "received carries the maximum wall time"
                first (model variant for the witness theorem; not the code).
  * `Clock.nowSat / receiveSat` = the same two operations with the exact u64 arithmetic
                (`saturating_add(1)` on the returned counter, wrapping `fetch_add` on the stored one),
                `B` = the largest counter value; they coincide with `now / receive` while counters are
                below `B` (HlcProps.hlc_bounded_counters_refine).  The driver runs these with
                `B = 2^64 - 1`.

  Concurrent calls on one clock (now() racing receive()) are not modelled.  Import-free.
-/
namespace Neumann.Gossip.Hlc

/-- `HLCTimestamp` -/
structure Ts where
  wall : Nat
  logical : Nat
  node : Nat
  deriving DecidableEq, Repr, Inhabited

/-- `#[derive(PartialOrd, Ord)]` on `HLCTimestamp`: wall_ms, then logical, then node_id_hash -/
def Ts.lt (a b : Ts) : Prop :=
  a.wall < b.wall ∨
    (a.wall = b.wall ∧ (a.logical < b.logical ∨ (a.logical = b.logical ∧ a.node < b.node)))

instance : LT Ts := ⟨Ts.lt⟩

instance (a b : Ts) : Decidable (a < b) :=
  inferInstanceAs (Decidable (a.wall < b.wall ∨
    (a.wall = b.wall ∧ (a.logical < b.logical ∨ (a.logical = b.logical ∧ a.node < b.node)))))

/-- `HybridLogicalClock` (the fields that determine its answers) -/
structure Clock where
  last : Nat
  logical : Nat
  node : Nat
  deriving DecidableEq, Repr, Inhabited

/-- the timestamp the clock currently stands at -/
def Clock.stamp (c : Clock) : Ts := ⟨c.last, c.logical, c.node⟩

/-- `now()` with `wall_with_drift() = phys` -/
def Clock.now (c : Clock) (phys : Nat) : Clock × Ts :=
  if phys > c.last then
    ({ c with last := phys, logical := 0 }, ⟨phys, 0, c.node⟩)
  else
    ({ c with logical := c.logical + 1 }, ⟨c.last, c.logical + 1, c.node⟩)

/-- the branch ladder of `receive` that picks the new logical counter; `mx` = max_wall,
    `c.last` = `last` as loaded before the store -/
def recvLogical (c : Clock) (mx : Nat) (r : Ts) : Nat :=
  if mx = c.last ∧ mx = r.wall then
    max c.logical r.logical + 1
  else if mx = c.last then
    c.logical + 1
  else if mx = r.wall then
    r.logical + 1
  else
    0

/-- NOT the code: the ladder with the "received carries the maximum wall time" test first, which
    swallows the three-way tie -/
def recvLogicalReceivedFirst (c : Clock) (mx : Nat) (r : Ts) : Nat :=
  if mx = r.wall then
    r.logical + 1
  else if mx = c.last then
    c.logical + 1
  else
    0

/-- `receive(&r)` with `wall_with_drift() = phys`, parameterised by the ladder -/
def Clock.receiveWith (rule : Clock → Nat → Ts → Nat) (c : Clock) (phys : Nat) (r : Ts) : Clock × Ts :=
  let mx := max (max phys c.last) r.wall
  let lg := rule c mx r
  ({ c with last := if mx > c.last then mx else c.last, logical := lg }, ⟨mx, lg, c.node⟩)

def Clock.receive (c : Clock) (phys : Nat) (r : Ts) : Clock × Ts :=
  c.receiveWith recvLogical phys r

def Clock.receiveReceivedFirst (c : Clock) (phys : Nat) (r : Ts) : Clock × Ts :=
  c.receiveWith recvLogicalReceivedFirst phys r

/-- one call on a clock; every call carries the physical time it happens to read -/
inductive Step where
  | now (phys : Nat)
  | recv (phys : Nat) (r : Ts)
  deriving DecidableEq, Repr

def Clock.step (c : Clock) : Step → Clock × Ts
  | .now p => c.now p
  | .recv p r => c.receive p r

/-- a sequence of calls: final clock and the timestamps handed out, oldest first -/
def Clock.run (c : Clock) : List Step → Clock × List Ts
  | [] => (c, [])
  | s :: rest =>
    let (c1, t) := c.step s
    let (c2, ts) := c1.run rest
    (c2, t :: ts)

/-- the same with the received-first ladder -/
def Clock.stepReceivedFirst (c : Clock) : Step → Clock × Ts
  | .now p => c.now p
  | .recv p r => c.receiveReceivedFirst p r

def Clock.runReceivedFirst (c : Clock) : List Step → Clock × List Ts
  | [] => (c, [])
  | s :: rest =>
    let (c1, t) := c.stepReceivedFirst s
    let (c2, ts) := c1.runReceivedFirst rest
    (c2, t :: ts)

/-! ## exact u64 arithmetic -/

/-- `x.saturating_add(1)` for a counter type whose largest value is `B` -/
def satSucc (B n : Nat) : Nat := if n < B then n + 1 else B

/-- `now()`: `fetch_add(1)` WRAPS the stored counter, the returned one is `prev.saturating_add(1)` -/
def Clock.nowSat (B : Nat) (c : Clock) (phys : Nat) : Clock × Ts :=
  if phys > c.last then
    ({ c with last := phys, logical := 0 }, ⟨phys, 0, c.node⟩)
  else
    ({ c with logical := (c.logical + 1) % (B + 1) }, ⟨c.last, satSucc B c.logical, c.node⟩)

def recvLogicalSat (B : Nat) (c : Clock) (mx : Nat) (r : Ts) : Nat :=
  if mx = c.last ∧ mx = r.wall then
    satSucc B (max c.logical r.logical)
  else if mx = c.last then
    satSucc B c.logical
  else if mx = r.wall then
    satSucc B r.logical
  else
    0

def Clock.receiveSat (B : Nat) (c : Clock) (phys : Nat) (r : Ts) : Clock × Ts :=
  c.receiveWith (recvLogicalSat B) phys r

end Neumann.Gossip.Hlc
