import NeumannModel.Durable.Overlay
/-
  C02 — helper lemmas for
    * the acknowledgement rule of the three sync modes on scripts of operations and explicit
      syncs (`Act`, `Sys.act`): the log file of a session, monotone synced length, what an
      explicit `sync` covers, how many records `Batched n` can leave unsynced;
    * the Bloom-filtered store (`open_durable_with_bloom`, `recover_with_bloom`): every key the
      router answers is listed by `scan`, so a filter rebuilt from `scan("")` and fed by every
      later `put_durable` never hides a readable key.
-/
namespace Neumann.Durable
open Neumann.FramedLog

/-! #### scripts: file, memory, synced length -/

section session
variable (crc : Bytes → Nat) (enc : Entry → Bytes)

theorem opsOf_append (xs ys : List Act) : opsOf (xs ++ ys) = opsOf xs ++ opsOf ys := by
  induction xs with
  | nil => rfl
  | cons a xs ih => cases a <;> simp [opsOf, ih]

theorem runOps_append_fst (s : Store) (xs ys : List Op) :
    (runOps s (xs ++ ys)).1 = (runOps s xs).1 ++ (runOps (runOps s xs).2 ys).1 := by
  induction xs generalizing s with
  | nil => simp [runOps_nil]
  | cons x xs ih => simp [runOps_cons, ih, List.append_assoc]

theorem runOps_append_snd (s : Store) (xs ys : List Op) :
    (runOps s (xs ++ ys)).2 = (runOps (runOps s xs).2 ys).2 := by
  induction xs generalizing s with
  | nil => simp [runOps_nil]
  | cons x xs ih => simp [runOps_cons, ih]

/-- operations change neither the snapshot file nor the sync mode -/
theorem foldl_op_snap_mode (sy : Sys) (ops : List Op) :
    (ops.foldl (Sys.op crc enc) sy).snap = sy.snap ∧ (ops.foldl (Sys.op crc enc) sy).mode = sy.mode := by
  induction ops generalizing sy with
  | nil => exact ⟨rfl, rfl⟩
  | cons o ops ih => rw [List.foldl_cons]; exact ih (Sys.op crc enc sy o)

/-- the log file and the memory after a script: syncs add nothing to either -/
theorem acts_file_mem (sy : Sys) (acts : List Act) :
    (acts.foldl (Sys.act crc enc) sy).wal.file
        = sy.wal.file ++ logBytes crc enc (runOps sy.mem (opsOf acts)).1 ∧
    (acts.foldl (Sys.act crc enc) sy).mem = (runOps sy.mem (opsOf acts)).2 ∧
    (acts.foldl (Sys.act crc enc) sy).mode = sy.mode := by
  induction acts generalizing sy with
  | nil => simp [opsOf, runOps_nil, logBytes_nil]
  | cons a acts ih =>
    cases a with
    | op o =>
      obtain ⟨h1, h2, h3⟩ := ih (Sys.op crc enc sy o)
      rw [List.foldl_cons]
      simp only [Sys.act, opsOf]
      rw [h1, h2, h3, runOps_cons, Sys.op_file, Sys.op_mem, logBytes_append, List.append_assoc]
      exact ⟨rfl, rfl, rfl⟩
    | sync =>
      obtain ⟨h1, h2, h3⟩ := ih sy.sync
      rw [List.foldl_cons]
      simp only [Sys.act, opsOf]
      rw [h1, h2, h3]
      exact ⟨rfl, rfl, rfl⟩

theorem Wal.append_synced_le (mode : SyncMode) (w : Wal) (b : Bytes) (h : w.syncedLen ≤ w.file.length) :
    w.syncedLen ≤ (Wal.append mode w b).syncedLen ∧
    (Wal.append mode w b).syncedLen ≤ (Wal.append mode w b).file.length := by
  rw [Wal.append_file]
  rcases Wal.append_synced mode w b with e | e <;> rw [e] <;> simp only [List.length_append] <;> omega

theorem foldl_append_synced_le (mode : SyncMode) (es : List Entry) (w : Wal)
    (h : w.syncedLen ≤ w.file.length) :
    w.syncedLen ≤ (es.foldl (fun w e => Wal.append mode w (encodeRec crc (enc e))) w).syncedLen ∧
    (es.foldl (fun w e => Wal.append mode w (encodeRec crc (enc e))) w).syncedLen
      ≤ (es.foldl (fun w e => Wal.append mode w (encodeRec crc (enc e))) w).file.length := by
  induction es generalizing w with
  | nil => exact ⟨Nat.le_refl _, h⟩
  | cons e es ih =>
    rw [List.foldl_cons]
    obtain ⟨a1, a2⟩ := Wal.append_synced_le mode w (encodeRec crc (enc e)) h
    obtain ⟨b1, b2⟩ := ih _ a2
    exact ⟨Nat.le_trans a1 b1, b2⟩

/-- one step of a script never un-synchronises anything -/
theorem act_synced_le (sy : Sys) (a : Act) (h : sy.wal.syncedLen ≤ sy.wal.file.length) :
    sy.wal.syncedLen ≤ (Sys.act crc enc sy a).wal.syncedLen ∧
    (Sys.act crc enc sy a).wal.syncedLen ≤ (Sys.act crc enc sy a).wal.file.length := by
  cases a with
  | op o =>
    simp only [Sys.act, Sys.op, Sys.log]
    exact foldl_append_synced_le crc enc sy.mode _ sy.wal h
  | sync =>
    simp only [Sys.act, Sys.sync, Wal.sync]
    exact ⟨h, Nat.le_refl _⟩

theorem acts_synced_le (sy : Sys) (acts : List Act) (h : sy.wal.syncedLen ≤ sy.wal.file.length) :
    sy.wal.syncedLen ≤ (acts.foldl (Sys.act crc enc) sy).wal.syncedLen ∧
    (acts.foldl (Sys.act crc enc) sy).wal.syncedLen ≤ (acts.foldl (Sys.act crc enc) sy).wal.file.length := by
  induction acts generalizing sy with
  | nil => exact ⟨Nat.le_refl _, h⟩
  | cons a acts ih =>
    rw [List.foldl_cons]
    obtain ⟨a1, a2⟩ := act_synced_le crc enc sy a h
    obtain ⟨b1, b2⟩ := ih _ a2
    exact ⟨Nat.le_trans a1 b1, b2⟩

theorem fresh_file (mode : SyncMode) : (Sys.fresh mode).wal.file = [] := by
  simp [Sys.fresh, Wal.openOn, openRepair_nil]

theorem fresh_synced (mode : SyncMode) : (Sys.fresh mode).wal.syncedLen = 0 := by
  simp [Sys.fresh, Wal.openOn, openRepair_nil]

/-- **an explicit `sync` covers every record issued before it**, whatever the mode and whatever
    follows -/
theorem sync_covers (mode : SyncMode) (pre post : List Act) :
    (logBytes crc enc (runOps Store.empty (opsOf pre)).1).length
      ≤ ((pre ++ [Act.sync] ++ post).foldl (Sys.act crc enc) (Sys.fresh mode)).wal.syncedLen := by
  rw [List.foldl_append, List.foldl_append]
  have hpre := (acts_file_mem crc enc (Sys.fresh mode) pre).1
  rw [fresh_file, List.nil_append] at hpre
  have h0 : (Sys.fresh mode).wal.syncedLen ≤ (Sys.fresh mode).wal.file.length := by
    rw [fresh_synced]; exact Nat.zero_le _
  have hs : ((([Act.sync] : List Act).foldl (Sys.act crc enc) (pre.foldl (Sys.act crc enc) (Sys.fresh mode)))).wal.syncedLen
      = (logBytes crc enc (runOps Store.empty (opsOf pre)).1).length := by
    simp only [List.foldl_cons, List.foldl_nil, Sys.act, Sys.sync, Wal.sync]
    rw [hpre]; rfl
  have hle : ((([Act.sync] : List Act).foldl (Sys.act crc enc) (pre.foldl (Sys.act crc enc) (Sys.fresh mode)))).wal.syncedLen
      ≤ ((([Act.sync] : List Act).foldl (Sys.act crc enc) (pre.foldl (Sys.act crc enc) (Sys.fresh mode)))).wal.file.length := by
    simp only [List.foldl_cons, List.foldl_nil, Sys.act, Sys.sync, Wal.sync]
    exact Nat.le_refl _
  have := (acts_synced_le crc enc _ post hle).1
  rw [hs] at this
  exact this

/-! #### `Batched n`: the unsynced tail is the last `pending` records, fewer than `n` -/

/-- the writer under `Batched m` after logging the records `R` -/
structure BInv (m : Nat) (w : Wal) (R : List Entry) : Prop where
  file : w.file = logBytes crc enc R
  le : w.pending ≤ R.length
  synced : w.syncedLen = (logBytes crc enc (R.take (R.length - w.pending))).length
  bound : w.pending < max m 1

theorem binv_append (m : Nat) (w : Wal) (R : List Entry) (h : BInv crc enc m w R) (e : Entry) :
    BInv crc enc m (Wal.append (.batched m) w (encodeRec crc (enc e))) (R ++ [e]) := by
  have hfile : (Wal.append (.batched m) w (encodeRec crc (enc e))).file = logBytes crc enc (R ++ [e]) := by
    rw [Wal.append_file, h.file, logBytes_append, logBytes_singleton]
  by_cases hp : w.pending + 1 ≥ m
  · have hw : Wal.append (.batched m) w (encodeRec crc (enc e))
        = { file := w.file ++ encodeRec crc (enc e), syncedLen := (w.file ++ encodeRec crc (enc e)).length,
            pending := 0 } := by
      simp [Wal.append, hp]
    rw [hw] at hfile ⊢
    refine ⟨hfile, Nat.zero_le _, ?_, by show 0 < max m 1; omega⟩
    simp only [] at hfile ⊢
    rw [Nat.sub_zero, List.take_length, hfile]
  · have hw : Wal.append (.batched m) w (encodeRec crc (enc e))
        = { file := w.file ++ encodeRec crc (enc e), syncedLen := w.syncedLen, pending := w.pending + 1 } := by
      simp [Wal.append, hp]
    rw [hw] at hfile ⊢
    refine ⟨hfile, by simp only [List.length_append, List.length_singleton]; have := h.le; omega, ?_, by
      simp only []; omega⟩
    simp only [List.length_append, List.length_singleton]
    have hle := h.le
    have : R.length + 1 - (w.pending + 1) = R.length - w.pending := by omega
    rw [this, List.take_append_of_le_length (by omega)]
    exact h.synced

theorem binv_log (m : Nat) (w : Wal) (R es : List Entry) (h : BInv crc enc m w R) :
    BInv crc enc m (es.foldl (fun w e => Wal.append (.batched m) w (encodeRec crc (enc e))) w) (R ++ es) := by
  induction es generalizing w R with
  | nil => simpa using h
  | cons e es ih =>
    rw [List.foldl_cons]
    have := ih _ (R ++ [e]) (binv_append crc enc m w R h e)
    simpa [List.append_assoc] using this

theorem binv_sync (m : Nat) (w : Wal) (R : List Entry) (h : BInv crc enc m w R) :
    BInv crc enc m w.sync R := by
  refine ⟨h.file, Nat.zero_le _, ?_, by simp only [Wal.sync]; omega⟩
  simp only [Wal.sync, Nat.sub_zero, List.take_length]
  rw [h.file]

theorem binv_acts (m : Nat) (sy : Sys) (R : List Entry) (hm : sy.mode = .batched m)
    (h : BInv crc enc m sy.wal R) (acts : List Act) :
    BInv crc enc m (acts.foldl (Sys.act crc enc) sy).wal (R ++ (runOps sy.mem (opsOf acts)).1) := by
  induction acts generalizing sy R with
  | nil => simpa [opsOf, runOps_nil] using h
  | cons a acts ih =>
    rw [List.foldl_cons]
    cases a with
    | op o =>
      simp only [Sys.act, opsOf]
      have h1 : BInv crc enc m (Sys.op crc enc sy o).wal (R ++ (step sy.mem o).1) := by
        simp only [Sys.op, Sys.log, hm]
        exact binv_log crc enc m sy.wal R _ h
      have := ih (Sys.op crc enc sy o) (R ++ (step sy.mem o).1) (by rw [Sys.op_mode]; exact hm) h1
      rw [runOps_cons, Sys.op_mem] at *
      simpa [List.append_assoc] using this
    | sync =>
      simp only [Sys.act, opsOf]
      exact ih sy.sync R hm (binv_sync crc enc m sy.wal R h)

theorem binv_fresh (m : Nat) : BInv crc enc m (Sys.fresh (.batched m)).wal [] := by
  refine ⟨by rw [fresh_file]; rfl, by simp [Sys.fresh, Wal.openOn], ?_, by simp [Sys.fresh, Wal.openOn]; omega⟩
  rw [fresh_synced]; rfl

end session

/-! #### Bloom-filtered store -/

section assoc3
variable {α : Type _} {β : Type _} [DecidableEq α]

theorem mem_map_of_aget {m : List (α × β)} {k : α} (h : (aget m k).isSome = true) : k ∈ m.map (·.1) := by
  induction m with
  | nil => simp [aget] at h
  | cons p m ih =>
    obtain ⟨k', v⟩ := p
    simp only [aget] at h
    by_cases e : k' = k
    · simp [e]
    · simp only [e, if_false] at h
      simp only [List.map_cons, List.mem_cons]
      exact .inr (ih h)
end assoc3

theorem get_cache (s : Store) (k : Bytes) (hk : classify k = .cache) : get s k = aget s.cache k := by
  unfold get; simp [hk]

/-- **every key the router answers is listed by `scan`** (the converse of
    `scan_lists_only_readable_keys`): what makes a filter rebuilt from `scan("")` complete -/
theorem readable_scanned {s : Store} (hg : Good s) (k : Bytes) (h : (get s k).isSome = true) :
    k ∈ scanKeys s := by
  simp only [scanKeys, List.mem_append]
  by_cases hc : isCacheKey k = true
  · have hk : classify k = .cache := by simpa [isCacheKey] using hc
    rw [get_cache s k hk] at h
    exact .inr (mem_map_of_aget h)
  · have hc0 : isCacheKey k = false := by simpa using hc
    rw [good_get hg k hc0] at h
    exact .inl (.inl (mem_map_of_aget h))

theorem step_cache (s : Store) (op : Op) :
    (step s op).2.cache = match op with
      | .put k v => if isCacheKey k then aset s.cache k v else s.cache
      | .delete k => if isCacheKey k then aerase s.cache k else s.cache := by
  cases op with
  | put k v =>
    simp only [step]
    by_cases hc : isCacheKey k = true
    · have hk : classify k = .cache := by simpa [isCacheKey] using hc
      simp [putDurable, hc, put, hk]
    · have hc0 : isCacheKey k = false := by simpa using hc
      by_cases hk : classify k = .embedding
      · rw [putDurable_snd_emb s k v hk]; simp [hc0, putEmb]
      · rw [putDurable_snd_plain s k v hk hc0]; simp [hc0]
  | delete k =>
    rw [step_delete_snd]
    by_cases hc : isCacheKey k = true
    · have hk : classify k = .cache := by simpa [isCacheKey] using hc
      simp only [hc, if_true]
      unfold delete
      by_cases he : exists_ s k = true
      · simp [he, hk]
      · have he0 : exists_ s k = false := by simpa using he
        simp only [he0, Bool.not_false, if_true]
        have : aget s.cache k = none := by
          unfold exists_ at he0
          simpa [hk] using he0
        rw [aerase_of_aget_none _ _ this]
    · have hc0 : isCacheKey k = false := by simpa using hc
      simp only [hc0]
      by_cases hk : classify k = .embedding
      · rw [delete_emb s k hk]; simp [delApplied]
      · rw [delete_plain s k hk hc0]; simp

/-- one durable operation makes readable only the key it puts -/
theorem get_step_sub {s : Store} (hg : Good s) (op : Op) (k' : Bytes)
    (h : (get (step s op).2 k').isSome = true) : (∃ v, op = .put k' v) ∨ (get s k').isSome = true := by
  have hg' := good_step hg op
  by_cases hc : isCacheKey k' = true
  · have hk : classify k' = .cache := by simpa [isCacheKey] using hc
    rw [get_cache _ k' hk, step_cache] at h
    rw [get_cache s k' hk]
    cases op with
    | put k v =>
      simp only [] at h
      by_cases e : k = k'
      · subst e; exact .inl ⟨v, rfl⟩
      · right
        split at h
        · rwa [aget_aset_ne _ _ _ _ e] at h
        · exact h
    | delete k =>
      simp only [] at h
      right
      split at h
      · by_cases e : k = k'
        · subst e; rw [aget_aerase_eq] at h; cases h
        · rwa [aget_aerase_ne _ _ _ e] at h
      · exact h
  · have hc0 : isCacheKey k' = false := by simpa using hc
    rw [good_get hg' k' hc0, step_md] at h
    rw [good_get hg k' hc0]
    cases op with
    | put k v =>
      simp only [specApply] at h
      by_cases e : k = k'
      · subst e; exact .inl ⟨v, rfl⟩
      · right
        split at h
        · exact h
        · rwa [aget_aset_ne _ _ _ _ e] at h
    | delete k =>
      simp only [specApply] at h
      right
      split at h
      · exact h
      · by_cases e : k = k'
        · subst e; rw [aget_aerase_eq] at h; cases h
        · rwa [aget_aerase_ne _ _ _ e] at h

/-- **`exists` and `get` agree** on every store that satisfies the overlay invariant (an index entry
    of an `emb:` key has its metadata record) -/
theorem exists_eq_get_isSome {s : Store} (hg : Good s) (k : Bytes) : exists_ s k = (get s k).isSome := by
  by_cases hc : isCacheKey k = true
  · have hk : classify k = .cache := by simpa [isCacheKey] using hc
    rw [get_cache s k hk]
    unfold exists_; simp [hk]
  · have hc0 : isCacheKey k = false := by simpa using hc
    have hk' : classify k ≠ .cache := by simpa [isCacheKey] using hc0
    rw [good_get hg k hc0]
    unfold exists_
    cases hcl : classify k <;> simp only [] <;> try (first | rfl | exact absurd hcl hk')
    cases hi : idxGet s.vocab k with
    | none => simp
    | some id =>
      have := hg.idxmd k id hcl hi
      simp [this]

/-- the filter has been given every key the router answers -/
def Cover (b : BStore) : Prop := ∀ k, (get b.store k).isSome = true → k ∈ b.added

theorem bstore_step_store (b : BStore) (op : Op) : (b.step op).2.store = (step b.store op).2 := by
  cases op <;> rfl

theorem cover_step {b : BStore} (hg : Good b.store) (hcov : Cover b) (op : Op) : Cover (b.step op).2 := by
  intro k hk
  rw [bstore_step_store] at hk
  rcases get_step_sub hg op k hk with ⟨v, rfl⟩ | h
  · simp [BStore.step, BStore.putDurable]
  · have := hcov k h
    cases op with
    | put k0 v0 => simp [BStore.step, BStore.putDurable, this]
    | delete k0 => simpa [BStore.step, BStore.deleteDurable] using this

theorem bstore_runOps_store (b : BStore) (ops : List Op) : (b.runOps ops).store = (runOps b.store ops).2 := by
  induction ops generalizing b with
  | nil => rfl
  | cons op ops ih =>
    rw [BStore.runOps, ih, bstore_step_store, runOps_cons]

theorem cover_runOps {b : BStore} (hg : Good b.store) (hcov : Cover b) (ops : List Op) :
    Cover (b.runOps ops) := by
  induction ops generalizing b with
  | nil => exact hcov
  | cons op ops ih =>
    rw [BStore.runOps]
    exact ih (by rw [bstore_step_store]; exact good_step hg op) (cover_step hg hcov op)

/-- with a complete filter the filtered store answers as the router does, whatever the filter's
    false positives -/
theorem cover_get {b : BStore} (hcov : Cover b) (fp : Bytes → Bool) (k : Bytes) :
    b.get fp k = get b.store k := by
  unfold BStore.get BStore.mightContain
  by_cases hm : (b.added.contains k || fp k) = true
  · rw [if_pos hm]
  · rw [if_neg hm]
    cases hgk : get b.store k with
    | none => rfl
    | some v =>
      have := hcov k (by rw [hgk]; rfl)
      simp [this] at hm

theorem cover_recovered {r : Store} (hg : Good r) : Cover ⟨r, scanKeys r⟩ :=
  fun k hk => readable_scanned hg k hk

theorem cover_empty : Cover BStore.empty := by
  intro k hk
  have : get Store.empty k = none := by
    unfold get; cases classify k <;> simp [Store.empty, idxGet, idxGetAux, aget]
  simp [BStore.empty, this] at hk

end Neumann.Durable
