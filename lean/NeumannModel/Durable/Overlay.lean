import NeumannModel.Durable.Lemmas
/-
  C02 — the full observable image at EVERY crash point of the crash model `Reach`, including the
  two crash points inside `checkpoint` where the whole old log is replayed over the NEWER
  snapshot ("snapshot in place, marker absent or incomplete").

  There the replayed store and the store of the session that wrote the records differ on the
  metadata map (the snapshot already holds the final values), so the simulation `Sim` of
  `Lemmas.lean` does not apply, and the overlay invariant `Good` does NOT hold after every record
  (a `MetadataDelete` of a key that the writer did not have in the entity index at that time, but
  the snapshot does, leaves an index entry without metadata until a later record repairs it).
  The argument instead:
    * `WGood` — the part of `Good` that every record preserves unconditionally (`wgood_replay`);
    * the liveness of an `emb:` key after a replay is decided by the last `MetadataSet` /
      `EntityRemove` record of that key, whatever the store replay started from (`live_replay`);
    * the writer's final store has the liveness of the replay of the same records over the OLD
      snapshot (`sim_runOps`), and the metadata map after the replay over the new snapshot is the
      snapshot's own (`replayMeta_idem`): so every key that is live at the end has its metadata
      record, which together with `WGood` is `Good` again (`good_replay_over`).
-/
namespace Neumann.Durable
open Neumann.FramedLog

/-! #### the part of the overlay invariant that every record preserves -/

/-- `Good` without "a live index entry has its metadata record": a slab vector of a live `emb:` key
    is the `_embedding` of the key's metadata value, OR the key has no metadata value -/
structure WGood (s : Store) : Prop where
  nodup : LiveNodup s.vocab
  slab : ∀ (k : Bytes) (id : Nat) (vec : Bytes), classify k = .embedding → idxGet s.vocab k = some id →
    aget s.slab id = some vec → aget s.md k = none ∨ ∃ v, aget s.md k = some v ∧ v.emb = some vec

theorem Good.wgood {s : Store} (hg : Good s) : WGood s :=
  ⟨hg.nodup, fun k id vec hk hi hs => .inr (hg.slab k id vec hk hi hs)⟩

theorem good_of_wgood {s : Store} (hw : WGood s) (hi : IdxMd s) : Good s := by
  refine ⟨hw.nodup, ?_, hi⟩
  intro k id vec hk hix hs
  rcases hw.slab k id vec hk hix hs with h | h
  · have := hi k id hk hix
    rw [h] at this
    cases this
  · exact h

theorem wgood_putEmb {s : Store} (hw : WGood s) (k : Bytes) (v : Val) : WGood (putEmb s k v) := by
  refine ⟨liveNodup_getOrCreate hw.nodup k, ?_⟩
  intro k1 id1 vec1 hk1 hi hs
  simp only [putEmb] at hi hs ⊢
  by_cases e : k = k1
  · subst e
    rw [idxGetOrCreate_get] at hi
    injection hi with hi
    subst hi
    exact .inr ⟨v, aget_aset_eq _ _ _, putSlab_get_self _ _ _ _ hs⟩
  · have hne : (idxGetOrCreate s.vocab k).1 ≠ id1 := by
      intro h
      rw [← h] at hi
      exact e (idxGet_inj (idxGetOrCreate_get s.vocab k) hi)
    rw [idxGetOrCreate_get_ne _ _ _ e] at hi
    rw [putSlab_get_ne _ _ _ _ hne] at hs
    rw [aget_aset_ne _ _ _ _ e]
    exact hw.slab k1 id1 vec1 hk1 hi hs

/-- **every record the writer can log preserves `WGood`** (no side condition on the store) -/
theorem wgood_applyEntry {s : Store} (hw : WGood s) (e : Entry) (he : EntryOk e) :
    WGood (applyEntry s e) := by
  cases e with
  | metaSet k v =>
    rw [applyEntry_metaSet]
    split
    · exact wgood_putEmb hw k v
    · rename_i hk
      refine ⟨hw.nodup, ?_⟩
      intro k1 id1 vec1 hk1 hi hs
      have e : k ≠ k1 := by intro h; subst h; exact hk hk1
      simp only [] at hi hs ⊢
      rw [aget_aset_ne _ _ _ _ e]
      exact hw.slab k1 id1 vec1 hk1 hi hs
  | metaDel k =>
    refine ⟨hw.nodup, ?_⟩
    intro k1 id1 vec1 hk1 hi hs
    simp only [applyEntry] at hi hs ⊢
    by_cases e : k = k1
    · subst e; exact .inl (aget_aerase_eq _ _)
    · rw [aget_aerase_ne _ _ _ e]
      exact hw.slab k1 id1 vec1 hk1 hi hs
  | embSet id vec => exact hw
  | embDel id =>
    refine ⟨hw.nodup, ?_⟩
    intro k1 id1 vec1 hk1 hi hs
    simp only [applyEntry] at hi hs ⊢
    by_cases e : id = id1
    · subst e; rw [aget_aerase_eq] at hs; cases hs
    · rw [aget_aerase_ne _ _ _ e] at hs
      exact hw.slab k1 id1 vec1 hk1 hi hs
  | entCreate k id => exact absurd he (by simp [EntryOk])
  | entRemove k =>
    refine ⟨liveNodup_remove hw.nodup k, ?_⟩
    intro k1 id1 vec1 hk1 hi hs
    simp only [applyEntry] at hi hs ⊢
    by_cases e : k = k1
    · subst e; rw [idxRemove_get_self _ _ hw.nodup] at hi; cases hi
    · rw [idxRemove_get_ne _ _ _ e] at hi
      exact hw.slab k1 id1 vec1 hk1 hi hs
  | txBegin t => exact hw
  | txCommit t => exact hw
  | txAbort t => exact hw
  | checkpoint id => exact hw

theorem wgood_replay {s : Store} (hw : WGood s) (es : List Entry) (he : ∀ e ∈ es, EntryOk e) :
    WGood (replay s es) := by
  induction es generalizing s with
  | nil => exact hw
  | cons e es ih =>
    rw [replay_cons]
    exact ih (wgood_applyEntry hw e (he e (by simp))) (fun x hx => he x (by simp [hx]))

/-! #### which `emb:` keys are in the entity index after a replay: the last record decides -/

/-- what a record says about "is `key` in the entity index" -/
def liveOf (key : Bytes) : Entry → Option Bool
  | .metaSet k _ => if k = key ∧ classify k = .embedding then some true else none
  | .entRemove k => if k = key then some false else none
  | _ => none

def lastLive : List Entry → Bytes → Option Bool
  | [], _ => none
  | e :: es, key =>
    match lastLive es key with
    | some r => some r
    | none => liveOf key e

theorem nodup_applyEntry {s : Store} (hn : LiveNodup s.vocab) (e : Entry) (he : EntryOk e) :
    LiveNodup (applyEntry s e).vocab := by
  cases e with
  | metaSet k v =>
    rw [applyEntry_metaSet]
    split
    · exact liveNodup_getOrCreate hn k
    · exact hn
  | entRemove k => exact liveNodup_remove hn k
  | entCreate k id => exact absurd he (by simp [EntryOk])
  | _ => exact hn

theorem live_applyEntry {s : Store} (hn : LiveNodup s.vocab) (e : Entry) (he : EntryOk e) (key : Bytes) :
    (idxGet (applyEntry s e).vocab key).isSome
      = match liveOf key e with | some b => b | none => (idxGet s.vocab key).isSome := by
  cases e with
  | metaSet k v =>
    rw [applyEntry_metaSet]
    by_cases hk : classify k = .embedding
    · rw [if_pos hk, putEmb_live]
      by_cases e : k = key
      · subst e; simp [liveOf, hk]
      · simp [liveOf, e]
    · rw [if_neg hk]
      simp [liveOf, hk]
  | entRemove k =>
    simp only [applyEntry, liveOf]
    by_cases e : k = key
    · subst e; rw [idxRemove_get_self _ _ hn]; simp
    · rw [idxRemove_get_ne _ _ _ e]; simp [e]
  | entCreate k id => exact absurd he (by simp [EntryOk])
  | metaDel k => rfl
  | embSet id vec => rfl
  | embDel id => rfl
  | txBegin t => rfl
  | txCommit t => rfl
  | txAbort t => rfl
  | checkpoint id => rfl

/-- **the liveness of a key after a replay** is what the last `MetadataSet` (of an `emb:` key) /
    `EntityRemove` record of that key says; the store replay started from matters only when the
    log has no such record -/
theorem live_replay {s : Store} (hn : LiveNodup s.vocab) (es : List Entry) (he : ∀ e ∈ es, EntryOk e)
    (key : Bytes) :
    (idxGet (replay s es).vocab key).isSome
      = match lastLive es key with | some b => b | none => (idxGet s.vocab key).isSome := by
  induction es generalizing s with
  | nil => rfl
  | cons e es ih =>
    have he0 := he e (by simp)
    rw [replay_cons, ih (nodup_applyEntry hn e he0) (fun x hx => he x (by simp [hx])), lastLive]
    cases h : lastLive es key with
    | some r => rfl
    | none => simp only []; exact live_applyEntry hn e he0 key

/-! #### the writer's store and the replay of its records stay similar over whole operation lists -/

theorem sim_runOps {P L : Store} (hP : Good P) (hL : Good L) (hs : Sim P L) (ops : List Op) :
    Good (replay P (runOps L ops).1) ∧ Sim (replay P (runOps L ops).1) (runOps L ops).2 := by
  induction ops generalizing P L with
  | nil => simpa [runOps_nil, replay_nil] using ⟨hP, hs⟩
  | cons op ops ih =>
    obtain ⟨hpre, hsim⟩ := sim_step hP hL hs op
    have hfull := hpre (step L op).1.length
    rw [List.take_length] at hfull
    rw [runOps_cons, replay_append]
    exact ih hfull (good_step hL op) hsim

/-! #### the old log replayed over the newer snapshot -/

/-- **Replaying a log `E` over a store `L` that already holds its outcome.**  `L` satisfies the
    overlay invariant; its set of indexed `emb:` keys is the one a replay of `E` over some store `A`
    produces (`A` = the old snapshot: `L` is the writer's store at the end of the session that
    logged `E`); and replaying `E` over `L` does not change the metadata map.  Then the replay of
    `E` over `L` satisfies the overlay invariant again — although not after every record. -/
theorem good_replay_over {L A : Store} (E : List Entry) (hok : ∀ e ∈ E, EntryOk e) (hL : Good L)
    (hA : LiveNodup A.vocab)
    (hlive : ∀ k, classify k = .embedding →
      (idxGet (replay A E).vocab k).isSome = (idxGet L.vocab k).isSome)
    (hmd : MetaEq (replay L E).md L.md) : Good (replay L E) := by
  apply good_of_wgood (wgood_replay hL.wgood E hok)
  intro k id hk hi
  have h1 := live_replay hL.nodup E hok k
  have h2 := live_replay hA E hok k
  rw [hi] at h1
  have hLlive : (idxGet L.vocab k).isSome = true := by
    cases hl : lastLive E k with
    | some b =>
      rw [hl] at h1 h2
      simp only [] at h1 h2
      rw [← hlive k hk, h2, ← h1]; rfl
    | none =>
      rw [hl] at h1
      simp only [] at h1
      rw [← h1]; rfl
  obtain ⟨id', hid'⟩ := Option.isSome_iff_exists.mp hLlive
  rw [hmd k]
  exact hL.idxmd k id' hk hid'

/-! #### every record of a reachable log is one the writer can log -/

theorem mem_ckStep {acc : List Entry} {x e : Entry} (h : e ∈ ckStep acc x) : e ∈ acc ∨ e = x := by
  cases x <;> simp_all [ckStep]

theorem mem_foldl_ckStep {acc X : List Entry} {e : Entry} (h : e ∈ X.foldl ckStep acc) : e ∈ acc ∨ e ∈ X := by
  induction X generalizing acc with
  | nil => exact .inl h
  | cons x X ih =>
    rw [List.foldl_cons] at h
    rcases ih h with h' | h'
    · rcases mem_ckStep h' with a | a
      · exact .inl a
      · exact .inr (by simp [a])
    · exact .inr (by simp [h'])

theorem mem_afterLastCkpt {S : List Entry} {e : Entry} (h : e ∈ afterLastCkpt S) : e ∈ S := by
  rcases mem_foldl_ckStep h with h' | h'
  · simp at h'
  · exact h'

section logok
variable {crc : Bytes → Nat} {enc : Entry → Bytes} {dec : Bytes → Option Entry}

/-- every complete record of the (tail-repaired) log file is one the writer can log -/
def LogOk (crc : Bytes → Nat) (dec : Bytes → Option Entry) (f : Bytes) : Prop :=
  ∀ e ∈ (entriesOf crc dec (openRepair f)).1, EntryOk e

theorem entriesOf_logBytes (hc : CodecOK crc enc dec) (S : List Entry) (hfit : Fits enc S) :
    (entriesOf crc dec (logBytes crc enc S)).1 = S := by
  have h := (entriesOf_take hc S (logBytes crc enc S).length hfit).1
  have hw : wholeWithin crc (S.map enc) (logBytes crc enc S).length = S.length := by
    have := wholeWithin_full (crc := crc) (S.map enc) (logBytes crc enc S).length (Nat.le_refl _)
    simpa using this
  rw [List.take_length, hw, List.take_length] at h
  exact h

theorem logOk_take (hc : CodecOK crc enc dec) (R : List Entry) (n : Nat) (hfit : Fits enc R)
    (hok : ∀ e ∈ R, EntryOk e) : LogOk crc dec ((logBytes crc enc R).take n) := by
  intro e he
  rw [openRepair_logBytes_take R n hfit, entriesOf_logBytes hc _ (hfit.take _)] at he
  exact hok e (List.mem_of_mem_take he)

theorem logOk_open (hc : CodecOK crc enc dec) {f : Bytes} (h : LogOk crc dec f) {S : List Entry}
    (hopen : openRepair f = logBytes crc enc S) (hfit : Fits enc S) : ∀ e ∈ S, EntryOk e := by
  intro e he
  apply h e
  rw [hopen, entriesOf_logBytes hc S hfit]
  exact he

/-- what the induction over the crash model carries -/
structure ReachFacts (crc : Bytes → Nat) (dec : Bytes → Option Entry) (snap : Option Store) (f : Bytes) :
    Prop where
  snapGood : Good (snap.getD Store.empty)
  snapClassed : Classed (snap.getD Store.empty)
  logOk : LogOk crc dec f
  good : ∀ r, recover crc dec snap f = .ok r → Good r
  classed : ∀ r, recover crc dec snap f = .ok r → Classed r

/-- recovery at the crash points inside / after the checkpoint marker, new snapshot `L` in place:
    either the snapshot itself (marker complete) or the whole old log replayed over it -/
theorem recover_ckptCrash (hc : CodecOK crc enc dec) (L : Store) (S recs : List Entry)
    (hS : Fits enc S) (hR : Fits enc recs) (nS : NoTx S)
    (nR : ∀ e ∈ recs, isTx e = false ∧ isCkpt e = false) (id m : Nat)
    (hid : (enc (.checkpoint id)).length < U32) :
    recover crc dec (some L)
        (logBytes crc enc S ++ logBytes crc enc recs ++ (encodeRec crc (enc (.checkpoint id))).take m) = .ok L ∨
    recover crc dec (some L)
        (logBytes crc enc S ++ logBytes crc enc recs ++ (encodeRec crc (enc (.checkpoint id))).take m)
      = .ok (replay L (afterLastCkpt S ++ recs)) := by
  have hf : logBytes crc enc S ++ logBytes crc enc recs ++ (encodeRec crc (enc (.checkpoint id))).take m
      = (logBytes crc enc ((S ++ recs) ++ [.checkpoint id])).take ((logBytes crc enc (S ++ recs)).length + m) := by
    rw [logBytes_append _ _ (S ++ recs), take_length_add_append, logBytes_singleton, logBytes_append]
  have hfit : Fits enc ((S ++ recs) ++ [.checkpoint id]) :=
    (hS.append hR).append (by intro e he; simp at he; subst he; exact hid)
  have hno : NoTx ((S ++ recs) ++ [.checkpoint id]) :=
    (nS.append (fun e he => (nR e he).1)).append (by intro e he; simp at he; subst he; rfl)
  rw [hf, recover_take_plain hc (some L) _ _ hfit hno]
  obtain ⟨i, hi, htake, -⟩ := take_split (crc := crc) (enc := enc) (S ++ recs) [.checkpoint id]
    ((logBytes crc enc (S ++ recs)).length + m) (by omega)
  rw [htake]
  simp only [List.length_singleton] at hi
  have hi' : i = 0 ∨ i = 1 := by omega
  rcases hi' with rfl | rfl
  · right
    rw [List.take_zero, List.append_nil, afterLastCkpt_append_plain _ _ (fun e he => (nR e he).2)]
    rfl
  · left
    rw [List.take_of_length_le (by simp), afterLastCkpt_append_ckpt]
    rfl

theorem reach_facts (hc : CodecOK crc enc dec) {snap : Option Store} {f : Bytes} {tr : Trace}
    (h : Reach crc enc dec snap f tr) : ReachFacts crc dec snap f := by
  induction h with
  | init =>
    refine ⟨good_empty, classed_empty, ?_, ?_, ?_⟩
    · intro e he
      simp [openRepair_nil, entriesOf, parse_nil] at he
    · intro r hr
      rw [recover_nil] at hr
      injection hr with hr
      subst hr
      exact good_empty
    · intro r hr
      rw [recover_nil] at hr
      injection hr with hr
      subst hr
      exact classed_empty
  | @round snap' f' tr' mem0 ops acked n hprev hr hfit hn _ _ ih =>
    obtain ⟨H, -, hinv⟩ := reach_inv hc hprev
    obtain ⟨S, hopen, hSfit, hSno, -, -⟩ := inv_open hc hinv hr
    have hSok := logOk_open hc ih.logOk hopen hSfit
    have hplain := runOps_plain mem0 ops
    refine ⟨ih.snapGood, ih.snapClassed, ?_, ?_, ?_⟩
    · rw [hopen, ← logBytes_append]
      apply logOk_take hc _ n (hSfit.append hfit)
      intro e he
      rcases List.mem_append.mp he with h | h
      · exact hSok e h
      · exact runOps_entryOk mem0 ops e h
    · intro r hr'
      obtain ⟨i, hi⟩ := recover_round hc hinv mem0 hr ops n hfit hn
      rw [hi] at hr'
      injection hr' with hr'
      subst hr'
      have hg := ih.good mem0 hr
      exact good_replay_take hg hg (sim_refl mem0) ops i
    · intro r hr'
      obtain ⟨i, hi⟩ := recover_round hc hinv mem0 hr ops n hfit hn
      rw [hi] at hr'
      injection hr' with hr'
      subst hr'
      exact classed_replay (ih.classed mem0 hr) _
        (fun e he => runOps_entryOk mem0 ops e (List.mem_of_mem_take he))
  | @ckptCrash snap' f' tr' mem0 ops id m hprev hr hfit hid ih =>
    obtain ⟨H, -, hinv⟩ := reach_inv hc hprev
    obtain ⟨S, hopen, hSfit, hSno, hmem, -⟩ := inv_open hc hinv hr
    have hSok := logOk_open hc ih.logOk hopen hSfit
    have hplain := runOps_plain mem0 ops
    have hg0 := ih.good mem0 hr
    have hc0 := ih.classed mem0 hr
    have hgL : Good (runOps mem0 ops).2 := good_runOps hg0 ops
    have hcL : Classed (runOps mem0 ops).2 := classed_runOps hc0 ops
    have hEok : ∀ e ∈ afterLastCkpt S ++ (runOps mem0 ops).1, EntryOk e := by
      intro e he
      rcases List.mem_append.mp he with h | h
      · exact hSok e (mem_afterLastCkpt h)
      · exact runOps_entryOk mem0 ops e h
    have hrec := recover_ckptCrash hc (runOps mem0 ops).2 S (runOps mem0 ops).1 hSfit hfit hSno hplain id m hid
    rw [← hopen] at hrec
    refine ⟨hgL, hcL, ?_, ?_, ?_⟩
    · have hf : openRepair f' ++ logBytes crc enc (runOps mem0 ops).1
            ++ (encodeRec crc (enc (.checkpoint id))).take m
          = (logBytes crc enc ((S ++ (runOps mem0 ops).1) ++ [.checkpoint id])).take
              ((logBytes crc enc (S ++ (runOps mem0 ops).1)).length + m) := by
        rw [hopen, logBytes_append _ _ (S ++ (runOps mem0 ops).1), take_length_add_append,
          logBytes_singleton, logBytes_append]
      rw [hf]
      apply logOk_take hc _ _
        ((hSfit.append hfit).append (by intro e he; simp at he; subst he; exact hid))
      intro e he
      rcases List.mem_append.mp he with h | h
      · rcases List.mem_append.mp h with h | h
        · exact hSok e h
        · exact runOps_entryOk mem0 ops e h
      · simp at h; subst h; trivial
    · intro r hr'
      rcases hrec with h | h <;> rw [h] at hr' <;> injection hr' with hr' <;> subst hr'
      · exact hgL
      · -- the whole old log replayed over the newer snapshot
        apply good_replay_over (A := snap'.getD Store.empty) _ hEok hgL ih.snapGood.nodup
        · intro k hk
          rw [replay_append, ← hmem]
          exact (sim_runOps hg0 hg0 (sim_refl mem0) ops).2.live k hk
        · rw [replay_md]
          have hlive : (runOps mem0 ops).2.md
              = replayMeta (snap'.getD Store.empty).md (afterLastCkpt S ++ (runOps mem0 ops).1) := by
            rw [replayMeta_append, ← replay_md, ← hmem, runOps_replay, runOps_md]
          rw [hlive]
          exact replayMeta_idem _ _
    · intro r hr'
      rcases hrec with h | h <;> rw [h] at hr' <;> injection hr' with hr' <;> subst hr'
      · exact hcL
      · exact classed_replay hcL _ hEok
  | @ckptDone snap' f' tr' mem0 ops hprev hr hfit ih =>
    have hgL : Good (runOps mem0 ops).2 := good_runOps (ih.good mem0 hr) ops
    have hcL : Classed (runOps mem0 ops).2 := classed_runOps (ih.classed mem0 hr) ops
    refine ⟨hgL, hcL, ?_, ?_, ?_⟩
    · intro e he
      simp [openRepair_nil, entriesOf, parse_nil] at he
    · intro r hr'
      rw [recover_nil] at hr'
      injection hr' with hr'
      subst hr'
      exact hgL
    · intro r hr'
      rw [recover_nil] at hr'
      injection hr' with hr'
      subst hr'
      exact hcL

/-- **every store recovered from a disk state of the crash model satisfies the overlay invariant**
    (all crash points, also "snapshot in place, marker absent or incomplete") -/
theorem reach_good (hc : CodecOK crc enc dec) {snap : Option Store} {f : Bytes} {tr : Trace}
    (h : Reach crc enc dec snap f tr) : ∀ r, recover crc dec snap f = .ok r → Good r :=
  (reach_facts hc h).good

theorem reach_classed (hc : CodecOK crc enc dec) {snap : Option Store} {f : Bytes} {tr : Trace}
    (h : Reach crc enc dec snap f tr) : ∀ r, recover crc dec snap f = .ok r → Classed r :=
  (reach_facts hc h).classed

end logok

end Neumann.Durable
