import NeumannModel.Durable.Session
/-
  C02 — sessions in which appends can FAIL (`SizeLimitExceeded` under `auto_rotate = false`, I/O
  errors): `put_durable` / `delete_durable` append their records one by one and return the first
  error before the in-memory apply, so the log can hold an orphan strict prefix of an
  operation's records in the middle, followed by the records of later operations, while the
  writer's memory has NOT applied it.  Helper lemmas for
    * `failed_writes_are_invisible` (Props): whatever the failure pattern and the crash cut,
      recovery yields the full image of a prefix of the operations that returned `Ok`;
    * `size_limited_session_is_a_plan`: the `auto_rotate = false` writer is an instance.
  Since repo f5ce42e5 a failed `put_durable` releases the entity-index entry it allocated
  (`failMem`: at most a tombstoned slot stays), so the writer's store stays `Good` and
  `get` / `exists` / `scan` cannot tell that the operation was issued (`failMem_get`,
  `failMem_exists`, `failMem_scan`, `good_runOpsF`).  The simulation between the replayed store
  and the writer's is still stated one-sided (`SimLe`: the replayed store indexes a SUBSET of
  the `emb:` keys the writer indexes), which is all recovery needs.
-/
namespace Neumann.Durable
open Neumann.FramedLog

/-- replayed store `P`, writer's store `L`: same metadata map; every `emb:` key indexed in `P` is
    indexed in `L` -/
structure SimLe (P L : Store) : Prop where
  md : P.md = L.md
  live : ∀ k, classify k = .embedding → (idxGet P.vocab k).isSome = true → (idxGet L.vocab k).isSome = true

theorem simle_refl (s : Store) : SimLe s s := ⟨rfl, fun _ _ h => h⟩

theorem getOrCreate_live (v : List (Bytes × Bool)) (k k1 : Bytes) :
    (idxGet (idxGetOrCreate v k).2 k1).isSome = (decide (k = k1) || (idxGet v k1).isSome) := by
  by_cases e : k = k1
  · subst e; rw [idxGetOrCreate_get]; simp
  · rw [idxGetOrCreate_get_ne _ _ _ e]; simp [e]

theorem nodup_step {s : Store} (hn : LiveNodup s.vocab) (op : Op) : LiveNodup (step s op).2.vocab := by
  cases op with
  | put k v =>
    simp only [step]
    by_cases hc : isCacheKey k = true
    · have hk : classify k = .cache := by simpa [isCacheKey] using hc
      have : (putDurable s k v).2.vocab = s.vocab := by simp [putDurable, hc, put, hk]
      rw [this]; exact hn
    · have hc0 : isCacheKey k = false := by simpa using hc
      by_cases hk : classify k = .embedding
      · rw [putDurable_snd_emb s k v hk]; exact liveNodup_getOrCreate hn k
      · rw [putDurable_snd_plain s k v hk hc0]; exact hn
  | delete k =>
    rw [step_delete_snd]
    by_cases hc : isCacheKey k = true
    · have hk : classify k = .cache := by simpa [isCacheKey] using hc
      have : (delete s k).1.vocab = s.vocab := by unfold delete; split <;> simp [hk]
      rw [this]; exact hn
    · have hc0 : isCacheKey k = false := by simpa using hc
      by_cases hk : classify k = .embedding
      · rw [delete_emb s k hk]; exact liveNodup_remove hn k
      · rw [delete_plain s k hk hc0]; exact hn

/-! #### memory after a failed operation (`failMem`, the code since repo f5ce42e5) -/

theorem idxGet_append_dead (v : List (Bytes × Bool)) (k k1 : Bytes) :
    idxGet (v ++ [(k, false)]) k1 = idxGet v k1 := by
  unfold idxGet
  rw [idxGetAux_append]
  cases h : idxGetAux v k1 0 with
  | some i => rfl
  | none => simp [idxGetAux]

/-- `get_or_create` of a key that is not indexed, then `remove`: one tombstoned slot -/
theorem release_created (v : List (Bytes × Bool)) (k : Bytes) (h : idxGet v k = none) :
    idxRemove (idxGetOrCreate v k).2 k = v ++ [(k, false)] := by
  have h1 : (idxGetOrCreate v k).2 = v ++ [(k, true)] := by unfold idxGetOrCreate; rw [h]
  rw [h1]
  unfold idxRemove
  rw [idxGet_append_self v k h]
  simp

/-- a failed operation leaves every slab alone and appends at most one DEAD slot to the vocabulary -/
theorem failMem_shape (s : Store) (op : Op) :
    (failMem s op).md = s.md ∧ (failMem s op).slab = s.slab ∧ (failMem s op).cache = s.cache ∧
    ((failMem s op).vocab = s.vocab ∨ ∃ k, (failMem s op).vocab = s.vocab ++ [(k, false)]) := by
  cases op with
  | put k v =>
    simp only [failMem]
    split
    · exact ⟨rfl, rfl, rfl, .inl rfl⟩
    · split
      · cases h : idxGet s.vocab k with
        | none => exact ⟨rfl, rfl, rfl, .inr ⟨k, release_created s.vocab k h⟩⟩
        | some i => exact ⟨rfl, rfl, rfl, .inl rfl⟩
      · exact ⟨rfl, rfl, rfl, .inl rfl⟩
  | delete k => exact ⟨rfl, rfl, rfl, .inl rfl⟩

theorem failMem_md (s : Store) (op : Op) : (failMem s op).md = s.md := (failMem_shape s op).1

/-- no key is indexed after a failed operation that was not indexed before, and none is lost -/
theorem failMem_idxGet (s : Store) (op : Op) (k1 : Bytes) :
    idxGet (failMem s op).vocab k1 = idxGet s.vocab k1 := by
  rcases (failMem_shape s op).2.2.2 with h | ⟨k, h⟩
  · rw [h]
  · rw [h, idxGet_append_dead]

theorem failMem_live_filter (s : Store) (op : Op) :
    (failMem s op).vocab.filter (·.2) = s.vocab.filter (·.2) := by
  rcases (failMem_shape s op).2.2.2 with h | ⟨k, h⟩
  · rw [h]
  · rw [h]; simp

theorem liveNodup_of_idxGet_filter {v w : List (Bytes × Bool)} (hn : LiveNodup v)
    (h : w = v ∨ ∃ k, w = v ++ [(k, false)]) : LiveNodup w := by
  rcases h with rfl | ⟨k, rfl⟩
  · exact hn
  · intro i j k' hi hj
    have key : ∀ (i : Nat), (v ++ [(k, false)])[i]? = some (k', true) → v[i]? = some (k', true) := by
      intro i hi
      by_cases hlt : i < v.length
      · rwa [List.getElem?_append_left hlt] at hi
      · rw [List.getElem?_append_right (by omega)] at hi
        cases hm : i - v.length with
        | zero => rw [hm] at hi; simp at hi
        | succ m => rw [hm] at hi; simp at hi
    exact hn i j k' (key i hi) (key j hj)

theorem nodup_failMem {s : Store} (hn : LiveNodup s.vocab) (op : Op) : LiveNodup (failMem s op).vocab :=
  liveNodup_of_idxGet_filter hn (failMem_shape s op).2.2.2

theorem failMem_live (s : Store) (op : Op) (k1 : Bytes) (h : (idxGet s.vocab k1).isSome = true) :
    (idxGet (failMem s op).vocab k1).isSome = true := by
  rw [failMem_idxGet]; exact h

/-- **the overlay invariant survives a failed operation** (false of `failMemOld`: the leaked
    index entry has no metadata record) -/
theorem good_failMem {s : Store} (hg : Good s) (op : Op) : Good (failMem s op) := by
  obtain ⟨h1, h2, _, _⟩ := failMem_shape s op
  refine ⟨nodup_failMem hg.nodup op, ?_, ?_⟩
  · intro k id vec hk hi hs
    rw [failMem_idxGet] at hi; rw [h2] at hs; rw [h1]
    exact hg.slab k id vec hk hi hs
  · intro k id hk hi
    rw [failMem_idxGet] at hi; rw [h1]
    exact hg.idxmd k id hk hi

/-- `get`, `exists` and `scan` cannot tell that a failed operation was ever issued -/
theorem failMem_get (s : Store) (op : Op) (k : Bytes) : get (failMem s op) k = get s k := by
  obtain ⟨h1, h2, h3, _⟩ := failMem_shape s op
  unfold get
  rw [failMem_idxGet, h1, h2, h3]

theorem failMem_exists (s : Store) (op : Op) (k : Bytes) : exists_ (failMem s op) k = exists_ s k := by
  obtain ⟨h1, _, h3, _⟩ := failMem_shape s op
  unfold exists_
  rw [failMem_idxGet, h1, h3]

theorem failMem_scan (s : Store) (op : Op) : scanKeys (failMem s op) = scanKeys s := by
  obtain ⟨h1, _, h3, _⟩ := failMem_shape s op
  unfold scanKeys
  rw [failMem_live_filter, h1, h3]

theorem classed_failMem {s : Store} (hc : Classed s) (op : Op) : Classed (failMem s op) := by
  obtain ⟨h1, _, h3, _⟩ := failMem_shape s op
  refine ⟨by rw [h1]; exact hc.md, by rw [h3]; exact hc.cache, ?_⟩
  cases op with
  | put k v =>
    simp only [failMem]
    split
    · exact hc.vocab
    · split
      · rename_i hk
        cases h : idxGet s.vocab k with
        | none =>
          simp only []
          rw [release_created s.vocab k h]
          intro p hp
          rcases List.mem_append.mp hp with hp | hp
          · exact hc.vocab p hp
          · simp only [List.mem_singleton] at hp; subst hp; exact hk.1
        | some i => exact hc.vocab
      · exact hc.vocab
  | delete k => exact hc.vocab

/-- **one operation whose records are all appended**, one-sided simulation: the overlay invariant
    holds after EVERY record, the metadata maps agree at the end, and the replayed store still
    indexes a subset of the writer's `emb:` keys -/
theorem simle_step {P L : Store} (hP : Good P) (hL : LiveNodup L.vocab) (hs : SimLe P L) (op : Op) :
    (∀ j, Good (replay P ((step L op).1.take j))) ∧ SimLe (replay P (step L op).1) (step L op).2 := by
  have hmd : (replay P (step L op).1).md = (step L op).2.md := by
    rw [replay_md, hs.md, step_replay, step_md]
  cases op with
  | put k v =>
    by_cases hc : isCacheKey k = true
    · have hk : classify k = .cache := by simpa [isCacheKey] using hc
      have h1 : (step L (.put k v)).1 = [] := by simp [step, putDurable, hc]
      have h2 : (step L (.put k v)).2.vocab = L.vocab := by simp [step, putDurable, hc, put, hk]
      rw [h1] at hmd ⊢
      refine ⟨fun j => by simpa [replay_nil] using hP, hmd, ?_⟩
      intro k1 hk1 hl; rw [h2]; exact hs.live k1 hk1 hl
    · have hc0 : isCacheKey k = false := by simpa using hc
      have hrec : ∀ j, replay P ((step L (.put k v)).1.take j) = P ∨
          replay P ((step L (.put k v)).1.take j) = applyEntry P (.metaSet k v) := by
        intro j
        simp only [step, putDurable_fst, hc0, Bool.false_eq_true, if_false]
        have hone : ∀ j, replay P ([Entry.metaSet k v].take j) = P ∨
            replay P ([Entry.metaSet k v].take j) = applyEntry P (.metaSet k v) := by
          intro j
          match j with
          | 0 => left; rfl
          | j + 1 => right; simp [replay]
        split
        · cases hv : v.emb with
          | none => exact hone j
          | some vec =>
            simp only []
            match j with
            | 0 => left; rfl
            | 1 => left; simp [replay, applyEntry]
            | j + 2 => right; simp [replay, applyEntry]
        · exact hone j
      have hfull : replay P (step L (.put k v)).1 = applyEntry P (.metaSet k v) := by
        simp only [step, putDurable_fst, hc0, Bool.false_eq_true, if_false]
        split
        · cases hv : v.emb <;> simp [replay, applyEntry, hv]
        · simp [replay]
      refine ⟨?_, hmd, ?_⟩
      · intro j
        rcases hrec j with h | h <;> rw [h]
        · exact hP
        · exact good_metaSet hP k v
      · intro k1 hk1
        rw [hfull, applyEntry_metaSet]
        simp only [step]
        by_cases hk : classify k = .embedding
        · rw [putDurable_snd_emb L k v hk, if_pos hk, putEmb_live, putEmb_live]
          intro hl
          by_cases e : k = k1
          · simp [e]
          · simp only [e, decide_false, Bool.false_or] at hl ⊢
            exact hs.live k1 hk1 hl
        · rw [putDurable_snd_plain L k v hk hc0, if_neg hk]
          exact hs.live k1 hk1
  | delete k =>
    have h1 : (step L (.delete k)).1 = (deleteDurable L k).1 := rfl
    rw [step_delete_snd] at hmd ⊢
    rw [h1] at hmd ⊢
    by_cases hc : isCacheKey k = true
    · have hk : classify k = .cache := by simpa [isCacheKey] using hc
      have h1 : (deleteDurable L k).1 = [] := by simp [deleteDurable, hc]
      have h2 : (delete L k).1.vocab = L.vocab := by unfold delete; split <;> simp [hk]
      rw [h1] at hmd ⊢
      refine ⟨fun j => by simpa [replay_nil] using hP, hmd, ?_⟩
      intro k1 hk1 hl; rw [h2]; exact hs.live k1 hk1 hl
    · have hc0 : isCacheKey k = false := by simpa using hc
      rw [deleteDurable_fst, hc0] at hmd ⊢
      simp only [Bool.false_eq_true, if_false] at hmd ⊢
      cases hix : idxGet L.vocab k with
      | none =>
        simp only [hix, List.nil_append] at hmd ⊢
        have hnone : classify k = .embedding → idxGet P.vocab k = none := by
          intro hk
          cases hp : idxGet P.vocab k with
          | none => rfl
          | some i =>
            have := hs.live k hk (by rw [hp]; rfl)
            rw [hix] at this
            cases this
        refine ⟨?_, hmd, ?_⟩
        · intro j
          match j with
          | 0 => exact hP
          | j + 1 => simpa [replay] using good_metaDel hP k hnone
        · intro k1 hk1 hl
          have hl' : (idxGet P.vocab k1).isSome = true := hl
          have := hs.live k1 hk1 hl'
          by_cases hk : classify k = .embedding
          · rw [delete_emb L k hk]
            simp only [delApplied, idxRemove, hix]
            exact this
          · rw [delete_plain L k hk hc0]
            exact this
      | some id =>
        simp only [hix, List.cons_append, List.nil_append] at hmd ⊢
        have g1 := good_embDel hP id
        have g2 := good_entRemove g1 k
        have g3 : Good (applyEntry (applyEntry (applyEntry P (.embDel id)) (.entRemove k)) (.metaDel k)) := by
          apply good_metaDel g2 k
          intro _
          exact idxRemove_get_self _ _ hP.nodup
        refine ⟨?_, hmd, ?_⟩
        · intro j
          match j with
          | 0 => exact hP
          | 1 => exact g1
          | 2 => exact g2
          | j + 3 => simpa [replay] using g3
        · intro k1 hk1 hl
          have hl' : (idxGet (idxRemove P.vocab k) k1).isSome = true := hl
          by_cases e : k = k1
          · subst e
            rw [idxRemove_get_self _ _ hP.nodup] at hl'
            cases hl'
          · rw [idxRemove_get_ne _ _ _ e] at hl'
            have := hs.live k1 hk1 hl'
            by_cases hk : classify k = .embedding
            · rw [delete_emb L k hk]
              simp only [delApplied]
              rw [idxRemove_get_ne _ _ _ e]
              exact this
            · rw [delete_plain L k hk hc0]
              exact this

/-- a strict prefix of the records of one operation, replayed: the replayed store indexes no more
    keys than before -/
theorem strict_prefix_live (P L : Store) (op : Op) (t : Nat) (ht : t < (step L op).1.length) (k1 : Bytes)
    (hn : LiveNodup P.vocab)
    (h : (idxGet (replay P ((step L op).1.take t)).vocab k1).isSome = true) :
    (idxGet P.vocab k1).isSome = true := by
  cases op with
  | put k v =>
    simp only [step, putDurable_fst] at ht h
    by_cases hc : isCacheKey k = true
    · simp [hc] at ht
    · have hc0 : isCacheKey k = false := by simpa using hc
      simp only [hc0, Bool.false_eq_true, if_false] at ht h
      by_cases hk : classify k = .embedding
      · simp only [hk, if_true] at ht h
        cases hv : v.emb with
        | none =>
          rw [hv] at ht h
          simp only [List.length_singleton] at ht
          have : t = 0 := by omega
          subst this
          simpa [replay] using h
        | some vec =>
          rw [hv] at ht h
          simp only [List.length_cons, List.length_nil] at ht
          have : t = 0 ∨ t = 1 := by omega
          rcases this with rfl | rfl
          · simpa [replay] using h
          · simpa [replay, applyEntry] using h
      · simp only [hk, if_false, List.length_singleton] at ht h
        have : t = 0 := by omega
        subst this
        simpa [replay] using h
  | delete k =>
    have h1 : (step L (.delete k)).1 = (deleteDurable L k).1 := rfl
    rw [h1, deleteDurable_fst] at ht h
    by_cases hc : isCacheKey k = true
    · simp [hc] at ht
    · have hc0 : isCacheKey k = false := by simpa using hc
      simp only [hc0, Bool.false_eq_true, if_false] at ht h
      cases hix : idxGet L.vocab k with
      | none =>
        rw [hix] at ht h
        simp only [List.nil_append, List.length_singleton] at ht
        have : t = 0 := by omega
        subst this
        simpa [replay] using h
      | some id =>
        rw [hix] at ht h
        simp only [List.cons_append, List.nil_append, List.length_cons, List.length_nil] at ht
        have : t = 0 ∨ t = 1 ∨ t = 2 := by omega
        rcases this with rfl | rfl | rfl
        · simpa [replay] using h
        · simpa [replay, applyEntry] using h
        · have h' : (idxGet (idxRemove P.vocab k) k1).isSome = true := by
            simpa [replay, applyEntry] using h
          by_cases e : k = k1
          · subst e; rw [idxRemove_get_self _ _ hn] at h'; cases h'
          · rwa [idxRemove_get_ne _ _ _ e] at h'

/-- **one operation, all records or only the first `t`**: the overlay invariant holds after every
    record that made it into the log, and the one-sided simulation is re-established with the
    writer's memory (which a failed operation leaves unchanged up to the leaked index entry) -/
theorem simle_stepF {P L : Store} (hP : Good P) (hL : LiveNodup L.vocab) (hs : SimLe P L) (op : Op)
    (t : Option Nat) :
    (∀ j, Good (replay P ((stepF L op t).1.take j))) ∧
    SimLe (replay P (stepF L op t).1) (stepF L op t).2.1 ∧ LiveNodup (stepF L op t).2.1.vocab := by
  obtain ⟨hpre, hsim⟩ := simle_step hP hL hs op
  have hok : (∀ j, Good (replay P ((step L op).1.take j))) ∧
      SimLe (replay P (step L op).1) (step L op).2 ∧ LiveNodup (step L op).2.vocab :=
    ⟨hpre, hsim, nodup_step hL op⟩
  cases t with
  | none => exact hok
  | some t =>
    simp only [stepF]
    by_cases ht : t < (step L op).1.length
    · simp only [ht, if_true]
      refine ⟨?_, ⟨?_, ?_⟩, nodup_failMem hL op⟩
      · intro j
        rw [List.take_take]
        exact hpre _
      · rw [replay_md, hs.md, step_take_neutral L op t ht, failMem_md]
      · intro k1 hk1 hl
        exact failMem_live L op k1 (hs.live k1 hk1 (strict_prefix_live P L op t ht k1 hP.nodup hl))
    · simp only [ht, if_false]
      exact hok

theorem runOpsF_nil (s : Store) : runOpsF s [] = ([], s, []) := rfl

theorem runOpsF_cons (s : Store) (o : Op) (t : Option Nat) (r : List (Op × Option Nat)) :
    runOpsF s ((o, t) :: r) =
      ((stepF s o t).1 ++ (runOpsF (stepF s o t).2.1 r).1, (runOpsF (stepF s o t).2.1 r).2.1,
        if (stepF s o t).2.2 then o :: (runOpsF (stepF s o t).2.1 r).2.2 else (runOpsF (stepF s o t).2.1 r).2.2) := rfl

/-- **any record-prefix of the log of a session with failing appends replays to a store that
    satisfies the overlay invariant** -/
theorem good_replayF_take {P L : Store} (hP : Good P) (hL : LiveNodup L.vocab) (hs : SimLe P L)
    (plan : List (Op × Option Nat)) (i : Nat) : Good (replay P ((runOpsF L plan).1.take i)) := by
  induction plan generalizing P L i with
  | nil => simpa [runOpsF_nil, replay_nil] using hP
  | cons ot plan ih =>
    obtain ⟨o, t⟩ := ot
    obtain ⟨hpre, hsim, hnd⟩ := simle_stepF hP hL hs o t
    rw [runOpsF_cons]
    by_cases hle : (stepF L o t).1.length ≤ i
    · rw [List.take_append, List.take_of_length_le hle, replay_append]
      have hfull := hpre (stepF L o t).1.length
      rw [List.take_length] at hfull
      exact ih hfull hnd hsim _
    · rw [List.take_append_of_le_length (by omega)]
      exact hpre i

/-- what one operation's appended records and its memory mean for the metadata map -/
theorem stepF_md (s : Store) (o : Op) (t : Option Nat) :
    replayMeta s.md (stepF s o t).1 = (stepF s o t).2.1.md ∧
    (stepF s o t).2.1.md = (if (stepF s o t).2.2 then specApply s.md o else s.md) := by
  cases t with
  | none => simp only [stepF, if_true]; exact ⟨by rw [step_replay, step_md], step_md s o⟩
  | some t =>
    simp only [stepF]
    by_cases ht : t < (step s o).1.length
    · simp only [ht, if_true, Bool.false_eq_true, if_false]
      exact ⟨by rw [step_take_neutral s o t ht, failMem_md], failMem_md s o⟩
    · simp only [ht, if_false, if_true]
      exact ⟨by rw [step_replay, step_md], step_md s o⟩

theorem stepF_sub (s : Store) (o : Op) (t : Option Nat) : ∀ e ∈ (stepF s o t).1, e ∈ (step s o).1 := by
  cases t with
  | none => exact fun e he => he
  | some t =>
    simp only [stepF]
    split
    · exact fun e he => List.mem_of_mem_take he
    · exact fun e he => he

/-- a strict record-prefix of what one operation appended is neutral for the metadata map -/
theorem stepF_take_neutral (s : Store) (o : Op) (t : Option Nat) (i : Nat) (hi : i < (stepF s o t).1.length) :
    replayMeta s.md ((stepF s o t).1.take i) = s.md := by
  cases t with
  | none => exact step_take_neutral s o i hi
  | some t =>
    simp only [stepF] at hi ⊢
    by_cases ht : t < (step s o).1.length
    · simp only [ht, if_true] at hi ⊢
      rw [List.take_take]
      apply step_take_neutral
      simp only [List.length_take] at hi
      omega
    · simp only [ht, if_false] at hi ⊢
      exact step_take_neutral s o i hi

theorem runOpsF_plain (s : Store) (plan : List (Op × Option Nat)) :
    ∀ e ∈ (runOpsF s plan).1, isTx e = false ∧ isCkpt e = false := by
  induction plan generalizing s with
  | nil => simp [runOpsF_nil]
  | cons ot plan ih =>
    obtain ⟨o, t⟩ := ot
    intro e he
    rw [runOpsF_cons] at he
    rcases List.mem_append.mp he with h | h
    · exact step_plain s o e (stepF_sub s o t e h)
    · exact ih _ e h

theorem runOpsF_take_prefix (s : Store) (plan : List (Op × Option Nat)) (a : Nat) :
    ∃ rest, (runOpsF s plan).1 = (runOpsF s (plan.take a)).1 ++ rest := by
  induction plan generalizing s a with
  | nil => exact ⟨[], by simp [runOpsF_nil]⟩
  | cons ot plan ih =>
    obtain ⟨o, t⟩ := ot
    cases a with
    | zero => exact ⟨(runOpsF s ((o, t) :: plan)).1, by simp [runOpsF_nil]⟩
    | succ a =>
      obtain ⟨rest, hrest⟩ := ih (stepF s o t).2.1 a
      refine ⟨rest, ?_⟩
      rw [List.take_succ_cons, runOpsF_cons, runOpsF_cons]
      simp only []
      rw [hrest]
      simp

/-- GROUP LEMMA with failing appends: a record-prefix of the log replays to the map of a prefix of
    the operations that returned `Ok`, which contains every such operation whose records are
    wholly inside the record-prefix -/
theorem group_prefixF (s : Store) (plan : List (Op × Option Nat)) (i : Nat) :
    ∃ k, k ≤ (runOpsF s plan).2.2.length ∧
      replayMeta s.md ((runOpsF s plan).1.take i) = specRun s.md ((runOpsF s plan).2.2.take k) ∧
      ∀ a, a ≤ plan.length → (runOpsF s (plan.take a)).1.length ≤ i →
        (runOpsF s (plan.take a)).2.2.length ≤ k := by
  induction plan generalizing s i with
  | nil => exact ⟨0, by simp, by simp [runOpsF_nil, replayMeta_nil, specRun_nil], by simp [runOpsF_nil]⟩
  | cons ot plan ih =>
    obtain ⟨o, t⟩ := ot
    obtain ⟨hm1, hm2⟩ := stepF_md s o t
    by_cases hle : (stepF s o t).1.length ≤ i
    · obtain ⟨k, hk, hrep, hall⟩ := ih (stepF s o t).2.1 (i - (stepF s o t).1.length)
      by_cases hb : (stepF s o t).2.2 = true
      · refine ⟨k + 1, ?_, ?_, ?_⟩
        · rw [runOpsF_cons]; simp only [hb, if_true, List.length_cons]; omega
        · rw [runOpsF_cons]
          simp only [hb, if_true]
          rw [List.take_append, List.take_of_length_le hle, replayMeta_append, hm1, List.take_succ_cons,
            specRun_cons, hrep]
          rw [hm2, hb]; rfl
        · intro a ha hlen
          cases a with
          | zero => simp [runOpsF_nil]
          | succ a =>
            rw [List.take_succ_cons, runOpsF_cons] at hlen ⊢
            simp only [List.length_append, hb, if_true, List.length_cons] at hlen ⊢
            have := hall a (by simp at ha; omega) (by omega)
            omega
      · have hb0 : (stepF s o t).2.2 = false := by simpa using hb
        refine ⟨k, ?_, ?_, ?_⟩
        · rw [runOpsF_cons]; simp only [hb0, Bool.false_eq_true, if_false]; exact hk
        · rw [runOpsF_cons]
          simp only [hb0, Bool.false_eq_true, if_false]
          rw [List.take_append, List.take_of_length_le hle, replayMeta_append, hm1, hrep]
          rw [hm2, hb0]; rfl
        · intro a ha hlen
          cases a with
          | zero => simp [runOpsF_nil]
          | succ a =>
            rw [List.take_succ_cons, runOpsF_cons] at hlen ⊢
            simp only [List.length_append, hb0, Bool.false_eq_true, if_false] at hlen ⊢
            exact hall a (by simp at ha; omega) (by omega)
    · have hlt : i < (stepF s o t).1.length := by omega
      refine ⟨0, by simp, ?_, ?_⟩
      · rw [runOpsF_cons, List.take_append_of_le_length (by omega), stepF_take_neutral s o t i hlt]
        rfl
      · intro a ha hlen
        cases a with
        | zero => simp [runOpsF_nil]
        | succ a =>
          rw [List.take_succ_cons, runOpsF_cons] at hlen
          simp only [List.length_append] at hlen
          omega

/-! #### the writer's own store in a session with failing appends -/

theorem good_stepF {s : Store} (hg : Good s) (o : Op) (t : Option Nat) : Good (stepF s o t).2.1 := by
  cases t with
  | none => exact good_step hg o
  | some t =>
    simp only [stepF]
    split
    · exact good_failMem hg o
    · exact good_step hg o

theorem classed_stepF {s : Store} (hc : Classed s) (o : Op) (t : Option Nat) : Classed (stepF s o t).2.1 := by
  cases t with
  | none => exact classed_step hc o
  | some t =>
    simp only [stepF]
    split
    · exact classed_failMem hc o
    · exact classed_step hc o

/-- the writer's store keeps the overlay invariant whatever fails -/
theorem good_runOpsF {s : Store} (hg : Good s) (plan : List (Op × Option Nat)) : Good (runOpsF s plan).2.1 := by
  induction plan generalizing s with
  | nil => exact hg
  | cons ot plan ih => obtain ⟨o, t⟩ := ot; rw [runOpsF_cons]; exact ih (good_stepF hg o t)

theorem classed_runOpsF {s : Store} (hc : Classed s) (plan : List (Op × Option Nat)) :
    Classed (runOpsF s plan).2.1 := by
  induction plan generalizing s with
  | nil => exact hc
  | cons ot plan ih => obtain ⟨o, t⟩ := ot; rw [runOpsF_cons]; exact ih (classed_stepF hc o t)

/-- the writer's metadata map is the map of the operations that returned `Ok` -/
theorem runOpsF_md (s : Store) (plan : List (Op × Option Nat)) :
    (runOpsF s plan).2.1.md = specRun s.md (runOpsF s plan).2.2 := by
  induction plan generalizing s with
  | nil => simp [runOpsF_nil, specRun_nil]
  | cons ot plan ih =>
    obtain ⟨o, t⟩ := ot
    rw [runOpsF_cons]
    simp only []
    rw [ih, (stepF_md s o t).2]
    by_cases hb : (stepF s o t).2.2 = true
    · simp only [hb, if_true, specRun_cons]
    · have hb0 : (stepF s o t).2.2 = false := by simpa using hb
      simp only [hb0, Bool.false_eq_true, if_false]

/-! #### the `auto_rotate = false` writer is an instance -/

section lim
variable (crc : Bytes → Nat) (enc : Entry → Bytes)

theorem logLim_spec (mode : SyncMode) (maxSize : Nat) (w : Wal) (es : List Entry) :
    (logLim crc enc mode maxSize w es).2 ≤ es.length ∧
    (logLim crc enc mode maxSize w es).1.file
      = w.file ++ logBytes crc enc (es.take (logLim crc enc mode maxSize w es).2) := by
  induction es generalizing w with
  | nil => simp [logLim, logBytes_nil]
  | cons e es ih =>
    simp only [logLim]
    cases h : Wal.appendLim mode maxSize w (encodeRec crc (enc e)) with
    | none => simp [logBytes_nil]
    | some w' =>
      simp only []
      obtain ⟨h1, h2⟩ := ih w'
      have hw' : w'.file = w.file ++ encodeRec crc (enc e) := by
        unfold Wal.appendLim at h
        split at h
        · cases h
        · injection h with h; rw [← h, Wal.append_file]
      refine ⟨by simp only [List.length_cons]; omega, ?_⟩
      rw [h2, hw', List.take_succ_cons]
      have : e :: es.take (logLim crc enc mode maxSize w' es).2
          = [e] ++ es.take (logLim crc enc mode maxSize w' es).2 := rfl
      rw [this, logBytes_append, logBytes_singleton, List.append_assoc]

/-- what `stepF` appends, as a prefix of the operation's records -/
theorem stepF_fst_take (s : Store) (o : Op) (t : Nat) (ht : t ≤ (step s o).1.length) :
    (stepF s o (some t)).1 = (step s o).1.take t := by
  simp only [stepF]
  by_cases h : t < (step s o).1.length
  · simp [h]
  · have : t = (step s o).1.length := by omega
    simp [h, this]

end lim

end Neumann.Durable
