import NeumannModel.Durable.Lemmas
/-
  C02 — "Durable store: acknowledged writes survive any crash, in order".
  ONLY the property theorems and their non-vacuity examples; definitions of the crash model
  (`Reach`), `PrefixOf`, `MetaEq`, `CodecOK`, `Fits`, `logBytes` are in `Lemmas.lean`.

  State compared: the metadata map (`Store.md`), which every non-cache `put`/`delete` writes and
  which `get` returns for every key class except `_cache:` (documented as not durable) and the
  entity-index/embedding-slab overlay of `emb:` keys (covered by the correspondence run only;
  see `stale_entity_id_witness`).
-/
namespace Neumann.Durable.Props
open Neumann.FramedLog Neumann.Durable

variable {crc : Bytes → Nat} {enc : Entry → Bytes} {dec : Bytes → Option Entry}

/-- **One crash, any byte.** A fresh durable store runs ANY operation list; the log is cut at ANY
    byte `n`.  Recovery succeeds and yields exactly the map produced by the first `k` operations,
    and every operation whose records lie wholly before the cut (in particular every acknowledged
    one: acknowledged ⇒ synced ⇒ `≤ syncedLen ≤ n`) is among them. -/
theorem recover_is_prefix (hc : CodecOK crc enc dec) (ops : List Op) (n : Nat)
    (hfit : Fits enc (runOps Store.empty ops).1) :
    ∃ k r, k ≤ ops.length ∧
      recover crc dec none ((logBytes crc enc (runOps Store.empty ops).1).take n) = .ok r ∧
      MetaEq r.md (specRun [] (ops.take k)) ∧ r.cache = [] ∧
      ∀ a, a ≤ ops.length →
        (logBytes crc enc (runOps Store.empty (ops.take a)).1).length ≤ n → a ≤ k := by
  have hplain := runOps_plain Store.empty ops
  have hno : NoTx (runOps Store.empty ops).1 := fun e he => (hplain e he).1
  obtain ⟨k, hk, hrep, hgrp⟩ := group_prefix Store.empty ops
    (wholeWithin crc ((runOps Store.empty ops).1.map enc) n)
  refine ⟨k, _, hk, recover_take_plain hc none _ n hfit hno, ?_, ?_, ?_⟩
  · rw [replay_md]
    have := afterLastCkpt_append_plain []
      ((runOps Store.empty ops).1.take (wholeWithin crc ((runOps Store.empty ops).1.map enc) n))
      (fun e he => (hplain e (List.mem_of_mem_take he)).2)
    rw [List.nil_append] at this
    rw [this, afterLastCkpt_nil, List.nil_append]
    show MetaEq (replayMeta Store.empty.md _) _
    rw [hrep]
    exact MetaEq.refl _
  · rw [replay_cache]; rfl
  · intro a ha hlen
    apply hgrp a ha
    obtain ⟨rest, hrest⟩ := runOps_take_prefix Store.empty ops a
    apply wholeWithin_ge crc _ _ n (by rw [hrest]; simp)
    rw [← List.map_take, hrest, List.take_left']
    · exact hlen
    · rfl

/-- **Any number of crashes, with writes in between, checkpoints included** (induction on the
    crash chain): every reachable disk state recovers, and to the map produced by a history that
    takes, epoch by epoch, a prefix of the operations containing all acknowledged ones. -/
theorem recover_then_write (hc : CodecOK crc enc dec) {snap : Option Store} {f : Bytes} {tr : Trace}
    (h : Reach crc enc dec snap f tr) :
    ∃ H r, PrefixOf tr H ∧ recover crc dec snap f = .ok r ∧ MetaEq r.md (specRun [] H) := by
  obtain ⟨H, hpre, R, n, rfl, hfit, hno, hme⟩ := reach_inv hc h
  refine ⟨H, _, hpre, recover_take_plain hc snap R n hfit hno, ?_⟩
  rw [replay_md]; exact hme

/-- **Checkpoint is crash safe** from every reachable state, with the log synced: whether the
    crash falls before the snapshot, after the snapshot, anywhere inside or after the marker
    record, or after the truncation, recovery yields the pre-checkpoint (= post-checkpoint) map
    and, from the new snapshot on, its cache contents. -/
theorem checkpoint_crash_safe (hc : CodecOK crc enc dec) {snap : Option Store} {f : Bytes} {tr : Trace}
    (h : Reach crc enc dec snap f tr) (mem0 : Store) (hr : recover crc dec snap f = .ok mem0)
    (ops : List Op) (hfit : Fits enc (runOps mem0 ops).1) (id : Nat)
    (hid : (enc (.checkpoint id)).length < U32) (m : Nat) :
    (∃ r, recover crc dec snap (openRepair f ++ logBytes crc enc (runOps mem0 ops).1) = .ok r ∧
        MetaEq r.md (runOps mem0 ops).2.md) ∧
    (∃ r, recover crc dec (some (runOps mem0 ops).2)
            (openRepair f ++ logBytes crc enc (runOps mem0 ops).1
              ++ (encodeRec crc (enc (.checkpoint id))).take m) = .ok r ∧
        MetaEq r.md (runOps mem0 ops).2.md ∧ r.cache = (runOps mem0 ops).2.cache) ∧
    (∃ r, recover crc dec (some (runOps mem0 ops).2) [] = .ok r ∧
        MetaEq r.md (runOps mem0 ops).2.md ∧ r.cache = (runOps mem0 ops).2.cache) := by
  obtain ⟨H, -, hinv⟩ := reach_inv hc h
  obtain ⟨S, hopen, hSfit, hSno, hmem, -⟩ := inv_open hc hinv hr
  have hplain := runOps_plain mem0 ops
  have hlive : (runOps mem0 ops).2.md
      = replayMeta (snap.getD Store.empty).md (afterLastCkpt S ++ (runOps mem0 ops).1) := by
    rw [replayMeta_append, ← replay_md, ← hmem, runOps_replay, runOps_md]
  rw [hopen]
  refine ⟨?_, ?_, ?_⟩
  · have hfull := recover_full hc snap (S ++ (runOps mem0 ops).1) (hSfit.append hfit)
      (hSno.append (fun e he => (hplain e he).1))
    rw [logBytes_append] at hfull
    refine ⟨_, hfull, ?_⟩
    rw [replay_md, afterLastCkpt_append_plain _ _ (fun e he => (hplain e he).2), hlive]
    exact MetaEq.refl _
  · obtain ⟨R, n, hf, hRfit, hRno, hRme⟩ := inv_ckpt (crc := crc) S (runOps mem0 ops).1 hSfit hfit hSno
      hplain (runOps mem0 ops).2 _ hlive id m hid
    rw [hf]
    refine ⟨_, recover_take_plain hc _ R n hRfit hRno, ?_, ?_⟩
    · rw [replay_md]; exact hRme
    · rw [replay_cache]; rfl
  · refine ⟨(runOps mem0 ops).2, ?_, MetaEq.refl _, rfl⟩
    exact recover_nil _

/-- the live store itself follows the specification map (so "pre-checkpoint map" above is the
    map of all operations issued so far) -/
theorem live_follows_spec (s : Store) (ops : List Op) :
    (runOps s ops).2.md = specRun s.md ops := by
  exact runOps_md s ops

/-- **Exactly the cache class is not durable**: a `_cache:` key logs nothing; every other key's
    operation ends with the record that carries it. -/
theorem cache_keys_not_durable (s : Store) (k : Bytes) (v : Val) :
    (isCacheKey k = true → (putDurable s k v).1 = [] ∧ (deleteDurable s k).1 = []) ∧
    (isCacheKey k = false → (putDurable s k v).1.getLast? = some (.metaSet k v) ∧
                            (deleteDurable s k).1.getLast? = some (.metaDel k)) := by
  rw [putDurable_fst, deleteDurable_fst]
  constructor
  · intro h; simp [h]
  · intro h
    constructor
    · cases hv : v.emb <;> simp [h]
    · simp [h]

/-- recovery never invents cache entries: the cache after recovery is the snapshot's cache -/
theorem recovered_cache_is_snapshot_cache (snap : Option Store) (f : Bytes) (r : Store)
    (h : recover crc dec snap f = .ok r) : r.cache = (snap.getD Store.empty).cache := by
  unfold recover at h
  simp only [] at h
  split at h
  · cases h
  · injection h with h
    rw [← h, replay_cache]

/-- outside the `_cache:` and `emb:` classes `get` reads the metadata map only -/
theorem get_reads_md (s : Store) (k : Bytes) (h1 : classify k ≠ .cache) (h2 : classify k ≠ .embedding) :
    get s k = aget s.md k := by
  unfold get
  split <;> simp_all

/-- the writer's bookkeeping: running operations through `Sys.op` appends exactly `logBytes` of
    their records, and under `Immediate` every returned operation is synced -/
theorem sys_log_is_logBytes (sy : Sys) (ops : List Op) :
    (ops.foldl (Sys.op crc enc) sy).wal.file = sy.wal.file ++ logBytes crc enc (runOps sy.mem ops).1 ∧
    (ops.foldl (Sys.op crc enc) sy).mem = (runOps sy.mem ops).2 := by
  induction ops generalizing sy with
  | nil => simp [runOps_nil, logBytes_nil]
  | cons o ops ih =>
    obtain ⟨h1, h2⟩ := ih (Sys.op crc enc sy o)
    rw [List.foldl_cons, h1, h2, runOps_cons, Sys.op_file, Sys.op_mem, logBytes_append, List.append_assoc]
    exact ⟨rfl, rfl⟩

theorem immediate_acks_everything (sy : Sys) (ops : List Op) (hm : sy.mode = .immediate)
    (h0 : sy.wal.syncedLen = sy.wal.file.length) :
    (ops.foldl (Sys.op crc enc) sy).wal.syncedLen = (ops.foldl (Sys.op crc enc) sy).wal.file.length := by
  induction ops generalizing sy with
  | nil => exact h0
  | cons o ops ih =>
    rw [List.foldl_cons]
    exact ih _ (by rw [Sys.op_mode]; exact hm) (Sys.op_immediate crc enc sy o hm h0)

/-- **Pre-fix `open` (append at physical EOF) loses an acknowledged record** — the defect class
    `tensor_store.wal.open/append_after_torn_tail`; with the repaired `open` it is recovered. -/
theorem append_after_torn_tail_witness :
    let crc := Neumann.Crc32.crc32
    let torn := (encodeRec crc [1, 2, 3]).take 9
    (parse crc (fun _ => true) (openOld torn ++ encodeRec crc [9])) = ([], .badCrc) ∧
    (parse crc (fun _ => true) (openRepair torn ++ encodeRec crc [9])) = ([[9]], .clean) := by
  decide +kernel

/-- **Rotation loses acknowledged entries** (finding `tensor_store.wal.rotate/acked_entries_not_replayed`):
    with `max_size_bytes = 30`, three acknowledged 3-byte records under `Immediate`; the file
    recovery reads holds only the last one. -/
theorem rotation_loses_acked_witness :
    let crc := Neumann.Crc32.crc32
    let w := [[1, 1, 1], [2, 2, 2], [3, 3, 3]].foldl
      (fun w p => Wal.appendRot .immediate 30 w (encodeRec crc p)) (Wal.openOn [])
    w.syncedLen = w.file.length ∧ (parse crc (fun _ => true) w.file) = ([[3, 3, 3]], .clean) := by
  decide +kernel

/-- **Checkpoint with an unsynced tail** (finding
    `tensor_store.slab_router.checkpoint/unsynced_tail_replayed_over_snapshot`): `Manual` mode,
    `put k v1; sync; put k v2; put j w; checkpoint` crashing right after the snapshot is in place.
    Recovery = new snapshot + the synced log prefix replayed over it = `{k ↦ v1, j ↦ w}`,
    which is the map of NO prefix of the operations. -/
theorem checkpoint_unsynced_tail_witness :
    let crc := Neumann.Crc32.crc32
    let k := [107]; let j := [106]
    let v1 : Val := ⟨[1], none⟩; let v2 : Val := ⟨[2], none⟩; let w : Val := ⟨[3], none⟩
    let ops := [Op.put k v1, Op.put k v2, Op.put j w]
    let s0 : Sys := ⟨.manual, Wal.openOn [], Store.empty, none⟩
    let s1 := (Sys.op crc toyEnc s0 (ops.getD 0 (.delete []))).sync
    let s3 := ((ops.drop 1).foldl (Sys.op crc toyEnc) s1).ckptSnapshot
    ∃ r, recover crc toyDec s3.snap (s3.crashFile 0) = .ok r ∧
      aget r.md k = some v1 ∧ aget r.md j = some w ∧
      ∀ n, ¬ MetaEq r.md (specRun [] (ops.take n)) := by
  intro crc k j v1 v2 w ops s0 s1 s3
  obtain ⟨r, hr, hmd⟩ := exists_ok_of_md (x := recover crc toyDec s3.snap (s3.crashFile 0))
    (m := [(k, v1), (j, w)]) (by decide +kernel)
  refine ⟨r, hr, ?_, ?_, ?_⟩
  · rw [hmd]; decide +kernel
  · rw [hmd]; decide +kernel
  · rw [hmd]
    intro n hme
    match n with
    | 0 => exact absurd (hme k) (by decide +kernel)
    | 1 => exact absurd (hme j) (by decide +kernel)
    | 2 => exact absurd (hme k) (by decide +kernel)
    | n + 3 =>
      have ht : ops.take (n + 3) = ops := List.take_of_length_le (by simp [ops])
      rw [ht] at hme
      exact absurd (hme k) (by decide +kernel)

/-- **A put on an existing `emb:` key is not atomic** (finding
    `tensor_store.slab_router.put_durable/embedding_record_replayed_without_its_metadata_record`):
    `put_durable` logs `EmbeddingSet` then `MetadataSet`; a log that ends between the two makes
    recovery return the OLD body with the NEW embedding — the value of no prefix of the writes.
    (This is the entity-index / embedding-slab overlay the `md` theorems above do not cover.) -/
theorem torn_put_embedding_witness :
    let k := [101, 109, 98, 58, 97]
    let v1 : Val := ⟨[1], some (List.replicate 1536 1)⟩
    let v2 : Val := ⟨[2], some (List.replicate 1536 2)⟩
    let recs := (runOps Store.empty [Op.put k v1, Op.put k v2]).1
    recs.length = 4 ∧
    ∃ r, recover (fun _ => 0) toyDec none (logBytes (fun _ => 0) toyEnc (recs.take 3)) = .ok r ∧
      get r k = some ⟨[1], some (List.replicate 1536 2)⟩ := by
  refine ⟨by decide +kernel, ?_⟩
  apply exists_ok_of_get
  decide +kernel

/-! ### non-vacuity -/

/-- the codec assumptions are satisfiable -/
example : CodecOK (fun _ => 0) toyEnc toyDec := by
  exact ⟨toyDec_toyEnc, fun _ => by decide⟩

/-- a reachable state with two crashes (the first one mid-record) and a non-empty recovered map -/
example : ∃ f tr, Reach (fun _ => 0) toyEnc toyDec none f tr ∧ tr.length = 2 ∧ f ≠ [] := by
  have r0 := Reach.init (crc := fun _ => 0) (enc := toyEnc) (dec := toyDec)
  have r1 := Reach.round Store.empty [Op.put [107] ⟨[1], none⟩] 0 10 r0
    (by decide +kernel) (by unfold Fits; decide +kernel) (by decide +kernel) (by decide) (by decide +kernel)
  have r2 := Reach.round Store.empty [Op.put [107] ⟨[1], none⟩] 1 100 r1
    (by decide +kernel) (by unfold Fits; decide +kernel) (by decide +kernel) (by decide) (by decide +kernel)
  exact ⟨_, _, r2, by decide, by decide +kernel⟩

end Neumann.Durable.Props
