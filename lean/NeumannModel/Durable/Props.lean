import NeumannModel.Durable.Rotate
/-
  C02 — "Durable store: acknowledged writes survive any crash, in order".
  ONLY the property theorems and their non-vacuity examples; the definitions used by the
  statements (`Reach`, `PrefixOf`, `MetaEq`, `FullEq`, `RecoverIsPrefixFull`,
  `RotationKeepsAcked`, `CodecOK`, `Fits`, `logBytes`) are in `Lemmas.lean`, the argument for the
  crash points "old log replayed over the newer snapshot" in `Overlay.lean`.

  Two levels of observation:
   * the metadata map (`Store.md`): what every non-cache `put`/`delete` writes; `MetaEq`;
   * the FULL observable image (`FullEq`): what `get` answers for every key outside the
     `_cache:` class, i.e. the metadata map seen through the entity-index / embedding-slab
     overlay of `emb:` keys.
  Full image: one crash at any byte (`recover_is_prefix_full`), ANY chain of crashes and
  checkpoints of the crash model `Reach` — every crash point inside `checkpoint` included
  (`recover_then_write_full`), every step and cut of a checkpoint under every sync mode
  (`checkpoint_crash_safe`), the live store (`live_image_follows_spec`).
  `scan` lists readable keys only, live and recovered (`scan_lists_only_readable_keys`).
  The model follows /repo after 197dc525, e374d74b, 6b9ec7ce, the fix "only `emb:` keys get an
  entity-index entry / `EmbeddingSet` record / slab entry in `put_durable` and
  `apply_wal_entry`", a74fb575 (checkpoint holds the log mutex from its fsync to the truncation:
  `checkpoint_serialised_with_writes_keeps_every_ack`) and f5ce42e5 (a failed `put_durable`
  releases the entity-index entry it allocated: `failed_write_leaves_store_unchanged`,
  `failing_session_live_store_is_coherent`); the behaviours before those commits are refuted by
  the `_witness` theorems on `Sys.ckptStepsOld`, `applyEntryOld1`/`putOld`, `applyEntryOld2`,
  `putDurableOld`/`runOpsOld`/`applyEntryOld3`, `Sys.withCheckpointAtOld` and
  `failMemOld`/`runOpsFOld`.
-/
namespace Neumann.Durable.Props
open Neumann.FramedLog Neumann.Durable

variable {crc : Bytes → Nat} {enc : Entry → Bytes} {dec : Bytes → Option Entry}

/-- **One crash, any byte (metadata map).** A fresh durable store runs ANY operation list; the log
    is cut at ANY byte `n`.  Recovery succeeds and yields exactly the map produced by the first `k`
    operations, and every operation whose records lie wholly before the cut (in particular every
    acknowledged one: acknowledged ⇒ synced ⇒ `≤ syncedLen ≤ n`) is among them. -/
theorem recover_is_prefix (hc : CodecOK crc enc dec) (ops : List Op) (n : Nat)
    (hfit : Fits enc (runOps Store.empty ops).1) :
    ∃ k r, k ≤ ops.length ∧
      recover crc dec none ((logBytes crc enc (runOps Store.empty ops).1).take n) = .ok r ∧
      MetaEq r.md (specRun [] (ops.take k)) ∧ r.cache = [] ∧
      ∀ a, a ≤ ops.length →
        (logBytes crc enc (runOps Store.empty (ops.take a)).1).length ≤ n → a ≤ k := by
  have hplain := runOps_plain Store.empty ops
  have hno : NoTx (runOps Store.empty ops).1 := fun e he => (hplain e he).1
  obtain ⟨k, hk, hrep, hgrp⟩ := group_prefix Store.empty ops
    (wholeWithin crc ((runOps Store.empty ops).1.map enc) n)
  refine ⟨k, _, hk, recover_take_plain hc none _ n hfit hno, ?_, ?_, ?_⟩
  · rw [replay_md]
    have := afterLastCkpt_append_plain []
      ((runOps Store.empty ops).1.take (wholeWithin crc ((runOps Store.empty ops).1.map enc) n))
      (fun e he => (hplain e (List.mem_of_mem_take he)).2)
    rw [List.nil_append] at this
    rw [this, afterLastCkpt_nil, List.nil_append]
    show MetaEq (replayMeta Store.empty.md _) _
    rw [hrep]
    exact MetaEq.refl _
  · rw [replay_cache]; rfl
  · intro a ha hlen
    apply hgrp a ha
    obtain ⟨rest, hrest⟩ := runOps_take_prefix Store.empty ops a
    apply wholeWithin_ge crc _ _ n (by rw [hrest]; simp)
    rw [← List.map_take, hrest, List.take_left']
    · exact hlen
    · rfl

/-- **One crash, any byte, FULL observable image** (`RecoverIsPrefixFull` for the repaired
    `recover`, every operation list over every key class and value, every cut byte — also a cut
    between the `EmbeddingSet` and the `MetadataSet` record of one put, and also operation lists
    that make the writer's entity ids differ from the ids replay assigns): `get` on the recovered
    store answers, for every key outside the `_cache:` class, what the first `k` operations
    wrote, and every acknowledged operation is among them. -/
theorem recover_is_prefix_full (hc : CodecOK crc enc dec) (ops : List Op) (n : Nat)
    (hfit : Fits enc (runOps Store.empty ops).1) :
    RecoverIsPrefixFull (recover crc dec) crc enc ops n := by
  obtain ⟨k, r, hk, hrec, hmd, -, hack⟩ := recover_is_prefix hc ops n hfit
  refine ⟨k, r, hk, hrec, ?_, hack⟩
  have hplain := runOps_plain Store.empty ops
  have hno : NoTx (runOps Store.empty ops).1 := fun e he => (hplain e he).1
  have hrec' := recover_take_plain hc none _ n hfit hno
  rw [hrec'] at hrec
  injection hrec with hrec
  have hpl := afterLastCkpt_append_plain []
    ((runOps Store.empty ops).1.take (wholeWithin crc ((runOps Store.empty ops).1.map enc) n))
    (fun e he => (hplain e (List.mem_of_mem_take he)).2)
  rw [List.nil_append, afterLastCkpt_nil, List.nil_append] at hpl
  rw [hpl] at hrec
  have hg : Good r := by
    rw [← hrec]
    exact good_replay_take good_empty good_empty (sim_refl _) ops _
  exact good_fullEq hg hmd

/-- **Any number of crashes, with writes in between, checkpoints included (metadata map)**
    (induction on the crash chain): every reachable disk state recovers, and to the map produced
    by a history that takes, epoch by epoch, a prefix of the operations containing all
    acknowledged ones. -/
theorem recover_then_write (hc : CodecOK crc enc dec) {snap : Option Store} {f : Bytes} {tr : Trace}
    (h : Reach crc enc dec snap f tr) :
    ∃ H r, PrefixOf tr H ∧ recover crc dec snap f = .ok r ∧ MetaEq r.md (specRun [] H) := by
  obtain ⟨H, hpre, R, n, rfl, hfit, hno, hme⟩ := reach_inv hc h
  refine ⟨H, _, hpre, recover_take_plain hc snap R n hfit hno, ?_⟩
  rw [replay_md]; exact hme

/-- **Any number of crashes, FULL observable image**, for EVERY reachable state of the crash model
    `Reach` (induction on the crash chain): any number of recover / write / crash rounds, every
    cut byte, and every crash point inside `checkpoint` — log fsynced, snapshot in place with the
    marker absent, partly written or complete, log truncated.  Recovery succeeds and `get` on the
    recovered store answers, for every key outside the `_cache:` class, exactly what a history
    wrote that takes, epoch by epoch, a prefix of the operations containing all acknowledged ones.
    (At the crash points "snapshot in place, marker absent or incomplete" the whole old log is
    replayed over the NEWER snapshot; the overlay invariant does not hold after every record
    there, but does at the end: `good_replay_over`.) -/
theorem recover_then_write_full (hc : CodecOK crc enc dec) {snap : Option Store} {f : Bytes}
    {tr : Trace} (h : Reach crc enc dec snap f tr) :
    ∃ H r, PrefixOf tr H ∧ recover crc dec snap f = .ok r ∧ FullEq r (specRun [] H) := by
  obtain ⟨H, r, hpre, hr, hmd⟩ := recover_then_write hc h
  exact ⟨H, r, hpre, hr, good_fullEq (reach_good hc h r hr) hmd⟩

/-- non-vacuity of `recover_then_write_full` at the crash point "snapshot in place, no marker
    byte", on a case where the overlay invariant is BROKEN in the middle of the replay:
    `delete emb:a` (absent key: one `MetadataDelete` record), `put emb:a` with a 384-dim vector,
    checkpoint crashing right after the snapshot is in place.  The disk state is in `Reach`;
    replaying only the FIRST record of the old log over the new snapshot gives a store whose
    `get emb:a` answers the vector with an empty body (a value nobody wrote); the whole log — which
    is what such a crash leaves — gives back the value written. -/
example :
    let crc : Bytes → Nat := fun _ => 0
    let ka := [101, 109, 98, 58, 97]
    let v : Val := ⟨[7], some (List.replicate 1536 1)⟩
    let ops := [Op.delete ka, Op.put ka v]
    let L := (runOps Store.empty ops).2
    Reach crc toyEnc toyDec (some L)
      (openRepair [] ++ logBytes crc toyEnc (runOps Store.empty ops).1
        ++ (encodeRec crc (toyEnc (.checkpoint 0))).take 0) ([] ++ [(ops, ops.length)]) ∧
    get (replay L ((runOps Store.empty ops).1.take 1)) ka = some ⟨[], some (List.replicate 1536 1)⟩ ∧
    get (replay L (runOps Store.empty ops).1) ka = some v := by
  intro crc ka v ops L
  exact ⟨Reach.ckptCrash Store.empty ops 0 0 .init (by decide +kernel) (by unfold Fits; decide +kernel)
    (by decide +kernel), by decide +kernel, by decide +kernel⟩

/-- **Checkpoint is crash safe under every sync mode** (`Immediate`, `Batched n`, `Manual`, with
    any unsynced tail).  From every reachable disk state, a running store `sy` (any mode, any
    synced length) that has logged the records of ANY operation list takes a checkpoint.  After
    each of the four steps (log fsynced / snapshot in place / marker appended / log truncated)
    and for EVERY crash cut `n` the step's sync state allows (inside the marker included):
    the disk state is again a reachable one with all operations acknowledged (so
    `recover_then_write_full` applies to everything that follows), recovery yields the
    pre-checkpoint map, and `get` on the recovered store answers every key outside the `_cache:`
    class exactly as the live store did before the checkpoint (FULL observable image) — nothing
    lost, nothing resurrected.  After the last step recovery returns the live store itself
    (cache included). -/
theorem checkpoint_crash_safe (hc : CodecOK crc enc dec) {snap : Option Store} {f : Bytes} {tr : Trace}
    (h : Reach crc enc dec snap f tr) (mem0 : Store) (hr : recover crc dec snap f = .ok mem0)
    (ops : List Op) (hfit : Fits enc (runOps mem0 ops).1) (id : Nat)
    (hid : (enc (.checkpoint id)).length < U32)
    (sy : Sys) (hsnap : sy.snap = snap) (hmem : sy.mem = (runOps mem0 ops).2)
    (hfile : sy.wal.file = openRepair f ++ logBytes crc enc (runOps mem0 ops).1) :
    (∀ st ∈ Sys.ckptSteps crc enc sy id, ∀ n,
        Reach crc enc dec st.snap (st.crashFile n) (tr ++ [(ops, ops.length)]) ∧
        ∃ r, recover crc dec st.snap (st.crashFile n) = .ok r ∧ MetaEq r.md sy.mem.md ∧
          (∀ k, isCacheKey k = false → get r k = get sy.mem k) ∧
          (st.snap = some sy.mem → r.cache = sy.mem.cache)) ∧
    (∀ n, recover crc dec (Sys.checkpoint crc enc sy id).snap ((Sys.checkpoint crc enc sy id).crashFile n)
        = .ok sy.mem) := by
  obtain ⟨H, -, hinv⟩ := reach_inv hc h
  obtain ⟨S, hopen, hSfit, hSno, hmem0, -⟩ := inv_open hc hinv hr
  have hplain := runOps_plain mem0 ops
  have hlive : (runOps mem0 ops).2.md
      = replayMeta (snap.getD Store.empty).md (afterLastCkpt S ++ (runOps mem0 ops).1) := by
    rw [replayMeta_append, ← replay_md, ← hmem0, runOps_replay, runOps_md]
  -- the three kinds of crash state
  have A : Reach crc enc dec snap sy.wal.file (tr ++ [(ops, ops.length)]) ∧
      ∃ r, recover crc dec snap sy.wal.file = .ok r ∧ MetaEq r.md sy.mem.md := by
    constructor
    · have := Reach.round mem0 ops ops.length sy.wal.file.length h hr hfit
        (by rw [hfile]; simp) (Nat.le_refl _) (by rw [List.take_length, hfile]; exact Nat.le_refl _)
      rwa [← hfile, List.take_length] at this
    · have hfull := recover_full hc snap (S ++ (runOps mem0 ops).1) (hSfit.append hfit)
        (hSno.append (fun e he => (hplain e he).1))
      rw [logBytes_append, ← hopen, ← hfile] at hfull
      refine ⟨_, hfull, ?_⟩
      rw [replay_md, afterLastCkpt_append_plain _ _ (fun e he => (hplain e he).2), hmem, hlive]
      exact MetaEq.refl _
  have B : ∀ m, Reach crc enc dec (some sy.mem)
        (sy.wal.file ++ (encodeRec crc (enc (.checkpoint id))).take m) (tr ++ [(ops, ops.length)]) ∧
      ∃ r, recover crc dec (some sy.mem) (sy.wal.file ++ (encodeRec crc (enc (.checkpoint id))).take m)
          = .ok r ∧ MetaEq r.md sy.mem.md ∧ r.cache = sy.mem.cache := by
    intro m
    rw [hfile, hmem]
    refine ⟨Reach.ckptCrash mem0 ops id m h hr hfit hid, ?_⟩
    obtain ⟨R, n, hf, hRfit, hRno, hRme⟩ := inv_ckpt (crc := crc) S (runOps mem0 ops).1 hSfit hfit hSno
      hplain (runOps mem0 ops).2 _ hlive id m hid
    rw [hopen, hf]
    refine ⟨_, recover_take_plain hc _ R n hRfit hRno, ?_, ?_⟩
    · rw [replay_md]; exact hRme
    · rw [replay_cache]; rfl
  have C : Reach crc enc dec (some sy.mem) [] (tr ++ [(ops, ops.length)]) ∧
      recover crc dec (some sy.mem) [] = .ok sy.mem := by
    rw [hmem]
    exact ⟨Reach.ckptDone mem0 ops h hr hfit, recover_nil _⟩
  have hsynced : (sy.ckptSync.ckptSnapshot).wal.syncedLen = (sy.ckptSync.ckptSnapshot).wal.file.length := rfl
  -- the full image: both stores satisfy the overlay invariant, so `get` is the metadata map
  have hgm : Good sy.mem := by rw [hmem]; exact good_runOps (reach_good hc h mem0 hr) ops
  have full : ∀ {sn : Option Store} {fl : Bytes} (_ : Reach crc enc dec sn fl (tr ++ [(ops, ops.length)]))
      (r : Store), recover crc dec sn fl = .ok r → MetaEq r.md sy.mem.md →
      ∀ k, isCacheKey k = false → get r k = get sy.mem k := by
    intro sn fl hre r hr' hme k hk
    rw [good_get (reach_good hc hre r hr') k hk, good_get hgm k hk]
    exact hme k
  have htrunc : ∀ n, (Sys.checkpoint crc enc sy id).crashFile n = [] := by
    intro n; simp [Sys.checkpoint, Sys.ckptTruncate, Wal.truncate, Sys.crashFile]
  constructor
  · intro st hst n
    simp only [Sys.ckptSteps, List.mem_cons, List.not_mem_nil, or_false] at hst
    rcases hst with rfl | rfl | rfl | rfl
    · -- the log is fsynced: every cut keeps the whole log; old snapshot
      rw [show sy.ckptSync.crashFile n = sy.wal.file from Sys.crashFile_sync sy n]
      show Reach crc enc dec sy.snap _ _ ∧ ∃ r, recover crc dec sy.snap _ = _ ∧ _ ∧ _ ∧ (sy.snap = _ → _)
      rw [hsnap]
      obtain ⟨a1, r, a2, a3⟩ := A
      refine ⟨a1, r, a2, a3, full a1 r a2 a3, ?_⟩
      intro hs
      have hc' := recovered_cache r a2
      rw [hs] at hc'; exact hc'
    · -- snapshot in place, log whole, no marker byte
      rw [show sy.ckptSync.ckptSnapshot.crashFile n = sy.wal.file from Sys.crashFile_sync sy n]
      obtain ⟨b1, r, b2, b3, b4⟩ := B 0
      rw [List.take_zero, List.append_nil] at b1 b2
      exact ⟨b1, r, b2, b3, full b1 r b2 b3, fun _ => b4⟩
    · -- marker appended: synced or not, a crash keeps the log and some byte prefix of the marker
      obtain ⟨m, hm⟩ := Sys.crashFile_marker crc enc sy.ckptSync.ckptSnapshot id n hsynced
      rw [hm]
      obtain ⟨b1, r, b2, b3, b4⟩ := B m
      exact ⟨b1, r, b2, b3, full b1 r b2 b3, fun _ => b4⟩
    · -- log truncated
      have := htrunc n
      simp only [Sys.checkpoint] at this
      rw [this]
      exact ⟨C.1, sy.mem, C.2, MetaEq.refl _, fun _ _ => rfl, fun _ => rfl⟩
  · intro n
    rw [htrunc n]
    exact C.2
where
  recovered_cache {snap : Option Store} {f : Bytes} (r : Store)
      (h : recover crc dec snap f = .ok r) : r.cache = (snap.getD Store.empty).cache := by
    unfold recover at h
    simp only [] at h
    split at h
    · cases h
    · injection h with h
      rw [← h, replay_cache]

/-- the live store's metadata map follows the specification map (so "pre-checkpoint map" above is
    the map of all operations issued so far) -/
theorem live_follows_spec (s : Store) (ops : List Op) :
    (runOps s ops).2.md = specRun s.md ops := by
  exact runOps_md s ops

/-- **the live store's full image follows the specification map**: after any operation list on a
    fresh store, `get` answers for every key outside the `_cache:` class exactly what the
    operations wrote (the embedding-slab overlay never shows a vector the value does not carry) -/
theorem live_image_follows_spec (ops : List Op) :
    FullEq (runOps Store.empty ops).2 (specRun [] ops) := by
  apply good_fullEq (good_runOps good_empty ops)
  rw [runOps_md]
  exact MetaEq.refl _

/-- **`scan` lists readable keys only, live and after any crash chain** (the repaired class
    `tensor_store.slab_router.put_durable/non_emb_key_with_vector_stays_in_scan_after_delete`,
    for ALL inputs): on the store recovered from any disk state of the crash model `Reach`
    (`ops = []`; every checkpoint crash point included), and on the live store after ANY further operation list over every key class and
    value, every key that `scan` lists — metadata slab, live entity-index entries, cache ring —
    is answered by `get`.  (Entity-index entries exist for `emb:` keys only and each has its
    metadata record; before the fix this failed: `non_emb_vector_key_witness`.) -/
theorem scan_lists_only_readable_keys (hc : CodecOK crc enc dec) {snap : Option Store} {f : Bytes}
    {tr : Trace} (h : Reach crc enc dec snap f tr) (r : Store) (hr : recover crc dec snap f = .ok r)
    (ops : List Op) :
    ∀ k ∈ scanKeys (runOps r ops).2, (get (runOps r ops).2 k).isSome = true :=
  scan_readable (good_runOps (reach_good hc h r hr) ops) (classed_runOps (reach_classed hc h r hr) ops)

/-- **`exists`, `scan` and `get` tell the same story, live and after any crash chain**: on the
    store recovered from any disk state of the crash model and after ANY further operation list,
    `exists k` is true exactly when `get k` answers, and every key `get` answers is listed by
    `scan` (with `scan_lists_only_readable_keys`: `scan` = the readable keys = the existing
    keys). -/
theorem exists_scan_get_agree (hc : CodecOK crc enc dec) {snap : Option Store} {f : Bytes}
    {tr : Trace} (h : Reach crc enc dec snap f tr) (r : Store) (hr : recover crc dec snap f = .ok r)
    (ops : List Op) (k : Bytes) :
    exists_ (runOps r ops).2 k = (get (runOps r ops).2 k).isSome ∧
    ((get (runOps r ops).2 k).isSome = true → k ∈ scanKeys (runOps r ops).2) :=
  ⟨exists_eq_get_isSome (good_runOps (reach_good hc h r hr) ops) k,
   readable_scanned (good_runOps (reach_good hc h r hr) ops) k⟩

/-- the fresh store: the hypotheses of `scan_lists_only_readable_keys` hold of the empty disk, and
    the statement is not vacuous (a put then lists its key) -/
example : Reach (fun _ => 0) toyEnc toyDec none [] [] ∧
    recover (fun _ => 0) toyDec none [] = .ok Store.empty ∧
    scanKeys (runOps Store.empty [Op.put [97] ⟨[1], some [1, 2, 3, 4]⟩, Op.put [101, 109, 98, 58, 97] ⟨[2], none⟩]).2
      = [[101, 109, 98, 58, 97], [97], [101, 109, 98, 58, 97]] :=
  ⟨.init, by decide +kernel, by decide +kernel⟩

/-- **Exactly the cache class is not durable**: a `_cache:` key logs nothing; every other key's
    operation ends with the record that carries it. -/
theorem cache_keys_not_durable (s : Store) (k : Bytes) (v : Val) :
    (isCacheKey k = true → (putDurable s k v).1 = [] ∧ (deleteDurable s k).1 = []) ∧
    (isCacheKey k = false → (putDurable s k v).1.getLast? = some (.metaSet k v) ∧
                            (deleteDurable s k).1.getLast? = some (.metaDel k)) := by
  rw [putDurable_fst, deleteDurable_fst]
  constructor
  · intro h; simp [h]
  · intro h
    constructor
    · by_cases hk : classify k = .embedding
      · cases hv : v.emb <;> simp [h, hk]
      · simp [h, hk]
    · simp [h]

/-- recovery never invents cache entries: the cache after recovery is the snapshot's cache -/
theorem recovered_cache_is_snapshot_cache (snap : Option Store) (f : Bytes) (r : Store)
    (h : recover crc dec snap f = .ok r) : r.cache = (snap.getD Store.empty).cache :=
  checkpoint_crash_safe.recovered_cache r h

/-- outside the `_cache:` and `emb:` classes `get` reads the metadata map only -/
theorem get_reads_md (s : Store) (k : Bytes) (h1 : classify k ≠ .cache) (h2 : classify k ≠ .embedding) :
    get s k = aget s.md k := by
  unfold get
  split <;> simp_all

/-- the writer's bookkeeping: running operations through `Sys.op` appends exactly `logBytes` of
    their records, and under `Immediate` every returned operation is synced -/
theorem sys_log_is_logBytes (sy : Sys) (ops : List Op) :
    (ops.foldl (Sys.op crc enc) sy).wal.file = sy.wal.file ++ logBytes crc enc (runOps sy.mem ops).1 ∧
    (ops.foldl (Sys.op crc enc) sy).mem = (runOps sy.mem ops).2 := by
  induction ops generalizing sy with
  | nil => simp [runOps_nil, logBytes_nil]
  | cons o ops ih =>
    obtain ⟨h1, h2⟩ := ih (Sys.op crc enc sy o)
    rw [List.foldl_cons, h1, h2, runOps_cons, Sys.op_file, Sys.op_mem, logBytes_append, List.append_assoc]
    exact ⟨rfl, rfl⟩

theorem immediate_acks_everything (sy : Sys) (ops : List Op) (hm : sy.mode = .immediate)
    (h0 : sy.wal.syncedLen = sy.wal.file.length) :
    (ops.foldl (Sys.op crc enc) sy).wal.syncedLen = (ops.foldl (Sys.op crc enc) sy).wal.file.length := by
  induction ops generalizing sy with
  | nil => exact h0
  | cons o ops ih =>
    rw [List.foldl_cons]
    exact ih _ (by rw [Sys.op_mode]; exact hm) (Sys.op_immediate crc enc sy o hm h0)

/-- **A checkpoint taken while another thread keeps writing loses no acknowledged write** (the
    class `tensor_store.slab_router.checkpoint/concurrent_durable_write_lost_by_truncate`, repaired
    by repo a74fb575, for ALL states, operation lists and schedules).  `checkpoint` holds the log
    mutex from its fsync to the truncation and durable writers take it before they log, so every
    schedule of a writer's operations and a checkpoint is `Sys.withCheckpointAt … i`: `i`
    operations, the whole checkpoint, the rest.  From ANY reachable disk state, recovered and
    reopened in `Immediate` mode, for EVERY operation list and EVERY `i`: the running store ends
    as if no checkpoint had been taken, and after the last operation returned, recovery from the
    disk (new snapshot + log, any cut the sync state allows) answers every key outside the
    `_cache:` class exactly as the running store — every write acknowledged before, "during" and
    after the checkpoint is there.  (Released between the steps, the mutex allowed
    `Sys.withCheckpointAtOld`, for which this fails: `checkpoint_concurrent_write_lost_witness`.) -/
theorem checkpoint_serialised_with_writes_keeps_every_ack (hc : CodecOK crc enc dec) {snap : Option Store}
    {f : Bytes} {tr : Trace} (h : Reach crc enc dec snap f tr) (mem0 : Store)
    (hr : recover crc dec snap f = .ok mem0) (ops : List Op) (i id : Nat)
    (hfit : Fits enc (runOps mem0 ops).1) (hid : (enc (.checkpoint id)).length < U32) :
    (Sys.withCheckpointAt crc enc ⟨.immediate, Wal.openOn f, mem0, snap⟩ ops i id).mem = (runOps mem0 ops).2 ∧
    ∀ n, ∃ r,
      recover crc dec (Sys.withCheckpointAt crc enc ⟨.immediate, Wal.openOn f, mem0, snap⟩ ops i id).snap
        ((Sys.withCheckpointAt crc enc ⟨.immediate, Wal.openOn f, mem0, snap⟩ ops i id).crashFile n) = .ok r ∧
      ∀ k, isCacheKey k = false → get r k = get (runOps mem0 ops).2 k := by
  have hsplit : ops.take i ++ ops.drop i = ops := List.take_append_drop i ops
  have hfit' := hfit
  rw [← hsplit, runOps_append_fst] at hfit'
  have hfitA : Fits enc (runOps mem0 (ops.take i)).1 := fun e he => hfit' e (List.mem_append_left _ he)
  have hfitB : Fits enc (runOps (runOps mem0 (ops.take i)).2 (ops.drop i)).1 :=
    fun e he => hfit' e (List.mem_append_right _ he)
  -- the writer's first `i` operations
  obtain ⟨hf1, hm1⟩ := sys_log_is_logBytes (crc := crc) (enc := enc) ⟨.immediate, Wal.openOn f, mem0, snap⟩ (ops.take i)
  obtain ⟨hs1, hmo1⟩ := foldl_op_snap_mode crc enc ⟨.immediate, Wal.openOn f, mem0, snap⟩ (ops.take i)
  generalize hsy1 : (ops.take i).foldl (Sys.op crc enc) ⟨.immediate, Wal.openOn f, mem0, snap⟩ = sy1 at hf1 hm1 hs1 hmo1
  have hM1 : Good sy1.mem := by rw [hm1]; exact good_runOps (reach_good hc h mem0 hr) _
  -- the checkpoint, as one block
  have hsy2 : (Sys.checkpoint crc enc sy1 id).mem = sy1.mem ∧ (Sys.checkpoint crc enc sy1 id).snap = some sy1.mem ∧
      (Sys.checkpoint crc enc sy1 id).wal.file = [] ∧ (Sys.checkpoint crc enc sy1 id).wal.syncedLen = 0 ∧
      (Sys.checkpoint crc enc sy1 id).mode = .immediate := by
    exact ⟨rfl, rfl, rfl, rfl, hmo1⟩
  obtain ⟨h2m, h2s, h2f, h2l, h2mo⟩ := hsy2
  -- the rest of the writer's operations
  obtain ⟨hf3, hm3⟩ := sys_log_is_logBytes (crc := crc) (enc := enc) (Sys.checkpoint crc enc sy1 id) (ops.drop i)
  obtain ⟨hs3, -⟩ := foldl_op_snap_mode crc enc (Sys.checkpoint crc enc sy1 id) (ops.drop i)
  have hsync := immediate_acks_everything (crc := crc) (enc := enc) (Sys.checkpoint crc enc sy1 id) (ops.drop i) h2mo
    (by rw [h2l, h2f]; rfl)
  have hmem : (Sys.withCheckpointAt crc enc ⟨.immediate, Wal.openOn f, mem0, snap⟩ ops i id).mem
      = (runOps mem0 ops).2 := by
    unfold Sys.withCheckpointAt
    rw [hsy1, hm3, h2m, hm1, ← runOps_append_snd, hsplit]
  refine ⟨hmem, fun n => ?_⟩
  unfold Sys.withCheckpointAt
  rw [hsy1]
  have hcf : ((ops.drop i).foldl (Sys.op crc enc) (Sys.checkpoint crc enc sy1 id)).crashFile n
      = logBytes crc enc (runOps sy1.mem (ops.drop i)).1 := by
    unfold Sys.crashFile
    rw [List.take_of_length_le (by rw [hsync]; exact Nat.le_max_right _ _), hf3, h2f, h2m, List.nil_append]
  rw [hcf, hs3, h2s]
  have hplain := runOps_plain sy1.mem (ops.drop i)
  have hfitB' : Fits enc (runOps sy1.mem (ops.drop i)).1 := by rw [hm1]; exact hfitB
  have hrec := recover_full hc (some sy1.mem) _ hfitB' (fun e he => (hplain e he).1)
  have hpl := afterLastCkpt_append_plain [] (runOps sy1.mem (ops.drop i)).1 (fun e he => (hplain e he).2)
  rw [List.nil_append, afterLastCkpt_nil, List.nil_append] at hpl
  rw [hpl] at hrec
  refine ⟨_, hrec, fun k hk => ?_⟩
  have hgr : Good (replay sy1.mem (runOps sy1.mem (ops.drop i)).1) := by
    have := good_replay_take hM1 hM1 (sim_refl _) (ops.drop i) (runOps sy1.mem (ops.drop i)).1.length
    rwa [List.take_length] at this
  have hgl : Good (runOps mem0 ops).2 := good_runOps (reach_good hc h mem0 hr) ops
  show get (replay ((some sy1.mem).getD Store.empty) _) k = _
  rw [show (some sy1.mem).getD Store.empty = sy1.mem from rfl, good_get hgr k hk, good_get hgl k hk,
    replay_md, runOps_replay, ← runOps_md, hm1, ← runOps_append_snd, hsplit]

/-- non-vacuity: a writer's three operations with the checkpoint scheduled after the first — the
    first write is in the snapshot, the log was truncated by the checkpoint and holds the records
    of the two later operations (24 bytes, all synced) -/
example :
    let ops := [Op.put [97] ⟨[1], none⟩, Op.put [107] ⟨[2], none⟩, Op.delete [97]]
    let sy := Sys.withCheckpointAt (fun _ => 0) toyEnc ⟨.immediate, Wal.openOn [], Store.empty, none⟩ ops 1 0
    Reach (fun _ => 0) toyEnc toyDec none [] [] ∧ recover (fun _ => 0) toyDec none [] = .ok Store.empty ∧
    sy.snap = some (runOps Store.empty (ops.take 1)).2 ∧ sy.wal.file.length = 24 ∧
    sy.wal.syncedLen = 24 := by
  refine ⟨.init, by decide +kernel, by decide +kernel, by decide +kernel, by decide +kernel⟩

/-! ### the acknowledgement rule of the three sync modes -/

/-- **Every sync mode, any script of operations and explicit syncs, any crash cut** (`Immediate`,
    `Batched m` for every `m`, `Manual`): a fresh durable store runs ANY list of durable
    operations and `wal_sync` calls; the crash keeps any byte prefix of the log at or beyond the
    synced length.  Recovery succeeds, `get` answers for every key outside the `_cache:` class what
    the first `k` operations wrote (FULL observable image), and every operation whose records end
    at or before the synced length — the acknowledged ones — is among them. -/
theorem acked_writes_survive_every_mode (hc : CodecOK crc enc dec) (mode : SyncMode) (acts : List Act)
    (n : Nat) (hfit : Fits enc (runOps Store.empty (opsOf acts)).1) :
    ∃ k r, k ≤ (opsOf acts).length ∧
      recover crc dec none ((acts.foldl (Sys.act crc enc) (Sys.fresh mode)).crashFile n) = .ok r ∧
      FullEq r (specRun [] ((opsOf acts).take k)) ∧
      ∀ a, a ≤ (opsOf acts).length →
        (logBytes crc enc (runOps Store.empty ((opsOf acts).take a)).1).length
          ≤ (acts.foldl (Sys.act crc enc) (Sys.fresh mode)).wal.syncedLen → a ≤ k := by
  obtain ⟨k, r, hk, hrec, hfull, hack⟩ := recover_is_prefix_full hc (opsOf acts)
    (max n (acts.foldl (Sys.act crc enc) (Sys.fresh mode)).wal.syncedLen) hfit
  have hfile := (acts_file_mem crc enc (Sys.fresh mode) acts).1
  rw [fresh_file, List.nil_append] at hfile
  refine ⟨k, r, hk, ?_, hfull, fun a ha hlen => hack a ha (Nat.le_trans hlen (Nat.le_max_right _ _))⟩
  unfold Sys.crashFile
  rw [hfile]
  exact hrec

/-- **What an explicit `sync` acknowledges** (the `Batched` / `Manual` rule of the property's
    quantifier): in ANY mode, every operation issued before a successful `sync` survives every
    crash that follows, whatever is issued after the sync and wherever the log is cut. -/
theorem writes_before_a_sync_survive (hc : CodecOK crc enc dec) (mode : SyncMode) (pre post : List Act)
    (n : Nat) (hfit : Fits enc (runOps Store.empty (opsOf (pre ++ [Act.sync] ++ post))).1) :
    ∃ k r, (opsOf pre).length ≤ k ∧ k ≤ (opsOf (pre ++ [Act.sync] ++ post)).length ∧
      recover crc dec none
        (((pre ++ [Act.sync] ++ post).foldl (Sys.act crc enc) (Sys.fresh mode)).crashFile n) = .ok r ∧
      FullEq r (specRun [] ((opsOf (pre ++ [Act.sync] ++ post)).take k)) := by
  obtain ⟨k, r, hk, hrec, hfull, hack⟩ :=
    acked_writes_survive_every_mode hc mode (pre ++ [Act.sync] ++ post) n hfit
  refine ⟨k, r, ?_, hk, hrec, hfull⟩
  have hops : opsOf (pre ++ [Act.sync] ++ post) = opsOf pre ++ opsOf post := by
    rw [opsOf_append, opsOf_append]; simp [opsOf]
  apply hack
  · rw [hops]; simp
  · rw [hops, List.take_left']
    · exact sync_covers crc enc mode pre post
    · rfl

/-- **A session in any sync mode on a recovered store is a round of the crash model.**  From ANY
    reachable disk state, recover, then run ANY script of operations and explicit syncs in ANY
    mode (`Immediate`, `Batched m`, `Manual`) on the recovered store with the log reopened
    (tail repaired).  Every crash the sync state allows (any cut at or beyond the synced length)
    leaves a disk state of the crash model again, in which the first `a` operations count as
    acknowledged for EVERY `a` whose records end at or before the synced length — so
    `recover_then_write_full`, `checkpoint_crash_safe`, `scan_lists_only_readable_keys`,
    `bloom_recovery_is_transparent` apply to it and to everything that follows: the guarantee is
    kept for everything written after a recovery, in every mode. -/
theorem session_in_any_mode_is_a_round (hc : CodecOK crc enc dec) {snap : Option Store} {f : Bytes}
    {tr : Trace} (h : Reach crc enc dec snap f tr) (mem0 : Store) (hr : recover crc dec snap f = .ok mem0)
    (mode : SyncMode) (acts : List Act) (hfit : Fits enc (runOps mem0 (opsOf acts)).1) (n a : Nat)
    (ha : a ≤ (opsOf acts).length)
    (hsync : (openRepair f ++ logBytes crc enc (runOps mem0 ((opsOf acts).take a)).1).length
      ≤ (acts.foldl (Sys.act crc enc) ⟨mode, Wal.openOn f, mem0, snap⟩).wal.syncedLen) :
    Reach crc enc dec snap ((acts.foldl (Sys.act crc enc) ⟨mode, Wal.openOn f, mem0, snap⟩).crashFile n)
      (tr ++ [(opsOf acts, a)]) ∧
    ∃ H r, PrefixOf (tr ++ [(opsOf acts, a)]) H ∧
      recover crc dec snap ((acts.foldl (Sys.act crc enc) ⟨mode, Wal.openOn f, mem0, snap⟩).crashFile n) = .ok r ∧
      FullEq r (specRun [] H) := by
  have hfile := (acts_file_mem crc enc ⟨mode, Wal.openOn f, mem0, snap⟩ acts).1
  have h0 : (⟨mode, Wal.openOn f, mem0, snap⟩ : Sys).wal.syncedLen
      ≤ (⟨mode, Wal.openOn f, mem0, snap⟩ : Sys).wal.file.length := Nat.le_refl _
  have hmono := (acts_synced_le crc enc ⟨mode, Wal.openOn f, mem0, snap⟩ acts h0).1
  have hreach : Reach crc enc dec snap
      ((acts.foldl (Sys.act crc enc) ⟨mode, Wal.openOn f, mem0, snap⟩).crashFile n) (tr ++ [(opsOf acts, a)]) := by
    unfold Sys.crashFile
    rw [hfile]
    exact Reach.round mem0 (opsOf acts) a _ h hr hfit
      (Nat.le_trans hmono (Nat.le_max_right _ _)) ha (Nat.le_trans hsync (Nat.le_max_right _ _))
  exact ⟨hreach, recover_then_write_full hc hreach⟩

/-- the hypotheses of `session_in_any_mode_is_a_round` on the empty disk, `Manual` mode,
    `put; sync; put`: the first operation is acknowledged (its 14 bytes are synced), the second is not -/
example :
    let acts := [Act.op (.put [107] ⟨[1], none⟩), .sync, .op (.put [106] ⟨[2], none⟩)]
    let sy := acts.foldl (Sys.act (fun _ => 0) toyEnc) ⟨.manual, Wal.openOn [], Store.empty, none⟩
    Reach (fun _ => 0) toyEnc toyDec none [] [] ∧ recover (fun _ => 0) toyDec none [] = .ok Store.empty ∧
    (openRepair [] ++ logBytes (fun _ => 0) toyEnc (runOps Store.empty ((opsOf acts).take 1)).1).length
      ≤ sy.wal.syncedLen ∧ sy.wal.syncedLen = 14 ∧ sy.wal.file.length = 28 :=
  ⟨.init, by decide +kernel, by decide +kernel, by decide +kernel, by decide +kernel⟩

/-- **`Batched m` leaves fewer than `m` records unacknowledged**: after any script on a fresh store
    the unsynced part of the log is exactly its last `pending` records, and `pending < max m 1`
    (`maybe_sync` fires when `pending_sync_count >= max_entries`; `m = 0` or `1` sync every
    record). -/
theorem batched_bounds_unacknowledged (m : Nat) (acts : List Act) :
    let w := (acts.foldl (Sys.act crc enc) (Sys.fresh (.batched m))).wal
    let R := (runOps Store.empty (opsOf acts)).1
    w.file = logBytes crc enc R ∧ w.pending < max m 1 ∧ w.pending ≤ R.length ∧
      w.syncedLen = (logBytes crc enc (R.take (R.length - w.pending))).length := by
  have h := binv_acts crc enc m (Sys.fresh (.batched m)) [] rfl (binv_fresh crc enc m) acts
  rw [List.nil_append] at h
  exact ⟨h.file, h.bound, h.le, h.synced⟩

/-- a `Batched 3` script with an explicit sync in the middle: 5 records, the first 4 synced (3 by
    the automatic sync, the 4th by the explicit one), one pending -/
example :
    let acts := [Act.op (.put [1] ⟨[1], none⟩), .op (.put [2] ⟨[2], none⟩), .op (.put [3] ⟨[3], none⟩),
                 .op (.put [4] ⟨[4], none⟩), .sync, .op (.put [5] ⟨[5], none⟩)]
    let w := (acts.foldl (Sys.act (fun _ => 0) toyEnc) (Sys.fresh (.batched 3))).wal
    w.pending = 1 ∧ w.syncedLen = 56 ∧ w.file.length = 70 := by
  decide +kernel

/-! ### appends that fail -/

/-- **A write that returned an error is never visible after a crash, whatever fails.**
    `put_durable` / `delete_durable` append their records one by one and return the first append
    error (`SizeLimitExceeded` under `auto_rotate = false`, an I/O error) before touching memory.
    For EVERY failure pattern (`plan`: for each operation, `none` = all its records are appended,
    `some t` = the append of record `t` fails), every operation list over every key class and
    value, and every crash cut `n`: recovery succeeds and `get` on the recovered store answers, for
    every key outside the `_cache:` class, exactly what the first `k` operations THAT RETURNED `Ok`
    wrote — although the log holds orphan strict prefixes of the records of the failed ones
    (an `EmbeddingSet` without its `MetadataSet`; `EmbeddingDelete` + `EntityRemove` without their
    `MetadataDelete`) in the middle — and every `Ok` operation whose records lie wholly before
    the cut is among them. -/
theorem failed_writes_are_invisible (hc : CodecOK crc enc dec) (plan : List (Op × Option Nat)) (n : Nat)
    (hfit : Fits enc (runOpsF Store.empty plan).1) :
    ∃ k r, k ≤ (runOpsF Store.empty plan).2.2.length ∧
      recover crc dec none ((logBytes crc enc (runOpsF Store.empty plan).1).take n) = .ok r ∧
      FullEq r (specRun [] ((runOpsF Store.empty plan).2.2.take k)) ∧
      ∀ a, a ≤ plan.length →
        (logBytes crc enc (runOpsF Store.empty (plan.take a)).1).length ≤ n →
        (runOpsF Store.empty (plan.take a)).2.2.length ≤ k := by
  have hplain := runOpsF_plain Store.empty plan
  have hno : NoTx (runOpsF Store.empty plan).1 := fun e he => (hplain e he).1
  obtain ⟨k, hk, hrep, hgrp⟩ := group_prefixF Store.empty plan
    (wholeWithin crc ((runOpsF Store.empty plan).1.map enc) n)
  have hrec := recover_take_plain hc none _ n hfit hno
  have hpl := afterLastCkpt_append_plain []
    ((runOpsF Store.empty plan).1.take (wholeWithin crc ((runOpsF Store.empty plan).1.map enc) n))
    (fun e he => (hplain e (List.mem_of_mem_take he)).2)
  rw [List.nil_append, afterLastCkpt_nil, List.nil_append] at hpl
  refine ⟨k, _, hk, hrec, ?_, ?_⟩
  · apply good_fullEq
    · rw [hpl]
      exact good_replayF_take good_empty good_empty.nodup (simle_refl _) plan _
    · rw [replay_md, hpl]
      show MetaEq (replayMeta Store.empty.md _) _
      rw [hrep]
      exact MetaEq.refl _
  · intro a ha hlen
    apply hgrp a ha
    obtain ⟨rest, hrest⟩ := runOpsF_take_prefix Store.empty plan a
    apply wholeWithin_ge crc _ _ n (by rw [hrest]; simp)
    rw [← List.map_take, hrest, List.take_left']
    · exact hlen
    · rfl

/-- **The `auto_rotate = false` writer is such a session**: running any operation list through
    `Sys.opLim` (every record that would take the file beyond `max_size_bytes` is refused) leaves
    the log and the memory of `runOpsF` for some failure pattern — so
    `failed_writes_are_invisible` applies to every size limit. -/
theorem size_limited_session_is_a_plan (maxSize : Nat) (sy : Sys) (ops : List Op) :
    ∃ plan : List (Op × Option Nat), plan.map (·.1) = ops ∧
      (ops.foldl (Sys.opLim crc enc maxSize) sy).wal.file
        = sy.wal.file ++ logBytes crc enc (runOpsF sy.mem plan).1 ∧
      (ops.foldl (Sys.opLim crc enc maxSize) sy).mem = (runOpsF sy.mem plan).2.1 := by
  induction ops generalizing sy with
  | nil => exact ⟨[], rfl, by simp [runOpsF_nil, logBytes_nil], rfl⟩
  | cons o ops ih =>
    obtain ⟨plan, hp, hf, hm⟩ := ih (Sys.opLim crc enc maxSize sy o)
    obtain ⟨hle, hfile⟩ := logLim_spec crc enc sy.mode maxSize sy.wal (step sy.mem o).1
    refine ⟨(o, some (logLim crc enc sy.mode maxSize sy.wal (step sy.mem o).1).2) :: plan, by simp [hp], ?_, ?_⟩
    · rw [List.foldl_cons, hf, runOpsF_cons]
      simp only []
      rw [logBytes_append, stepF_fst_take _ _ _ hle, ← List.append_assoc, ← hfile]
      rfl
    · rw [List.foldl_cons, hm, runOpsF_cons]
      rfl

/-- **A write that returned an error leaves no trace in the running store either** (the class
    `tensor_store.slab_router.put_durable/failed_put_leaves_entity_index_entry`, repaired by repo
    f5ce42e5, for ALL states and operations; `failMem` = the memory after an operation one of
    whose appends was refused).  For EVERY store `s` — whatever is in its slabs and its entity
    index — and every operation of every key class and value: `get`, `exists` and `scan` answer
    after the failed operation exactly as before it, for every key; and the overlay invariant
    `Good` (hence "`exists` = `get` answers", "`scan` lists readable keys only") is kept.
    (`put_durable` allocates the entity id before it logs; it is released again on both error
    paths: what stays is a tombstoned vocabulary slot.  Before the fix the entry stayed live:
    `failed_put_leaves_index_entry_witness`.) -/
theorem failed_write_leaves_store_unchanged (s : Store) (op : Op) :
    (∀ k, get (failMem s op) k = get s k) ∧ (∀ k, exists_ (failMem s op) k = exists_ s k) ∧
    scanKeys (failMem s op) = scanKeys s ∧ (Good s → Good (failMem s op)) :=
  ⟨failMem_get s op, failMem_exists s op, failMem_scan s op, fun hg => good_failMem hg op⟩

/-- non-vacuity: the failed put of a NEW `emb:` key with a vector does change the representation
    (the id it was given is consumed: one dead slot), and an existing entry is left alone -/
example :
    let ka := [101, 109, 98, 58, 97]
    let s1 := (step Store.empty (Op.put ka ⟨[1], some [1, 2, 3, 4]⟩)).2
    (failMem Store.empty (Op.put ka ⟨[1], some [1, 2, 3, 4]⟩)).vocab = [(ka, false)] ∧
    failMem s1 (Op.put ka ⟨[2], some [5, 6, 7, 8]⟩) = s1 ∧ s1.vocab = [(ka, true)] := by
  decide +kernel

/-- **The running store of a session with failing appends answers exactly the operations that
    returned `Ok`** — on the store recovered from ANY disk state of the crash model, for EVERY
    failure pattern, operation list, key class and value: `get` answers every key outside the
    `_cache:` class with what the history of the recovered store followed by the `Ok` operations
    wrote; `exists k` is true exactly when `get k` answers; `scan` lists exactly the readable keys.
    (Before repo f5ce42e5 all three failed on the live store after one refused put.) -/
theorem failing_session_live_store_is_coherent (hc : CodecOK crc enc dec) {snap : Option Store} {f : Bytes}
    {tr : Trace} (h : Reach crc enc dec snap f tr) (r : Store) (hr : recover crc dec snap f = .ok r)
    (plan : List (Op × Option Nat)) :
    FullEq (runOpsF r plan).2.1 (specRun r.md (runOpsF r plan).2.2) ∧
    ∀ k, exists_ (runOpsF r plan).2.1 k = (get (runOpsF r plan).2.1 k).isSome ∧
      (k ∈ scanKeys (runOpsF r plan).2.1 ↔ (get (runOpsF r plan).2.1 k).isSome = true) := by
  have hg := good_runOpsF (reach_good hc h r hr) plan
  have hcl := classed_runOpsF (reach_classed hc h r hr) plan
  refine ⟨good_fullEq hg (by rw [runOpsF_md]; exact MetaEq.refl _), fun k => ⟨exists_eq_get_isSome hg k, ?_⟩⟩
  exact ⟨scan_readable hg hcl k, readable_scanned hg k⟩

/-- the same on a fresh store: a refused put of a new `emb:` key with a vector between two
    successful puts — two operations returned `Ok`, `scan` lists their keys and nothing else -/
example :
    let ka := [101, 109, 98, 58, 97]
    let plan : List (Op × Option Nat) :=
      [(Op.put [107] ⟨[1], none⟩, none), (Op.put ka ⟨[1], some [1, 2, 3, 4]⟩, some 0), (Op.put [106] ⟨[2], none⟩, none)]
    Reach (fun _ => 0) toyEnc toyDec none [] [] ∧ recover (fun _ => 0) toyDec none [] = .ok Store.empty ∧
    (runOpsF Store.empty plan).2.2.length = 2 ∧ scanKeys (runOpsF Store.empty plan).2.1 = [[106], [107]] ∧
    exists_ (runOpsF Store.empty plan).2.1 ka = false :=
  ⟨.init, by decide +kernel, by decide +kernel, by decide +kernel, by decide +kernel⟩

/-- **Before repo f5ce42e5 a failed `put_durable` left its key in the entity index** (class
    `tensor_store.slab_router.put_durable/failed_put_leaves_entity_index_entry`; `failMemOld` /
    `runOpsFOld` = the code before the fix): `put_durable emb:a` with a vector whose very first
    append is refused.  The operation returns an error and no record is logged, but
    `index.get_or_create(key)` ran before the append and was not undone: on the LIVE store
    `exists` said true and `scan` listed a key that no successful write created and that `get`
    rejects, and a later checkpoint persisted the entry (recovery from that snapshot returns the
    same store).  With the repaired code the same session leaves a store on which `exists` is
    false, `scan` lists nothing and `get` rejects the key
    (`failed_write_leaves_store_unchanged` for every state and operation). -/
theorem failed_put_leaves_index_entry_witness :
    let ka := [101, 109, 98, 58, 97]
    let plan : List (Op × Option Nat) := [(Op.put ka ⟨[1], some [1, 2, 3, 4]⟩, some 0)]
    let L := (runOpsFOld Store.empty plan).2.1
    let L' := (runOpsF Store.empty plan).2.1
    ((runOpsFOld Store.empty plan).1 = [] ∧ (runOpsFOld Store.empty plan).2.2 = [] ∧
      exists_ L ka = true ∧ ka ∈ scanKeys L ∧ get L ka = none ∧ ¬ Good L ∧
      recover (fun _ => 0) toyDec (some L) [] = .ok L) ∧
    ((runOpsF Store.empty plan).1 = [] ∧ (runOpsF Store.empty plan).2.2 = [] ∧
      exists_ L' ka = false ∧ scanKeys L' = [] ∧ get L' ka = none) := by
  intro ka plan L L'
  refine ⟨⟨by decide +kernel, by decide +kernel, by decide +kernel, by decide +kernel, by decide +kernel, ?_,
    by decide +kernel⟩, by decide +kernel⟩
  intro hg
  have := hg.idxmd ka 0 (by decide +kernel) (by decide +kernel)
  exact absurd this (by decide +kernel)

/-- non-vacuity of `failed_writes_are_invisible`: a failed delete in the middle (its
    `EmbeddingDelete` and `EntityRemove` records logged, the `MetadataDelete` refused) followed
    by a successful put: 2 of the 3 operations returned `Ok`, 5 records in the log -/
example :
    let ka := [101, 109, 98, 58, 97]
    let plan : List (Op × Option Nat) :=
      [(Op.put ka ⟨[1], some [1, 2, 3, 4]⟩, none), (Op.delete ka, some 2), (Op.put [98] ⟨[2], none⟩, none)]
    (runOpsF Store.empty plan).1.length = 5 ∧ (runOpsF Store.empty plan).2.2.length = 2 := by
  decide +kernel

/-! ### the Bloom-filtered store -/

/-- **A Bloom filter never hides a durable key** (`open_durable_with_bloom`,
    `recover_with_bloom`: `get` / `exists` answer "absent" for a key the filter has not been given;
    after a recovery the filter is rebuilt from `scan("")` and every `put_durable` adds its key).
    On the store recovered from ANY disk state of the crash model, and after ANY further
    operation list, the filtered store answers every `get` exactly as the unfiltered router —
    whatever the false positives `fp` of the filter — so all the statements above hold of it
    unchanged. -/
theorem bloom_recovery_is_transparent (hc : CodecOK crc enc dec) {snap : Option Store} {f : Bytes}
    {tr : Trace} (h : Reach crc enc dec snap f tr) (b : BStore)
    (hb : recoverBloom crc dec snap f = .ok b) (fp : Bytes → Bool) (ops : List Op) :
    recover crc dec snap f = .ok b.store ∧
      ∀ k, (b.runOps ops).get fp k = get (runOps b.store ops).2 k := by
  unfold recoverBloom at hb
  cases hr : recover crc dec snap f with
  | error e => rw [hr] at hb; cases hb
  | ok r =>
    rw [hr] at hb
    injection hb with hb
    subst hb
    refine ⟨rfl, fun k => ?_⟩
    have hg := reach_good hc h r hr
    rw [cover_get (cover_runOps (b := ⟨r, scanKeys r⟩) hg (cover_recovered hg) ops) fp k,
      bstore_runOps_store]

/-- the same for a store opened fresh with a filter -/
theorem bloom_fresh_is_transparent (fp : Bytes → Bool) (ops : List Op) (k : Bytes) :
    (BStore.empty.runOps ops).get fp k = get (runOps Store.empty ops).2 k := by
  rw [cover_get (cover_runOps (b := BStore.empty) good_empty cover_empty ops) fp k, bstore_runOps_store]
  rfl

/-- the filter matters: with a filter that was NOT given the recovered keys (`added = []`) a
    recovered key is hidden — what `recover_with_bloom` avoids by rebuilding from `scan` -/
example :
    let r := (runOps Store.empty [Op.put [107] ⟨[1], none⟩]).2
    (BStore.get (fun _ => false) ⟨r, []⟩ [107] = none) ∧ get r [107] = some ⟨[1], none⟩ ∧
    BStore.get (fun _ => false) ⟨r, scanKeys r⟩ [107] = some ⟨[1], none⟩ := by
  decide +kernel

/-- **Rotation, logs that never rotate** (`_partial`: what is MISSING is every log that does
    rotate — there the property is false, see `rotation_keeps_acked_witness`): when all records
    fit `max_size_bytes`, the rotating writer's live file is the whole log and recovery yields
    the map of all operations. -/
theorem rotation_keeps_acked_partial (hc : CodecOK crc enc dec) (maxSize : Nat) (ops : List Op)
    (hfit : Fits enc (runOps Store.empty ops).1)
    (hsmall : (logBytes crc enc (runOps Store.empty ops).1).length ≤ maxSize) :
    RotationKeepsAcked crc enc dec maxSize ops := by
  have hplain := runOps_plain Store.empty ops
  have hfile : (rotLog crc enc maxSize (runOps Store.empty ops).1).file
      = logBytes crc enc (runOps Store.empty ops).1 := by
    have := foldl_appendRot_no_rotation crc enc maxSize (runOps Store.empty ops).1 (Wal.openOn [])
      (by simpa [Wal.openOn, openRepair_nil] using hsmall)
    simpa [rotLog, Wal.openOn, openRepair_nil] using this
  refine ⟨_, by rw [hfile]; exact recover_full hc none _ hfit (fun e he => (hplain e he).1), ?_⟩
  rw [replay_md]
  have := afterLastCkpt_append_plain [] (runOps Store.empty ops).1 (fun e he => (hplain e he).2)
  rw [List.nil_append, afterLastCkpt_nil, List.nil_append] at this
  rw [this]
  show MetaEq (replayMeta Store.empty.md _) _
  rw [runOps_replay]
  exact MetaEq.refl _

/-- **The step boundaries of `TensorWal::rotate`** (`max_rotated_files = m ≥ 1`; the directory after
    each file-system call: oldest segment removed / each rename of the shifting loop / live file
    renamed to `.1` / fresh live file created).  At EVERY boundary the file recovery reads is
    either the live file as it was before the rotation or empty, and every record of the live
    file and of every segment except the oldest is still in some file (no rename overwrites a
    file that holds records) — so the acknowledged records a crash inside `rotate` keeps from
    recovery are never destroyed by the rotation itself, only not read
    (`rotation_step_loses_live_file_witness`; finding
    `tensor_store.wal.rotate/acked_entries_not_replayed`). -/
theorem rotation_steps_keep_all_but_oldest (m : Nat) (hm : 1 ≤ m) (d : LogDir) :
    ∀ st ∈ d.rotateSteps m,
      (st.recoverFile = d.recoverFile ∨ st.recoverFile = []) ∧
      (∀ c, d.live = some c → st.holds c) ∧
      (∀ n c, n ≠ m → aget d.segs n = some c → st.holds c) := by
  intro st hst
  have hfree : aget (aerase d.segs m) (m - 1 + 1) = none := by
    rw [Nat.sub_add_cancel hm]; exact aget_aerase_eq _ _
  obtain ⟨k1, k2, k3, k4⟩ := shift_keeps { d with segs := aerase d.segs m } (m - 1) hfree
  have hd0 : ∀ n c, n ≠ m → aget d.segs n = some c → aget (aerase d.segs m) n = some c := by
    intro n c hn h
    rw [aget_aerase_ne _ _ _ (Ne.symm hn)]; exact h
  -- the directory after "live file renamed to `.1`", whatever directory the shifting loop ends in
  have last : ∀ d1 : LogDir, d1.live = d.live →
      (∀ n c, aget (aerase d.segs m) n = some c → ∃ n', aget d1.segs n' = some c) →
      aget d1.segs 1 = none →
      d1.retire.live = none ∧
      (∀ c, d.live = some c → ∃ n, aget d1.retire.segs n = some c) ∧
      (∀ n c, n ≠ m → aget d.segs n = some c → ∃ n', aget d1.retire.segs n' = some c) := by
    intro d1 h1 h3 h4
    unfold LogDir.retire
    cases hl : d1.live with
    | none =>
      refine ⟨hl, fun c hc => ?_, fun n c hn h => h3 n c (hd0 n c hn h)⟩
      rw [← h1, hl] at hc; cases hc
    | some c0 =>
      refine ⟨rfl, fun c hc => ?_, fun n c hn h => ?_⟩
      · rw [← h1, hl] at hc
        injection hc with hc
        subst hc
        exact ⟨1, aget_aset_eq _ _ _⟩
      · obtain ⟨n', hn'⟩ := h3 n c (hd0 n c hn h)
        have : n' ≠ 1 := by intro e; subst e; rw [h4] at hn'; cases hn'
        exact ⟨n', by rw [aget_aset_ne _ _ _ _ (Ne.symm this)]; exact hn'⟩
  obtain ⟨l1, l2, l3⟩ := last _ k2 k3 k4
  rcases mem_rotateSteps hst with rfl | h | rfl | rfl
  · exact ⟨.inl rfl, fun c hc => .inl hc, fun n c hn h => .inr ⟨n, hd0 n c hn h⟩⟩
  · obtain ⟨a, b⟩ := k1 st h
    exact ⟨.inl (by unfold LogDir.recoverFile; rw [a]), fun c hc => .inl (a.trans hc),
      fun n c hn h' => .inr (b n c (hd0 n c hn h'))⟩
  · exact ⟨.inr (by unfold LogDir.recoverFile; rw [l1]; rfl), fun c hc => .inr (l2 c hc),
      fun n c hn h => .inr (l3 n c hn h)⟩
  · exact ⟨.inr rfl, fun c hc => .inr (l2 c hc), fun n c hn h => .inr (l3 n c hn h)⟩

/-- the hypotheses of `rotation_steps_keep_all_but_oldest` on a directory with a live file and two
    segments (`max_rotated_files = 2`): four step boundaries; after the third the log path does
    not exist, after the fourth it is empty, and `.1` holds the former live file -/
example :
    let d : LogDir := ⟨some [1, 2, 3], [(1, [4]), (2, [5])]⟩
    (d.rotateSteps 2).length = 4 ∧
    (d.rotateSteps 2).map (·.recoverFile) = [[1, 2, 3], [1, 2, 3], [], []] ∧
    (d.rotateSteps 2).getLast? = some ⟨some [], [(1, [1, 2, 3]), (2, [4])]⟩ := by
  decide +kernel

/-! ### refuted statements (concrete witnesses) -/

/-- **Pre-fix `open` (append at physical EOF) loses an acknowledged record** — the defect class
    `tensor_store.wal.open/append_after_torn_tail`; with the repaired `open` it is recovered. -/
theorem append_after_torn_tail_witness :
    let crc := Neumann.Crc32.crc32
    let torn := (encodeRec crc [1, 2, 3]).take 9
    (parse crc (fun _ => true) (openOld torn ++ encodeRec crc [9])) = ([], .badCrc) ∧
    (parse crc (fun _ => true) (openRepair torn ++ encodeRec crc [9])) = ([[9]], .clean) := by
  decide +kernel

/-- **Rotation loses acknowledged entries, frame level** (finding
    `tensor_store.wal.rotate/acked_entries_not_replayed`): with `max_size_bytes = 30`, three
    acknowledged 3-byte records under `Immediate`; the file recovery reads holds only the last one. -/
theorem rotation_loses_acked_witness :
    let crc := Neumann.Crc32.crc32
    let w := [[1, 1, 1], [2, 2, 2], [3, 3, 3]].foldl
      (fun w p => Wal.appendRot .immediate 30 w (encodeRec crc p)) (Wal.openOn [])
    w.syncedLen = w.file.length ∧ (parse crc (fun _ => true) w.file) = ([[3, 3, 3]], .clean) := by
  decide +kernel

/-- **`RotationKeepsAcked` is false of the code** (same finding, at the level of the property):
    `max_size_bytes = 30`, three acknowledged puts of 14-byte records; recovery from the live
    file knows only the last key. -/
theorem rotation_keeps_acked_witness :
    ¬ RotationKeepsAcked (fun _ => 0) toyEnc toyDec 30
        [Op.put [1] ⟨[1], none⟩, Op.put [2] ⟨[2], none⟩, Op.put [3] ⟨[3], none⟩] := by
  intro ⟨r, hr, hme⟩
  obtain ⟨r0, hr0, hp⟩ := exists_ok_of_okAnd
    (x := recover (fun _ => 0) toyDec none (rotLog (fun _ => 0) toyEnc 30
      (runOps Store.empty [Op.put [1] ⟨[1], none⟩, Op.put [2] ⟨[2], none⟩, Op.put [3] ⟨[3], none⟩]).1).file)
    (p := fun r => decide (aget r.md [1] = none)) (by decide +kernel)
  rw [hr0] at hr
  injection hr with hr
  subst hr
  have h1 := hme [1]
  rw [of_decide_eq_true hp] at h1
  exact absurd h1 (by decide +kernel)

/-- **A crash inside `rotate` after the live file has been renamed** (same finding, at a step
    boundary): two acknowledged puts, then a rotation; at the boundary "live file renamed to `.1`,
    fresh file not yet created" (and at the next one) recovery reads nothing and returns the empty
    store, although `.1` holds both records. -/
theorem rotation_step_loses_live_file_witness :
    let crc : Bytes → Nat := fun _ => 0
    let ops := [Op.put [1] ⟨[1], none⟩, Op.put [2] ⟨[2], none⟩]
    let file := logBytes crc toyEnc (runOps Store.empty ops).1
    let d : LogDir := ⟨some file, []⟩
    ∃ st ∈ d.rotateSteps 2, st.live = none ∧ aget st.segs 1 = some file ∧
      ∃ r, recover crc toyDec none st.recoverFile = .ok r ∧ aget r.md [1] = none ∧
        ¬ MetaEq r.md (specRun [] ops) := by
  intro crc ops file d
  refine ⟨⟨none, [(1, file)]⟩, by decide +kernel, rfl, by decide +kernel, Store.empty, by decide +kernel,
    rfl, ?_⟩
  intro h
  exact absurd (h [1]) (by decide +kernel)

/-- **Checkpoint without the fsync step** (class
    `tensor_store.slab_router.checkpoint/unsynced_tail_replayed_over_snapshot`, fixed by repo
    197dc525; `Sys.ckptStepsOld` = the steps before that commit): `Manual` mode,
    `put k v1; sync; put k v2; put j w; checkpoint` crashing right after the snapshot is in place.
    Recovery = new snapshot + the synced log prefix replayed over it = `{k ↦ v1, j ↦ w}`,
    which is the map of NO prefix of the operations.  (`checkpoint_crash_safe` shows the repaired
    steps exclude this for every mode.) -/
theorem checkpoint_unsynced_tail_witness :
    let crc := Neumann.Crc32.crc32
    let k := [107]; let j := [106]
    let v1 : Val := ⟨[1], none⟩; let v2 : Val := ⟨[2], none⟩; let w : Val := ⟨[3], none⟩
    let ops := [Op.put k v1, Op.put k v2, Op.put j w]
    let s0 : Sys := ⟨.manual, Wal.openOn [], Store.empty, none⟩
    let s1 := (Sys.op crc toyEnc s0 (ops.getD 0 (.delete []))).sync
    let s2 := (ops.drop 1).foldl (Sys.op crc toyEnc) s1
    ∃ st ∈ Sys.ckptStepsOld crc toyEnc s2 0, ∃ r,
      recover crc toyDec st.snap (st.crashFile 0) = .ok r ∧
      aget r.md k = some v1 ∧ aget r.md j = some w ∧
      ∀ n, ¬ MetaEq r.md (specRun [] (ops.take n)) := by
  intro crc k j v1 v2 w ops s0 s1 s2
  refine ⟨s2.ckptSnapshot, List.mem_cons_self, ?_⟩
  obtain ⟨r, hr, hmd⟩ := exists_ok_of_md
    (x := recover crc toyDec s2.ckptSnapshot.snap (s2.ckptSnapshot.crashFile 0))
    (m := [(k, v1), (j, w)]) (by decide +kernel)
  refine ⟨r, hr, ?_, ?_, ?_⟩
  · rw [hmd]; decide +kernel
  · rw [hmd]; decide +kernel
  · rw [hmd]
    intro n hme
    match n with
    | 0 => exact absurd (hme k) (by decide +kernel)
    | 1 => exact absurd (hme j) (by decide +kernel)
    | 2 => exact absurd (hme k) (by decide +kernel)
    | n + 3 =>
      have ht : ops.take (n + 3) = ops := List.take_of_length_le (by simp [ops])
      rw [ht] at hme
      exact absurd (hme k) (by decide +kernel)

/-- **Before repo a74fb575 a durable write that overlapped a checkpoint was lost** (class
    `tensor_store.slab_router.checkpoint/concurrent_durable_write_lost_by_truncate`;
    `Sys.withCheckpointAtOld` = the schedules possible while `checkpoint` released the log mutex
    between its fsync, the snapshot and the marker + truncate steps).  A `put_durable` of another
    thread that ran after the snapshot was taken and before the log was truncated was logged,
    fsynced and acknowledged (`Immediate`), was not in the snapshot, and its record was wiped by
    the truncation: once the checkpoint had returned, the live store answered the key but
    recovery from the disk, at every cut, did not.  With the mutex held across the four steps
    the same two operations and the checkpoint can only be scheduled as
    `Sys.withCheckpointAt … i` for `i = 0, 1, 2`, and recovery answers the key in each
    (`checkpoint_serialised_with_writes_keeps_every_ack` for every state, operation list and
    schedule). -/
theorem checkpoint_concurrent_write_lost_witness :
    let crc : Bytes → Nat := fun _ => 0
    let ops := [Op.put [97] ⟨[1], none⟩, Op.put [107] ⟨[2], none⟩]
    let s4 := Sys.withCheckpointAtOld crc toyEnc (Sys.fresh .immediate) ops 1 1 0
    (get s4.mem [107] = some ⟨[2], none⟩ ∧
      ∀ n, ∃ r, recover crc toyDec s4.snap (s4.crashFile n) = .ok r ∧ get r [107] = none ∧
        get r [97] = some ⟨[1], none⟩) ∧
    ∀ i ∈ [0, 1, 2], ∀ n, ∃ r,
      recover crc toyDec (Sys.withCheckpointAt crc toyEnc (Sys.fresh .immediate) ops i 0).snap
        ((Sys.withCheckpointAt crc toyEnc (Sys.fresh .immediate) ops i 0).crashFile n) = .ok r ∧
      get r [107] = some ⟨[2], none⟩ ∧ get r [97] = some ⟨[1], none⟩ := by
  intro crc ops s4
  have go : ∀ (sy : Sys) (p : Store → Bool) (n : Nat), sy.wal.syncedLen = sy.wal.file.length →
      okAnd (recover crc toyDec sy.snap sy.wal.file) p = true →
      ∃ r, recover crc toyDec sy.snap (sy.crashFile n) = .ok r ∧ p r = true := by
    intro sy p n hs hp
    have : sy.crashFile n = sy.wal.file := by
      unfold Sys.crashFile
      exact List.take_of_length_le (by rw [hs]; exact Nat.le_max_right _ _)
    rw [this]
    exact exists_ok_of_okAnd hp
  refine ⟨⟨by decide +kernel, fun n => ?_⟩, ?_⟩
  · obtain ⟨r, hr, hp⟩ := go s4 (fun r => decide (get r [107] = none ∧ get r [97] = some ⟨[1], none⟩)) n
      (by decide +kernel) (by decide +kernel)
    exact ⟨r, hr, of_decide_eq_true hp⟩
  · intro i hi n
    simp only [List.mem_cons, List.not_mem_nil, or_false] at hi
    rcases hi with rfl | rfl | rfl
    · obtain ⟨r, hr, hp⟩ := go (Sys.withCheckpointAt crc toyEnc (Sys.fresh .immediate) ops 0 0)
        (fun r => decide (get r [107] = some ⟨[2], none⟩ ∧ get r [97] = some ⟨[1], none⟩)) n
        (by decide +kernel) (by decide +kernel)
      exact ⟨r, hr, of_decide_eq_true hp⟩
    · obtain ⟨r, hr, hp⟩ := go (Sys.withCheckpointAt crc toyEnc (Sys.fresh .immediate) ops 1 0)
        (fun r => decide (get r [107] = some ⟨[2], none⟩ ∧ get r [97] = some ⟨[1], none⟩)) n
        (by decide +kernel) (by decide +kernel)
      exact ⟨r, hr, of_decide_eq_true hp⟩
    · obtain ⟨r, hr, hp⟩ := go (Sys.withCheckpointAt crc toyEnc (Sys.fresh .immediate) ops 2 0)
        (fun r => decide (get r [107] = some ⟨[2], none⟩ ∧ get r [97] = some ⟨[1], none⟩)) n
        (by decide +kernel) (by decide +kernel)
      exact ⟨r, hr, of_decide_eq_true hp⟩

/-- **An `emb:` key stored without a vector read another key's embedding** (class
    `tensor_store.slab_router.recover/stale_entity_id_embedding`, fixed by repo e374d74b;
    `applyEntryOld1` / `putOld` = the code before it): `put emb:a` (no vector), `put emb:b`
    (384-dim vector), crash, recover, `put emb:c` (no vector): `get emb:c` returned `emb:b`'s
    vector.  With the repaired `recover` / `put` it returns what was written. -/
theorem stale_entity_id_embedding_witness :
    let crc : Bytes → Nat := fun _ => 0
    let ka := [101, 109, 98, 58, 97]; let kb := [101, 109, 98, 58, 98]; let kc := [101, 109, 98, 58, 99]
    let vb : Val := ⟨[2], some (List.replicate 1536 7)⟩
    let vc : Val := ⟨[3], none⟩
    let file := logBytes crc toyEnc (runOps Store.empty [Op.put ka ⟨[1], none⟩, Op.put kb vb]).1
    (∃ r, recoverWith applyEntryOld1 crc toyDec none file = .ok r ∧
      get (putOld r kc vc) kc = some ⟨[3], some (List.replicate 1536 7)⟩) ∧
    (∃ r, recover crc toyDec none file = .ok r ∧ get (put r kc vc) kc = some vc) := by
  intro crc ka kb kc vb vc file
  constructor
  · obtain ⟨r, hr, hp⟩ := exists_ok_of_okAnd (x := recoverWith applyEntryOld1 crc toyDec none file)
      (p := fun r => decide (get (putOld r kc vc) kc = some ⟨[3], some (List.replicate 1536 7)⟩))
      (by decide +kernel)
    exact ⟨r, hr, of_decide_eq_true hp⟩
  · obtain ⟨r, hr, hp⟩ := exists_ok_of_okAnd (x := recover crc toyDec none file)
      (p := fun r => decide (get (put r kc vc) kc = some vc)) (by decide +kernel)
    exact ⟨r, hr, of_decide_eq_true hp⟩

/-- **A put on an existing `emb:` key was not atomic** (class
    `tensor_store.slab_router.put_durable/embedding_record_replayed_without_its_metadata_record`,
    fixed by repo 6b9ec7ce; `applyEntryOld2` = replay before it): `put_durable` logs
    `EmbeddingSet` then `MetadataSet`; with the log cut between the two, the old replay returned
    the OLD body with the NEW embedding — `RecoverIsPrefixFull` is false of it.
    (`recover_is_prefix_full` proves it of the repaired replay for every cut.) -/
theorem torn_put_embedding_witness :
    let crc : Bytes → Nat := fun _ => 0
    let k := [101, 109, 98, 58, 97]
    let v1 : Val := ⟨[1], some (List.replicate 1536 1)⟩
    let v2 : Val := ⟨[2], some (List.replicate 1536 2)⟩
    let ops := [Op.put k v1, Op.put k v2]
    let n := (logBytes crc toyEnc ((runOps Store.empty ops).1.take 3)).length
    (runOps Store.empty ops).1.length = 4 ∧
    ¬ RecoverIsPrefixFull (recoverWith applyEntryOld2 crc toyDec) crc toyEnc ops n := by
  intro crc k v1 v2 ops n
  refine ⟨by decide +kernel, ?_⟩
  intro ⟨j, r, hj, hrec, hfull, _⟩
  obtain ⟨r0, hr0, hp⟩ := exists_ok_of_okAnd
    (x := recoverWith applyEntryOld2 crc toyDec none ((logBytes crc toyEnc (runOps Store.empty ops).1).take n))
    (p := fun r => decide (get r k = some ⟨[1], some (List.replicate 1536 2)⟩)) (by decide +kernel)
  rw [hr0] at hrec
  injection hrec with hrec
  subst hrec
  have h := hfull k (by decide)
  rw [of_decide_eq_true hp] at h
  match j, hj with
  | 0, _ => exact absurd h (by decide +kernel)
  | 1, _ => exact absurd h (by decide +kernel)
  | 2, _ => exact absurd h (by decide +kernel)
  | j + 3, hj => exact absurd hj (by simp [ops])

/-- **A logged entity id named another key on replay** (class
    `tensor_store.slab_router.recover/logged_entity_id_belongs_to_another_key`, fixed by repo
    6b9ec7ce; writer and replay as they were then: `runOpsOld`, `applyEntryOld2`):
    `put a (vector); delete a; put a (vector); put emb:y (Y); put emb:z (Z)` — the
    live `delete` of the non-`emb:` key kept its index entry, replay of its `EntityRemove` did
    not, so replay's ids ran one ahead and the `EmbeddingSet` of `emb:z` landed on `emb:y`.
    With the WHOLE log (no byte lost) the old replay made `get emb:y` return Z.
    (Since the fix "only `emb:` keys get an entity-index entry" the key `a` no longer has an id
    at all: `non_emb_vector_key_witness`.) -/
theorem logged_entity_id_witness :
    let crc : Bytes → Nat := fun _ => 0
    let a := [97]; let ky := [101, 109, 98, 58, 121]; let kz := [101, 109, 98, 58, 122]
    let vec := fun x => List.replicate 1536 x
    let ops := [Op.put a ⟨[1], some (vec 1)⟩, Op.delete a, Op.put a ⟨[2], some (vec 2)⟩,
                Op.put ky ⟨[3], some (vec 3)⟩, Op.put kz ⟨[4], some (vec 4)⟩]
    let n := (logBytes crc toyEnc (runOpsOld Store.empty ops).1).length
    ¬ RecoverIsPrefixFullOld (recoverWith applyEntryOld2 crc toyDec) crc toyEnc ops n := by
  intro crc a ky kz vec ops n
  intro ⟨j, r, hj, hrec, hfull, hack⟩
  obtain ⟨r0, hr0, hp⟩ := exists_ok_of_okAnd
    (x := recoverWith applyEntryOld2 crc toyDec none ((logBytes crc toyEnc (runOpsOld Store.empty ops).1).take n))
    (p := fun r => decide (get r ky = some ⟨[3], some (vec 4)⟩)) (by decide +kernel)
  rw [hr0] at hrec
  injection hrec with hrec
  subst hrec
  have h := hfull ky (by decide)
  rw [of_decide_eq_true hp] at h
  have h5 : 5 ≤ j := hack 5 (by decide) (by decide +kernel)
  have hj' : j ≤ 5 := by simpa [ops] using hj
  have : j = 5 := by omega
  subst this
  exact absurd h (by decide +kernel)

/-- **A vector stored durably under a non-`emb:` key left the key in `scan` after its deletion**
    (class `tensor_store.slab_router.put_durable/non_emb_key_with_vector_stays_in_scan_after_delete`;
    `putDurableOld` / `runOpsOld` / `applyEntryOld3` = the code before the fix "only `emb:` keys
    get an entity-index entry"): `put_durable a (vector); delete_durable a`.  Before the fix the
    put allocated an entity id for `a` and logged an `EmbeddingSet` record (5 records for the two
    operations); `delete` of a metadata-class key erases the metadata slab only, so the LIVE
    store went on listing `a` in `scan` while `get`/`exists` said absent — and the store
    RECOVERED from the whole log did not list it (replay of the `EntityRemove` record releases
    the id): live and recovered stores disagreed.  With the repaired `put_durable` /
    `apply_wal_entry` the key has no id, the two operations log 2 records, and neither store
    lists the key (for every operation list and crash chain: `scan_lists_only_readable_keys`). -/
theorem non_emb_vector_key_witness :
    let crc : Bytes → Nat := fun _ => 0
    let a := [97]
    let ops := [Op.put a ⟨[1], some (List.replicate 1536 1)⟩, Op.delete a]
    ((runOpsOld Store.empty ops).1.length = 5 ∧
      a ∈ scanKeys (runOpsOld Store.empty ops).2 ∧
      get (runOpsOld Store.empty ops).2 a = none ∧ exists_ (runOpsOld Store.empty ops).2 a = false ∧
      ∃ r, recoverWith applyEntryOld3 crc toyDec none (logBytes crc toyEnc (runOpsOld Store.empty ops).1) = .ok r ∧
        a ∉ scanKeys r) ∧
    ((runOps Store.empty ops).1.length = 2 ∧
      a ∉ scanKeys (runOps Store.empty ops).2 ∧
      ∃ r, recover crc toyDec none (logBytes crc toyEnc (runOps Store.empty ops).1) = .ok r ∧
        a ∉ scanKeys r ∧ get r a = none) := by
  intro crc a ops
  refine ⟨⟨by decide +kernel, by decide +kernel, by decide +kernel, by decide +kernel, ?_⟩,
    by decide +kernel, by decide +kernel, ?_⟩
  · obtain ⟨r, hr, hp⟩ := exists_ok_of_okAnd
      (x := recoverWith applyEntryOld3 crc toyDec none (logBytes crc toyEnc (runOpsOld Store.empty ops).1))
      (p := fun r => decide (a ∉ scanKeys r)) (by decide +kernel)
    exact ⟨r, hr, of_decide_eq_true hp⟩
  · obtain ⟨r, hr, hp⟩ := exists_ok_of_okAnd
      (x := recover crc toyDec none (logBytes crc toyEnc (runOps Store.empty ops).1))
      (p := fun r => decide (a ∉ scanKeys r ∧ get r a = none)) (by decide +kernel)
    exact ⟨r, hr, of_decide_eq_true hp⟩

/-! ### non-vacuity -/

/-- the codec assumptions are satisfiable -/
example : CodecOK (fun _ => 0) toyEnc toyDec := by
  exact ⟨toyDec_toyEnc, fun _ => by decide⟩

/-- a reachable state with two crashes (the first one mid-record) and a non-empty recovered map -/
example : ∃ f tr, Reach (fun _ => 0) toyEnc toyDec none f tr ∧ tr.length = 2 ∧ f ≠ [] := by
  have r0 := Reach.init (crc := fun _ => 0) (enc := toyEnc) (dec := toyDec)
  have r1 := Reach.round Store.empty [Op.put [107] ⟨[1], none⟩] 0 10 r0
    (by decide +kernel) (by unfold Fits; decide +kernel) (by decide +kernel) (by decide) (by decide +kernel)
  have r2 := Reach.round Store.empty [Op.put [107] ⟨[1], none⟩] 1 100 r1
    (by decide +kernel) (by unfold Fits; decide +kernel) (by decide +kernel) (by decide) (by decide +kernel)
  exact ⟨_, _, r2, by decide, by decide +kernel⟩

/-- the hypotheses of `checkpoint_crash_safe` hold of a `Manual`-mode store with an UNSYNCED tail
    (two records written, none synced) -/
example :
    let ops := [Op.put [107] ⟨[1], none⟩, Op.put [106] ⟨[2], none⟩]
    let sy := ops.foldl (Sys.op (fun _ => 0) toyEnc) ⟨.manual, Wal.openOn [], Store.empty, none⟩
    sy.mode = .manual ∧ sy.wal.syncedLen = 0 ∧ sy.wal.file.length = 28 ∧ sy.snap = none ∧
    sy.mem = (runOps Store.empty ops).2 ∧
    sy.wal.file = openRepair [] ++ logBytes (fun _ => 0) toyEnc (runOps Store.empty ops).1 := by
  decide +kernel

/-- the hypotheses of `rotation_keeps_acked_partial` are satisfiable with a non-empty log -/
example : (logBytes (fun _ => 0) toyEnc (runOps Store.empty [Op.put [1] ⟨[1], none⟩]).1).length ≤ 30 := by
  decide +kernel

end Neumann.Durable.Props
