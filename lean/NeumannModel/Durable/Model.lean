import NeumannModel.Common.FramedLog
/-
  C02 — durable store model.
    tensor_store/src/wal.rs          WalEntry, SyncMode, TensorWal::{append,sync,truncate,rotate},
                                     WalRecovery::{from_entries, all_operations}
    tensor_store/src/slab_router.rs  classify_key, put/get/delete/exists/scan,
                                     put_durable, delete_durable, checkpoint, recover, apply_wal_entry
    tensor_store/src/entity_index.rs get / get_or_create / remove (ids = vocabulary positions, tombstones)
  Follows /repo at 197dc525 (checkpoint fsyncs the log first), e374d74b (an `emb:` key stored
  without a usable vector clears the slab entry of its id, live and on replay), 6b9ec7ce
  ("replay ignores EmbeddingSet records": the entity id in the record is the writing session's)
  and the fix "only `emb:` keys get an entity-index entry / an `EmbeddingSet` record / a slab
  entry in `put_durable` and `apply_wal_entry`" (a vector stored under any other key stays in
  the metadata slab alone, as in `put`).
  The behaviours before those commits are kept as `putOld` / `applyEntryOld1` / `applyEntryOld2` /
  `applyEntryOld3` / `putDurableOld` / `stepOld` / `runOpsOld` / `recoverWith` /
  `Sys.ckptStepsOld` for the `…_witness` theorems only.
  Import-free apart from the shared framed-log model; executable.  bitcode is opaque: a WAL
  payload is a byte string and `dec : Bytes → Option Entry` (supplied by the harness, which
  runs the real `bitcode::deserialize`) says what it means.
-/
namespace Neumann.Durable
open Neumann.FramedLog

abbrev Bytes := List Nat

/-! ### association lists (BTreeMap / HashMap observed through `get`) -/

def aget {α β} [DecidableEq α] : List (α × β) → α → Option β
  | [], _ => none
  | (k', v) :: r, k => if k' = k then some v else aget r k

def aerase {α β} [DecidableEq α] (m : List (α × β)) (k : α) : List (α × β) :=
  m.filter (fun p => !decide (p.1 = k))

def aset {α β} [DecidableEq α] (m : List (α × β)) (k : α) (v : β) : List (α × β) :=
  (k, v) :: aerase m k

/-! ### values, entries, keys -/

/-- a `TensorData` as the router looks at it: the `_embedding` field when it is a
    `TensorValue::Vector` (raw f32 bytes), and every other field (opaque canonical bytes) -/
structure Val where
  body : Bytes
  emb : Option Bytes
  deriving DecidableEq, Repr

/-- `WalEntry` -/
inductive Entry where
  | metaSet (k : Bytes) (v : Val)
  | metaDel (k : Bytes)
  | embSet (id : Nat) (vec : Bytes)
  | embDel (id : Nat)
  | entCreate (k : Bytes) (id : Nat)
  | entRemove (k : Bytes)
  | txBegin (t : Nat)
  | txCommit (t : Nat)
  | txAbort (t : Nat)
  | checkpoint (id : Nat)
  deriving DecidableEq, Repr

inductive KeyClass where
  | embedding | graph | table | cache | metadata
  deriving DecidableEq, Repr

/-- `SlabRouter::classify_key` on the UTF-8 bytes of the key -/
def classify (k : Bytes) : KeyClass :=
  if [101, 109, 98, 58].isPrefixOf k then .embedding                          -- "emb:"
  else if [110, 111, 100, 101, 58].isPrefixOf k then .graph                   -- "node:"
  else if [101, 100, 103, 101, 58].isPrefixOf k then .graph                   -- "edge:"
  else if [116, 97, 98, 108, 101, 58].isPrefixOf k then .table                -- "table:"
  else if [95, 99, 97, 99, 104, 101, 58].isPrefixOf k then .cache             -- "_cache:"
  else .metadata

def isCacheKey (k : Bytes) : Bool := decide (classify k = .cache)

/-! ### entity index (vocabulary position = EntityId, `false` = tombstone) -/

def idxGetAux : List (Bytes × Bool) → Bytes → Nat → Option Nat
  | [], _, _ => none
  | (k', live) :: r, k, i => if live ∧ k' = k then some i else idxGetAux r k (i + 1)

def idxGet (v : List (Bytes × Bool)) (k : Bytes) : Option Nat := idxGetAux v k 0

def idxGetOrCreate (v : List (Bytes × Bool)) (k : Bytes) : Nat × List (Bytes × Bool) :=
  match idxGet v k with
  | some i => (i, v)
  | none => (v.length, v ++ [(k, true)])

def idxRemove (v : List (Bytes × Bool)) (k : Bytes) : List (Bytes × Bool) :=
  match idxGet v k with
  | some i => v.set i (k, false)
  | none => v

/-! ### the store -/

/-- `SlabRouterConfig::default().embedding_dim` -/
def embDim : Nat := 384

def dimOk (vec : Bytes) : Bool := vec.length == 4 * embDim

structure Store where
  md : List (Bytes × Val)        -- MetadataSlab
  cache : List (Bytes × Val)       -- CacheRing (eviction not modelled: fewer keys than capacity)
  vocab : List (Bytes × Bool)      -- EntityIndex
  slab : List (Nat × Bytes)        -- EmbeddingSlab
  deriving Repr

def Store.empty : Store := ⟨[], [], [], []⟩

def slabSet (s : List (Nat × Bytes)) (id : Nat) (vec : Bytes) : List (Nat × Bytes) :=
  if dimOk vec then aset s id vec else s        -- `embeddings.set` fails on a dimension mismatch

/-- `if self.embeddings.set(id, vec).is_err() { self.embeddings.delete(id) }` (repo e374d74b) -/
def slabPut (s : List (Nat × Bytes)) (id : Nat) (vec : Bytes) : List (Nat × Bytes) :=
  if dimOk vec then aset s id vec else aerase s id

/-- `SlabRouter::put`.  An `emb:` key always leaves the slab entry of its id either equal to the
    value's usable vector or absent (repo e374d74b). -/
def put (s : Store) (k : Bytes) (v : Val) : Store :=
  match classify k with
  | .embedding =>
      let ic := idxGetOrCreate s.vocab k
      let slab := match v.emb with
        | some vec => slabPut s.slab ic.1 vec
        | none => aerase s.slab ic.1
      { s with vocab := ic.2, slab := slab, md := aset s.md k v }
  | .cache => { s with cache := aset s.cache k v }
  | _ => { s with md := aset s.md k v }

/-- `SlabRouter::put` BEFORE repo e374d74b (a value without a usable vector left the slab entry
    of the id untouched).  Only used by `…_witness` theorems. -/
def putOld (s : Store) (k : Bytes) (v : Val) : Store :=
  match classify k with
  | .embedding =>
      let ic := idxGetOrCreate s.vocab k
      let slab := match v.emb with
        | some vec => slabSet s.slab ic.1 vec
        | none => s.slab
      { s with vocab := ic.2, slab := slab, md := aset s.md k v }
  | .cache => { s with cache := aset s.cache k v }
  | _ => { s with md := aset s.md k v }

/-- `SlabRouter::get` (`none` = NotFound) -/
def get (s : Store) (k : Bytes) : Option Val :=
  match classify k with
  | .embedding =>
      match idxGet s.vocab k with
      | some id =>
          match aget s.slab id with
          | some vec => some { body := ((aget s.md k).map (·.body)).getD [], emb := some vec }
          | none => aget s.md k
      | none => aget s.md k
  | .cache => aget s.cache k
  | _ => aget s.md k

/-- `SlabRouter::exists` -/
def exists_ (s : Store) (k : Bytes) : Bool :=
  match classify k with
  | .embedding => (idxGet s.vocab k).isSome || (aget s.md k).isSome
  | .cache => (aget s.cache k).isSome
  | _ => (aget s.md k).isSome

/-- `SlabRouter::delete`; the flag is `false` for `NotFound` -/
def delete (s : Store) (k : Bytes) : Store × Bool :=
  if !exists_ s k then (s, false) else
  match classify k with
  | .embedding =>
      let slab := match idxGet s.vocab k with
        | some id => aerase s.slab id
        | none => s.slab
      ({ s with slab := slab, vocab := idxRemove s.vocab k, md := aerase s.md k }, true)
  | .cache => ({ s with cache := aerase s.cache k }, true)
  | _ => ({ s with md := aerase s.md k }, true)

/-- `SlabRouter::scan("")` as a set (unsorted, may repeat) -/
def scanKeys (s : Store) : List Bytes :=
  s.md.map (·.1) ++ (s.vocab.filter (·.2)).map (·.1) ++ s.cache.map (·.1)

/-! ### durable operations: what is logged, then applied -/

/-- `put_durable`: records appended to the WAL (in order) and the new in-memory state.
    Only an `emb:` key whose value carries a vector allocates an entity id and logs an
    `EmbeddingSet` record before its `MetadataSet` record. -/
def putDurable (s : Store) (k : Bytes) (v : Val) : List Entry × Store :=
  if isCacheKey k then ([], put s k v) else
  if classify k = .embedding then
    match v.emb with
    | some vec =>
        let ic := idxGetOrCreate s.vocab k            -- `self.index.get_or_create(key)` before logging
        ([.embSet ic.1 vec, .metaSet k v], put { s with vocab := ic.2 } k v)
    | none => ([.metaSet k v], put s k v)
  else ([.metaSet k v], put s k v)

/-- `put_durable` BEFORE the fix "only `emb:` keys get an entity-index entry": the id was
    allocated and the `EmbeddingSet` record logged for ANY non-cache key whose value carries a
    vector; `delete` of such a key (metadata class: metadata slab only) never released the id,
    so `scan` went on listing the deleted key.  Only used by `…_witness` theorems. -/
def putDurableOld (s : Store) (k : Bytes) (v : Val) : List Entry × Store :=
  if isCacheKey k then ([], put s k v) else
  match v.emb with
  | some vec =>
      let ic := idxGetOrCreate s.vocab k
      ([.embSet ic.1 vec, .metaSet k v], put { s with vocab := ic.2 } k v)
  | none => ([.metaSet k v], put s k v)

/-- `delete_durable` (logs before the existence check of `delete`) -/
def deleteDurable (s : Store) (k : Bytes) : List Entry × Store × Bool :=
  if isCacheKey k then ([], delete s k) else
  let pre := match idxGet s.vocab k with
    | some id => [Entry.embDel id, Entry.entRemove k]
    | none => []
  (pre ++ [.metaDel k], delete s k)

/-- `apply_wal_entry` -/
def applyEntry (s : Store) : Entry → Store
  | .metaSet k v =>
      if classify k = .embedding then          -- same as `put`: only `emb:` keys have an id and a slab entry
        let ic := idxGetOrCreate s.vocab k
        let slab := match v.emb with
          | some vec => slabPut s.slab ic.1 vec
          | none => aerase s.slab ic.1         -- drop any stale slab entry
        { s with md := aset s.md k v, vocab := ic.2, slab := slab }
      else { s with md := aset s.md k v }
  | .metaDel k => { s with md := aerase s.md k }
  | .embSet _ _ => s      -- the logged id is the writing session's; the `MetadataSet` that follows carries the vector
  | .embDel id => { s with slab := aerase s.slab id }
  | .entCreate k _ => { s with vocab := (idxGetOrCreate s.vocab k).2 }
  | .entRemove k => { s with vocab := idxRemove s.vocab k }
  | .txBegin _ | .txCommit _ | .txAbort _ | .checkpoint _ => s

/-- `apply_wal_entry` BEFORE the fix "only `emb:` keys get an entity-index entry": a
    `MetadataSet` whose value carries a vector allocated an id and wrote the slab whatever the
    key class.  Only used by `…_witness` theorems. -/
def applyEntryOld3 (s : Store) : Entry → Store
  | .metaSet k v =>
      match v.emb with
      | some vec =>
          let ic := idxGetOrCreate s.vocab k
          { s with md := aset s.md k v, vocab := ic.2, slab := slabPut s.slab ic.1 vec }
      | none =>
          if classify k = .embedding then
            let ic := idxGetOrCreate s.vocab k
            { s with md := aset s.md k v, vocab := ic.2, slab := aerase s.slab ic.1 }
          else { s with md := aset s.md k v }
  | e => applyEntry s e

/-- `apply_wal_entry` BEFORE repo 6b9ec7ce "replay ignores EmbeddingSet records" (and before the
    fix above): the slab entry of the LOGGED entity id is overwritten.  Only used by `…_witness`
    theorems. -/
def applyEntryOld2 (s : Store) : Entry → Store
  | .embSet id vec => { s with slab := slabSet s.slab id vec }
  | e => applyEntryOld3 s e

/-- `apply_wal_entry` BEFORE repo e374d74b (and before the fixes above).  Only used by `…_witness` theorems. -/
def applyEntryOld1 (s : Store) : Entry → Store
  | .metaSet k v =>
      match v.emb with
      | some vec =>
          let ic := idxGetOrCreate s.vocab k
          { s with md := aset s.md k v, vocab := ic.2, slab := slabSet s.slab ic.1 vec }
      | none => { s with md := aset s.md k v }
  | e => applyEntryOld2 s e

/-! ### `WalRecovery::from_entries` -/

structure Rec where
  operations : List Entry := []
  committed : List Entry := []
  active : Option Nat := none
  bufs : List (Nat × List Entry) := []
  lastCkpt : Option Nat := none
  aborted : Nat := 0
  deriving Repr

def recStep (r : Rec) : Entry → Rec
  | .txBegin t => { r with active := some t, bufs := aset r.bufs t [] }
  | .txCommit t =>
      { r with
        committed := (match aget r.bufs t with | some ops => r.committed ++ ops | none => r.committed),
        bufs := aerase r.bufs t,
        active := if r.active = some t then none else r.active }
  | .txAbort t =>
      { r with
        bufs := aerase r.bufs t, aborted := r.aborted + 1,
        active := if r.active = some t then none else r.active }
  | .checkpoint id =>
      { r with lastCkpt := some id, operations := [], committed := [], bufs := [], active := none }
  | e =>
      match r.active with
      | some t =>
          (match aget r.bufs t with
           | some b => { r with bufs := aset r.bufs t (b ++ [e]) }
           | none => r)
      | none => { r with operations := r.operations ++ [e] }

def fromEntries (es : List Entry) : Rec := es.foldl recStep {}

/-- `all_operations`: single operations first, then every committed transaction's operations -/
def allOperations (r : Rec) : List Entry := r.operations ++ r.committed

/-! ### recovery from the bytes of the log file -/

inductive RecErr where
  | checksum      -- `Failed to replay WAL: Checksum mismatch …`
  deriving DecidableEq, Repr

def replay (s : Store) (es : List Entry) : Store := es.foldl applyEntry s

/-- entries `replay_with_validation` hands to `from_entries` -/
def entriesOf (crc : Bytes → Nat) (dec : Bytes → Option Entry) (file : Bytes) : List Entry × PEnd :=
  let pr := parse crc (fun p => (dec p).isSome) file
  (pr.1.filterMap dec, pr.2)

/-- `SlabRouter::recover(wal, cfg, snapshot)`; the attached log afterwards is `openRepair file` -/
def recover (crc : Bytes → Nat) (dec : Bytes → Option Entry) (snap : Option Store) (file : Bytes) :
    Except RecErr Store :=
  let pe := entriesOf crc dec file
  if pe.2 = .badCrc then .error .checksum
  else .ok (replay (snap.getD Store.empty) (allOperations (fromEntries pe.1)))

/-- `recover` with a given `apply_wal_entry` (for the pre-fix variants) -/
def recoverWith (app : Store → Entry → Store) (crc : Bytes → Nat) (dec : Bytes → Option Entry)
    (snap : Option Store) (file : Bytes) : Except RecErr Store :=
  let pe := entriesOf crc dec file
  if pe.2 = .badCrc then .error .checksum
  else .ok ((allOperations (fromEntries pe.1)).foldl app (snap.getD Store.empty))

/-! ### the writer: sync modes with an explicit durable length -/

inductive SyncMode where
  | immediate
  | batched (maxEntries : Nat)
  | manual
  deriving DecidableEq, Repr

structure Wal where
  file : Bytes          -- every byte handed to the writer, in order (BufWriter contents included)
  syncedLen : Nat       -- prefix that `flush + sync_all` has covered
  pending : Nat         -- `pending_sync_count`
  deriving Repr

/-- state right after `TensorWal::open` on existing bytes: tail repaired, everything left is durable -/
def Wal.openOn (bs : Bytes) : Wal :=
  { file := openRepair bs, syncedLen := (openRepair bs).length, pending := 0 }

/-- `append` = `write_entry_no_sync` + `maybe_sync` -/
def Wal.append (mode : SyncMode) (w : Wal) (recBytes : Bytes) : Wal :=
  let f := w.file ++ recBytes
  let p := w.pending + 1
  let doSync := match mode with
    | .immediate => true
    | .batched n => decide (p ≥ n)
    | .manual => false
  if doSync then { file := f, syncedLen := f.length, pending := 0 }
  else { file := f, syncedLen := w.syncedLen, pending := p }

/-- `fsync` / `wal_sync` -/
def Wal.sync (w : Wal) : Wal := { w with syncedLen := w.file.length, pending := 0 }

/-- `truncate` (`File::create` on the path; `pending_sync_count` is not reset) -/
def Wal.truncate (w : Wal) : Wal := { file := [], syncedLen := 0, pending := w.pending }

/-- `rotate`: current file becomes `<name>.1`, a fresh empty file is started.
    Recovery reads only the current file (`replay_with_validation` opens `self.path`). -/
def Wal.rotate (w : Wal) : Wal × Bytes := ({ file := [], syncedLen := 0, pending := w.pending }, w.file)

/-- `write_entry_no_sync` size check + `append` -/
def Wal.appendRot (mode : SyncMode) (maxSize : Nat) (w : Wal) (recBytes : Bytes) : Wal :=
  if w.file.length + recBytes.length > maxSize then Wal.append mode (Wal.rotate w).1 recBytes
  else Wal.append mode w recBytes

/-! ### a running durable store -/

inductive Op where
  | put (k : Bytes) (v : Val)
  | delete (k : Bytes)
  deriving DecidableEq, Repr

/-- records logged by one operation and the memory state after it -/
def step (s : Store) : Op → List Entry × Store
  | .put k v => putDurable s k v
  | .delete k => let r := deleteDurable s k; (r.1, r.2.1)

def runOps (s : Store) : List Op → List Entry × Store
  | [] => ([], s)
  | op :: ops =>
      let a := step s op
      let b := runOps a.2 ops
      (a.1 ++ b.1, b.2)

/-- `step` / `runOps` with `putDurableOld` (the writer before the fix "only `emb:` keys get an
    entity-index entry").  Only used by `…_witness` theorems. -/
def stepOld (s : Store) : Op → List Entry × Store
  | .put k v => putDurableOld s k v
  | .delete k => let r := deleteDurable s k; (r.1, r.2.1)

def runOpsOld (s : Store) : List Op → List Entry × Store
  | [] => ([], s)
  | op :: ops =>
      let a := stepOld s op
      let b := runOpsOld a.2 ops
      (a.1 ++ b.1, b.2)

/-- what the operations mean: a plain key → value map; the cache class is not part of it -/
def specApply (m : List (Bytes × Val)) : Op → List (Bytes × Val)
  | .put k v => if isCacheKey k then m else aset m k v
  | .delete k => if isCacheKey k then m else aerase m k

def specRun (m : List (Bytes × Val)) (ops : List Op) : List (Bytes × Val) := ops.foldl specApply m

structure Sys where
  mode : SyncMode
  wal : Wal
  mem : Store
  snap : Option Store      -- snapshot file (written temp-then-rename: atomic)
  deriving Repr

def Sys.log (crc : Bytes → Nat) (enc : Entry → Bytes) (sy : Sys) (es : List Entry) : Sys :=
  { sy with wal := es.foldl (fun w e => Wal.append sy.mode w (encodeRec crc (enc e))) sy.wal }

def Sys.op (crc : Bytes → Nat) (enc : Entry → Bytes) (sy : Sys) (o : Op) : Sys :=
  let r := step sy.mem o
  { Sys.log crc enc sy r.1 with mem := r.2 }

def Sys.sync (sy : Sys) : Sys := { sy with wal := sy.wal.sync }

/-- `checkpoint`, step 1 (repo 197dc525): the log is fsynced, whatever the sync mode -/
def Sys.ckptSync (sy : Sys) : Sys := sy.sync
/-- step 2: snapshot written (and renamed into place) -/
def Sys.ckptSnapshot (sy : Sys) : Sys := { sy with snap := some sy.mem }
/-- step 3: marker appended -/
def Sys.ckptMarker (crc : Bytes → Nat) (enc : Entry → Bytes) (sy : Sys) (id : Nat) : Sys :=
  Sys.log crc enc sy [.checkpoint id]
/-- step 4: log truncated -/
def Sys.ckptTruncate (sy : Sys) : Sys := { sy with wal := sy.wal.truncate }

/-- the states after each of the four atomic steps of `SlabRouter::checkpoint` -/
def Sys.ckptSteps (crc : Bytes → Nat) (enc : Entry → Bytes) (sy : Sys) (id : Nat) : List Sys :=
  let s1 := sy.ckptSync
  let s2 := s1.ckptSnapshot
  let s3 := s2.ckptMarker crc enc id
  [s1, s2, s3, s3.ckptTruncate]

/-- `checkpoint` -/
def Sys.checkpoint (crc : Bytes → Nat) (enc : Entry → Bytes) (sy : Sys) (id : Nat) : Sys :=
  (((sy.ckptSync).ckptSnapshot).ckptMarker crc enc id).ckptTruncate

/-- two threads under the log mutex as `checkpoint` holds it since repo a74fb575 (from its fsync to
    the truncation; `put_durable` / `delete_durable` take it before they log and apply): in every
    schedule of a writer's operations and one checkpoint, the four steps of the checkpoint run as
    ONE block between two operations.  `i` = how many operations the writer got in first. -/
def Sys.withCheckpointAt (crc : Bytes → Nat) (enc : Entry → Bytes) (sy : Sys) (ops : List Op) (i id : Nat) : Sys :=
  (ops.drop i).foldl (Sys.op crc enc) (Sys.checkpoint crc enc ((ops.take i).foldl (Sys.op crc enc) sy) id)

/-- the schedules that were possible BEFORE repo a74fb575 (the mutex was released between the
    fsync, the snapshot and the marker + truncate steps): `j` further operations of the writer run
    after the snapshot was taken and before the log is truncated.  Only used by `…_witness`
    theorems. -/
def Sys.withCheckpointAtOld (crc : Bytes → Nat) (enc : Entry → Bytes) (sy : Sys) (ops : List Op)
    (i j id : Nat) : Sys :=
  let s1 := (ops.take i).foldl (Sys.op crc enc) sy
  let s2 := s1.ckptSync.ckptSnapshot
  let s3 := ((ops.drop i).take j).foldl (Sys.op crc enc) s2
  let s4 := (s3.ckptMarker crc enc id).ckptTruncate
  ((ops.drop i).drop j).foldl (Sys.op crc enc) s4

/-- the three steps of `checkpoint` BEFORE repo 197dc525 (no fsync first).  Only used by
    `…_witness` theorems. -/
def Sys.ckptStepsOld (crc : Bytes → Nat) (enc : Entry → Bytes) (sy : Sys) (id : Nat) : List Sys :=
  let s2 := sy.ckptSnapshot
  let s3 := s2.ckptMarker crc enc id
  [s2, s3, s3.ckptTruncate]

/-- disk contents a crash can leave: any cut of the log at or after the synced length -/
def Sys.crashFile (sy : Sys) (n : Nat) : Bytes := sy.wal.file.take (max n sy.wal.syncedLen)

/-! ### scripts of operations and explicit syncs (the `Batched` / `Manual` acknowledgement rule) -/

/-- what a session does between `open` and the crash: durable operations and `wal_sync` calls -/
inductive Act where
  | op (o : Op)
  | sync
  deriving DecidableEq, Repr

def Sys.act (crc : Bytes → Nat) (enc : Entry → Bytes) (sy : Sys) : Act → Sys
  | .op o => Sys.op crc enc sy o
  | .sync => sy.sync

/-- the operations of a script, in order -/
def opsOf : List Act → List Op
  | [] => []
  | .op o :: r => o :: opsOf r
  | .sync :: r => opsOf r

/-- a freshly opened durable store (`open_durable` on an empty directory) -/
def Sys.fresh (mode : SyncMode) : Sys := ⟨mode, Wal.openOn [], Store.empty, none⟩

/-! ### the step boundaries of `TensorWal::rotate` -/

/-- the files of the log: the live file at the log path (`none`: no such file) and the rotated
    segments `<name>.n` (absent from the list: no such file) -/
structure LogDir where
  live : Option Bytes
  segs : List (Nat × Bytes)
  deriving DecidableEq, Repr

/-- `if from.exists() { rename(from, to) }` on two segment names -/
def LogDir.renameSeg (d : LogDir) (a b : Nat) : LogDir :=
  match aget d.segs a with
  | some c => { d with segs := aset (aerase d.segs a) b c }
  | none => d

/-- `for i in (1..max_rotated_files).rev() { rename .i -> .(i+1) }`: the directory after each rename,
    called with `i = max_rotated_files - 1` -/
def LogDir.shift : LogDir → Nat → List LogDir
  | _, 0 => []
  | d, i + 1 => (d.renameSeg (i + 1) (i + 2)) :: LogDir.shift (d.renameSeg (i + 1) (i + 2)) i

/-- `if self.path.exists() { rename(path, <name>.1) }` -/
def LogDir.retire (d : LogDir) : LogDir :=
  match d.live with
  | some c => { live := none, segs := aset d.segs 1 c }
  | none => d

/-- the directory after each file-system call of `rotate` (the live file has been flushed and
    fsynced first): oldest segment removed; segments shifted one by one; live file renamed to
    `.1`; fresh empty live file created -/
def LogDir.rotateSteps (m : Nat) (d : LogDir) : List LogDir :=
  let d0 : LogDir := { d with segs := aerase d.segs m }
  let sh := LogDir.shift d0 (m - 1)
  let d2 := (sh.getLast?.getD d0).retire
  [d0] ++ sh ++ [d2, { d2 with live := some [] }]

/-- what recovery reads: only the file at the log path (`TensorWal::open` creates it when missing) -/
def LogDir.recoverFile (d : LogDir) : Bytes := d.live.getD []

/-! ### appends that fail (`SizeLimitExceeded` with `auto_rotate = false`, I/O errors) -/

/-- `write_entry_no_sync` with `auto_rotate = false`: a record that would take the file beyond
    `max_size_bytes` is refused with `SizeLimitExceeded`; nothing is written -/
def Wal.appendLim (mode : SyncMode) (maxSize : Nat) (w : Wal) (recBytes : Bytes) : Option Wal :=
  if w.file.length + recBytes.length > maxSize then none else some (Wal.append mode w recBytes)

/-- memory after a `put_durable` / `delete_durable` that returned an error because one of its
    appends was refused (the error is returned before the in-memory apply): nothing is applied.
    `put_durable` calls `index.get_or_create(key)` BEFORE it logs the `EmbeddingSet` record of an
    `emb:` key whose value carries a vector (the record carries the id); since repo f5ce42e5 an
    id allocated there for a key that was NOT in the index (`created_entry`) is released again
    with `index.remove(key)` on both error paths.  What stays behind is a tombstoned vocabulary
    slot: the id is consumed (later keys get higher ids), no key is indexed that was not before. -/
def failMem (s : Store) : Op → Store
  | .put k v =>
      if isCacheKey k then s
      else if classify k = .embedding ∧ v.emb.isSome then
        match idxGet s.vocab k with
        | none => { s with vocab := idxRemove (idxGetOrCreate s.vocab k).2 k }
        | some _ => s
      else s
  | .delete _ => s

/-- `failMem` BEFORE repo f5ce42e5 (class
    `tensor_store.slab_router.put_durable/failed_put_leaves_entity_index_entry`): the entity-index
    entry allocated before logging was not undone.  Only used by `…_witness` theorems. -/
def failMemOld (s : Store) : Op → Store
  | .put k v =>
      if isCacheKey k then s
      else if classify k = .embedding ∧ v.emb.isSome then { s with vocab := (idxGetOrCreate s.vocab k).2 }
      else s
  | .delete _ => s

/-- one operation of which only the first `t` records could be appended (`none`, or `t` not less
    than the number of its records: all of them; the operation returns `Ok`).  Result: records
    appended, memory afterwards, `Ok`? -/
def stepF (s : Store) (o : Op) (t : Option Nat) : List Entry × Store × Bool :=
  match t with
  | none => ((step s o).1, (step s o).2, true)
  | some t =>
      if t < (step s o).1.length then ((step s o).1.take t, failMem s o, false)
      else ((step s o).1, (step s o).2, true)

/-- a session in which appends may fail: the log, the memory, and the operations that returned `Ok` -/
def runOpsF (s : Store) : List (Op × Option Nat) → List Entry × Store × List Op
  | [] => ([], s, [])
  | (o, t) :: r =>
      let a := stepF s o t
      let b := runOpsF a.2.1 r
      (a.1 ++ b.1, b.2.1, if a.2.2 then o :: b.2.2 else b.2.2)

/-- `stepF` / `runOpsF` BEFORE repo f5ce42e5 (`failMemOld`).  Only used by `…_witness` theorems. -/
def stepFOld (s : Store) (o : Op) (t : Option Nat) : List Entry × Store × Bool :=
  match t with
  | none => ((step s o).1, (step s o).2, true)
  | some t =>
      if t < (step s o).1.length then ((step s o).1.take t, failMemOld s o, false)
      else ((step s o).1, (step s o).2, true)

def runOpsFOld (s : Store) : List (Op × Option Nat) → List Entry × Store × List Op
  | [] => ([], s, [])
  | (o, t) :: r =>
      let a := stepFOld s o t
      let b := runOpsFOld a.2.1 r
      (a.1 ++ b.1, b.2.1, if a.2.2 then o :: b.2.2 else b.2.2)

/-- append the records of one operation until one is refused: the log, and how many were appended -/
def logLim (crc : Bytes → Nat) (enc : Entry → Bytes) (mode : SyncMode) (maxSize : Nat) (w : Wal) :
    List Entry → Wal × Nat
  | [] => (w, 0)
  | e :: es =>
      match Wal.appendLim mode maxSize w (encodeRec crc (enc e)) with
      | none => (w, 0)
      | some w' => let r := logLim crc enc mode maxSize w' es; (r.1, r.2 + 1)

/-- `put_durable` / `delete_durable` under `auto_rotate = false`, `max_size_bytes = maxSize` -/
def Sys.opLim (crc : Bytes → Nat) (enc : Entry → Bytes) (maxSize : Nat) (sy : Sys) (o : Op) : Sys :=
  let r := logLim crc enc sy.mode maxSize sy.wal (step sy.mem o).1
  { sy with wal := r.1, mem := (stepF sy.mem o (some r.2)).2.1 }

/-! ### `TensorStore` with a Bloom filter (`open_durable_with_bloom`, `recover_with_bloom`) -/

/-- the router plus the keys the filter has been given (`filter.add`).  `get` / `exists` answer
    "absent" without looking at the router for a key the filter says it has never seen; a real
    Bloom filter may also answer "maybe" for keys it was never given (`fp`, arbitrary). -/
structure BStore where
  store : Store
  added : List Bytes
  deriving Repr

def BStore.mightContain (fp : Bytes → Bool) (b : BStore) (k : Bytes) : Bool := b.added.contains k || fp k

/-- `TensorStore::get` with a filter -/
def BStore.get (fp : Bytes → Bool) (b : BStore) (k : Bytes) : Option Val :=
  if b.mightContain fp k then Neumann.Durable.get b.store k else none

/-- `TensorStore::exists` with a filter -/
def BStore.exists_ (fp : Bytes → Bool) (b : BStore) (k : Bytes) : Bool :=
  if b.mightContain fp k then Neumann.Durable.exists_ b.store k else false

/-- `TensorStore::put_durable`: `filter.add(key)`, then the router -/
def BStore.putDurable (b : BStore) (k : Bytes) (v : Val) : List Entry × BStore :=
  let r := Neumann.Durable.putDurable b.store k v
  (r.1, ⟨r.2, k :: b.added⟩)

/-- `TensorStore::delete_durable`: the filter is left alone -/
def BStore.deleteDurable (b : BStore) (k : Bytes) : List Entry × BStore × Bool :=
  let r := Neumann.Durable.deleteDurable b.store k
  (r.1, ⟨r.2.1, b.added⟩, r.2.2)

def BStore.step (b : BStore) : Op → List Entry × BStore
  | .put k v => b.putDurable k v
  | .delete k => let r := b.deleteDurable k; (r.1, r.2.1)

def BStore.runOps (b : BStore) : List Op → BStore
  | [] => b
  | op :: ops => BStore.runOps (b.step op).2 ops

/-- `open_durable_with_bloom`: empty store, empty filter -/
def BStore.empty : BStore := ⟨Store.empty, []⟩

/-- `recover_with_bloom`: recover, then rebuild the filter from `router.scan("")` -/
def recoverBloom (crc : Bytes → Nat) (dec : Bytes → Option Entry) (snap : Option Store) (file : Bytes) :
    Except RecErr BStore :=
  match recover crc dec snap file with
  | .ok r => .ok ⟨r, scanKeys r⟩
  | .error e => .error e

end Neumann.Durable
