import NeumannModel.Durable.Model
/-
  C02 — the sharded layout of the metadata slab on the recovery path (import-free apart from the
  durable model, executable).

  `TensorStore::recover(wal, cfg, Some(snapshot))` → `SlabRouter::recover` →
  `SlabRouter::load_from_file` → `snapshot::load_v3` → `SlabRouter::restore` →
  `MetadataSlab::restore(snapshot)` (tensor_store/src/metadata_slab.rs), then the log is replayed
  through `apply_wal_entry` → `MetadataSlab::set` / `MetadataSlab::delete`.

  The slab is `SHARD_COUNT = 16` independent `BTreeMap`s; a key lives in the shard
  `shard_index(key) = first UTF-8 BYTE % 16` (0 for the empty key).  `restore` distributes the ONE
  map of the snapshot over the shards:

      for (k, v) in snapshot.data { shards[shard_index(&k)].get_mut().insert(k, v); }

  `get` / `contains` / `set` / `delete` consult the key's own shard only.  The rest of the durable
  model (`Store.md`) is one association list: this file is what justifies that — the theorems of
  `ShardProps` say that what `get` answers after restore + replay does not depend on the number of
  shards nor on the assignment of keys to shards, AS LONG AS restore and get use the same one.

  Generic in the shard count `n` and in the assignment (`sh`, any function of the key's bytes);
  the insert side (`shI`, used by `restore`) and the lookup side (`shG`, used by get / set / delete)
  are separate parameters so that the mistake "restore routes by something else" is expressible
  (`firstChar`: the key's first CHARACTER, the seeded change C02_8).
-/
namespace Neumann.Durable.Shard

/-- the shard array: index ↦ that shard's map -/
abbrev Shards := Nat → List (Bytes × Val)

/-- `std::array::from_fn(|_| RwLock::new(BTreeMap::new()))` -/
def empty : Shards := fun _ => []

/-- `shards[sh(k) % n].insert(k, v)` — `MetadataSlab::set`, and one step of `restore` -/
def set (n : Nat) (sh : Bytes → Nat) (shs : Shards) (k : Bytes) (v : Val) : Shards :=
  fun i => if i = sh k % n then aset (shs i) k v else shs i

/-- `MetadataSlab::delete` -/
def delete (n : Nat) (sh : Bytes → Nat) (shs : Shards) (k : Bytes) : Shards :=
  fun i => if i = sh k % n then aerase (shs i) k else shs i

/-- `MetadataSlab::get` / `contains`: only the key's own shard is consulted -/
def get (n : Nat) (sh : Bytes → Nat) (shs : Shards) (k : Bytes) : Option Val :=
  aget (shs (sh k % n)) k

/-- `MetadataSlab::restore`: one insert per snapshot entry, routed by `shI` -/
def restore (n : Nat) (shI : Bytes → Nat) (data : List (Bytes × Val)) : Shards :=
  data.foldl (fun shs p => set n shI shs p.1 p.2) empty

/-- the metadata part of `apply_wal_entry` on the shards (cf. `metaApply` on one list) -/
def apply (n : Nat) (sh : Bytes → Nat) (shs : Shards) : Entry → Shards
  | .metaSet k v => set n sh shs k v
  | .metaDel k => delete n sh shs k
  | _ => shs

def replay (n : Nat) (sh : Bytes → Nat) (shs : Shards) (es : List Entry) : Shards :=
  es.foldl (apply n sh) shs

/-- the metadata slab `SlabRouter::recover` builds: the snapshot's map restored by `shI`, the
    operations of the log replayed through set / delete (which route by `shG`, as `get` does) -/
def recoverMd (n : Nat) (shI shG : Bytes → Nat) (crc : Bytes → Nat) (dec : Bytes → Option Entry)
    (snap : Option Store) (file : Bytes) : Except RecErr Shards :=
  let pe := entriesOf crc dec file
  if pe.2 = .badCrc then .error .checksum
  else .ok (replay n shG (restore n shI (snap.getD Store.empty).md) (allOperations (fromEntries pe.1)))

/-! ### the code's assignment, and the mistaken one -/

/-- `SHARD_COUNT` -/
def shardCount : Nat := 16

/-- `shard_index` before the `% SHARD_COUNT`: `key.as_bytes().first()`, 0 for the empty key -/
def firstByte : Bytes → Nat
  | [] => 0
  | b :: _ => b

/-- NOT the code (seeded change C02_8): `key.chars().next() as usize`, the first CHARACTER's
    code point (UTF-8 decoded; equal to `firstByte` exactly on ASCII-leading and empty keys) -/
def firstChar : Bytes → Nat
  | [] => 0
  | b0 :: r =>
    if b0 < 0x80 then b0
    else if b0 < 0xE0 then (b0 % 0x20) * 0x40 + (r.getD 0 0) % 0x40
    else if b0 < 0xF0 then ((b0 % 0x10) * 0x40 + (r.getD 0 0) % 0x40) * 0x40 + (r.getD 1 0) % 0x40
    else (((b0 % 0x08) * 0x40 + (r.getD 0 0) % 0x40) * 0x40 + (r.getD 1 0) % 0x40) * 0x40 + (r.getD 2 0) % 0x40

end Neumann.Durable.Shard
