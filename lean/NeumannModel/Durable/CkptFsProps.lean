import NeumannModel.Durable.CkptFsLemmas
import NeumannModel.Durable.Props
/-
  C02 — "Taking a checkpoint never loses or resurrects data, wherever a crash falls inside it",
  with the FILES of the snapshot step as state (`CkptFs.lean`): the snapshot file and the
  temporary file `<snapshot>.tmp` as bytes, and with them what an interrupted checkpoint leaves
  behind for every later checkpoint on the same path.
  ONLY the property theorems and their non-vacuity examples; the crash model `FReach`, the lemmas
  on the file-system calls and the concrete snapshot codec are in `CkptFsLemmas.lean`.

  The snapshot serializer is opaque: `ser` is the image `save_v3` writes for a store, `de` is
  `load`; assumed: `de (ser s) = some s` (C07's subject; the harness runs the real ones).  Nothing
  is assumed about `de` on any other byte string — in particular `de` may reject (as zstd and
  bitcode do) or accept an image with bytes behind it.

  The code opens the temporary file with `File::create` (created or TRUNCATED): `SnapFs.create`.
  The `_witness` theorems refute the variant that opens it without truncation (`SnapFs.openKeep`).
-/
namespace Neumann.Durable.Props
open Neumann.FramedLog Neumann.Durable

variable {crc : Bytes → Nat} {enc : Entry → Bytes} {dec : Bytes → Option Entry}
  {ser : Store → Bytes} {de : Bytes → Option Store}

/-- **The snapshot a save installs depends only on the image.**  Whatever the snapshot file and
    the temporary file held before — nothing, an older snapshot, the empty / partly written /
    complete temporary file of an interrupted checkpoint, any bytes at all — after
    `save_v3(path)` the snapshot file is exactly `header ++ body` and no temporary file is left. -/
theorem save_installs_exactly_the_image (d : SnapFs) (hdr body : Bytes) :
    SnapFs.save false d hdr body = ⟨some (hdr ++ body), none, 0⟩ :=
  save_create d hdr body

/-- **A crash inside the snapshot step leaves the old snapshot alone**: at every file-system call
    boundary before the rename and for every byte prefix of the image written so far, the
    snapshot file is what it was and the temporary file holds exactly that prefix (nothing of an
    older temporary file); after the rename the snapshot file is the image. -/
theorem save_crash_states_old_or_new (d : SnapFs) (hdr body : Bytes) :
    ∀ st ∈ SnapFs.saveStates false d hdr body,
      (st.snap = d.snap ∧ ∃ j, j ≤ (hdr ++ body).length ∧ st.tmp = some ((hdr ++ body).take j)) ∨
      st = ⟨some (hdr ++ body), none, 0⟩ := by
  intro st hst
  simp only [SnapFs.saveStates, List.mem_append, List.mem_singleton] at hst
  rcases hst with h | rfl
  · exact Or.inl (saveCrashTmp_shape h)
  · exact Or.inr (save_create d hdr body)

/-- non-vacuity: a directory with an old snapshot and a LONGER stale temporary file; the crash
    states of a save of a 3-byte image (header 2 bytes) are: temporary file empty, 1, 2, 2, 3 bytes
    — never a byte of the stale file — and the renamed state. -/
example :
    SnapFs.saveStates false ⟨some [9], some [7, 7, 7, 7, 7, 7], 4⟩ [1, 2] [3]
      = [⟨some [9], some [], 0⟩, ⟨some [9], some [1], 1⟩, ⟨some [9], some [1, 2], 2⟩,
         ⟨some [9], some [1, 2], 2⟩, ⟨some [9], some [1, 2, 3], 3⟩, ⟨some [1, 2, 3], none, 0⟩] := by
  decide

/-- **A completed checkpoint installs the image of the store, whatever an earlier interrupted
    checkpoint left behind**: the files after `checkpoint(path)` are the same for EVERY content of
    the directory before it, the snapshot file is exactly `ser mem`, it loads as the store, no
    temporary file is left, the log is empty — and recovery from these files returns the live
    store itself. -/
theorem checkpoint_installs_image_of_store (hs : ∀ s, de (ser s) = some s) (fy : FSys) (id : Nat) :
    (FSys.checkpoint crc enc ser false fy id).fs = ⟨some (ser fy.mem), none, 0⟩ ∧
    (∀ d' : SnapFs, (FSys.checkpoint crc enc ser false { fy with fs := d' } id).fs
        = (FSys.checkpoint crc enc ser false fy id).fs) ∧
    loadSnap de (FSys.checkpoint crc enc ser false fy id).fs = some (some fy.mem) ∧
    ∀ n, recoverFs crc dec de (FSys.checkpoint crc enc ser false fy id).fs
        ((FSys.checkpoint crc enc ser false fy id).crashFile n) = .ok fy.mem := by
  have hfs : ∀ fy' : FSys, (FSys.checkpoint crc enc ser false fy' id).fs = ⟨some (ser fy'.mem), none, 0⟩ := by
    intro fy'
    show SnapFs.save false fy'.fs _ _ = _
    rw [save_create, List.take_append_drop]
  have hload : loadSnap de (FSys.checkpoint crc enc ser false fy id).fs = some (some fy.mem) := by
    rw [hfs]; simp [loadSnap, hs]
  refine ⟨hfs fy, fun d' => by rw [hfs, hfs], hload, fun n => ?_⟩
  have hfile : (FSys.checkpoint crc enc ser false fy id).crashFile n = [] := by
    simp [FSys.checkpoint, FSys.crashFile, Wal.truncate]
  rw [hfile, recoverFs_of_load hload, recover_nil]
  rfl

/-- non-vacuity of `checkpoint_installs_image_of_store` (the concrete codec satisfies the
    hypothesis) and of the quantifier over the directory: a stale temporary file longer than the
    image, an old snapshot. -/
example :
    let fy : FSys := ⟨.immediate, Wal.openOn [], (runOps Store.empty [Op.put [97] ⟨[1], none⟩]).2,
      ⟨some [5, 5], some (List.replicate 40 7), 3⟩⟩
    (∀ s, toySnapDe (toySnapSer s) = some s) ∧
    (FSys.checkpoint (fun _ => 0) toyEnc toySnapSer false fy 0).fs = ⟨some (toySnapSer fy.mem), none, 0⟩ ∧
    (toySnapSer fy.mem).length < 40 :=
  ⟨toySnapDe_toySnapSer, by decide +kernel, by decide +kernel⟩

/-- **Checkpoint is crash safe at EVERY file-system call boundary, on a directory with ANY
    leftovers.**  From every reachable disk state whose snapshot file holds `snap` — the temporary
    file is ARBITRARY: absent, or whatever an earlier interrupted checkpoint left — a running
    store that has logged the records of any operation list takes a checkpoint.  At every crash
    state — log fsynced; temporary file created (truncated); any byte prefix of the image written;
    image complete and not renamed; renamed; marker partly or wholly appended; log truncated — and
    for every crash cut of the log the sync state allows: the snapshot file is readable, the disk
    state is again a reachable one with everything acknowledged, recovery succeeds and `get`
    answers every key outside the `_cache:` class exactly as the live store did before the
    checkpoint. -/
theorem checkpoint_fs_crash_safe (hc : CodecOK crc enc dec) (hs : ∀ s, de (ser s) = some s)
    {snap : Option Store} {f : Bytes} {tr : Trace}
    (h : Reach crc enc dec snap f tr) (mem0 : Store) (hr : recover crc dec snap f = .ok mem0)
    (ops : List Op) (hfit : Fits enc (runOps mem0 ops).1) (id : Nat)
    (hid : (enc (.checkpoint id)).length < U32)
    (fy : FSys) (hload : loadSnap de fy.fs = some snap) (hmem : fy.mem = (runOps mem0 ops).2)
    (hfile : fy.wal.file = openRepair f ++ logBytes crc enc (runOps mem0 ops).1) :
    ∀ st ∈ FSys.ckptStates crc enc ser false fy id, ∀ n,
      ∃ snap' r, loadSnap de st.fs = some snap' ∧
        Reach crc enc dec snap' (st.crashFile n) (tr ++ [(ops, ops.length)]) ∧
        recoverFs crc dec de st.fs (st.crashFile n) = .ok r ∧
        ∀ k, isCacheKey k = false → get r k = get fy.mem k := by
  have base := (checkpoint_crash_safe hc h mem0 hr ops hfit id hid (fy.view snap) rfl hmem hfile).1
  -- every file-level crash state is, seen through its snapshot file, one of the four abstract ones
  have lift : ∀ (st : FSys) (st' : Sys), st' ∈ Sys.ckptSteps crc enc (fy.view snap) id →
      loadSnap de st.fs = some st'.snap → st.view st'.snap = st' →
      ∀ n, ∃ snap' r, loadSnap de st.fs = some snap' ∧
        Reach crc enc dec snap' (st.crashFile n) (tr ++ [(ops, ops.length)]) ∧
        recoverFs crc dec de st.fs (st.crashFile n) = .ok r ∧
        ∀ k, isCacheKey k = false → get r k = get fy.mem k := by
    intro st st' hmem' hl hv n
    obtain ⟨hre, r, hrec, -, hget, -⟩ := base st' hmem' n
    have hcf : st.crashFile n = st'.crashFile n := by rw [← hv]; rfl
    refine ⟨st'.snap, r, hl, ?_, ?_, hget⟩
    · rw [hcf]; exact hre
    · rw [hcf, recoverFs_of_load hl]; exact hrec
  intro st hst
  simp only [FSys.ckptStates, SnapFs.saveStates, List.mem_append, List.mem_cons, List.mem_map,
    List.not_mem_nil, or_false] at hst
  rcases hst with (rfl | ⟨d, (hd | rfl), rfl⟩) | rfl | rfl
  · -- log fsynced
    exact lift _ (fy.view snap).ckptSync (by simp [Sys.ckptSteps]) hload rfl
  · -- inside the snapshot step, before the rename: old snapshot, whole log, a temporary file
    exact lift _ (fy.view snap).ckptSync (by simp [Sys.ckptSteps])
      (by rw [loadSnap_of_snap_eq (saveCrashTmp_shape hd).1]; exact hload) rfl
  · -- renamed
    exact lift _ (fy.view snap).ckptSync.ckptSnapshot (by simp [Sys.ckptSteps])
      (loadSnap_save hs _ _) rfl
  · -- marker appended
    exact lift _ ((fy.view snap).ckptSync.ckptSnapshot.ckptMarker crc enc id) (by simp [Sys.ckptSteps])
      (loadSnap_save hs _ _) rfl
  · -- log truncated
    exact lift _ ((fy.view snap).ckptSync.ckptSnapshot.ckptMarker crc enc id).ckptTruncate
      (by simp [Sys.ckptSteps]) (loadSnap_save hs _ _) rfl

/-- non-vacuity of `checkpoint_fs_crash_safe`: the hypotheses hold of a fresh store that has run
    one put, on a directory that holds a stale temporary file LONGER than the image; the list of
    crash states is not trivial (fsynced + 1 + image length + 1 temp states + renamed + marker +
    truncated). -/
example :
    let crc : Bytes → Nat := fun _ => 0
    let ops := [Op.put [97] ⟨[1], none⟩]
    let fy : FSys := ⟨.immediate,
      ⟨openRepair [] ++ logBytes crc toyEnc (runOps Store.empty ops).1, 0, 0⟩,
      (runOps Store.empty ops).2, ⟨none, some (List.replicate 40 7), 0⟩⟩
    Reach crc toyEnc toyDec none [] [] ∧ recover crc toyDec none [] = .ok Store.empty ∧
    loadSnap toySnapDe fy.fs = some none ∧
    (FSys.ckptStates crc toyEnc toySnapSer false fy 0).length = 1 + ((toySnapSer fy.mem).length + 2) + 1 + 2 :=
  ⟨Reach.init, recover_nil _, rfl, by decide +kernel⟩

/-- **Any number of crashes, at every step boundary of every checkpoint, temporary files left
    behind included — FULL observable image** (induction on the crash chain `FReach`): any number
    of recover / write / crash rounds in which a crash may fall inside the snapshot step of a
    checkpoint (leaving the temporary file empty, partly written or complete next to the old
    snapshot), after the rename, inside or after the marker, after the truncation, and in which
    every later round, every later checkpoint and every later recovery runs on the SAME paths
    with whatever was left there.  Recovery from the files succeeds and `get` on the recovered
    store answers, for every key outside the `_cache:` class, exactly what a history wrote that
    takes, epoch by epoch, a prefix of the operations containing all acknowledged ones. -/
theorem crash_chain_with_leftover_temp_files_recovers (hc : CodecOK crc enc dec)
    (hs : ∀ s, de (ser s) = some s) {d : SnapFs} {f : Bytes} {tr : Trace}
    (h : FReach crc enc dec ser de d f tr) :
    ∃ H r, PrefixOf tr H ∧ recoverFs crc dec de d f = .ok r ∧ FullEq r (specRun [] H) := by
  obtain ⟨snap, hl, hre⟩ := freach_sound hs h
  obtain ⟨H, r, hpre, hr, hfull⟩ := recover_then_write_full hc hre
  exact ⟨H, r, hpre, (recoverFs_of_load hl f).2 hr, hfull⟩

/-- non-vacuity of `crash_chain_with_leftover_temp_files_recovers`, on the shape of history that
    needs the truncation: one put; a checkpoint interrupted with the whole image in the temporary
    file, not renamed; recovery; a delete (the next image is shorter than the stale temporary
    file); a checkpoint that completes, run on the directory as the crash left it.  The final
    state is in `FReach`; its snapshot file is the 4-byte image of the empty store although the
    temporary file it was written through had held 9 bytes. -/
example :
    let crc : Bytes → Nat := fun _ => 0
    let ops1 := [Op.put [97] ⟨[1], none⟩]
    let mem1 := (runOps Store.empty ops1).2
    let left : SnapFs := ⟨none, some (toySnapSer mem1), (toySnapSer mem1).length⟩
    let log1 := openRepair [] ++ logBytes crc toyEnc (runOps Store.empty ops1).1
    let ops2 := [Op.delete [97]]
    FReach crc toyEnc toyDec toySnapSer toySnapDe left log1 ([] ++ [(ops1, ops1.length)]) ∧
    FReach crc toyEnc toyDec toySnapSer toySnapDe ⟨some [0, 0, 0, 0], none, 0⟩ []
      ([] ++ [(ops1, ops1.length)] ++ [(ops2, ops2.length)]) ∧
    (toySnapSer mem1).length = 9 := by
  intro crc ops1 mem1 left log1 ops2
  have h1 : FReach crc toyEnc toyDec toySnapSer toySnapDe left log1 ([] ++ [(ops1, ops1.length)]) :=
    FReach.ckptTmp Store.empty ops1 left FReach.init (by decide +kernel) (by unfold Fits; decide +kernel)
      (by decide +kernel)
  refine ⟨h1, ?_, by decide +kernel⟩
  have h2 := FReach.ckptDone (ser := toySnapSer) (de := toySnapDe) mem1 ops2 h1
    (by decide +kernel) (by unfold Fits; decide +kernel)
  have e : SnapFs.save false left ((toySnapSer (runOps mem1 ops2).2).take snapHeaderLen)
      ((toySnapSer (runOps mem1 ops2).2).drop snapHeaderLen) = ⟨some [0, 0, 0, 0], none, 0⟩ := by
    decide +kernel
  rw [e] at h2
  exact h2

/-- what a save through a temporary file opened WITHOUT truncation installs (NOT the code): the
    image followed by the bytes of the stale temporary file beyond the image's length — exact if
    and only if the stale file is not longer than the image. -/
theorem save_no_truncate_final_content (d : SnapFs) (hdr body : Bytes) :
    SnapFs.save true d hdr body
      = ⟨some (hdr ++ body ++ (d.tmp.getD []).drop (hdr.length + body.length)), none, 0⟩ ∧
    (SnapFs.save true d hdr body = SnapFs.save false d hdr body ↔
      (d.tmp.getD []).length ≤ (hdr ++ body).length) := by
  refine ⟨save_keep d hdr body, ?_⟩
  rw [save_keep, save_create]
  constructor
  · intro h
    injection h with h1 _ _
    injection h1 with h1
    have := congrArg List.length h1
    simp only [List.length_append, List.length_drop] at this ⊢
    omega
  · intro h
    rw [List.drop_eq_nil_of_le (by simpa using h), List.append_nil]

/-- **A temporary file opened without truncation breaks a COMPLETED checkpoint** (the regression
    class `tensor_store.snapshot.save/stale_temp_file_corrupts_checkpoint_snapshot`;
    `SnapFs.openKeep` = `OpenOptions::new().write(true).create(true)`): two puts; a checkpoint
    interrupted when its image is wholly in the temporary file and not yet renamed (old snapshot
    absent, log intact); recovery — fine; a delete, so that the next image is shorter; a checkpoint
    that COMPLETES (snapshot renamed into place, marker logged, log truncated); recovery: the
    snapshot file is the new image followed by the tail of the stale one, `load` rejects it and
    with the log truncated every acknowledged write is gone.  With the code as it is
    (`SnapFs.create`) the same history recovers exactly the surviving key. -/
theorem checkpoint_no_truncate_stale_tmp_witness :
    isSnapErr (staleTmpScenario true) = true ∧
    ∃ r, staleTmpScenario false = .ok r ∧ get r [98] = some ⟨[2], none⟩ ∧ get r [97] = none := by
  refine ⟨by decide +kernel, ?_⟩
  obtain ⟨r, hr, hp⟩ := exists_ok_of_okAndF
    (x := staleTmpScenario false)
    (p := fun r => decide (get r [98] = some ⟨[2], none⟩ ∧ get r [97] = none)) (by decide +kernel)
  exact ⟨r, hr, of_decide_eq_true hp⟩

end Neumann.Durable.Props
