import NeumannModel.Durable.ShardLemmas
import NeumannModel.Durable.Props
/-
  C02 — "reopening a durable store from its log and latest checkpoint yields … every write whose
  call had returned success", on the SHARDED metadata slab (`Shard.lean`): what `get` answers for
  a key after `MetadataSlab::restore` of the snapshot and the replay of the log is what the
  one-list model of the rest of this area (`recover … .md`, about which `Props` speaks) answers —
  for every number of shards and EVERY assignment of keys to shards, provided restore routes a key
  where get looks for it.  ONLY the property theorems and their non-vacuity example; the simulation lemmas are in
  `ShardLemmas.lean`.  The `_witness` theorem refutes the variant whose restore routes by the
  key's first character while get routes by its first byte.
-/
namespace Neumann.Durable.Props
open Neumann.FramedLog Neumann.Durable

/-- **`MetadataSlab::restore` loses and moves nothing, whatever the sharding.**  For every shard
    count, every assignment of keys to shards and every snapshot map (unique keys): after
    `restore`, `get` of every key answers what the snapshot holds for it. -/
theorem restore_get_is_snapshot_get (n : Nat) (sh : Bytes → Nat) (data : List (Bytes × Val))
    (hnd : (data.map (·.1)).Nodup) (k : Bytes) :
    Shard.get n sh (Shard.restore n sh data) k = aget data k := by
  have h0 : ShAgree n sh Shard.empty [] := fun _ => rfl
  have := shagree_restore_aux n sh data h0 k
  unfold Shard.restore
  rw [this, aget_foldl_aset data hnd k []]
  cases aget data k <;> rfl

/-- **Recovery on the sharded slab is recovery on one map, whatever the sharding.**  For every
    shard count `n`, every assignment `sh` of keys to shards, every snapshot (unique keys) and
    every log file: recovery of the sharded slab is refused exactly when `recover` is, and
    otherwise `get` of EVERY key on the shards answers `aget (recover …).md` — the value every
    theorem of `Props` about the recovered store (`recover_is_prefix_full`, `checkpoint_crash_safe`,
    `recover_then_write_full`, …) is stated for.  So every acknowledged write is readable through
    `get` after recovery from snapshot + log, whichever shard its key belongs to. -/
theorem recovered_get_whatever_the_sharding (n : Nat) (sh : Bytes → Nat) (crc : Bytes → Nat)
    (dec : Bytes → Option Entry) (snap : Option Store) (file : Bytes)
    (hnd : ((snap.getD Store.empty).md.map (·.1)).Nodup) :
    match recover crc dec snap file, Shard.recoverMd n sh sh crc dec snap file with
    | .ok s, .ok shs => ∀ k, Shard.get n sh shs k = aget s.md k
    | .error _, .error _ => True
    | _, _ => False := by
  unfold recover Shard.recoverMd
  by_cases hb : (entriesOf crc dec file).2 = .badCrc
  · simp [hb]
  · simp only [hb, if_false]
    intro k
    rw [replay_md]
    exact shagree_replay _ (fun key => restore_get_is_snapshot_get n sh _ hnd key) k

/-- non-vacuity: a snapshot holding "к" (first byte 0xD0) and "a", a log that overwrites "a":
    sixteen shards by first byte, `get` finds both values -/
example :
    let shs := Shard.replay 16 Shard.firstByte
      (Shard.restore 16 Shard.firstByte [([0xD0, 0xBA], ⟨[1], none⟩), ([97], ⟨[2], none⟩)]) [.metaSet [97] ⟨[3], none⟩]
    (Shard.get 16 Shard.firstByte shs [0xD0, 0xBA], Shard.get 16 Shard.firstByte shs [97]) =
      (some ⟨[1], none⟩, some ⟨[3], none⟩) := by decide

/-- **Witness (seeded change C02_8): restore that routes by the first CHARACTER.**  `restore`
    sends "к" (U+043A, 1082 % 16 = 10) to shard 10, `get` looks in shard 0xD0 % 16 = 0: the key,
    held by the snapshot, is not found after restore + replay; the ASCII key is; a later set of
    the lost key puts a SECOND copy into shard 0 while the orphan stays in shard 10. -/
theorem restore_by_first_char_loses_key_witness :
    let data : List (Bytes × Val) := [([0xD0, 0xBA], ⟨[1], none⟩), ([97], ⟨[2], none⟩)]
    let shs := Shard.replay 16 Shard.firstByte (Shard.restore 16 Shard.firstChar data) [.metaSet [97] ⟨[3], none⟩]
    aget data [0xD0, 0xBA] = some ⟨[1], none⟩ ∧
    Shard.get 16 Shard.firstByte shs [0xD0, 0xBA] = none ∧
    Shard.get 16 Shard.firstByte shs [97] = some ⟨[3], none⟩ ∧
    (Shard.set 16 Shard.firstByte shs [0xD0, 0xBA] ⟨[4], none⟩) 10 = [([0xD0, 0xBA], ⟨[1], none⟩)] := by decide

end Neumann.Durable.Props
